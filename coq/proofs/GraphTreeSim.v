(* C09, static trees: on a tree-free state (no static-tree node, no creator column referring to one)
   the tree-aware operations coincide with the operations of model/Graph.v, and tree-freeness is
   preserved by them.  Hence every theorem about step_op transfers to the tree-free fragment of
   step_op_t.  No invariant is needed. *)
From Coq Require Import List NArith Bool Lia.
From SV Require Import lib.Bytes lib.Closure model.Graph model.GraphDump model.GraphInv model.GraphTree
  proofs.GraphBase proofs.GraphNodes proofs.GraphInvP proofs.GraphPrims proofs.GraphFrames.
Import ListNotations.
Open Scope N_scope.

Definition TF (ns : list node) : Prop :=
  forall n, In n ns -> fst (nk n) <> KTree /\ forall c, ncre n = Some c -> fst c <> KTree.
Definition TFs (s : st) : Prop := TF (nodes s).

Lemma no_tree_b_iff s : no_tree_b s = true <-> TFs s.
Proof.
  unfold no_tree_b, TFs, TF. rewrite forallb_forall. split; intros H n Hn; specialize (H n Hn).
  - apply andb_true_iff in H. destruct H as [H1 H2]. split.
    + intros E. rewrite E in H1. discriminate.
    + intros c Hc E. rewrite Hc, E in H2. discriminate.
  - destruct H as [H1 H2]. apply andb_true_iff. split.
    + destruct (fst (nk n)); try reflexivity. congruence.
    + destruct (ncre n) as [c|]; [|reflexivity]. specialize (H2 c eq_refl). destruct (fst c); try reflexivity. congruence.
Qed.

Lemma TFs_nodes s s' : nodes s' = nodes s -> TFs s -> TFs s'.
Proof. unfold TFs. intros ->. auto. Qed.

Lemma TF_map (g : node -> node) ns :
  (forall n, nk (g n) = nk n) ->
  (forall n c, ncre (g n) = Some c -> ncre n = Some c \/ fst c <> KTree) -> TF ns -> TF (map g ns).
Proof.
  intros Hk Hc H n' Hn'. apply in_map_iff in Hn'. destruct Hn' as [n [<- Hn]]. destruct (H n Hn) as [H1 H2].
  split; [rewrite Hk; exact H1|]. intros c Hcc. destruct (Hc n c Hcc) as [E|E]; [apply H2; exact E | exact E].
Qed.

Lemma upd_node_TF k f s :
  (forall n, nk (f n) = nk n) -> (forall n c, ncre (f n) = Some c -> ncre n = Some c \/ fst c <> KTree) ->
  TFs s -> TFs (upd_node k f s).
Proof.
  intros Hk Hc H. unfold TFs. rewrite nodes_upd_node. unfold updn. apply TF_map; [| |exact H].
  - intros n. destruct (key_eqb (nk n) k); [apply Hk | reflexivity].
  - intros n c. destruct (key_eqb (nk n) k); [apply Hc | auto].
Qed.

Lemma set_detached_rec_TF k b s : TFs s -> TFs (set_detached_rec k b s).
Proof.
  intros H. unfold TFs. rewrite nodes_set_detached_rec. unfold setdet. apply TF_map; [| |exact H].
  - intros n. destruct (mem_key _ _); reflexivity.
  - intros n c. destruct (mem_key _ _); cbn; auto.
Qed.

Lemma node_detach_TF k s s' : node_detach k s = Ok s' -> TFs s -> TFs s'.
Proof.
  unfold node_detach. destruct (find_node k s) as [n|]; [|discriminate].
  destruct (ncre n); [|intros H; inversion H; auto]. intros H HT; inversion H; subst s'.
  assert (H1 : TFs (upd_node k (fun n0 => mkNode (nk n0) None true) s)).
  { apply upd_node_TF; [reflexivity | intros n0 c Hc; discriminate | exact HT]. }
  destruct (ndet n); [exact H1 | apply set_detached_rec_TF; exact H1].
Qed.

Lemma after_lost_product_nodes oc s s' : after_lost_product oc s = Ok s' -> nodes s' = nodes s.
Proof. unfold after_lost_product. destruct (fst oc); try discriminate; intros H; inversion H; reflexivity. Qed.

Lemma node_reattach_TF k c s s' : fst c <> KTree -> node_reattach k c s = Ok s' -> TFs s -> TFs s'.
Proof.
  intros Hc. unfold node_reattach. destruct (find_node k s) as [n|]; [|discriminate].
  destruct (find_node c s) as [cn|]; [|discriminate].
  destruct (negb (ndet n)); [discriminate|]. destruct (key_eqb c k); [discriminate|].
  destruct (negb (creator_kind_ok _ _)); [discriminate|]. destruct (mem_key c _); [discriminate|].
  intros H HT.
  assert (H1 : TFs (upd_node k (fun n0 => mkNode (nk n0) (Some c) (ndet cn)) s)).
  { apply upd_node_TF; [reflexivity | intros n0 c0 H0; inversion H0; subst; right; exact Hc | exact HT]. }
  destruct (ncre n) as [oc|].
  - destruct (negb (is_detached oc s)); [discriminate|].
    destruct (after_lost_product oc _) as [s2|t|t] eqn:E; try discriminate. cbn in H. inversion H; subst s'.
    apply set_detached_rec_TF. eapply TFs_nodes; [eapply after_lost_product_nodes; exact E | exact H1].
  - cbn in H. inversion H; subst s'. apply set_detached_rec_TF. exact H1.
Qed.

(* state propagation does not touch the node table *)
Lemma set_sstate_nodes l new d s s' : set_sstate l new d s = Ok s' -> nodes s' = nodes s.
Proof.
  unfold set_sstate. destruct (find_step l s); [|intros H; inversion H; reflexivity].
  destruct (d && _); [discriminate|]. intros H; inversion H. reflexivity.
Qed.
Lemma set_fstate_hash_nodes l new newh s s' : set_fstate_hash l new newh s = Ok s' -> nodes s' = nodes s.
Proof.
  unfold set_fstate_hash. destruct (find_file l s); [|intros H; inversion H; reflexivity].
  destruct (needs_hash new && _); [discriminate|]. destruct (fstate_eqb new FUndeclared && _); [discriminate|].
  intros H; inversion H. reflexivity.
Qed.

Lemma foldM_nodes {A} (f : st -> A -> res st) (l : list A) s :
  (forall s a, wpg false (f s a) (fun s' => nodes s' = nodes s)) ->
  wpg false (foldM f l s) (fun s' => nodes s' = nodes s).
Proof.
  intros Hf. apply (wpg_foldM false f (fun s' => nodes s' = nodes s)); [|reflexivity].
  intros s1 a _ H1. eapply wpg_weaken; [apply Hf|]. intros s2 H2. congruence.
Qed.

Lemma mark_nodes fuel :
  (forall l s, wpg false (mark_step_pending_f fuel l s) (fun s' => nodes s' = nodes s)) /\
  (forall f s, wpg false (mark_file_outdated_f fuel f s) (fun s' => nodes s' = nodes s)).
Proof.
  induction fuel as [|fuel [IHs IHf]]; [split; intros; exact I|]. split.
  - intros l s. cbn [mark_step_pending_f]. destruct (sstate_of l s) as [old|]; [|exact I].
    assert (Hmain : forall after, (forall s1, wpg false (after s1) (fun s' => nodes s' = nodes s1)) ->
               wpg false (bind (set_sstate l SPending false s) after) (fun s' => nodes s' = nodes s)).
    { intros after Ha. apply wpg_bind. destruct (set_sstate l SPending false s) as [s1|t|t] eqn:E; try exact I.
      cbn. eapply wpg_weaken; [apply Ha|]. intros s2 H2. rewrite H2. eapply set_sstate_nodes. exact E. }
    assert (Hprop : forall s1, wpg false (foldM (fun s f => match fstate_of f s with
                                             | Some FBuilt => mark_file_outdated_f fuel f s
                                             | _ => Ok s end) (file_sinks_of_step l s1) s1) (fun s' => nodes s' = nodes s1)).
    { intros s1. apply foldM_nodes. intros s2 f. destruct (fstate_of f s2) as [[]|]; try (cbn; reflexivity). apply IHf. }
    destruct old; try (cbn; reflexivity).
    + apply Hmain. intros s1. cbn. reflexivity.
    + apply Hmain. exact Hprop.
    + apply Hmain. exact Hprop.
  - intros f s. cbn [mark_file_outdated_f].
    destruct (fstate_of f s) as [[]|]; try exact I; [|cbn; reflexivity].
    apply wpg_bind. unfold set_fstate. destruct (set_fstate_hash f FOutdated None s) as [s1|t|t] eqn:E; try exact I.
    cbn. eapply wpg_weaken; [apply foldM_nodes; intros; apply IHs|].
    intros s2 H2. rewrite H2. eapply set_fstate_hash_nodes. exact E.
Qed.

Lemma mark_file_outdated_nodes f s : wpg false (mark_file_outdated f s) (fun s' => nodes s' = nodes s).
Proof. apply (proj2 (mark_nodes _)). Qed.
Lemma mark_step_pending_nodes l s : wpg false (mark_step_pending l s) (fun s' => nodes s' = nodes s).
Proof. apply (proj1 (mark_nodes _)). Qed.

Lemma ok_of_wpg {A} (r : res A) Q a : wpg false r Q -> r = Ok a -> Q a.
Proof. intros H ->. exact H. Qed.

(* Trellis.create keeps tree-freeness when neither the key nor the creator is a tree *)
Lemma foldM_TF {A} (f : st -> A -> res st) (l : list A) :
  (forall s a s', f s a = Ok s' -> TFs s -> TFs s') ->
  forall s s', foldM f l s = Ok s' -> TFs s -> TFs s'.
Proof.
  intros Hf. induction l as [|a l IH]; intros s s' H HT; cbn in H; [inversion H; subst; exact HT|].
  destruct (f s a) as [s1|t|t] eqn:E; try discriminate. cbn in H. eapply IH; [exact H | eapply Hf; eassumption].
Qed.

Lemma file_initialize_row_nodes l f s s' : file_initialize_row l f s = Ok s' -> nodes s' = nodes s.
Proof.
  unfold file_initialize_row.
  set (state := match f, find_file l s with
                | FUndeclared, Some r => _ | FPlanned, Some r => _ | _, _ => f end).
  destruct (match find_file l s with Some _ => set_fstate l state s | None => _ end) as [s1|t|t] eqn:E1; try discriminate.
  cbn [bind]. assert (H1 : nodes s1 = nodes s).
  { destruct (find_file l s).
    - eapply set_fstate_hash_nodes. exact E1.
    - destruct (needs_hash state); [discriminate|]. destruct (fstate_eqb state FUndeclared && _); [discriminate|].
      inversion E1. reflexivity. }
  destruct state; try (intros H; inversion H; subst; exact H1).
  intros H. rewrite <- H1. exact (ok_of_wpg _ _ _ (mark_file_outdated_nodes l s1) H).
Qed.

Lemma create_TF k creator arg s s' :
  fst k <> KTree -> (forall c, creator = Some c -> fst c <> KTree) ->
  create k creator arg s = Ok s' -> TFs s -> TFs s'.
Proof.
  intros Hk Hc. unfold create. destruct (creator_ok k creator s) as [[]|t|t]; try discriminate. cbn [bind].
  set (cdet := match creator with None => true | Some c => is_detached c s end).
  intros H HT.
  assert (Hnode : forall s1,
            match find_node k s with
            | Some n =>
              if negb (ndet n) then Internal 113
              else
                let s1 := upd_node k (fun n => mkNode (nk n) creator cdet) s in
                do s2 <- match ncre n with
                         | None => Ok s1
                         | Some oc => if negb (is_detached oc s) then Internal 114 else after_lost_product oc s1
                         end;
                let s3 := del_all_sources k s2 in
                foldM (fun s p => detach_any p s) (products k s3) s3
            | None => Ok (set_nodes s (nodes s ++ [mkNode k creator cdet]))
            end = Ok s1 -> TFs s1).
  { intros s1. destruct (find_node k s) as [n|].
    - destruct (negb (ndet n)); [discriminate|]. cbn zeta.
      assert (H0 : TFs (upd_node k (fun n0 => mkNode (nk n0) creator cdet) s)).
      { apply upd_node_TF; [reflexivity | | exact HT]. intros n0 c H0. cbn in H0. right. apply Hc. exact H0. }
      intros H1.
      assert (H2 : forall s2, TFs s2 -> foldM (fun s p => detach_any p s) (products k (del_all_sources k s2)) (del_all_sources k s2) = Ok s1 -> TFs s1).
      { intros s2 HT2 Hf. eapply (foldM_TF (fun s p => detach_any p s)); [|exact Hf|].
        - intros a b c. apply node_detach_TF.
        - exact HT2. }
      destruct (ncre n) as [oc|].
      + destruct (negb (is_detached oc s)); [discriminate|].
        destruct (after_lost_product oc _) as [s2|t|t] eqn:E; try discriminate. cbn [bind] in H1.
        apply (H2 s2); [|exact H1]. eapply TFs_nodes; [eapply after_lost_product_nodes; exact E | exact H0].
      + cbn [bind] in H1. apply (H2 _ H0 H1).
    - intros H1. inversion H1; subst s1. unfold TFs. cbn. intros n Hn. apply in_app_or in Hn.
      destruct Hn as [Hn|[<-|[]]]; [apply HT; exact Hn|]. cbn. split; [exact Hk | exact Hc]. }
  match type of H with bind ?r _ = _ => destruct r as [s1|t|t] eqn:E1; try discriminate end.
  cbn [bind] in H. specialize (Hnode s1 E1).
  destruct arg.
  - eapply TFs_nodes; [eapply file_initialize_row_nodes; exact H | exact Hnode].
  - unfold step_initialize_row in H. inversion H; subst s'. exact Hnode.
  - inversion H; subst s'. exact Hnode.
Qed.

(* ------------------------------------------------------------------------------------------ *)
(* the tree-aware functions coincide with the originals on tree-free states                    *)
(* ------------------------------------------------------------------------------------------ *)
Lemma owning_trees_nil p s : TFs s -> owning_trees p s = [].
Proof.
  intros HT. unfold owning_trees.
  assert (H : filter (fun n => kind_eqb (fst (nk n)) KTree && negb (ndet n) && is_prefix (snd (nk n)) p) (nodes s) = []).
  { unfold TFs in HT. revert HT. generalize (nodes s). intros ns. induction ns as [|n ns IH]; intros HT; [reflexivity|]. cbn.
    destruct (HT n (or_introl eq_refl)) as [H1 _].
    assert (E : kind_eqb (fst (nk n)) KTree = false) by (destruct (fst (nk n)); try reflexivity; congruence).
    rewrite E. cbn. apply IH. intros m Hm. apply HT. right. exact Hm. }
  rewrite H. reflexivity.
Qed.

Lemma find_owning_tree_none p s : TFs s -> find_owning_tree p s = Ok None.
Proof. intros HT. unfold find_owning_tree. rewrite owning_trees_nil; [reflexivity | exact HT]. Qed.

Lemma tree_guard_ok c l s : TFs s -> tree_guard c l s = Ok tt.
Proof.
  intros HT. unfold tree_guard. destruct (kind_eqb (fst c) KTree); [reflexivity|].
  rewrite find_owning_tree_none; [reflexivity | exact HT].
Qed.

Lemma declare_file_t_eq c l f s : TFs s -> declare_file_t c l f s = declare_file c l f s.
Proof.
  intros HT. unfold declare_file_t. rewrite tree_guard_ok; [|exact HT]. destruct f; reflexivity.
Qed.

Lemma node_key_not_tree k s : TFs s -> find_node k s <> None -> fst k <> KTree.
Proof.
  intros HT H. unfold find_node in H. fold (findn k (nodes s)) in H.
  destruct (findn k (nodes s)) as [n|] eqn:E; [|congruence]. apply findn_In in E. destruct E as [Hin Hk].
  rewrite <- Hk. apply HT. exact Hin.
Qed.

Lemma static_declarer_eq c l s : TFs s -> static_declarer c l s = Ok c.
Proof.
  intros HT. unfold static_declarer. destruct (kind_eqb (fst c) KTree); [reflexivity|].
  rewrite find_owning_tree_none; [reflexivity | exact HT].
Qed.

Lemma check_declaration_node_t_eq c l role s :
  TFs s -> fst c <> KTree -> check_declaration_node_t c l role s = check_declaration_node c l role s.
Proof.
  intros HT Hck. unfold check_declaration_node_t, check_declaration_node.
  assert (Hc : kind_eqb (fst c) KTree = false).
  { destruct (kind_eqb (fst c) KTree) eqn:E; [apply kind_eqb_eq in E; contradiction | reflexivity]. }
  destruct (existing_claim l s) as [[[ro cr]|]|t|t] eqn:E; try reflexivity. cbn [bind].
  destruct ((ro =? role) && key_eqb cr c); [reflexivity|].
  assert (Hcr : kind_eqb (fst cr) KTree = false).
  { unfold existing_claim in E. unfold find_node in E. fold (findn (KFile, l) (nodes s)) in E.
    destruct (findn (KFile, l) (nodes s)) as [n|] eqn:En; [|discriminate].
    destruct (find_file l s); [|discriminate]. destruct (ndet n); [discriminate|].
    destruct (ncre n) as [c0|] eqn:Ec; [|discriminate]. destruct (role_of (fstt f)); [|discriminate].
    inversion E; subst. apply findn_In in En. destruct En as [Hin _].
    destruct (HT n Hin) as [_ H2]. specialize (H2 cr Ec). destruct (fst cr); try reflexivity. congruence. }
  rewrite Hc, Hcr. reflexivity.
Qed.

Lemma foldM_eq_inv {A S} (f g : S -> A -> res S) (I : S -> Prop) l :
  (forall s a, I s -> f s a = g s a) -> (forall s a s', I s -> g s a = Ok s' -> I s') ->
  forall s, I s -> foldM f l s = foldM g l s.
Proof.
  intros Hfg Hinv. induction l as [|a l IH]; intros s Hs; cbn [foldM]; [reflexivity|].
  rewrite (Hfg s a Hs). destruct (g s a) as [s1|t|t] eqn:E; cbn [bind]; try reflexivity.
  apply IH. eapply Hinv; eassumption.
Qed.

Lemma declare_file_TF c l f s s' : TFs s -> declare_file c l f s = Ok s' -> TFs s'.
Proof.
  intros HT. unfold declare_file.
  assert (Hc : forall s1, create (KFile, l) (Some c) (InitFile f) s = Ok s1 -> TFs s1).
  { intros s1 H. apply (create_TF (KFile, l) (Some c) (InitFile f) s s1); [discriminate | | exact H | exact HT].
    intros c0 E. inversion E; subst c0. apply (node_key_not_tree c s HT).
    unfold create, creator_ok in H. destruct (find_node c s); [discriminate | cbn in H; discriminate H]. }
  destruct f; try discriminate;
    (destruct (create (KFile, l) (Some c) _ s) as [s1|t|t] eqn:E; try discriminate; cbn [bind]; specialize (Hc s1 eq_refl)).
  - intros H; inversion H; subst; exact Hc.
  - intros H; inversion H; subst; exact Hc.
  - destruct (attached_step_sinks l s1); [|discriminate]. intros H; inversion H; subst; exact Hc.
Qed.

Lemma static_second_fold_eq c todo : forall s0, TFs s0 ->
  foldM (fun s (dl : key * str) => declare_file_t (fst dl) (snd dl) FUnconfirmed s) (map (fun l => (c, l)) todo) s0 =
  foldM (fun s l => declare_file c l FUnconfirmed s) todo s0.
Proof.
  induction todo as [|l todo IH]; intros s0 HT; cbn [foldM map]; [reflexivity|].
  cbn [fst snd]. rewrite declare_file_t_eq; [|exact HT].
  destruct (declare_file c l FUnconfirmed s0) as [s1|t|t] eqn:E; cbn [bind]; try reflexivity.
  apply IH. eapply declare_file_TF; eassumption.
Qed.

Lemma declare_static_files_t_eq c paths s :
  TFs s -> declare_static_files_t c paths s = declare_static_files c paths s.
Proof.
  intros HT. unfold declare_static_files_t, declare_static_files.
  destruct (negb (is_some (find_node c s))) eqn:Ec; [reflexivity|].
  assert (Hck : fst c <> KTree).
  { apply (node_key_not_tree c s HT). apply is_some_true. apply negb_false_iff in Ec. exact Ec. }
  assert (Htodo : forall acc,
            foldM (fun acc l => do d <- static_declarer c l s; do isnew <- check_declaration_node_t d l 61 s;
                                Ok (if isnew : bool then acc ++ [(d, l)] else acc)) paths (map (fun l => (c, l)) acc) =
            match foldM (fun acc l => do isnew <- check_declaration_node c l 61 s;
                                      Ok (if isnew : bool then acc ++ [l] else acc)) paths acc with
            | Ok todo => Ok (map (fun l => (c, l)) todo) | Usage t => Usage t | Internal t => Internal t end).
  { induction paths as [|p paths IH]; intros acc; cbn [foldM]; [reflexivity|].
    rewrite static_declarer_eq; [|exact HT]. cbn [bind]. rewrite check_declaration_node_t_eq; [|exact HT|exact Hck].
    destruct (check_declaration_node c p 61 s) as [[]|t|t]; cbn [bind]; try reflexivity.
    - rewrite <- IH. rewrite map_app. reflexivity.
    - apply IH. }
  specialize (Htodo []). cbn [map] in Htodo. rewrite Htodo. clear Htodo.
  set (R := foldM (fun acc l => do isnew <- check_declaration_node c l 61 s;
                              Ok (if isnew : bool then acc ++ [l] else acc)) paths []).
  destruct R as [todo|t|t]; cbn [bind]; try reflexivity.
  apply static_second_fold_eq. exact HT.
Qed.

Lemma is_detached_nodes_eq' x s s' : nodes s' = nodes s -> is_detached x s' = is_detached x s.
Proof. intros H. unfold is_detached, find_node. rewrite H. reflexivity. Qed.

Lemma resolve_supply_file_t_eq step l rn s :
  TFs s -> resolve_supply_file_t step l rn s = resolve_supply_file step l rn s.
Proof.
  intros HT. unfold resolve_supply_file_t. destruct (is_detached (KFile, l) s); [|reflexivity].
  rewrite find_owning_tree_none; [reflexivity | exact HT].
Qed.

Lemma resolve_supply_file_TF step l rn s r : TFs s -> resolve_supply_file step l rn s = Ok r -> TFs (fst r).
Proof.
  intros HT. unfold resolve_supply_file.
  assert (Hc : forall s1, create (KFile, l) None (InitFile FUndeclared) s = Ok s1 -> TFs s1).
  { intros s1 H. apply (create_TF (KFile, l) None (InitFile FUndeclared) s s1); [discriminate | intros c E; discriminate | exact H | exact HT]. }
  assert (Hfin : forall s1, TFs s1 ->
            (let isnew := negb (has_dep (KFile, l) (KStep, step) s1) in
             if negb isnew && rn then Usage 205 else Ok (s1, isnew)) = Ok r -> TFs (fst r)).
  { intros s1 H1. cbn zeta. destruct (negb (negb _) && rn); [discriminate|]. intros H; inversion H. exact H1. }
  destruct (find_node (KFile, l) s) as [n|].
  - destruct (ncre n).
    + destruct (fstate_of l s) as [[]|]; try discriminate; cbn [bind]; apply Hfin; exact HT.
    + destruct (create _ None _ s) as [s1|t|t] eqn:E; try discriminate. cbn [bind]. apply Hfin. apply Hc. reflexivity.
  - destruct (create _ None _ s) as [s1|t|t] eqn:E; try discriminate. cbn [bind]. apply Hfin. apply Hc. reflexivity.
Qed.

Lemma add_dep_nodes a b dyn s s' : add_dep a b dyn s = Ok s' -> nodes s' = nodes s.
Proof.
  unfold add_dep. destruct (has_dep a b s); [discriminate|]. destruct (negb _); [discriminate|].
  intros H; inversion H. reflexivity.
Qed.

Lemma supply_files_t_eq step paths rn dyn s :
  TFs s -> supply_files_t step paths rn dyn s = supply_files step paths rn dyn s.
Proof.
  intros HT. unfold supply_files_t, supply_files.
  rewrite (foldM_eq_inv _ (fun (acc : st * list str) l =>
             do x <- resolve_supply_file step l rn (fst acc);
             Ok (fst x, if snd x then snd acc ++ [l] else snd acc)) (fun acc => TFs (fst acc))); [reflexivity| | |exact HT].
  - intros acc l Ha. rewrite resolve_supply_file_t_eq; [reflexivity | exact Ha].
  - intros acc l acc' Ha H. destruct (resolve_supply_file step l rn (fst acc)) as [x|t|t] eqn:E; try discriminate.
    cbn [bind] in H. inversion H; subst acc'. cbn [fst]. eapply resolve_supply_file_TF; eassumption.
Qed.

Lemma supply_files_TF step paths rn dyn s s' : TFs s -> supply_files step paths rn dyn s = Ok s' -> TFs s'.
Proof.
  intros HT. unfold supply_files.
  destruct (foldM _ paths (s, [])) as [r|t|t] eqn:E; try discriminate. cbn [bind].
  assert (Hr : TFs (fst r)).
  { assert (Hgen : forall a : st * list str, TFs (fst a) ->
              foldM (fun (acc : st * list str) l =>
                       do x <- resolve_supply_file step l rn (fst acc);
                       Ok (fst x, if snd x then snd acc ++ [l] else snd acc)) paths a = Ok r -> TFs (fst r)).
    { clear E. induction paths as [|p paths IH]; intros a Ha E; cbn [foldM] in E.
      - inversion E; subst. exact Ha.
      - destruct (resolve_supply_file step p rn (fst a)) as [x|t|t] eqn:Ex; try discriminate. cbn [bind] in E.
        eapply IH; [|exact E]. cbn [fst]. eapply resolve_supply_file_TF; eassumption. }
    apply (Hgen (s, [])); [exact HT | exact E]. }
  destruct (match snd r with [] => false | _ => _ end); [discriminate|].
  intros H. eapply (foldM_TF (fun s l => add_dep (KFile, l) (KStep, step) dyn s)); [|exact H|exact Hr].
  intros a b c Hab Ha. eapply TFs_nodes; [eapply add_dep_nodes; exact Hab | exact Ha].
Qed.

Lemma add_output_edge_nodes step l dyn s s' : add_output_edge step l dyn s = Ok s' -> nodes s' = nodes s.
Proof. unfold add_output_edge. destruct (would_cycle _ _ s); [discriminate|]. apply add_dep_nodes. Qed.

Lemma out_fold_eq k label dyn f ls s :
  TFs s ->
  foldM (fun s l => do s' <- declare_file_t k l f s; add_output_edge label l dyn s') ls s =
  foldM (fun s l => do s' <- declare_file k l f s; add_output_edge label l dyn s') ls s.
Proof.
  intros HT. apply (foldM_eq_inv _ _ TFs); [| |exact HT].
  - intros s0 l H0. rewrite declare_file_t_eq; [reflexivity | exact H0].
  - intros s0 l s1 H0 H. destruct (declare_file k l f s0) as [s2|t|t] eqn:E; try discriminate. cbn [bind] in H.
    eapply TFs_nodes; [eapply add_output_edge_nodes; exact H|]. eapply declare_file_TF; eassumption.
Qed.

Lemma out_fold_TF k label dyn f ls s s' :
  TFs s -> foldM (fun s l => do s' <- declare_file k l f s; add_output_edge label l dyn s') ls s = Ok s' -> TFs s'.
Proof.
  intros HT H. eapply (foldM_TF (fun s l => do s' <- declare_file k l f s; add_output_edge label l dyn s')); [|exact H|exact HT].
  intros s0 l s1 H1 H0. destruct (declare_file k l f s0) as [s2|t|t] eqn:E; try discriminate. cbn [bind] in H1.
  eapply TFs_nodes; [eapply add_output_edge_nodes; exact H1|]. eapply declare_file_TF; eassumption.
Qed.

Lemma fold_add_env_nodes label dyn rep env s : nodes (fold_left (fun s e => add_env label e dyn rep s) env s) = nodes s.
Proof.
  revert s. induction env as [|e env IH]; intros s; cbn; [reflexivity|]. rewrite IH.
  destruct (add_env_frame label e dyn rep s) as [E _]. exact E.
Qed.

Lemma define_step_new_t_eq creator label inp env out vol nd s :
  TFs s -> find_node creator s <> None ->
  define_step_new_t creator label inp env out vol nd s = define_step_new creator label inp env out vol nd s.
Proof.
  intros HT Hc. unfold define_step_new_t, define_step_new.
  destruct (foldM _ out tt) as [[]|t|t]; cbn [bind]; try reflexivity.
  destruct (foldM _ vol tt) as [[]|t|t]; cbn [bind]; try reflexivity.
  destruct (existsb _ out); [reflexivity|].
  destruct (create (KStep, label) (Some creator) (InitStep nd) s) as [s1|t|t] eqn:E1; cbn [bind]; try reflexivity.
  assert (H1 : TFs s1).
  { apply (create_TF (KStep, label) (Some creator) (InitStep nd) s s1); [discriminate | | exact E1 | exact HT]. intros c E. inversion E; subst c.
    apply (node_key_not_tree creator s HT Hc). }
  rewrite supply_files_t_eq; [|exact H1].
  destruct (supply_files label inp true false s1) as [s2|t|t] eqn:E2; cbn [bind]; try reflexivity.
  assert (H2 : TFs s2) by (eapply supply_files_TF; eassumption).
  assert (H3 : TFs (fold_left (fun s e => add_env label e false true s) env s2)).
  { eapply TFs_nodes; [apply fold_add_env_nodes | exact H2]. }
  set (s3 := fold_left (fun s e => add_env label e false true s) env s2) in *.
  rewrite (out_fold_eq (KStep, label) label false FPlanned out s3 H3).
  destruct (foldM _ out s3) as [s4|t|t] eqn:E4; cbn [bind]; try reflexivity.
  apply out_fold_eq. eapply out_fold_TF; eassumption.
Qed.

Lemma define_step_new_TF creator label inp env out vol nd s s' :
  TFs s -> find_node creator s <> None ->
  define_step_new creator label inp env out vol nd s = Ok s' -> TFs s'.
Proof.
  intros HT Hc. unfold define_step_new.
  destruct (foldM _ out tt) as [[]|t|t]; cbn [bind]; try discriminate.
  destruct (foldM _ vol tt) as [[]|t|t]; cbn [bind]; try discriminate.
  destruct (existsb _ out); [discriminate|].
  destruct (create (KStep, label) (Some creator) (InitStep nd) s) as [s1|t|t] eqn:E1; cbn [bind]; try discriminate.
  assert (H1 : TFs s1).
  { apply (create_TF (KStep, label) (Some creator) (InitStep nd) s s1); [discriminate | | exact E1 | exact HT]. intros c E. inversion E; subst c.
    apply (node_key_not_tree creator s HT Hc). }
  destruct (supply_files label inp true false s1) as [s2|t|t] eqn:E2; cbn [bind]; try discriminate.
  assert (H2 : TFs s2) by (eapply supply_files_TF; eassumption).
  assert (H3 : TFs (fold_left (fun s e => add_env label e false true s) env s2)).
  { eapply TFs_nodes; [apply fold_add_env_nodes | exact H2]. }
  destruct (foldM _ out _) as [s4|t|t] eqn:E4; cbn [bind]; try discriminate.
  intros H. eapply out_fold_TF; [|exact H]. eapply out_fold_TF; eassumption.
Qed.

Lemma define_step_t_eq creator label inp env out vol nd s :
  TFs s -> define_step_t creator label inp env out vol nd s = define_step creator label inp env out vol nd s.
Proof.
  intros HT. unfold define_step_t, define_step.
  destruct (is_some (find_node creator s)) eqn:Ec; cbn [negb]; [|reflexivity]. apply is_some_true in Ec.
  destruct (key_eqb creator root_key && root_has_step s); [reflexivity|].
  destruct (key_eqb creator (KStep, label)); [reflexivity|].
  destruct (mem_key creator _); [reflexivity|].
  destruct (find_node (KStep, label) s) as [n|].
  - destruct (ndet n && can_recycle label inp env out vol s); [reflexivity|].
    destruct (negb (ndet n)); [reflexivity|]. apply define_step_new_t_eq; assumption.
  - apply define_step_new_t_eq; assumption.
Qed.

Lemma upd_step_nodes l g s : nodes (upd_step l g s) = nodes s.
Proof. reflexivity. Qed.

Lemma define_step_TF creator label inp env out vol nd s s' :
  TFs s -> define_step creator label inp env out vol nd s = Ok s' -> TFs s'.
Proof.
  intros HT. unfold define_step.
  destruct (is_some (find_node creator s)) eqn:Ec; cbn [negb]; [|discriminate]. apply is_some_true in Ec.
  destruct (key_eqb creator root_key && root_has_step s); [discriminate|].
  destruct (key_eqb creator (KStep, label)); [discriminate|].
  destruct (mem_key creator _); [discriminate|].
  destruct (find_node (KStep, label) s) as [n|].
  - destruct (ndet n && can_recycle label inp env out vol s).
    + destruct (node_reattach (KStep, label) creator s) as [s1|t|t] eqn:E1; try discriminate. cbn [bind].
      assert (H1 : TFs s1).
      { eapply node_reattach_TF; [|exact E1|exact HT]. apply (node_key_not_tree creator s HT Ec). }
      set (s2 := upd_step label _ s1). assert (H2 : TFs s2) by exact H1.
      destruct (sstate_of label s2) as [[]|]; try (intros H; inversion H; subst; exact H2).
      intros H. eapply TFs_nodes; [exact (ok_of_wpg _ _ _ (mark_step_pending_nodes label s2) H) | exact H2].
    + destruct (negb (ndet n)); [discriminate|]. apply define_step_new_TF; assumption.
  - apply define_step_new_TF; assumption.
Qed.

Lemma todo_fold_eq (k : key) role s2 ls : forall acc,
  foldM (fun acc l => do isnew <- check_declaration_node k l role s2; Ok (if isnew : bool then acc ++ [l] else acc)) ls acc =
  foldM (fun acc l => do isnew <- check_declaration_node k l role s2; Ok (if isnew : bool then acc ++ [l] else acc)) ls acc.
Proof. reflexivity. Qed.

Lemma amend_step_t_eq label inp env out vol s :
  TFs s -> amend_step_t label inp env out vol s = amend_step label inp env out vol s.
Proof.
  intros HT. unfold amend_step_t, amend_step.
  destruct (negb (is_some (find_node (KStep, label) s) && is_some (find_step label s))); [reflexivity|].
  rewrite supply_files_t_eq; [|exact HT].
  destruct (supply_files label inp false true s) as [s1|t|t] eqn:E1; cbn [bind]; try reflexivity.
  assert (H1 : TFs s1) by (eapply supply_files_TF; eassumption).
  set (s2 := fold_left (fun s e => add_env label e true false s) env s1).
  assert (H2 : TFs s2). { eapply TFs_nodes; [apply fold_add_env_nodes | exact H1]. }
  destruct (foldM _ out []) as [out'|t|t]; cbn [bind]; try reflexivity.
  destruct (foldM _ vol []) as [vol'|t|t]; cbn [bind]; try reflexivity.
  destruct (existsb _ out'); [reflexivity|].
  rewrite (out_fold_eq (KStep, label) label true FPlanned out' s2 H2).
  destruct (foldM _ out' s2) as [s3|t|t] eqn:E3; cbn [bind]; try reflexivity.
  apply out_fold_eq. eapply out_fold_TF; eassumption.
Qed.

Lemma amend_step_TF label inp env out vol s s' : TFs s -> amend_step label inp env out vol s = Ok s' -> TFs s'.
Proof.
  intros HT. unfold amend_step.
  destruct (negb (is_some (find_node (KStep, label) s) && is_some (find_step label s))); [discriminate|].
  destruct (supply_files label inp false true s) as [s1|t|t] eqn:E1; cbn [bind]; try discriminate.
  assert (H1 : TFs s1) by (eapply supply_files_TF; eassumption).
  set (s2 := fold_left (fun s e => add_env label e true false s) env s1).
  assert (H2 : TFs s2). { eapply TFs_nodes; [apply fold_add_env_nodes | exact H1]. }
  destruct (foldM _ out []) as [out'|t|t]; cbn [bind]; try discriminate.
  destruct (foldM _ vol []) as [vol'|t|t]; cbn [bind]; try discriminate.
  destruct (existsb _ out'); [discriminate|].
  destruct (foldM _ out' s2) as [s3|t|t] eqn:E3; cbn [bind]; try discriminate.
  intros H. eapply out_fold_TF; [|exact H]. eapply out_fold_TF; eassumption.
Qed.

Lemma unused_tree_files_nil s : TFs s -> unused_tree_files s = [].
Proof.
  intros HT. unfold unused_tree_files.
  assert (H : filter (fun n => kind_eqb (fst (nk n)) KFile &&
                           match ncre n with Some t => tree_attached t s | None => false end &&
                           match attached_step_sinks (snd (nk n)) s with [] => true | _ => false end) (nodes s) = []).
  { assert (Hall : forall n, In n (nodes s) -> match ncre n with Some t => tree_attached t s | None => false end = false).
    { intros n Hn. destruct (ncre n) as [t|] eqn:Ec; [|reflexivity]. destruct (HT n Hn) as [_ H2].
      specialize (H2 t Ec). unfold tree_attached. destruct (fst t); try reflexivity. congruence. }
    revert Hall. generalize (nodes s). intros ns. induction ns as [|n ns IH]; intros Hall; [reflexivity|]. cbn.
    rewrite (Hall n (or_introl eq_refl)), andb_false_r. cbn.
    apply IH. intros m Hm. apply Hall. right. exact Hm. }
  rewrite H. reflexivity.
Qed.

Lemma delete_detached_t_eq s : TFs s -> delete_detached_t s = delete_detached s.
Proof. intros HT. unfold delete_detached_t. rewrite unused_tree_files_nil; [reflexivity | exact HT]. Qed.

(* the simulation *)
Theorem step_op_t_base_eq o s : no_tree_b s = true -> step_op_t (OpBase o) s = step_op o s.
Proof.
  intros H. apply no_tree_b_iff in H. destruct o; cbn [step_op_t step_op]; try reflexivity.
  - apply declare_static_files_t_eq. exact H.
  - apply define_step_t_eq. exact H.
  - apply amend_step_t_eq. exact H.
  - apply delete_detached_t_eq. exact H.
Qed.

(* ------------------------------------------------------------------------------------------ *)
(* the tree-free fragment is closed under the 14 base operations                               *)
(* ------------------------------------------------------------------------------------------ *)
Lemma mark_consumers_pending_nodes f s : wpg false (mark_consumers_pending f s) (fun s' => nodes s' = nodes s).
Proof. unfold mark_consumers_pending. apply foldM_nodes. intros; apply mark_step_pending_nodes. Qed.

Lemma update_file_hashes_nodes c hs s : wpg false (update_file_hashes c hs s) (fun s' => nodes s' = nodes s).
Proof.
  unfold update_file_hashes. apply wpg_bind. destruct (foldM _ hs []) as [plan|t|t]; try exact I. cbn [wpg].
  apply wpg_bind. eapply wpg_weaken.
  { apply foldM_nodes. intros s0 x. apply wpg_of_ok. intros s1 H. eapply set_fstate_hash_nodes. exact H. }
  intros s1 H1. cbn zeta. apply wpg_bind. eapply wpg_weaken.
  { apply foldM_nodes. intros s0 l. unfold handle_updated_file.
    destruct (fstate_of l s0) as [[]|]; try (cbn; reflexivity);
      try (destruct (step_creator_of_file l s0); [apply mark_step_pending_nodes | cbn; reflexivity]).
    apply mark_consumers_pending_nodes. }
  intros s2 H2. apply wpg_bind. eapply wpg_weaken.
  { apply foldM_nodes. intros s0 l. unfold handle_deleted_file. apply wpg_bind.
    assert (Ha : wpg false (match fstate_of l s0 with
                            | Some FPlanned => match step_creator_of_file l s0 with
                                               | Some c => mark_step_pending c s0 | None => Ok s0 end
                            | _ => Ok s0 end) (fun s' => nodes s' = nodes s0)).
    { destruct (fstate_of l s0) as [[]|]; try (cbn; reflexivity).
      destruct (step_creator_of_file l s0); [apply mark_step_pending_nodes | cbn; reflexivity]. }
    eapply wpg_weaken; [exact Ha|]. intros s1' Hn. eapply wpg_weaken; [apply mark_consumers_pending_nodes|].
    intros s2' Hn2. congruence. }
  intros s3 H3. eapply wpg_weaken; [apply foldM_nodes; intros; apply mark_consumers_pending_nodes|].
  intros s4 H4. congruence.
Qed.

Lemma wpg_TF_nodes (r : res st) s : TFs s -> wpg false r (fun s' => nodes s' = nodes s) -> wpg false r TFs.
Proof. intros HT H. eapply wpg_weaken; [exact H|]. intros s' Hn. cbn beta in Hn. exact (TFs_nodes s s' Hn HT). Qed.

Lemma foldM_TFw {A} (f : st -> A -> res st) (l : list A) s :
  (forall s a, TFs s -> wpg false (f s a) TFs) -> TFs s -> wpg false (foldM f l s) TFs.
Proof. intros Hf HT. apply (wpg_foldM false f TFs); [|exact HT]. intros s1 a _ H1. apply Hf. exact H1. Qed.

Lemma node_detach_TFw k s : TFs s -> wpg false (node_detach k s) TFs.
Proof. intros HT. apply wpg_of_ok. intros s' H. eapply node_detach_TF; eassumption. Qed.

Lemma reset_for_rerun_TF step s : TFs s -> wpg false (reset_for_rerun step s) TFs.
Proof.
  intros HT. unfold reset_for_rerun. apply wpg_bind. eapply wpg_weaken.
  { apply foldM_TFw; [|exact HT]. intros s0 x H0. apply node_detach_TFw. exact H0. }
  intros s3 H3. apply wpg_bind. unfold detach_created_steps. eapply wpg_weaken; [apply foldM_TFw; [intros; apply node_detach_TFw; assumption | exact H3]|].
  intros s4 H4. apply wpg_bind. eapply wpg_weaken; [apply foldM_TFw; [intros; apply node_detach_TFw; assumption | exact H4]|].
  intros s5 H5. apply wpg_bind. eapply wpg_weaken; [apply foldM_TFw; [intros; apply node_detach_TFw; assumption | exact H5]|].
  intros s6 H6. apply foldM_TFw; [|exact H6]. intros s0 l H0. apply (wpg_TF_nodes _ s0 H0). apply mark_file_outdated_nodes.
Qed.

Lemma set_sstate_TFw l new d s : TFs s -> wpg false (set_sstate l new d s) TFs.
Proof. intros HT. apply wpg_of_ok. intros s' H. eapply TFs_nodes; [eapply set_sstate_nodes; exact H | exact HT]. Qed.

Lemma mark_completed_TF step ok wd s : TFs s -> wpg false (mark_completed step ok wd s) TFs.
Proof.
  intros HT. unfold mark_completed. destruct (negb (is_some (find_step step s))); [exact I|]. destruct ok.
  - apply wpg_bind. eapply wpg_weaken; [apply set_sstate_TFw; exact HT|]. intros s1 H1.
    apply wpg_bind. eapply wpg_weaken.
    { apply foldM_TFw; [|exact H1]. intros s0 l H0. apply wpg_bind. unfold set_fstate.
      destruct (set_fstate_hash l FBuilt None s0) as [s2|t|t] eqn:E; try exact I. cbn.
      apply (wpg_TF_nodes _ s2); [eapply TFs_nodes; [eapply set_fstate_hash_nodes; exact E | exact H0]|].
      apply mark_consumers_pending_nodes. }
    intros s2 H2. cbn. unfold store_hash. destruct (has_hash step s2); exact H2.
  - apply wpg_bind. eapply wpg_weaken.
    { apply foldM_TFw; [|exact HT]. intros s0 l H0. apply wpg_of_ok. intros s1 H. unfold set_fstate in H.
      eapply TFs_nodes; [eapply set_fstate_hash_nodes; exact H | exact H0]. }
    intros s1 H1. apply wpg_bind.
    assert (Hs : wpg false
              (if wd
               then match find_step step s1 with
                    | None => Internal 120
                    | Some r =>
                      let dc := sdc r + 1 in
                      let s' := upd_step step (fun r => mkS (sl r) (sst r) (sneed r) (sdef r) dc (shold r)) s1 in
                      if dc <=? defer_cap s then set_sstate step SPending (has_unavailable_dynamic_input step s') s'
                      else set_sstate step SFailed false s'
                    end
               else set_sstate step SFailed false s1) TFs).
    { destruct wd; [|apply set_sstate_TFw; exact H1]. destruct (find_step step s1); [|exact I]. cbn zeta.
      destruct (sdc s0 + 1 <=? defer_cap s); apply set_sstate_TFw; exact H1. }
    eapply wpg_weaken; [exact Hs|]. intros s2 H2. apply wpg_bind.
    assert (Hd : wpg false (match sstate_of step s2 with
                            | Some SFailed => detach_created_steps step s2 | _ => Ok s2 end) TFs).
    { destruct (sstate_of step s2) as [[]|]; try exact H2. unfold detach_created_steps.
      apply foldM_TFw; [intros; apply node_detach_TFw; assumption | exact H2]. }
    eapply wpg_weaken; [exact Hd|]. intros s3 H3. cbn. exact H3.
Qed.

Lemma delete_node_TF k s : TFs s -> TFs (delete_node k s).
Proof.
  intros HT. assert (Hn : nodes (delete_node k s) = removen k (nodes s)).
  { unfold delete_node. destruct k as [[] kl]; reflexivity. }
  unfold TFs. rewrite Hn. intros n Hin. unfold removen in Hin. apply filter_In in Hin. apply HT. tauto.
Qed.

Lemma delete_detached_TF s : TFs s -> wpg false (delete_detached s) TFs.
Proof.
  intros HT. unfold delete_detached.
  assert (Hl : forall fuel lost s0, TFs s0 -> TFs (fst (dd_loop fuel lost s0))).
  { induction fuel as [|fuel IH]; intros lost s0 H0; cbn [dd_loop]; [exact H0|].
    destruct (find _ (nodes s0)); [|exact H0]. apply IH. apply delete_node_TF. exact H0. }
  apply foldM_TFw; [|apply Hl; exact HT]. intros s0 c H0. destruct (find_node c s0); [|exact H0].
  apply wpg_of_ok. intros s1 H. eapply TFs_nodes; [eapply after_lost_product_nodes; exact H | exact H0].
Qed.

Lemma reset_interrupted_TF s : TFs s -> wpg false (reset_interrupted s) TFs.
Proof.
  intros HT. unfold reset_interrupted.
  assert (Hraw : forall l new s0, TFs s0 -> wpg false (set_sstate_raw l new s0) TFs).
  { intros l new s0 H0. unfold set_sstate_raw. destruct (find_step l s0); [apply set_sstate_TFw; exact H0 | exact H0]. }
  apply wpg_bind. eapply wpg_weaken.
  { apply foldM_TFw; [|exact HT]. intros s0 r H0. destruct (sst r); try exact H0. apply Hraw. exact H0. }
  intros s1 H1. apply wpg_bind. eapply wpg_weaken.
  { apply foldM_TFw; [|exact H1]. intros s0 r H0. destruct (sst r); try exact H0. apply Hraw. exact H0. }
  intros s2 H2. apply foldM_TFw; [|exact H2]. intros s0 r H0.
  destruct (sstate_of (sl r) s0) as [[]|]; try exact H0. destruct (is_detached _ s0); [exact H0|].
  apply (wpg_TF_nodes _ s0 H0). apply mark_step_pending_nodes.
Qed.

Lemma step_op_TF o s : TFs s -> wpg false (step_op o s) TFs.
Proof.
  intros HT. destruct o; cbn [step_op].
  - apply wpg_of_ok. intros s' H. unfold declare_static_files in H.
    destruct (negb (is_some (find_node creator s))) eqn:Ec; [discriminate|].
    destruct (foldM _ paths []) as [todo|t|t]; try discriminate. cbn [bind] in H.
    eapply (foldM_TF (fun s l => declare_file creator l FUnconfirmed s)); [|exact H|exact HT].
    intros a b c0 Hab Ha. eapply declare_file_TF; eassumption.
  - apply (wpg_TF_nodes _ s HT). apply update_file_hashes_nodes.
  - apply wpg_of_ok. intros s' H. eapply define_step_TF; eassumption.
  - apply wpg_of_ok. intros s' H. eapply amend_step_TF; eassumption.
  - apply set_sstate_TFw. exact HT.
  - apply reset_for_rerun_TF. exact HT.
  - apply wpg_bind. eapply wpg_weaken; [apply (wpg_TF_nodes _ s HT); apply update_file_hashes_nodes|].
    intros s0 H0. apply wpg_bind. eapply wpg_weaken; [apply (wpg_TF_nodes _ s0 H0); apply update_file_hashes_nodes|].
    intros s1 H1. apply mark_completed_TF. exact H1.
  - apply wpg_bind. eapply wpg_weaken; [apply reset_for_rerun_TF; exact HT|]. intros s1 H1.
    apply set_sstate_TFw. exact H1.
  - apply set_sstate_TFw. exact HT.
  - apply (wpg_TF_nodes _ s HT). apply mark_step_pending_nodes.
  - apply delete_detached_TF. exact HT.
  - unfold hold. destruct (negb (is_some (find_step label s))); [exact I | exact HT].
  - unfold release. destruct (find_step label s); [|exact I]. destruct (shold s0 =? 0); [exact I | exact HT].
  - apply reset_interrupted_TF. exact HT.
Qed.

Theorem no_tree_preserved o s : no_tree_b s = true -> no_tree_b (apply_op s o) = true.
Proof.
  intros H. apply no_tree_b_iff. apply no_tree_b_iff in H. unfold apply_op.
  pose proof (step_op_TF o s H) as Hw. destruct (step_op o s); [exact Hw | exact H | exact H].
Qed.

Theorem run_ops_t_base_eq ops : forall s, no_tree_b s = true -> run_ops_t (map OpBase ops) s = run_ops ops s.
Proof.
  induction ops as [|o ops IH]; intros s H; [reflexivity|]. cbn [map]. unfold run_ops_t, run_ops. cbn [fold_left].
  assert (E : apply_op_t s (OpBase o) = apply_op s o).
  { unfold apply_op_t, apply_op. rewrite step_op_t_base_eq; [reflexivity | exact H]. }
  rewrite E. apply IH. apply no_tree_preserved. exact H.
Qed.
