(* C09, static trees: on a tree-free state (no static-tree node, no creator column referring to one)
   the tree-aware operations coincide with the operations of model/Graph.v, and tree-freeness is
   preserved by them.  Hence every theorem about step_op transfers to the tree-free fragment of
   step_op_t.  No invariant is needed. *)
From Coq Require Import List NArith Bool Lia.
From SV Require Import lib.Bytes lib.Closure model.Graph model.GraphDump model.GraphInv model.GraphTree
  proofs.GraphBase proofs.GraphNodes proofs.GraphInvP proofs.GraphPrims proofs.GraphFrames.
Import ListNotations.
Open Scope N_scope.

Definition TF (ns : list node) : Prop :=
  forall n, In n ns -> fst (nk n) <> KTree /\ forall c, ncre n = Some c -> fst c <> KTree.
Definition TFs (s : st) : Prop := TF (nodes s).

Lemma no_tree_b_iff s : no_tree_b s = true <-> TFs s.
Proof.
  unfold no_tree_b, TFs, TF. rewrite forallb_forall. split; intros H n Hn; specialize (H n Hn).
  - apply andb_true_iff in H. destruct H as [H1 H2]. split.
    + intros E. rewrite E in H1. discriminate.
    + intros c Hc E. rewrite Hc, E in H2. discriminate.
  - destruct H as [H1 H2]. apply andb_true_iff. split.
    + destruct (fst (nk n)); try reflexivity. congruence.
    + destruct (ncre n) as [c|]; [|reflexivity]. specialize (H2 c eq_refl). destruct (fst c); try reflexivity. congruence.
Qed.

Lemma TFs_nodes s s' : nodes s' = nodes s -> TFs s -> TFs s'.
Proof. unfold TFs. intros ->. auto. Qed.

Lemma TF_map (g : node -> node) ns :
  (forall n, nk (g n) = nk n) ->
  (forall n c, ncre (g n) = Some c -> ncre n = Some c \/ fst c <> KTree) -> TF ns -> TF (map g ns).
Proof.
  intros Hk Hc H n' Hn'. apply in_map_iff in Hn'. destruct Hn' as [n [<- Hn]]. destruct (H n Hn) as [H1 H2].
  split; [rewrite Hk; exact H1|]. intros c Hcc. destruct (Hc n c Hcc) as [E|E]; [apply H2; exact E | exact E].
Qed.

Lemma upd_node_TF k f s :
  (forall n, nk (f n) = nk n) -> (forall n c, ncre (f n) = Some c -> ncre n = Some c \/ fst c <> KTree) ->
  TFs s -> TFs (upd_node k f s).
Proof.
  intros Hk Hc H. unfold TFs. rewrite nodes_upd_node. unfold updn. apply TF_map; [| |exact H].
  - intros n. destruct (key_eqb (nk n) k); [apply Hk | reflexivity].
  - intros n c. destruct (key_eqb (nk n) k); [apply Hc | auto].
Qed.

Lemma set_detached_rec_TF k b s : TFs s -> TFs (set_detached_rec k b s).
Proof.
  intros H. unfold TFs. rewrite nodes_set_detached_rec. unfold setdet. apply TF_map; [| |exact H].
  - intros n. destruct (mem_key _ _); reflexivity.
  - intros n c. destruct (mem_key _ _); cbn; auto.
Qed.

Lemma node_detach_TF k s s' : node_detach k s = Ok s' -> TFs s -> TFs s'.
Proof.
  unfold node_detach. destruct (find_node k s) as [n|]; [|discriminate].
  destruct (ncre n); [|intros H; inversion H; auto]. intros H HT; inversion H; subst s'.
  assert (H1 : TFs (upd_node k (fun n0 => mkNode (nk n0) None true) s)).
  { apply upd_node_TF; [reflexivity | intros n0 c Hc; discriminate | exact HT]. }
  destruct (ndet n); [exact H1 | apply set_detached_rec_TF; exact H1].
Qed.

Lemma after_lost_product_nodes oc s s' : after_lost_product oc s = Ok s' -> nodes s' = nodes s.
Proof. unfold after_lost_product. destruct (fst oc); try discriminate; intros H; inversion H; reflexivity. Qed.

Lemma node_reattach_TF k c s s' : fst c <> KTree -> node_reattach k c s = Ok s' -> TFs s -> TFs s'.
Proof.
  intros Hc. unfold node_reattach. destruct (find_node k s) as [n|]; [|discriminate].
  destruct (find_node c s) as [cn|]; [|discriminate].
  destruct (negb (ndet n)); [discriminate|]. destruct (key_eqb c k); [discriminate|].
  destruct (negb (creator_kind_ok _ _)); [discriminate|]. destruct (mem_key c _); [discriminate|].
  intros H HT.
  assert (H1 : TFs (upd_node k (fun n0 => mkNode (nk n0) (Some c) (ndet cn)) s)).
  { apply upd_node_TF; [reflexivity | intros n0 c0 H0; inversion H0; subst; right; exact Hc | exact HT]. }
  destruct (ncre n) as [oc|].
  - destruct (negb (is_detached oc s)); [discriminate|].
    destruct (after_lost_product oc _) as [s2|t|t] eqn:E; try discriminate. cbn in H. inversion H; subst s'.
    apply set_detached_rec_TF. eapply TFs_nodes; [eapply after_lost_product_nodes; exact E | exact H1].
  - cbn in H. inversion H; subst s'. apply set_detached_rec_TF. exact H1.
Qed.

(* state propagation does not touch the node table *)
Lemma set_sstate_nodes l new d s s' : set_sstate l new d s = Ok s' -> nodes s' = nodes s.
Proof.
  unfold set_sstate. destruct (find_step l s); [|intros H; inversion H; reflexivity].
  destruct (d && _); [discriminate|]. intros H; inversion H. reflexivity.
Qed.
Lemma set_fstate_hash_nodes l new newh s s' : set_fstate_hash l new newh s = Ok s' -> nodes s' = nodes s.
Proof.
  unfold set_fstate_hash. destruct (find_file l s); [|intros H; inversion H; reflexivity].
  destruct (needs_hash new && _); [discriminate|]. destruct (fstate_eqb new FUndeclared && _); [discriminate|].
  intros H; inversion H. reflexivity.
Qed.

Lemma foldM_nodes {A} (f : st -> A -> res st) (l : list A) s :
  (forall s a, wpg false (f s a) (fun s' => nodes s' = nodes s)) ->
  wpg false (foldM f l s) (fun s' => nodes s' = nodes s).
Proof.
  intros Hf. apply (wpg_foldM false f (fun s' => nodes s' = nodes s)); [|reflexivity].
  intros s1 a _ H1. eapply wpg_weaken; [apply Hf|]. intros s2 H2. congruence.
Qed.

Lemma mark_nodes fuel :
  (forall l s, wpg false (mark_step_pending_f fuel l s) (fun s' => nodes s' = nodes s)) /\
  (forall f s, wpg false (mark_file_outdated_f fuel f s) (fun s' => nodes s' = nodes s)).
Proof.
  induction fuel as [|fuel [IHs IHf]]; [split; intros; exact I|]. split.
  - intros l s. cbn [mark_step_pending_f]. destruct (sstate_of l s) as [old|]; [|exact I].
    assert (Hmain : forall after, (forall s1, wpg false (after s1) (fun s' => nodes s' = nodes s1)) ->
               wpg false (bind (set_sstate l SPending false s) after) (fun s' => nodes s' = nodes s)).
    { intros after Ha. apply wpg_bind. destruct (set_sstate l SPending false s) as [s1|t|t] eqn:E; try exact I.
      cbn. eapply wpg_weaken; [apply Ha|]. intros s2 H2. rewrite H2. eapply set_sstate_nodes. exact E. }
    assert (Hprop : forall s1, wpg false (foldM (fun s f => match fstate_of f s with
                                             | Some FBuilt => mark_file_outdated_f fuel f s
                                             | _ => Ok s end) (file_sinks_of_step l s1) s1) (fun s' => nodes s' = nodes s1)).
    { intros s1. apply foldM_nodes. intros s2 f. destruct (fstate_of f s2) as [[]|]; try (cbn; reflexivity). apply IHf. }
    destruct old; try (cbn; reflexivity).
    + apply Hmain. intros s1. cbn. reflexivity.
    + apply Hmain. exact Hprop.
    + apply Hmain. exact Hprop.
  - intros f s. cbn [mark_file_outdated_f].
    destruct (fstate_of f s) as [[]|]; try exact I; [|cbn; reflexivity].
    apply wpg_bind. unfold set_fstate. destruct (set_fstate_hash f FOutdated None s) as [s1|t|t] eqn:E; try exact I.
    cbn. eapply wpg_weaken; [apply foldM_nodes; intros; apply IHs|].
    intros s2 H2. rewrite H2. eapply set_fstate_hash_nodes. exact E.
Qed.

Lemma mark_file_outdated_nodes f s : wpg false (mark_file_outdated f s) (fun s' => nodes s' = nodes s).
Proof. apply (proj2 (mark_nodes _)). Qed.
Lemma mark_step_pending_nodes l s : wpg false (mark_step_pending l s) (fun s' => nodes s' = nodes s).
Proof. apply (proj1 (mark_nodes _)). Qed.

Lemma ok_of_wpg {A} (r : res A) Q a : wpg false r Q -> r = Ok a -> Q a.
Proof. intros H ->. exact H. Qed.

(* Trellis.create keeps tree-freeness when neither the key nor the creator is a tree *)
Lemma foldM_TF {A} (f : st -> A -> res st) (l : list A) :
  (forall s a s', f s a = Ok s' -> TFs s -> TFs s') ->
  forall s s', foldM f l s = Ok s' -> TFs s -> TFs s'.
Proof.
  intros Hf. induction l as [|a l IH]; intros s s' H HT; cbn in H; [inversion H; subst; exact HT|].
  destruct (f s a) as [s1|t|t] eqn:E; try discriminate. cbn in H. eapply IH; [exact H | eapply Hf; eassumption].
Qed.

Lemma file_initialize_row_nodes l f s s' : file_initialize_row l f s = Ok s' -> nodes s' = nodes s.
Proof.
  unfold file_initialize_row.
  set (state := match f, find_file l s with
                | FUndeclared, Some r => _ | FPlanned, Some r => _ | _, _ => f end).
  destruct (match find_file l s with Some _ => set_fstate l state s | None => _ end) as [s1|t|t] eqn:E1; try discriminate.
  cbn [bind]. assert (H1 : nodes s1 = nodes s).
  { destruct (find_file l s).
    - eapply set_fstate_hash_nodes. exact E1.
    - destruct (needs_hash state); [discriminate|]. destruct (fstate_eqb state FUndeclared && _); [discriminate|].
      inversion E1. reflexivity. }
  destruct state; try (intros H; inversion H; subst; exact H1).
  intros H. rewrite <- H1. exact (ok_of_wpg _ _ _ (mark_file_outdated_nodes l s1) H).
Qed.

Lemma create_TF k creator arg s s' :
  fst k <> KTree -> (forall c, creator = Some c -> fst c <> KTree) ->
  create k creator arg s = Ok s' -> TFs s -> TFs s'.
Proof.
  intros Hk Hc. unfold create. destruct (creator_ok k creator s) as [[]|t|t]; try discriminate. cbn [bind].
  set (cdet := match creator with None => true | Some c => is_detached c s end).
  intros H HT.
  assert (Hnode : forall s1,
            match find_node k s with
            | Some n =>
              if negb (ndet n) then Internal 113
              else
                let s1 := upd_node k (fun n => mkNode (nk n) creator cdet) s in
                do s2 <- match ncre n with
                         | None => Ok s1
                         | Some oc => if negb (is_detached oc s) then Internal 114 else after_lost_product oc s1
                         end;
                let s3 := del_all_sources k s2 in
                foldM (fun s p => detach_any p s) (products k s3) s3
            | None => Ok (set_nodes s (nodes s ++ [mkNode k creator cdet]))
            end = Ok s1 -> TFs s1).
  { intros s1. destruct (find_node k s) as [n|].
    - destruct (negb (ndet n)); [discriminate|]. cbn zeta.
      assert (H0 : TFs (upd_node k (fun n0 => mkNode (nk n0) creator cdet) s)).
      { apply upd_node_TF; [reflexivity | | exact HT]. intros n0 c H0. cbn in H0. right. apply Hc. exact H0. }
      intros H1.
      assert (H2 : forall s2, TFs s2 -> foldM (fun s p => detach_any p s) (products k (del_all_sources k s2)) (del_all_sources k s2) = Ok s1 -> TFs s1).
      { intros s2 HT2 Hf. eapply (foldM_TF (fun s p => detach_any p s)); [|exact Hf|].
        - intros a b c. apply node_detach_TF.
        - exact HT2. }
      destruct (ncre n) as [oc|].
      + destruct (negb (is_detached oc s)); [discriminate|].
        destruct (after_lost_product oc _) as [s2|t|t] eqn:E; try discriminate. cbn [bind] in H1.
        apply (H2 s2); [|exact H1]. eapply TFs_nodes; [eapply after_lost_product_nodes; exact E | exact H0].
      + cbn [bind] in H1. apply (H2 _ H0 H1).
    - intros H1. inversion H1; subst s1. unfold TFs. cbn. intros n Hn. apply in_app_or in Hn.
      destruct Hn as [Hn|[<-|[]]]; [apply HT; exact Hn|]. cbn. split; [exact Hk | exact Hc]. }
  match type of H with bind ?r _ = _ => destruct r as [s1|t|t] eqn:E1; try discriminate end.
  cbn [bind] in H. specialize (Hnode s1 E1).
  destruct arg.
  - eapply TFs_nodes; [eapply file_initialize_row_nodes; exact H | exact Hnode].
  - unfold step_initialize_row in H. inversion H; subst s'. exact Hnode.
  - inversion H; subst s'. exact Hnode.
Qed.
