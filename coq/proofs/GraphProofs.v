(* C09: every operation of the transaction alphabet preserves the invariant; reachable states. *)
From Coq Require Import List NArith Bool Lia.
From SV Require Import lib.Bytes lib.Closure model.Graph model.GraphInv
  proofs.GraphBase proofs.GraphNodes proofs.GraphInvP proofs.GraphPrims proofs.GraphCreate
  proofs.GraphFrames proofs.GraphOps proofs.GraphLife proofs.GraphSucc.
Import ListNotations.
Open Scope N_scope.

Lemma inv_init (cap : N) : inv_b (init_st cap) = true.
Proof. vm_compute. reflexivity. Qed.

(* A rejected or failed transaction leaves the stored workflow unchanged (rollback). *)
Lemma apply_op_error_unchanged (s : st) (o : op) :
  (forall s', step_op o s <> Ok s') -> apply_op s o = s.
Proof.
  unfold apply_op. intros H. destruct (step_op o s) as [s'|t|t]; [exfalso; eapply H; reflexivity | reflexivity | reflexivity].
Qed.

Lemma lax {P : Prop} : false = true -> P.
Proof. discriminate. Qed.

Lemma step_op_inv hh o s :
  Inv hh s -> (hh = true -> protocol_hold_b s o = true) ->
  wpg false (step_op o s) (fun s' => Inv hh s').
Proof.
  intros HI Hproto. destruct o; cbn [step_op].
  - eapply wpg_weaken; [apply (@declare_static_files_spec hh); [exact HI | intros Hlax; discriminate Hlax]|]. intros s' [H _]. exact H.
  - eapply wpg_weaken; [apply (@update_file_hashes_spec hh); [exact HI | intros Hlax; discriminate Hlax]|]. intros s' [H _]. exact H.
  - eapply wpg_weaken; [apply (@define_step_spec hh); [exact HI | intros Hlax; discriminate Hlax]|]. intros s' [H _]. exact H.
  - eapply wpg_weaken; [apply (@amend_step_spec hh); [exact HI | intros Hlax; discriminate Hlax]|]. intros s' [H _]. exact H.
  - eapply wpg_weaken; [apply (@set_sstate_spec hh); [exact HI | intros Hlax; discriminate Hlax]|]. intros s' [H _]. exact H.
  - eapply wpg_weaken; [apply (@reset_for_rerun_spec hh); exact HI|]. intros s' [H _]. exact H.
  - apply wpg_bind. eapply wpg_weaken; [apply (@update_file_hashes_spec hh); [exact HI | intros Hlax; discriminate Hlax]|].
    intros s0 [I0 _]. apply wpg_bind. eapply wpg_weaken; [apply (@update_file_hashes_spec hh); [exact I0 | intros Hlax; discriminate Hlax]|].
    intros s1 [I1 _]. apply mark_completed_spec. exact I1.
  - apply wpg_bind. eapply wpg_weaken; [apply (@reset_for_rerun_spec hh); exact HI|].
    intros s1 [I1 _]. eapply wpg_weaken; [apply (@set_sstate_spec hh); [apply delete_hash_inv; exact I1 | intros Hlax; discriminate Hlax]|].
    intros s' [H _]. exact H.
  - eapply wpg_weaken; [apply (@set_sstate_spec hh); [exact HI | intros Hlax; discriminate Hlax]|]. intros s' [H _]. exact H.
  - eapply wpg_weaken; [apply (@mark_step_pending_spec hh); [exact HI | intros Hlax; discriminate Hlax]|]. intros s' [H _]. exact H.
  - apply delete_detached_spec. exact HI.
  - apply hold_spec; [exact HI | exact Hproto].
  - apply release_spec. exact HI.
  - apply reset_interrupted_spec. exact HI.
Qed.

Lemma apply_op_inv hh o s :
  Inv hh s -> (hh = true -> protocol_hold_b s o = true) -> Inv hh (apply_op s o).
Proof.
  intros HI Hp. unfold apply_op. pose proof (step_op_inv hh o s HI Hp) as H.
  destruct (step_op o s); [exact H | exact HI | exact HI].
Qed.

(* the full boolean invariant is preserved by every operation issued within the hold protocol *)
Lemma inv_preserved s o :
  inv_b s = true -> protocol_hold_b s o = true -> inv_b (apply_op s o) = true.
Proof.
  intros H Hp. apply inv_b_iff. apply apply_op_inv; [apply inv_b_iff; exact H | intros _; exact Hp].
Qed.

(* the core invariant (all conjuncts except "holding > 0 -> RUNNING") is preserved by every
   operation whatsoever *)
Lemma inv_core_preserved s o : inv_core_b s = true -> inv_core_b (apply_op s o) = true.
Proof.
  intros H. apply inv_core_b_iff. apply apply_op_inv; [apply inv_core_b_iff; exact H | intros Hlax; discriminate Hlax].
Qed.

Lemma inv_core_init cap : inv_core_b (init_st cap) = true.
Proof. vm_compute. reflexivity. Qed.

Lemma reachable_inv_core cap ops : inv_core_b (run_ops ops (init_st cap)) = true.
Proof.
  unfold run_ops. generalize (inv_core_init cap). generalize (init_st cap).
  induction ops as [|o ops IH]; intros s Hs; cbn [fold_left]; [exact Hs|].
  apply IH. apply inv_core_preserved. exact Hs.
Qed.

Lemma reachable_inv cap ops :
  protocol_run_b (init_st cap) ops = true -> inv_b (run_ops ops (init_st cap)) = true.
Proof.
  unfold run_ops. generalize (inv_init cap). generalize (init_st cap).
  induction ops as [|o ops IH]; intros s Hs Hp; cbn [fold_left]; [exact Hs|].
  cbn in Hp. apply andb_true_iff in Hp. destruct Hp as [Hp1 Hp2].
  apply IH; [apply inv_preserved; assumption | exact Hp2].
Qed.

(* every prefix *)
Lemma reachable_inv_prefixes cap ops :
  protocol_run_b (init_st cap) ops = true -> all_prefixes_ok inv_b (init_st cap) ops = true.
Proof.
  generalize (inv_init cap). generalize (init_st cap).
  induction ops as [|o ops IH]; intros s Hs Hp; cbn [all_prefixes_ok]; rewrite Hs; [reflexivity|].
  cbn in Hp. apply andb_true_iff in Hp. destruct Hp as [Hp1 Hp2]. cbn.
  apply IH; [apply inv_preserved; assumption | exact Hp2].
Qed.

(* detached <-> not reachable from the root through creator links *)
Lemma detached_iff_unreachable_core s n :
  inv_core_b s = true -> In n (nodes s) -> (ndet n = true <-> ~ Reach (nodes s) (nk n)).
Proof.
  intros H Hn. apply inv_core_b_iff in H. pose proof (inv_nw _ H) as HW.
  pose proof (attached_iff_reach _ _ HW Hn) as Hiff. destruct (ndet n); split; intros A; try congruence.
  - intros HR. apply Hiff in HR. discriminate.
  - exfalso. apply A. apply Hiff. reflexivity.
Qed.

(* ------------------------------------------------------------------------------------------ *)
(* requests never raise an internal error                                                      *)
(* ------------------------------------------------------------------------------------------ *)
Lemma requester_facts c s : requester_b c s = true ->
  find_node c s <> None /\ (c = root_key \/ fst c = KStep).
Proof.
  unfold requester_b. rewrite andb_true_iff, orb_true_iff, key_eqb_eq, kind_eqb_eq, is_some_true. tauto.
Qed.

Lemma nodup_str l : nodup_by str_eqb l = true -> NoDup l.
Proof. apply (nodup_by_NoDup str_eqb l str_eqb_eq). Qed.

Lemma requests_never_internal s o :
  inv_b s = true -> request_ok s o = true -> is_internal (step_op o s) = false.
Proof.
  intros HI Hreq. apply inv_b_iff in HI.
  assert (Hgoal : wpg true (step_op o s) (fun s' => True)).
  { destruct o; cbn [request_ok] in Hreq; try discriminate; cbn [step_op].
    - apply andb_true_iff in Hreq. destruct Hreq as [Hr Hn]. apply requester_facts in Hr. destruct Hr as [Hr1 Hr2].
      eapply wpg_weaken; [|intros; exact I]. apply (@declare_static_files_spec true); [exact HI|]. intros _. split; [exact Hr1|]. split; [|apply nodup_str; exact Hn].
      destruct Hr2 as [->|Hk]; [reflexivity | rewrite Hk; reflexivity].
    - rewrite !andb_true_iff in Hreq. destruct Hreq as [[Hr Ho] Hv].
      apply requester_facts in Hr. destruct Hr as [Hr1 Hr2].
      eapply wpg_weaken; [|intros; exact I]. apply (@define_step_spec true); [exact HI|]. intros _. split; [exact Hr1|].
      split; [destruct Hr2 as [->|Hk]; [reflexivity | rewrite Hk; reflexivity]|].
      split; apply nodup_str; assumption.
    - rewrite !andb_true_iff in Hreq. destruct Hreq as [[Hk Ho] Hv]. apply is_some_true in Hk.
      eapply wpg_weaken; [|intros; exact I]. apply (@amend_step_spec true); [exact HI|]. intros _. split; [exact Hk|]. split; apply nodup_str; assumption.
    - unfold hold. rewrite Hreq. cbn. exact I.
    - unfold release. destruct (find_step label s); [|discriminate]. destruct (shold s0 =? 0); exact I. }
  destruct (step_op o s); cbn in *; [reflexivity | reflexivity | contradiction].
Qed.

(* ------------------------------------------------------------------------------------------ *)
(* the full invariant (with I4 and I5c) within the build-loop protocol                         *)
(* ------------------------------------------------------------------------------------------ *)
Definition InvF (s : st) : Prop := Inv true s /\ J1 s /\ K s.

Lemma InvF_GG s s' : InvF s -> Inv true s' -> GG s s' -> InvF s'.
Proof. intros [_ [HJ HK]] HI HG. split; [exact HI|]. split; [eapply J1_GG | eapply K_GG]; eassumption. Qed.

Lemma not_succeeded_spec l s : not_succeeded_b l s = true -> sstate_of l s <> Some SSucceeded.
Proof. unfold not_succeeded_b. destruct (sstate_of l s) as [[]|]; congruence. Qed.

Lemma dispatch_full l s :
  InvF s -> wpg false (set_sstate l (if has_hash l s then SChecking else SRunning) false s) InvF.
Proof.
  intros [HI [HJ HK]].
  destruct (set_sstate l (if has_hash l s then SChecking else SRunning) false s) as [s'|t|t] eqn:Es; try exact I.
  pose proof (@set_sstate_spec true false l (if has_hash l s then SChecking else SRunning) false s HI
                (fun H _ => False_ind _ (diff_false_true H))) as Hsp.
  rewrite Es in Hsp. cbn in Hsp. destruct Hsp as [I' [S' [F' [U' [Hoth [Hnew Hsame]]]]]].
  cbn. split; [exact I'|].
  destruct (find_step l s) eqn:Hrow.
  2:{ rewrite (Hsame eq_refl). auto. }
  assert (Hn : sstate_of l s' = Some (if has_hash l s then SChecking else SRunning)) by (apply Hnew; discriminate).
  split.
  - intros x f [A [B C]]. apply (HJ x f). split; [|split].
    + destruct (str_eq_dec x l) as [->|Hne]; [rewrite Hn in A; destruct (has_hash l s); discriminate|].
      unfold sstate_of in *. rewrite (Hoth x Hne) in A. exact A.
    + rewrite <- (SO_creator_of _ _ _ S'). exact B.
    + unfold po, fstate_of, find_file in *. rewrite F' in C. exact C.
  - intros x Hr. unfold has_hash. rewrite U'. fold (has_hash x s).
    destruct (str_eq_dec x l) as [->|Hne].
    + rewrite Hn in Hr. destruct (has_hash l s); [discriminate | reflexivity].
    + apply HK. unfold sstate_of in *. rewrite (Hoth x Hne) in Hr. exact Hr.
Qed.

Lemma step_op_full o s :
  InvF s -> protocol_ok s o = true -> wpg false (step_op o s) InvF.
Proof.
  intros HF Hp. pose proof HF as [HI [HJ HK]]. destruct o; cbn [step_op].
  - eapply wpg_weaken; [apply (@declare_static_files_spec true); [exact HI | intros H; discriminate H]|].
    intros s' [I' G']. eapply InvF_GG; eassumption.
  - eapply wpg_weaken.
    + apply wpg_conj; [apply (@update_file_hashes_spec true); [exact HI | intros H; discriminate H] | apply (@update_file_hashes_GG true); exact HI].
    + intros s' [[I' _] G']. eapply InvF_GG; eassumption.
  - eapply wpg_weaken; [apply (@define_step_spec true); [exact HI | intros H; discriminate H]|].
    intros s' [I' G']. eapply InvF_GG; eassumption.
  - eapply wpg_weaken; [apply (@amend_step_spec true); [exact HI | intros H; discriminate H]|].
    intros s' [I' G']. eapply InvF_GG; [exact HF | exact I' | apply G'; apply not_succeeded_spec; exact Hp].
  - apply dispatch_full. exact HF.
  - eapply wpg_weaken; [apply (@reset_for_rerun_spec true); exact HI|].
    intros s' [I' G']. eapply InvF_GG; [exact HF | exact I' | apply G'; apply not_succeeded_spec; exact Hp].
  - (* exec_end *)
    cbn [protocol_ok] in Hp.
    apply wpg_bind.
    destruct (update_file_hashes CFailed pre s) as [s0|t|t] eqn:E0; try exact I.
    pose proof (@update_file_hashes_spec true false CFailed pre s HI (fun H => False_ind _ (diff_false_true H))) as H0.
    pose proof (@update_file_hashes_GG true CFailed pre s HI) as G0. rewrite E0 in H0, G0. cbn in H0, G0.
    destruct H0 as [I0 _]. cbn [wpg]. apply wpg_bind.
    destruct (update_file_hashes c hs s0) as [s1|t|t] eqn:E1; try exact I.
    pose proof (@update_file_hashes_spec true false c hs s0 I0 (fun H => False_ind _ (diff_false_true H))) as H1.
    pose proof (@update_file_hashes_GG true c hs s0 I0) as G1. rewrite E1 in H1, G1. cbn in H1, G1.
    destruct H1 as [I1 _]. cbn [wpg].
    assert (HF1 : InvF s1). { eapply InvF_GG; [exact HF | exact I1 | eapply GG_trans; eassumption]. }
    destruct success.
    + eapply wpg_weaken.
      * apply wpg_conj; [apply (@mark_completed_spec true); exact I1|].
        apply (@mark_completed_succ true); [exact I1 | apply HF1 | apply HF1 |].
        apply (@no_planned_product_spec true); [exact Hp | exact I1].
      * intros s' [I' [J' K']]. split; [exact I' | split; assumption].
    + eapply wpg_weaken.
      * apply wpg_conj; [apply (@mark_completed_spec true); exact I1 | apply (@mark_completed_fail_GG true); exact I1].
      * intros s' [I' G']. eapply InvF_GG; eassumption.
  - (* reset_to_pending *)
    apply wpg_bind. eapply wpg_weaken; [apply (@reset_for_rerun_spec true); exact HI|].
    intros s1 [I1 G1]. specialize (G1 (not_succeeded_spec _ _ Hp)).
    destruct (delete_hash_inv label s1 I1) as [I2 _].
    destruct (set_sstate label SPending false (delete_hash label s1)) as [s'|t|t] eqn:Es; try exact I.
    pose proof (@set_sstate_spec true false label SPending false _ I2 (fun H _ => False_ind _ (diff_false_true H))) as Hs.
    rewrite Es in Hs. cbn in Hs. destruct Hs as [I' _]. cbn.
    eapply InvF_GG; [exact HF | exact I'|]. eapply GG_trans; [exact G1|]. apply G3_GG.
    eapply G3_trans; [apply delete_hash_G3 | eapply set_sstate_G3; [| |exact Es]; discriminate].
  - destruct (set_sstate label SPending true s) as [s'|t|t] eqn:Es; try exact I.
    pose proof (@set_sstate_spec true false label SPending true s HI (fun H _ => False_ind _ (diff_false_true H))) as Hs.
    rewrite Es in Hs. cbn in Hs. destruct Hs as [I' _]. cbn.
    eapply InvF_GG; [exact HF | exact I' | apply G3_GG; eapply set_sstate_G3; [| |exact Es]; discriminate].
  - eapply wpg_weaken.
    + apply wpg_conj; [apply (@mark_step_pending_spec true); [exact HI | intros H; discriminate H] | apply (@mark_step_pending_GG true); exact HI].
    + intros s' [[I' _] G']. eapply InvF_GG; eassumption.
  - eapply wpg_weaken.
    + apply wpg_conj; [apply (@delete_detached_spec true); exact HI | apply delete_detached_GG].
    + intros s' [I' G']. eapply InvF_GG; eassumption.
  - destruct (hold label s) as [s'|t|t] eqn:Es; try exact I.
    pose proof (@hold_spec true label s HI (fun _ => Hp)) as Hs. rewrite Es in Hs. cbn in *.
    eapply InvF_GG; [exact HF | exact Hs | apply G3_GG; eapply hold_G3; exact Es].
  - destruct (release label s) as [s'|t|t] eqn:Es; try exact I.
    pose proof (@release_spec true label s HI) as Hs. rewrite Es in Hs. cbn in *.
    eapply InvF_GG; [exact HF | exact Hs | apply G3_GG; eapply release_G3; exact Es].
  - eapply wpg_weaken.
    + apply wpg_conj; [apply (@reset_interrupted_spec true); exact HI | apply (@reset_interrupted_GG true); exact HI].
    + intros s' [I' G']. eapply InvF_GG; eassumption.
Qed.

(* reflection of the two protocol clauses *)
Lemma J1_reflect s : Inv true s -> (inv_succ_products_b s = true <-> J1 s).
Proof.
  intros HI. unfold inv_succ_products_b. rewrite forallb_forall. split.
  - intros H l f [A [B [C|C]]]; rewrite creator_of_findn in B;
      (destruct (findn (KFile, f) (nodes s)) as [n|] eqn:Hn; [|discriminate]);
      pose proof (findn_In _ _ _ Hn) as [Hin Hk]; specialize (H n Hin); rewrite Hk, B, A, C in H; discriminate.
  - intros HJ n Hn. destruct (nk n) as [[] f] eqn:Hk; try reflexivity.
    destruct (ncre n) as [[[] l]|] eqn:Hc; try reflexivity.
    destruct (sstate_of l s) as [[]|] eqn:Hs; try reflexivity. cbn.
    destruct (fstate_of f s) as [[]|] eqn:Hf; try reflexivity; exfalso; apply (HJ l f);
      (split; [exact Hs|]); (split; [rewrite creator_of_findn, <- Hk, (In_findn _ _ (nw_nodup _ (inv_nw _ HI)) Hn); exact Hc|]);
      [left | right]; exact Hf.
Qed.

Lemma K_reflect s : Inv true s -> (inv_running_nohash_b s = true <-> K s).
Proof.
  intros HI. unfold inv_running_nohash_b. rewrite forallb_forall. split.
  - intros H l Hr. rewrite sstate_of_finds in Hr. destruct (finds l (steps s)) as [r|] eqn:Hf; [|discriminate].
    pose proof (finds_In _ _ _ Hf) as [Hin Hl]. specialize (H r Hin). cbn in Hr. inversion Hr as [Hst].
    rewrite Hst, Hl in H. cbn in H. apply negb_true_iff in H. exact H.
  - intros HK r Hr. destruct (sstate_eqb (sst r) SRunning) eqn:E; [|reflexivity]. apply sstate_eqb_eq in E. cbn.
    apply negb_true_iff. apply HK. rewrite sstate_of_finds, (In_finds _ _ (rw_snodup _ _ _ _ _ (inv_rw _ HI)) Hr).
    cbn. rewrite E. reflexivity.
Qed.

Lemma inv_full_iff s : inv_full_b s = true <-> InvF s.
Proof.
  unfold inv_full_b, InvF. rewrite !andb_true_iff, inv_b_iff. split.
  - intros [[HI H1] H2]. split; [exact HI|]. split; [apply J1_reflect | apply K_reflect]; assumption.
  - intros [HI [H1 H2]]. split; [split; [exact HI|]|]; [apply J1_reflect | apply K_reflect]; assumption.
Qed.

Lemma inv_full_preserved s o :
  inv_full_b s = true -> protocol_ok s o = true -> inv_full_b (apply_op s o) = true.
Proof.
  intros H Hp. apply inv_full_iff. apply inv_full_iff in H. unfold apply_op.
  pose proof (step_op_full o s H Hp) as Hw. destruct (step_op o s); [exact Hw | exact H | exact H].
Qed.

Lemma inv_full_init cap : inv_full_b (init_st cap) = true.
Proof. vm_compute. reflexivity. Qed.

Lemma reachable_inv_full cap ops :
  protocol_ok_run (init_st cap) ops = true -> all_prefixes_ok inv_full_b (init_st cap) ops = true.
Proof.
  generalize (inv_full_init cap). generalize (init_st cap).
  induction ops as [|o ops IH]; intros s Hs Hp; cbn [all_prefixes_ok]; rewrite Hs; [reflexivity|].
  cbn in Hp. apply andb_true_iff in Hp. destruct Hp as [Hp1 Hp2]. cbn.
  apply IH; [apply inv_full_preserved; assumption | exact Hp2].
Qed.

(* I4: a SUCCEEDED step has only BUILT or VOLATILE attached outputs *)
Lemma succeeded_outputs_built s : inv_full_b s = true -> inv_succeeded_b s = true.
Proof.
  intros H. apply inv_full_iff in H. destruct H as [HI [HJ _]].
  unfold inv_succeeded_b. apply forallb_forall. intros r Hr.
  destruct (sstate_eqb (sst r) SSucceeded) eqn:E; [|reflexivity]. apply sstate_eqb_eq in E. cbn.
  apply forallb_forall. intros f Hf. apply file_sinks_In in Hf.
  apply in_map_iff in Hf. destruct Hf as [d [Hd1 Hd2]].
  assert (Hsrc : dsrc d = (KStep, sl r)) by (unfold edge_of in Hd1; congruence).
  assert (Hsnk : dsnk d = (KFile, f)) by (unfold edge_of in Hd1; congruence).
  rewrite is_detached_findn. destruct (findn (KFile, f) (nodes s)) as [n|] eqn:Hn; [|reflexivity].
  destruct (ndet n) eqn:Hdet; [reflexivity|]. cbn.
  pose proof (findn_In _ _ _ Hn) as [Hin Hk].
  assert (Hl : local_ok (nodes s) n). { apply (nw_local _ (inv_nw _ HI)); [exact Hin | rewrite Hk; discriminate]. }
  unfold local_ok in Hl. destruct (ncre n) as [c|] eqn:Hc; [|congruence].
  destruct (inv_oe _ HI d (sl r) f Hd2 Hsrc Hsnk n c Hn Hc) as [Hce [r' [Hr' Ho]]].
  rewrite fstate_of_findf, Hr'. cbn.
  assert (Hnv : ~ V s (sl r) f) by apply HJ.
  destruct (fstt r') eqn:Est; try discriminate; try reflexivity; exfalso; apply Hnv;
    (split; [rewrite sstate_of_finds, (In_finds _ _ (rw_snodup _ _ _ _ _ (inv_rw _ HI)) Hr); cbn; rewrite E; reflexivity|]);
    (split; [rewrite creator_of_findn, Hn, Hc, Hce; reflexivity|]);
    unfold po; rewrite fstate_of_findf, Hr'; cbn; rewrite Est; auto.
Qed.
