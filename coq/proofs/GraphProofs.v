(* C09: every operation of the transaction alphabet preserves the invariant; reachable states. *)
From Coq Require Import List NArith Bool Lia.
From SV Require Import lib.Bytes lib.Closure model.Graph model.GraphInv
  proofs.GraphBase proofs.GraphNodes proofs.GraphInvP proofs.GraphPrims proofs.GraphCreate
  proofs.GraphOps proofs.GraphLife.
Import ListNotations.
Open Scope N_scope.

Lemma inv_init (cap : N) : inv_b (init_st cap) = true.
Proof. vm_compute. reflexivity. Qed.

(* A rejected or failed transaction leaves the stored workflow unchanged (rollback). *)
Lemma apply_op_error_unchanged (s : st) (o : op) :
  (forall s', step_op o s <> Ok s') -> apply_op s o = s.
Proof.
  unfold apply_op. intros H. destruct (step_op o s) as [s'|t|t]; [exfalso; eapply H; reflexivity | reflexivity | reflexivity].
Qed.

Lemma lax {P : Prop} : false = true -> P.
Proof. discriminate. Qed.

Lemma step_op_inv hh o s :
  Inv hh s -> (hh = true -> protocol_hold_b s o = true) ->
  wpg false (step_op o s) (fun s' => Inv hh s').
Proof.
  intros HI Hproto. destruct o; cbn [step_op].
  - apply declare_static_files_spec; [exact HI | intros Hlax; discriminate Hlax].
  - eapply wpg_weaken; [apply (@update_file_hashes_spec hh); [exact HI | intros Hlax; discriminate Hlax]|]. intros s' [H _]. exact H.
  - apply define_step_spec; [exact HI | intros Hlax; discriminate Hlax].
  - apply amend_step_spec; [exact HI | intros Hlax; discriminate Hlax].
  - eapply wpg_weaken; [apply (@set_sstate_spec hh); [exact HI | intros Hlax; discriminate Hlax]|]. intros s' [H _]. exact H.
  - apply reset_for_rerun_spec. exact HI.
  - apply wpg_bind. eapply wpg_weaken; [apply (@update_file_hashes_spec hh); [exact HI | intros Hlax; discriminate Hlax]|].
    intros s0 [I0 _]. apply wpg_bind. eapply wpg_weaken; [apply (@update_file_hashes_spec hh); [exact I0 | intros Hlax; discriminate Hlax]|].
    intros s1 [I1 _]. apply mark_completed_spec. exact I1.
  - apply wpg_bind. eapply wpg_weaken; [apply (@reset_for_rerun_spec hh); exact HI|].
    intros s1 I1. eapply wpg_weaken; [apply (@set_sstate_spec hh); [apply delete_hash_inv; exact I1 | intros Hlax; discriminate Hlax]|].
    intros s' [H _]. exact H.
  - eapply wpg_weaken; [apply (@set_sstate_spec hh); [exact HI | intros Hlax; discriminate Hlax]|]. intros s' [H _]. exact H.
  - eapply wpg_weaken; [apply (@mark_step_pending_spec hh); [exact HI | intros Hlax; discriminate Hlax]|]. intros s' [H _]. exact H.
  - apply delete_detached_spec. exact HI.
  - apply hold_spec; [exact HI | exact Hproto].
  - apply release_spec. exact HI.
  - apply reset_interrupted_spec. exact HI.
Qed.

Lemma apply_op_inv hh o s :
  Inv hh s -> (hh = true -> protocol_hold_b s o = true) -> Inv hh (apply_op s o).
Proof.
  intros HI Hp. unfold apply_op. pose proof (step_op_inv hh o s HI Hp) as H.
  destruct (step_op o s); [exact H | exact HI | exact HI].
Qed.

(* the full boolean invariant is preserved by every operation issued within the hold protocol *)
Lemma inv_preserved s o :
  inv_b s = true -> protocol_hold_b s o = true -> inv_b (apply_op s o) = true.
Proof.
  intros H Hp. apply inv_b_iff. apply apply_op_inv; [apply inv_b_iff; exact H | intros _; exact Hp].
Qed.

(* the core invariant (all conjuncts except "holding > 0 -> RUNNING") is preserved by every
   operation whatsoever *)
Lemma inv_core_preserved s o : inv_core_b s = true -> inv_core_b (apply_op s o) = true.
Proof.
  intros H. apply inv_core_b_iff. apply apply_op_inv; [apply inv_core_b_iff; exact H | intros Hlax; discriminate Hlax].
Qed.

Lemma inv_core_init cap : inv_core_b (init_st cap) = true.
Proof. vm_compute. reflexivity. Qed.

Lemma reachable_inv_core cap ops : inv_core_b (run_ops ops (init_st cap)) = true.
Proof.
  unfold run_ops. generalize (inv_core_init cap). generalize (init_st cap).
  induction ops as [|o ops IH]; intros s Hs; cbn [fold_left]; [exact Hs|].
  apply IH. apply inv_core_preserved. exact Hs.
Qed.

Lemma reachable_inv cap ops :
  protocol_run_b (init_st cap) ops = true -> inv_b (run_ops ops (init_st cap)) = true.
Proof.
  unfold run_ops. generalize (inv_init cap). generalize (init_st cap).
  induction ops as [|o ops IH]; intros s Hs Hp; cbn [fold_left]; [exact Hs|].
  cbn in Hp. apply andb_true_iff in Hp. destruct Hp as [Hp1 Hp2].
  apply IH; [apply inv_preserved; assumption | exact Hp2].
Qed.

(* every prefix *)
Lemma reachable_inv_prefixes cap ops :
  protocol_run_b (init_st cap) ops = true -> all_prefixes_ok inv_b (init_st cap) ops = true.
Proof.
  generalize (inv_init cap). generalize (init_st cap).
  induction ops as [|o ops IH]; intros s Hs Hp; cbn [all_prefixes_ok]; rewrite Hs; [reflexivity|].
  cbn in Hp. apply andb_true_iff in Hp. destruct Hp as [Hp1 Hp2]. cbn.
  apply IH; [apply inv_preserved; assumption | exact Hp2].
Qed.

(* detached <-> not reachable from the root through creator links *)
Lemma detached_iff_unreachable_core s n :
  inv_core_b s = true -> In n (nodes s) -> (ndet n = true <-> ~ Reach (nodes s) (nk n)).
Proof.
  intros H Hn. apply inv_core_b_iff in H. pose proof (inv_nw _ H) as HW.
  pose proof (attached_iff_reach _ _ HW Hn) as Hiff. destruct (ndet n); split; intros A; try congruence.
  - intros HR. apply Hiff in HR. discriminate.
  - exfalso. apply A. apply Hiff. reflexivity.
Qed.

(* ------------------------------------------------------------------------------------------ *)
(* requests never raise an internal error                                                      *)
(* ------------------------------------------------------------------------------------------ *)
Lemma requester_facts c s : requester_b c s = true ->
  find_node c s <> None /\ (c = root_key \/ fst c = KStep).
Proof.
  unfold requester_b. rewrite andb_true_iff, orb_true_iff, key_eqb_eq, kind_eqb_eq, is_some_true. tauto.
Qed.

Lemma nodup_str l : nodup_by str_eqb l = true -> NoDup l.
Proof. apply (nodup_by_NoDup str_eqb l str_eqb_eq). Qed.

Lemma requests_never_internal s o :
  inv_b s = true -> request_ok s o = true -> is_internal (step_op o s) = false.
Proof.
  intros HI Hreq. apply inv_b_iff in HI.
  assert (Hgoal : wpg true (step_op o s) (fun s' => True)).
  { destruct o; cbn [request_ok] in Hreq; try discriminate; cbn [step_op].
    - apply andb_true_iff in Hreq. destruct Hreq as [Hr Hn]. apply requester_facts in Hr. destruct Hr as [Hr1 Hr2].
      eapply wpg_weaken; [|intros; exact I]. apply (@declare_static_files_spec true); [exact HI|]. intros _. split; [exact Hr1|]. split; [|apply nodup_str; exact Hn].
      destruct Hr2 as [->|Hk]; [reflexivity | rewrite Hk; reflexivity].
    - rewrite !andb_true_iff in Hreq. destruct Hreq as [[Hr Ho] Hv].
      apply requester_facts in Hr. destruct Hr as [Hr1 Hr2].
      eapply wpg_weaken; [|intros; exact I]. apply (@define_step_spec true); [exact HI|]. intros _. split; [exact Hr1|].
      split; [destruct Hr2 as [->|Hk]; [reflexivity | rewrite Hk; reflexivity]|].
      split; apply nodup_str; assumption.
    - rewrite !andb_true_iff in Hreq. destruct Hreq as [[Hk Ho] Hv]. apply is_some_true in Hk.
      eapply wpg_weaken; [|intros; exact I]. apply (@amend_step_spec true); [exact HI|]. intros _. split; [exact Hk|]. split; apply nodup_str; assumption.
    - unfold hold. rewrite Hreq. cbn. exact I.
    - unfold release. destruct (find_step label s); [|discriminate]. destruct (shold s0 =? 0); exact I. }
  destruct (step_op o s); cbn in *; [reflexivity | reflexivity | contradiction].
Qed.
