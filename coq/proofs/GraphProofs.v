(* C09: proofs about model/Graph.v.  (Work in progress: see design.d/C09.md.) *)
From Coq Require Import List NArith Bool Lia.
From SV Require Import lib.Bytes model.Graph model.GraphInv.
Import ListNotations.
Open Scope N_scope.

Lemma inv_init (cap : N) : inv_b (init_st cap) = true.
Proof. vm_compute. reflexivity. Qed.

(* A rejected or failed transaction leaves the stored workflow unchanged (rollback). *)
Lemma apply_op_error_unchanged (s : st) (o : op) :
  (forall s', step_op o s <> Ok s') -> apply_op s o = s.
Proof.
  unfold apply_op. intros H. destruct (step_op o s) as [s'|t|t]; [exfalso; eapply H; reflexivity | reflexivity | reflexivity].
Qed.
