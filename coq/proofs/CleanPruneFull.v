(* proofs/CleanPruneFull.v -- every ancestor that became empty is removed (C07), for the revisiting loop.
   Unfolds bodies of model/Clean.v (prune_loop, rmdir_if_empty, dir_empty, fs_del) and TrellisDD.dirname. *)
From Coq Require Import List NArith Bool Lia.
From SV Require Import lib.Bytes.
From SV Require Import gen.GenClean.
From SV Require Import model.TrellisDD.
From SV Require Import model.Clean.
From SV Require Import proofs.TrellisDDProofs.
From SV Require Import proofs.CleanProofs.
From SV Require Import proofs.CleanDirs.
From SV Require Import proofs.CleanPrune.
Import ListNotations.
Open Scope N_scope.

(* ---- strings: the directory part of a path below p ---------------------------------------------------------- *)

Definition has_slash (a : str) : bool := existsb (fun c => c =? SLASH) a.

Lemma drop_last_app a b :
  drop_last_comp_rev (a ++ SLASH :: b) = if has_slash a then drop_last_comp_rev a ++ SLASH :: b else b.
Proof.
  induction a as [|c a IH]; [reflexivity|].
  cbn [app drop_last_comp_rev has_slash existsb]. destruct (c =? SLASH) eqn:E; cbn [orb]; [reflexivity|].
  exact IH.
Qed.

(* the directory part of a path below p is p itself or again below p *)
Lemma dirname_under p d : under p d = true -> dirname d = p \/ under p (dirname d) = true.
Proof.
  intros H. apply under_spec in H. destruct H as [t ->]. unfold dirname.
  rewrite rev_app_distr. cbn [rev]. rewrite <- app_assoc. cbn [app]. rewrite drop_last_app.
  destruct (has_slash (rev t)).
  - right. apply under_spec. exists (rev (drop_last_comp_rev (rev t))).
    rewrite rev_app_distr. cbn [rev]. rewrite rev_involutive, <- app_assoc. reflexivity.
  - left. apply rev_involutive.
Qed.

Lemma dirname_neq d : dirname d <> d \/ d = [].
Proof.
  destruct (dirname_split d) as [[b Hb]|Hn].
  - left. intros E. rewrite E in Hb. apply (f_equal (@length N)) in Hb. rewrite app_length in Hb. cbn in Hb. lia.
  - destruct d as [|c d]; [right; reflexivity|]. left. rewrite Hn. discriminate.
Qed.

(* ---- the file system -------------------------------------------------------------------------------------------- *)

Definition closedP (f : fsys) : Prop :=
  forall q e, fs_get f q = Some e -> dirname q = [] \/ fs_get f (dirname q) = Some FDir.

Lemma closedb_closedP f : fs_closedb f = true -> closedP f.
Proof.
  intros H q e Hq. apply fs_get_some_in in Hq. unfold fs_closedb in H. rewrite forallb_forall in H.
  specialize (H _ Hq). cbn [fst] in H. apply orb_true_iff in H. destruct H as [H|H].
  - left. apply str_eqb_eq. exact H.
  - right. destruct (fs_get f (dirname q)) as [[h| |t]|]; try discriminate H. reflexivity.
Qed.

Lemma in_fs_get f e : In e f -> fs_get f (fst e) <> None.
Proof.
  intros Hin. unfold fs_get. destruct (find (fun x => str_eqb (fst x) (fst e)) f) as [x|] eqn:Hf; [discriminate|].
  exfalso. pose proof (find_none _ _ Hf e Hin) as Hn. cbv beta in Hn. rewrite str_eqb_refl in Hn. discriminate.
Qed.

Lemma not_empty_witness f p : dir_empty f p = false -> exists y, under p y = true /\ fs_get f y <> None.
Proof.
  unfold dir_empty. intros H. apply negb_false_iff in H. apply existsb_exists in H. destruct H as [e [Hin Hu]].
  exists (fst e). split; [exact Hu | apply in_fs_get; exact Hin].
Qed.

(* removing an empty directory keeps the tree closed *)
Lemma closedP_del f d : closedP f -> dir_empty f d = true -> closedP (fs_del f d).
Proof.
  intros Hc He q e Hq.
  destruct (str_eqb q d) eqn:E; [apply str_eqb_eq in E; subst; rewrite fs_get_del_same in Hq; discriminate|].
  apply str_eqb_neq in E. rewrite fs_get_del_other in Hq by exact E.
  destruct (Hc q e Hq) as [Hn|Hd]; [left; exact Hn|].
  destruct (str_eqb (dirname q) d) eqn:E2.
  - apply str_eqb_eq in E2. destruct (dirname_split q) as [[b Hb]|Hn]; [|left; exact Hn].
    exfalso. assert (under d q = true) as Hu by (apply under_spec; exists b; rewrite <- E2; exact Hb).
    rewrite (dir_empty_none f d q He Hu) in Hq. discriminate.
  - apply str_eqb_neq in E2. right. rewrite fs_get_del_other by exact E2. exact Hd.
Qed.

Lemma prune_loop_sub fuel : forall todo f log q e,
  fs_get (fst (prune_loop fuel todo f log)) q = Some e -> fs_get f q = Some e.
Proof.
  induction fuel as [|k IH]; intros todo f log q e H; [exact H|].
  cbn [prune_loop] in H. destruct todo as [|d rest]; [exact H|].
  destruct (rmdir_if_empty f d) as [f1 b] eqn:Hr. destruct b.
  - apply rmdir_if_empty_true in Hr. destruct Hr as [-> _]. apply IH in H.
    destruct (str_eqb q d) eqn:E; [apply str_eqb_eq in E; subst; rewrite fs_get_del_same in H; discriminate|].
    apply str_eqb_neq in E. rewrite fs_get_del_other in H by exact E. exact H.
  - apply rmdir_if_empty_false in Hr. destruct Hr as [-> _]. apply IH in H. exact H.
Qed.

Lemma prune_loop_gone fuel todo f log q : fs_get f q = None -> fs_get (fst (prune_loop fuel todo f log)) q = None.
Proof.
  intros H. destruct (fs_get (fst (prune_loop fuel todo f log)) q) as [e|] eqn:E; [|reflexivity].
  apply prune_loop_sub in E. congruence.
Qed.

(* ---- R: what empties the tree below p in the end is the removal of a direct child of p ------------------------------ *)

Lemma last_to_vanish_is_a_child p fuel : forall todo f log,
  closedP f ->
  (exists y, under p y = true /\ fs_get f y <> None) ->
  dir_empty (fst (prune_loop fuel todo f log)) p = true ->
  exists z, dirname z = p /\ fs_get f z <> None /\ fs_get (fst (prune_loop fuel todo f log)) z = None.
Proof.
  induction fuel as [|k IH]; intros todo f log Hc [y [Hy Hpres]] Hend.
  - cbn [prune_loop fst] in Hend. exfalso. apply Hpres. apply (dir_empty_none f p y Hend Hy).
  - cbn [prune_loop] in Hend |- *. destruct todo as [|d rest].
    + cbn [fst] in Hend. exfalso. apply Hpres. apply (dir_empty_none f p y Hend Hy).
    + destruct (rmdir_if_empty f d) as [f1 b] eqn:Hr. destruct b.
      * apply rmdir_if_empty_spec in Hr. destruct Hr as [[_ [Hd [He ->]]]|[Hb _]]; [|discriminate Hb].
        set (todo' := if parent_ok (dirname d) then dirname d :: rest else rest) in *.
        destruct (dir_empty (fs_del f d) p) eqn:Hrest.
        -- (* d was the last entry below p *)
           assert (y = d) as ->.
           { destruct (str_eqb y d) eqn:E; [apply str_eqb_eq; exact E|]. apply str_eqb_neq in E. exfalso. apply Hpres.
             rewrite <- (fs_get_del_other f d y E). apply (dir_empty_none _ p y Hrest Hy). }
           exists d. split; [|split; [congruence | apply prune_loop_gone; apply fs_get_del_same]].
           destruct (dirname_under p d Hy) as [Hdn|Hun]; [exact Hdn|]. exfalso.
           destruct (Hc d FDir Hd) as [Hn|Hpar].
           ++ rewrite Hn in Hun. unfold under in Hun. destruct p; cbn in Hun; discriminate Hun.
           ++ destruct (dirname_neq d) as [Hne|Hnil]; [|subst d; apply under_spec in Hy; destruct Hy as [t Ht]; destruct p; discriminate Ht].
              assert (fs_get (fs_del f d) (dirname d) = Some FDir) as Hstill by (rewrite fs_get_del_other by exact Hne; exact Hpar).
              rewrite (dir_empty_none _ p _ Hrest Hun) in Hstill. discriminate.
        -- destruct (not_empty_witness _ _ Hrest) as [y' [Hy' Hp']].
           destruct (IH todo' (fs_del f d) (d :: log) (closedP_del f d Hc He) (ex_intro _ y' (conj Hy' Hp')) Hend)
             as [z [Hz [Hz1 Hz2]]].
           exists z. split; [exact Hz | split; [|exact Hz2]].
           intros Hn. apply Hz1. apply fs_del_none_stays. exact Hn.
      * apply rmdir_if_empty_false in Hr. destruct Hr as [-> _].
        apply (IH rest f log Hc (ex_intro _ y (conj Hy Hpres)) Hend).
Qed.

(* ---- M and Q together ------------------------------------------------------------------------------------------------ *)

Definition not_left_empty (f : fsys) (p : str) : Prop := ~ (fs_get f p = Some FDir /\ dir_empty f p = true).

Lemma emptied_parents_main fuel :
  (forall todo f log x, closedP f -> (length todo + length f < fuel)%nat ->
     fs_get f x <> None -> fs_get (fst (prune_loop fuel todo f log)) x = None -> parent_ok (dirname x) = true ->
     not_left_empty (fst (prune_loop fuel todo f log)) (dirname x)) /\
  (forall rest f log p, closedP f -> (length (p :: rest) + length f < fuel)%nat -> parent_ok p = true ->
     not_left_empty (fst (prune_loop fuel (p :: rest) f log)) p).
Proof.
  induction fuel as [|k [IHM IHQ]].
  - split; [intros todo f log x _ Hf; lia | intros rest f log p _ Hf _; lia].
  - split.
    + intros todo f log x Hc Hfuel Hx Hgone Hok. cbn [prune_loop] in Hgone |- *.
      destruct todo as [|d rest]; [cbn [fst] in Hgone; contradiction|].
      destruct (rmdir_if_empty f d) as [f1 b] eqn:Hr. destruct b.
      * apply rmdir_if_empty_spec in Hr. destruct Hr as [[_ [Hd [He ->]]]|[Hb _]]; [|discriminate Hb].
        pose proof (fs_del_length_lt f d FDir Hd) as Hlt. cbn [length] in Hfuel.
        destruct (str_eqb x d) eqn:E.
        -- apply str_eqb_eq in E. subst x. rewrite Hok. apply IHQ; [apply closedP_del; assumption| cbn [length]; lia | exact Hok].
        -- apply str_eqb_neq in E. apply IHM; [apply closedP_del; assumption| |rewrite fs_get_del_other by exact E; exact Hx|exact Hgone|exact Hok].
           destruct (parent_ok (dirname d)); cbn [length]; lia.
      * apply rmdir_if_empty_false in Hr. destruct Hr as [-> _]. cbn [length] in Hfuel.
        apply IHM; [exact Hc | lia | exact Hx | exact Hgone | exact Hok].
    + intros rest f log p Hc Hfuel Hpok. cbn [prune_loop]. cbn [length] in Hfuel.
      destruct (rmdir_if_empty f p) as [f1 b] eqn:Hr. destruct b.
      * apply rmdir_if_empty_true in Hr. destruct Hr as [-> _]. intros [Hd _].
        rewrite prune_loop_gone in Hd by apply fs_get_del_same. discriminate.
      * apply rmdir_if_empty_false in Hr. destruct Hr as [-> Hnot]. intros [Hd He].
        pose proof (prune_loop_sub _ _ _ _ _ _ Hd) as Hd0.
        destruct (dir_empty f p) eqn:He0; [apply Hnot; split; [exact Hd0 | reflexivity]|].
        destruct (last_to_vanish_is_a_child p k rest f log Hc (not_empty_witness _ _ He0) He) as [z [Hz [Hz1 Hz2]]].
        (* the child z vanished in the rest of the run: its parent p cannot be left empty *)
        assert (parent_ok (dirname z) = true) as Hzok by (rewrite Hz; exact Hpok).
        pose proof (IHM rest f log z Hc ltac:(lia) Hz1 Hz2 Hzok) as Hne. rewrite Hz in Hne. apply Hne. split; assumption.
Qed.

(* ---- the theorem ------------------------------------------------------------------------------------------------------ *)

Lemma emptied_parents_pruned_P dirs f :
  closedP f -> forall x, In x (snd (prune_dirs_gen false dirs f)) -> parent_ok (dirname x) = true ->
  not_left_empty (fst (prune_dirs_gen false dirs f)) (dirname x).
Proof.
  intros Hcl x Hx Hok. unfold prune_dirs_gen in *. cbv iota in *.
  set (todo := sort_desc (dedup dirs)) in *.
  destruct (prune_loop (prune_fuel todo f) todo f []) as [f' log] eqn:Hrun.
  pose proof (prune_loop_inv f _ _ f [] [] f' log (trace_inv_init f) Hrun) as Hinv.
  cbn [fst snd] in *. destruct (ti_dirs _ _ _ _ Hinv x Hx) as [Hd [Hgone _]].
  pose proof (proj1 (emptied_parents_main (prune_fuel todo f)) todo f [] x Hcl) as HM.
  rewrite Hrun in HM. cbn [fst] in HM. apply HM; [unfold prune_fuel; lia | congruence | exact Hgone | exact Hok].
Qed.

Theorem emptied_parents_pruned_holds : emptied_parents_pruned false.
Proof. intros dirs f Hcl x Hx Hok. apply (emptied_parents_pruned_P dirs f (closedb_closedP f Hcl) x Hx Hok). Qed.

(* ---- the whole of remove_deletable_files: the file removals keep the tree closed ------------------------------------- *)

Lemma closedP_del_nondir f d : closedP f -> is_unlinkable (fs_get f d) = true -> closedP (fs_del f d).
Proof.
  intros Hc Hu q e Hq.
  destruct (str_eqb q d) eqn:E; [apply str_eqb_eq in E; subst; rewrite fs_get_del_same in Hq; discriminate|].
  apply str_eqb_neq in E. rewrite fs_get_del_other in Hq by exact E.
  destruct (Hc q e Hq) as [Hn|Hd]; [left; exact Hn|].
  destruct (str_eqb (dirname q) d) eqn:E2.
  - apply str_eqb_eq in E2. rewrite E2 in Hd. rewrite Hd in Hu. discriminate Hu.
  - apply str_eqb_neq in E2. right. rewrite fs_get_del_other by exact E2. exact Hd.
Qed.

Lemma rdf_files_gen_closed q fd ps : forall f log, closedP f -> closedP (fst (rdf_files_gen q fd ps f log)).
Proof.
  induction ps as [|p ps IH]; intros f log Hc; [exact Hc|].
  cbn [rdf_files_gen]. destruct (rdf_file q _ f p) as [f1 b] eqn:E. apply IH.
  unfold rdf_file in E. destruct (rdf_decide q _ p); [|inversion E; subst; exact Hc].
  apply rm_file_spec in E. destruct E as [[_ [Hu ->]]|[_ ->]]; [apply closedP_del_nondir; assumption | exact Hc].
Qed.

(* C07, "... together with the directories StepUp created for it that became empty", for the whole cleanup of the
   code as it is: in a closed tree, whenever remove_deletable_files removes a directory, the parent of that directory
   (unless it is the project root) is not left behind as an empty directory. *)
Theorem rdf_emptied_parents_pruned q f :
  fs_closedb f = true ->
  forall x, In x (r_dirs (remove_deletable_files q f)) -> parent_ok (dirname x) = true ->
    not_left_empty (r_fs (remove_deletable_files q f)) (dirname x).
Proof.
  intros Hcl x Hx Hok. unfold remove_deletable_files in *.
  destruct (rdf_files q _ f []) as [f1 flog] eqn:H1.
  assert (closedP f1) as Hc1.
  { pose proof (rdf_files_gen_closed q (rdf_mode f) (sort_desc (dedup (map fst (qfiles q)))) f [] (closedb_closedP f Hcl)) as H.
    unfold rdf_files in H1. rewrite H1 in H. exact H. }
  destruct (prune_dirs (qdirs q) f1) as [f2 dlog] eqn:H2. cbn [r_dirs r_fs] in *. apply in_rev in Hx.
  unfold prune_dirs in H2. rewrite gen_prune_revisits in H2.
  pose proof (emptied_parents_pruned_P (qdirs q) f1 Hc1 x) as HP. rewrite H2 in HP. cbn [fst snd] in HP.
  apply HP; assumption.
Qed.

(* by induction up the tree: if x was removed and every directory on the way from x up to a was removed in turn,
   the next one up is not left empty either -- stated as the one-step rule above; the chain form for the caller: *)
Corollary emptied_parent_removed_or_occupied dirs f x :
  fs_closedb f = true -> In x (snd (prune_dirs_gen false dirs f)) -> parent_ok (dirname x) = true ->
  fs_get (fst (prune_dirs_gen false dirs f)) (dirname x) = Some FDir ->
  exists y, under (dirname x) y = true /\ fs_get (fst (prune_dirs_gen false dirs f)) y <> None.
Proof.
  intros Hcl Hx Hok Hd. destruct (dir_empty (fst (prune_dirs_gen false dirs f)) (dirname x)) eqn:He.
  - exfalso. apply (emptied_parents_pruned_holds dirs f Hcl x Hx Hok). split; assumption.
  - apply not_empty_witness. exact He.
Qed.
