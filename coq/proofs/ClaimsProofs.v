(* C08: proofs about the declaration-layer model (model/Claims.v). *)
From Coq Require Import List NArith Bool Lia String.
From SV Require Import lib.Bytes lib.Tmpl gen.GenClaims model.Claims.
Import ListNotations.
Open Scope N_scope.
Local Notation "x ++ y" := (List.app x y) (right associativity, at level 60) : list_scope.

(* ------------------------------------------------------------------------------------------ *)
(* Strings                                                                                     *)
(* ------------------------------------------------------------------------------------------ *)

Lemma str_eqb_false a b : str_eqb a b = false <-> a <> b.
Proof.
  split.
  - intros H E. apply str_eqb_eq in E. congruence.
  - intros H. destruct (str_eqb a b) eqn:E; [|reflexivity]. apply str_eqb_eq in E. contradiction.
Qed.

Lemma is_prefix_trans a b c : is_prefix a b = true -> is_prefix b c = true -> is_prefix a c = true.
Proof.
  intros H1 H2. apply is_prefix_spec in H1 as [t1 ->]. apply is_prefix_spec in H2 as [t2 ->].
  apply is_prefix_spec. exists (t1 ++ t2). now rewrite app_assoc.
Qed.

Lemma prefix_comparable a b s :
  is_prefix a s = true -> is_prefix b s = true -> is_prefix a b = true \/ is_prefix b a = true.
Proof.
  revert b s; induction a as [|x a IH]; intros b s Ha Hb; [left; reflexivity|].
  destruct b as [|y b]; [right; reflexivity|].
  destruct s as [|z s]; [discriminate|]. cbn in *.
  apply andb_true_iff in Ha as [Ha1 Ha2]. apply andb_true_iff in Hb as [Hb1 Hb2].
  apply N.eqb_eq in Ha1, Hb1. subst. rewrite N.eqb_refl. cbn. eapply IH; eassumption.
Qed.

Lemma is_prefix_antisym a b : is_prefix a b = true -> is_prefix b a = true -> a = b.
Proof.
  intros H1 H2. apply is_prefix_spec in H1 as [t1 E1]. apply is_prefix_spec in H2 as [t2 E2].
  subst b. rewrite <- app_assoc in E2. rewrite <- (app_nil_r a) in E2 at 1.
  apply app_inv_head in E2. symmetry in E2. apply app_eq_nil in E2 as [-> _]. now rewrite app_nil_r.
Qed.

Lemma is_prefix_app_r a s t : is_prefix a s = true -> is_prefix a (s ++ t) = true.
Proof.
  intros H. apply is_prefix_spec in H as [u ->]. apply is_prefix_spec. exists (u ++ t).
  now rewrite app_assoc.
Qed.

Lemma is_prefix_with_slash t p : is_prefix t p = true -> is_prefix t (with_slash p) = true.
Proof.
  intros H. unfold with_slash. destruct p as [|x p]; [exact H|].
  destruct (ends_with_c SLASH (x :: p)); [exact H|]. now apply is_prefix_app_r.
Qed.

Lemma ends_with_c_app c s : ends_with_c c (s ++ [c]) = true.
Proof.
  induction s as [|x s IH]; [cbn; apply N.eqb_refl|].
  change ((x :: s) ++ [c]) with (x :: (s ++ [c])).
  destruct (s ++ [c]) as [|y r] eqn:E; [destruct s; discriminate|].
  exact IH.
Qed.

Lemma with_slash_idem s : with_slash (with_slash s) = with_slash s.
Proof.
  unfold with_slash at 2. destruct s as [|x s]; [reflexivity|].
  destruct (ends_with_c SLASH (x :: s)) eqn:E.
  - unfold with_slash. now rewrite E.
  - unfold with_slash. destruct ((x :: s) ++ [SLASH]) eqn:E2; [discriminate|].
    rewrite <- E2. rewrite ends_with_c_app. now rewrite E.
Qed.

(* ------------------------------------------------------------------------------------------ *)
(* Association lists                                                                           *)
(* ------------------------------------------------------------------------------------------ *)

Lemma lookup_none_notin {A} k (l : list (str * A)) : lookup k l = None -> ~ In k (map fst l).
Proof.
  induction l as [|[k' v] l IH]; cbn; intros H; [tauto|].
  destruct (str_eqb k k') eqn:E; [discriminate|].
  apply str_eqb_false in E. intros [H1|H1]; [congruence|]. now apply IH.
Qed.

Lemma lookup_some_in {A} k (l : list (str * A)) v : lookup k l = Some v -> In (k, v) l.
Proof.
  induction l as [|[k' v'] l IH]; cbn; intros H; [discriminate|].
  destruct (str_eqb k k') eqn:E.
  - apply str_eqb_eq in E. inversion H; subst. now left.
  - right. now apply IH.
Qed.

Lemma lookup_in_nodup {A} k (l : list (str * A)) v :
  NoDup (map fst l) -> In (k, v) l -> lookup k l = Some v.
Proof.
  induction l as [|[k' v'] l IH]; cbn; intros Hnd Hin; [tauto|].
  inversion Hnd as [|? ? Hni Hnd']; subst.
  destruct Hin as [Hin|Hin].
  - inversion Hin; subst. now rewrite str_eqb_refl.
  - destruct (str_eqb k k') eqn:E.
    + apply str_eqb_eq in E. subst. exfalso. apply Hni. apply in_map_iff. exists (k', v). auto.
    + now apply IH.
Qed.

Lemma filter_nil {A} (f : A -> bool) l : filter f l = [] -> forall x, In x l -> f x = false.
Proof.
  induction l as [|y l IH]; cbn; intros H x Hin; [tauto|].
  destruct (f y) eqn:E; [discriminate|]. destruct Hin as [->|Hin]; auto.
Qed.

Lemma mem_str_in k l : mem_str k l = true <-> In k l.
Proof.
  induction l as [|x l IH]; cbn; [split; [discriminate|tauto]|].
  rewrite orb_true_iff, IH, str_eqb_eq. split; intros [H|H]; auto.
Qed.

(* ------------------------------------------------------------------------------------------ *)
(* The invariant                                                                               *)
(* ------------------------------------------------------------------------------------------ *)

Definition tree_labels (st : state) : list str := map fst (trees st).

Definition product_role (r : role) : bool := negb (role_eqb r RStatic).

Record Inv (gm : str -> str -> bool) (st : state) : Prop := mkInv {
  inv_uniq : NoDup (map fst (claims st));
  inv_tnodup : NoDup (tree_labels st);
  inv_anti : forall t t', In t (tree_labels st) -> In t' (tree_labels st) ->
                          is_prefix t t' = true -> t = t';
  inv_own : forall p cl t, In (p, cl) (claims st) -> In t (tree_labels st) ->
                           is_prefix t p = true -> c_role cl = RStatic /\ c_by cl = CTree t;
  inv_gm : forall g m, In g (globs st) -> In m (g_ms g) -> gm (g_pat g) m = true;
  inv_gprod : forall g m cl, In g (globs st) -> In m (g_ms g) -> In (m, cl) (claims st) ->
                             c_role cl = RStatic
}.

Lemma role_eqb_eq a b : role_eqb a b = true <-> a = b.
Proof. destruct a, b; cbn; split; congruence. Qed.

Lemma creator_eqb_eq a b : creator_eqb a b = true <-> a = b.
Proof.
  destruct a, b; cbn; split; try congruence; intros H.
  - apply str_eqb_eq in H. congruence.
  - inversion H. apply str_eqb_refl.
  - apply str_eqb_eq in H. congruence.
  - inversion H. apply str_eqb_refl.
Qed.

Lemma Inv_empty gm : Inv gm empty_state.
Proof. constructor; cbn; try constructor; intros; tauto. Qed.

Ltac dres H :=
  repeat match type of H with
  | bind ?x _ = Ok _ =>
      let E := fresh "E" in destruct x eqn:E; cbn [bind] in H; [|discriminate H]
  | (if ?b then _ else _) = Ok _ =>
      let E := fresh "E" in destruct b eqn:E; try discriminate H
  | match ?x with _ => _ end = Ok _ =>
      let E := fresh "E" in destruct x eqn:E; try discriminate H
  end.

Section Proofs.

Variable gm : str -> str -> bool.

Lemma find_owner_none st p :
  find_owner st p = Ok None -> forall t, In t (tree_labels st) -> is_prefix t (with_slash p) = false.
Proof.
  unfold find_owner. intros H t Hin. destruct (owners st p) as [|a [|b l]] eqn:E; try discriminate.
  unfold tree_labels in Hin. apply in_map_iff in Hin as [[t' c] [<- Hin]].
  apply (filter_nil _ _ E (t', c) Hin).
Qed.

Lemma find_owner_some st p t tc :
  find_owner st p = Ok (Some (t, tc)) -> In (t, tc) (trees st) /\ is_prefix t (with_slash p) = true.
Proof.
  unfold find_owner. intros H. destruct (owners st p) as [|a [|b l]] eqn:E; try discriminate.
  inversion H; subst. assert (Hin : In (t, tc) (owners st p)) by (rewrite E; now left).
  unfold owners in Hin. apply filter_In in Hin. exact Hin.
Qed.

Lemma in_tree_labels st t tc : In (t, tc) (trees st) -> In t (tree_labels st).
Proof. intros H. unfold tree_labels. apply in_map_iff. exists (t, tc). auto. Qed.

(* Any tree that is a prefix of p coincides with a tree known to be a prefix of p/ . *)
Lemma owner_unique st p t t' :
  Inv gm st -> In t (tree_labels st) -> In t' (tree_labels st) ->
  is_prefix t (with_slash p) = true -> is_prefix t' (with_slash p) = true -> t = t'.
Proof.
  intros HI Ht Ht' H1 H2. destruct (prefix_comparable _ _ _ H1 H2) as [H|H].
  - now apply (inv_anti _ _ HI).
  - symmetry. now apply (inv_anti _ _ HI).
Qed.

Lemma in_remove_str k x l : In x (remove_str k l) -> In x l.
Proof. unfold remove_str. intros H. apply filter_In in H. tauto. Qed.

(* Adding one claim. *)
Lemma set_claim_inv st p r c :
  Inv gm st ->
  lookup p (claims st) = None ->
  (forall t, In t (tree_labels st) -> is_prefix t p = true -> r = RStatic /\ c = CTree t) ->
  (product_role r = true -> forall g, In g (globs st) -> ~ In p (g_ms g)) ->
  Inv gm (set_claim st p (mkClaim r c)).
Proof.
  intros HI Hl Hown Hg. constructor; cbn.
  - constructor; [now apply lookup_none_notin | apply (inv_uniq _ _ HI)].
  - apply (inv_tnodup _ _ HI).
  - apply (inv_anti _ _ HI).
  - intros q cl t [Hin|Hin] Ht Hp.
    + inversion Hin; subst. cbn. now apply Hown.
    + now apply (inv_own _ _ HI q cl t).
  - apply (inv_gm _ _ HI).
  - intros g m cl Hgin Hm [Hin|Hin].
    + inversion Hin; subst. cbn. destruct r; try reflexivity; exfalso; now apply (Hg eq_refl g Hgin).
    + now apply (inv_gprod _ _ HI g m cl).
Qed.

Definition tree_decl_ok (st : state) (c : creator) (r : role) (p : str) : Prop :=
  forall t, c = CTree t ->
    r = RStatic /\ In t (tree_labels st) /\ is_prefix t (with_slash p) = true.

Definition same_frame (st st' : state) : Prop :=
  trees st' = trees st /\ steps st' = steps st /\ globs st' = globs st.

Lemma owner_guard_ok st p r a :
  bind (find_owner st p) (fun o : option (str * creator) =>
       match o with
       | Some (t, _) => if role_eqb r RStatic then Err (MTreeFile t p) else Err (MTreeProduct t p)
       | None => Ok tt
       end) = Ok a -> find_owner st p = Ok None.
Proof.
  intros H. destruct (find_owner st p) as [[[t tc]|]|m]; cbn in H; try discriminate; [|reflexivity].
  destruct (role_eqb r RStatic); discriminate.
Qed.

Lemma no_tree_prefix st p :
  find_owner st p = Ok None -> forall t, In t (tree_labels st) -> is_prefix t p = true -> False.
Proof.
  intros H t Ht Hp. apply is_prefix_with_slash in Hp.
  rewrite (find_owner_none _ _ H t Ht) in Hp. discriminate.
Qed.

Lemma declare_file_inv c r st p st' :
  Inv gm st -> tree_decl_ok st c r p ->
  (product_role r = true -> forall g, In g (globs st) -> ~ In p (g_ms g)) ->
  declare_file c r st p = Ok st' -> Inv gm st' /\ same_frame st st'.
Proof.
  intros HI Hc Hg H. unfold declare_file in H.
  destruct (role_eqb r RVolatile && ends_with_c SLASH p); [discriminate|].
  destruct c as [|l|t0].
  - dres H. apply owner_guard_ok in E. inversion H; subst. split; [|repeat split].
    apply set_claim_inv; auto. intros t Ht Hp. exfalso. eapply no_tree_prefix; eauto.
  - dres H. apply owner_guard_ok in E. inversion H; subst. split; [|repeat split].
    apply set_claim_inv; auto. intros t Ht Hp. exfalso. eapply no_tree_prefix; eauto.
  - cbn [bind] in H. dres H. inversion H; subst. split; [|repeat split].
    destruct (Hc t0 eq_refl) as [-> [Ht0 Hp0]].
    apply set_claim_inv; auto. intros t Ht Hp. split; [reflexivity|].
    f_equal. apply is_prefix_with_slash in Hp. symmetry. eapply owner_unique; eauto.
Qed.

Lemma same_frame_refl st : same_frame st st.
Proof. repeat split. Qed.

Lemma same_frame_trans a b c : same_frame a b -> same_frame b c -> same_frame a c.
Proof. intros [H1 [H2 H3]] [H4 [H5 H6]]. repeat split; congruence. Qed.

Lemma Inv_frame st st' :
  claims st' = claims st -> trees st' = trees st -> globs st' = globs st -> Inv gm st -> Inv gm st'.
Proof.
  intros Hc Ht Hg HI. destruct HI. constructor; unfold tree_labels in *; rewrite ?Hc, ?Ht, ?Hg; auto.
Qed.

Lemma fold_res_inv {A} (f : state -> A -> res state) (P : state -> A -> Prop) :
  (forall st a st', Inv gm st -> P st a -> f st a = Ok st' -> Inv gm st' /\ same_frame st st') ->
  (forall st st' a, same_frame st st' -> P st a -> P st' a) ->
  forall l st st', Inv gm st -> (forall a, In a l -> P st a) -> fold_res f l st = Ok st' ->
  Inv gm st' /\ same_frame st st'.
Proof.
  intros Hstep Hmono. induction l as [|a l IH]; intros st st' HI HP H; cbn in H.
  - inversion H; subst. split; [assumption|apply same_frame_refl].
  - destruct (f st a) as [s1|m] eqn:E; cbn [bind] in H; [|discriminate].
    destruct (Hstep _ _ _ HI (HP a (or_introl eq_refl)) E) as [HI1 Hf1].
    destruct (IH s1 st' HI1) as [HI2 Hf2]; auto.
    + intros b Hb. eapply Hmono; [exact Hf1|]. apply HP. now right.
    + split; [assumption|]. eapply same_frame_trans; eauto.
Qed.

Lemma tree_decl_ok_frame st st' c r p :
  same_frame st st' -> tree_decl_ok st c r p -> tree_decl_ok st' c r p.
Proof.
  intros [Ht _] H t Hc. destruct (H t Hc) as [H1 [H2 H3]]. repeat split; auto.
  unfold tree_labels in *. now rewrite Ht.
Qed.

(* sort_uniq keeps exactly the members *)
Lemma insert_uniq_in x y l : In y (insert_uniq x l) <-> y = x \/ In y l.
Proof.
  induction l as [|z l IH]; cbn; [intuition|].
  destruct (str_eqb x z) eqn:E.
  - apply str_eqb_eq in E. subst. cbn. intuition.
  - destruct (lex_lt x z); cbn; [intuition|]. rewrite IH. intuition.
Qed.

Lemma sort_uniq_in y l : In y (sort_uniq l) <-> In y l.
Proof.
  induction l as [|x l IH]; cbn; [tauto|]. rewrite insert_uniq_in, IH. intuition.
Qed.

Lemma supply_inv st p st' :
  Inv gm st -> supply st p = Ok st' -> Inv gm st' /\ same_frame st st'.
Proof.
  intros HI H. unfold supply in H.
  destruct (lookup p (claims st)) as [cl|] eqn:El.
  - destruct (role_eqb (c_role cl) RVolatile); [discriminate|]. inversion H; subst.
    split; [assumption|apply same_frame_refl].
  - destruct (find_owner st p) as [o|m] eqn:Eo; cbn [bind] in H; [|discriminate].
    destruct (bad_name p); [discriminate|].
    destruct o as [[t tc]|].
    + inversion H; subst. split; [|repeat split].
      apply find_owner_some in Eo as [Hin Hp].
      apply set_claim_inv; auto.
      * intros t' Ht' Hp'. split; [reflexivity|]. f_equal. apply is_prefix_with_slash in Hp'.
        symmetry. eapply owner_unique; eauto. eapply in_tree_labels; eauto.
      * cbn. discriminate.
    + inversion H; subst. destruct (mem_str p (loose st)).
      * split; [assumption|apply same_frame_refl].
      * split; [|repeat split]. eapply Inv_frame; [| | |exact HI]; reflexivity.
Qed.

Lemma fold_supply_inv ps st st' :
  Inv gm st -> fold_res supply ps st = Ok st' -> Inv gm st' /\ same_frame st st'.
Proof.
  intros HI H.
  apply (fold_res_inv supply (fun _ _ => True)) with (l := ps); auto.
  intros s a s' HIs _ Hs. eapply supply_inv; eauto.
Qed.

Definition glob_free (st : state) (p : str) : Prop :=
  forall g, In g (globs st) -> ~ In p (g_ms g).

Lemma fold_declare_inv c r ps st st' :
  Inv gm st ->
  (forall p, In p ps -> tree_decl_ok st c r p) ->
  (product_role r = true -> forall p, In p ps -> glob_free st p) ->
  fold_res (declare_file c r) ps st = Ok st' -> Inv gm st' /\ same_frame st st'.
Proof.
  intros HI Hc Hg H.
  apply (fold_res_inv (declare_file c r)
           (fun s p => tree_decl_ok s c r p /\ (product_role r = true -> glob_free s p)))
    with (l := ps); auto.
  - intros s a s' HIs [H1 H2] Hs. eapply declare_file_inv; eauto.
  - intros s s' a Hf [H1 H2]. split; [eapply tree_decl_ok_frame; eauto|].
    intros Hr g Hgin. destruct Hf as [_ [_ Hgl]]. rewrite Hgl in Hgin. now apply H2.
Qed.

(* declare_static_files *)
Lemma static_check_ok c st p o :
  Inv gm st -> tree_decl_ok st c RStatic p -> static_check c st p = Ok o ->
  match o with Some (d, q) => q = p /\ tree_decl_ok st d RStatic p | None => True end.
Proof.
  intros HI Hc H. unfold static_check in H.
  destruct c as [|l|t0]; cbn [bind] in H.
  - destruct (find_owner st p) as [[[t tc]|]|m] eqn:Eo; cbn [bind] in H; try discriminate.
    + destruct (creator_eqb tc CRoot); cbn [bind] in H; [|discriminate].
      destruct (check_decl st (WNode (CTree t)) p RStatic) as [b|]; cbn [bind] in H; [|discriminate].
      inversion H; subst. destruct b; [|exact I]. split; [reflexivity|].
      apply find_owner_some in Eo as [Hin Hp]. intros t' Ht'. inversion Ht'; subst.
      repeat split; auto. eapply in_tree_labels; eauto.
    + destruct (check_decl st (WNode CRoot) p RStatic) as [b|]; cbn [bind] in H; [|discriminate].
      inversion H; subst. destruct b; [|exact I]. split; [reflexivity|]. intros t' Ht'. discriminate.
  - destruct (find_owner st p) as [[[t tc]|]|m] eqn:Eo; cbn [bind] in H; try discriminate.
    + destruct (creator_eqb tc (CStep l)); cbn [bind] in H; [|discriminate].
      destruct (check_decl st (WNode (CTree t)) p RStatic) as [b|]; cbn [bind] in H; [|discriminate].
      inversion H; subst. destruct b; [|exact I]. split; [reflexivity|].
      apply find_owner_some in Eo as [Hin Hp]. intros t' Ht'. inversion Ht'; subst.
      repeat split; auto. eapply in_tree_labels; eauto.
    + destruct (check_decl st (WNode (CStep l)) p RStatic) as [b|]; cbn [bind] in H; [|discriminate].
      inversion H; subst. destruct b; [|exact I]. split; [reflexivity|]. intros t' Ht'. discriminate.
  - destruct (check_decl st (WNode (CTree t0)) p RStatic) as [b|]; cbn [bind] in H; [|discriminate].
    inversion H; subst. destruct b; [|exact I]. split; [reflexivity|]. exact Hc.
Qed.

Lemma static_checks_ok c st ps todo :
  Inv gm st -> (forall p, In p ps -> tree_decl_ok st c RStatic p) ->
  static_checks c st ps = Ok todo ->
  forall dp, In dp todo -> tree_decl_ok st (fst dp) RStatic (snd dp).
Proof.
  intros HI. revert todo. induction ps as [|p ps IH]; intros todo Hc H dp Hin; cbn in H.
  - inversion H; subst. destruct Hin.
  - destruct (static_check c st p) as [o|] eqn:E1; cbn [bind] in H; [|discriminate].
    destruct (static_checks c st ps) as [l|] eqn:E2; cbn [bind] in H; [|discriminate].
    inversion H; subst.
    pose proof (static_check_ok c st p o HI (Hc p (or_introl eq_refl)) E1) as Ho.
    assert (IH' : forall dp, In dp l -> tree_decl_ok st (fst dp) RStatic (snd dp)).
    { apply IH; auto. intros q Hq. apply Hc. now right. }
    destruct o as [[d q]|].
    + destruct Hin as [<-|Hin]; [|now apply IH']. cbn. destruct Ho as [-> Ho]. exact Ho.
    + now apply IH'.
Qed.

Lemma declare_static_files_inv c st ps st' :
  Inv gm st -> (forall p, In p ps -> tree_decl_ok st c RStatic p) ->
  declare_static_files c st ps = Ok st' -> Inv gm st' /\ same_frame st st'.
Proof.
  intros HI Hc H. unfold declare_static_files in H.
  destruct (static_checks c st (sort_uniq ps)) as [todo|] eqn:E; cbn [bind] in H; [|discriminate].
  assert (Hok : forall dp, In dp todo -> tree_decl_ok st (fst dp) RStatic (snd dp)).
  { apply (static_checks_ok c st (sort_uniq ps) todo HI); [|exact E].
    intros p Hp. apply Hc. now apply sort_uniq_in. }
  apply (fold_res_inv (fun s dp => declare_file (fst dp) RStatic s (snd dp))
           (fun s dp => tree_decl_ok s (fst dp) RStatic (snd dp))) with (l := todo); auto.
  - intros s a s' HIs Ha Hs. eapply declare_file_inv; eauto. cbn. discriminate.
  - intros s s' a Hf Ha. eapply tree_decl_ok_frame; eauto.
Qed.

Lemma non_tree_decl_ok st c r p : (forall t, c <> CTree t) -> tree_decl_ok st c r p.
Proof. intros H t Hc. exfalso. eapply H; eauto. Qed.

Lemma min_entry_none {A} (l : list (str * A)) : min_entry l = None -> l = [].
Proof.
  destruct l as [|[k v] l]; [reflexivity|]. cbn. destruct (min_entry l) as [[k' v']|].
  - destruct (lex_lt k' k); discriminate.
  - discriminate.
Qed.

Definition handover (d : str) (cls : list (str * claim)) : list (str * claim) :=
  map (fun pc => if is_prefix d (fst pc) then (fst pc, mkClaim (c_role (snd pc)) (CTree d)) else pc) cls.

Lemma handover_keys d cls : map fst (handover d cls) = map fst cls.
Proof.
  unfold handover. rewrite map_map. apply map_ext. intros [p cl]. cbn. now destruct (is_prefix d p).
Qed.

Lemma handover_in d cls p cl :
  In (p, cl) (handover d cls) ->
  exists cl0, In (p, cl0) cls /\ c_role cl = c_role cl0 /\
              (if is_prefix d p then c_by cl = CTree d else cl = cl0).
Proof.
  unfold handover. intros H. apply in_map_iff in H as [[q cl0] [Heq Hin]]. cbn in Heq.
  destruct (is_prefix d q) eqn:E.
  - inversion Heq; subst. exists cl0. rewrite E. auto.
  - inversion Heq; subst. exists cl. rewrite E. auto.
Qed.

Lemma register_tree_inv c path st st' :
  Inv gm st -> register_tree c path st = Ok st' -> Inv gm st'.
Proof.
  intros HI H. unfold register_tree in H.
  destruct (require_step st c); cbn [bind] in H; [|discriminate].
  destruct (str_eqb path stepup_dir || is_prefix stepup_prefix path); [discriminate|].
  set (d := with_slash path) in *.
  destruct (str_eqb d [46; SLASH] || str_eqb d []); [discriminate|].
  destruct (str_eqb d [SLASH]); [discriminate|].
  destruct (find_owner st d) as [o|] eqn:Eo; cbn [bind] in H; [|discriminate].
  destruct o as [[t tc]|].
  - destruct (creator_eqb tc c).
    + inversion H; subst. assumption.
    + destruct (str_eqb t d); [|discriminate].
      destruct (phrase_of tc) as [x|]; [destruct (phrase_of c) as [y|]|]; try discriminate.
      destruct (sort2_str x y). discriminate.
  - destruct (existsb (fun tc => is_prefix d (fst tc)) (trees st)) eqn:Eex; [discriminate|].
    destruct (min_entry (filter (offending c) (filter (fun pc => is_prefix d (fst pc)) (claims st))))
      as [[p cl]|] eqn:Emin.
    { destruct (negb (role_eqb (c_role cl) RStatic)); discriminate. }
    apply min_entry_none in Emin.
    assert (Hdd : with_slash d = d) by (apply with_slash_idem).
    assert (Hnopre : forall t, In t (tree_labels st) -> is_prefix t d = false).
    { intros t Ht. rewrite <- Hdd. eapply find_owner_none; eauto. }
    assert (Hnosub : forall t, In t (tree_labels st) -> is_prefix d t = false).
    { intros t Ht. unfold tree_labels in Ht. apply in_map_iff in Ht as [[t' c'] [<- Hin]]. cbn.
      destruct (is_prefix d t') eqn:E; [|reflexivity].
      assert (existsb (fun tc => is_prefix d (fst tc)) (trees st) = true).
      { apply existsb_exists. exists (t', c'). auto. }
      congruence. }
    assert (Hstat : forall p cl, In (p, cl) (claims st) -> is_prefix d p = true ->
                                 c_role cl = RStatic).
    { intros p cl Hin Hp.
      assert (Hf : offending c (p, cl) = false).
      { apply (filter_nil _ _ Emin). apply filter_In. split; [|exact Hp]. exact Hin. }
      unfold offending in Hf. cbn in Hf. apply orb_false_iff in Hf as [Hf _].
      apply negb_false_iff in Hf. now apply role_eqb_eq. }
    match type of H with declare_static_files _ ?s _ = _ => set (st1 := s) in * end.
    assert (HI1 : Inv gm st1).
    { constructor; cbn.
      - fold (handover d (claims st)). rewrite handover_keys. apply (inv_uniq _ _ HI).
      - constructor; [|apply (inv_tnodup _ _ HI)]. intros Hin.
        pose proof (Hnopre d Hin) as Hx. rewrite is_prefix_refl in Hx. discriminate.
      - intros t t' [<-|Ht] [<-|Ht'] Hp; auto.
        + rewrite (Hnosub t' Ht') in Hp. discriminate.
        + rewrite (Hnopre t Ht) in Hp. discriminate.
        + now apply (inv_anti _ _ HI).
      - fold (handover d (claims st)). intros p cl t Hin Ht Hp.
        apply handover_in in Hin as [cl0 [Hin0 [Hrole Hby]]].
        destruct Ht as [<-|Ht].
        + rewrite Hp in Hby. split; [|exact Hby]. rewrite Hrole. now apply (Hstat p cl0).
        + destruct (is_prefix d p) eqn:Edp.
          * exfalso. destruct (prefix_comparable _ _ _ Hp Edp) as [Hx|Hx].
            -- rewrite (Hnopre t Ht) in Hx. discriminate.
            -- rewrite (Hnosub t Ht) in Hx. discriminate.
          * subst cl0. now apply (inv_own _ _ HI p cl t).
      - apply (inv_gm _ _ HI).
      - fold (handover d (claims st)). intros g m cl Hg Hm Hin.
        apply handover_in in Hin as [cl0 [Hin0 [Hrole _]]]. rewrite Hrole.
        now apply (inv_gprod _ _ HI g m cl0). }
    eapply declare_static_files_inv in H; [tauto|exact HI1|].
    intros p Hp t Ht. inversion Ht; subst t. apply filter_In in Hp as [_ Hp].
    repeat split; [now left|]. now apply is_prefix_with_slash.
Qed.

Lemma first_product_none st ms :
  first_product st ms = None -> forall m, In m ms -> is_product st m = None.
Proof.
  induction ms as [|x ms IH]; cbn; intros H m Hin; [tauto|].
  destruct (is_product st x) eqn:E; [discriminate|]. destruct Hin as [<-|Hin]; auto.
Qed.

Lemma register_glob_inv s pat ms st st' :
  Inv gm st -> register_glob gm s pat ms st = Ok st' -> Inv gm st'.
Proof.
  intros HI H. unfold register_glob in H.
  destruct (require_step st (CStep s)); cbn [bind] in H; [|discriminate].
  set (ms' := sort_uniq (filter (gm pat) ms)) in *.
  destruct (first_product st ms') as [[p cl]|] eqn:Ef; [discriminate|].
  destruct (find_first (is_prefix stepup_prefix) ms'); [discriminate|].
  inversion H; subst. destruct HI. constructor; cbn; auto.
  - intros g m Hg Hm. apply in_app_or in Hg as [Hg|[<-|[]]]; auto.
    cbn in *. unfold ms' in Hm. apply (proj1 (sort_uniq_in _ _)) in Hm. apply filter_In in Hm. tauto.
  - intros g m cl Hg Hm Hin. apply in_app_or in Hg as [Hg|[<-|[]]]; eauto.
    cbn in Hm. pose proof (first_product_none _ _ Ef m Hm) as Hp. unfold is_product in Hp.
    rewrite (lookup_in_nodup _ _ _ inv_uniq0 Hin) in Hp.
    destruct (role_eqb (c_role cl) RStatic) eqn:Er; [now apply role_eqb_eq|discriminate].
Qed.

Lemma find_first_none {A} (f : A -> bool) l : find_first f l = None -> forall x, In x l -> f x = false.
Proof.
  induction l as [|y l IH]; cbn; intros H x Hin; [tauto|].
  destruct (f y) eqn:E; [discriminate|]. destruct Hin as [<-|Hin]; auto.
Qed.

Lemma glob_check_ok gs lbl ps :
  glob_check gm gs lbl ps = Ok tt -> forall g p, In g gs -> In p ps -> gm (g_pat g) p = false.
Proof.
  induction gs as [|g0 gs IH]; cbn; intros H g p Hg Hp; [tauto|].
  destruct (find_first (gm (g_pat g0)) ps) eqn:E; [discriminate|].
  destruct Hg as [<-|Hg]; [eapply find_first_none; eauto|]. now apply IH.
Qed.

Lemma glob_free_of_check st lbl ps p :
  Inv gm st -> glob_check gm (globs st) lbl ps = Ok tt -> In p ps -> glob_free st p.
Proof.
  intros HI H Hp g Hg Hin.
  pose proof (glob_check_ok _ _ _ H g p Hg Hp) as Hf.
  rewrite (inv_gm _ _ HI g p Hg Hin) in Hf. discriminate.
Qed.

Lemma check_all_incl st w r ps l : check_all st w r ps = Ok l -> incl l ps.
Proof.
  revert l. induction ps as [|p ps IH]; cbn; intros l H.
  - inversion H. apply incl_refl.
  - destruct (check_decl st w p r) as [b|]; cbn [bind] in H; [|discriminate].
    destruct (check_all st w r ps) as [l0|]; cbn [bind] in H; [|discriminate].
    inversion H; subst. destruct b.
    + apply incl_cons; [now left|]. apply incl_tl. now apply IH.
    + apply incl_tl. now apply IH.
Qed.

Lemma glob_free_frame st st' p : same_frame st st' -> glob_free st p -> glob_free st' p.
Proof. intros [_ [_ Hg]] H g Hin. rewrite Hg in Hin. now apply H. Qed.

Lemma unit_res_tt (r : res unit) u : r = Ok u -> r = Ok tt.
Proof. destruct u. auto. Qed.

Lemma define_step_inv c lbl inps outs vols st st' :
  Inv gm st -> define_step gm c lbl inps outs vols st = Ok st' -> Inv gm st'.
Proof.
  intros HI H. unfold define_step in H.
  destruct (require_step st c); cbn [bind] in H; [|discriminate].
  destruct (creator_eqb c CRoot && existsb (fun sc => creator_eqb (snd sc) CRoot) (steps st));
    [discriminate|].
  destruct (dir_inputs (sort_uniq inps)); cbn [bind] in H; [|discriminate].
  destruct (glob_check gm (globs st) lbl (sort_uniq (sort_uniq outs ++ sort_uniq vols))) as [u|] eqn:Eg;
    cbn [bind] in H; [|discriminate].
  apply unit_res_tt in Eg.
  match type of H with bind ?x _ = _ => destruct x; cbn [bind] in H; [|discriminate] end.
  destruct (check_all st (WPhrase (phrase_step lbl)) ROutput (sort_uniq outs)); cbn [bind] in H; [|discriminate].
  destruct (check_all st (WPhrase (phrase_step lbl)) RVolatile (sort_uniq vols)); cbn [bind] in H; [|discriminate].
  destruct (overlap_check (phrase_step lbl) (sort_uniq outs) (sort_uniq vols)); cbn [bind] in H; [|discriminate].
  match type of H with bind (fold_res supply _ ?s) _ = _ => set (st1 := s) in * end.
  assert (HI1 : Inv gm st1) by (eapply Inv_frame; [| | |exact HI]; reflexivity).
  assert (Hgf : forall p, In p (sort_uniq outs) \/ In p (sort_uniq vols) -> glob_free st1 p).
  { intros p Hp. apply (glob_free_of_check st1 lbl (sort_uniq (sort_uniq outs ++ sort_uniq vols))); auto.
    apply sort_uniq_in. apply in_or_app. exact Hp. }
  destruct (fold_res supply (sort_uniq inps) st1) as [st2|] eqn:E2; cbn [bind] in H; [|discriminate].
  destruct (fold_supply_inv _ _ _ HI1 E2) as [HI2 Hf2].
  destruct (fold_res (declare_file (CStep lbl) ROutput) (sort_uniq outs) st2) as [st3|] eqn:E3;
    cbn [bind] in H; [|discriminate].
  destruct (fold_declare_inv _ _ _ _ _ HI2
              (fun p _ => non_tree_decl_ok st2 (CStep lbl) ROutput p ltac:(discriminate))
              (fun _ p Hp => glob_free_frame _ _ _ Hf2 (Hgf p (or_introl Hp))) E3) as [HI3 Hf3].
  pose proof (same_frame_trans _ _ _ Hf2 Hf3) as Hf23.
  destruct (fold_declare_inv _ _ _ _ _ HI3
              (fun p _ => non_tree_decl_ok st3 (CStep lbl) RVolatile p ltac:(discriminate))
              (fun _ p Hp => glob_free_frame _ _ _ Hf23 (Hgf p (or_intror Hp))) H) as [HI4 _].
  exact HI4.
Qed.

Lemma amend_step_inv s inps outs vols st st' :
  Inv gm st -> amend_step gm s inps outs vols st = Ok st' -> Inv gm st'.
Proof.
  intros HI H. unfold amend_step in H.
  destruct (require_step st (CStep s)); cbn [bind] in H; [|discriminate].
  destruct (dir_inputs (sort_uniq inps)); cbn [bind] in H; [|discriminate].
  destruct (fold_res supply (sort_uniq inps) st) as [st1|] eqn:E1; cbn [bind] in H; [|discriminate].
  destruct (fold_supply_inv _ _ _ HI E1) as [HI1 Hf1].
  destruct (check_all st1 (WNode (CStep s)) ROutput (sort_uniq outs)) as [outs'|] eqn:Eo;
    cbn [bind] in H; [|discriminate].
  destruct (check_all st1 (WNode (CStep s)) RVolatile (sort_uniq vols)) as [vols'|] eqn:Ev;
    cbn [bind] in H; [|discriminate].
  destruct (overlap_check (phrase_step s) outs' vols'); cbn [bind] in H; [|discriminate].
  destruct (glob_check gm (globs st1) s (sort_uniq (outs' ++ vols'))) as [u|] eqn:Eg;
    cbn [bind] in H; [|discriminate].
  apply unit_res_tt in Eg.
  assert (Hgf : forall p, In p outs' \/ In p vols' -> glob_free st1 p).
  { intros p Hp. apply (glob_free_of_check st1 s (sort_uniq (outs' ++ vols'))); auto.
    apply sort_uniq_in. apply in_or_app. exact Hp. }
  destruct (fold_res (declare_file (CStep s) ROutput) outs' st1) as [st2|] eqn:E2;
    cbn [bind] in H; [|discriminate].
  destruct (fold_declare_inv _ _ _ _ _ HI1
              (fun p _ => non_tree_decl_ok st1 (CStep s) ROutput p ltac:(discriminate))
              (fun _ p Hp => Hgf p (or_introl Hp)) E2) as [HI2 Hf2].
  destruct (fold_declare_inv _ _ _ _ _ HI2
              (fun p _ => non_tree_decl_ok st2 (CStep s) RVolatile p ltac:(discriminate))
              (fun _ p Hp => glob_free_frame _ _ _ Hf2 (Hgf p (or_intror Hp))) H) as [HI3 _].
  exact HI3.
Qed.

Theorem step_inv st r st' : Inv gm st -> step gm st r = Ok st' -> Inv gm st'.
Proof.
  intros HI H. destruct r; cbn in H.
  - destruct (require_step st c) eqn:Er; cbn [bind] in H; [|discriminate].
    destruct c as [| |t]; try (eapply declare_static_files_inv in H; [tauto|exact HI|];
      intros p _; apply non_tree_decl_ok; discriminate).
    (* a tree is never the creator of a request: require_step rejects it *)
    all: try (unfold require_step in Er; cbn in Er; discriminate).
  - eapply register_tree_inv; eauto.
  - eapply register_glob_inv; eauto.
  - eapply define_step_inv; eauto.
  - eapply amend_step_inv; eauto.
Qed.

Lemma step_skip_inv st r : Inv gm st -> Inv gm (step_skip gm st r).
Proof.
  intros HI. unfold step_skip. destruct (step gm st r) eqn:E; [|assumption]. eapply step_inv; eauto.
Qed.

Theorem run_skip_inv rs st : Inv gm st -> Inv gm (run_skip gm st rs).
Proof.
  revert st. induction rs as [|r rs IH]; intros st HI; cbn; [assumption|].
  apply IH. now apply step_skip_inv.
Qed.

Definition reachable (st : state) : Prop := exists rs, st = run_skip gm empty_state rs.

Theorem reachable_inv st : reachable st -> Inv gm st.
Proof. intros [rs ->]. apply run_skip_inv. apply Inv_empty. Qed.

Lemma reachable_run_skip st rs : reachable st -> reachable (run_skip gm st rs).
Proof.
  intros [rs0 ->]. exists (rs0 ++ rs)%list. unfold run_skip. now rewrite fold_left_app.
Qed.

(* claim_unique: one claim, hence one role and one creator, per path *)
Theorem claim_unique st p cl1 cl2 :
  reachable st -> In (p, cl1) (claims st) -> In (p, cl2) (claims st) -> cl1 = cl2.
Proof.
  intros HR H1 H2. apply reachable_inv in HR. pose proof (inv_uniq _ _ HR) as Hnd.
  pose proof (lookup_in_nodup _ _ _ Hnd H2) as E2.
  pose proof (lookup_in_nodup _ _ _ Hnd H1) as E1. congruence.
Qed.

Theorem tree_owns_everything_under st p cl t tc :
  reachable st -> In (p, cl) (claims st) -> In (t, tc) (trees st) -> is_prefix t p = true ->
  c_role cl = RStatic /\ c_by cl = CTree t.
Proof.
  intros HR Hc Ht Hp. apply reachable_inv in HR.
  apply (inv_own _ _ HR p cl t); auto. eapply in_tree_labels; eauto.
Qed.

Theorem no_product_under_tree st p cl t tc :
  reachable st -> In (p, cl) (claims st) -> In (t, tc) (trees st) -> is_prefix t p = true ->
  c_role cl <> ROutput /\ c_role cl <> RVolatile.
Proof.
  intros HR Hc Ht Hp. destruct (tree_owns_everything_under _ _ _ _ _ HR Hc Ht Hp) as [Hr _].
  rewrite Hr. split; discriminate.
Qed.

Theorem trees_disjoint st t tc t' tc' :
  reachable st -> In (t, tc) (trees st) -> In (t', tc') (trees st) -> is_prefix t t' = true ->
  t = t' /\ tc = tc'.
Proof.
  intros HR H1 H2 Hp. apply reachable_inv in HR.
  assert (t = t') by (apply (inv_anti _ _ HR); auto; eapply in_tree_labels; eauto). subst t'.
  split; [reflexivity|].
  pose proof (lookup_in_nodup _ _ _ (inv_tnodup _ _ HR) H1).
  pose proof (lookup_in_nodup _ _ _ (inv_tnodup _ _ HR) H2). congruence.
Qed.

(* The provable part of the glob clause: a recorded match of a registered pattern is never a
   build product, whichever came first. *)
Theorem recorded_match_never_product st g m cl :
  reachable st -> In g (globs st) -> In m (g_ms g) -> In (m, cl) (claims st) -> c_role cl = RStatic.
Proof. intros HR. apply reachable_inv in HR. apply (inv_gprod _ _ HR). Qed.

End Proofs.

(* ------------------------------------------------------------------------------------------ *)
(* Refutations (witnesses by computation)                                                      *)
(* ------------------------------------------------------------------------------------------ *)

Definition w_plan : str := s2l "plan"%string.
Definition w_A : str := s2l "A"%string.
Definition w_B : str := s2l "B"%string.
Definition w_d : str := s2l "d"%string.
Definition w_pat : str := s2l "*.txt"%string.
Definition w_atxt : str := s2l "a.txt"%string.
(* the matcher of the witness: "*.txt" matches "a.txt" *)
Definition w_gm (pat p : str) : bool := str_eqb pat w_pat && str_eqb p w_atxt.

Definition w_boot : state :=
  run_skip w_gm empty_state
    [RqDefine CRoot w_plan [] [] []; RqDefine (CStep w_plan) w_A [] [] [];
     RqDefine (CStep w_plan) w_B [] [] []].

Definition accepted {A} (r : res A) : bool := match r with Ok _ => true | Err _ => false end.

(* D3: a pattern and a planned output that is not (yet) among the recorded matches. *)
Lemma glob_vs_planned_output_refuted :
  let r1 := RqGlob w_B w_pat [] in
  let r2 := RqAmend w_A [] [w_atxt] [] in
  reachable w_gm w_boot /\
  accepted (step w_gm w_boot r1) = true /\ accepted (step w_gm w_boot r2) = true /\
  accepted (run w_gm w_boot [r1; r2]) = false /\ accepted (run w_gm w_boot [r2; r1]) = true.
Proof.
  cbv zeta. split; [eexists; reflexivity|]. vm_compute. repeat split; reflexivity.
Qed.

Lemma glob_never_matches_product_refuted :
  exists st g p cl, reachable w_gm st /\ In g (globs st) /\ In (p, cl) (claims st) /\
                    c_role cl = ROutput /\ w_gm (g_pat g) p = true.
Proof.
  exists (run_skip w_gm w_boot [RqAmend w_A [] [w_atxt] []; RqGlob w_B w_pat []]).
  exists (mkGlob w_B w_pat []), w_atxt, (mkClaim ROutput (CStep w_A)).
  split; [apply reachable_run_skip; eexists; reflexivity|].
  vm_compute. repeat split; auto.
Qed.

(* D11: a static tree d/ and a file whose path is the tree's own name d. *)
Lemma tree_vs_file_at_tree_path_refuted :
  let r1 := RqTree (CStep w_B) w_d in
  let r2 := RqAmend w_A [] [w_d] [] in
  reachable w_gm w_boot /\
  accepted (step w_gm w_boot r1) = true /\ accepted (step w_gm w_boot r2) = true /\
  accepted (run w_gm w_boot [r1; r2]) = false /\ accepted (run w_gm w_boot [r2; r1]) = true.
Proof.
  cbv zeta. split; [eexists; reflexivity|]. vm_compute. repeat split; reflexivity.
Qed.

Lemma tree_vs_static_at_tree_path_refuted :
  let r1 := RqTree (CStep w_B) w_d in
  let r2 := RqStatic (CStep w_A) [w_d] in
  accepted (step w_gm w_boot r1) = true /\ accepted (step w_gm w_boot r2) = true /\
  accepted (run w_gm w_boot [r1; r2]) = false /\ accepted (run w_gm w_boot [r2; r1]) = true.
Proof. vm_compute. repeat split; reflexivity. Qed.

(* The owner lookup (path + "/") and the prefix scan disagree on exactly this spelling: the
   owner-lookup form of the ownership invariant does not hold in reachable states. *)
Lemma owner_lookup_invariant_refuted :
  exists st p cl t tc, reachable w_gm st /\ In (p, cl) (claims st) /\ In (t, tc) (trees st) /\
                       is_prefix t (with_slash p) = true /\ c_role cl = ROutput.
Proof.
  exists (run_skip w_gm w_boot [RqAmend w_A [] [w_d] []; RqTree (CStep w_B) w_d]).
  exists w_d, (mkClaim ROutput (CStep w_A)), (with_slash w_d), (CStep w_B).
  split; [apply reachable_run_skip; eexists; reflexivity|].
  vm_compute. repeat split; auto.
Qed.
