(* C08: proofs about the declaration-layer model (model/Claims.v). *)
From Coq Require Import List NArith Bool Lia String.
From SV Require Import lib.Bytes lib.Tmpl gen.GenClaims model.Claims.
Import ListNotations.
Open Scope N_scope.
(* the registration key is abstract in every proof: never unfold it *)
Arguments gkey : simpl never.
Local Notation "x ++ y" := (List.app x y) (right associativity, at level 60) : list_scope.

(* ------------------------------------------------------------------------------------------ *)
(* Strings                                                                                     *)
(* ------------------------------------------------------------------------------------------ *)

Lemma str_eqb_false a b : str_eqb a b = false <-> a <> b.
Proof.
  split.
  - intros H E. apply str_eqb_eq in E. congruence.
  - intros H. destruct (str_eqb a b) eqn:E; [|reflexivity]. apply str_eqb_eq in E. contradiction.
Qed.

Lemma is_prefix_trans a b c : is_prefix a b = true -> is_prefix b c = true -> is_prefix a c = true.
Proof.
  intros H1 H2. apply is_prefix_spec in H1 as [t1 ->]. apply is_prefix_spec in H2 as [t2 ->].
  apply is_prefix_spec. exists (t1 ++ t2). now rewrite app_assoc.
Qed.

Lemma prefix_comparable a b s :
  is_prefix a s = true -> is_prefix b s = true -> is_prefix a b = true \/ is_prefix b a = true.
Proof.
  revert b s; induction a as [|x a IH]; intros b s Ha Hb; [left; reflexivity|].
  destruct b as [|y b]; [right; reflexivity|].
  destruct s as [|z s]; [discriminate|]. cbn in *.
  apply andb_true_iff in Ha as [Ha1 Ha2]. apply andb_true_iff in Hb as [Hb1 Hb2].
  apply N.eqb_eq in Ha1, Hb1. subst. rewrite N.eqb_refl. cbn. eapply IH; eassumption.
Qed.

Lemma is_prefix_antisym a b : is_prefix a b = true -> is_prefix b a = true -> a = b.
Proof.
  intros H1 H2. apply is_prefix_spec in H1 as [t1 E1]. apply is_prefix_spec in H2 as [t2 E2].
  subst b. rewrite <- app_assoc in E2. rewrite <- (app_nil_r a) in E2 at 1.
  apply app_inv_head in E2. symmetry in E2. apply app_eq_nil in E2 as [-> _]. now rewrite app_nil_r.
Qed.

Lemma is_prefix_app_r a s t : is_prefix a s = true -> is_prefix a (s ++ t) = true.
Proof.
  intros H. apply is_prefix_spec in H as [u ->]. apply is_prefix_spec. exists (u ++ t).
  now rewrite app_assoc.
Qed.

Lemma is_prefix_with_slash t p : is_prefix t p = true -> is_prefix t (with_slash p) = true.
Proof.
  intros H. unfold with_slash. destruct p as [|x p]; [exact H|].
  destruct (ends_with_c SLASH (x :: p)); [exact H|]. now apply is_prefix_app_r.
Qed.

Lemma ends_with_c_app c s : ends_with_c c (s ++ [c]) = true.
Proof.
  induction s as [|x s IH]; [cbn; apply N.eqb_refl|].
  change ((x :: s) ++ [c]) with (x :: (s ++ [c])).
  destruct (s ++ [c]) as [|y r] eqn:E; [destruct s; discriminate|].
  exact IH.
Qed.

Lemma with_slash_idem s : with_slash (with_slash s) = with_slash s.
Proof.
  unfold with_slash at 2. destruct s as [|x s]; [reflexivity|].
  destruct (ends_with_c SLASH (x :: s)) eqn:E.
  - unfold with_slash. now rewrite E.
  - unfold with_slash. destruct ((x :: s) ++ [SLASH]) eqn:E2; [discriminate|].
    rewrite <- E2. rewrite ends_with_c_app. now rewrite E.
Qed.

(* ------------------------------------------------------------------------------------------ *)
(* Association lists                                                                           *)
(* ------------------------------------------------------------------------------------------ *)

Lemma lookup_none_notin {A} k (l : list (str * A)) : lookup k l = None -> ~ In k (map fst l).
Proof.
  induction l as [|[k' v] l IH]; cbn; intros H; [tauto|].
  destruct (str_eqb k k') eqn:E; [discriminate|].
  apply str_eqb_false in E. intros [H1|H1]; [congruence|]. now apply IH.
Qed.

Lemma lookup_some_in {A} k (l : list (str * A)) v : lookup k l = Some v -> In (k, v) l.
Proof.
  induction l as [|[k' v'] l IH]; cbn; intros H; [discriminate|].
  destruct (str_eqb k k') eqn:E.
  - apply str_eqb_eq in E. inversion H; subst. now left.
  - right. now apply IH.
Qed.

Lemma lookup_in_nodup {A} k (l : list (str * A)) v :
  NoDup (map fst l) -> In (k, v) l -> lookup k l = Some v.
Proof.
  induction l as [|[k' v'] l IH]; cbn; intros Hnd Hin; [tauto|].
  inversion Hnd as [|? ? Hni Hnd']; subst.
  destruct Hin as [Hin|Hin].
  - inversion Hin; subst. now rewrite str_eqb_refl.
  - destruct (str_eqb k k') eqn:E.
    + apply str_eqb_eq in E. subst. exfalso. apply Hni. apply in_map_iff. exists (k', v). auto.
    + now apply IH.
Qed.

Lemma filter_nil {A} (f : A -> bool) l : filter f l = [] -> forall x, In x l -> f x = false.
Proof.
  induction l as [|y l IH]; cbn; intros H x Hin; [tauto|].
  destruct (f y) eqn:E; [discriminate|]. destruct Hin as [->|Hin]; auto.
Qed.

Lemma mem_str_in k l : mem_str k l = true <-> In k l.
Proof.
  induction l as [|x l IH]; cbn; [split; [discriminate|tauto]|].
  rewrite orb_true_iff, IH, str_eqb_eq. split; intros [H|H]; auto.
Qed.

(* ------------------------------------------------------------------------------------------ *)
(* The invariant                                                                               *)
(* ------------------------------------------------------------------------------------------ *)

Definition tree_labels (st : state) : list str := map fst (trees st).

Definition product_role (r : role) : bool := negb (role_eqb r RStatic).

Record Inv (gm : str -> str -> bool) (gr : bool) (st : state) : Prop := mkInv {
  inv_uniq : NoDup (map fst (claims st));
  inv_tnodup : NoDup (tree_labels st);
  inv_anti : forall t t', In t (tree_labels st) -> In t' (tree_labels st) ->
                          is_prefix t t' = true -> t = t';
  inv_own : forall p cl t, In (p, cl) (claims st) -> In t (tree_labels st) ->
                           is_prefix t p = true -> c_role cl = RStatic /\ c_by cl = CTree t;
  inv_gm : forall g m, In g (globs st) -> In m (g_ms g) -> gm (g_key g) m = true;
  inv_gprod : forall g m cl, In g (globs st) -> In m (g_ms g) -> In (m, cl) (claims st) ->
                             c_role cl = RStatic;
  (* only when register_nglob scans the products (after the fix of D3) *)
  inv_gfull : gr = true -> forall g p cl, In g (globs st) -> In (p, cl) (claims st) ->
                             gm (g_key g) p = true -> c_role cl = RStatic
}.

Lemma role_eqb_eq a b : role_eqb a b = true <-> a = b.
Proof. destruct a, b; cbn; split; congruence. Qed.

Lemma creator_eqb_eq a b : creator_eqb a b = true <-> a = b.
Proof.
  destruct a, b; cbn; split; try congruence; intros H.
  - apply str_eqb_eq in H. congruence.
  - inversion H. apply str_eqb_refl.
  - apply str_eqb_eq in H. congruence.
  - inversion H. apply str_eqb_refl.
Qed.

Lemma Inv_empty gm gr : Inv gm gr empty_state.
Proof. constructor; cbn; try constructor; intros; tauto. Qed.

Ltac dres H :=
  repeat match type of H with
  | bind ?x _ = Ok _ =>
      let E := fresh "E" in destruct x eqn:E; cbn [bind] in H; [|discriminate H]
  | (if ?b then _ else _) = Ok _ =>
      let E := fresh "E" in destruct b eqn:E; try discriminate H
  | match ?x with _ => _ end = Ok _ =>
      let E := fresh "E" in destruct x eqn:E; try discriminate H
  end.

Section Proofs.

Variable gm : str -> str -> bool.
Variable ow : bool.
Variable gr : bool.

Lemma is_prefix_probe t p : is_prefix t p = true -> is_prefix t (probe ow p) = true.
Proof. unfold probe. destruct ow; [apply is_prefix_with_slash|auto]. Qed.

Lemma probe_with_slash p : probe ow (with_slash p) = with_slash p.
Proof. unfold probe. destruct ow; [apply with_slash_idem|reflexivity]. Qed.

Lemma find_owner_none st p :
  find_owner ow st p = Ok None -> forall t, In t (tree_labels st) -> is_prefix t (probe ow p) = false.
Proof.
  unfold find_owner. intros H t Hin. destruct (owners ow st p) as [|a [|b l]] eqn:E; try discriminate.
  unfold tree_labels in Hin. apply in_map_iff in Hin as [[t' c] [<- Hin]].
  apply (filter_nil _ _ E (t', c) Hin).
Qed.

Lemma find_owner_some st p t tc :
  find_owner ow st p = Ok (Some (t, tc)) -> In (t, tc) (trees st) /\ is_prefix t (probe ow p) = true.
Proof.
  unfold find_owner. intros H. destruct (owners ow st p) as [|a [|b l]] eqn:E; try discriminate.
  inversion H; subst. assert (Hin : In (t, tc) (owners ow st p)) by (rewrite E; now left).
  unfold owners in Hin. apply filter_In in Hin. exact Hin.
Qed.

Lemma in_tree_labels st t tc : In (t, tc) (trees st) -> In t (tree_labels st).
Proof. intros H. unfold tree_labels. apply in_map_iff. exists (t, tc). auto. Qed.

(* Any tree that is a prefix of p coincides with a tree known to be a prefix of p/ . *)
Lemma owner_unique st p t t' :
  Inv gm gr st -> In t (tree_labels st) -> In t' (tree_labels st) ->
  is_prefix t (probe ow p) = true -> is_prefix t' (probe ow p) = true -> t = t'.
Proof.
  intros HI Ht Ht' H1 H2. destruct (prefix_comparable _ _ _ H1 H2) as [H|H].
  - now apply (inv_anti _ _ _ HI).
  - symmetry. now apply (inv_anti _ _ _ HI).
Qed.

Lemma in_remove_str k x l : In x (remove_str k l) -> In x l.
Proof. unfold remove_str. intros H. apply filter_In in H. tauto. Qed.

(* Adding one claim. *)
Lemma set_claim_inv st p r c :
  Inv gm gr st ->
  lookup p (claims st) = None ->
  (forall t, In t (tree_labels st) -> is_prefix t p = true -> r = RStatic /\ c = CTree t) ->
  (product_role r = true -> forall g, In g (globs st) -> gm (g_key g) p = false) ->
  Inv gm gr (set_claim st p (mkClaim r c)).
Proof.
  intros HI Hl Hown Hg. constructor; cbn.
  - constructor; [now apply lookup_none_notin | apply (inv_uniq _ _ _ HI)].
  - apply (inv_tnodup _ _ _ HI).
  - apply (inv_anti _ _ _ HI).
  - intros q cl t [Hin|Hin] Ht Hp.
    + inversion Hin; subst. cbn. now apply Hown.
    + now apply (inv_own _ _ _ HI q cl t).
  - apply (inv_gm _ _ _ HI).
  - intros g m cl Hgin Hm [Hin|Hin].
    + inversion Hin as [[E1 E2]]. cbn. rewrite <- E1 in Hm. destruct r; try reflexivity; exfalso;
        pose proof (Hg eq_refl g Hgin) as Hf; rewrite (inv_gm _ _ _ HI g p Hgin Hm) in Hf; discriminate.
    + now apply (inv_gprod _ _ _ HI g m cl).
  - intros Hgr g q cl Hgin [Hin|Hin] Hm.
    + inversion Hin as [[E1 E2]]. cbn. rewrite <- E1 in Hm. destruct r; try reflexivity; exfalso;
        pose proof (Hg eq_refl g Hgin) as Hf; rewrite Hm in Hf; discriminate.
    + now apply (inv_gfull _ _ _ HI Hgr g q cl).
Qed.

Definition tree_decl_ok (st : state) (c : creator) (r : role) (p : str) : Prop :=
  forall t, c = CTree t ->
    r = RStatic /\ In t (tree_labels st) /\ is_prefix t (probe ow p) = true.

Definition same_frame (st st' : state) : Prop :=
  trees st' = trees st /\ steps st' = steps st /\ globs st' = globs st.

Lemma owner_guard_ok st p r a :
  bind (find_owner ow st p) (fun o : option (str * creator) =>
       match o with
       | Some (t, _) => if role_eqb r RStatic then Err (MTreeFile t p) else Err (MTreeProduct t p)
       | None => Ok tt
       end) = Ok a -> find_owner ow st p = Ok None.
Proof.
  intros H. destruct (find_owner ow st p) as [[[t tc]|]|m]; cbn in H; try discriminate; [|reflexivity].
  destruct (role_eqb r RStatic); discriminate.
Qed.

Lemma no_tree_prefix st p :
  find_owner ow st p = Ok None -> forall t, In t (tree_labels st) -> is_prefix t p = true -> False.
Proof.
  intros H t Ht Hp. apply is_prefix_probe in Hp.
  rewrite (find_owner_none _ _ H t Ht) in Hp. discriminate.
Qed.

Lemma declare_file_inv c r st p st' :
  Inv gm gr st -> tree_decl_ok st c r p ->
  (product_role r = true -> forall g, In g (globs st) -> gm (g_key g) p = false) ->
  declare_file ow c r st p = Ok st' -> Inv gm gr st' /\ same_frame st st'.
Proof.
  intros HI Hc Hg H. unfold declare_file in H.
  destruct (role_eqb r RVolatile && ends_with_c SLASH p); [discriminate|].
  destruct c as [|l|t0].
  - dres H. apply owner_guard_ok in E. inversion H; subst. split; [|repeat split].
    apply set_claim_inv; auto. intros t Ht Hp. exfalso. eapply no_tree_prefix; eauto.
  - dres H. apply owner_guard_ok in E. inversion H; subst. split; [|repeat split].
    apply set_claim_inv; auto. intros t Ht Hp. exfalso. eapply no_tree_prefix; eauto.
  - cbn [bind] in H. dres H. inversion H; subst. split; [|repeat split].
    destruct (Hc t0 eq_refl) as [-> [Ht0 Hp0]].
    apply set_claim_inv; auto. intros t Ht Hp. split; [reflexivity|].
    f_equal. apply is_prefix_probe in Hp. symmetry. eapply owner_unique; eauto.
Qed.

Lemma same_frame_refl st : same_frame st st.
Proof. repeat split. Qed.

Lemma same_frame_trans a b c : same_frame a b -> same_frame b c -> same_frame a c.
Proof. intros [H1 [H2 H3]] [H4 [H5 H6]]. repeat split; congruence. Qed.

Lemma Inv_frame st st' :
  claims st' = claims st -> trees st' = trees st -> globs st' = globs st -> Inv gm gr st -> Inv gm gr st'.
Proof.
  intros Hc Ht Hg HI. destruct HI. constructor; unfold tree_labels in *; rewrite ?Hc, ?Ht, ?Hg; auto.
Qed.

Lemma fold_res_inv {A} (f : state -> A -> res state) (P : state -> A -> Prop) :
  (forall st a st', Inv gm gr st -> P st a -> f st a = Ok st' -> Inv gm gr st' /\ same_frame st st') ->
  (forall st st' a, same_frame st st' -> P st a -> P st' a) ->
  forall l st st', Inv gm gr st -> (forall a, In a l -> P st a) -> fold_res f l st = Ok st' ->
  Inv gm gr st' /\ same_frame st st'.
Proof.
  intros Hstep Hmono. induction l as [|a l IH]; intros st st' HI HP H; cbn in H.
  - inversion H; subst. split; [assumption|apply same_frame_refl].
  - destruct (f st a) as [s1|m] eqn:E; cbn [bind] in H; [|discriminate].
    destruct (Hstep _ _ _ HI (HP a (or_introl eq_refl)) E) as [HI1 Hf1].
    destruct (IH s1 st' HI1) as [HI2 Hf2]; auto.
    + intros b Hb. eapply Hmono; [exact Hf1|]. apply HP. now right.
    + split; [assumption|]. eapply same_frame_trans; eauto.
Qed.

Lemma tree_decl_ok_frame st st' c r p :
  same_frame st st' -> tree_decl_ok st c r p -> tree_decl_ok st' c r p.
Proof.
  intros [Ht _] H t Hc. destruct (H t Hc) as [H1 [H2 H3]]. repeat split; auto.
  unfold tree_labels in *. now rewrite Ht.
Qed.

(* sort_uniq keeps exactly the members *)
Lemma insert_uniq_in x y l : In y (insert_uniq x l) <-> y = x \/ In y l.
Proof.
  induction l as [|z l IH]; cbn; [intuition|].
  destruct (str_eqb x z) eqn:E.
  - apply str_eqb_eq in E. subst. cbn. intuition.
  - destruct (lex_lt x z); cbn; [intuition|]. rewrite IH. intuition.
Qed.

Lemma sort_uniq_in y l : In y (sort_uniq l) <-> In y l.
Proof.
  induction l as [|x l IH]; cbn; [tauto|]. rewrite insert_uniq_in, IH. intuition.
Qed.

Lemma add_sink_inv st p k : Inv gm gr st -> Inv gm gr (add_sink st p k).
Proof. intros HI. eapply Inv_frame; [| | |exact HI]; reflexivity. Qed.

Lemma supply_inv k st p st' :
  Inv gm gr st -> supply ow k st p = Ok st' -> Inv gm gr st' /\ same_frame st st'.
Proof.
  intros HI H. unfold supply in H.
  destruct (lookup p (claims st)) as [cl|] eqn:El.
  - destruct (role_eqb (c_role cl) RVolatile).
    + destruct (phrase_of (c_by cl)); discriminate.
    + inversion H; subst. split; [now apply add_sink_inv|repeat split].
  - destruct (find_owner ow st p) as [o|m] eqn:Eo; cbn [bind] in H; [|discriminate].
    destruct (bad_name p); [discriminate|].
    destruct o as [[t tc]|].
    + inversion H; subst. split; [|repeat split]. apply add_sink_inv.
      apply find_owner_some in Eo as [Hin Hp].
      apply set_claim_inv; auto.
      * intros t' Ht' Hp'. split; [reflexivity|]. f_equal. apply is_prefix_probe in Hp'.
        symmetry. eapply owner_unique; eauto. eapply in_tree_labels; eauto.
      * cbn. discriminate.
    + inversion H; subst. destruct (mem_str p (loose st)).
      * split; [now apply add_sink_inv|repeat split].
      * split; [|repeat split]. apply add_sink_inv. eapply Inv_frame; [| | |exact HI]; reflexivity.
Qed.

Lemma fold_supply_inv k ps st st' :
  Inv gm gr st -> fold_res (supply ow k) ps st = Ok st' -> Inv gm gr st' /\ same_frame st st'.
Proof.
  intros HI H.
  apply (fold_res_inv (supply ow k) (fun _ _ => True)) with (l := ps); auto.
  intros s a s' HIs _ Hs. eapply supply_inv; eauto.
Qed.

Definition glob_free (st : state) (p : str) : Prop :=
  forall g, In g (globs st) -> gm (g_key g) p = false.

Lemma fold_declare_inv c r ps st st' :
  Inv gm gr st ->
  (forall p, In p ps -> tree_decl_ok st c r p) ->
  (product_role r = true -> forall p, In p ps -> glob_free st p) ->
  fold_res (declare_file ow c r) ps st = Ok st' -> Inv gm gr st' /\ same_frame st st'.
Proof.
  intros HI Hc Hg H.
  apply (fold_res_inv (declare_file ow c r)
           (fun s p => tree_decl_ok s c r p /\ (product_role r = true -> glob_free s p)))
    with (l := ps); auto.
  - intros s a s' HIs [H1 H2] Hs. eapply declare_file_inv; eauto.
  - intros s s' a Hf [H1 H2]. split; [eapply tree_decl_ok_frame; eauto|].
    intros Hr g Hgin. destruct Hf as [_ [_ Hgl]]. rewrite Hgl in Hgin. now apply H2.
Qed.

(* declare_static_files *)
Lemma static_check_ok c st p o :
  Inv gm gr st -> tree_decl_ok st c RStatic p -> static_check ow c st p = Ok o ->
  match o with Some (d, q) => q = p /\ tree_decl_ok st d RStatic p | None => True end.
Proof.
  intros HI Hc H. unfold static_check in H.
  destruct c as [|l|t0]; cbn [bind] in H.
  - destruct (find_owner ow st p) as [[[t tc]|]|m] eqn:Eo; cbn [bind] in H; try discriminate.
    + destruct (creator_eqb tc CRoot); cbn [bind] in H; [|discriminate].
      destruct (check_decl st (WNode (CTree t)) p RStatic) as [b|]; cbn [bind] in H; [|discriminate].
      inversion H; subst. destruct b; [|exact I]. split; [reflexivity|].
      apply find_owner_some in Eo as [Hin Hp]. intros t' Ht'. inversion Ht'; subst.
      repeat split; auto. eapply in_tree_labels; eauto.
    + destruct (check_decl st (WNode CRoot) p RStatic) as [b|]; cbn [bind] in H; [|discriminate].
      inversion H; subst. destruct b; [|exact I]. split; [reflexivity|]. intros t' Ht'. discriminate.
  - destruct (find_owner ow st p) as [[[t tc]|]|m] eqn:Eo; cbn [bind] in H; try discriminate.
    + destruct (creator_eqb tc (CStep l)); cbn [bind] in H; [|discriminate].
      destruct (check_decl st (WNode (CTree t)) p RStatic) as [b|]; cbn [bind] in H; [|discriminate].
      inversion H; subst. destruct b; [|exact I]. split; [reflexivity|].
      apply find_owner_some in Eo as [Hin Hp]. intros t' Ht'. inversion Ht'; subst.
      repeat split; auto. eapply in_tree_labels; eauto.
    + destruct (check_decl st (WNode (CStep l)) p RStatic) as [b|]; cbn [bind] in H; [|discriminate].
      inversion H; subst. destruct b; [|exact I]. split; [reflexivity|]. intros t' Ht'. discriminate.
  - destruct (check_decl st (WNode (CTree t0)) p RStatic) as [b|]; cbn [bind] in H; [|discriminate].
    inversion H; subst. destruct b; [|exact I]. split; [reflexivity|]. exact Hc.
Qed.

Lemma static_checks_ok c st ps todo :
  Inv gm gr st -> (forall p, In p ps -> tree_decl_ok st c RStatic p) ->
  static_checks ow c st ps = Ok todo ->
  forall dp, In dp todo -> tree_decl_ok st (fst dp) RStatic (snd dp).
Proof.
  intros HI. revert todo. induction ps as [|p ps IH]; intros todo Hc H dp Hin; cbn in H.
  - inversion H; subst. destruct Hin.
  - destruct (static_check ow c st p) as [o|] eqn:E1; cbn [bind] in H; [|discriminate].
    destruct (static_checks ow c st ps) as [l|] eqn:E2; cbn [bind] in H; [|discriminate].
    inversion H; subst.
    pose proof (static_check_ok c st p o HI (Hc p (or_introl eq_refl)) E1) as Ho.
    assert (IH' : forall dp, In dp l -> tree_decl_ok st (fst dp) RStatic (snd dp)).
    { apply IH; auto. intros q Hq. apply Hc. now right. }
    destruct o as [[d q]|].
    + destruct Hin as [<-|Hin]; [|now apply IH']. cbn. destruct Ho as [-> Ho]. exact Ho.
    + now apply IH'.
Qed.

Lemma declare_static_files_inv c st ps st' :
  Inv gm gr st -> (forall p, In p ps -> tree_decl_ok st c RStatic p) ->
  declare_static_files ow c st ps = Ok st' -> Inv gm gr st' /\ same_frame st st'.
Proof.
  intros HI Hc H. unfold declare_static_files in H.
  destruct (static_checks ow c st (sort_uniq ps)) as [todo|] eqn:E; cbn [bind] in H; [|discriminate].
  assert (Hok : forall dp, In dp todo -> tree_decl_ok st (fst dp) RStatic (snd dp)).
  { apply (static_checks_ok c st (sort_uniq ps) todo HI); [|exact E].
    intros p Hp. apply Hc. now apply sort_uniq_in. }
  apply (fold_res_inv (fun s dp => declare_file ow (fst dp) RStatic s (snd dp))
           (fun s dp => tree_decl_ok s (fst dp) RStatic (snd dp))) with (l := todo); auto.
  - intros s a s' HIs Ha Hs. eapply declare_file_inv; eauto. cbn. discriminate.
  - intros s s' a Hf Ha. eapply tree_decl_ok_frame; eauto.
Qed.

Lemma non_tree_decl_ok st c r p : (forall t, c <> CTree t) -> tree_decl_ok st c r p.
Proof. intros H t Hc. exfalso. eapply H; eauto. Qed.

Lemma min_entry_none {A} (l : list (str * A)) : min_entry l = None -> l = [].
Proof.
  destruct l as [|[k v] l]; [reflexivity|]. cbn. destruct (min_entry l) as [[k' v']|].
  - destruct (lex_lt k' k); discriminate.
  - discriminate.
Qed.

Definition handover (d : str) (cls : list (str * claim)) : list (str * claim) :=
  map (fun pc => if is_prefix d (fst pc) then (fst pc, mkClaim (c_role (snd pc)) (CTree d)) else pc) cls.

Lemma handover_keys d cls : map fst (handover d cls) = map fst cls.
Proof.
  unfold handover. rewrite map_map. apply map_ext. intros [p cl]. cbn. now destruct (is_prefix d p).
Qed.

Lemma handover_in d cls p cl :
  In (p, cl) (handover d cls) ->
  exists cl0, In (p, cl0) cls /\ c_role cl = c_role cl0 /\
              (if is_prefix d p then c_by cl = CTree d else cl = cl0).
Proof.
  unfold handover. intros H. apply in_map_iff in H as [[q cl0] [Heq Hin]]. cbn in Heq.
  destruct (is_prefix d q) eqn:E.
  - inversion Heq; subst. exists cl0. rewrite E. auto.
  - inversion Heq; subst. exists cl. rewrite E. auto.
Qed.

Lemma register_tree_inv c path st st' :
  Inv gm gr st -> register_tree ow c path st = Ok st' -> Inv gm gr st'.
Proof.
  intros HI H. unfold register_tree in H.
  destruct (require_step st c); cbn [bind] in H; [|discriminate].
  destruct (str_eqb path stepup_dir || is_prefix stepup_prefix path); [discriminate|].
  set (d := with_slash path) in *.
  destruct (str_eqb d [46; SLASH] || str_eqb d []); [discriminate|].
  destruct (str_eqb d [SLASH]); [discriminate|].
  destruct (find_owner ow st d) as [o|] eqn:Eo; cbn [bind] in H; [|discriminate].
  destruct o as [[t tc]|].
  - destruct (creator_eqb tc c).
    + inversion H; subst. assumption.
    + destruct (str_eqb t d); [|discriminate].
      destruct (phrase_of tc) as [x|]; [destruct (phrase_of c) as [y|]|]; try discriminate.
      destruct (sort2_str x y). discriminate.
  - destruct (existsb (fun tc => is_prefix d (fst tc)) (trees st)) eqn:Eex; [discriminate|].
    destruct (min_entry (filter (offending c) (filter (fun pc => is_prefix d (fst pc)) (claims st))))
      as [[p cl]|] eqn:Emin.
    { destruct (negb (role_eqb (c_role cl) RStatic)); discriminate. }
    apply min_entry_none in Emin.
    assert (Hdd : probe ow d = d) by (apply probe_with_slash).
    assert (Hnopre : forall t, In t (tree_labels st) -> is_prefix t d = false).
    { intros t Ht. rewrite <- Hdd. eapply find_owner_none; eauto. }
    assert (Hnosub : forall t, In t (tree_labels st) -> is_prefix d t = false).
    { intros t Ht. unfold tree_labels in Ht. apply in_map_iff in Ht as [[t' c'] [<- Hin]]. cbn.
      destruct (is_prefix d t') eqn:E; [|reflexivity].
      assert (existsb (fun tc => is_prefix d (fst tc)) (trees st) = true).
      { apply existsb_exists. exists (t', c'). auto. }
      congruence. }
    assert (Hstat : forall p cl, In (p, cl) (claims st) -> is_prefix d p = true ->
                                 c_role cl = RStatic).
    { intros p cl Hin Hp.
      assert (Hf : offending c (p, cl) = false).
      { apply (filter_nil _ _ Emin). apply filter_In. split; [|exact Hp]. exact Hin. }
      unfold offending in Hf. cbn in Hf. apply orb_false_iff in Hf as [Hf _].
      apply negb_false_iff in Hf. now apply role_eqb_eq. }
    match type of H with declare_static_files _ _ ?s _ = _ => set (st1 := s) in * end.
    assert (HI1 : Inv gm gr st1).
    { constructor; cbn.
      - fold (handover d (claims st)). rewrite handover_keys. apply (inv_uniq _ _ _ HI).
      - constructor; [|apply (inv_tnodup _ _ _ HI)]. intros Hin.
        pose proof (Hnopre d Hin) as Hx. rewrite is_prefix_refl in Hx. discriminate.
      - intros t t' [<-|Ht] [<-|Ht'] Hp; auto.
        + rewrite (Hnosub t' Ht') in Hp. discriminate.
        + rewrite (Hnopre t Ht) in Hp. discriminate.
        + now apply (inv_anti _ _ _ HI).
      - fold (handover d (claims st)). intros p cl t Hin Ht Hp.
        apply handover_in in Hin as [cl0 [Hin0 [Hrole Hby]]].
        destruct Ht as [<-|Ht].
        + rewrite Hp in Hby. split; [|exact Hby]. rewrite Hrole. now apply (Hstat p cl0).
        + destruct (is_prefix d p) eqn:Edp.
          * exfalso. destruct (prefix_comparable _ _ _ Hp Edp) as [Hx|Hx].
            -- rewrite (Hnopre t Ht) in Hx. discriminate.
            -- rewrite (Hnosub t Ht) in Hx. discriminate.
          * subst cl0. now apply (inv_own _ _ _ HI p cl t).
      - apply (inv_gm _ _ _ HI).
      - fold (handover d (claims st)). intros g m cl Hg Hm Hin.
        apply handover_in in Hin as [cl0 [Hin0 [Hrole _]]]. rewrite Hrole.
        now apply (inv_gprod _ _ _ HI g m cl0).
      - fold (handover d (claims st)). intros Hgr g q cl Hg Hin Hm.
        apply handover_in in Hin as [cl0 [Hin0 [Hrole _]]]. rewrite Hrole.
        now apply (inv_gfull _ _ _ HI Hgr g q cl0). }
    eapply declare_static_files_inv in H; [tauto|exact HI1|].
    intros p Hp t Ht. inversion Ht; subst t. apply filter_In in Hp as [_ Hp].
    repeat split; [now left|]. now apply is_prefix_probe.
Qed.

Lemma first_product_none st ms :
  first_product st ms = None -> forall m, In m ms -> is_product st m = None.
Proof.
  induction ms as [|x ms IH]; cbn; intros H m Hin; [tauto|].
  destruct (is_product st x) eqn:E; [discriminate|]. destruct Hin as [<-|Hin]; auto.
Qed.

Lemma register_glob_inv s pat subs ms st st' :
  Inv gm gr st -> register_glob gm gr s pat subs ms st = Ok st' -> Inv gm gr st'.
Proof.
  intros HI H. unfold register_glob in H.
  destruct (require_step st (CStep s)); cbn [bind] in H; [|discriminate].
  set (ms' := sort_uniq (filter (gm (gkey pat subs)) ms)) in *.
  set (prodf := fun pc : str * claim => negb (role_eqb (c_role (snd pc)) RStatic) && gm (gkey pat subs) (fst pc)) in *.
  destruct (if gr then min_entry (filter prodf (claims st)) else first_product st ms')
    as [[p cl]|] eqn:Ef; [discriminate|].
  destruct (find_first (is_prefix stepup_prefix) ms'); [discriminate|].
  inversion H; subst.
  assert (Hms : forall m, In m ms' -> gm (gkey pat subs) m = true).
  { intros m Hm. unfold ms' in Hm. apply (proj1 (sort_uniq_in _ _)) in Hm. apply filter_In in Hm. tauto. }
  assert (Hscan : gr = true -> forall q cl, In (q, cl) (claims st) -> gm (gkey pat subs) q = true -> c_role cl = RStatic).
  { intros Hgr q cl Hin Hm. rewrite Hgr in Ef. apply min_entry_none in Ef.
    pose proof (filter_nil _ _ Ef (q, cl) Hin) as Hf. unfold prodf in Hf. cbn in Hf.
    rewrite Hm, andb_true_r in Hf. apply negb_false_iff in Hf. now apply role_eqb_eq. }
  destruct HI. constructor; cbn; auto.
  - intros g m Hg Hm. apply in_app_or in Hg as [Hg|[<-|[]]]; auto.
  - intros g m cl Hg Hm Hin. apply in_app_or in Hg as [Hg|[<-|[]]]; eauto.
    cbn in Hm. destruct gr eqn:Egr.
    + apply (Hscan eq_refl m cl Hin). now apply Hms.
    + pose proof (first_product_none _ _ Ef m Hm) as Hp. unfold is_product in Hp.
      rewrite (lookup_in_nodup _ _ _ inv_uniq0 Hin) in Hp.
      destruct (role_eqb (c_role cl) RStatic) eqn:Er; [now apply role_eqb_eq|discriminate].
  - intros Hgr g q cl Hg Hin Hm. apply in_app_or in Hg as [Hg|[<-|[]]]; eauto.
Qed.

Lemma find_first_none {A} (f : A -> bool) l : find_first f l = None -> forall x, In x l -> f x = false.
Proof.
  induction l as [|y l IH]; cbn; intros H x Hin; [tauto|].
  destruct (f y) eqn:E; [discriminate|]. destruct Hin as [<-|Hin]; auto.
Qed.

Lemma glob_check_ok gs lbl ps :
  glob_check gm gs lbl ps = Ok tt -> forall g p, In g gs -> In p ps -> gm (g_key g) p = false.
Proof.
  induction gs as [|g0 gs IH]; cbn; intros H g p Hg Hp; [tauto|].
  destruct (find_first (gm (g_key g0)) ps) eqn:E; [discriminate|].
  destruct Hg as [<-|Hg]; [eapply find_first_none; eauto|]. now apply IH.
Qed.

Lemma glob_free_of_check st lbl ps p :
  glob_check gm (globs st) lbl ps = Ok tt -> In p ps -> glob_free st p.
Proof. intros H Hp g Hg. eapply glob_check_ok; eauto. Qed.

Lemma check_all_incl st w r ps l : check_all st w r ps = Ok l -> incl l ps.
Proof.
  revert l. induction ps as [|p ps IH]; cbn; intros l H.
  - inversion H. apply incl_refl.
  - destruct (check_decl st w p r) as [b|]; cbn [bind] in H; [|discriminate].
    destruct (check_all st w r ps) as [l0|]; cbn [bind] in H; [|discriminate].
    inversion H; subst. destruct b.
    + apply incl_cons; [now left|]. apply incl_tl. now apply IH.
    + apply incl_tl. now apply IH.
Qed.

Lemma glob_free_frame st st' p : same_frame st st' -> glob_free st p -> glob_free st' p.
Proof. intros [_ [_ Hg]] H g Hin. rewrite Hg in Hin. now apply H. Qed.

Lemma unit_res_tt (r : res unit) u : r = Ok u -> r = Ok tt.
Proof. destruct u. auto. Qed.

Lemma define_step_inv c lbl inps outs vols st st' :
  Inv gm gr st -> define_step gm ow c lbl inps outs vols st = Ok st' -> Inv gm gr st'.
Proof.
  intros HI H. unfold define_step in H.
  destruct (require_step st c); cbn [bind] in H; [|discriminate].
  destruct (creator_eqb c CRoot && existsb (fun sc => creator_eqb (snd sc) CRoot) (steps st));
    [discriminate|].
  destruct (dir_inputs (sort_uniq inps)); cbn [bind] in H; [|discriminate].
  destruct (creator_eqb c (CStep lbl)); [discriminate|].
  match type of H with (if ?b then _ else _) = _ => destruct b; [discriminate|] end.
  destruct (glob_check gm (globs st) lbl (sort_uniq (sort_uniq outs ++ sort_uniq vols))) as [u|] eqn:Eg;
    cbn [bind] in H; [|discriminate].
  apply unit_res_tt in Eg.
  match type of H with bind ?x _ = _ => destruct x; cbn [bind] in H; [|discriminate] end.
  destruct (check_all st (WPhrase (phrase_step lbl)) ROutput (sort_uniq outs)); cbn [bind] in H; [|discriminate].
  destruct (check_all st (WPhrase (phrase_step lbl)) RVolatile (sort_uniq vols)); cbn [bind] in H; [|discriminate].
  destruct (overlap_check (phrase_step lbl) (sort_uniq outs) (sort_uniq vols)); cbn [bind] in H; [|discriminate].
  match type of H with bind (fold_res (supply ow _) _ ?s) _ = _ => set (st1 := s) in * end.
  assert (HI1 : Inv gm gr st1) by (eapply Inv_frame; [| | |exact HI]; reflexivity).
  assert (Hgf : forall p, In p (sort_uniq outs) \/ In p (sort_uniq vols) -> glob_free st1 p).
  { intros p Hp. apply (glob_free_of_check st1 lbl (sort_uniq (sort_uniq outs ++ sort_uniq vols))); [exact Eg|].
    apply sort_uniq_in. apply in_or_app. exact Hp. }
  destruct (fold_res (supply ow lbl) (sort_uniq inps) st1) as [st2|] eqn:E2; cbn [bind] in H; [|discriminate].
  destruct (fold_supply_inv _ _ _ _ HI1 E2) as [HI2 Hf2].
  destruct (fold_res (declare_file ow (CStep lbl) ROutput) (sort_uniq outs) st2) as [st3|] eqn:E3;
    cbn [bind] in H; [|discriminate].
  destruct (fold_declare_inv _ _ _ _ _ HI2
              (fun p _ => non_tree_decl_ok st2 (CStep lbl) ROutput p ltac:(discriminate))
              (fun _ p Hp => glob_free_frame _ _ _ Hf2 (Hgf p (or_introl Hp))) E3) as [HI3 Hf3].
  pose proof (same_frame_trans _ _ _ Hf2 Hf3) as Hf23.
  destruct (fold_declare_inv _ _ _ _ _ HI3
              (fun p _ => non_tree_decl_ok st3 (CStep lbl) RVolatile p ltac:(discriminate))
              (fun _ p Hp => glob_free_frame _ _ _ Hf23 (Hgf p (or_intror Hp))) H) as [HI4 _].
  exact HI4.
Qed.

Lemma amend_step_inv s inps outs vols st st' :
  Inv gm gr st -> amend_step gm ow s inps outs vols st = Ok st' -> Inv gm gr st'.
Proof.
  intros HI H. unfold amend_step in H.
  destruct (require_step st (CStep s)); cbn [bind] in H; [|discriminate].
  destruct (dir_inputs (sort_uniq inps)); cbn [bind] in H; [|discriminate].
  destruct (fold_res (supply ow s) (sort_uniq inps) st) as [st1|] eqn:E1; cbn [bind] in H; [|discriminate].
  destruct (fold_supply_inv _ _ _ _ HI E1) as [HI1 Hf1].
  destruct (check_all st1 (WNode (CStep s)) ROutput (sort_uniq outs)) as [outs'|] eqn:Eo;
    cbn [bind] in H; [|discriminate].
  destruct (check_all st1 (WNode (CStep s)) RVolatile (sort_uniq vols)) as [vols'|] eqn:Ev;
    cbn [bind] in H; [|discriminate].
  destruct (overlap_check (phrase_step s) outs' vols'); cbn [bind] in H; [|discriminate].
  destruct (glob_check gm (globs st1) s (sort_uniq (outs' ++ vols'))) as [u|] eqn:Eg;
    cbn [bind] in H; [|discriminate].
  apply unit_res_tt in Eg.
  assert (Hgf : forall p, In p outs' \/ In p vols' -> glob_free st1 p).
  { intros p Hp. apply (glob_free_of_check st1 s (sort_uniq (outs' ++ vols'))); [exact Eg|].
    apply sort_uniq_in. apply in_or_app. exact Hp. }
  destruct (fold_res (declare_file ow (CStep s) ROutput) outs' st1) as [st2|] eqn:E2;
    cbn [bind] in H; [|discriminate].
  destruct (fold_declare_inv _ _ _ _ _ HI1
              (fun p _ => non_tree_decl_ok st1 (CStep s) ROutput p ltac:(discriminate))
              (fun _ p Hp => Hgf p (or_introl Hp)) E2) as [HI2 Hf2].
  destruct (fold_declare_inv _ _ _ _ _ HI2
              (fun p _ => non_tree_decl_ok st2 (CStep s) RVolatile p ltac:(discriminate))
              (fun _ p Hp => glob_free_frame _ _ _ Hf2 (Hgf p (or_intror Hp))) H) as [HI3 _].
  exact HI3.
Qed.

Theorem step_inv st r st' : Inv gm gr st -> step gm ow gr st r = Ok st' -> Inv gm gr st'.
Proof.
  intros HI H. destruct r; cbn in H.
  - destruct (require_step st c) eqn:Er; cbn [bind] in H; [|discriminate].
    destruct c as [| |t]; try (eapply declare_static_files_inv in H; [tauto|exact HI|];
      intros p _; apply non_tree_decl_ok; discriminate).
    (* a tree is never the creator of a request: require_step rejects it *)
    all: try (unfold require_step in Er; cbn in Er; discriminate).
  - eapply register_tree_inv; eauto.
  - eapply register_glob_inv; eauto.
  - eapply define_step_inv; eauto.
  - eapply amend_step_inv; eauto.
Qed.

Lemma step_skip_inv st r : Inv gm gr st -> Inv gm gr (step_skip gm ow gr st r).
Proof.
  intros HI. unfold step_skip. destruct (step gm ow gr st r) eqn:E; [|assumption]. eapply step_inv; eauto.
Qed.

Theorem run_skip_inv rs st : Inv gm gr st -> Inv gm gr (run_skip gm ow gr st rs).
Proof.
  revert st. induction rs as [|r rs IH]; intros st HI; cbn; [assumption|].
  apply IH. now apply step_skip_inv.
Qed.

Definition reachable (st : state) : Prop := exists rs, st = run_skip gm ow gr empty_state rs.

Theorem reachable_inv st : reachable st -> Inv gm gr st.
Proof. intros [rs ->]. apply run_skip_inv. apply Inv_empty. Qed.

Lemma reachable_run_skip st rs : reachable st -> reachable (run_skip gm ow gr st rs).
Proof.
  intros [rs0 ->]. exists (rs0 ++ rs)%list. unfold run_skip. now rewrite fold_left_app.
Qed.

(* claim_unique: one claim, hence one role and one creator, per path *)
Theorem claim_unique st p cl1 cl2 :
  reachable st -> In (p, cl1) (claims st) -> In (p, cl2) (claims st) -> cl1 = cl2.
Proof.
  intros HR H1 H2. apply reachable_inv in HR. pose proof (inv_uniq _ _ _ HR) as Hnd.
  pose proof (lookup_in_nodup _ _ _ Hnd H2) as E2.
  pose proof (lookup_in_nodup _ _ _ Hnd H1) as E1. congruence.
Qed.

Theorem tree_owns_everything_under st p cl t tc :
  reachable st -> In (p, cl) (claims st) -> In (t, tc) (trees st) -> is_prefix t p = true ->
  c_role cl = RStatic /\ c_by cl = CTree t.
Proof.
  intros HR Hc Ht Hp. apply reachable_inv in HR.
  apply (inv_own _ _ _ HR p cl t); auto. eapply in_tree_labels; eauto.
Qed.

Theorem no_product_under_tree st p cl t tc :
  reachable st -> In (p, cl) (claims st) -> In (t, tc) (trees st) -> is_prefix t p = true ->
  c_role cl <> ROutput /\ c_role cl <> RVolatile.
Proof.
  intros HR Hc Ht Hp. destruct (tree_owns_everything_under _ _ _ _ _ HR Hc Ht Hp) as [Hr _].
  rewrite Hr. split; discriminate.
Qed.

Theorem trees_disjoint st t tc t' tc' :
  reachable st -> In (t, tc) (trees st) -> In (t', tc') (trees st) -> is_prefix t t' = true ->
  t = t' /\ tc = tc'.
Proof.
  intros HR H1 H2 Hp. apply reachable_inv in HR.
  assert (t = t') by (apply (inv_anti _ _ _ HR); auto; eapply in_tree_labels; eauto). subst t'.
  split; [reflexivity|].
  pose proof (lookup_in_nodup _ _ _ (inv_tnodup _ _ _ HR) H1).
  pose proof (lookup_in_nodup _ _ _ (inv_tnodup _ _ _ HR) H2). congruence.
Qed.

(* The provable part of the glob clause: a recorded match of a registered pattern is never a
   build product, whichever came first. *)
Theorem recorded_match_never_product st g m cl :
  reachable st -> In g (globs st) -> In m (g_ms g) -> In (m, cl) (claims st) -> c_role cl = RStatic.
Proof. intros HR. apply reachable_inv in HR. apply (inv_gprod _ _ _ HR). Qed.

End Proofs.

(* ------------------------------------------------------------------------------------------ *)
(* Refutations (witnesses by computation)                                                      *)
(* ------------------------------------------------------------------------------------------ *)

Definition w_plan : str := s2l "plan"%string.
Definition w_A : str := s2l "A"%string.
Definition w_B : str := s2l "B"%string.
Definition w_d : str := s2l "d"%string.
Definition w_pat : str := s2l "*.txt"%string.
Definition w_atxt : str := s2l "a.txt"%string.
(* the matcher of the witness: "*.txt" matches "a.txt" *)
Definition w_gm (pat p : str) : bool := str_eqb pat w_pat && str_eqb p w_atxt.

Definition w_boot : state :=
  run_skip w_gm true false empty_state
    [RqDefine CRoot w_plan [] [] []; RqDefine (CStep w_plan) w_A [] [] [];
     RqDefine (CStep w_plan) w_B [] [] []].

Definition accepted {A} (r : res A) : bool := match r with Ok _ => true | Err _ => false end.

(* D3: a pattern and a planned output that is not (yet) among the recorded matches. *)
Lemma glob_vs_planned_output_refuted :
  let r1 := RqGlob w_B w_pat [] [] in
  let r2 := RqAmend w_A [] [w_atxt] [] in
  reachable w_gm true false w_boot /\
  accepted (step w_gm true false w_boot r1) = true /\ accepted (step w_gm true false w_boot r2) = true /\
  accepted (run w_gm true false w_boot [r1; r2]) = false /\ accepted (run w_gm true false w_boot [r2; r1]) = true.
Proof.
  cbv zeta. split; [eexists; reflexivity|]. vm_compute. repeat split; reflexivity.
Qed.

Lemma glob_never_matches_product_refuted :
  exists st g p cl, reachable w_gm true false st /\ In g (globs st) /\ In (p, cl) (claims st) /\
                    c_role cl = ROutput /\ w_gm (g_key g) p = true.
Proof.
  exists (run_skip w_gm true false w_boot [RqAmend w_A [] [w_atxt] []; RqGlob w_B w_pat [] []]).
  exists (mkGlob w_B w_pat [] []), w_atxt, (mkClaim ROutput (CStep w_A)).
  split; [apply reachable_run_skip; eexists; reflexivity|].
  vm_compute. repeat split; auto.
Qed.

(* D14: a static tree d/ and a file whose path is the tree's own name d. *)
Lemma tree_vs_file_at_tree_path_refuted :
  let r1 := RqTree (CStep w_B) w_d in
  let r2 := RqAmend w_A [] [w_d] [] in
  reachable w_gm true false w_boot /\
  accepted (step w_gm true false w_boot r1) = true /\ accepted (step w_gm true false w_boot r2) = true /\
  accepted (run w_gm true false w_boot [r1; r2]) = false /\ accepted (run w_gm true false w_boot [r2; r1]) = true.
Proof.
  cbv zeta. split; [eexists; reflexivity|]. vm_compute. repeat split; reflexivity.
Qed.

Lemma tree_vs_static_at_tree_path_refuted :
  let r1 := RqTree (CStep w_B) w_d in
  let r2 := RqStatic (CStep w_A) [w_d] in
  accepted (step w_gm true false w_boot r1) = true /\ accepted (step w_gm true false w_boot r2) = true /\
  accepted (run w_gm true false w_boot [r1; r2]) = false /\ accepted (run w_gm true false w_boot [r2; r1]) = true.
Proof. vm_compute. repeat split; reflexivity. Qed.

(* The owner lookup (path + "/") and the prefix scan disagree on exactly this spelling: the
   owner-lookup form of the ownership invariant does not hold in reachable states. *)
Lemma owner_lookup_invariant_refuted :
  exists st p cl t tc, reachable w_gm true false st /\ In (p, cl) (claims st) /\ In (t, tc) (trees st) /\
                       is_prefix t (with_slash p) = true /\ c_role cl = ROutput.
Proof.
  exists (run_skip w_gm true false w_boot [RqAmend w_A [] [w_d] []; RqTree (CStep w_B) w_d]).
  exists w_d, (mkClaim ROutput (CStep w_A)), (with_slash w_d), (CStep w_B).
  split; [apply reachable_run_skip; eexists; reflexivity|].
  vm_compute. repeat split; auto.
Qed.

(* ------------------------------------------------------------------------------------------ *)
(* 2. Repeating a declaration by the same creator in the same role is a no-op                  *)
(* ------------------------------------------------------------------------------------------ *)

Section Redeclare.

Variable gm : str -> str -> bool.
Variable ow : bool.
Variable gr : bool.

Lemma role_eqb_refl r : role_eqb r r = true.
Proof. now destruct r. Qed.

Lemma creator_eqb_refl c : creator_eqb c c = true.
Proof. now apply creator_eqb_eq. Qed.

Lemma declare_file_claims c r st p st' :
  declare_file ow c r st p = Ok st' -> claims st' = (p, mkClaim r c) :: claims st.
Proof.
  unfold declare_file. intros H.
  destruct (role_eqb r RVolatile && ends_with_c SLASH p); [discriminate|].
  match type of H with bind ?x _ = _ => destruct x; cbn [bind] in H; [|discriminate] end.
  dres H. now inversion H.
Qed.

Lemma fold_declare_claims c r ps st st' :
  fold_res (declare_file ow c r) ps st = Ok st' ->
  incl (claims st) (claims st') /\ forall p, In p ps -> In (p, mkClaim r c) (claims st').
Proof.
  revert st. induction ps as [|p ps IH]; intros st H; cbn in H.
  - inversion H; subst. split; [apply incl_refl|intros p []].
  - destruct (declare_file ow c r st p) as [s1|] eqn:E; cbn [bind] in H; [|discriminate].
    apply declare_file_claims in E. destruct (IH _ H) as [Hincl Hall]. split.
    + intros x Hx. apply Hincl. rewrite E. now right.
    + intros q [<-|Hq]; [|now apply Hall]. apply Hincl. rewrite E. now left.
Qed.

Lemma fold_declare_pairs r (l : list (creator * str)) st st' :
  fold_res (fun s dp => declare_file ow (fst dp) r s (snd dp)) l st = Ok st' ->
  incl (claims st) (claims st') /\ forall dp, In dp l -> In (snd dp, mkClaim r (fst dp)) (claims st').
Proof.
  revert st. induction l as [|dp l IH]; intros st H; cbn in H.
  - inversion H; subst. split; [apply incl_refl|intros p []].
  - destruct (declare_file ow (fst dp) r st (snd dp)) as [s1|] eqn:E; cbn [bind] in H; [|discriminate].
    apply declare_file_claims in E. destruct (IH _ H) as [Hincl Hall]. split.
    + intros x Hx. apply Hincl. rewrite E. now right.
    + intros q [<-|Hq]; [|now apply Hall]. apply Hincl. rewrite E. now left.
Qed.

Lemma find_owner_frame st st' p : trees st' = trees st -> find_owner ow st' p = find_owner ow st p.
Proof. intros H. unfold find_owner, owners. now rewrite H. Qed.

Lemma check_decl_held st c p r :
  NoDup (map fst (claims st)) -> In (p, mkClaim r c) (claims st) ->
  check_decl st (WNode c) p r = Ok false.
Proof.
  intros Hnd Hin. unfold check_decl. rewrite (lookup_in_nodup _ _ _ Hnd Hin). cbn.
  now rewrite role_eqb_refl, creator_eqb_refl.
Qed.

(* If the first check said "new" the path is in the to-do list; if it said "held" it was held. *)
Lemma check_decl_false_held st c p r :
  check_decl st (WNode c) p r = Ok false -> In (p, mkClaim r c) (claims st).
Proof.
  unfold check_decl. destruct (lookup p (claims st)) as [cl|] eqn:El; [|discriminate].
  destruct (role_eqb (c_role cl) r && creator_eqb (c_by cl) c) eqn:E.
  - intros _. apply andb_true_iff in E as [E1 E2]. apply role_eqb_eq in E1.
    apply creator_eqb_eq in E2. apply lookup_some_in in El. destruct cl. cbn in *. now subst.
  - destruct (decl_of_node r c); discriminate.
Qed.

(* The declarer that static_check settles on (depends on the trees only). *)
Definition static_declarer (c : creator) (st : state) (p : str) : res creator :=
  match c with
  | CTree _ => Ok c
  | _ => bind (find_owner ow st p) (fun o =>
           match o with
           | None => Ok c
           | Some (t, tc) => if creator_eqb tc c then Ok (CTree t) else Err (MTreeFile t p)
           end)
  end.

Lemma static_check_unfold c st p :
  static_check ow c st p =
  bind (static_declarer c st p) (fun declarer =>
  bind (check_decl st (WNode declarer) p RStatic) (fun is_new =>
  Ok (if is_new then Some (declarer, p) else None))).
Proof. reflexivity. Qed.

Lemma static_checks_again c st st' ps todo :
  static_checks ow c st ps = Ok todo ->
  trees st' = trees st -> NoDup (map fst (claims st')) -> incl (claims st) (claims st') ->
  (forall dp, In dp todo -> In (snd dp, mkClaim RStatic (fst dp)) (claims st')) ->
  static_checks ow c st' ps = Ok [].
Proof.
  intros H Ht Hnd Hincl. revert todo H. induction ps as [|p ps IH]; intros todo H Htodo; cbn in *.
  - reflexivity.
  - rewrite static_check_unfold in *.
    assert (Hd : static_declarer c st' p = static_declarer c st p).
    { unfold static_declarer. now rewrite (find_owner_frame st st' p Ht). }
    rewrite Hd. destruct (static_declarer c st p) as [dcl|]; cbn [bind] in *; [|discriminate].
    destruct (check_decl st (WNode dcl) p RStatic) as [b|] eqn:Eb; cbn [bind] in H; [|discriminate].
    destruct (static_checks ow c st ps) as [l|] eqn:El; cbn [bind] in H; [|discriminate].
    inversion H; subst todo. clear H.
    assert (Hheld : In (p, mkClaim RStatic dcl) (claims st')).
    { destruct b.
      - apply (Htodo (dcl, p)). now left.
      - apply Hincl. now apply check_decl_false_held. }
    rewrite (check_decl_held st' dcl p RStatic Hnd Hheld). cbn [bind].
    rewrite (IH l eq_refl); [reflexivity|].
    intros dp Hdp. apply Htodo. destruct b; [now right|assumption].
Qed.

Lemma declare_static_files_again c st ps st' :
  Inv gm gr st -> (forall p, In p ps -> tree_decl_ok ow st c RStatic p) ->
  declare_static_files ow c st ps = Ok st' -> declare_static_files ow c st' ps = Ok st'.
Proof.
  intros HI Hc H. destruct (declare_static_files_inv gm ow gr c st ps st' HI Hc H) as [HI' [Ht _]].
  unfold declare_static_files in *.
  destruct (static_checks ow c st (sort_uniq ps)) as [todo|] eqn:E; cbn [bind] in H; [|discriminate].
  destruct (fold_declare_pairs _ _ _ _ H) as [Hincl Hall].
  rewrite (static_checks_again c st st' _ todo E Ht (inv_uniq _ _ _ HI') Hincl Hall). reflexivity.
Qed.

Lemma check_all_again st st' c r ps l :
  check_all st (WNode c) r ps = Ok l ->
  NoDup (map fst (claims st')) -> incl (claims st) (claims st') ->
  (forall p, In p l -> In (p, mkClaim r c) (claims st')) ->
  check_all st' (WNode c) r ps = Ok [].
Proof.
  intros H Hnd Hincl. revert l H. induction ps as [|p ps IH]; intros l H Hl; cbn in *; [reflexivity|].
  destruct (check_decl st (WNode c) p r) as [b|] eqn:Eb; cbn [bind] in H; [|discriminate].
  destruct (check_all st (WNode c) r ps) as [l0|] eqn:El; cbn [bind] in H; [|discriminate].
  inversion H; subst l. clear H.
  assert (Hheld : In (p, mkClaim r c) (claims st')).
  { destruct b; [apply Hl; now left|]. apply Hincl. now apply check_decl_false_held. }
  rewrite (check_decl_held st' c p r Hnd Hheld). cbn [bind].
  rewrite (IH l0 eq_refl); [reflexivity|]. intros q Hq. apply Hl. destruct b; [now right|assumption].
Qed.

Lemma glob_check_nil gs lbl : glob_check gm gs lbl [] = Ok tt.
Proof. induction gs as [|g gs IH]; cbn; auto. Qed.

Lemma declare_file_frame c r st p st' :
  declare_file ow c r st p = Ok st' -> same_frame st st'.
Proof.
  unfold declare_file. intros H.
  destruct (role_eqb r RVolatile && ends_with_c SLASH p); [discriminate|].
  match type of H with bind ?x _ = _ => destruct x; cbn [bind] in H; [|discriminate] end.
  dres H. inversion H. repeat split.
Qed.

Lemma fold_declare_frame c r ps st st' :
  fold_res (declare_file ow c r) ps st = Ok st' -> same_frame st st'.
Proof.
  revert st. induction ps as [|p ps IH]; intros st H; cbn in H.
  - inversion H. apply same_frame_refl.
  - destruct (declare_file ow c r st p) as [s1|] eqn:E; cbn [bind] in H; [|discriminate].
    eapply same_frame_trans; [eapply declare_file_frame; eauto|auto].
Qed.

Lemma amend_outputs_again s outs vols st st' :
  Inv gm gr st -> amend_step gm ow s [] outs vols st = Ok st' ->
  amend_step gm ow s [] outs vols st' = Ok st'.
Proof.
  intros HI H. pose proof (amend_step_inv gm ow gr s [] outs vols st st' HI H) as HI'.
  unfold amend_step in *.
  destruct (require_step st (CStep s)) eqn:Er; cbn [bind] in H; [|discriminate].
  cbn [sort_uniq fold_right dir_inputs find_first fold_res bind] in *.
  destruct (check_all st (WNode (CStep s)) ROutput (sort_uniq outs)) as [outs'|] eqn:Eo;
    cbn [bind] in H; [|discriminate].
  destruct (check_all st (WNode (CStep s)) RVolatile (sort_uniq vols)) as [vols'|] eqn:Ev;
    cbn [bind] in H; [|discriminate].
  destruct (overlap_check (phrase_step s) outs' vols'); cbn [bind] in H; [|discriminate].
  destruct (glob_check gm (globs st) s (sort_uniq (outs' ++ vols'))); cbn [bind] in H; [|discriminate].
  destruct (fold_res (declare_file ow (CStep s) ROutput) outs' st) as [st2|] eqn:E2;
    cbn [bind] in H; [|discriminate].
  destruct (fold_declare_claims _ _ _ _ _ E2) as [Hi2 Ha2].
  destruct (fold_declare_claims _ _ _ _ _ H) as [Hi3 Ha3].
  pose proof (same_frame_trans _ _ _ (fold_declare_frame _ _ _ _ _ E2) (fold_declare_frame _ _ _ _ _ H))
    as [_ [Hsteps _]].
  assert (Er' : require_step st' (CStep s) = Ok tt).
  { unfold require_step, step_exists in *. rewrite Hsteps. destruct a. exact Er. }
  rewrite Er'. cbn [bind].
  rewrite (check_all_again st st' (CStep s) ROutput _ outs' Eo (inv_uniq _ _ _ HI')).
  2:{ intros x Hx. apply Hi3. now apply Hi2. }
  2:{ intros q Hq. apply Hi3. now apply Ha2. }
  cbn [bind].
  rewrite (check_all_again st st' (CStep s) RVolatile _ vols' Ev (inv_uniq _ _ _ HI')).
  2:{ intros x Hx. apply Hi3. now apply Hi2. }
  2:{ intros q Hq. now apply Ha3. }
  cbn [bind app sort_uniq fold_right overlap_check find_first fold_res].
  rewrite glob_check_nil. reflexivity.
Qed.

Lemma register_tree_again c path st st' :
  Inv gm gr st -> register_tree ow c path st = Ok st' -> register_tree ow c path st' = Ok st'.
Proof.
  intros HI H. pose proof H as H0. unfold register_tree in H.
  destruct (require_step st c) eqn:Er; cbn [bind] in H; [|discriminate].
  destruct (str_eqb path stepup_dir || is_prefix stepup_prefix path) eqn:E1; [discriminate|].
  set (d := with_slash path) in *.
  destruct (str_eqb d [46; SLASH] || str_eqb d []) eqn:E2; [discriminate|].
  destruct (str_eqb d [SLASH]) eqn:E3; [discriminate|].
  destruct (find_owner ow st d) as [o|] eqn:Eo; cbn [bind] in H; [|discriminate].
  destruct o as [[t tc]|].
  - destruct (creator_eqb tc c).
    + inversion H; subst. exact H0.
    + destruct (str_eqb t d); [|discriminate].
      destruct (phrase_of tc) as [x|]; [destruct (phrase_of c) as [y|]|]; try discriminate.
      destruct (sort2_str x y). discriminate.
  - destruct (existsb (fun tc => is_prefix d (fst tc)) (trees st)) eqn:Eex; [discriminate|].
    destruct (min_entry (filter (offending c) (filter (fun pc => is_prefix d (fst pc)) (claims st))))
      as [[p cl]|] eqn:Emin.
    { destruct (negb (role_eqb (c_role cl) RStatic)); discriminate. }
    match type of H with declare_static_files _ _ ?s _ = _ => set (st1 := s) in * end.
    assert (Hfr : trees st' = (d, c) :: trees st /\ steps st' = steps st).
    { unfold declare_static_files in H.
      destruct (static_checks ow (CTree d) st1 (sort_uniq (filter (is_prefix d) (loose st)))) as [l0|];
        cbn [bind] in H; [|discriminate].
      clear -H.
      assert (G : forall l s, fold_res (fun s dp => declare_file ow (fst dp) RStatic s (snd dp)) l s = Ok st' ->
                  trees st' = trees s /\ steps st' = steps s).
      { induction l as [|dp l IH]; intros s Hs; cbn [fold_res] in Hs.
        - inversion Hs. auto.
        - destruct (declare_file ow (fst dp) RStatic s (snd dp)) as [s1|] eqn:E; cbn [bind] in Hs; [|discriminate Hs].
          apply declare_file_frame in E as [Et [Es _]]. destruct (IH _ Hs) as [A B]. split; congruence. }
      apply (G l0 st1 H). }
    destruct Hfr as [Htr Hsteps].
    unfold register_tree.
    assert (Er' : require_step st' c = Ok tt).
    { unfold require_step, step_exists in *. rewrite Hsteps. destruct a. exact Er. }
    rewrite Er'. cbn [bind]. rewrite E1. fold d. rewrite E2, E3.
    assert (Hown : find_owner ow st' d = Ok (Some (d, c))).
    { unfold find_owner, owners. rewrite Htr. cbn [filter fst].
      assert (Hpd : probe ow d = d) by (apply probe_with_slash). rewrite Hpd, is_prefix_refl.
      assert (Hnil : filter (fun tc => is_prefix (fst tc) d) (trees st) = []).
      { unfold find_owner, owners in Eo. rewrite Hpd in Eo.
        destruct (filter (fun tc => is_prefix (fst tc) d) (trees st)) as [|x [|y l]]; [reflexivity| |];
          discriminate. }
      now rewrite Hnil. }
    rewrite Hown. cbn [bind]. now rewrite creator_eqb_refl.
Qed.

(* The requests that are declarations of paths (a glob owns nothing; a step is not a path). *)
Definition is_declaration (r : req) : bool :=
  match r with
  | RqStatic _ _ | RqTree _ _ => true
  | RqAmend _ inps _ _ => match inps with [] => true | _ => false end
  | _ => false
  end.

Theorem same_creator_redeclare_noop st r st' :
  Inv gm gr st -> is_declaration r = true -> step gm ow gr st r = Ok st' ->
  step gm ow gr st' r = Ok st'.
Proof.
  intros HI Hd H. destruct r; cbn in Hd; try discriminate; cbn in *.
  - destruct (require_step st c) eqn:Er; cbn [bind] in H; [|discriminate].
    assert (Hnt : forall t, c <> CTree t).
    { intros t ->. unfold require_step in Er. cbn in Er. discriminate. }
    assert (Hok : forall p, In p ps -> tree_decl_ok ow st c RStatic p).
    { intros p _. now apply non_tree_decl_ok. }
    destruct (declare_static_files_inv gm ow gr c st ps st' HI Hok H) as [_ [_ [Hsteps _]]].
    assert (Er' : require_step st' c = Ok tt).
    { unfold require_step, step_exists in *. rewrite Hsteps. destruct a. exact Er. }
    rewrite Er'. cbn [bind]. eapply declare_static_files_again; eauto.
  - eapply register_tree_again; eauto.
  - destruct inps; [|discriminate]. eapply amend_outputs_again; eauto.
Qed.

End Redeclare.

(* ------------------------------------------------------------------------------------------ *)
(* 4. The collision messages do not depend on which declaration came first                     *)
(* ------------------------------------------------------------------------------------------ *)

(* FileRole values are pairwise distinct (generated from enums.py). *)
Lemma role_val_inj a b : role_val a = role_val b -> a = b.
Proof. destruct a, b; intros H; vm_compute in H; congruence. Qed.

Lemma lex_lt_asym a b : lex_lt a b = true -> lex_lt b a = false.
Proof.
  intros H. destruct (lex_lt b a) eqn:E; [|reflexivity].
  pose proof (lex_lt_trans _ _ _ H E) as Hx. rewrite lex_lt_irrefl in Hx. discriminate.
Qed.

Lemma lex_lt_total_eq a b : lex_lt a b = false -> lex_lt b a = false -> a = b.
Proof. intros H1 H2. destruct (lex_total a b) as [H|[H|H]]; congruence. Qed.

Lemma decl_lt_asym a b : decl_lt a b = true -> decl_lt b a = false.
Proof.
  unfold decl_lt. intros H.
  destruct (role_val (d_role a) <? role_val (d_role b)) eqn:E1.
  - apply N.ltb_lt in E1. destruct (role_val (d_role b) <? role_val (d_role a)) eqn:E2.
    + apply N.ltb_lt in E2. lia.
    + reflexivity.
  - destruct (role_val (d_role b) <? role_val (d_role a)) eqn:E2; [discriminate|].
    destruct (lex_lt (d_who a) (d_who b)) eqn:E3.
    + now rewrite (lex_lt_asym _ _ E3).
    + destruct (lex_lt (d_who b) (d_who a)) eqn:E4; [discriminate|].
      destruct (d_auth a), (d_auth b); cbn in *; congruence.
Qed.

Lemma decl_lt_total a b : decl_lt a b = false -> decl_lt b a = false -> a = b.
Proof.
  unfold decl_lt. intros H1 H2.
  destruct (role_val (d_role a) <? role_val (d_role b)) eqn:E1; [discriminate|].
  destruct (role_val (d_role b) <? role_val (d_role a)) eqn:E2; [discriminate|].
  apply N.ltb_ge in E1, E2. assert (Hr : d_role a = d_role b) by (apply role_val_inj; lia).
  destruct (lex_lt (d_who a) (d_who b)) eqn:E3; [discriminate|].
  destruct (lex_lt (d_who b) (d_who a)) eqn:E4; [discriminate|].
  pose proof (lex_lt_total_eq _ _ E3 E4) as Hw.
  destruct a as [ra wa aa], b as [rb wb ab]. cbn in *. subst.
  destruct aa, ab; cbn in *; congruence.
Qed.

Lemma sort2_decl_sym a b : sort2_decl a b = sort2_decl b a.
Proof.
  unfold sort2_decl. destruct (decl_lt b a) eqn:E1, (decl_lt a b) eqn:E2; try reflexivity.
  - rewrite (decl_lt_asym _ _ E1) in E2. discriminate.
  - now rewrite (decl_lt_total _ _ E2 E1).
Qed.

Lemma sort2_str_sym a b : sort2_str a b = sort2_str b a.
Proof.
  unfold sort2_str. destruct (lex_lt b a) eqn:E1, (lex_lt a b) eqn:E2; try reflexivity.
  - rewrite (lex_lt_asym _ _ E1) in E2. discriminate.
  - now rewrite (lex_lt_total_eq _ _ E2 E1).
Qed.

(* _file_collision_message(path, a, b) = _file_collision_message(path, b, a), as structured
   message and hence as text. *)
Theorem file_collision_sym p a b : file_collision p a b = file_collision p b a.
Proof. unfold file_collision. now rewrite (sort2_decl_sym a b). Qed.

Lemma decl_of_node_step r l : decl_of_node r (CStep l) = Ok (mkDecl r (phrase_step l) true).
Proof. reflexivity. Qed.

(* The check that fires when declaration 2 meets the existing claim 1 produces the same message
   as the check that fires when declaration 1 meets the existing claim 2 (files declared by
   steps or by StepUp itself; a tree never declares through _check_declaration with a phrase). *)
Theorem collision_message_symmetric p r1 c1 r2 c2 d1 d2 :
  decl_of_node r1 c1 = Ok d1 -> decl_of_node r2 c2 = Ok d2 ->
  claim_collision p (mkClaim r1 c1) d2 = claim_collision p (mkClaim r2 c2) d1.
Proof.
  intros H1 H2. unfold claim_collision. cbn [c_by c_role].
  destruct c1 as [|l1|t1]; try (cbn in H1; discriminate);
  destruct c2 as [|l2|t2]; try (cbn in H2; discriminate);
  rewrite H1, H2; apply file_collision_sym.
Qed.

Theorem collision_text_symmetric p r1 c1 r2 c2 d1 d2 :
  decl_of_node r1 c1 = Ok d1 -> decl_of_node r2 c2 = Ok d2 ->
  render (claim_collision p (mkClaim r1 c1) d2) = render (claim_collision p (mkClaim r2 c2) d1).
Proof. intros H1 H2. now rewrite (collision_message_symmetric p r1 c1 r2 c2 d1 d2 H1 H2). Qed.

(* Duplicate static tree / duplicate step: the two creators are sorted. *)
Theorem dup_messages_symmetric t a b :
  (let (c1, c2) := sort2_str a b in MDupTree t c1 c2) = (let (c1, c2) := sort2_str b a in MDupTree t c1 c2) /\
  (let (c1, c2) := sort2_str a b in MDupStep t c1 c2) = (let (c1, c2) := sort2_str b a in MDupStep t c1 c2).
Proof. now rewrite (sort2_str_sym a b). Qed.

(* The tree messages and the glob message print their parties in a fixed order (tree, path /
   pattern, glob step, path, building step) at both raising sites; see either-order lemmas. *)

(* ------------------------------------------------------------------------------------------ *)
(* 3. Either order                                                                             *)
(* ------------------------------------------------------------------------------------------ *)

Section EitherOrder.

Variable gm : str -> str -> bool.
Variable gr : bool.

(* File versus file: an unclaimed path p, two different declarations (role, creator) of it by
   steps or StepUp itself.  Whichever is made first, the other is rejected, with the same
   structured message. *)
Theorem file_file_either_order st p r1 c1 r2 c2 d1 d2 :
  lookup p (claims st) = None ->
  decl_of_node r1 c1 = Ok d1 -> decl_of_node r2 c2 = Ok d2 ->
  (role_eqb r1 r2 && creator_eqb c1 c2 = false) ->
  exists m,
    check_decl (set_claim st p (mkClaim r1 c1)) (WNode c2) p r2 = Err m /\
    check_decl (set_claim st p (mkClaim r2 c2)) (WNode c1) p r1 = Err m.
Proof.
  intros Hl H1 H2 Hne. exists (claim_collision p (mkClaim r1 c1) d2). unfold check_decl. cbn [claims set_claim lookup].
  rewrite !str_eqb_refl. cbn [c_role c_by]. rewrite Hne.
  assert (Hne' : role_eqb r2 r1 && creator_eqb c2 c1 = false).
  { destruct (role_eqb r2 r1 && creator_eqb c2 c1) eqn:E; [|reflexivity].
    apply andb_true_iff in E as [E1 E2]. apply role_eqb_eq in E1. apply creator_eqb_eq in E2. subst.
    now rewrite role_eqb_refl, creator_eqb_refl in Hne. }
  rewrite Hne', H1, H2. split; [reflexivity|].
  f_equal. symmetry. now apply collision_message_symmetric.
Qed.

(* The two code paths of the tree checks: the owner lookup (tree label is a prefix of the probe)
   and the scan of register_static_tree (tree label is a prefix of the file label).  With the
   probe `path` (ow = false) they are the same test; with the probe `path + "/"` (ow = true,
   the unfixed code) they differ on exactly one spelling: the file named like the tree. *)
Lemma prefix_snoc (d p : str) (x : N) :
  is_prefix d (p ++ [x]) = true -> is_prefix d p = false -> d = p ++ [x].
Proof.
  revert p. induction d as [|y d IH]; intros p H1 H2; [discriminate|].
  destruct p as [|z p]; cbn in *.
  - apply andb_true_iff in H1 as [Hy Hd]. apply N.eqb_eq in Hy. subst. destruct d; [reflexivity|discriminate].
  - apply andb_true_iff in H1 as [Hy Hd]. apply N.eqb_eq in Hy. subst. rewrite N.eqb_refl in H2. cbn in H2.
    f_equal. now apply IH.
Qed.

Theorem owner_lookup_vs_scan d p :
  is_prefix d (probe false p) = is_prefix d p /\
  (is_prefix d (probe true p) = true -> is_prefix d p = false -> d = p ++ [SLASH]).
Proof.
  split; [reflexivity|]. unfold probe, with_slash. intros H1 H2.
  destruct p as [|x p]; [congruence|]. destruct (ends_with_c SLASH (x :: p)); [congruence|].
  now apply prefix_snoc.
Qed.

(* Tree versus product, decision level, for the probe `path`: a product p (claimed in role r,
   not static) and a tree d.  Tree first: _declare_file finds the tree as owner of p exactly
   when the scan of register_static_tree, product first, finds p under d; both raise the same
   structured message. *)
Theorem tree_product_either_order (d p : str) (c : creator) (cl : claim) trees0 :
  c_role cl <> RStatic ->
  let st_tree := mkState [] [] ((d, c) :: trees0) [] [] [] in
  (forall t, In t (map fst trees0) -> is_prefix t p = false) ->
  (* tree first, then the product *)
  (is_prefix d p = true ->
     find_owner false st_tree p = Ok (Some (d, c))) /\
  (is_prefix d p = false -> find_owner false st_tree p = Ok None) /\
  (* product first, then the tree: the scan sees the product exactly in the same case *)
  (is_prefix d p = true ->
     min_entry (filter (offending c) (filter (fun pc => is_prefix d (fst pc)) [(p, cl)])) = Some (p, cl)) /\
  (is_prefix d p = false ->
     min_entry (filter (offending c) (filter (fun pc => is_prefix d (fst pc)) [(p, cl)])) = None).
Proof.
  intros Hr st_tree Hno.
  assert (Hnil : filter (fun tc : str * creator => is_prefix (fst tc) p) trees0 = []).
  { induction trees0 as [|[t tc] l IH]; [reflexivity|]. cbn.
    rewrite (Hno t (or_introl eq_refl)). apply IH. intros t' Ht'. apply Hno. now right. }
  assert (Hoff : offending c (p, cl) = true).
  { unfold offending. cbn. destruct (role_eqb (c_role cl) RStatic) eqn:E; [|reflexivity].
    apply role_eqb_eq in E. contradiction. }
  repeat split; intros Hp; unfold find_owner, owners, probe; cbn [trees st_tree filter fst];
    rewrite ?Hp, ?Hnil; cbn [filter fst]; rewrite ?Hoff; reflexivity.
Qed.

(* Glob versus product, decision level, when register_nglob scans the products (gr = true):
   pattern first, _raise_if_glob_match rejects the product p iff gm pat p; product first,
   register_nglob rejects the pattern iff gm pat p; same structured message. *)
Theorem glob_product_either_order (s pat lbl p : str) (subs : subs_t) (ms : list str) (cl : claim) :
  c_role cl <> RStatic -> c_by cl = CStep lbl ->
  glob_check gm [mkGlob s pat subs ms] lbl [p] =
    (if gm (gkey pat subs) p then Err (MGlobProduct pat s p lbl) else Ok tt) /\
  (match min_entry (filter (fun pc : str * claim => negb (role_eqb (c_role (snd pc)) RStatic) && gm (gkey pat subs) (fst pc))
                           [(p, cl)]) with
   | Some (q, cl') => Err (MGlobProduct pat s q (creator_label (c_by cl')))
   | None => Ok tt
   end) = (if gm (gkey pat subs) p then Err (MGlobProduct pat s p lbl) else Ok tt).
Proof.
  intros Hr Hby. split.
  - cbn. unfold g_key. cbn [g_pat g_subs]. destruct (gm (gkey pat subs) p); reflexivity.
  - cbn. destruct (role_eqb (c_role cl) RStatic) eqn:E; [apply role_eqb_eq in E; contradiction|].
    cbn. destruct (gm (gkey pat subs) p); [|reflexivity]. cbn. now rewrite Hby.
Qed.

End EitherOrder.

(* ------------------------------------------------------------------------------------------ *)
(* Tables generated from enums.py                                                              *)
(* ------------------------------------------------------------------------------------------ *)

Definition all_roles : list role := [RStatic; ROutput; RVolatile].

(* _declare_file(creator, path, state) claims the path in the role FILE_ROLE_BY_STATE[state], for
   the three declarable states; FILE_ROLE_BY_STATE is the inverse of FILE_STATES_BY_ROLE. *)
Lemma role_tables_consistent :
  forallb (fun r => assoc_n (declared_state_val r) role_by_state 0 =? role_val r) all_roles = true /\
  forallb (fun sr => existsb (fun rs => (fst rs =? snd sr) && existsb (N.eqb (fst sr)) (snd rs))
                             states_by_role) role_by_state = true /\
  forallb (fun rs => forallb (fun s => assoc_n s role_by_state 0 =? fst rs) (snd rs)) states_by_role = true /\
  forallb (fun s => existsb (N.eqb s) declarable_states)
          (map declared_state_val all_roles) = true.
Proof. vm_compute. repeat split; reflexivity. Qed.

(* Equality of states up to the order of the association lists. *)
Definition state_equiv (a b : state) : Prop :=
  (forall p, lookup p (claims a) = lookup p (claims b)) /\
  (forall t, lookup t (trees a) = lookup t (trees b)) /\
  (forall l, lookup l (steps a) = lookup l (steps b)) /\
  (forall p, mem_str p (loose a) = mem_str p (loose b)) /\
  (forall g, In g (globs a) <-> In g (globs b)) /\
  sinks a = sinks b.

Definition req_creator (r : req) : creator :=
  match r with
  | RqStatic c _ | RqTree c _ | RqDefine c _ _ _ _ => c
  | RqGlob s _ _ _ | RqAmend s _ _ _ => CStep s
  end.

(* ------------------------------------------------------------------------------------------ *)
(* 3b. Request-level commutation: static tree versus build product (probe = path, ow = false)   *)
(* ------------------------------------------------------------------------------------------ *)

Section Commute.

Variable gm : str -> str -> bool.
Variable gr : bool.

Lemma bind_ok_r {A} (x : res A) : bind x (fun a => Ok a) = x.
Proof. destruct x; reflexivity. Qed.

(* amend_step(step, out_paths=[p]) / amend_step(step, vol_paths=[p]) *)
Definition amend1 (s : str) (r : role) (p : str) : req :=
  match r with RVolatile => RqAmend s [] [] [p] | _ => RqAmend s [] [p] [] end.

Definition amend1_sem (s : str) (r : role) (p : str) (st : state) : res state :=
  bind (require_step st (CStep s)) (fun _ =>
  bind (check_decl st (WNode (CStep s)) p r) (fun is_new =>
  if is_new
  then bind (glob_check gm (globs st) s [p]) (fun _ => declare_file false (CStep s) r st p)
  else Ok st)).

Lemma amend1_spec s r p st :
  product_role r = true -> step gm false gr st (amend1 s r p) = amend1_sem s r p st.
Proof.
  intros Hr. destruct r; try discriminate; cbn [amend1 step]; unfold amend_step, amend1_sem;
    destruct (require_step st (CStep s)); cbn [bind]; try reflexivity;
    cbn [sort_uniq fold_right insert_uniq dir_inputs find_first fold_res bind check_all].
  - destruct (check_decl st (WNode (CStep s)) p ROutput) as [b|m]; cbn [bind]; [|reflexivity].
    destruct b; cbn [app overlap_check find_first mem_str bind sort_uniq fold_right insert_uniq fold_res].
    + destruct (glob_check gm (globs st) s [p]); cbn [bind]; [|reflexivity].
      destruct (declare_file false (CStep s) ROutput st p); reflexivity.
    + rewrite glob_check_nil. reflexivity.
  - destruct (check_decl st (WNode (CStep s)) p RVolatile) as [b|m]; cbn [bind]; [|reflexivity].
    destruct b; cbn [app overlap_check find_first mem_str bind sort_uniq fold_right insert_uniq fold_res].
    + destruct (glob_check gm (globs st) s [p]); cbn [bind]; [|reflexivity].
      destruct (declare_file false (CStep s) RVolatile st p); reflexivity.
    + rewrite glob_check_nil. reflexivity.
Qed.

(* register_static_tree split into its decision and the state it builds *)
Inductive tree_case := TNoop | TNew | TErr (m : msg).

Definition tree_decide (c : creator) (path : str) (st : state) : tree_case :=
  match require_step st c with Err m => TErr m | Ok _ =>
  if str_eqb path stepup_dir || is_prefix stepup_prefix path then TErr (MStepupTree path) else
  let d := with_slash path in
  if str_eqb d [46; SLASH] || str_eqb d [] then TErr MTreeRoot else
  if str_eqb d [SLASH] then TErr MTreeFsRoot else
  match find_owner false st d with
  | Err m => TErr m
  | Ok (Some (t, tc)) =>
      if creator_eqb tc c then TNoop
      else if str_eqb t d then
        match phrase_of tc, phrase_of c with
        | Ok a, Ok b => let (c1, c2) := sort2_str a b in TErr (MDupTree d c1 c2)
        | Err m, _ => TErr m
        | _, Err m => TErr m
        end
      else TErr (MTreeSub d)
  | Ok None =>
      if existsb (fun tc => is_prefix d (fst tc)) (trees st) then TErr (MTreeParent d) else
      match min_entry (filter (offending c) (filter (fun pc => is_prefix d (fst pc)) (claims st))) with
      | Some (p, cl) => if negb (role_eqb (c_role cl) RStatic) then TErr (MTreeProduct d p)
                        else TErr (MTreeFile d p)
      | None => TNew
      end
  end end.

Definition tree_state (c : creator) (d : str) (st : state) : state :=
  mkState (handover d (claims st)) (loose st) ((d, c) :: trees st) (steps st) (globs st) (sinks st).

Lemma register_tree_decide c path st :
  register_tree false c path st =
  match tree_decide c path st with
  | TNoop => Ok st
  | TErr m => Err m
  | TNew => declare_static_files false (CTree (with_slash path)) (tree_state c (with_slash path) st)
              (filter (is_prefix (with_slash path)) (loose st))
  end.
Proof.
  unfold register_tree, tree_decide.
  destruct (require_step st c); cbn [bind]; [|reflexivity].
  destruct (str_eqb path stepup_dir || is_prefix stepup_prefix path); [reflexivity|].
  cbv zeta.
  destruct (str_eqb (with_slash path) [46; SLASH] || str_eqb (with_slash path) []); [reflexivity|].
  destruct (str_eqb (with_slash path) [SLASH]); [reflexivity|].
  destruct (find_owner false st (with_slash path)) as [[[t tc]|]|m]; cbn [bind]; try reflexivity.
  - destruct (creator_eqb tc c); [reflexivity|]. destruct (str_eqb t (with_slash path)); [|reflexivity].
    destruct (phrase_of tc) as [x|]; [destruct (phrase_of c) as [y|]|]; try reflexivity. destruct (sort2_str x y). reflexivity.
  - destruct (existsb (fun tc => is_prefix (with_slash path) (fst tc)) (trees st)); [reflexivity|].
    destruct (min_entry _) as [[p cl]|]; [destruct (negb (role_eqb (c_role cl) RStatic)); reflexivity|].
    reflexivity.
Qed.

Lemma declare_static_files_nil c st : declare_static_files false c st [] = Ok st.
Proof. reflexivity. Qed.

End Commute.

Section Commute2.

Variable gm : str -> str -> bool.
Variable gr : bool.

Lemma run2 ow st a b :
  run gm ow gr st [a; b] = bind (step gm ow gr st a) (fun s1 => step gm ow gr s1 b).
Proof.
  unfold run. cbn [fold_res]. destruct (step gm ow gr st a) as [s1|]; cbn [bind]; [|reflexivity].
  destruct (step gm ow gr s1 b); reflexivity.
Qed.

Lemma check_decl_true_none st w p r : check_decl st w p r = Ok true -> lookup p (claims st) = None.
Proof.
  unfold check_decl. destruct (lookup p (claims st)) as [cl|]; [|reflexivity].
  destruct w as [c|ph]; [|discriminate].
  destruct (role_eqb (c_role cl) r && creator_eqb (c_by cl) c); [discriminate|].
  destruct (decl_of_node r c); discriminate.
Qed.

Lemma declare_file_ok_inv c0 r st p st2 :
  (forall t, c0 <> CTree t) -> declare_file false c0 r st p = Ok st2 ->
  st2 = set_claim st p (mkClaim r c0) /\
  role_eqb r RVolatile && ends_with_c SLASH p = false /\
  find_owner false st p = Ok None /\
  is_prefix stepup_prefix p = false /\ bad_name p = None /\
  lookup p (claims st) = None /\
  role_eqb r RVolatile && mem_str p (loose st) = false.
Proof.
  intros Hc H. unfold declare_file in H.
  destruct (role_eqb r RVolatile && ends_with_c SLASH p) eqn:F1; [discriminate|].
  destruct c0 as [|l|t]; [| |exfalso; eapply Hc; eauto].
  - dres H. apply owner_guard_ok in E. inversion H. repeat split; auto.
  - dres H. apply owner_guard_ok in E. inversion H. repeat split; auto.
Qed.

Lemma handover_keep d cls p cl :
  In (p, cl) cls -> is_prefix d p = false -> In (p, cl) (handover d cls).
Proof.
  intros Hin Hp. unfold handover. apply in_map_iff. exists (p, cl). cbn. rewrite Hp. auto.
Qed.

Lemma lookup_handover_none d cls p : lookup p cls = None -> lookup p (handover d cls) = None.
Proof.
  induction cls as [|[q cl] cls IH]; cbn; [auto|].
  destruct (str_eqb p q) eqn:E; [discriminate|]. intros H.
  destruct (is_prefix d q); cbn; rewrite E; auto.
Qed.

Lemma filter_filter_nil {A} (f g : A -> bool) l : filter f l = [] -> filter f (filter g l) = [].
Proof.
  induction l as [|x l IH]; cbn; [auto|]. destruct (f x) eqn:E; [discriminate|]. intros H.
  destruct (g x); cbn; rewrite ?E; auto.
Qed.

Lemma tree_decide_noop_set_claim c path st p cl :
  tree_decide c path st = TNoop -> tree_decide c path (set_claim st p cl) = TNoop.
Proof.
  unfold tree_decide. unfold require_step, step_exists, find_owner, owners.
  cbn [set_claim steps trees claims].
  destruct (match c with CRoot => true | CStep l => match lookup l (steps st) with Some _ => true | None => false end | CTree _ => false end);
    [|discriminate].
  destruct (str_eqb path stepup_dir || is_prefix stepup_prefix path); [discriminate|]. cbv zeta.
  destruct (str_eqb (with_slash path) [46; SLASH] || str_eqb (with_slash path) []); [discriminate|].
  destruct (str_eqb (with_slash path) [SLASH]); [discriminate|].
  destruct (filter (fun tc : str * creator => is_prefix (fst tc) (probe false (with_slash path))) (trees st))
    as [|[t tc] [|x l]]; try discriminate.
  - destruct (existsb (fun tc : str * creator => is_prefix (with_slash path) (fst tc)) (trees st)); [discriminate|].
    destruct (min_entry _) as [[q cl']|]; [destruct (negb (role_eqb (c_role cl') RStatic)); discriminate|discriminate].
  - auto.
Qed.

Lemma tree_decide_new_set_claim c path st p cl :
  tree_decide c path st = TNew ->
  tree_decide c path (set_claim st p cl) =
    if is_prefix (with_slash path) p && offending c (p, cl)
    then (if negb (role_eqb (c_role cl) RStatic) then TErr (MTreeProduct (with_slash path) p)
          else TErr (MTreeFile (with_slash path) p))
    else TNew.
Proof.
  unfold tree_decide. unfold require_step, step_exists, find_owner, owners.
  cbn [set_claim steps trees claims].
  destruct (match c with CRoot => true | CStep l => match lookup l (steps st) with Some _ => true | None => false end | CTree _ => false end);
    [|discriminate].
  destruct (str_eqb path stepup_dir || is_prefix stepup_prefix path); [discriminate|]. cbv zeta.
  destruct (str_eqb (with_slash path) [46; SLASH] || str_eqb (with_slash path) []); [discriminate|].
  destruct (str_eqb (with_slash path) [SLASH]); [discriminate|].
  destruct (filter (fun tc : str * creator => is_prefix (fst tc) (probe false (with_slash path))) (trees st))
    as [|[t tc] [|x l]]; try discriminate.
  - destruct (existsb (fun tc : str * creator => is_prefix (with_slash path) (fst tc)) (trees st)); [discriminate|].
    destruct (min_entry (filter (offending c) (filter (fun pc => is_prefix (with_slash path) (fst pc)) (claims st))))
      as [[q cl']|] eqn:Emin; [destruct (negb (role_eqb (c_role cl') RStatic)); discriminate|].
    intros _. apply min_entry_none in Emin. cbn [filter fst].
    destruct (is_prefix (with_slash path) p); cbn [andb filter].
    + destruct (offending c (p, cl)); [rewrite Emin; reflexivity|rewrite Emin; reflexivity].
    + rewrite Emin. reflexivity.
  - destruct (creator_eqb tc c); [discriminate|]. destruct (str_eqb t (with_slash path)); [|discriminate].
    destruct (phrase_of tc) as [x|]; [destruct (phrase_of c) as [y|]|]; try discriminate.
    destruct (sort2_str x y). discriminate.
Qed.

Lemma step_not_tree s : forall t, CStep s <> CTree t.
Proof. intros t H. discriminate H. Qed.

Lemma tree_decide_new_facts c path st :
  tree_decide c path st = TNew ->
  filter (offending c) (filter (fun pc => is_prefix (with_slash path) (fst pc)) (claims st)) = [] /\
  find_owner false st (with_slash path) = Ok None.
Proof.
  unfold tree_decide.
  destruct (require_step st c); [|discriminate].
  destruct (str_eqb path stepup_dir || is_prefix stepup_prefix path); [discriminate|]. cbv zeta.
  destruct (str_eqb (with_slash path) [46; SLASH] || str_eqb (with_slash path) []); [discriminate|].
  destruct (str_eqb (with_slash path) [SLASH]); [discriminate|].
  destruct (find_owner false st (with_slash path)) as [[[t tc]|]|m]; try discriminate.
  - destruct (creator_eqb tc c); [discriminate|]. destruct (str_eqb t (with_slash path)); [|discriminate].
    destruct (phrase_of tc) as [x|]; [destruct (phrase_of c) as [y|]|]; try discriminate.
    destruct (sort2_str x y). discriminate.
  - destruct (existsb (fun tc : str * creator => is_prefix (with_slash path) (fst tc)) (trees st)); [discriminate|].
    destruct (min_entry _) as [[q cl']|] eqn:Emin; [destruct (negb (role_eqb (c_role cl') RStatic)); discriminate|].
    intros _. split; [now apply min_entry_none|reflexivity].
Qed.

Definition both (a b : res state) : Prop :=
  match a, b with
  | Ok s1, Ok s2 => s1 = s2
  | Err m1, Err m2 => m1 = m2
  | _, _ => False
  end.

(* Static tree versus amended output / volatile output (any creators, the same step included):
   from any state satisfying the invariant in which each request is acceptable on its own, and
   which holds no undeclared input under the new tree, the plan is rejected in both orders with
   the same structured message or accepted in both orders with the SAME final state. *)
Theorem tree_product_commute st c path s r p :
  Inv gm gr st -> product_role r = true ->
  filter (is_prefix (with_slash path)) (loose st) = [] ->
  accepted (step gm false gr st (RqTree c path)) = true ->
  accepted (step gm false gr st (amend1 s r p)) = true ->
  both (run gm false gr st [RqTree c path; amend1 s r p])
       (run gm false gr st [amend1 s r p; RqTree c path]).
Proof.
  intros HI Hr Hloose H1 H2. rewrite !run2. rewrite (amend1_spec gm gr s r p st Hr) in *.
  cbn [step] in *. rewrite (register_tree_decide c path st) in *.
  set (d := with_slash path) in *.
  unfold amend1_sem in H2 at 1.
  destruct (require_step st (CStep s)) as [[]|] eqn:Ers; cbn [bind accepted] in H2; [|discriminate H2].
  destruct (check_decl st (WNode (CStep s)) p r) as [b|] eqn:Ecd; cbn [bind accepted] in H2; [|discriminate H2].
  assert (Hsem : amend1_sem gm s r p st =
                 if b then bind (glob_check gm (globs st) s [p]) (fun _ => declare_file false (CStep s) r st p)
                 else Ok st).
  { unfold amend1_sem. rewrite Ers. cbn [bind]. rewrite Ecd. reflexivity. }
  rewrite Hsem.
  destruct (tree_decide c path st) eqn:ED; [| |cbn in H1; discriminate H1].
  - (* the tree request is a no-op *)
    cbn [bind]. rewrite (amend1_spec gm gr s r p st Hr), Hsem.
    destruct b.
    + destruct (glob_check gm (globs st) s [p]); cbn [bind accepted] in *; [|discriminate H2].
      destruct (declare_file false (CStep s) r st p) as [st2|] eqn:Edf; cbn [accepted] in H2; [|discriminate H2].
      cbn [bind]. destruct (declare_file_ok_inv _ _ _ _ _ (step_not_tree s) Edf) as [-> _].
      rewrite register_tree_decide, (tree_decide_noop_set_claim _ _ _ _ _ ED). reflexivity.
    + cbn [bind]. rewrite register_tree_decide, ED. reflexivity.
  - (* a new tree *)
    fold d. rewrite Hloose, declare_static_files_nil. cbn [bind].
    rewrite (amend1_spec gm gr s r p _ Hr).
    destruct (tree_decide_new_facts _ _ _ ED) as [Hnooff Hown]. fold d in Hnooff, Hown.
    unfold amend1_sem.
    assert (Ers1 : require_step (tree_state c d st) (CStep s) = Ok tt) by exact Ers.
    rewrite Ers1. cbn [bind].
    assert (Hnr : role_eqb r RStatic = false) by (destruct r; try discriminate; reflexivity).
    destruct b.
    + (* the product is new *)
      destruct (glob_check gm (globs st) s [p]) as [[]|] eqn:Egc; cbn [bind accepted] in H2; [|discriminate H2].
      destruct (declare_file false (CStep s) r st p) as [st2|] eqn:Edf; cbn [accepted] in H2; [|discriminate H2].
      destruct (declare_file_ok_inv _ _ _ _ _ (step_not_tree s) Edf) as [-> [F1 [F2 [F3 [F4 [F5 F6]]]]]].
      cbn [bind].
      assert (Ecd1 : check_decl (tree_state c d st) (WNode (CStep s)) p r = Ok true).
      { unfold check_decl. cbn [claims tree_state]. now rewrite (lookup_handover_none d _ p F5). }
      rewrite Ecd1. cbn [bind].
      change (globs (tree_state c d st)) with (globs st). rewrite Egc. cbn [bind].
      rewrite register_tree_decide, (tree_decide_new_set_claim _ _ _ _ _ ED). fold d.
      assert (Hoff : offending c (p, mkClaim r (CStep s)) = true).
      { unfold offending. cbn. now rewrite Hnr. }
      rewrite Hoff, andb_true_r. cbn [c_role]. rewrite Hnr. cbn [negb].
      assert (Hown1 : find_owner false (tree_state c d st) p =
                      if is_prefix d p then Ok (Some (d, c)) else Ok None).
      { unfold find_owner, owners, probe in *. cbn [trees tree_state filter fst].
        destruct (filter (fun tc : str * creator => is_prefix (fst tc) p) (trees st)) as [|x [|y l]];
          [|discriminate F2|discriminate F2].
        destruct (is_prefix d p); reflexivity. }
      unfold declare_file. rewrite F1, Hown1.
      destruct (is_prefix d p) eqn:Edp; cbn [bind].
      * rewrite Hnr. reflexivity.
      * rewrite F3, F4. cbn [claims tree_state]. rewrite (lookup_handover_none d _ p F5).
        change (loose (tree_state c d st)) with (loose st). rewrite F6.
        cbn [loose set_claim]. unfold remove_str.
        rewrite (filter_filter_nil (is_prefix d) (fun x => negb (str_eqb p x)) (loose st) Hloose).
        rewrite declare_static_files_nil. cbn [both].
        unfold set_claim, tree_state, handover. cbn [claims loose trees steps globs map fst snd].
        now rewrite Edp.
    + (* the product is already held by the step *)
      cbn [bind]. rewrite register_tree_decide, ED. fold d. rewrite Hloose, declare_static_files_nil.
      pose proof (check_decl_false_held _ _ _ _ Ecd) as Hin.
      assert (Hndp : is_prefix d p = false).
      { destruct (is_prefix d p) eqn:E; [|reflexivity]. exfalso.
        assert (Hu : In (p, mkClaim r (CStep s)) (filter (fun pc => is_prefix d (fst pc)) (claims st))).
        { apply filter_In. split; auto. }
        pose proof (filter_nil _ _ Hnooff _ Hu) as Hf. unfold offending in Hf. cbn in Hf.
        rewrite Hnr in Hf. discriminate Hf. }
      assert (Ecd1 : check_decl (tree_state c d st) (WNode (CStep s)) p r = Ok false).
      { apply check_decl_held.
        - cbn [claims tree_state]. rewrite handover_keys. apply (inv_uniq _ _ _ HI).
        - cbn [claims tree_state]. now apply handover_keep. }
      rewrite Ecd1. reflexivity.
Qed.
End Commute2.

Section Commute3.

Variable gm : str -> str -> bool.
Variable gr : bool.

(* Ok/Ok up to the order of the tables *)
Definition both_equiv (a b : res state) : Prop :=
  match a, b with
  | Ok s1, Ok s2 => state_equiv s1 s2
  | Err m1, Err m2 => m1 = m2
  | _, _ => False
  end.

Lemma state_equiv_refl s : state_equiv s s.
Proof. repeat split; auto. Qed.

Lemma set_claim_swap st p1 c1 p2 c2 :
  p1 <> p2 ->
  state_equiv (set_claim (set_claim st p1 c1) p2 c2) (set_claim (set_claim st p2 c2) p1 c1).
Proof.
  intros Hne. unfold state_equiv, set_claim. cbn [claims loose trees steps globs]. repeat split; auto.
  - intros q. cbn [lookup].
    destruct (str_eqb q p2) eqn:E2, (str_eqb q p1) eqn:E1; try reflexivity.
    apply str_eqb_eq in E1, E2. congruence.
  - intros q. unfold remove_str.
    induction (loose st) as [|x l IH]; [reflexivity|]. cbn [filter].
    destruct (negb (str_eqb p1 x)) eqn:A, (negb (str_eqb p2 x)) eqn:B; cbn [filter mem_str];
      rewrite ?A, ?B; cbn [mem_str]; rewrite ?IH; reflexivity.
Qed.

(* The amendment of one product, as a function of what it finds. *)
Lemma amend1_sem_held s r p st :
  require_step st (CStep s) = Ok tt -> check_decl st (WNode (CStep s)) p r = Ok false ->
  amend1_sem gm s r p st = Ok st.
Proof. intros H1 H2. unfold amend1_sem. rewrite H1. cbn [bind]. rewrite H2. reflexivity. Qed.

Lemma lookup_set_claim_other st p cl q :
  q <> p -> lookup q (claims (set_claim st p cl)) = lookup q (claims st).
Proof.
  intros H. cbn [claims set_claim lookup]. destruct (str_eqb q p) eqn:E; [|reflexivity].
  apply str_eqb_eq in E. contradiction.
Qed.

Lemma check_decl_set_claim_other st p cl w q r :
  q <> p -> check_decl (set_claim st p cl) w q r = check_decl st w q r.
Proof. intros H. unfold check_decl. now rewrite lookup_set_claim_other. Qed.

Lemma mem_remove_other p q l : q <> p -> mem_str q (remove_str p l) = mem_str q l.
Proof.
  intros H. unfold remove_str. induction l as [|x l IH]; [reflexivity|]. cbn [filter mem_str].
  destruct (str_eqb p x) eqn:E; cbn [negb mem_str].
  - apply str_eqb_eq in E. subst x. destruct (str_eqb q p) eqn:E2; [apply str_eqb_eq in E2; contradiction|].
    cbn. exact IH.
  - now rewrite IH.
Qed.

Lemma declare_file_set_claim_other c0 r st p cl q :
  q <> p -> (forall t, c0 <> CTree t) ->
  declare_file false c0 r (set_claim st p cl) q =
  match declare_file false c0 r st q with
  | Ok _ => Ok (set_claim (set_claim st p cl) q (mkClaim r c0))
  | Err m => Err m
  end.
Proof.
  intros Hne Hc. unfold declare_file.
  destruct (role_eqb r RVolatile && ends_with_c SLASH q); [reflexivity|].
  change (find_owner false (set_claim st p cl) q) with (find_owner false st q).
  destruct c0 as [|l|t]; [| |exfalso; eapply Hc; eauto].
  - destruct (find_owner false st q) as [[[t tc]|]|m]; cbn [bind]; try reflexivity.
    + destruct (role_eqb r RStatic); reflexivity.
    + destruct (is_prefix stepup_prefix q); [reflexivity|]. destruct (bad_name q); [reflexivity|].
      rewrite (lookup_set_claim_other st p cl q Hne). destruct (lookup q (claims st)); [reflexivity|].
      cbn [loose set_claim]. rewrite (mem_remove_other p q _ Hne).
      destruct (role_eqb r RVolatile && mem_str q (loose st)); reflexivity.
  - destruct (find_owner false st q) as [[[t tc]|]|m]; cbn [bind]; try reflexivity.
    + destruct (role_eqb r RStatic); reflexivity.
    + destruct (is_prefix stepup_prefix q); [reflexivity|]. destruct (bad_name q); [reflexivity|].
      rewrite (lookup_set_claim_other st p cl q Hne). destruct (lookup q (claims st)); [reflexivity|].
      cbn [loose set_claim]. rewrite (mem_remove_other p q _ Hne).
      destruct (role_eqb r RVolatile && mem_str q (loose st)); reflexivity.
Qed.

(* What an accepted single-product amendment does. *)
Lemma amend1_accepted s r p st :
  accepted (amend1_sem gm s r p st) = true ->
  require_step st (CStep s) = Ok tt /\
  ((check_decl st (WNode (CStep s)) p r = Ok false /\ amend1_sem gm s r p st = Ok st) \/
   (check_decl st (WNode (CStep s)) p r = Ok true /\ glob_check gm (globs st) s [p] = Ok tt /\
    amend1_sem gm s r p st = Ok (set_claim st p (mkClaim r (CStep s))) /\
    declare_file false (CStep s) r st p = Ok (set_claim st p (mkClaim r (CStep s))))).
Proof.
  unfold amend1_sem. destruct (require_step st (CStep s)) as [[]|]; cbn [bind accepted]; [|discriminate].
  destruct (check_decl st (WNode (CStep s)) p r) as [[|]|]; cbn [bind accepted]; [| |discriminate].
  - destruct (glob_check gm (globs st) s [p]) as [[]|]; cbn [bind accepted]; [|discriminate].
    destruct (declare_file false (CStep s) r st p) as [st2|] eqn:E; cbn [accepted]; [|discriminate].
    intros _. destruct (declare_file_ok_inv _ _ _ _ _ (step_not_tree s) E) as [-> _].
    split; [reflexivity|]. right. auto.
  - intros _. split; [reflexivity|]. left. auto.
Qed.

(* Two amended products (output / volatile) of any steps: rejected in both orders with the same
   structured message, or accepted in both orders with equal final states. *)
Theorem product_product_commute st s1 r1 p1 s2 r2 p2 :
  Inv gm gr st -> product_role r1 = true -> product_role r2 = true ->
  accepted (step gm false gr st (amend1 s1 r1 p1)) = true ->
  accepted (step gm false gr st (amend1 s2 r2 p2)) = true ->
  both_equiv (run gm false gr st [amend1 s1 r1 p1; amend1 s2 r2 p2])
             (run gm false gr st [amend1 s2 r2 p2; amend1 s1 r1 p1]).
Proof.
  intros HI Hr1 Hr2 H1 H2. rewrite !run2.
  rewrite !(amend1_spec gm gr _ _ _ st) in * by assumption.
  destruct (amend1_accepted _ _ _ _ H1) as [Q1 [[C1 S1]|[C1 [G1 [S1 D1]]]]];
  destruct (amend1_accepted _ _ _ _ H2) as [Q2 [[C2 S2]|[C2 [G2 [S2 D2]]]]];
  rewrite S1, S2; cbn [bind]; rewrite !amend1_spec by assumption.
  - (* both held *) rewrite S1, S2. apply state_equiv_refl.
  - (* 1 held, 2 new *)
    rewrite S2. 
    assert (Hne : p1 <> p2).
    { intros ->. apply check_decl_true_none in C2. apply check_decl_false_held in C1.
      apply (lookup_in_nodup _ _ _ (inv_uniq _ _ _ HI)) in C1. congruence. }
    unfold amend1_sem. change (require_step (set_claim st p2 (mkClaim r2 (CStep s2))) (CStep s1))
      with (require_step st (CStep s1)). rewrite Q1. cbn [bind].
    rewrite check_decl_set_claim_other by assumption. rewrite C1. apply state_equiv_refl.
  - (* 1 new, 2 held *)
    rewrite S1.
    assert (Hne : p2 <> p1).
    { intros ->. apply check_decl_true_none in C1. apply check_decl_false_held in C2.
      apply (lookup_in_nodup _ _ _ (inv_uniq _ _ _ HI)) in C2. congruence. }
    unfold amend1_sem. change (require_step (set_claim st p1 (mkClaim r1 (CStep s1))) (CStep s2))
      with (require_step st (CStep s2)). rewrite Q2. cbn [bind].
    rewrite check_decl_set_claim_other by assumption. rewrite C2. apply state_equiv_refl.
  - (* both new *)
    unfold amend1_sem.
    change (require_step (set_claim st p1 (mkClaim r1 (CStep s1))) (CStep s2)) with (require_step st (CStep s2)).
    change (require_step (set_claim st p2 (mkClaim r2 (CStep s2))) (CStep s1)) with (require_step st (CStep s1)).
    rewrite Q1, Q2. cbn [bind].
    destruct (str_eqb p1 p2) eqn:Ep.
    + (* the same path: a collision, whichever comes first *)
      apply str_eqb_eq in Ep. subst p2.
      unfold check_decl. cbn [claims set_claim lookup]. rewrite str_eqb_refl. cbn [c_role c_by].
      destruct (role_eqb r1 r2 && creator_eqb (CStep s1) (CStep s2)) eqn:Esame.
      * (* the same declaration twice: a no-op in both orders *)
        apply andb_true_iff in Esame as [Ea Eb]. apply role_eqb_eq in Ea. apply creator_eqb_eq in Eb.
        inversion Eb; subst. rewrite role_eqb_refl, creator_eqb_refl. cbn [andb bind both_equiv].
        apply state_equiv_refl.
      * assert (Esame' : role_eqb r2 r1 && creator_eqb (CStep s2) (CStep s1) = false).
        { destruct (role_eqb r2 r1 && creator_eqb (CStep s2) (CStep s1)) eqn:E; [|reflexivity].
          apply andb_true_iff in E as [Ea Eb]. apply role_eqb_eq in Ea. apply creator_eqb_eq in Eb.
          inversion Eb; subst. now rewrite role_eqb_refl, creator_eqb_refl in Esame. }
        rewrite Esame'. rewrite !decl_of_node_step. cbn [bind both_equiv]. 
        apply (collision_message_symmetric p1 r1 (CStep s1) r2 (CStep s2)); apply decl_of_node_step.
    + (* different paths: independent *)
      assert (Hne : p1 <> p2) by (now apply str_eqb_false).
      assert (Hne' : p2 <> p1) by congruence.
      rewrite !check_decl_set_claim_other by assumption. rewrite C1, C2. cbn [bind].
      change (globs (set_claim st p1 (mkClaim r1 (CStep s1)))) with (globs st).
      change (globs (set_claim st p2 (mkClaim r2 (CStep s2)))) with (globs st).
      rewrite G1, G2. cbn [bind].
      rewrite !declare_file_set_claim_other by (auto using step_not_tree).
      rewrite D1, D2. cbn [both_equiv]. now apply set_claim_swap.
Qed.

End Commute3.

Section Commute4.

Variable gm : str -> str -> bool.
Variable gr : bool.

(* declare_static_files(creator, [p]) *)
Definition static1_sem (c2 : creator) (p : str) (st : state) : res state :=
  bind (require_step st c2) (fun _ =>
  bind (static_declarer false c2 st p) (fun dcl =>
  bind (check_decl st (WNode dcl) p RStatic) (fun is_new =>
  if is_new then declare_file false dcl RStatic st p else Ok st))).

Lemma static1_spec c2 p st : step gm false gr st (RqStatic c2 [p]) = static1_sem c2 p st.
Proof.
  cbn [step]. unfold static1_sem. destruct (require_step st c2); cbn [bind]; [|reflexivity].
  unfold declare_static_files. cbn [sort_uniq fold_right insert_uniq static_checks].
  rewrite static_check_unfold.
  destruct (static_declarer false c2 st p) as [dcl|]; cbn [bind]; [|reflexivity].
  destruct (check_decl st (WNode dcl) p RStatic) as [[|]|]; cbn [bind fold_res fst snd]; try reflexivity.
  destruct (declare_file false dcl RStatic st p); reflexivity.
Qed.

(* an accepted static declaration of one path *)
Lemma declare_static_ok_inv dcl st p st2 :
  declare_file false dcl RStatic st p = Ok st2 ->
  st2 = set_claim st p (mkClaim RStatic dcl) /\
  is_prefix stepup_prefix p = false /\ bad_name p = None /\ lookup p (claims st) = None /\
  ((forall t, dcl <> CTree t) -> find_owner false st p = Ok None).
Proof.
  intros H. unfold declare_file in H. change (role_eqb RStatic RVolatile) with false in H. cbn [andb] in H.
  destruct dcl as [|l|t]; cbn [bind] in H.
  - dres H. apply owner_guard_ok in E. inversion H. repeat split; auto.
  - dres H. apply owner_guard_ok in E. inversion H. repeat split; auto.
  - dres H. inversion H. repeat split; auto. intros Hc. exfalso. eapply Hc; eauto.
Qed.

Lemma static_declarer_cases c2 st p dcl :
  static_declarer false c2 st p = Ok dcl ->
  (dcl = c2 /\ ((forall t, c2 <> CTree t) -> find_owner false st p = Ok None)) \/
  (exists t, dcl = CTree t /\ find_owner false st p = Ok (Some (t, c2)) /\ forall t', c2 <> CTree t').
Proof.
  unfold static_declarer. destruct c2 as [|l|t0].
  - destruct (find_owner false st p) as [[[t tc]|]|m]; cbn [bind]; try discriminate.
    + destruct (creator_eqb tc CRoot) eqn:E; [|discriminate]. apply creator_eqb_eq in E. subst.
      intros H. inversion H. right. exists t. repeat split; auto. intros t' Hx. discriminate Hx.
    + intros H. inversion H. left. auto.
  - destruct (find_owner false st p) as [[[t tc]|]|m]; cbn [bind]; try discriminate.
    + destruct (creator_eqb tc (CStep l)) eqn:E; [|discriminate]. apply creator_eqb_eq in E. subst.
      intros H. inversion H. right. exists t. repeat split; auto. intros t' Hx. discriminate Hx.
    + intros H. inversion H. left. auto.
  - intros H. inversion H. left. split; [reflexivity|]. intros Hc. exfalso. eapply Hc; eauto.
Qed.

Lemma owners_tree_state c d st p :
  owners false (tree_state c d st) p =
  (if is_prefix d p then [(d, c)] else []) ++ owners false st p.
Proof.
  unfold owners, probe. cbn [trees tree_state filter fst]. destruct (is_prefix d p); reflexivity.
Qed.

Lemma find_owner_tree_state_not_under c d st p :
  is_prefix d p = false -> find_owner false (tree_state c d st) p = find_owner false st p.
Proof. intros H. unfold find_owner. rewrite owners_tree_state, H. reflexivity. Qed.

Lemma find_owner_tree_state_under c d st p :
  is_prefix d p = true -> find_owner false st p = Ok None ->
  find_owner false (tree_state c d st) p = Ok (Some (d, c)).
Proof.
  intros H Hn. unfold find_owner in *. rewrite owners_tree_state, H.
  destruct (owners false st p) as [|x [|y l]]; [reflexivity|discriminate|discriminate].
Qed.

Lemma lookup_handover_under d cls p cl :
  NoDup (map fst cls) -> In (p, cl) cls -> is_prefix d p = true ->
  lookup p (handover d cls) = Some (mkClaim (c_role cl) (CTree d)).
Proof.
  intros Hnd Hin Hp. apply lookup_in_nodup; [now rewrite handover_keys|].
  unfold handover. apply in_map_iff. exists (p, cl). cbn. now rewrite Hp.
Qed.

Definition static_tail (c0 : creator) (st : state) (p : str) : res state :=
  if is_prefix stepup_prefix p then Err (MStepupFile p) else
  match bad_name p with Some m => Err m | None =>
  match lookup p (claims st) with
  | Some _ => Err (MNodeExists (s2l "file:" ++ p))
  | None => Ok (set_claim st p (mkClaim RStatic c0))
  end end.

Lemma declare_file_tree_static t st p :
  declare_file false (CTree t) RStatic st p = static_tail (CTree t) st p.
Proof. reflexivity. Qed.

Lemma declare_file_nontree_static c0 st p :
  (forall t, c0 <> CTree t) -> find_owner false st p = Ok None ->
  declare_file false c0 RStatic st p = static_tail c0 st p.
Proof.
  intros Hc Ho. unfold declare_file. change (role_eqb RStatic RVolatile) with false. cbn [andb].
  destruct c0 as [|l|t]; [| |exfalso; eapply Hc; eauto]; rewrite Ho; reflexivity.
Qed.

Lemma static_declarer_nontree c2 st p :
  (forall t, c2 <> CTree t) ->
  static_declarer false c2 st p =
  bind (find_owner false st p) (fun o =>
    match o with
    | None => Ok c2
    | Some (t, tc) => if creator_eqb tc c2 then Ok (CTree t) else Err (MTreeFile t p)
    end).
Proof. intros Hc. destruct c2 as [| |t]; [reflexivity|reflexivity|exfalso; eapply Hc; eauto]. Qed.

Lemma tree_decide_new_nosub c path st :
  tree_decide c path st = TNew ->
  existsb (fun tc : str * creator => is_prefix (with_slash path) (fst tc)) (trees st) = false.
Proof.
  unfold tree_decide.
  destruct (require_step st c); [|discriminate].
  destruct (str_eqb path stepup_dir || is_prefix stepup_prefix path); [discriminate|]. cbv zeta.
  destruct (str_eqb (with_slash path) [46; SLASH] || str_eqb (with_slash path) []); [discriminate|].
  destruct (str_eqb (with_slash path) [SLASH]); [discriminate|].
  destruct (find_owner false st (with_slash path)) as [[[t tc]|]|m]; try discriminate.
  - destruct (creator_eqb tc c); [discriminate|]. destruct (str_eqb t (with_slash path)); [|discriminate].
    destruct (phrase_of tc) as [x|]; [destruct (phrase_of c) as [y|]|]; try discriminate.
    destruct (sort2_str x y). discriminate.
  - destruct (existsb (fun tc : str * creator => is_prefix (with_slash path) (fst tc)) (trees st)); [discriminate|].
    reflexivity.
Qed.

Lemma step_tree ow st c path : step gm ow gr st (RqTree c path) = register_tree ow c path st.
Proof. reflexivity. Qed.

(* Static tree versus static file (any creators): same result in both orders; in particular a
   file under the tree declared by another creator is rejected with the tree/file message in
   both orders, and a file of the tree's own creator ends up owned by the tree in both orders. *)
Theorem tree_static_commute st c path c2 p :
  Inv gm gr st ->
  filter (is_prefix (with_slash path)) (loose st) = [] ->
  accepted (step gm false gr st (RqTree c path)) = true ->
  accepted (step gm false gr st (RqStatic c2 [p])) = true ->
  both (run gm false gr st [RqTree c path; RqStatic c2 [p]])
       (run gm false gr st [RqStatic c2 [p]; RqTree c path]).
Proof.
  intros HI Hloose H1 H2. rewrite !run2. rewrite (static1_spec c2 p st) in H2. rewrite (static1_spec c2 p st).
  rewrite step_tree in H1. rewrite step_tree. rewrite (register_tree_decide c path st) in *.
  set (d := with_slash path) in *.
  unfold static1_sem in H2 at 1.
  destruct (require_step st c2) as [[]|] eqn:Ers; cbn [bind accepted] in H2; [|discriminate H2].
  destruct (static_declarer false c2 st p) as [dcl|] eqn:Edcl; cbn [bind accepted] in H2; [|discriminate H2].
  destruct (check_decl st (WNode dcl) p RStatic) as [b|] eqn:Ecd; cbn [bind accepted] in H2; [|discriminate H2].
  assert (Hsem : static1_sem c2 p st = if b then declare_file false dcl RStatic st p else Ok st).
  { unfold static1_sem. rewrite Ers. cbn [bind]. rewrite Edcl. cbn [bind]. rewrite Ecd. reflexivity. }
  rewrite Hsem.
  assert (Hc2 : forall t, c2 <> CTree t).
  { intros t ->. unfold require_step in Ers. cbn in Ers. discriminate Ers. }
  destruct (tree_decide c path st) eqn:ED; [| |cbn in H1; discriminate H1].
  - (* the tree request is a no-op *)
    cbn [bind]. rewrite (static1_spec c2 p st), Hsem.
    destruct b.
    + destruct (declare_file false dcl RStatic st p) as [st2|] eqn:Edf; cbn [accepted] in H2; [|discriminate H2].
      cbn [bind]. destruct (declare_static_ok_inv _ _ _ _ Edf) as [-> _].
      rewrite step_tree, register_tree_decide, (tree_decide_noop_set_claim _ _ _ _ _ ED). reflexivity.
    + cbn [bind]. rewrite step_tree, register_tree_decide, ED. reflexivity.
  - (* a new tree *)
    fold d. rewrite Hloose, declare_static_files_nil. cbn [bind].
    rewrite (static1_spec c2 p _).
    destruct (tree_decide_new_facts _ _ _ ED) as [Hnooff Hown]. fold d in Hnooff, Hown.
    pose proof (tree_decide_new_nosub _ _ _ ED) as Hnosub. fold d in Hnosub.
    unfold static1_sem.
    assert (Ers1 : require_step (tree_state c d st) c2 = Ok tt) by exact Ers.
    rewrite Ers1. cbn [bind]. rewrite (static_declarer_nontree c2 _ p Hc2).
    (* what the tree does after the static declaration *)
    assert (Hafter : forall cl,
              lookup p (claims st) = None ->
              step gm false gr (set_claim st p cl) (RqTree c path) =
              if is_prefix d p && offending c (p, cl)
              then (if negb (role_eqb (c_role cl) RStatic) then Err (MTreeProduct d p) else Err (MTreeFile d p))
              else Ok (tree_state c d (set_claim st p cl))).
    { intros cl _. rewrite step_tree, register_tree_decide, (tree_decide_new_set_claim _ _ _ _ _ ED). fold d.
      destruct (is_prefix d p && offending c (p, cl)).
      - destruct (negb (role_eqb (c_role cl) RStatic)); reflexivity.
      - cbn [loose set_claim]. unfold remove_str.
        rewrite (filter_filter_nil (is_prefix d) (fun x => negb (str_eqb p x)) (loose st) Hloose).
        apply declare_static_files_nil. }
    destruct (static_declarer_cases _ _ _ _ Edcl) as [[-> Hnone]|[t [-> [Hsome _]]]].
    + (* no existing tree owns p *)
      specialize (Hnone Hc2).
      destruct (is_prefix d p) eqn:Edp.
      * (* p lies under the new tree *)
        rewrite (find_owner_tree_state_under c d st p Edp Hnone). cbn [bind].
        destruct (creator_eqb c c2) eqn:Ecc.
        -- (* the tree's own creator: handed over in both orders *)
           apply creator_eqb_eq in Ecc. subst c2. cbn [bind].
           destruct b.
           ++ destruct (declare_file false c RStatic st p) as [st2|] eqn:Edf; cbn [accepted] in H2; [|discriminate H2].
              destruct (declare_static_ok_inv _ _ _ _ Edf) as [-> [F3 [F4 [F5 _]]]]. cbn [bind].
              assert (Ecd1 : check_decl (tree_state c d st) (WNode (CTree d)) p RStatic = Ok true).
              { unfold check_decl. cbn [claims tree_state]. now rewrite (lookup_handover_none d _ p F5). }
              rewrite Ecd1. cbn [bind]. rewrite declare_file_tree_static. unfold static_tail.
              rewrite F3, F4. cbn [claims tree_state]. rewrite (lookup_handover_none d _ p F5).
              rewrite (Hafter _ F5).
              assert (Hoff : offending c (p, mkClaim RStatic c) = false).
              { unfold offending. cbn. now rewrite creator_eqb_refl. }
              rewrite Hoff. cbn [andb both].
              unfold set_claim, tree_state, handover. cbn [claims loose trees steps globs map fst snd c_role].
              now rewrite Edp.
           ++ cbn [bind]. rewrite step_tree, register_tree_decide, ED. fold d.
              rewrite Hloose, declare_static_files_nil.
              pose proof (check_decl_false_held _ _ _ _ Ecd) as Hin.
              assert (Ecd1 : check_decl (tree_state c d st) (WNode (CTree d)) p RStatic = Ok false).
              { unfold check_decl. cbn [claims tree_state].
                rewrite (lookup_handover_under d _ p _ (inv_uniq _ _ _ HI) Hin Edp). cbn [c_role c_by].
                now rewrite creator_eqb_refl. }
              rewrite Ecd1. reflexivity.
        -- (* another creator: rejected with the tree/file message in both orders *)
           cbn [bind].
           assert (Hoff : offending c (p, mkClaim RStatic c2) = true).
           { unfold offending. cbn. destruct (creator_eqb c2 c) eqn:E; [|reflexivity].
             apply creator_eqb_eq in E. subst. now rewrite creator_eqb_refl in Ecc. }
           destruct b.
           ++ destruct (declare_file false c2 RStatic st p) as [st2|] eqn:Edf; cbn [accepted] in H2; [|discriminate H2].
              destruct (declare_static_ok_inv _ _ _ _ Edf) as [-> [F3 [F4 [F5 _]]]]. cbn [bind].
              rewrite (Hafter _ F5), Hoff. reflexivity.
           ++ exfalso. pose proof (check_decl_false_held _ _ _ _ Ecd) as Hin.
              assert (Hu : In (p, mkClaim RStatic c2) (filter (fun pc => is_prefix d (fst pc)) (claims st))).
              { apply filter_In. split; auto. }
              pose proof (filter_nil _ _ Hnooff _ Hu) as Hf. congruence.
      * (* p is not under the new tree: independent *)
        rewrite (find_owner_tree_state_not_under c d st p Edp), Hnone. cbn [bind].
        destruct b.
        -- destruct (declare_file false c2 RStatic st p) as [st2|] eqn:Edf; cbn [accepted] in H2; [|discriminate H2].
           destruct (declare_static_ok_inv _ _ _ _ Edf) as [-> [F3 [F4 [F5 _]]]]. cbn [bind].
           assert (Ecd1 : check_decl (tree_state c d st) (WNode c2) p RStatic = Ok true).
           { unfold check_decl. cbn [claims tree_state]. now rewrite (lookup_handover_none d _ p F5). }
           rewrite Ecd1. cbn [bind].
           rewrite (declare_file_nontree_static c2 _ p Hc2)
             by (now rewrite (find_owner_tree_state_not_under c d st p Edp)).
           unfold static_tail. rewrite F3, F4. cbn [claims tree_state]. rewrite (lookup_handover_none d _ p F5).
           rewrite (Hafter _ F5). cbn [andb both].
           unfold set_claim, tree_state, handover. cbn [claims loose trees steps globs map fst snd].
           now rewrite Edp.
        -- cbn [bind]. rewrite step_tree, register_tree_decide, ED. fold d.
           rewrite Hloose, declare_static_files_nil.
           pose proof (check_decl_false_held _ _ _ _ Ecd) as Hin.
           assert (Ecd1 : check_decl (tree_state c d st) (WNode c2) p RStatic = Ok false).
           { apply check_decl_held.
             - cbn [claims tree_state]. rewrite handover_keys. apply (inv_uniq _ _ _ HI).
             - cbn [claims tree_state]. now apply handover_keep. }
           rewrite Ecd1. reflexivity.
    + (* an existing tree t of the same creator owns p: the new tree cannot contain p *)
      destruct (find_owner_some _ _ _ _ _ Hsome) as [Hint Htp]. unfold probe in Htp.
      assert (Edp : is_prefix d p = false).
      { destruct (is_prefix d p) eqn:E; [|reflexivity]. exfalso.
        destruct (prefix_comparable _ _ _ Htp E) as [Hx|Hx].
        - pose proof (find_owner_none _ _ _ Hown t (in_tree_labels _ _ _ Hint)) as Hy.
          unfold probe in Hy. congruence.
        - assert (existsb (fun tc : str * creator => is_prefix d (fst tc)) (trees st) = true).
          { apply existsb_exists. exists (t, c2). auto. }
          congruence. }
      rewrite (find_owner_tree_state_not_under c d st p Edp), Hsome. cbn [bind].
      rewrite creator_eqb_refl. cbn [bind].
      destruct b.
      * destruct (declare_file false (CTree t) RStatic st p) as [st2|] eqn:Edf; cbn [accepted] in H2; [|discriminate H2].
        destruct (declare_static_ok_inv _ _ _ _ Edf) as [-> [F3 [F4 [F5 _]]]]. cbn [bind].
        assert (Ecd1 : check_decl (tree_state c d st) (WNode (CTree t)) p RStatic = Ok true).
        { unfold check_decl. cbn [claims tree_state]. now rewrite (lookup_handover_none d _ p F5). }
        rewrite Ecd1. cbn [bind]. rewrite declare_file_tree_static. unfold static_tail.
        rewrite F3, F4. cbn [claims tree_state]. rewrite (lookup_handover_none d _ p F5).
        rewrite (Hafter _ F5), Edp. cbn [andb both].
        unfold set_claim, tree_state, handover. cbn [claims loose trees steps globs map fst snd].
        now rewrite Edp.
      * cbn [bind]. rewrite step_tree, register_tree_decide, ED. fold d.
        rewrite Hloose, declare_static_files_nil.
        pose proof (check_decl_false_held _ _ _ _ Ecd) as Hin.
        assert (Ecd1 : check_decl (tree_state c d st) (WNode (CTree t)) p RStatic = Ok false).
        { apply check_decl_held.
          - cbn [claims tree_state]. rewrite handover_keys. apply (inv_uniq _ _ _ HI).
          - cbn [claims tree_state]. now apply handover_keep. }
        rewrite Ecd1. reflexivity.
Qed.

End Commute4.

Section Commute5.

Variable gm : str -> str -> bool.

Lemma glob_check_app gs1 gs2 lbl ps :
  glob_check gm (gs1 ++ gs2) lbl ps =
  match glob_check gm gs1 lbl ps with Ok _ => glob_check gm gs2 lbl ps | Err m => Err m end.
Proof.
  induction gs1 as [|g gs IH]; cbn; [reflexivity|].
  destruct (find_first (gm (g_key g)) ps); [reflexivity|]. exact IH.
Qed.

Definition prodf (pat : str) (pc : str * claim) : bool :=
  negb (role_eqb (c_role (snd pc)) RStatic) && gm pat (fst pc).

(* register_nglob when it scans the products (gr = true) *)
Definition glob_sem (s pat : str) (subs : subs_t) (ms : list str) (st : state) : res state :=
  bind (require_step st (CStep s)) (fun _ =>
  let ms' := sort_uniq (filter (gm (gkey pat subs)) ms) in
  match min_entry (filter (prodf (gkey pat subs)) (claims st)) with
  | Some (p, cl) => Err (MGlobProduct pat s p (creator_label (c_by cl)))
  | None =>
      match find_first (is_prefix stepup_prefix) ms' with
      | Some p => Err (MStepupGlob pat p)
      | None => Ok (mkState (claims st) (loose st) (trees st) (steps st)
                            (globs st ++ [mkGlob s pat subs ms']) (sinks st))
      end
  end).

Lemma glob_spec ow s pat subs ms st : step gm ow true st (RqGlob s pat subs ms) = glob_sem s pat subs ms st.
Proof. reflexivity. Qed.

(* Glob pattern versus amended output / volatile output, for the variant of register_nglob that
   scans the products (the repair of D3): rejected in both orders with the same structured
   message (iff the regex matches the product), or accepted in both orders with the same state. *)
Theorem glob_product_commute st sg pat subs ms s r p :
  Inv gm true st -> product_role r = true ->
  accepted (step gm false true st (RqGlob sg pat subs ms)) = true ->
  accepted (step gm false true st (amend1 s r p)) = true ->
  both (run gm false true st [RqGlob sg pat subs ms; amend1 s r p])
       (run gm false true st [amend1 s r p; RqGlob sg pat subs ms]).
Proof.
  intros HI Hr H1 H2. rewrite !run2. rewrite (amend1_spec gm true s r p st Hr) in *.
  rewrite !glob_spec in *.
  assert (Hnr : role_eqb r RStatic = false) by (destruct r; try discriminate; reflexivity).
  (* the pattern on st *)
  unfold glob_sem in H1 at 1.
  destruct (require_step st (CStep sg)) as [[]|] eqn:Erg; cbn [bind accepted] in H1; [|discriminate H1].
  cbv zeta in H1.
  destruct (min_entry (filter (prodf (gkey pat subs)) (claims st))) as [[q cq]|] eqn:Emin; [cbn in H1; discriminate H1|].
  destruct (find_first (is_prefix stepup_prefix) (sort_uniq (filter (gm (gkey pat subs)) ms))) eqn:Esu;
    [cbn in H1; discriminate H1|].
  apply min_entry_none in Emin.
  set (g := mkGlob sg pat subs (sort_uniq (filter (gm (gkey pat subs)) ms))) in *.
  set (stg := mkState (claims st) (loose st) (trees st) (steps st) (globs st ++ [g]) (sinks st)).
  assert (Hg : glob_sem sg pat subs ms st = Ok stg).
  { unfold glob_sem. rewrite Erg. cbn [bind]. cbv zeta. rewrite Emin. cbn [min_entry]. rewrite Esu. reflexivity. }
  rewrite Hg. cbn [bind].
  (* the amendment on st *)
  unfold amend1_sem in H2 at 1.
  destruct (require_step st (CStep s)) as [[]|] eqn:Ers; cbn [bind accepted] in H2; [|discriminate H2].
  destruct (check_decl st (WNode (CStep s)) p r) as [b|] eqn:Ecd; cbn [bind accepted] in H2; [|discriminate H2].
  rewrite (amend1_spec gm true s r p stg Hr).
  unfold amend1_sem.
  change (require_step stg (CStep s)) with (require_step st (CStep s)).
  change (check_decl stg (WNode (CStep s)) p r) with (check_decl st (WNode (CStep s)) p r).
  rewrite Ers, Ecd. cbn [bind].
  destruct b.
  - (* a new product *)
    destruct (glob_check gm (globs st) s [p]) as [[]|] eqn:Egc; cbn [bind accepted] in H2; [|discriminate H2].
    destruct (declare_file false (CStep s) r st p) as [st2|] eqn:Edf; cbn [accepted] in H2; [|discriminate H2].
    destruct (declare_file_ok_inv _ _ _ _ _ (step_not_tree s) Edf) as [-> [F1 [F2 [F3 [F4 [F5 F6]]]]]].
    cbn [bind]. cbn [globs stg]. rewrite glob_check_app, Egc.
    cbn [glob_check g_pat g_step g find_first]. unfold g_key. cbn [g_pat g_subs g].
    rewrite glob_spec. unfold glob_sem.
    change (require_step (set_claim st p (mkClaim r (CStep s))) (CStep sg)) with (require_step st (CStep sg)).
    rewrite Erg. cbn [bind]. cbv zeta. cbn [claims set_claim filter]. unfold prodf at 1. cbn [fst snd c_role].
    rewrite Hnr. cbn [negb andb].
    destruct (gm (gkey pat subs) p) eqn:Em.
    + (* the regex matches the product: rejected in both orders, same message *)
      rewrite Emin. cbn [min_entry c_by creator_label both]. reflexivity.
    + rewrite Emin. cbn [min_entry bind]. rewrite Esu.
      (* declare_file does not look at the globs *)
      unfold declare_file in *. rewrite F1 in *. cbn [bind] in *.
      change (find_owner false stg p) with (find_owner false st p). rewrite F2. cbn [bind].
      rewrite F3, F4. cbn [claims stg]. rewrite F5. cbn [loose stg]. rewrite F6.
      cbn [both]. reflexivity.
  - (* the product is already held: the scan of the pattern already passed it *)
    cbn [bind]. rewrite glob_spec, Hg. reflexivity.
Qed.

End Commute5.

(* Nested static trees of ONE creator: parent first makes the child a no-op, child first makes the
   parent an error ("parent directory of an existing static tree"); documented in
   DirectorHandler.declare_static and asserted by tests/test_workflow.py::test_static_tree_subdir. *)
Lemma same_creator_nested_trees_refuted :
  let r1 := RqTree (CStep w_B) w_d in
  let r2 := RqTree (CStep w_B) (w_d ++ s2l "/sub"%string)%list in
  accepted (step w_gm false false w_boot r1) = true /\ accepted (step w_gm false false w_boot r2) = true /\
  accepted (run w_gm false false w_boot [r1; r2]) = true /\
  run w_gm false false w_boot [r2; r1] = Err (MTreeParent (w_d ++ [47])%list).
Proof. vm_compute. repeat split; reflexivity. Qed.

(* ------------------------------------------------------------------------------------------ *)
(* 3c. One declaration of one path, uniformly: static file, amended output, amended volatile    *)
(* ------------------------------------------------------------------------------------------ *)

Section Commute6.

Variable gm : str -> str -> bool.
Variable gr : bool.

Record decl1 := mkDecl1 {
  d1_cr : creator;                    (* the requesting step *)
  d1_dclf : state -> res creator;     (* the declaring node it settles on (depends on the trees) *)
  d1_r : role;
  d1_gl : option str;                 (* Some label: _raise_if_glob_match is consulted *)
  d1_p : str
}.

Definition one_sem (D : decl1) (st : state) : res state :=
  bind (require_step st (d1_cr D)) (fun _ =>
  bind (d1_dclf D st) (fun dcl =>
  bind (check_decl st (WNode dcl) (d1_p D) (d1_r D)) (fun is_new =>
  if is_new
  then bind (match d1_gl D with Some lbl => glob_check gm (globs st) lbl [d1_p D] | None => Ok tt end)
            (fun _ => declare_file false dcl (d1_r D) st (d1_p D))
  else Ok st))).

Definition wf1 (D : decl1) : Prop :=
  (forall st q cl, d1_dclf D (set_claim st q cl) = d1_dclf D st) /\
  (forall st t, (forall t', d1_cr D <> CTree t') -> d1_dclf D st = Ok (CTree t) ->
                d1_r D = RStatic /\ find_owner false st (d1_p D) = Ok (Some (t, d1_cr D))).

Definition D_amend (s : str) (r : role) (p : str) : decl1 :=
  mkDecl1 (CStep s) (fun _ => Ok (CStep s)) r (Some s) p.

Definition D_static (c2 : creator) (p : str) : decl1 :=
  mkDecl1 c2 (fun st => static_declarer false c2 st p) RStatic None p.

Lemma D_amend_wf s r p : wf1 (D_amend s r p).
Proof. split; cbn; [reflexivity|]. intros st t _ H. discriminate H. Qed.

Lemma D_static_wf c2 p : wf1 (D_static c2 p).
Proof.
  split; cbn.
  - intros st q cl. unfold static_declarer.
    change (find_owner false (set_claim st q cl) p) with (find_owner false st p). reflexivity.
  - intros st t Hc H. split; [reflexivity|].
    destruct (static_declarer_cases _ _ _ _ H) as [[E _]|[t' [E [Hs _]]]].
    + exfalso. eapply Hc. eauto.
    + inversion E; subst. exact Hs.
Qed.

Lemma D_amend_spec s r p st :
  product_role r = true -> step gm false gr st (amend1 s r p) = one_sem (D_amend s r p) st.
Proof. intros Hr. rewrite amend1_spec by assumption. reflexivity. Qed.

Lemma D_static_spec c2 p st : step gm false gr st (RqStatic c2 [p]) = one_sem (D_static c2 p) st.
Proof.
  rewrite (static1_spec gm gr). unfold static1_sem, one_sem. cbn [D_static d1_cr d1_dclf d1_p d1_r d1_gl].
  destruct (require_step st c2); cbn [bind]; [|reflexivity].
  destruct (static_declarer false c2 st p); cbn [bind]; [|reflexivity].
  destruct (check_decl st (WNode a0) p RStatic) as [[|]|]; reflexivity.
Qed.

Lemma declare_file_ok_gen c0 r st p st2 :
  declare_file false c0 r st p = Ok st2 ->
  st2 = set_claim st p (mkClaim r c0) /\ lookup p (claims st) = None /\
  ((forall t, c0 <> CTree t) -> find_owner false st p = Ok None).
Proof.
  intros H. unfold declare_file in H.
  destruct (role_eqb r RVolatile && ends_with_c SLASH p); [discriminate|].
  destruct c0 as [|l|t]; cbn [bind] in H.
  - dres H. apply owner_guard_ok in E. inversion H. auto.
  - dres H. apply owner_guard_ok in E. inversion H. auto.
  - dres H. inversion H. repeat split; auto. intros Hc. exfalso. eapply Hc; eauto.
Qed.

Lemma declare_file_set_claim_other_gen c0 r st p cl q :
  q <> p ->
  declare_file false c0 r (set_claim st p cl) q =
  match declare_file false c0 r st q with
  | Ok _ => Ok (set_claim (set_claim st p cl) q (mkClaim r c0))
  | Err m => Err m
  end.
Proof.
  intros Hne. unfold declare_file.
  destruct (role_eqb r RVolatile && ends_with_c SLASH q); [reflexivity|].
  change (find_owner false (set_claim st p cl) q) with (find_owner false st q).
  assert (Htail : forall k,
    (if is_prefix stepup_prefix q then Err (MStepupFile q) else
     match bad_name q with Some m => Err m | None =>
     match lookup q (claims (set_claim st p cl)) with
     | Some _ => Err (MNodeExists (s2l "file:" ++ q))
     | None => if role_eqb r RVolatile && mem_str q (loose (set_claim st p cl)) then match phrase_of k with Ok ph => Err (MVolInput q ph (phrase_step (first_consumer st q))) | Err m => Err m end
               else Ok (set_claim (set_claim st p cl) q (mkClaim r k)) end end) =
    match (if is_prefix stepup_prefix q then Err (MStepupFile q) else
     match bad_name q with Some m => Err m | None =>
     match lookup q (claims st) with
     | Some _ => Err (MNodeExists (s2l "file:" ++ q))
     | None => if role_eqb r RVolatile && mem_str q (loose st) then match phrase_of k with Ok ph => Err (MVolInput q ph (phrase_step (first_consumer st q))) | Err m => Err m end
               else Ok (set_claim st q (mkClaim r k)) end end) with
    | Ok _ => Ok (set_claim (set_claim st p cl) q (mkClaim r k)) | Err m => Err m end).
  { intros k. destruct (is_prefix stepup_prefix q); [reflexivity|]. destruct (bad_name q); [reflexivity|].
    rewrite (lookup_set_claim_other st p cl q Hne). destruct (lookup q (claims st)); [reflexivity|].
    cbn [loose set_claim]. rewrite (mem_remove_other p q _ Hne).
    destruct (role_eqb r RVolatile && mem_str q (loose st)); [destruct (phrase_of k); reflexivity|reflexivity]. }
  destruct c0 as [|l|t]; cbn [bind].
  - destruct (find_owner false st q) as [[[t tc]|]|m]; cbn [bind].
    + destruct (role_eqb r RStatic); reflexivity.
    + apply Htail.
    + reflexivity.
  - destruct (find_owner false st q) as [[[t tc]|]|m]; cbn [bind].
    + destruct (role_eqb r RStatic); reflexivity.
    + apply Htail.
    + reflexivity.
  - apply Htail.
Qed.

Lemma one_accepted D st :
  accepted (one_sem D st) = true ->
  require_step st (d1_cr D) = Ok tt /\
  exists dcl, d1_dclf D st = Ok dcl /\
  ((check_decl st (WNode dcl) (d1_p D) (d1_r D) = Ok false /\ one_sem D st = Ok st) \/
   (check_decl st (WNode dcl) (d1_p D) (d1_r D) = Ok true /\
    (match d1_gl D with Some lbl => glob_check gm (globs st) lbl [d1_p D] | None => Ok tt end) = Ok tt /\
    declare_file false dcl (d1_r D) st (d1_p D) = Ok (set_claim st (d1_p D) (mkClaim (d1_r D) dcl)) /\
    one_sem D st = Ok (set_claim st (d1_p D) (mkClaim (d1_r D) dcl)))).
Proof.
  unfold one_sem. destruct (require_step st (d1_cr D)) as [[]|]; cbn [bind accepted]; [|discriminate].
  destruct (d1_dclf D st) as [dcl|] eqn:Ed; cbn [bind accepted]; [|discriminate].
  destruct (check_decl st (WNode dcl) (d1_p D) (d1_r D)) as [[|]|] eqn:Ec; cbn [bind accepted]; [| |discriminate].
  - destruct (match d1_gl D with Some lbl => glob_check gm (globs st) lbl [d1_p D] | None => Ok tt end)
      as [[]|] eqn:Eg; cbn [bind accepted]; [|discriminate].
    destruct (declare_file false dcl (d1_r D) st (d1_p D)) as [st2|] eqn:E; cbn [accepted]; [|discriminate].
    intros _. destruct (declare_file_ok_gen _ _ _ _ _ E) as [-> _].
    split; [reflexivity|]. exists dcl. split; [reflexivity|]. right. repeat split; auto.
  - intros _. split; [reflexivity|]. exists dcl. split; [reflexivity|]. left. auto.
Qed.

Lemma require_nontree st c : require_step st c = Ok tt -> forall t, c <> CTree t.
Proof. intros H t ->. unfold require_step in H. cbn in H. discriminate H. Qed.

(* Any two single-path declarations (static file / amended output / amended volatile output), any
   creators, any paths: both orders rejected with the same structured message, or both accepted
   with equal states (up to the order of the claim table). *)
Theorem one_one_commute st A B :
  Inv gm gr st -> wf1 A -> wf1 B ->
  accepted (one_sem A st) = true -> accepted (one_sem B st) = true ->
  both_equiv (bind (one_sem A st) (one_sem B)) (bind (one_sem B st) (one_sem A)).
Proof.
  intros HI [FA TA] [FB TB] HA HB.
  destruct (one_accepted _ _ HA) as [QA [da [EA [[CA SA]|[CA [GA [DA SA]]]]]]];
  destruct (one_accepted _ _ HB) as [QB [db [EB [[CB SB]|[CB [GB [DB SB]]]]]]];
  rewrite SA, SB; cbn [bind].
  - rewrite SA, SB. apply state_equiv_refl.
  - (* A held, B new *)
    rewrite SB.
    assert (Hne : d1_p A <> d1_p B).
    { intros E. apply check_decl_true_none in CB. apply check_decl_false_held in CA.
      apply (lookup_in_nodup _ _ _ (inv_uniq _ _ _ HI)) in CA. rewrite E in CA. congruence. }
    unfold one_sem.
    change (require_step (set_claim st (d1_p B) (mkClaim (d1_r B) db)) (d1_cr A)) with (require_step st (d1_cr A)).
    rewrite QA, FA, EA. cbn [bind]. rewrite check_decl_set_claim_other by assumption. rewrite CA.
    apply state_equiv_refl.
  - (* A new, B held *)
    rewrite SA.
    assert (Hne : d1_p B <> d1_p A).
    { intros E. apply check_decl_true_none in CA. apply check_decl_false_held in CB.
      apply (lookup_in_nodup _ _ _ (inv_uniq _ _ _ HI)) in CB. rewrite E in CB. congruence. }
    unfold one_sem.
    change (require_step (set_claim st (d1_p A) (mkClaim (d1_r A) da)) (d1_cr B)) with (require_step st (d1_cr B)).
    rewrite QB, FB, EB. cbn [bind]. rewrite check_decl_set_claim_other by assumption. rewrite CB.
    apply state_equiv_refl.
  - (* both new *)
    unfold one_sem.
    change (require_step (set_claim st (d1_p A) (mkClaim (d1_r A) da)) (d1_cr B)) with (require_step st (d1_cr B)).
    change (require_step (set_claim st (d1_p B) (mkClaim (d1_r B) db)) (d1_cr A)) with (require_step st (d1_cr A)).
    rewrite QA, QB, FA, FB, EA, EB. cbn [bind].
    destruct (str_eqb (d1_p A) (d1_p B)) eqn:Ep.
    + apply str_eqb_eq in Ep. set (p := d1_p A) in *. rewrite <- Ep in *.
      unfold check_decl. cbn [claims set_claim lookup]. rewrite str_eqb_refl. cbn [c_role c_by].
      destruct (role_eqb (d1_r A) (d1_r B) && creator_eqb da db) eqn:Esame.
      * apply andb_true_iff in Esame as [Ea Eb]. apply role_eqb_eq in Ea. apply creator_eqb_eq in Eb.
        rewrite <- Ea, <- Eb. rewrite role_eqb_refl, creator_eqb_refl. cbn [andb bind both_equiv].
        apply state_equiv_refl.
      * assert (Esame' : role_eqb (d1_r B) (d1_r A) && creator_eqb db da = false).
        { destruct (role_eqb (d1_r B) (d1_r A) && creator_eqb db da) eqn:E; [|reflexivity].
          apply andb_true_iff in E as [Ea Eb]. apply role_eqb_eq in Ea. apply creator_eqb_eq in Eb.
          rewrite Ea, Eb, role_eqb_refl, creator_eqb_refl in Esame. discriminate Esame. }
        rewrite Esame'.
        (* neither declarer is a tree *)
        destruct (declare_file_ok_gen _ _ _ _ _ DA) as [_ [_ OA]].
        destruct (declare_file_ok_gen _ _ _ _ _ DB) as [_ [_ OB]].
        pose proof (require_nontree _ _ QA) as NA. pose proof (require_nontree _ _ QB) as NB.
        assert (HnA : forall t, da <> CTree t).
        { intros t ->. destruct (TA st t NA EA) as [RA OwnA].
          destruct db as [| |t'].
          - rewrite (OB ltac:(intros; discriminate)) in OwnA. discriminate OwnA.
          - rewrite (OB ltac:(intros; discriminate)) in OwnA. discriminate OwnA.
          - destruct (TB st t' NB EB) as [RB OwnB]. rewrite OwnB in OwnA. inversion OwnA; subst.
            rewrite RA, RB in Esame. cbn in Esame. rewrite str_eqb_refl in Esame. discriminate Esame. }
        assert (HnB : forall t, db <> CTree t).
        { intros t ->. destruct (TB st t NB EB) as [RB OwnB].
          rewrite (OA HnA) in OwnB. discriminate OwnB. }
        assert (exists dA, decl_of_node (d1_r A) da = Ok dA) as [dA HdA].
        { destruct da; [eexists; reflexivity|eexists; reflexivity|exfalso; eapply HnA; eauto]. }
        assert (exists dB, decl_of_node (d1_r B) db = Ok dB) as [dB HdB].
        { destruct db; [eexists; reflexivity|eexists; reflexivity|exfalso; eapply HnB; eauto]. }
        rewrite HdA, HdB. cbn [bind both_equiv].
        now apply collision_message_symmetric.
    + assert (Hne : d1_p A <> d1_p B) by (now apply str_eqb_false).
      assert (Hne' : d1_p B <> d1_p A) by congruence.
      rewrite !check_decl_set_claim_other by assumption. rewrite CA, CB. cbn [bind].
      change (globs (set_claim st (d1_p A) (mkClaim (d1_r A) da))) with (globs st).
      change (globs (set_claim st (d1_p B) (mkClaim (d1_r B) db))) with (globs st).
      rewrite GA, GB. cbn [bind].
      rewrite !declare_file_set_claim_other_gen by assumption.
      rewrite DA, DB. cbn [both_equiv]. now apply set_claim_swap.
Qed.

(* Instances at request level. *)
Lemma bind_ext {A B} (x : res A) (f g : A -> res B) : (forall a, f a = g a) -> bind x f = bind x g.
Proof. intros H. destruct x; cbn; auto. Qed.

Theorem static_static_commute st c1 p1 c2 p2 :
  Inv gm gr st ->
  accepted (step gm false gr st (RqStatic c1 [p1])) = true ->
  accepted (step gm false gr st (RqStatic c2 [p2])) = true ->
  both_equiv (run gm false gr st [RqStatic c1 [p1]; RqStatic c2 [p2]])
             (run gm false gr st [RqStatic c2 [p2]; RqStatic c1 [p1]]).
Proof.
  intros HI H1 H2. rewrite !run2.
  rewrite (bind_ext _ _ (one_sem (D_static c2 p2)) (fun s => D_static_spec c2 p2 s)).
  rewrite (bind_ext _ _ (one_sem (D_static c1 p1)) (fun s => D_static_spec c1 p1 s)).
  rewrite !D_static_spec in *.
  apply one_one_commute; auto using D_static_wf.
Qed.

Theorem static_product_commute st c1 p1 s r p2 :
  Inv gm gr st -> product_role r = true ->
  accepted (step gm false gr st (RqStatic c1 [p1])) = true ->
  accepted (step gm false gr st (amend1 s r p2)) = true ->
  both_equiv (run gm false gr st [RqStatic c1 [p1]; amend1 s r p2])
             (run gm false gr st [amend1 s r p2; RqStatic c1 [p1]]).
Proof.
  intros HI Hr H1 H2. rewrite !run2.
  rewrite (bind_ext _ _ (one_sem (D_amend s r p2)) (fun st' => D_amend_spec s r p2 st' Hr)).
  rewrite (bind_ext _ _ (one_sem (D_static c1 p1)) (fun s => D_static_spec c1 p1 s)).
  rewrite D_static_spec in *. rewrite (D_amend_spec s r p2 st Hr) in *.
  apply one_one_commute; auto using D_static_wf, D_amend_wf.
Qed.

End Commute6.

(* ------------------------------------------------------------------------------------------ *)
(* 3d. define_step with one product versus a static tree                                       *)
(* ------------------------------------------------------------------------------------------ *)

Section Commute7.

Variable gm : str -> str -> bool.
Variable gr : bool.

(* define_step(creator, label, out_paths=[p]) / (..., vol_paths=[p]) *)
Definition define1 (c : creator) (lbl : str) (r : role) (p : str) : req :=
  match r with RVolatile => RqDefine c lbl [] [] [p] | _ => RqDefine c lbl [] [p] [] end.

Definition add_step (st : state) (lbl : str) (c : creator) : state :=
  mkState (claims st) (loose st) (trees st) ((lbl, c) :: steps st) (globs st) (sinks st).

Definition dup_guard (c : creator) (lbl : str) (st : state) : res unit :=
  match lookup lbl (steps st) with
  | None => Ok tt
  | Some c0 =>
      match phrase_of c0, phrase_of c with
      | Ok a, Ok b => let (c1, c2) := sort2_str a b in Err (MDupStep lbl c1 c2)
      | Err m, _ => Err m
      | _, Err m => Err m
      end
  end.

Definition chain_guard (c : creator) (lbl : str) (st : state) : bool :=
  match c with CStep l => is_ancestor (List.length (steps st)) (steps st) l lbl | _ => false end.

Definition define1_sem (c : creator) (lbl : str) (r : role) (p : str) (st : state) : res state :=
  bind (require_step st c) (fun _ =>
  if creator_eqb c CRoot && existsb (fun sc => creator_eqb (snd sc) CRoot) (steps st) then Err MBoot else
  if creator_eqb c (CStep lbl) then Err (MSelfDefine lbl) else
  if chain_guard c lbl st then Err (MDefineCreator (creator_label c) lbl) else
  bind (glob_check gm (globs st) lbl [p]) (fun _ =>
  bind (dup_guard c lbl st) (fun _ =>
  bind (check_decl st (WPhrase (phrase_step lbl)) p r) (fun _ =>
  declare_file false (CStep lbl) r (add_step st lbl c) p)))).

Lemma define1_spec c lbl r p st :
  product_role r = true -> step gm false gr st (define1 c lbl r p) = define1_sem c lbl r p st.
Proof.
  intros Hr. destruct r; try discriminate; cbn [define1 step]; unfold define_step, define1_sem;
    destruct (require_step st c); cbn [bind]; try reflexivity;
    destruct (creator_eqb c CRoot && existsb (fun sc => creator_eqb (snd sc) CRoot) (steps st)); try reflexivity;
    cbn [sort_uniq fold_right insert_uniq dir_inputs find_first fold_res bind check_all app];
    destruct (creator_eqb c (CStep lbl)); try reflexivity;
    fold (chain_guard c lbl st); destruct (chain_guard c lbl st); try reflexivity;
    destruct (glob_check gm (globs st) lbl [p]); cbn [bind]; try reflexivity;
    unfold dup_guard; destruct (lookup lbl (steps st)) as [c0|]; cbn [bind].
  - destruct (phrase_of c0) as [x|]; [destruct (phrase_of c) as [y|]|]; try reflexivity.
    destruct (sort2_str x y); reflexivity.
  - destruct (check_decl st (WPhrase (phrase_step lbl)) p ROutput) as [b|]; cbn [bind]; [|reflexivity].
    cbn [overlap_check find_first mem_str bind]. fold (add_step st lbl c).
    destruct (declare_file false (CStep lbl) ROutput (add_step st lbl c) p); reflexivity.
  - destruct (phrase_of c0) as [x|]; [destruct (phrase_of c) as [y|]|]; try reflexivity.
    destruct (sort2_str x y); reflexivity.
  - destruct (check_decl st (WPhrase (phrase_step lbl)) p RVolatile) as [b|]; cbn [bind]; [|reflexivity].
    cbn [overlap_check find_first mem_str bind]. fold (add_step st lbl c).
    destruct (declare_file false (CStep lbl) RVolatile (add_step st lbl c) p); reflexivity.
Qed.

Lemma require_add_step st lbl c2 c :
  require_step st c = Ok tt -> require_step (add_step st lbl c2) c = Ok tt.
Proof.
  unfold require_step, step_exists. destruct c as [|l|t]; cbn [steps add_step lookup]; auto.
  destruct (str_eqb l lbl); [reflexivity|auto].
Qed.

Lemma tree_decide_add_step c path st lbl c2 :
  require_step st c = Ok tt -> tree_decide c path (add_step st lbl c2) = tree_decide c path st.
Proof.
  intros H. unfold tree_decide. rewrite (require_add_step st lbl c2 c H), H. reflexivity.
Qed.

Lemma tree_decide_require c path st : tree_decide c path st <> TErr (MNoSuchStep (creator_label c)) -> True.
Proof. auto. Qed.

Lemma tree_decide_ok_require c path st :
  (tree_decide c path st = TNoop \/ tree_decide c path st = TNew) -> require_step st c = Ok tt.
Proof.
  unfold tree_decide. destruct (require_step st c) as [[]|]; [reflexivity|]. intros [H|H]; discriminate H.
Qed.

Theorem tree_define_commute st c path c2 lbl r p :
  Inv gm gr st -> product_role r = true ->
  filter (is_prefix (with_slash path)) (loose st) = [] ->
  accepted (step gm false gr st (RqTree c path)) = true ->
  accepted (step gm false gr st (define1 c2 lbl r p)) = true ->
  both (run gm false gr st [RqTree c path; define1 c2 lbl r p])
       (run gm false gr st [define1 c2 lbl r p; RqTree c path]).
Proof.
  intros HI Hr Hloose H1 H2. rewrite !run2. rewrite (define1_spec c2 lbl r p st Hr) in *.
  rewrite (step_tree gm gr) in H1. rewrite (step_tree gm gr). rewrite (register_tree_decide c path st) in *.
  set (d := with_slash path) in *.
  assert (Hnr : role_eqb r RStatic = false) by (destruct r; try discriminate; reflexivity).
  (* the definition on st *)
  unfold define1_sem in H2 at 1.
  destruct (require_step st c2) as [[]|] eqn:Ers; cbn [bind accepted] in H2; [|discriminate H2].
  destruct (creator_eqb c2 CRoot && existsb (fun sc => creator_eqb (snd sc) CRoot) (steps st)) eqn:Eboot;
    [cbn in H2; discriminate H2|].
  destruct (creator_eqb c2 (CStep lbl)) eqn:Eself; [cbn in H2; discriminate H2|].
  destruct (chain_guard c2 lbl st) eqn:Echain; [cbn in H2; discriminate H2|].
  destruct (glob_check gm (globs st) lbl [p]) as [[]|] eqn:Egc; cbn [bind accepted] in H2; [|discriminate H2].
  destruct (dup_guard c2 lbl st) as [[]|] eqn:Edup; cbn [bind accepted] in H2; [|discriminate H2].
  destruct (check_decl st (WPhrase (phrase_step lbl)) p r) as [b|] eqn:Ecd; cbn [bind accepted] in H2; [|discriminate H2].
  destruct (declare_file false (CStep lbl) r (add_step st lbl c2) p) as [st2|] eqn:Edf; cbn [accepted] in H2; [|discriminate H2].
  destruct (declare_file_ok_inv _ _ _ _ _ (step_not_tree lbl) Edf) as [-> [F1 [F2 [F3 [F4 [F5 F6]]]]]].
  assert (Hsem : define1_sem c2 lbl r p st =
                 Ok (set_claim (add_step st lbl c2) p (mkClaim r (CStep lbl)))).
  { unfold define1_sem. rewrite Ers. cbn [bind]. rewrite Eboot, Eself, Echain, Egc. cbn [bind]. rewrite Edup. cbn [bind].
    rewrite Ecd. cbn [bind]. exact Edf. }
  rewrite Hsem. cbn [bind]. rewrite (step_tree gm gr), register_tree_decide.
  destruct (tree_decide c path st) eqn:ED; [| |cbn in H1; discriminate H1].
  - (* the tree request is a no-op *)
    cbn [bind]. rewrite (define1_spec c2 lbl r p st Hr), Hsem.
    rewrite (tree_decide_noop_set_claim c path (add_step st lbl c2) p _).
    + reflexivity.
    + rewrite tree_decide_add_step; [exact ED|]. apply (tree_decide_ok_require c path). auto.
  - (* a new tree *)
    fold d. rewrite Hloose, declare_static_files_nil. cbn [bind].
    rewrite (define1_spec c2 lbl r p _ Hr).
    assert (Hreq : require_step st c = Ok tt) by (apply (tree_decide_ok_require c path); auto).
    assert (ED' : tree_decide c path (add_step st lbl c2) = TNew) by (now rewrite tree_decide_add_step).
    rewrite (tree_decide_new_set_claim c path (add_step st lbl c2) p _ ED'). fold d.
    assert (Hoff : offending c (p, mkClaim r (CStep lbl)) = true).
    { unfold offending. cbn. now rewrite Hnr. }
    rewrite Hoff, andb_true_r. cbn [c_role]. rewrite Hnr. cbn [negb].
    (* the definition on the state with the tree *)
    unfold define1_sem.
    change (require_step (tree_state c d st) c2) with (require_step st c2).
    change (steps (tree_state c d st)) with (steps st).
    change (globs (tree_state c d st)) with (globs st).
    change (dup_guard c2 lbl (tree_state c d st)) with (dup_guard c2 lbl st).
    change (chain_guard c2 lbl (tree_state c d st)) with (chain_guard c2 lbl st).
    rewrite Ers. cbn [bind]. rewrite Eboot, Eself, Echain, Egc. cbn [bind]. rewrite Edup. cbn [bind].
    assert (F5' : lookup p (claims st) = None) by exact F5.
    assert (Ecd1 : check_decl (tree_state c d st) (WPhrase (phrase_step lbl)) p r = Ok true).
    { unfold check_decl. cbn [claims tree_state]. now rewrite (lookup_handover_none d _ p F5'). }
    rewrite Ecd1. cbn [bind].
    assert (Hown1 : find_owner false (add_step (tree_state c d st) lbl c2) p =
                    if is_prefix d p then Ok (Some (d, c)) else Ok None).
    { unfold find_owner, owners, probe in *. cbn [trees tree_state add_step filter fst] in *.
      destruct (filter (fun tc : str * creator => is_prefix (fst tc) p) (trees st)) as [|x [|y l]];
        [|discriminate F2|discriminate F2].
      destruct (is_prefix d p); reflexivity. }
    unfold declare_file. rewrite F1, Hown1.
    destruct (is_prefix d p) eqn:Edp; cbn [bind].
    + rewrite Hnr. reflexivity.
    + rewrite F3, F4. cbn [claims tree_state add_step]. rewrite (lookup_handover_none d _ p F5').
      cbn [loose tree_state add_step] in *. rewrite F6.
      cbn [loose set_claim add_step]. unfold remove_str.
      rewrite (filter_filter_nil (is_prefix d) (fun x => negb (str_eqb p x)) (loose st) Hloose).
      rewrite declare_static_files_nil. cbn [both].
      unfold set_claim, tree_state, add_step, handover. cbn [claims loose trees steps globs map fst snd].
      now rewrite Edp.
Qed.


(* --- define_step with one product versus any single declaration (static / amended product) --- *)

Lemma declare_file_add_step c0 r st l c q :
  declare_file false c0 r (add_step st l c) q =
  match declare_file false c0 r st q with
  | Ok _ => Ok (set_claim (add_step st l c) q (mkClaim r c0))
  | Err m => Err m
  end.
Proof.
  unfold declare_file.
  destruct (role_eqb r RVolatile && ends_with_c SLASH q); [reflexivity|].
  change (find_owner false (add_step st l c) q) with (find_owner false st q).
  cbn [claims loose add_step].
  assert (Htail : forall k,
    (if is_prefix stepup_prefix q then Err (MStepupFile q) else
     match bad_name q with Some m => Err m | None =>
     match lookup q (claims st) with
     | Some _ => Err (MNodeExists (s2l "file:" ++ q))
     | None => if role_eqb r RVolatile && mem_str q (loose st) then match phrase_of k with Ok ph => Err (MVolInput q ph (phrase_step (first_consumer st q))) | Err m => Err m end
               else Ok (set_claim (add_step st l c) q (mkClaim r k)) end end) =
    match (if is_prefix stepup_prefix q then Err (MStepupFile q) else
     match bad_name q with Some m => Err m | None =>
     match lookup q (claims st) with
     | Some _ => Err (MNodeExists (s2l "file:" ++ q))
     | None => if role_eqb r RVolatile && mem_str q (loose st) then match phrase_of k with Ok ph => Err (MVolInput q ph (phrase_step (first_consumer st q))) | Err m => Err m end
               else Ok (set_claim st q (mkClaim r k)) end end) with
    | Ok _ => Ok (set_claim (add_step st l c) q (mkClaim r k)) | Err m => Err m end).
  { intros k. destruct (is_prefix stepup_prefix q); [reflexivity|]. destruct (bad_name q); [reflexivity|].
    destruct (lookup q (claims st)); [reflexivity|].
    destruct (role_eqb r RVolatile && mem_str q (loose st)); [destruct (phrase_of k); reflexivity|reflexivity]. }
  destruct c0 as [|l0|t]; cbn [bind].
  - destruct (find_owner false st q) as [[[t tc]|]|m]; cbn [bind].
    + destruct (role_eqb r RStatic); reflexivity.
    + apply Htail.
    + reflexivity.
  - destruct (find_owner false st q) as [[[t tc]|]|m]; cbn [bind].
    + destruct (role_eqb r RStatic); reflexivity.
    + apply Htail.
    + reflexivity.
  - apply Htail.
Qed.

Definition wf2 (D : decl1) : Prop :=
  wf1 D /\
  (forall st l c, d1_dclf D (add_step st l c) = d1_dclf D st) /\
  (forall st dcl, d1_dclf D st = Ok dcl -> dcl = d1_cr D \/ exists t, dcl = CTree t).

Lemma D_amend_wf2 s r p : wf2 (D_amend s r p).
Proof. split; [apply D_amend_wf|]. split; cbn; [reflexivity|]. intros st dcl H. inversion H. auto. Qed.

Lemma D_static_wf2 c2 p : wf2 (D_static c2 p).
Proof.
  split; [apply D_static_wf|]. split; cbn.
  - intros st l c. unfold static_declarer.
    change (find_owner false (add_step st l c) p) with (find_owner false st p). reflexivity.
  - intros st dcl H. destruct (static_declarer_cases _ _ _ _ H) as [[E _]|[t [E _]]]; eauto.
Qed.

Lemma dup_guard_none c lbl st : dup_guard c lbl st = Ok tt -> lookup lbl (steps st) = None.
Proof.
  unfold dup_guard. destruct (lookup lbl (steps st)) as [c0|]; [|reflexivity].
  destruct (phrase_of c0) as [x|]; [destruct (phrase_of c) as [y|]|]; try discriminate.
  destruct (sort2_str x y). discriminate.
Qed.

Theorem define_one_commute st c2 lbl r p D :
  Inv gm gr st -> product_role r = true -> wf2 D ->
  accepted (define1_sem c2 lbl r p st) = true -> accepted (one_sem gm D st) = true ->
  both_equiv (bind (define1_sem c2 lbl r p st) (one_sem gm D))
             (bind (one_sem gm D st) (define1_sem c2 lbl r p)).
Proof.
  intros HI Hr [[FD TD] [FA CD]] H2 HD.
  assert (Hnr : role_eqb r RStatic = false) by (destruct r; try discriminate; reflexivity).
  unfold define1_sem in H2 at 1.
  destruct (require_step st c2) as [[]|] eqn:Ers; cbn [bind accepted] in H2; [|discriminate H2].
  destruct (creator_eqb c2 CRoot && existsb (fun sc => creator_eqb (snd sc) CRoot) (steps st)) eqn:Eboot;
    [cbn in H2; discriminate H2|].
  destruct (creator_eqb c2 (CStep lbl)) eqn:Eself; [cbn in H2; discriminate H2|].
  destruct (chain_guard c2 lbl st) eqn:Echain; [cbn in H2; discriminate H2|].
  destruct (glob_check gm (globs st) lbl [p]) as [[]|] eqn:Egc; cbn [bind accepted] in H2; [|discriminate H2].
  destruct (dup_guard c2 lbl st) as [[]|] eqn:Edup; cbn [bind accepted] in H2; [|discriminate H2].
  destruct (check_decl st (WPhrase (phrase_step lbl)) p r) as [b|] eqn:Ecd; cbn [bind accepted] in H2; [|discriminate H2].
  destruct (declare_file false (CStep lbl) r (add_step st lbl c2) p) as [st2|] eqn:Edf; cbn [accepted] in H2; [|discriminate H2].
  destruct (declare_file_ok_inv _ _ _ _ _ (step_not_tree lbl) Edf) as [-> [F1 [F2 [F3 [F4 [F5 F6]]]]]].
  cbn [claims add_step] in F5.
  set (cl := mkClaim r (CStep lbl)) in *.
  assert (Hsem : define1_sem c2 lbl r p st = Ok (set_claim (add_step st lbl c2) p cl)).
  { unfold define1_sem. rewrite Ers. cbn [bind]. rewrite Eboot, Eself, Echain, Egc. cbn [bind]. rewrite Edup. cbn [bind].
    rewrite Ecd. cbn [bind]. exact Edf. }
  rewrite Hsem. cbn [bind].
  destruct (one_accepted gm _ _ HD) as [QD [dd [ED [[CDh SD]|[CDn [GD [DD SD]]]]]]]; rewrite SD; cbn [bind].
  - (* D is already held on st: another path *)
    rewrite Hsem.
    assert (Hne : d1_p D <> p).
    { intros E. apply check_decl_false_held in CDh. rewrite E in CDh.
      apply (lookup_in_nodup _ _ _ (inv_uniq _ _ _ HI)) in CDh. congruence. }
    unfold one_sem.
    assert (QD' : require_step (set_claim (add_step st lbl c2) p cl) (d1_cr D) = Ok tt)
      by (apply (require_add_step st lbl c2 _ QD)).
    rewrite QD', FD, FA, ED. cbn [bind]. rewrite check_decl_set_claim_other by assumption.
    change (check_decl (add_step st lbl c2) (WNode dd) (d1_p D) (d1_r D)) with (check_decl st (WNode dd) (d1_p D) (d1_r D)).
    rewrite CDh. apply state_equiv_refl.
  - (* D is new on st *)
    pose proof (require_nontree _ _ QD) as ND.
    destruct (declare_file_ok_gen _ _ _ _ _ DD) as [_ [LD OD]].
    unfold one_sem at 1.
    assert (QD' : require_step (set_claim (add_step st lbl c2) p cl) (d1_cr D) = Ok tt)
      by (apply (require_add_step st lbl c2 _ QD)).
    rewrite QD', FD, FA, ED. cbn [bind].
    unfold define1_sem.
    change (require_step (set_claim st (d1_p D) (mkClaim (d1_r D) dd)) c2) with (require_step st c2).
    change (steps (set_claim st (d1_p D) (mkClaim (d1_r D) dd))) with (steps st).
    change (globs (set_claim st (d1_p D) (mkClaim (d1_r D) dd))) with (globs st).
    change (dup_guard c2 lbl (set_claim st (d1_p D) (mkClaim (d1_r D) dd))) with (dup_guard c2 lbl st).
    change (chain_guard c2 lbl (set_claim st (d1_p D) (mkClaim (d1_r D) dd))) with (chain_guard c2 lbl st).
    rewrite Ers. cbn [bind]. rewrite Eboot, Eself, Echain, Egc. cbn [bind]. rewrite Edup. cbn [bind].
    destruct (str_eqb (d1_p D) p) eqn:Ep.
    + (* the same path: a collision, the same message *)
      apply str_eqb_eq in Ep. rewrite Ep in *.
      unfold check_decl. cbn [claims set_claim add_step lookup]. rewrite str_eqb_refl. cbn [c_role c_by cl].
      (* dd is neither the new step nor a tree *)
      assert (Hdd : forall t, dd <> CTree t).
      { intros t ->. destruct (TD st t ND ED) as [_ Own].
        unfold find_owner, owners in *. cbn [trees add_step] in F2. rewrite Own in F2. discriminate F2. }
      assert (Hnl : dd <> CStep lbl).
      { intros ->. destruct (CD st _ ED) as [E|[t E]]; [|discriminate E].
        rewrite <- E in QD. unfold require_step, step_exists in QD.
        rewrite (dup_guard_none _ _ _ Edup) in QD. discriminate QD. }
      assert (Hdiff : role_eqb r (d1_r D) && creator_eqb (CStep lbl) dd = false).
      { destruct (creator_eqb (CStep lbl) dd) eqn:E; [|apply andb_false_r].
        apply creator_eqb_eq in E. congruence. }
      rewrite Hdiff.
      assert (exists dD, decl_of_node (d1_r D) dd = Ok dD) as [dD HdD].
      { destruct dd; [eexists; reflexivity|eexists; reflexivity|exfalso; eapply Hdd; eauto]. }
      rewrite HdD. cbn [bind both_equiv].
      unfold cl. apply (collision_message_symmetric p r (CStep lbl) (d1_r D) dd); [apply decl_of_node_step|exact HdD].
    + (* different paths: independent *)
      assert (Hne : d1_p D <> p) by (now apply str_eqb_false).
      assert (Hne' : p <> d1_p D) by congruence.
      rewrite !check_decl_set_claim_other by assumption.
      change (check_decl (add_step st lbl c2) (WNode dd) (d1_p D) (d1_r D)) with (check_decl st (WNode dd) (d1_p D) (d1_r D)).
      rewrite CDn, Ecd. cbn [bind].
      change (globs (set_claim (add_step st lbl c2) p cl)) with (globs st). rewrite GD. cbn [bind].
      rewrite declare_file_set_claim_other_gen by assumption.
      rewrite declare_file_add_step, DD.
      change (add_step (set_claim st (d1_p D) (mkClaim (d1_r D) dd)) lbl c2)
        with (set_claim (add_step st lbl c2) (d1_p D) (mkClaim (d1_r D) dd)).
      rewrite declare_file_set_claim_other_gen by assumption. rewrite Edf.
      cbn [both_equiv]. apply set_claim_swap. congruence.
Qed.

Theorem define_product_commute st c2 lbl r p s r' p' :
  Inv gm gr st -> product_role r = true -> product_role r' = true ->
  accepted (step gm false gr st (define1 c2 lbl r p)) = true ->
  accepted (step gm false gr st (amend1 s r' p')) = true ->
  both_equiv (run gm false gr st [define1 c2 lbl r p; amend1 s r' p'])
             (run gm false gr st [amend1 s r' p'; define1 c2 lbl r p]).
Proof.
  intros HI Hr Hr' H1 H2. rewrite !(run2 gm gr).
  rewrite (bind_ext _ _ (one_sem gm (D_amend s r' p')) (fun st' => D_amend_spec gm gr s r' p' st' Hr')).
  rewrite (bind_ext _ _ (define1_sem c2 lbl r p) (fun st' => define1_spec c2 lbl r p st' Hr)).
  rewrite (define1_spec c2 lbl r p st Hr) in *. rewrite (D_amend_spec gm gr s r' p' st Hr') in *.
  apply define_one_commute; auto using D_amend_wf2.
Qed.

Theorem define_static_commute st c2 lbl r p c1 p1 :
  Inv gm gr st -> product_role r = true ->
  accepted (step gm false gr st (define1 c2 lbl r p)) = true ->
  accepted (step gm false gr st (RqStatic c1 [p1])) = true ->
  both_equiv (run gm false gr st [define1 c2 lbl r p; RqStatic c1 [p1]])
             (run gm false gr st [RqStatic c1 [p1]; define1 c2 lbl r p]).
Proof.
  intros HI Hr H1 H2. rewrite !(run2 gm gr).
  rewrite (bind_ext _ _ (one_sem gm (D_static c1 p1)) (fun st' => D_static_spec gm gr c1 p1 st')).
  rewrite (bind_ext _ _ (define1_sem c2 lbl r p) (fun st' => define1_spec c2 lbl r p st' Hr)).
  rewrite (define1_spec c2 lbl r p st Hr) in *. rewrite (D_static_spec gm gr c1 p1 st) in *.
  apply define_one_commute; auto using D_static_wf2.
Qed.


(* --- two definitions of steps with one product each --- *)

Lemma define_states_swap st lA cA pA clA lB cB pB clB :
  lA <> lB -> pA <> pB ->
  state_equiv (set_claim (add_step (set_claim (add_step st lA cA) pA clA) lB cB) pB clB)
              (set_claim (add_step (set_claim (add_step st lB cB) pB clB) lA cA) pA clA).
Proof.
  intros Hl Hp.
  destruct (set_claim_swap st pA clA pB clB Hp) as [Hc [Ht [Hs [Hlo Hg]]]].
  unfold state_equiv. cbn [claims loose trees steps globs set_claim add_step] in *. repeat split; auto.
  intros l. cbn [lookup].
  destruct (str_eqb l lB) eqn:E2, (str_eqb l lA) eqn:E1; try reflexivity.
  apply str_eqb_eq in E1, E2. congruence.
Qed.

Definition define_facts (c : creator) (lbl : str) (r : role) (p : str) (st : state) : Prop :=
  require_step st c = Ok tt /\
  creator_eqb c CRoot && existsb (fun sc => creator_eqb (snd sc) CRoot) (steps st) = false /\
  creator_eqb c (CStep lbl) = false /\
  chain_guard c lbl st = false /\
  glob_check gm (globs st) lbl [p] = Ok tt /\
  dup_guard c lbl st = Ok tt /\
  check_decl st (WPhrase (phrase_step lbl)) p r = Ok true /\
  declare_file false (CStep lbl) r (add_step st lbl c) p =
    Ok (set_claim (add_step st lbl c) p (mkClaim r (CStep lbl))) /\
  define1_sem c lbl r p st = Ok (set_claim (add_step st lbl c) p (mkClaim r (CStep lbl))).

Lemma define_accepted c lbl r p st :
  accepted (define1_sem c lbl r p st) = true -> define_facts c lbl r p st.
Proof.
  intros H2. unfold define1_sem in H2 at 1.
  destruct (require_step st c) as [[]|] eqn:Ers; cbn [bind accepted] in H2; [|discriminate H2].
  destruct (creator_eqb c CRoot && existsb (fun sc => creator_eqb (snd sc) CRoot) (steps st)) eqn:Eboot;
    [cbn in H2; discriminate H2|].
  destruct (creator_eqb c (CStep lbl)) eqn:Eself; [cbn in H2; discriminate H2|].
  destruct (chain_guard c lbl st) eqn:Echain; [cbn in H2; discriminate H2|].
  destruct (glob_check gm (globs st) lbl [p]) as [[]|] eqn:Egc; cbn [bind accepted] in H2; [|discriminate H2].
  destruct (dup_guard c lbl st) as [[]|] eqn:Edup; cbn [bind accepted] in H2; [|discriminate H2].
  destruct (check_decl st (WPhrase (phrase_step lbl)) p r) as [b|] eqn:Ecd; cbn [bind accepted] in H2; [|discriminate H2].
  destruct (declare_file false (CStep lbl) r (add_step st lbl c) p) as [st2|] eqn:Edf; cbn [accepted] in H2; [|discriminate H2].
  destruct (declare_file_ok_inv _ _ _ _ _ (step_not_tree lbl) Edf) as [-> _].
  assert (b = true).
  { unfold check_decl in Ecd. destruct (lookup p (claims st)); [discriminate Ecd|]. now inversion Ecd. }
  subst b. unfold define_facts. repeat split; auto.
  unfold define1_sem. rewrite Ers. cbn [bind]. rewrite Eboot, Eself, Echain, Egc. cbn [bind]. rewrite Edup. cbn [bind].
  rewrite Ecd. cbn [bind]. exact Edf.
Qed.

Lemma phrase_of_nontree c : (forall t, c <> CTree t) -> exists ph, phrase_of c = Ok ph.
Proof. destruct c; intros H; [eexists; reflexivity|eexists; reflexivity|exfalso; eapply H; eauto]. Qed.

(* every step's creator is StepUp itself or an existing step (holds in reachable states: a
   definition is only accepted from an existing creator) *)
Definition steps_closed (sts : list (str * creator)) : Prop :=
  forall l l', lookup l sts = Some (CStep l') -> lookup l' sts <> None.

Lemma anc_false fuel sts lA cA l lbl :
  steps_closed sts -> lookup lA sts = None -> lookup lbl sts = None -> lookup l sts <> None ->
  is_ancestor fuel ((lA, cA) :: sts) l lbl = false.
Proof.
  intros Hc HA Hl. revert l. induction fuel as [|f IH]; intros l Hin; [reflexivity|].
  cbn [is_ancestor lookup].
  destruct (str_eqb l lA) eqn:E; [apply str_eqb_eq in E; subst; contradiction|].
  destruct (lookup l sts) as [[|l'|t]|] eqn:El; try reflexivity.
  pose proof (Hc l l' El) as Hl'.
  destruct (str_eqb l' lbl) eqn:E2; [apply str_eqb_eq in E2; subst; contradiction|].
  cbn [orb]. now apply IH.
Qed.

Lemma chain_guard_after st lA cA cB lB :
  steps_closed (steps st) -> lookup lA (steps st) = None -> lookup lB (steps st) = None ->
  require_step st cB = Ok tt -> chain_guard cB lB (add_step st lA cA) = false.
Proof.
  intros Hc HA HB HQ. unfold chain_guard. destruct cB as [|l|t]; try reflexivity.
  cbn [steps add_step]. apply anc_false; auto.
  unfold require_step, step_exists in HQ. destruct (lookup l (steps st)); [discriminate|discriminate HQ].
Qed.

(* what the second definition does after the first *)
Lemma define_after st cA lA rA pA cB lB rB pB :
  steps_closed (steps st) ->
  define_facts cA lA rA pA st -> define_facts cB lB rB pB st ->
  define1_sem cB lB rB pB (set_claim (add_step st lA cA) pA (mkClaim rA (CStep lA))) =
  if creator_eqb cB CRoot && creator_eqb cA CRoot then Err MBoot
  else if str_eqb lB lA then
    match phrase_of cA, phrase_of cB with
    | Ok a, Ok b => let (c1, c2) := sort2_str a b in Err (MDupStep lB c1 c2)
    | Err m, _ => Err m
    | _, Err m => Err m
    end
  else if str_eqb pB pA then
    Err (claim_collision pB (mkClaim rA (CStep lA)) (mkDecl rB (phrase_step lB) true))
  else Ok (set_claim (add_step (set_claim (add_step st lA cA) pA (mkClaim rA (CStep lA))) lB cB) pB
                     (mkClaim rB (CStep lB))).
Proof.
  intros Hclosed [QA [BA [SA [XA [GA [DA [CA [FA _]]]]]]]] [QB [BB [SB [XB [GB [DB [CB [FB _]]]]]]]].
  unfold define1_sem.
  assert (QB' : require_step (set_claim (add_step st lA cA) pA (mkClaim rA (CStep lA))) cB = Ok tt)
    by (apply (require_add_step st lA cA _ QB)).
  rewrite QB'. cbn [bind].
  change (chain_guard cB lB (set_claim (add_step st lA cA) pA (mkClaim rA (CStep lA))))
    with (chain_guard cB lB (add_step st lA cA)).
  rewrite (chain_guard_after st lA cA cB lB Hclosed (dup_guard_none _ _ _ DA) (dup_guard_none _ _ _ DB) QB). cbn [steps set_claim add_step existsb snd].
  destruct (creator_eqb cB CRoot) eqn:EbR.
  - cbn [andb] in *. rewrite BB, orb_false_r.
    destruct (creator_eqb cA CRoot) eqn:EaR; [reflexivity|].
    rewrite SB. cbn [globs set_claim add_step]. rewrite GB. cbn [bind].
    unfold dup_guard. cbn [steps set_claim add_step lookup].
    destruct (str_eqb lB lA) eqn:El;
      [destruct (phrase_of cA) as [x|]; [destruct (phrase_of cB) as [y|]|]; try reflexivity;
       destruct (sort2_str x y); reflexivity|].
    fold (dup_guard cB lB st). rewrite DB. cbn [bind].
    unfold check_decl. cbn [claims set_claim add_step lookup].
    destruct (str_eqb pB pA) eqn:Ep.
    + apply str_eqb_eq in Ep. subst. reflexivity.
    + apply check_decl_true_none in CB. rewrite CB. cbn [bind].
      change (add_step (set_claim (add_step st lA cA) pA (mkClaim rA (CStep lA))) lB cB)
        with (set_claim (add_step (add_step st lA cA) lB cB) pA (mkClaim rA (CStep lA))).
      rewrite declare_file_set_claim_other_gen by (now apply str_eqb_false).
      rewrite !declare_file_add_step.
      rewrite declare_file_add_step in FB.
      destruct (declare_file false (CStep lB) rB st pB); [reflexivity|discriminate FB].
  - cbn [andb]. rewrite SB. cbn [globs set_claim add_step]. rewrite GB. cbn [bind].
    unfold dup_guard. cbn [steps set_claim add_step lookup].
    destruct (str_eqb lB lA) eqn:El;
      [destruct (phrase_of cA) as [x|]; [destruct (phrase_of cB) as [y|]|]; try reflexivity;
       destruct (sort2_str x y); reflexivity|].
    fold (dup_guard cB lB st). rewrite DB. cbn [bind].
    unfold check_decl. cbn [claims set_claim add_step lookup].
    destruct (str_eqb pB pA) eqn:Ep.
    + apply str_eqb_eq in Ep. subst. reflexivity.
    + apply check_decl_true_none in CB. rewrite CB. cbn [bind].
      change (add_step (set_claim (add_step st lA cA) pA (mkClaim rA (CStep lA))) lB cB)
        with (set_claim (add_step (add_step st lA cA) lB cB) pA (mkClaim rA (CStep lA))).
      rewrite declare_file_set_claim_other_gen by (now apply str_eqb_false).
      rewrite !declare_file_add_step.
      rewrite declare_file_add_step in FB.
      destruct (declare_file false (CStep lB) rB st pB); [reflexivity|discriminate FB].
Qed.

Lemma str_eqb_sym a b : str_eqb a b = str_eqb b a.
Proof.
  destruct (str_eqb a b) eqn:E1, (str_eqb b a) eqn:E2; try reflexivity.
  - apply str_eqb_eq in E1. subst. now rewrite str_eqb_refl in E2.
  - apply str_eqb_eq in E2. subst. now rewrite str_eqb_refl in E1.
Qed.

Theorem define_define_commute st cA lA rA pA cB lB rB pB :
  Inv gm gr st -> steps_closed (steps st) -> product_role rA = true -> product_role rB = true ->
  accepted (step gm false gr st (define1 cA lA rA pA)) = true ->
  accepted (step gm false gr st (define1 cB lB rB pB)) = true ->
  both_equiv (run gm false gr st [define1 cA lA rA pA; define1 cB lB rB pB])
             (run gm false gr st [define1 cB lB rB pB; define1 cA lA rA pA]).
Proof.
  intros HI Hclosed HrA HrB HA HB. rewrite !(run2 gm gr).
  rewrite (bind_ext _ _ (define1_sem cB lB rB pB) (fun st' => define1_spec cB lB rB pB st' HrB)).
  rewrite (bind_ext _ _ (define1_sem cA lA rA pA) (fun st' => define1_spec cA lA rA pA st' HrA)).
  rewrite (define1_spec cA lA rA pA st HrA) in *. rewrite (define1_spec cB lB rB pB st HrB) in *.
  pose proof (define_accepted _ _ _ _ _ HA) as FA. pose proof (define_accepted _ _ _ _ _ HB) as FB.
  pose proof (define_after _ _ _ _ _ _ _ _ _ Hclosed FA FB) as AB.
  pose proof (define_after _ _ _ _ _ _ _ _ _ Hclosed FB FA) as BA.
  destruct FA as [QA [_ [_ [_ [_ [_ [_ [_ SA]]]]]]]]. destruct FB as [QB [_ [_ [_ [_ [_ [_ [_ SB]]]]]]]].
  rewrite SA, SB. cbn [bind]. rewrite AB, BA.
  rewrite (andb_comm (creator_eqb cA CRoot)), (str_eqb_sym lA lB), (str_eqb_sym pA pB).
  destruct (creator_eqb cB CRoot && creator_eqb cA CRoot); [reflexivity|].
  destruct (str_eqb lB lA) eqn:El.
  - apply str_eqb_eq in El. subst lB.
    destruct (phrase_of_nontree _ (require_nontree _ _ QA)) as [a Ha].
    destruct (phrase_of_nontree _ (require_nontree _ _ QB)) as [b Hb].
    rewrite Ha, Hb. rewrite (sort2_str_sym b a). destruct (sort2_str a b). reflexivity.
  - destruct (str_eqb pB pA) eqn:Ep.
    + apply str_eqb_eq in Ep. subst pB. cbn [both_equiv].
      apply (collision_message_symmetric pA rA (CStep lA) rB (CStep lB)); apply decl_of_node_step.
    + cbn [both_equiv]. apply define_states_swap.
      * intros E. subst. now rewrite str_eqb_refl in El.
      * intros E. subst. now rewrite str_eqb_refl in Ep.
Qed.

End Commute7.

(* ------------------------------------------------------------------------------------------ *)
(* Steps are only ever created by existing creators; the volatile/input message                 *)
(* ------------------------------------------------------------------------------------------ *)

Section StepsClosed.

Variable gm : str -> str -> bool.
Variable ow gr : bool.

Lemma supply_frame k st p st' : supply ow k st p = Ok st' -> same_frame st st'.
Proof.
  unfold supply. intros H.
  destruct (lookup p (claims st)) as [cl|].
  - destruct (role_eqb (c_role cl) RVolatile); [destruct (phrase_of (c_by cl)); discriminate|].
    inversion H. repeat split.
  - destruct (find_owner ow st p) as [[[t tc]|]|]; cbn [bind] in H; try discriminate;
      destruct (bad_name p); try discriminate; inversion H; try (repeat split; fail).
    destruct (mem_str p (loose st)); repeat split.
Qed.

Lemma fold_frame {A} (f : state -> A -> res state) :
  (forall s a s', f s a = Ok s' -> same_frame s s') ->
  forall l st st', fold_res f l st = Ok st' -> same_frame st st'.
Proof.
  intros Hf. induction l as [|a l IH]; intros st st' H; cbn in H.
  - inversion H. apply same_frame_refl.
  - destruct (f st a) as [s1|] eqn:E; cbn [bind] in H; [|discriminate].
    eapply same_frame_trans; [eapply Hf; eauto|eauto].
Qed.

Lemma declare_static_files_frame c st ps st' :
  declare_static_files ow c st ps = Ok st' -> same_frame st st'.
Proof.
  unfold declare_static_files. intros H.
  destruct (static_checks ow c st (sort_uniq ps)) as [todo|]; cbn [bind] in H; [|discriminate].
  eapply (fold_frame (fun s dp => declare_file ow (fst dp) RStatic s (snd dp))); [|exact H].
  intros s a s' Hs. eapply declare_file_frame; eauto.
Qed.

(* what a request does to the table of steps *)
Lemma step_steps st r st' :
  step gm ow gr st r = Ok st' ->
  steps st' = steps st \/
  exists lbl c, steps st' = (lbl, c) :: steps st /\ require_step st c = Ok tt.
Proof.
  intros H. destruct r; cbn [step] in H.
  - destruct (require_step st c); cbn [bind] in H; [|discriminate].
    left. apply declare_static_files_frame in H. destruct H as [_ [Hs _]]. exact Hs.
  - left. unfold register_tree in H.
    destruct (require_step st c); cbn [bind] in H; [|discriminate].
    destruct (str_eqb path stepup_dir || is_prefix stepup_prefix path); [discriminate|].
    destruct (str_eqb (with_slash path) [46; SLASH] || str_eqb (with_slash path) []); [discriminate|].
    destruct (str_eqb (with_slash path) [SLASH]); [discriminate|].
    destruct (find_owner ow st (with_slash path)) as [[[t tc]|]|]; cbn [bind] in H; try discriminate.
    + destruct (creator_eqb tc c); [now inversion H|].
      destruct (str_eqb t (with_slash path)); [|discriminate].
      destruct (phrase_of tc) as [x|]; [destruct (phrase_of c) as [y|]|]; try discriminate.
      destruct (sort2_str x y). discriminate.
    + destruct (existsb _ (trees st)); [discriminate|].
      destruct (min_entry _) as [[q cl]|]; [destruct (negb (role_eqb (c_role cl) RStatic)); discriminate|].
      apply declare_static_files_frame in H. destruct H as [_ [Hs _]]. exact Hs.
  - left. unfold register_glob in H.
    destruct (require_step st (CStep s)); cbn [bind] in H; [|discriminate].
    destruct (if gr then _ else _) as [[q cl]|]; [discriminate|].
    destruct (find_first _ _); [discriminate|]. now inversion H.
  - right. unfold define_step in H.
    destruct (require_step st c) as [[]|] eqn:Er; cbn [bind] in H; [|discriminate].
    destruct (creator_eqb c CRoot && _); [discriminate|].
    destruct (dir_inputs _); cbn [bind] in H; [|discriminate].
    destruct (creator_eqb c (CStep lbl)); [discriminate|].
    match type of H with (if ?b then _ else _) = _ => destruct b; [discriminate|] end.
    destruct (glob_check _ _ _ _); cbn [bind] in H; [|discriminate].
    match type of H with bind ?x _ = _ => destruct x; cbn [bind] in H; [|discriminate] end.
    destruct (check_all _ _ ROutput _); cbn [bind] in H; [|discriminate].
    destruct (check_all _ _ RVolatile _); cbn [bind] in H; [|discriminate].
    destruct (overlap_check _ _ _); cbn [bind] in H; [|discriminate].
    match type of H with bind (fold_res _ _ ?s) _ = _ => set (st1 := s) in * end.
    destruct (fold_res (supply ow lbl) (sort_uniq inps) st1) as [st2|] eqn:E2; cbn [bind] in H; [|discriminate].
    destruct (fold_res (declare_file ow (CStep lbl) ROutput) (sort_uniq outs) st2) as [st3|] eqn:E3;
      cbn [bind] in H; [|discriminate].
    apply (fold_frame (supply ow lbl) (supply_frame lbl)) in E2.
    apply fold_declare_frame in E3. apply fold_declare_frame in H.
    destruct (same_frame_trans _ _ _ (same_frame_trans _ _ _ E2 E3) H) as [_ [Hs _]].
    exists lbl, c. split; [exact Hs|exact Er].
  - left. unfold amend_step in H.
    destruct (require_step st (CStep s)); cbn [bind] in H; [|discriminate].
    destruct (dir_inputs _); cbn [bind] in H; [|discriminate].
    destruct (fold_res (supply ow s) (sort_uniq inps) st) as [st1|] eqn:E1; cbn [bind] in H; [|discriminate].
    destruct (check_all st1 _ ROutput _) as [o|]; cbn [bind] in H; [|discriminate].
    destruct (check_all st1 _ RVolatile _) as [v|]; cbn [bind] in H; [|discriminate].
    destruct (overlap_check _ _ _); cbn [bind] in H; [|discriminate].
    destruct (glob_check _ _ _ _); cbn [bind] in H; [|discriminate].
    destruct (fold_res (declare_file ow (CStep s) ROutput) o st1) as [st2|] eqn:E2; cbn [bind] in H; [|discriminate].
    apply (fold_frame (supply ow s) (supply_frame s)) in E1.
    apply fold_declare_frame in E2. apply fold_declare_frame in H.
    destruct (same_frame_trans _ _ _ (same_frame_trans _ _ _ E1 E2) H) as [_ [Hs _]]. exact Hs.
Qed.

Lemma steps_closed_add sts lbl c :
  steps_closed sts ->
  (match c with CStep l => lookup l sts <> None | _ => True end) ->
  steps_closed ((lbl, c) :: sts).
Proof.
  intros Hc Hex l l' H. cbn [lookup] in *.
  destruct (str_eqb l lbl) eqn:E.
  - inversion H; subst c. destruct (str_eqb l' lbl); [discriminate|exact Hex].
  - destruct (str_eqb l' lbl); [discriminate|]. eapply Hc; eauto.
Qed.

Theorem reachable_steps_closed st : reachable gm ow gr st -> steps_closed (steps st).
Proof.
  intros [rs ->]. unfold run_skip.
  assert (G : forall rs s, steps_closed (steps s) -> steps_closed (steps (fold_left (step_skip gm ow gr) rs s))).
  { induction rs0 as [|r rs0 IH]; intros s Hs; cbn [fold_left]; [exact Hs|].
    apply IH. unfold step_skip. destruct (step gm ow gr s r) as [s'|] eqn:E; [|exact Hs].
    destruct (step_steps _ _ _ E) as [->|[lbl [c [-> Hq]]]]; [exact Hs|].
    apply steps_closed_add; [exact Hs|].
    destruct c as [|l|t]; [exact I| |exact I].
    unfold require_step, step_exists in Hq. destruct (lookup l (steps s)); [discriminate|discriminate Hq]. }
  apply G. intros l l' H. discriminate H.
Qed.

(* _volatile_input_message: a path that one step declares volatile and another step uses as an
   input, with no earlier consumer.  Volatile first: _resolve_supply_file raises; input first:
   _declare_file raises; the same structured message (path, producer, consumer), hence the same
   text. *)
Theorem volatile_input_either_order st a b p st_a st_b :
  filter (fun e => str_eqb (fst e) p) (sinks st) = [] ->
  mem_str p (loose st) = false ->
  find_owner ow st p = Ok None ->
  declare_file ow (CStep a) RVolatile st p = Ok st_a ->
  supply ow b st p = Ok st_b ->
  supply ow b st_a p = Err (MVolInput p (phrase_step a) (phrase_step b)) /\
  declare_file ow (CStep a) RVolatile st_b p = Err (MVolInput p (phrase_step a) (phrase_step b)).
Proof.
  intros Hs Hl Ho Ha Hb.
  unfold declare_file in Ha. cbn [role_eqb andb bind] in Ha. 
  destruct (ends_with_c SLASH p) eqn:F1; [discriminate|]. rewrite Ho in Ha. cbn [bind] in Ha.
  destruct (is_prefix stepup_prefix p) eqn:F3; [discriminate|].
  destruct (bad_name p) eqn:F4; [discriminate|].
  destruct (lookup p (claims st)) eqn:F5; [discriminate|].
  rewrite Hl in Ha. inversion Ha; subst st_a. clear Ha.
  unfold supply in Hb. rewrite F5, Ho in Hb. cbn [bind] in Hb. rewrite F4, Hl in Hb.
  inversion Hb; subst st_b. clear Hb. split.
  - unfold supply. cbn [claims set_claim lookup]. rewrite str_eqb_refl. reflexivity.
  - unfold declare_file. cbn [role_eqb andb bind]. rewrite F1.
    change (find_owner ow (add_sink _ p b) p) with (find_owner ow st p). rewrite Ho. cbn [bind].
    rewrite F3, F4. cbn [claims loose add_sink mem_str]. rewrite F5, str_eqb_refl. cbn [orb phrase_of].
    unfold first_consumer. cbn [sinks add_sink filter fst]. rewrite str_eqb_refl, Hs. reflexivity.
Qed.

End StepsClosed.
