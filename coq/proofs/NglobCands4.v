(* C17: the candidates glob.glob returns for a pattern of G2S (`**` alone, or a literal directory
   prefix of legal names followed by the trailing recursive wildcard, `dir/sub/**`) and that
   NamedGlob.glob() keeps all EXIST in the tree: the unchecked "prefix/" that the standard library
   yields for a missing prefix or a regular file is dropped by the filter of glob() (finding D5c,
   fixed), everything else comes from the recursive listing of an existing directory. *)
From Coq Require Import List NArith Bool Arith Lia.
From SV Require Import lib.Bytes.
From SV Require Import lib.Regex.
From SV Require Import model.Nglob.
From SV Require Import model.GlobSem.
From SV Require Import model.GlobTree.
From SV Require Import model.GlobTreeRec.
From SV Require Import proofs.NglobCorrect.
From SV Require Import proofs.NglobCands.
From SV Require Import proofs.NglobCands2.
From SV Require Import proofs.NglobCands3.
Import ListNotations.
Open Scope N_scope.

(* the walk along components that are followed by at least one more component *)
Lemma walk_prefix_sound cs : Forall compok cs -> forall tail seen st, tail <> [] ->
  (forall y, In y st -> wfo (snd y)) ->
  exists seen' st', walk (cs ++ tail) seen st = walk tail seen' st' /\
    forall x, In x st' -> exists y names, In y st /\ Forall okn names /\ length names = length cs
                                          /\ fst x = pj (fst y) names /\ snd x = resolve (snd y) names.
Proof.
  induction 1 as [|c cs' Hc Hcs IH]; intros tail seen st Htail Hst.
  - exists seen, st. split; [reflexivity|]. intros x Hx. exists x, []. repeat split; try assumption; constructor.
  - cbn [app walk].
    assert (Hil : match cs' ++ tail with [] => true | _ :: _ => false end = false).
    { destruct (cs' ++ tail) eqn:E; [|reflexivity]. apply app_eq_nil in E as [_ E]. congruence. }
    rewrite Hil.
    assert (Hst' : forall y, In y (flat_map (step1 seen false c) st) -> wfo (snd y)).
    { intros y' Hy'. apply in_flat_map in Hy' as [[P nd] [Hy Hy']].
      destruct (step1_sound seen false c P nd y' (Hst _ Hy) Hc Hy') as [n [_ [_ [_ [Hs _]]]]].
      rewrite Hs. apply lookup_wf. apply (Hst _ Hy). }
    destruct (IH tail (seen || has_magic c) _ Htail Hst') as [seen' [st' [Hw Hinv]]].
    exists seen', st'. split; [exact Hw|]. intros x Hx.
    destruct (Hinv x Hx) as [y' [names' [Hy' [Hok [Hlen [Hfx Hsx]]]]]].
    apply in_flat_map in Hy' as [[P nd] [Hy Hy']].
    destruct (step1_sound seen false c P nd y' (Hst _ Hy) Hc Hy') as [n [_ [Hn [Hfy [Hsy _]]]]].
    exists (P, nd), (n :: names'). split; [exact Hy|]. split; [constructor; assumption|].
    split; [cbn [length]; rewrite Hlen; reflexivity|]. cbn [fst snd].
    split; [rewrite Hfx, Hfy; reflexivity|rewrite Hsx, Hsy; reflexivity].
Qed.

(* what the last, recursive component yields from a state reached along legal names *)
Lemma rec_step_exists t names nd x :
  wf_tree t = true -> Forall okn names -> resolve (Some (Dir t)) names = nd ->
  In x (step1 false true [42; 42] (pj [] names, nd)) \/ In x (step1 true true [42; 42] (pj [] names, nd)) ->
  negb (is_nil (fst x)) = true -> kept x = true -> In (canon x) (all_paths t).
Proof.
  intros Hwf Hok Hres Hin Hnn Hk.
  assert (Hin' : In x ((pjoin (pj [] names) [], nd)
                       :: map (fun y => (pjoin (pj [] names) (fst y), Some (snd y))) (rlist_opt false nd))).
  { destruct Hin as [Hin|Hin]; unfold step1 in Hin; cbn [fst snd] in Hin;
      change (is_rec [42; 42]) with true in Hin; cbn iota in Hin; cbn [negb] in Hin; exact Hin. }
  clear Hin. destruct Hin' as [<-|Hin].
  - (* the prefix itself: kept only when it is a directory *)
    cbn [fst snd] in *. destruct names as [|n0 r0].
    + cbn [pj fold_left pjoin] in Hnn. discriminate.
    + assert (Hne : n0 :: r0 <> []) by discriminate.
      rewrite (pj_nil _ Hok Hne) in *. pose proof (jn_ends _ Hok Hne) as He.
      destruct (jn_head _ Hok Hne) as [_ Hj].
      assert (Hpj : pjoin (jn (n0 :: r0)) [] = jn (n0 :: r0) ++ [47]).
      { rewrite (pjoin_ok _ [] Hj He). reflexivity. }
      rewrite Hpj in *. unfold kept in Hk. cbn [fst snd] in Hk.
      assert (Hes : ends_slash (jn (n0 :: r0) ++ [47]) = true).
      { rewrite ends_slash_sep, ends_sep_app by discriminate. reflexivity. }
      rewrite Hes in Hk. cbn [negb] in Hk. rewrite orb_false_r in Hk.
      destruct nd as [[|es]|]; try discriminate.
      unfold canon. cbn [fst snd is_dir_opt]. rewrite Hes. cbn [negb andb].
      pose proof (spell_exists t (n0 :: r0) (Dir es) Hne Hres) as Hsp. unfold spell in Hsp. exact Hsp.
  - apply in_map_iff in Hin as [[rp ch] [<- Hin]]. cbn [fst snd] in *.
    destruct nd as [dn|]; [|destruct Hin]. cbn [rlist_opt] in Hin.
    assert (Hwfd : wf_node dn = true).
    { clear Hin Hnn Hk. revert dn Hres. change (wf_node (Dir t) = true) in Hwf.
      generalize dependent (Dir t). induction names as [|n r IH]; intros root Hwf dn Hres.
      - cbn [resolve] in Hres. inversion Hres; subst. exact Hwf.
      - inversion Hok as [|? ? Hn Hr]; subst. cbn [resolve] in Hres.
        destruct (lookup_e n (children (Some root))) as [ch0|] eqn:El; [|rewrite resolve_none in Hres; discriminate].
        apply (IH Hr ch0); [|exact Hres].
        pose proof (lookup_wf (Some root) n Hwf) as Hl. rewrite El in Hl. exact Hl. }
    destruct (rlist_resolve dn Hwfd rp ch Hin) as [rn [Hrne [Hrok [-> Hrres]]]].
    assert (Hall : Forall okn (names ++ rn)) by (apply Forall_app; split; assumption).
    assert (Hne : names ++ rn <> []) by (destruct names; [exact Hrne|discriminate]).
    assert (Hres2 : resolve (Some (Dir t)) (names ++ rn) = Some ch) by (rewrite resolve_app, Hres; exact Hrres).
    assert (Hpath : pjoin (pj [] names) (jn rn) = jn (names ++ rn)).
    { destruct names as [|n0 r0]; [reflexivity|].
      assert (Hn0 : n0 :: r0 <> []) by discriminate.
      rewrite (pj_nil _ Hok Hn0). destruct (jn_head _ Hok Hn0) as [_ Hj].
      rewrite (pjoin_ok _ _ Hj (jn_ends _ Hok Hn0)). symmetry. apply jn_app; assumption. }
    rewrite Hpath. unfold canon. cbn [fst snd is_dir_opt]. rewrite (jn_ends _ Hall Hne). cbn [negb].
    pose proof (spell_exists t (names ++ rn) ch Hne Hres2) as Hsp. unfold spell in Hsp.
    destruct ch; cbn [is_dir_opt is_dir andb negb] in *; exact Hsp.
Qed.

Lemma split_slash_snoc_sep G : split_slash (G ++ [47]) [] = split_slash G [] ++ [[]].
Proof. rewrite (split_slash_mid G [] []). reflexivity. Qed.

Theorem glob_candidates_exist_rec_partial :
  forall (t : list entry) (p : str) (subs : subs_t) (gp q : str),
    wf_tree t = true -> g2s p = true -> conv_glob p subs = COk gp ->
    In q (glob_paths t gp) -> In q (all_paths t).
Proof.
  intros t p subs gp q Hwf Hg Hgp Hin.
  unfold g2s in Hg. destruct (tokenize p) as [|t1 [|t2 [|t3 ts]]] eqn:Ht; try discriminate.
  - destruct t1; try discriminate. rewrite (conv_glob_dstar p subs Ht) in Hgp. inversion Hgp; subst gp.
    unfold glob_paths, walked in Hin. apply in_map_iff in Hin as [x [<- Hx]].
    apply filter_In in Hx as [Hx Hk]. apply filter_In in Hx as [Hx Hnn].
    change (split_slash [42; 42] []) with [[42; 42]] in Hx. cbn [walk flat_map] in Hx. rewrite app_nil_r in Hx.
    apply (rec_step_exists t [] (Some (Dir t)) x Hwf (Forall_nil _) eq_refl); [left; exact Hx|exact Hnn|exact Hk].
  - destruct t1; try discriminate. destruct t2; try discriminate.
    apply andb_true_iff in Hg as [Hg Hnames]. apply andb_true_iff in Hg as [Hpl Hes].
    rewrite (conv_glob_lit_dstar p subs s Ht) in Hgp. inversion Hgp; subst gp.
    destruct (ends_sep_inv s Hes) as [G ->]. rewrite removelast_last in Hnames.
    rewrite forallb_app in Hpl. apply andb_true_iff in Hpl as [HplG _].
    assert (Hcs : Forall compok (split_slash G [])).
    { pose proof (plain_comps_norec G HplG) as Hrec.
      pose proof (split_slash_plain G [] eq_refl (plain_lit G HplG)) as Hpp.
      rewrite Forall_forall in *. rewrite forallb_forall in Hnames. intros c Hc.
      split; [apply Hrec; exact Hc|]. split; [apply Hnames; exact Hc|apply Hpp; exact Hc]. }
    unfold glob_paths, walked in Hin. apply in_map_iff in Hin as [x [<- Hx]].
    apply filter_In in Hx as [Hx Hk]. apply filter_In in Hx as [Hx Hnn].
    rewrite <- app_assoc in Hx. cbn [app] in Hx. rewrite split_slash_mid in Hx.
    change (split_slash [42; 42] []) with [[42; 42]] in Hx.
    destruct (walk_prefix_sound _ Hcs [[42; 42]] false [([], Some (Dir t))]) as [seen' [st' [Hw Hinv]]];
      [discriminate|intros y [<-|[]]; exact Hwf|].
    rewrite Hw in Hx. cbn [walk] in Hx. apply in_flat_map in Hx as [[P nd] [Hy Hx]].
    destruct (Hinv _ Hy) as [y [names [Hy0 [Hok [_ [HP Hnd]]]]]]. destruct Hy0 as [<-|[]]. cbn [fst snd] in HP, Hnd.
    subst P. apply (rec_step_exists t names nd x Hwf Hok (eq_sym Hnd)); [|exact Hnn|exact Hk].
    destruct seen'; [right|left]; exact Hx.
  - destruct t1; try discriminate. destruct t2; discriminate.
Qed.

Lemma g2s_g2 p : g2s p = true -> g2 p = true.
Proof.
  unfold g2s, g2. destruct (tokenize p) as [|t1 [|t2 [|t3 ts]]]; try discriminate; destruct t1; try discriminate; try tauto.
  destruct t2; try discriminate. intros H. apply andb_true_iff in H as [H _]. exact H.
Qed.

Example glob_candidates_exist_rec_hyps_satisfiable :
  g2s ex_pat4 = true /\ g2s [42;42] = true /\ g2s [46;47;42;42] = false.
Proof. vm_compute. repeat split. Qed.
