(* C14, AsyncInotifyWrapper.dir_loop as the translator reads it (gen/GenWatch.v dir_loop_program; interpreter
   model/WatchSet.v exec_dstmt / dir_request): which directories become pending watches when a requested
   directory is missing, and why EVERY missing level has to be one. *)
From Coq Require Import List NArith Bool Lia.
From SV Require Import lib.Bytes gen.GenWatch model.Watch model.WatchSet proofs.WatchProofs proofs.WatchDeep.
Import ListNotations.
Open Scope N_scope.

Lemma is_key_setdefault w p v x : is_key w x = true -> is_key (w_setdefault w p v) x = true.
Proof.
  unfold w_setdefault. intros H. destruct (w_get w p) eqn:E; [exact H|].
  unfold is_key. destruct (str_eqb p x) eqn:Ex.
  - apply str_eqb_eq in Ex. subst x. rewrite w_get_set_same. reflexivity.
  - rewrite w_get_set_other by exact Ex. exact H.
Qed.

Lemma is_key_setdefault_same w p v : is_key (w_setdefault w p v) p = true.
Proof.
  unfold w_setdefault, is_key. destruct (w_get w p) eqn:E; [rewrite E; reflexivity|].
  rewrite w_get_set_same. reflexivity.
Qed.

Lemma is_key_w_set w p v x : is_key w x = true -> is_key (w_set w p v) x = true.
Proof.
  unfold is_key. intros H. destruct (str_eqb p x) eqn:Ex.
  - apply str_eqb_eq in Ex. subst x. rewrite w_get_set_same. reflexivity.
  - rewrite w_get_set_other by exact Ex. exact H.
Qed.

(* the climb of dir_loop's first loop with the recording statement: every level it visits is a key afterwards *)
Lemma climb_records fuel s : forall w p q,
  In q (climbed fuel s p) -> is_key (fst (climb fuel true s w p)) q = true.
Proof.
  induction fuel as [|fuel IH]; intros w p q Hin; cbn [climbed] in Hin; [contradiction|].
  cbn [climb]. destruct (stops_climb s p); [contradiction|]. destruct Hin as [<-|Hin].
  - clear IH. cbn [negb]. generalize (is_key_setdefault_same w p false). generalize (w_setdefault w p false).
    intros w1 H1. revert w1 H1 . generalize (parent p). induction fuel as [|f IHf]; intros p' w1 H1; cbn [climb]; [exact H1|].
    destruct (stops_climb s p'); [exact H1|]. apply IHf. apply is_key_setdefault. exact H1.
  - apply IH. exact Hin.
Qed.

Lemma climb_keeps_keys fuel rec s : forall w p x, is_key w x = true -> is_key (fst (climb fuel rec s w p)) x = true.
Proof.
  induction fuel as [|fuel IH]; intros w p x H; cbn [climb]; [exact H|].
  destruct (stops_climb s p); [exact H|]. apply IH. destruct rec; [apply is_key_setdefault|]; exact H.
Qed.

Lemma install_up_keeps_keys fuel s : forall kw w p x,
  is_key w x = true -> is_key (snd (install_up fuel s kw w p)) x = true.
Proof.
  induction fuel as [|fuel IH]; intros kw w p x H; cbn [install_up]; [exact H|].
  destruct (installed w p); [exact H|]. destruct (str_eqb p DOT); cbn [snd]; [apply is_key_w_set; exact H|].
  apply IH. apply is_key_w_set. exact H.
Qed.

(* (A) dir_loop with the statement list [DClimb true; DInstallUp]: every missing level between the requested
   directory and its nearest existing ancestor is a key of `watches` afterwards -- for every depth *)
Theorem requested_missing_levels_are_keys (s : sys) (p q : path) :
  In q (missing_levels s p) ->
  is_key (s_w (dir_request_gen base_dir_program s p)) q = true.
Proof.
  intros Hin. unfold dir_request_gen, base_dir_program.
  cbn [exec_dprog exec_dstmt dl_s dl_path dl_req s_w s_kw].
  apply install_up_keeps_keys. apply climb_records. exact Hin.
Qed.

(* change_loop keeps keys and installed watches when a directory appears *)
Lemma rescan_keeps_keys fuel self t : forall w todo x,
  is_key w x = true -> is_key (fst (rescan fuel self t w todo)) x = true.
Proof.
  induction fuel as [|fuel IH]; intros w todo x H; cbn [rescan]; [exact H|].
  destruct todo as [|c rest]; [exact H|].
  destruct (w_get w c) as [inst|] eqn:G; cbn [fst]; [|apply IH; exact H].
  apply IH. destruct inst; [exact H|apply is_key_w_set; exact H].
Qed.

Definition created_ev (d : path) : event := mk_event (M_CREATE + M_ISDIR) d.

Lemma created_is_rescan self t w d :
  process_event_gen self t w (created_ev d) = rescan (S (length t + length t)) self t w [d].
Proof.
  unfold process_event_gen, created_ev. cbn [ev_mask ev_path].
  assert (H : has_bit (M_CREATE + M_ISDIR) M_IGNORED = false /\ has_bit (M_CREATE + M_ISDIR) M_ISDIR = true
              /\ is_deleted_mask (M_CREATE + M_ISDIR) = false) by (vm_compute; repeat split; reflexivity).
  destruct H as [-> [-> ->]]. reflexivity.
Qed.

(* the levels appear one by one (each CREATE|ISDIR handled on whatever the tree is at that moment) *)
Fixpoint create_levels (self : bool) (w : watches) (evs : list (tree * path)) : watches :=
  match evs with
  | [] => w
  | (t, d) :: more => create_levels self (fst (process_event_gen self t w (created_ev d))) more
  end.

Lemma create_levels_keeps self evs : forall w x,
  (is_key w x = true -> is_key (create_levels self w evs) x = true) /\
  (w_get w x = Some true -> w_get (create_levels self w evs) x = Some true).
Proof.
  induction evs as [|[t d] evs IH]; intros w x; cbn [create_levels]; [split; intros H; exact H|].
  rewrite created_is_rescan. split; intros H.
  - apply (proj1 (IH _ x)). apply rescan_keeps_keys. exact H.
  - apply (proj2 (IH _ x)). apply rescan_keeps_installed. exact H.
Qed.

(* (B) if every level is a key, then after the levels appeared, in any order and on any trees, each of them has
   an installed watch -- for every number of levels *)
Theorem created_levels_all_installed self evs : forall w,
  (forall d, In d (map snd evs) -> is_key w d = true) ->
  forall d, In d (map snd evs) -> w_get (create_levels self w evs) d = Some true.
Proof.
  induction evs as [|[t c] evs IH]; intros w HK d Hin; [contradiction|].
  cbn [create_levels map snd] in *. destruct Hin as [<-|Hin].
  - apply (proj2 (create_levels_keeps self evs _ c)).
    pose proof (HK c (or_introl eq_refl)) as Kc. unfold is_key in Kc.
    destruct (w_get w c) as [inst|] eqn:G; [|discriminate].
    exact (proj1 (appeared_dir_children_covered self t w c inst (M_CREATE + M_ISDIR) (or_introl eq_refl) G)).
  - apply IH; [|exact Hin]. intros e He. rewrite created_is_rescan. apply rescan_keeps_keys. apply HK. right. exact He.
Qed.

Lemma map_snd_combine_eq {A B} (a : list A) : forall (b : list B),
  length a = length b -> map snd (combine a b) = b.
Proof.
  induction a as [|x a IH]; intros [|y b] H; cbn in *; try discriminate; [reflexivity|].
  f_equal. apply IH. lia.
Qed.

(* (A) + (B): a directory is requested while k >= 0 of its levels are missing; whatever else happens to `watches`
   through further requests and appearing directories in between is covered by the keys being kept; when the
   missing levels appear, every one of them ends with an installed watch, all the way down to the requested one *)
Theorem requested_directory_watched_when_created self (s : sys) (p : path) (trees : list tree) :
  length trees = length (missing_levels s p) ->
  let w0 := s_w (dir_request_gen base_dir_program s p) in
  let evs := combine trees (rev (missing_levels s p)) in
  forall q, In q (missing_levels s p) -> w_get (create_levels self w0 evs) q = Some true.
Proof.
  intros HL w0 evs q Hq.
  assert (Hm : map snd evs = rev (missing_levels s p)).
  { subst evs. rewrite map_snd_combine_eq; [reflexivity|]. rewrite rev_length. exact HL. }
  apply created_levels_all_installed.
  - intros d Hd. rewrite Hm in Hd. apply (proj2 (in_rev _ _)) in Hd.
    apply requested_missing_levels_are_keys. exact Hd.
  - rewrite Hm. apply (proj1 (in_rev _ _)). exact Hq.
Qed.

(* ------------------------------------------------------------------------------------------ *)
(* the variant that records only the requested directory                                       *)
(* ------------------------------------------------------------------------------------------ *)

Definition variant_dir_program : list dstmt := [DClimb false; DPendRequested; DInstallUp].
Definition p_i : path := [105].                    (* "i" *)
Definition p_ir : path := [105; 47; 114].          (* "i/r" *)
Definition p_irx : path := [105; 47; 114; 47; 120].          (* "i/r/x" *)
Definition p_irxy : path := [105; 47; 114; 47; 120; 47; 121].  (* "i/r/x/y" *)
(* an empty project: only the root exists and is watched *)
Definition s_dl : sys := mk_sys [] 1 [(0, DOT)] [] [(DOT, true)] [].

(* Requested "i/r" while neither "i" nor "i/r" exists.  Variant: "i" is not a key; `mkdir i`, `mkdir i/r` (the
   wrapper keeping up): CREATE|ISDIR i is skipped, i/r exists and has neither a dictionary entry that is installed
   nor a kernel watch.  The statement list of dir_loop: both levels installed, dictionary and kernel agree. *)
Lemma requested_only_variant_refuted :
  missing_levels s_dl p_ir = [p_ir; p_i] /\
  (let s := dir_request_gen variant_dir_program s_dl p_ir in
   is_key (s_w s) p_ir = true /\ is_key (s_w s) p_i = false /\
   let s' := run_batches s [[OMkdir p_i]; [OMkdir p_ir]] in
   s_queue s' = [] /\ ino_of s' p_ir = Some 2 /\ installed (s_w s') p_ir = false /\
   existsb (fun k => fst k =? 2) (s_kw s') = false /\ needed_watched (fun q => str_eqb q p_ir) s' = false) /\
  (let s := dir_request_gen base_dir_program s_dl p_ir in
   is_key (s_w s) p_ir = true /\ is_key (s_w s) p_i = true /\
   let s' := run_batches s [[OMkdir p_i]; [OMkdir p_ir]] in
   s_queue s' = [] /\ installed (s_w s') p_ir = true /\ installed (s_w s') p_i = true /\
   agree s' = true /\ needed_watched (fun q => str_eqb q p_ir) s' = true).
Proof. vm_compute. repeat split; reflexivity. Qed.

(* the state machine with the kernel, depths 2..4, levels one per batch and all in one batch (evidence for the
   kernel side of (B): the events ARE delivered because the level above got its watch) *)
Definition deep_ok (prog : list dstmt) (p : path) (bs : list (list dop)) : bool :=
  let s := run_batches (dir_request_gen prog s_dl p) bs in
  agree s && installed (s_w s) p && forallb (fun q => installed (s_w s) q) (missing_levels s_dl p).

Lemma deep_levels_sweep :
  forallb (fun pb => deep_ok base_dir_program (fst pb) (snd pb))
    [(p_ir, [[OMkdir p_i]; [OMkdir p_ir]]); (p_ir, [[OMkdir p_i; OMkdir p_ir]]);
     (p_irx, [[OMkdir p_i]; [OMkdir p_ir]; [OMkdir p_irx]]); (p_irx, [[OMkdir p_i; OMkdir p_ir]; [OMkdir p_irx]]);
     (p_irx, [[OMkdir p_i; OMkdir p_ir; OMkdir p_irx]]);
     (p_irxy, [[OMkdir p_i]; [OMkdir p_ir]; [OMkdir p_irx]; [OMkdir p_irxy]]);
     (p_irxy, [[OMkdir p_i; OMkdir p_ir]; [OMkdir p_irx; OMkdir p_irxy]])] = true /\
  forallb (fun pb => negb (deep_ok variant_dir_program (fst pb) (snd pb)))
    [(p_ir, [[OMkdir p_i]; [OMkdir p_ir]]); (p_ir, [[OMkdir p_i; OMkdir p_ir]]);
     (p_irx, [[OMkdir p_i]; [OMkdir p_ir]; [OMkdir p_irx]]);
     (p_irxy, [[OMkdir p_i; OMkdir p_ir]; [OMkdir p_irx; OMkdir p_irxy]])] = true /\
  (* one missing level: the variant is fine (why the repo's examples do not notice) *)
  deep_ok variant_dir_program p_i [[OMkdir p_i]] = true.
Proof. vm_compute. repeat split; reflexivity. Qed.
