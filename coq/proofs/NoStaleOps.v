(* C01, graph level: K = NoStaleSuccess is preserved by further transactions of model/Graph.v.
     K_reset_interrupted              startup.reset_interrupted_steps (OpResetInterrupted)
     K_op_reset_to_pending_leaf       Scheduler._reset_step_to_pending of a leaf step
     K_mark_completed_failure_leaf    Step.mark_completed, every failure branch (failed, deferred,
                                      deferred too often), of a leaf step without BUILT products
     K_update_unbuilt_failed          update_file_hashes(.., FAILED) on PLANNED / OUTDATED outputs
     K_op_exec_end_failure_leaf       the whole end-of-run transaction of a failed / deferred run
   The side conditions "unique step labels" and "an attached file has one producing edge" come
   from C09's invariant (proofs/NoStaleInv.v); the [_inv] variants take [inv_core_b s = true].
   Guards of the model functions are peeled with [peel] (destruct every [if] of the hypothesis
   and drop the rejecting branches), so that an added guard does not break the proofs. *)
From Coq Require Import List NArith Bool Lia.
From SV Require Import lib.Bytes model.Graph model.GraphInv model.NoStale proofs.NoStaleProofs
     proofs.NoStaleMark proofs.NoStaleRescan proofs.NoStaleStep proofs.NoStaleInv.
Import ListNotations.
Open Scope N_scope.

Ltac peel H :=
  repeat match type of H with
         | (if ?c then _ else _) = _ => destruct c eqn:?; try discriminate H
         | bind ?r _ = _ => let E := fresh "E" in destruct r eqn:E; cbn [bind] in H; try discriminate H
         end.

(* ------------------------------------------------------------------------------------------ *)
(* The bundle of invariants that the folds carry                                               *)
(* ------------------------------------------------------------------------------------------ *)
Definition KI (s : st) : Prop := unique_labels s /\ single_producer s /\ K_b s = true.

Lemma KI_of_inv (s : st) : inv_core_b s = true -> K_b s = true -> KI s.
Proof.
  intros Hi HK. split; [exact (inv_core_unique_labels s Hi)|].
  split; [exact (inv_core_single_producer s Hi)|exact HK].
Qed.

Lemma foldM_inv {A} (fn : st -> A -> res st) (I : st -> Prop) :
  (forall s a s', I s -> fn s a = Ok s' -> I s') ->
  forall (l : list A) (s s' : st), I s -> foldM fn l s = Ok s' -> I s'.
Proof.
  intros Hstep. induction l as [|a l IH]; intros s s' Hi H; cbn [foldM] in H.
  - injection H as <-. exact Hi.
  - unfold bind in H. destruct (fn s a) as [s1| |] eqn:E; try discriminate.
    exact (IH s1 s' (Hstep s a s1 Hi E) H).
Qed.

(* a step-row update keeps the graph *)
Lemma upd_step_same_graph (l : str) (g : srow -> srow) (s : st) : same_graph s (upd_step l g s).
Proof. repeat split. Qed.

Lemma KI_upd_step (l : str) (g : srow -> srow) (s : st) :
  (forall r, sl (g r) = sl r) ->
  (forall r, sst (g r) = sst r \/ sstate_eqb (sst (g r)) SSucceeded = false) ->
  KI s -> KI (upd_step l g s).
Proof.
  intros Hl Hs (Hu & Hsp & HK). split; [|split].
  - unfold unique_labels. rewrite (map_sl_upd_step l g s Hl). exact Hu.
  - exact (single_producer_same_graph s _ (upd_step_same_graph l g s) Hsp).
  - exact (K_upd_step l g s Hl Hs HK).
Qed.

Lemma KI_set_sstate (l : str) (new : sstate) (d : bool) (s s' : st) :
  sstate_eqb new SSucceeded = false -> set_sstate l new d s = Ok s' -> KI s -> KI s'.
Proof.
  intros Hnew H HI. unfold set_sstate in H. destruct (find_step l s) as [r|].
  - peel H. cbv zeta in H. injection H as <-. apply KI_upd_step; auto.
  - injection H as <-. exact HI.
Qed.

Lemma KI_set_sstate_raw (l : str) (new : sstate) (s s' : st) :
  sstate_eqb new SSucceeded = false -> set_sstate_raw l new s = Ok s' -> KI s -> KI s'.
Proof.
  intros Hnew H HI. unfold set_sstate_raw in H. destruct (find_step l s) as [r|].
  - exact (KI_set_sstate l new (sdef r) s s' Hnew H HI).
  - injection H as <-. exact HI.
Qed.

Lemma KI_Mk_Cl (s s' : st) : Mk s s' -> Cl s s' -> KI s -> KI s'.
Proof.
  intros M C (Hu & Hsp & HK). split; [|split].
  - unfold unique_labels. destruct M as (_ & L & _). rewrite L. exact Hu.
  - exact (single_producer_Mk s s' M Hsp).
  - exact (K_Mk_Cl s s' Hu M C HK).
Qed.

Lemma KI_mark_step_pending (l : str) (s s' : st) : mark_step_pending l s = Ok s' -> KI s -> KI s'.
Proof.
  intros H HI. pose proof HI as (_ & Hsp & _).
  destruct (mark_step_pending_marks l s s' Hsp H) as [M C]. exact (KI_Mk_Cl s s' M C HI).
Qed.

(* ------------------------------------------------------------------------------------------ *)
(* startup.reset_interrupted_steps                                                             *)
(* ------------------------------------------------------------------------------------------ *)
Lemma KI_reset_interrupted (s s' : st) : reset_interrupted s = Ok s' -> KI s -> KI s'.
Proof.
  intros H HI. unfold reset_interrupted in H. peel H.
  match goal with E1 : foldM _ (steps s) s = Ok ?a, E2 : foldM _ (steps ?a) ?a = Ok ?b |- _ =>
    rename a into s1; rename b into s2; rename E1 into F1; rename E2 into F2 end.
  assert (I1 : KI s1).
  { refine (foldM_inv _ KI _ (steps s) s s1 HI F1). intros t r t' Ht Hc.
    destruct (sst r); try (injection Hc as <-; exact Ht).
    exact (KI_set_sstate_raw (sl r) SFailed t t' eq_refl Hc Ht). }
  assert (I2 : KI s2).
  { refine (foldM_inv _ KI _ (steps s1) s1 s2 I1 F2). intros t r t' Ht Hc.
    destruct (sst r); try (injection Hc as <-; exact Ht).
    exact (KI_set_sstate_raw (sl r) SPending t t' eq_refl Hc Ht). }
  refine (foldM_inv _ KI _ (steps s2) s2 s' I2 H). intros t r t' Ht Hc.
  destruct (sstate_of (sl r) t) as [[]|]; try (injection Hc as <-; exact Ht).
  destruct (is_detached (KStep, sl r) t); [injection Hc as <-; exact Ht|].
  exact (KI_mark_step_pending (sl r) t t' Hc Ht).
Qed.

Lemma K_reset_interrupted (s s' : st) :
  unique_labels s -> single_producer s -> reset_interrupted s = Ok s' -> K_b s = true -> K_b s' = true.
Proof. intros Hu Hsp H HK. apply (KI_reset_interrupted s s' H). repeat split; assumption. Qed.

Lemma K_op_reset_interrupted (s : st) :
  unique_labels s -> single_producer s -> K_b s = true -> K_b (apply_op s OpResetInterrupted) = true.
Proof.
  intros Hu Hsp HK. unfold apply_op. cbn [step_op].
  destruct (reset_interrupted s) as [s'| |] eqn:E; try exact HK.
  exact (K_reset_interrupted s s' Hu Hsp E HK).
Qed.

(* ------------------------------------------------------------------------------------------ *)
(* Deleting the stored hash of a step that is not (or no longer) SUCCEEDED                     *)
(* ------------------------------------------------------------------------------------------ *)
Lemma has_hash_delete_other (x l : str) (s : st) :
  x <> l -> has_hash x (delete_hash l s) = has_hash x s.
Proof.
  intros Hne. unfold has_hash, delete_hash. cbn [shash set_shash].
  induction (shash s) as [|h hs IH]; [reflexivity|]. cbn [filter].
  destruct (str_eqb h l) eqn:E; cbn [negb existsb].
  - rewrite IH. apply str_eqb_eq in E. subst h. apply str_eqb_false in Hne. rewrite Hne. reflexivity.
  - rewrite IH. reflexivity.
Qed.

Lemma K_step_b_delete_hash_other (l : str) (s : st) (r : srow) :
  sl r <> l -> K_step_b (delete_hash l s) r = K_step_b s r.
Proof.
  intros Hne. unfold K_step_b. rewrite (has_hash_delete_other (sl r) l s Hne). reflexivity.
Qed.

(* every row with label [l] is harmless for K *)
Definition harmless (l : str) (s : st) : Prop :=
  forall r, In r (steps s) -> sl r = l ->
            sstate_eqb (sst r) SSucceeded = false \/ is_detached (KStep, l) s = true.

Lemma K_delete_hash (l : str) (s : st) : harmless l s -> K_b s = true -> K_b (delete_hash l s) = true.
Proof.
  intros Hh HK. unfold K_b in *. rewrite forallb_forall in *. intros r Hr.
  change (steps (delete_hash l s)) with (steps s) in Hr.
  destruct (str_eqb (sl r) l) eqn:E.
  - apply str_eqb_eq in E. destruct (Hh r Hr E) as [Hn|Hd].
    + apply K_step_b_not_succeeded. exact Hn.
    + unfold K_step_b. rewrite E.
      change (is_detached (KStep, l) (delete_hash l s)) with (is_detached (KStep, l) s).
      rewrite Hd. apply orb_true_iff. left. apply orb_true_r.
  - apply str_eqb_false in E. rewrite (K_step_b_delete_hash_other l s r E). exact (HK r Hr).
Qed.

Lemma KI_delete_hash (l : str) (s : st) : harmless l s -> KI s -> KI (delete_hash l s).
Proof.
  intros Hh (Hu & Hsp & HK). split; [exact Hu|]. split; [|exact (K_delete_hash l s Hh HK)].
  intros f l1 l2 Ha H1 H2. exact (Hsp f l1 l2 Ha H1 H2).
Qed.

(* after the row of [l] was set to a state other than SUCCEEDED, [l] is harmless *)
Lemma harmless_after_set (l : str) (new : sstate) (d : bool) (s s' : st) :
  sstate_eqb new SSucceeded = false -> set_sstate l new d s = Ok s' -> find_step l s <> None ->
  harmless l s'.
Proof.
  intros Hnew H Hex. unfold set_sstate in H. destruct (find_step l s) as [r0|]; [|congruence].
  peel H. cbv zeta in H. injection H as <-. intros r Hr Hl. left.
  unfold upd_step in Hr. cbn [steps set_steps] in Hr. apply in_map_iff in Hr.
  destruct Hr as (r1 & Hr1 & _). destruct (str_eqb (sl r1) l) eqn:E.
  - subst r. exact Hnew.
  - subst r. apply str_eqb_false in E. contradiction.
Qed.

(* the other order: the hash goes first, then the row is set (the steps of _reset_step_to_pending) *)
Lemma K_delete_hash_then_set (l : str) (new : sstate) (d : bool) (s s' : st) :
  sstate_eqb new SSucceeded = false ->
  set_sstate l new d (delete_hash l s) = Ok s' -> K_b s = true -> K_b s' = true.
Proof.
  intros Hnew H HK. unfold set_sstate in H.
  change (find_step l (delete_hash l s)) with (find_step l s) in H.
  destruct (find_step l s) as [r0|] eqn:Ef.
  - peel H. cbv zeta in H. injection H as <-.
    unfold K_b in *. rewrite forallb_forall in *. intros r Hr.
    unfold upd_step in Hr. cbn [steps set_steps] in Hr. apply in_map_iff in Hr.
    destruct Hr as (r1 & Hr1 & Hin). change (steps (delete_hash l s)) with (steps s) in Hin.
    rewrite K_step_b_upd_step. destruct (str_eqb (sl r1) l) eqn:E.
    + subst r. apply K_step_b_not_succeeded. exact Hnew.
    + subst r. apply str_eqb_false in E. rewrite (K_step_b_delete_hash_other l s r1 E). exact (HK r1 Hin).
  - injection H as <-. apply K_delete_hash; [|exact HK]. intros r Hr Hl. exfalso.
    unfold find_step in Ef. pose proof (find_none _ _ Ef r Hr) as Hn. cbn in Hn.
    rewrite Hl, str_eqb_refl in Hn. discriminate.
Qed.

(* ------------------------------------------------------------------------------------------ *)
(* Scheduler._reset_step_to_pending (a skip that turned out impossible): OpResetToPending      *)
(* ------------------------------------------------------------------------------------------ *)
Lemma K_op_reset_to_pending_leaf (l : str) (s : st) :
  unique_labels s -> single_producer s -> leaf_step l s ->
  (forall f, In f (file_products_in l is_built (rr_pre l s)) -> producers_not_succ (rr_pre l s) f) ->
  K_b s = true -> K_b (apply_op s (OpResetToPending l)) = true.
Proof.
  intros Hu Hsp Hleaf Hprod HK. unfold apply_op. cbn [step_op].
  destruct (reset_for_rerun l s) as [s1| |] eqn:E1; cbn [bind]; try exact HK.
  pose proof (K_reset_for_rerun_leaf l s s1 Hu Hsp Hleaf Hprod E1 HK) as K1.
  destruct (set_sstate l SPending false (delete_hash l s1)) as [s'| |] eqn:E2; try exact HK.
  exact (K_delete_hash_then_set l SPending false s1 s' eq_refl E2 K1).
Qed.

(* ------------------------------------------------------------------------------------------ *)
(* Step.mark_completed, the failure branches                                                   *)
(* ------------------------------------------------------------------------------------------ *)
(* a step that created no steps: nothing to detach when it fails *)
Definition no_created_steps (l : str) (s : st) : Prop :=
  filter (fun k => kind_eqb (fst k) KStep) (products (KStep, l) s) = [].

Lemma find_step_upd_step_some (l : str) (g : srow -> srow) (s : st) :
  (forall r, sl (g r) = sl r) -> find_step l s <> None -> find_step l (upd_step l g s) <> None.
Proof.
  intros Hg Hex. unfold find_step, upd_step. cbn [steps set_steps].
  rewrite (find_map_upd sl g l l (steps s) Hg), str_eqb_refl.
  unfold find_step in Hex. destruct (find (fun r => str_eqb (sl r) l) (steps s)); [discriminate|congruence].
Qed.

Lemma K_mark_completed_failure_leaf (l : str) (wd : bool) (s s' : st) :
  unique_labels s -> single_producer s ->
  file_products_in l is_built s = [] -> no_created_steps l s ->
  mark_completed l false wd s = Ok s' -> K_b s = true -> K_b s' = true.
Proof.
  intros Hu Hsp Hnb Hleaf H HK. unfold mark_completed in H.
  destruct (negb (is_some (find_step l s))) eqn:Efs; [discriminate|].
  assert (Hex : find_step l s <> None) by (destruct (find_step l s); [discriminate|discriminate Efs]).
  cbn [negb] in H. rewrite Hnb in H. cbn [foldM bind] in H.
  assert (HI : KI s) by (repeat split; assumption).
  (* the state change of the row: PENDING (deferred) or FAILED, possibly after counting *)
  assert (Hrow : forall t t', KI t -> find_step l t <> None -> nodes t = nodes s ->
             (if wd
              then match find_step l t with
                   | None => Internal 120
                   | Some r =>
                     let dc := sdc r + 1 in
                     let t1 := upd_step l (fun r => mkS (sl r) (sst r) (sneed r) (sdef r) dc (shold r)) t in
                     if dc <=? defer_cap t then set_sstate l SPending (has_unavailable_dynamic_input l t1) t1
                     else set_sstate l SFailed false t1
                   end
              else set_sstate l SFailed false t) = Ok t' ->
             KI t' /\ harmless l t' /\ nodes t' = nodes s).
  { intros t t' Ht Hext Hn Hc. destruct wd.
    - destruct (find_step l t) as [r|] eqn:Ef; [|discriminate]. cbv zeta in Hc.
      set (g := fun r0 : srow => mkS (sl r0) (sst r0) (sneed r0) (sdef r0) (sdc r + 1) (shold r0)) in *.
      assert (Hg : forall r0, sl (g r0) = sl r0) by reflexivity.
      assert (I1 : KI (upd_step l g t)) by (apply KI_upd_step; auto).
      assert (Hex1 : find_step l (upd_step l g t) <> None).
      { apply find_step_upd_step_some; [exact Hg|congruence]. }
      assert (Hnodes : forall new d t2, set_sstate l new d (upd_step l g t) = Ok t2 -> nodes t2 = nodes s).
      { intros new d t2 H2. unfold set_sstate in H2. destruct (find_step l (upd_step l g t)); [|injection H2 as <-; exact Hn].
        peel H2. cbv zeta in H2. injection H2 as <-. exact Hn. }
      destruct (sdc r + 1 <=? defer_cap t).
      + split; [exact (KI_set_sstate l SPending _ _ t' eq_refl Hc I1)|].
        split; [exact (harmless_after_set l SPending _ _ t' eq_refl Hc Hex1)|exact (Hnodes _ _ _ Hc)].
      + split; [exact (KI_set_sstate l SFailed _ _ t' eq_refl Hc I1)|].
        split; [exact (harmless_after_set l SFailed _ _ t' eq_refl Hc Hex1)|exact (Hnodes _ _ _ Hc)].
    - split; [exact (KI_set_sstate l SFailed false t t' eq_refl Hc Ht)|].
      split; [exact (harmless_after_set l SFailed false t t' eq_refl Hc Hext)|].
      unfold set_sstate in Hc. destruct (find_step l t); [|injection Hc as <-; exact Hn].
      peel Hc. cbv zeta in Hc. injection Hc as <-. exact Hn. }
  unfold bind in H.
  match type of H with match ?x with _ => _ end = _ => destruct x as [s2| |] eqn:E2; try discriminate end.
  destruct (Hrow s s2 HI Hex eq_refl E2) as (I2 & Hh2 & N2).
  (* nothing to detach *)
  assert (Hdet : detach_created_steps l s2 = Ok s2).
  { unfold detach_created_steps, products. rewrite N2.
    unfold no_created_steps, products in Hleaf. rewrite Hleaf. reflexivity. }
  assert (E3 : match sstate_of l s2 with Some SFailed => detach_created_steps l s2 | _ => Ok s2 end = Ok s2).
  { destruct (sstate_of l s2) as [[]|]; auto. }
  rewrite E3 in H. injection H as <-.
  destruct I2 as (_ & _ & K2). exact (K_delete_hash l s2 Hh2 K2).
Qed.

(* ------------------------------------------------------------------------------------------ *)
(* update_file_hashes(.., FAILED) on outputs that are not up to date                           *)
(* ------------------------------------------------------------------------------------------ *)
(* PLANNED and OUTDATED are both "not usable, not built": moving a file between them changes
   neither input_ok nor output_ok, and the transitions that cause FAILED takes there carry no
   follow-up action *)
Definition unbuilt (f : fstate) : bool := match f with FPlanned | FOutdated => true | _ => false end.

Definition unbuilt_update (hs : list (str * option N)) (s : st) : Prop :=
  forall ph r, In ph hs -> find_file (fst ph) s = Some r -> unbuilt (fstt r) = true.

Definition RowUnbuilt (s : st) (x : planrow) : Prop :=
  exists a0, fstate_of (p_path x) s = Some a0 /\ unbuilt a0 = true /\ unbuilt (p_state x) = true /\
             p_act x = None.

Lemma transition_failed_unbuilt (old : fstate) (known : bool) ns act :
  unbuilt old = true -> transition CFailed old known = Some (ns, act) -> unbuilt ns = true /\ act = None.
Proof.
  intros Hu H. destruct old, known; cbn in Hu, H; try discriminate; injection H as <- <-; auto.
Qed.

Lemma plan_rows_unbuilt (s : st) (hs : list (str * option N)) :
  unbuilt_update hs s ->
  forall acc plan,
    (forall x, In x acc -> RowUnbuilt s x) ->
    foldM (fun acc ph =>
             match find_file (fst ph) s with
             | None => Internal 118
             | Some r => match transition CFailed (fstt r) (is_some (snd ph)) with
                         | None => Internal 119
                         | Some (ns, act) => Ok (acc ++ [mkP (fst ph) (snd ph) ns act])
                         end
             end) hs acc = Ok plan ->
    forall x, In x plan -> RowUnbuilt s x.
Proof.
  induction hs as [|ph hs IH]; intros Hst acc plan Hacc H; cbn [foldM] in H.
  - injection H as <-. exact Hacc.
  - unfold bind in H. destruct (find_file (fst ph) s) as [r|] eqn:Ef; [|discriminate].
    destruct (transition CFailed (fstt r) (is_some (snd ph))) as [[ns act]|] eqn:Et; [|discriminate].
    refine (IH (fun ph' r' Hin => Hst ph' r' (or_intror Hin)) _ plan _ H).
    intros x Hx. apply in_app_or in Hx. destruct Hx as [Hx|[<-|[]]]; [apply Hacc; exact Hx|].
    pose proof (Hst ph r (or_introl eq_refl) Ef) as Hs.
    destruct (transition_failed_unbuilt (fstt r) _ ns act Hs Et) as [H1 H2].
    exists (fstt r). cbn [p_path p_state p_act]. unfold fstate_of. rewrite Ef. auto.
Qed.

Lemma no_actions (plan : list planrow) (a : action) :
  (forall x, In x plan -> p_act x = None) ->
  map p_path (filter (fun x => match p_act x with Some b => action_eqb a b | None => false end) plan) = [].
Proof.
  induction plan as [|x plan IH]; intros H; [reflexivity|]. cbn [filter].
  rewrite (H x (or_introl eq_refl)). apply IH. intros y Hy. apply H. right. exact Hy.
Qed.

Lemma forallb_pointwise {A} (f g : A -> bool) (l : list A) :
  (forall x, f x = g x) -> forallb f l = forallb g l.
Proof. intros H. induction l as [|a l IH]; [reflexivity|]. cbn [forallb]. rewrite H, IH. reflexivity. Qed.

(* the state after the writes: same graph, same step rows, file states equal up to PLANNED <-> OUTDATED *)
Definition UnbuiltMove (s s1 : st) : Prop :=
  same_graph s s1 /\ steps s1 = steps s /\
  forall f, fstate_of f s1 = fstate_of f s \/
            exists a b, fstate_of f s = Some a /\ fstate_of f s1 = Some b /\ unbuilt a = true /\ unbuilt b = true.

Lemma KI_UnbuiltMove (s s1 : st) : UnbuiltMove s s1 -> KI s -> KI s1.
Proof.
  intros (G & St & Ff) (Hu & Hsp & HK). pose proof G as (Nn & Dd & Hh).
  split; [unfold unique_labels; rewrite St; exact Hu|].
  split; [exact (single_producer_same_graph s s1 G Hsp)|].
  assert (Hdet : forall k, is_detached k s1 = is_detached k s).
  { intros k. unfold is_detached, find_node. rewrite Nn. reflexivity. }
  assert (Hin : forall k, input_ok k s1 = input_ok k s).
  { intros k. unfold input_ok. rewrite Hdet. f_equal.
    destruct (Ff (snd k)) as [E|(a & b & Ea & Eb & Ua & Ub)]; [rewrite E; reflexivity|].
    rewrite Ea, Eb. destruct a, b; try discriminate; reflexivity. }
  assert (Hout : forall f, output_ok f s1 = output_ok f s).
  { intros f. unfold output_ok. rewrite Hdet. f_equal.
    destruct (Ff f) as [E|(a & b & Ea & Eb & Ua & Ub)]; [rewrite E; reflexivity|].
    rewrite Ea, Eb. destruct a, b; try discriminate; reflexivity. }
  unfold K_b in *. rewrite St. rewrite forallb_forall in *. intros r Hr. specialize (HK r Hr).
  unfold K_step_b in *. rewrite Hdet.
  assert (E1 : has_hash (sl r) s1 = has_hash (sl r) s) by (unfold has_hash; rewrite Hh; reflexivity).
  assert (E2 : file_inputs_of_step (sl r) s1 = file_inputs_of_step (sl r) s).
  { unfold file_inputs_of_step, sources_of. rewrite Dd. reflexivity. }
  assert (E3 : file_sinks_of_step (sl r) s1 = file_sinks_of_step (sl r) s).
  { unfold file_sinks_of_step, sinks_of. rewrite Dd. reflexivity. }
  rewrite E1, E2, E3.
  rewrite (forallb_pointwise (fun f => input_ok f s1) (fun f => input_ok f s) _ Hin).
  rewrite (forallb_pointwise (fun f => output_ok f s1) (fun f => output_ok f s) _ Hout). exact HK.
Qed.

Lemma update_nothing_failed (s : st) : update_file_hashes CFailed [] s = Ok s.
Proof. reflexivity. Qed.

Lemma update_unbuilt_failed (hs : list (str * option N)) (s s' : st) :
  unbuilt_update hs s -> update_file_hashes CFailed hs s = Ok s' -> UnbuiltMove s s'.
Proof.
  intros Hst H. unfold update_file_hashes, bind in H.
  match type of H with match ?p with _ => _ end = _ => destruct p as [plan| |] eqn:Ep; try discriminate end.
  pose proof (plan_rows_unbuilt s hs Hst [] plan (fun x (F : In x []) => match F with end) Ep) as Hrows.
  change (fun (s0 : st) (x : planrow) =>
            set_fstate_hash (p_path x) (p_state x)
              (Some match p_hash x with Some v => Some v | None => Some 0 end) s0) with write_row in H.
  destruct (foldM write_row plan s) as [s1| |] eqn:E1; try discriminate.
  cbv zeta in H.
  assert (Hnone : forall x, In x plan -> p_act x = None).
  { intros x Hx. destruct (Hrows x Hx) as (_ & _ & _ & _ & Hn). exact Hn. }
  rewrite (no_actions plan AUpdated Hnone), (no_actions plan ADeleted Hnone),
    (no_actions plan ACompleted Hnone) in H.
  cbn [foldM] in H. injection H as <-.
  assert (W1 : WInv s plan s1).
  { apply (writes_inv s plan plan s s1); auto. split; [repeat split|]. split; [reflexivity|]. intros f; left; reflexivity. }
  destruct W1 as (G & St & Ff). split; [exact G|]. split; [exact St|].
  intros f. destruct (Ff f) as [E|(y & Hy & Py & Sy)]; [left; exact E|].
  destruct (Hrows y Hy) as (a0 & Ea & Ua & Ub & _). rewrite Py in Ea.
  right. exists a0, (p_state y). auto.
Qed.

Lemma K_update_unbuilt_failed (hs : list (str * option N)) (s s' : st) :
  unique_labels s -> single_producer s -> unbuilt_update hs s ->
  update_file_hashes CFailed hs s = Ok s' -> K_b s = true -> K_b s' = true.
Proof.
  intros Hu Hsp Hst H HK.
  apply (KI_UnbuiltMove s s' (update_unbuilt_failed hs s s' Hst H)). repeat split; assumption.
Qed.

(* what mark_completed's failure branch looks at is not changed by such an update *)
Lemma UnbuiltMove_products (l : str) (s s1 : st) :
  UnbuiltMove s s1 ->
  file_products_in l is_built s1 = file_products_in l is_built s /\
  (no_created_steps l s -> no_created_steps l s1).
Proof.
  intros ((Nn & _ & _) & _ & Ff). split.
  - unfold file_products_in, products. rewrite Nn. f_equal. apply filter_ext. intros k. f_equal.
    destruct (Ff (snd k)) as [E|(a & b & Ea & Eb & Ua & Ub)]; [rewrite E; reflexivity|].
    rewrite Ea, Eb. destruct a, b; try discriminate; reflexivity.
  - unfold no_created_steps, products. rewrite Nn. auto.
Qed.

(* The end-of-run transaction of a run that failed or was deferred (Executor: the outputs that
   exist are reported with cause FAILED, then Step.mark_completed(success = false)).  Protocol
   hypotheses: nothing is reported for the inputs ([pre] empty), the reported files are outputs
   that are not up to date, the step has no BUILT product left (reset_for_rerun outdated them
   when the run started) and created no steps (a plan step that fails detaches what it created,
   which breaks K on purpose: D4 family). *)
Lemma K_op_exec_end_failure_leaf (l : str) (hs : list (str * option N)) (wd : bool) (s : st) :
  unique_labels s -> single_producer s -> unbuilt_update hs s ->
  file_products_in l is_built s = [] -> no_created_steps l s -> K_b s = true ->
  K_b (apply_op s (OpExecEnd l [] CFailed hs false wd)) = true.
Proof.
  intros Hu Hsp Hst Hnb Hleaf HK. unfold apply_op. cbn [step_op]. rewrite update_nothing_failed. cbn [bind].
  destruct (update_file_hashes CFailed hs s) as [s1| |] eqn:E1; cbn [bind]; try exact HK.
  pose proof (update_unbuilt_failed hs s s1 Hst E1) as Hm.
  destruct (KI_UnbuiltMove s s1 Hm (conj Hu (conj Hsp HK))) as (Hu1 & Hsp1 & K1).
  destruct (UnbuiltMove_products l s s1 Hm) as [Eb Hl1]. rewrite <- Eb in Hnb.
  destruct (mark_completed l false wd s1) as [s'| |] eqn:E2; try exact HK.
  exact (K_mark_completed_failure_leaf l wd s1 s' Hu1 Hsp1 Hnb (Hl1 Hleaf) E2 K1).
Qed.

(* ------------------------------------------------------------------------------------------ *)
(* The same with C09's invariant as the only side condition                                    *)
(* ------------------------------------------------------------------------------------------ *)
Lemma K_op_reset_interrupted_inv (s : st) :
  inv_core_b s = true -> K_b s = true -> K_b (apply_op s OpResetInterrupted) = true.
Proof.
  intros Hi HK. destruct (KI_of_inv s Hi HK) as (Hu & Hsp & _). exact (K_op_reset_interrupted s Hu Hsp HK).
Qed.

Lemma K_op_mark_step_pending_inv (l : str) (s : st) :
  inv_core_b s = true -> K_b s = true -> K_b (apply_op s (OpMarkStepPending l)) = true.
Proof.
  intros Hi HK. destruct (KI_of_inv s Hi HK) as (Hu & Hsp & _). exact (K_op_mark_step_pending l s Hu Hsp HK).
Qed.

Lemma K_op_update_static_inv (c : cause) (hs : list (str * option N)) (s : st) :
  inv_core_b s = true -> static_update hs s -> K_b s = true ->
  K_b (apply_op s (OpUpdateHashes c hs)) = true.
Proof.
  intros Hi Hst HK. destruct (KI_of_inv s Hi HK) as (Hu & Hsp & _).
  exact (K_op_update_static c hs s Hu Hsp Hst HK).
Qed.

Lemma K_op_reset_to_pending_leaf_inv (l : str) (s : st) :
  inv_core_b s = true -> leaf_step l s ->
  (forall f, In f (file_products_in l is_built (rr_pre l s)) -> producers_not_succ (rr_pre l s) f) ->
  K_b s = true -> K_b (apply_op s (OpResetToPending l)) = true.
Proof.
  intros Hi Hleaf Hp HK. destruct (KI_of_inv s Hi HK) as (Hu & Hsp & _).
  exact (K_op_reset_to_pending_leaf l s Hu Hsp Hleaf Hp HK).
Qed.

Lemma K_op_exec_end_failure_leaf_inv (l : str) (hs : list (str * option N)) (wd : bool) (s : st) :
  inv_core_b s = true -> unbuilt_update hs s ->
  file_products_in l is_built s = [] -> no_created_steps l s -> K_b s = true ->
  K_b (apply_op s (OpExecEnd l [] CFailed hs false wd)) = true.
Proof.
  intros Hi Hst Hnb Hleaf HK. destruct (KI_of_inv s Hi HK) as (Hu & Hsp & _).
  exact (K_op_exec_end_failure_leaf l hs wd s Hu Hsp Hst Hnb Hleaf HK).
Qed.
