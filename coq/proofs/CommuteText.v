(* C02, last clause: "the text of an error about two conflicting declarations does not depend on
   which of the two arrived first".

   The declaration layer of workflow.py (who claims which path in which role, the checks of
   _check_declaration / _declare_file / define_step, and the MESSAGES they raise) is modelled in
   model/Claims.v; the message templates, verbs and hints are regenerated from workflow.py on every
   run (translator/gen_claims.py -> gen/GenClaims.v) and `render` fills them.  C08 proves the
   request-level both-orders theorems class by class (proofs/ClaimsProofs.v).  Here they are
   assembled into ONE statement over all pairs of single-path declarations among
     static file  |  amended output / volatile output  |  define_step with one output / volatile output
   (any creators, any two paths, any two labels): from any state satisfying the invariant in which
   each request is acceptable on its own, the two arrival orders are both accepted (equal claim
   tables) or both rejected WITH THE SAME STRUCTURED MESSAGE, hence the same text.

   Refuted pair classes (not covered; open findings of C08, replayed on the real Workflow there):
     glob pattern versus a planned output it matches      pair-asymmetry:glob-after-planned-output-accepted (D3)
   The volatile-output-versus-input pair (D25, fixed in 612b78c) is C08_volatile_input_either_order. *)
From Coq Require Import List NArith Bool.
From SV Require Import lib.Bytes model.Claims proofs.ClaimsProofs.
Import ListNotations.
Open Scope N_scope.

Inductive creq :=
| CqStatic (c : creator) (p : str)                       (* declare_static_files(c, [p]) *)
| CqAmend (s : str) (r : role) (p : str)                 (* amend_step(s, out=[p]) / (s, vol=[p]) *)
| CqDefine (c : creator) (lbl : str) (r : role) (p : str). (* define_step(c, lbl, out=[p]) / vol=[p] *)

Definition creq_req (q : creq) : req :=
  match q with
  | CqStatic c p => RqStatic c [p]
  | CqAmend s r p => amend1 s r p
  | CqDefine c l r p => define1 c l r p
  end.
Definition creq_ok (q : creq) : Prop :=
  match q with CqStatic _ _ => True | CqAmend _ r _ | CqDefine _ _ r _ => product_role r = true end.

(* the text a rejected plan prints *)
Definition err_text (x : res state) : option str :=
  match x with Err m => Some (render m) | Ok _ => None end.

Lemma state_equiv_sym a b : state_equiv a b -> state_equiv b a.
Proof.
  intros (H1 & H2 & H3 & H4 & H5 & H6). repeat split; intros; try (symmetry; auto).
  - apply H5; assumption.
  - apply H5; assumption.
Qed.

Lemma both_equiv_sym a b : both_equiv a b -> both_equiv b a.
Proof.
  destruct a, b; cbn; try contradiction; intros H; [apply state_equiv_sym; exact H | symmetry; exact H].
Qed.

Section Text.
  Variable gm : str -> str -> bool.
  Variable gr : bool.

  Theorem conflict_pair_both_orders st A B :
    Inv gm gr st -> steps_closed (steps st) -> creq_ok A -> creq_ok B ->
    accepted (step gm false gr st (creq_req A)) = true ->
    accepted (step gm false gr st (creq_req B)) = true ->
    both_equiv (run gm false gr st [creq_req A; creq_req B]) (run gm false gr st [creq_req B; creq_req A]).
  Proof.
    intros HI HC OA OB HA HB.
    destruct A as [c1 p1|s1 r1 p1|c1 l1 r1 p1], B as [c2 p2|s2 r2 p2|c2 l2 r2 p2]; cbn [creq_req creq_ok] in *.
    - apply static_static_commute; assumption.
    - apply static_product_commute; assumption.
    - apply both_equiv_sym. apply define_static_commute; assumption.
    - apply both_equiv_sym. apply static_product_commute; assumption.
    - apply product_product_commute; assumption.
    - apply both_equiv_sym. apply define_product_commute; assumption.
    - apply define_static_commute; assumption.
    - apply define_product_commute; assumption.
    - apply define_define_commute; assumption.
  Qed.

  (* acceptance and error text of the plan do not depend on the arrival order *)
  Theorem conflict_text_order_independent st A B :
    Inv gm gr st -> steps_closed (steps st) -> creq_ok A -> creq_ok B ->
    accepted (step gm false gr st (creq_req A)) = true ->
    accepted (step gm false gr st (creq_req B)) = true ->
    accepted (run gm false gr st [creq_req A; creq_req B]) = accepted (run gm false gr st [creq_req B; creq_req A]) /\
    err_text (run gm false gr st [creq_req A; creq_req B]) = err_text (run gm false gr st [creq_req B; creq_req A]).
  Proof.
    intros HI HC OA OB HA HB.
    pose proof (conflict_pair_both_orders st A B HI HC OA OB HA HB) as H.
    destruct (run gm false gr st [creq_req A; creq_req B]), (run gm false gr st [creq_req B; creq_req A]);
      cbn in H |- *; try contradiction; [split; reflexivity|]. subst. split; reflexivity.
  Qed.

  (* the hypotheses on the state hold in every state reachable from the empty workflow *)
  Theorem conflict_text_reachable st A B :
    reachable gm false gr st -> creq_ok A -> creq_ok B ->
    accepted (step gm false gr st (creq_req A)) = true ->
    accepted (step gm false gr st (creq_req B)) = true ->
    err_text (run gm false gr st [creq_req A; creq_req B]) = err_text (run gm false gr st [creq_req B; creq_req A]).
  Proof.
    intros HR OA OB HA HB.
    apply (conflict_text_order_independent st A B); try assumption.
    - eapply reachable_inv; exact HR.
    - eapply reachable_steps_closed; exact HR.
  Qed.
End Text.

(* the same path claimed twice: both orders print the collision text with the parties sorted *)
Example conflict_text_example :
  let st := run_skip w_gm false false empty_state
              [RqDefine CRoot w_plan [] [] []; RqDefine (CStep w_plan) w_A [] [] [];
               RqDefine (CStep w_plan) w_B [] [] []] in
  let A := CqStatic (CStep w_A) w_atxt in
  let B := CqDefine (CStep w_B) [120] ROutput w_atxt in
  accepted (step w_gm false false st (creq_req A)) = true /\
  accepted (step w_gm false false st (creq_req B)) = true /\
  accepted (run w_gm false false st [creq_req A; creq_req B]) = false /\
  err_text (run w_gm false false st [creq_req A; creq_req B]) =
  err_text (run w_gm false false st [creq_req B; creq_req A]) /\
  err_text (run w_gm false false st [creq_req A; creq_req B]) <> None.
Proof. vm_compute. repeat split; try reflexivity. discriminate. Qed.
