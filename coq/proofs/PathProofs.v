(* C20 proofs.  Depends on gen/GenPath.v (regenerated from /repo on every run): the proofs unfold
   the generated definitions of translate / translate_back / get_affixes / apply_affixes /
   keep_affixes / exec_ROOT / exec_HERE, so an edit of those functions breaks them. *)
From Coq Require Import List Arith NArith Bool Lia.
From SV Require Import lib.Bytes lib.PosixPath gen.GenPath model.PathModel.
Import ListNotations.
Open Scope N_scope.

(* ---------- environment ---------- *)
Lemma getenv_root root here d : getenv (mkenv root here) k_STEPUP_ROOT d = root.
Proof. unfold mkenv. cbn [getenv]. rewrite str_eqb_refl. reflexivity. Qed.

Lemma getenv_here root here d : getenv (mkenv root here) k_HERE d = here.
Proof.
  unfold mkenv. cbn [getenv]. change (str_eqb k_STEPUP_ROOT k_HERE) with false. cbn iota.
  rewrite str_eqb_refl. reflexivity.
Qed.

Lemma get_root_mkenv cwd root here : wf_root root = true -> get_stepup_root cwd (mkenv root here) = root.
Proof.
  intros H. unfold get_stepup_root. change ([83;84;69;80;85;80;95;82;79;79;84] : str) with k_STEPUP_ROOT.
  rewrite getenv_root. apply abspath_abs_normalized. exact H.
Qed.

(* With nothing set, the root is the working directory and HERE is ".". *)
Lemma get_root_noenv cwd : wf_root cwd = true -> get_stepup_root cwd [] = cwd.
Proof. intros H. unfold get_stepup_root. cbn [getenv]. apply abspath_abs_normalized. exact H. Qed.

(* ---------- relpathto on arbitrary arguments ---------- *)
Lemma abs_normalized_abspath cwd x : isabs (join2 cwd x) = true -> abs_normalized (abspath cwd x) = true.
Proof. intros H. unfold abspath. apply abs_normalized_normpath. exact H. Qed.

Lemma resolve_relpathto_gen cwd o d :
  isabs (join2 cwd o) = true -> isabs (join2 cwd d) = true ->
  resolve (abspath cwd o) (plib_relpathto cwd o d) = abspath cwd d.
Proof.
  intros Ho Hd.
  pose proof (abs_normalized_abspath _ _ Ho) as Hno. pose proof (abs_normalized_abspath _ _ Hd) as Hnd.
  replace (plib_relpathto cwd o d) with (plib_relpathto cwd (abspath cwd o) (abspath cwd d)).
  - apply resolve_relpathto; assumption.
  - unfold plib_relpathto. rewrite !(abspath_abs_normalized cwd _ Hno), !(abspath_abs_normalized cwd _ Hnd).
    reflexivity.
Qed.

Lemma abspath_of_abs cwd x : isabs x = true -> abspath cwd x = normpath x.
Proof. intros H. unfold abspath. rewrite join2_abs by exact H. reflexivity. Qed.

Lemma resolve_self_dot root : abs_normalized root = true -> resolve root s_dot = root.
Proof.
  intros H. apply abs_normalized_inv in H as [Ha Hn]. rewrite <- Hn at 2. unfold resolve.
  apply normpath_ext.
  - apply nslash_join2. reflexivity.
  - rewrite norm_comps_join2 by reflexivity. reflexivity.
Qed.

Lemma resolve_dot_join d x : resolve d (join2 s_dot x) = resolve d x.
Proof.
  destruct (isabs x) eqn:Hx.
  - rewrite (join2_abs s_dot x Hx). reflexivity.
  - assert (Hj : isabs (join2 s_dot x) = false) by (rewrite isabs_join2_rel; [reflexivity|exact Hx]).
    unfold resolve. apply normpath_ext.
    + rewrite !nslash_join2 by assumption. reflexivity.
    + rewrite !norm_comps_join2 by assumption. rewrite (comps_join2 _ _ Hx). reflexivity.
Qed.

(* ---------- translate ---------- *)
Lemma translate_abs_stable cwd env p wd : isabs p = true -> translate cwd env p wd = normpath p.
Proof. intros H. unfold translate. cbn zeta. rewrite isabs_normpath, H. reflexivity. Qed.

Lemma caller_resolve root here wd p :
  resolve (caller_dir root here wd) p = resolve (join2 root here) (join2 wd p).
Proof.
  unfold caller_dir. rewrite resolve_resolve. unfold resolve at 2. apply resolve_norm_dir.
Qed.

Lemma resolve_join_norms X wd p : resolve X (join2 (normpath wd) (normpath p)) = resolve X (join2 wd p).
Proof.
  rewrite <- !resolve_resolve. rewrite resolve_norm_path.
  unfold resolve at 2 4. rewrite normpath_join2_norm_r. reflexivity.
Qed.

(* General form: any environment in which the root resolves to [root] and HERE to [here]. *)
Lemma translate_designates_same_gen cwd env root here wd p :
  wf_root root = true ->
  get_stepup_root cwd env = root -> getenv env k_HERE (plib_relpath cwd s_dot root) = here ->
  resolve root (translate cwd env p wd) = resolve (caller_dir root here wd) p.
Proof.
  intros Hroot Eroot Ehere. pose proof (abs_normalized_inv _ Hroot) as [Hra Hrn].
  unfold translate. cbn zeta. rewrite !isabs_normpath.
  destruct (isabs p) eqn:Hp; cbn [negb].
  - rewrite resolve_norm_path. rewrite !resolve_abs by exact Hp. reflexivity.
  - destruct (isabs wd) eqn:Hwd; cbn [negb].
    + rewrite resolve_abs by (rewrite isabs_normpath, isabs_join2, !isabs_normpath, Hwd; apply orb_true_r).
      unfold caller_dir. rewrite (resolve_abs _ wd Hwd).
      rewrite normpath_idem, normpath_join2_norm_r. unfold resolve. reflexivity.
    + rewrite Eroot.
      change ([72;69;82;69] : str) with k_HERE. change ([46] : str) with s_dot. rewrite Ehere.
      unfold plib_relpath.
      assert (Habs : isabs (join2 root here) = true) by (rewrite isabs_join2, Hra; apply orb_true_r).
      fold (resolve (join2 root here) (normpath (join2 (normpath wd) (normpath p)))).
      rewrite resolve_relpathto.
      * rewrite resolve_norm_path, resolve_join_norms. symmetry. apply caller_resolve.
      * exact Hroot.
      * apply abs_normalized_resolve. exact Habs.
Qed.

Lemma translate_designates_same cwd root here wd p :
  wf_root root = true ->
  resolve root (translate cwd (mkenv root here) p wd) = resolve (caller_dir root here wd) p.
Proof.
  intros Hroot. apply translate_designates_same_gen;
    [exact Hroot|apply get_root_mkenv; exact Hroot|apply getenv_here].
Qed.

(* Nothing set in the environment (a script run by hand in the project root): the root is the
   working directory and HERE defaults to ".". *)
Lemma relpathto_self cwd : wf_root cwd = true -> plib_relpath cwd s_dot cwd = s_dot.
Proof.
  intros H. unfold plib_relpath, plib_relpathto. rewrite (abspath_abs_normalized _ _ H).
  change (abspath cwd s_dot) with (resolve cwd s_dot). rewrite (resolve_self_dot _ H).
  rewrite Nat.eqb_refl. unfold rel_segments. rewrite strip_common_refl. reflexivity.
Qed.

Lemma translate_designates_same_noenv cwd wd p :
  wf_root cwd = true ->
  resolve cwd (translate cwd [] p wd) = resolve (resolve cwd wd) p.
Proof.
  intros H. rewrite (translate_designates_same_gen cwd [] cwd s_dot wd p H (get_root_noenv _ H)).
  - unfold caller_dir. rewrite (resolve_self_dot _ H). reflexivity.
  - cbn [getenv]. apply relpathto_self. exact H.
Qed.

(* The result is always normalised. *)
Lemma normalized_relpathto cwd o d :
  abs_normalized o = true -> abs_normalized d = true -> normalized (plib_relpathto cwd o d) = true.
Proof.
  intros Ho Hd. unfold plib_relpathto.
  rewrite (abspath_abs_normalized _ _ Ho), (abspath_abs_normalized _ _ Hd).
  destruct (Nat.eqb (nslash o) (nslash d)).
  - destruct (comps_abs_normalized _ Ho) as [Eco Hno]. destruct (comps_abs_normalized _ Hd) as [Ecd Hnd].
    rewrite Eco, Ecd.
    assert (Hg : forallb good (rel_segments (norm_comps o) (norm_comps d)) = true)
      by (apply rel_segments_good; apply norm_comps_good).
    set (segs := rel_segments (norm_comps o) (norm_comps d)) in *.
    assert (Hns : nstack false (rev segs) = true).
    { unfold segs, rel_segments. destruct (strip_common (norm_comps o) (norm_comps d)) as [ro rd] eqn:E.
      destruct (strip_common_spec _ _ _ _ E) as [c [_ Hcd]]. rewrite Hcd in Hnd.
      rewrite forallb_app in Hnd. apply andb_true_iff in Hnd as [_ Hrd].
      rewrite rev_app_distr. clear - Hrd.
      induction rd as [|x rd IH] using rev_ind.
      - cbn [rev app]. apply all_dotdot_nstack. rewrite forallb_rev.
        induction (length ro) as [|n IHn]; [reflexivity|]. cbn [repeat forallb]. exact IHn.
      - rewrite forallb_app in Hrd. apply andb_true_iff in Hrd as [Hrd Hx]. cbn [forallb] in Hx.
        apply andb_true_iff in Hx as [Hx _]. rewrite rev_app_distr. cbn [rev app nstack].
        unfold name in Hx. apply andb_true_iff in Hx as [Hx1 Hx2]. rewrite Hx1.
        apply negb_true_iff in Hx2. rewrite Hx2. cbn [andb]. apply IH. exact Hrd. }
    unfold normalized. apply str_eqb_eq.
    pose proof (isabs_render_rel _ Hg) as Hrel.
    unfold normpath. pose proof (isabs_nslash (render_rel segs)) as Hk. rewrite Hrel in Hk.
    destruct (nslash (render_rel segs)) as [|k] eqn:Ek; [|discriminate].
    unfold norm_comps. rewrite Hrel, run_comps_render_rel by exact Hg.
    rewrite <- (rev_involutive segs) at 1. rewrite run_rev_nstack by exact Hns. rewrite rev_involutive.
    unfold render, render_rel. cbn [repeat app]. destruct segs as [|x r]; [reflexivity|].
    cbn [forallb] in Hg. apply andb_true_iff in Hg as [Hx _].
    destruct (join_slash_cons_good x r Hx) as [h [t [-> _]]]. reflexivity.
  - apply abs_normalized_inv in Hd as [_ Hd]. unfold normalized. rewrite Hd. apply str_eqb_refl.
Qed.

Lemma translate_normalized cwd root here wd p :
  wf_root root = true ->
  normalized (translate cwd (mkenv root here) p wd) = true.
Proof.
  intros Hroot. pose proof (abs_normalized_inv _ Hroot) as [Hra Hrn].
  unfold translate. cbn zeta. rewrite !isabs_normpath.
  destruct (isabs p) eqn:Hp; cbn [negb].
  - unfold normalized. rewrite normpath_idem. apply str_eqb_refl.
  - destruct (isabs wd) eqn:Hwd; cbn [negb].
    + unfold normalized. rewrite normpath_idem. apply str_eqb_refl.
    + rewrite (get_root_mkenv _ _ _ Hroot). unfold plib_relpath. apply normalized_relpathto; [exact Hroot|].
      apply abs_normalized_normpath. rewrite !isabs_join2, Hra. rewrite !orb_true_r. reflexivity.
Qed.

Lemma translate_full : forall cwd root here wd p, wf_root root = true ->
  resolve root (translate cwd (mkenv root here) p wd) = resolve (caller_dir root here wd) p /\
  normalized (translate cwd (mkenv root here) p wd) = true.
Proof.
  intros cwd root here wd p H. split; [apply translate_designates_same|apply translate_normalized]; exact H.
Qed.

Lemma translate_pre_D11_refuted :
  exists cwd root here wd p, wf_root root = true /\
    normalized (translate_pre_D11 cwd (mkenv root here) p wd) = false.
Proof.
  exists [47], [47;114], [46], [47;101;103;103], [46;46;47;120]. split; vm_compute; reflexivity.
Qed.

(* ---------- translate_back ---------- *)
Lemma translate_back_designates_same_gen cwd env root here wd q :
  wf_root root = true ->
  get_stepup_root cwd env = root -> getenv env k_HERE (plib_relpath cwd s_dot root) = here ->
  resolve (caller_dir root here wd) (translate_back cwd env q wd) = resolve root q.
Proof.
  intros Hroot Eroot Ehere. pose proof (abs_normalized_inv _ Hroot) as [Hra Hrn].
  unfold translate_back. cbn zeta. rewrite !isabs_normpath.
  destruct (isabs q) eqn:Hq.
  - rewrite (resolve_abs root q Hq).
    destruct (isabs wd && starts_with (normpath q) (normpath wd)) eqn:Hc.
    + apply andb_true_iff in Hc as [Hwd _]. unfold caller_dir. rewrite (resolve_abs _ wd Hwd).
      unfold plib_relpath. apply resolve_relpathto; apply abs_normalized_normpath; assumption.
    + rewrite resolve_abs by (rewrite isabs_normpath; exact Hq). apply normpath_idem.
  - rewrite Eroot.
    change ([72;69;82;69] : str) with k_HERE. change ([46] : str) with s_dot. rewrite Ehere. unfold plib_relpath.
    set (O := join2 (join2 root here) (normpath wd)). set (D := join2 root (normpath q)).
    assert (HO : isabs O = true) by (unfold O; rewrite !isabs_join2, Hra, !orb_true_r; reflexivity).
    assert (HD : isabs D = true) by (unfold D; rewrite isabs_join2, Hra, orb_true_r; reflexivity).
    assert (EO : caller_dir root here wd = abspath cwd O).
    { rewrite (abspath_of_abs _ _ HO). unfold O, caller_dir. rewrite normpath_join2_norm_r.
      unfold resolve at 2. apply resolve_norm_dir. }
    assert (ED : resolve root q = abspath cwd D).
    { rewrite (abspath_of_abs _ _ HD). unfold D. rewrite normpath_join2_norm_r. reflexivity. }
    rewrite EO, ED. apply resolve_relpathto_gen; rewrite join2_abs; assumption.
Qed.

Lemma translate_back_designates_same cwd root here wd q :
  wf_root root = true ->
  resolve (caller_dir root here wd) (translate_back cwd (mkenv root here) q wd) = resolve root q.
Proof.
  intros Hroot. apply translate_back_designates_same_gen;
    [exact Hroot|apply get_root_mkenv; exact Hroot|apply getenv_here].
Qed.

Lemma translate_back_designates_same_noenv cwd wd q :
  wf_root cwd = true ->
  resolve (resolve cwd wd) (translate_back cwd [] q wd) = resolve cwd q.
Proof.
  intros H. rewrite <- (translate_back_designates_same_gen cwd [] cwd s_dot wd q H (get_root_noenv _ H)).
  - unfold caller_dir. rewrite (resolve_self_dot _ H). reflexivity.
  - cbn [getenv]. apply relpathto_self. exact H.
Qed.

(* ---------- fixpoint ---------- *)
Lemma translate_root_relative cwd root q :
  wf_root root = true -> isabs q = false ->
  translate cwd (mkenv root s_dot) q s_dot = plib_relpathto cwd root (resolve root q).
Proof.
  intros Hroot Hq. pose proof (abs_normalized_inv _ Hroot) as [Hra Hrn].
  unfold translate. cbn zeta. rewrite !isabs_normpath, Hq. cbn [negb].
  change (isabs s_dot) with false. cbn [negb].
  rewrite (get_root_mkenv _ _ _ Hroot). change ([72;69;82;69] : str) with k_HERE. rewrite getenv_here.
  unfold plib_relpath. f_equal.
  fold (resolve (join2 root s_dot) (normpath (join2 (normpath s_dot) (normpath q)))).
  rewrite resolve_norm_path, resolve_join_norms. rewrite <- resolve_norm_dir. fold (resolve root s_dot).
  rewrite (resolve_self_dot _ Hroot). apply resolve_dot_join.
Qed.

Lemma strip_common_app c x : strip_common c (c ++ x) = ([], x).
Proof.
  induction c as [|y c IH]; [destruct x; reflexivity|]. cbn [app strip_common]. rewrite str_eqb_refl. exact IH.
Qed.

Lemma translate_fixpoint cwd root q :
  wf_root root = true -> inside_normalized q = true ->
  translate cwd (mkenv root s_dot) q s_dot = q.
Proof.
  intros Hroot Hq. unfold inside_normalized, rel_normalized in Hq.
  apply andb_true_iff in Hq as [Hq Hnames]. apply andb_true_iff in Hq as [Hrel Hnorm].
  apply negb_true_iff in Hrel. pose proof (normalized_eq _ Hnorm) as Hn.
  rewrite (translate_root_relative _ _ _ Hroot Hrel).
  pose proof (abs_normalized_inv _ Hroot) as [Hra Hrn].
  assert (Hres : abs_normalized (resolve root q) = true) by (apply abs_normalized_resolve; exact Hra).
  unfold plib_relpathto. rewrite (abspath_abs_normalized _ _ Hroot), (abspath_abs_normalized _ _ Hres).
  assert (Hk : nslash (resolve root q) = nslash root).
  { unfold resolve. rewrite nslash_normpath. apply nslash_join2. exact Hrel. }
  rewrite Hk, Nat.eqb_refl.
  destruct (comps_abs_normalized _ Hroot) as [Ecr Hnr]. destruct (comps_abs_normalized _ Hres) as [Ecq _].
  rewrite Ecr, Ecq.
  assert (Hnc : norm_comps (resolve root q) = norm_comps root ++ norm_comps q).
  { unfold norm_comps at 1. unfold resolve at 1 2. rewrite isabs_normpath, run_comps_normpath.
    rewrite (isabs_join2_rel _ _ Hrel), Hra.
    pose proof (run_norm_comps (join2 root q)) as R. rewrite (isabs_join2_rel _ _ Hrel), Hra in R.
    rewrite R, rev_involutive. rewrite (norm_comps_join2 _ _ Hrel), Hra.
    rewrite <- Hn at 1. rewrite run_comps_normpath.
    pose proof (run_norm_comps root) as R2. rewrite Hra in R2.
    fold (norm_comps root) in R2.
    assert (R3 : run true [] (comps root) = rev (norm_comps root)).
    { unfold norm_comps. rewrite Hra, rev_involutive. reflexivity. }
    rewrite R3, (run_push _ _ _ Hnames), rev_app_distr, !rev_involutive. reflexivity. }
  rewrite Hnc. unfold rel_segments. rewrite strip_common_app. cbn [length repeat app].
  rewrite <- Hn at 2. unfold normpath.
  pose proof (isabs_nslash q) as Hkq. rewrite Hrel in Hkq.
  destruct (nslash q) as [|k]; [|discriminate].
  unfold render, render_rel. cbn [repeat app].
  destruct (norm_comps q) as [|x r] eqn:E; [reflexivity|].
  pose proof (norm_comps_good q) as Hg. rewrite E in Hg. cbn [forallb] in Hg. apply andb_true_iff in Hg as [Hx _].
  destruct (join_slash_cons_good x r Hx) as [h [t [-> _]]]. reflexivity.
Qed.

(* ---------- ROOT / HERE ---------- *)
Lemma exec_env_resolves root env wd :
  wf_root root = true ->
  resolve (step_cwd root wd) (exec_ROOT root env wd) = root /\
  resolve root (exec_HERE root env wd) = step_cwd root wd.
Proof.
  intros Hroot. pose proof (abs_normalized_inv _ Hroot) as [Hra Hrn].
  assert (Hjr : forall x, isabs (join2 root x) = true) by (intros x; rewrite isabs_join2, Hra; apply orb_true_r).
  unfold exec_ROOT, exec_HERE, plib_relpath, step_cwd. split.
  - change (resolve root wd) with (abspath root wd).
    rewrite resolve_relpathto_gen by apply Hjr. apply abspath_abs_normalized. exact Hroot.
  - rewrite <- (resolve_self_dot _ Hroot) at 1. change (resolve root s_dot) with (abspath root s_dot).
    change ([46] : str) with s_dot.
    rewrite resolve_relpathto_gen by apply Hjr. reflexivity.
Qed.

Lemma step_translate_end_to_end cwd root wd p :
  wf_root root = true ->
  resolve root (translate cwd (step_env root wd) p s_dot) = resolve (step_cwd root wd) p.
Proof.
  intros Hroot. unfold step_env. rewrite (translate_designates_same _ _ _ _ _ Hroot).
  f_equal. unfold caller_dir, step_HERE. destruct (exec_env_resolves root [] wd Hroot) as [_ H]. rewrite H.
  apply resolve_self_dot. unfold step_cwd. apply abs_normalized_resolve.
  apply abs_normalized_inv in Hroot as [Hra _]. exact Hra.
Qed.

Lemma step_translate_back_end_to_end cwd root wd q :
  wf_root root = true ->
  resolve (step_cwd root wd) (translate_back cwd (step_env root wd) q s_dot) = resolve root q.
Proof.
  intros Hroot. unfold step_env. rewrite <- (translate_back_designates_same cwd root (step_HERE root wd) s_dot q Hroot).
  f_equal. unfold caller_dir, step_HERE. destruct (exec_env_resolves root [] wd Hroot) as [_ H]. rewrite H.
  symmetry. apply resolve_self_dot. unfold step_cwd. apply abs_normalized_resolve.
  apply abs_normalized_inv in Hroot as [Hra _]. exact Hra.
Qed.

(* ---------- affixes ---------- *)
Lemma apply_affixes_eq q l t : apply_affixes q l t = apply_affixes_spec q l t.
Proof.
  unfold apply_affixes, apply_affixes_spec. cbn zeta.
  change ([46;47] : str) with s_dotslash. change ([47] : str) with s_slash.
  destruct (str_eqb l []) eqn:El; cbn [negb andb].
  - apply str_eqb_eq in El. subst l. cbn [app].
    destruct (str_eqb t []) eqn:Et; cbn [negb andb].
    + apply str_eqb_eq in Et. subst t. rewrite app_nil_r. reflexivity.
    + destruct (str_eqb t s_slash) eqn:Et2; cbn [negb]; [|reflexivity].
      destruct (ends_with q s_slash); reflexivity.
  - destruct (str_eqb l s_dotslash) eqn:El2; cbn [negb]; [|reflexivity].
    destruct (starts_with q s_slash || starts_with q s_dotslash); [reflexivity|].
    destruct (str_eqb t []) eqn:Et; cbn [negb andb].
    + apply str_eqb_eq in Et. subst t. rewrite app_nil_r. reflexivity.
    + destruct (str_eqb t s_slash) eqn:Et2; cbn [negb]; [|reflexivity].
      destruct (ends_with (l ++ q) s_slash); [reflexivity|]. rewrite app_assoc. reflexivity.
Qed.

Lemma get_affixes_values p :
  (fst (get_affixes p) = [] \/ fst (get_affixes p) = s_dotslash) /\
  (snd (get_affixes p) = [] \/ snd (get_affixes p) = s_slash).
Proof.
  unfold get_affixes. cbn zeta. destruct (ends_with p [47]); cbn zeta;
    match goal with |- context [if ?c then _ else _] => destruct c end; cbn [fst snd]; auto.
Qed.

Lemma ends_with_snoc a x : ends_with (a ++ [x]) [x] = true.
Proof. unfold ends_with. rewrite rev_app_distr. cbn [rev app is_prefix]. rewrite N.eqb_refl. reflexivity. Qed.

Lemma ends_with_app_nonempty l q c : q <> [] -> ends_with (l ++ q) [c] = ends_with q [c].
Proof.
  intros Hq. unfold ends_with. rewrite rev_app_distr. cbn [rev app].
  destruct (rev q) as [|x r] eqn:E.
  - exfalso. apply Hq. rewrite <- (rev_involutive q), E. reflexivity.
  - reflexivity.
Qed.

Lemma apply_affixes_ok_inv q l t r : apply_affixes q l t = Ok r ->
  (l = [] \/ l = s_dotslash /\ starts_with q s_slash = false /\ starts_with q s_dotslash = false) /\
  (t = [] \/ t = s_slash /\ ends_with (l ++ q) s_slash = false) /\ r = l ++ q ++ t.
Proof.
  rewrite apply_affixes_eq. unfold apply_affixes_spec.
  destruct (str_eqb l []) eqn:El; cbn [negb andb].
  - apply str_eqb_eq in El. destruct (str_eqb t []) eqn:Et; cbn [negb andb].
    + apply str_eqb_eq in Et. intros H. inversion H. auto.
    + destruct (str_eqb t s_slash) eqn:Et2; cbn [negb]; [|discriminate].
      apply str_eqb_eq in Et2. destruct (ends_with (l ++ q) s_slash) eqn:Ee; [discriminate|].
      intros H. inversion H. auto.
  - destruct (str_eqb l s_dotslash) eqn:El2; cbn [negb]; [|discriminate]. apply str_eqb_eq in El2.
    destruct (starts_with q s_slash) eqn:E1; [discriminate|].
    destruct (starts_with q s_dotslash) eqn:E2; [discriminate|]. cbn [orb].
    destruct (str_eqb t []) eqn:Et; cbn [negb andb].
    + apply str_eqb_eq in Et. intros H. inversion H. auto.
    + destruct (str_eqb t s_slash) eqn:Et2; cbn [negb]; [|discriminate].
      apply str_eqb_eq in Et2. destruct (ends_with (l ++ q) s_slash) eqn:Ee; [discriminate|].
      intros H. inversion H. auto 6.
Qed.

(* get_affixes reads back exactly the affixes that apply_affixes put on, provided the bare path
   is non-empty, has no trailing slash and no leading "./" of its own (true of every normalised
   path except "/" and "//"). *)
Lemma get_affixes_apply q l t r :
  apply_affixes q l t = Ok r ->
  q <> [] -> ends_with q s_slash = false -> starts_with q s_dotslash = false ->
  get_affixes r = (l, t).
Proof.
  intros H Hq He Hs. destruct (apply_affixes_ok_inv _ _ _ _ H) as [Hl [Ht ->]].
  assert (Hlead : (if starts_with (l ++ q) s_dotslash then s_dotslash else []) = l).
  { destruct Hl as [->|[-> _]]; [cbn [app]; rewrite Hs; reflexivity|]. reflexivity. }
  unfold get_affixes. cbn zeta. change ([46;47] : str) with s_dotslash. unfold s_slash in *.
  destruct Ht as [->|[-> Hne]].
  - rewrite app_nil_r. rewrite (ends_with_app_nonempty l q 47 Hq), He.
    rewrite Hlead. reflexivity.
  - rewrite app_assoc. rewrite ends_with_snoc, removelast_last.
    rewrite Hlead. reflexivity.
Qed.

(* A normalised path is non-empty and never starts with "./". *)
Lemma normpath_nonempty s : normpath s <> [].
Proof.
  unfold normpath, render. destruct (repeat 47 (nslash s) ++ join_slash (norm_comps s)); discriminate.
Qed.

Lemma starts_with_dotslash_inv x : starts_with x s_dotslash = true -> exists r, x = 46 :: 47 :: r.
Proof.
  unfold starts_with. intros H. apply is_prefix_spec in H as [r Hr]. exists r. exact Hr.
Qed.

Lemma nstack_nondot m S : nstack m S = true -> forallb nondot S = true.
Proof.
  induction S as [|c S IH]; [reflexivity|]. intros Hs. cbn [forallb].
  pose proof (nstack_tail _ _ _ Hs) as Ht. cbn [nstack] in Hs.
  apply andb_true_iff in Hs as [Hd _]. unfold nondot at 1. rewrite Hd. exact (IH Ht).
Qed.

Lemma normalized_no_dotslash x : normalized x = true -> starts_with x s_dotslash = false.
Proof.
  intros Hn. apply normalized_eq in Hn. destruct (starts_with x s_dotslash) eqn:E; [|reflexivity]. exfalso.
  apply starts_with_dotslash_inv in E as [r Hr].
  assert (Hc : comps x = s_dot :: comps r).
  { rewrite Hr. change (46 :: 47 :: r) with ([46] ++ 47 :: r). rewrite comps_app_slash. reflexivity. }
  assert (Hk : nslash x = 0%nat) by (rewrite Hr; reflexivity).
  assert (Hnd : forallb nondot (norm_comps x) = true).
  { rewrite <- forallb_rev. eapply nstack_nondot. apply norm_comps_nstack. }
  revert Hc. rewrite <- Hn at 1. unfold normpath, render. rewrite Hk. cbn [repeat app].
  destruct (norm_comps x) as [|c cs] eqn:Ec.
  - cbn [join_slash]. rewrite Hr in Hn. unfold normpath, render in Hn. rewrite <- Hr, Hk, Ec in Hn.
    cbn in Hn. rewrite Hr in Hn. discriminate.
  - pose proof (norm_comps_good x) as Hg. rewrite Ec in Hg.
    pose proof Hg as Hg'. cbn [forallb] in Hg'. apply andb_true_iff in Hg' as [Hgc _].
    destruct (join_slash_cons_good c cs Hgc) as [h [t [Ej _]]]. rewrite Ej, <- Ej.
    rewrite (comps_join_slash _ Hg). intros Hcc. injection Hcc as Hcd _.
    cbn [forallb] in Hnd. apply andb_true_iff in Hnd as [Hnd _]. rewrite Hcd in Hnd. discriminate.
Qed.

(* _keep_affixes(path, transform): when the transform returns a normalised path that does not end
   in a slash (i.e. is not "/" or "//"), the result carries exactly the affixes of the argument. *)
Lemma keep_affixes_preserves (f : str -> str) p r :
  normalized (f p) = true -> ends_with (f p) s_slash = false ->
  keep_affixes p f = Ok r -> get_affixes r = get_affixes p.
Proof.
  intros Hn He. unfold keep_affixes. destruct (get_affixes p) as [l t] eqn:Ea. intros H.
  apply (get_affixes_apply (f p) l t r H).
  - pose proof (normalized_eq _ Hn) as E. rewrite <- E. apply normpath_nonempty.
  - exact He.
  - apply normalized_no_dotslash. exact Hn.
Qed.

(* ... and exactly when it raises.  Raise 2: the argument starts with "./" but the transform made
   it absolute; Raise 4: the argument ends in "/" and the transform returned "/" or "//". *)
Lemma keep_affixes_result (f : str -> str) p :
  normalized (f p) = true ->
  keep_affixes p f =
    let l := fst (get_affixes p) in let t := snd (get_affixes p) in
    if negb (str_eqb l []) && isabs (f p) then Raise 2
    else if negb (str_eqb t []) && ends_with (f p) s_slash then Raise 4
    else Ok (l ++ f p ++ t).
Proof.
  intros Hn. pose proof (normalized_no_dotslash _ Hn) as Hds.
  assert (Hne : f p <> []) by (rewrite <- (normalized_eq _ Hn); apply normpath_nonempty).
  unfold keep_affixes. destruct (get_affixes_values p) as [Hl Ht].
  destruct (get_affixes p) as [l t]. cbn [fst snd] in *. cbn zeta.
  rewrite apply_affixes_eq. unfold apply_affixes_spec. rewrite Hds, orb_false_r.
  change (starts_with (f p) s_slash) with (is_prefix [47] (f p)).
  assert (Hp : is_prefix [47] (f p) = isabs (f p)).
  { destruct (f p) as [|c x]; [reflexivity|]. cbn [is_prefix isabs]. rewrite andb_true_r. apply N.eqb_sym. }
  rewrite Hp. unfold s_slash in *. rewrite (ends_with_app_nonempty l (f p) 47 Hne).
  destruct Hl as [-> | ->]; destruct Ht as [-> | ->]; cbn [str_eqb negb andb];
    change (str_eqb s_dotslash s_dotslash) with true; change (str_eqb [47] [47]) with true;
    change (str_eqb s_dotslash []) with false; change (str_eqb [47] []) with false; cbn [negb andb];
    try reflexivity.
Qed.

Lemma keep_normpath_result p :
  keep_normpath p =
    if negb (str_eqb (snd (get_affixes p)) []) && ends_with (normpath p) s_slash then Raise 4
    else Ok (fst (get_affixes p) ++ normpath p ++ snd (get_affixes p)).
Proof.
  unfold keep_normpath. rewrite keep_affixes_result by (unfold normalized; rewrite normpath_idem; apply str_eqb_refl).
  cbn zeta. rewrite isabs_normpath.
  destruct (negb (str_eqb (fst (get_affixes p)) []) && isabs p) eqn:E; [|reflexivity]. exfalso.
  apply andb_true_iff in E as [E1 E2]. revert E1. unfold get_affixes. cbn zeta.
  destruct p as [|c p']; [discriminate|]. cbn [isabs] in E2. apply N.eqb_eq in E2. subst c.
  assert (H1 : starts_with (47 :: p') [46;47] = false) by reflexivity.
  assert (H2 : starts_with (removelast (47 :: p')) [46;47] = false).
  { destruct p'; reflexivity. }
  destruct (ends_with (47 :: p') [47]); cbn zeta; rewrite ?H1, ?H2; cbn [fst]; discriminate.
Qed.

(* ---------- affixes do not change the designated file ---------- *)
Lemma starts_with_slash_isabs x : starts_with x s_slash = isabs x.
Proof.
  destruct x as [|c x]; [reflexivity|]. unfold starts_with, s_slash. cbn [is_prefix isabs].
  rewrite andb_true_r. apply N.eqb_sym.
Qed.

Lemma nslash_snoc_slash z : z <> [] -> ends_with z [47] = false -> nslash (z ++ [47]) = nslash z.
Proof.
  intros Hz He. destruct z as [|a [|b [|c z']]]; [congruence| | |reflexivity].
  - unfold ends_with in He. cbn [rev app is_prefix] in He. rewrite andb_true_r, N.eqb_sym in He.
    unfold nslash. cbn [app isabs tl]. rewrite He. reflexivity.
  - unfold ends_with in He. cbn [rev app is_prefix] in He. rewrite andb_true_r, N.eqb_sym in He.
    unfold nslash. cbn [app isabs tl]. rewrite He. reflexivity.
Qed.

Lemma normpath_snoc_slash z : z <> [] -> ends_with z [47] = false -> normpath (z ++ [47]) = normpath z.
Proof.
  intros Hz He. apply normpath_ext; [apply nslash_snoc_slash; assumption|].
  unfold norm_comps. rewrite (isabs_app _ _ Hz), comps_app_slash, comps_nil, app_nil_r. reflexivity.
Qed.

Lemma resolve_snoc_slash d x : x <> [] -> ends_with x [47] = false -> resolve d (x ++ [47]) = resolve d x.
Proof.
  intros Hx He. unfold resolve, join2. rewrite (isabs_app _ _ Hx).
  destruct (isabs x); [apply normpath_snoc_slash; assumption|].
  destruct d as [|c d]; [apply normpath_snoc_slash; assumption|].
  destruct (ends_with (c :: d) [47]).
  - rewrite app_assoc. apply normpath_snoc_slash; [destruct x; [congruence|]; destruct (c :: d); discriminate|].
    rewrite ends_with_app_nonempty by exact Hx. exact He.
  - replace ((c :: d) ++ 47 :: x ++ [47]) with (((c :: d) ++ 47 :: x) ++ [47])
      by (rewrite <- app_assoc; reflexivity).
    apply normpath_snoc_slash; [discriminate|].
    replace ((c :: d) ++ 47 :: x) with (((c :: d) ++ [47]) ++ x) by (rewrite <- app_assoc; reflexivity).
    rewrite ends_with_app_nonempty by exact Hx. exact He.
Qed.

Lemma resolve_dotslash d x : isabs x = false -> resolve d (s_dotslash ++ x) = resolve d x.
Proof.
  intros Hx. rewrite <- (resolve_dot_join d x). f_equal. unfold join2. rewrite Hx. reflexivity.
Qed.

Lemma apply_affixes_same_file d q l t r :
  apply_affixes q l t = Ok r -> q <> [] -> resolve d r = resolve d q.
Proof.
  intros H Hq. destruct (apply_affixes_ok_inv _ _ _ _ H) as [Hl [Ht ->]].
  assert (Hlq : resolve d (l ++ q) = resolve d q).
  { destruct Hl as [-> | [-> [Hs _]]]; [reflexivity|]. apply resolve_dotslash.
    rewrite <- starts_with_slash_isabs. exact Hs. }
  destruct Ht as [-> | [-> He]].
  - rewrite app_nil_r. exact Hlq.
  - rewrite app_assoc. unfold s_slash in *. rewrite resolve_snoc_slash; [exact Hlq| |exact He].
    destruct l; destruct q; try discriminate; congruence.
Qed.

Lemma keep_translate_designates_same cwd root here p r :
  wf_root root = true -> keep_translate cwd (mkenv root here) p = Ok r ->
  resolve root r = resolve (caller_dir root here s_dot) p.
Proof.
  intros Hroot H. unfold keep_translate, keep_affixes in H.
  destruct (get_affixes p) as [l t]. rewrite (apply_affixes_same_file root _ _ _ _ H).
  - unfold api_translate. change translate_default_workdir with s_dot. apply translate_designates_same. exact Hroot.
  - unfold api_translate. rewrite <- (normalized_eq _ (translate_normalized cwd root here translate_default_workdir p Hroot)).
    apply normpath_nonempty.
Qed.

Lemma keep_normpath_same_file d p r : keep_normpath p = Ok r -> resolve d r = resolve d p.
Proof.
  intros H. unfold keep_normpath, keep_affixes in H. destruct (get_affixes p) as [l t].
  rewrite (apply_affixes_same_file d _ _ _ _ H); [apply resolve_norm_path|apply normpath_nonempty].
Qed.

(* ---------- declaration time versus execution time ---------- *)
(* A step running in stored working directory wd1 declares a sub-step with workdir wd2 and path p. *)
Lemma nested_step_translate cwd root wd1 wd2 p :
  wf_root root = true ->
  resolve root (translate cwd (step_env root wd1) p wd2) = resolve (resolve (step_cwd root wd1) wd2) p.
Proof.
  intros Hroot. unfold step_env. rewrite (translate_designates_same _ _ _ _ _ Hroot).
  unfold caller_dir, step_HERE. destruct (exec_env_resolves root [] wd1 Hroot) as [_ H]. rewrite H. reflexivity.
Qed.

(* api.step records tr_workdir = translate(workdir) and the paths translate(p, workdir); the executor
   later launches the command in root/tr_workdir.  A relative path in the command then designates
   the file that was recorded for it. *)
Lemma declared_paths_match_execution cwd root here wd p :
  wf_root root = true ->
  resolve root (translate cwd (mkenv root here) p wd)
  = resolve (step_cwd root (translate cwd (mkenv root here) wd translate_default_workdir)) p.
Proof.
  intros Hroot. rewrite (translate_designates_same _ _ _ _ _ Hroot). f_equal.
  unfold step_cwd. change translate_default_workdir with s_dot.
  rewrite (translate_designates_same _ _ _ _ _ Hroot).
  unfold caller_dir. rewrite resolve_self_dot; [reflexivity|].
  apply abs_normalized_resolve. apply abs_normalized_inv in Hroot as [Hra _]. exact Hra.
Qed.

(* ---------- build targets typed on the command line ---------- *)
Lemma normalize_target_designates_same seen root raw :
  wf_root root = true -> wf_root seen = true ->
  resolve root (normalize_target seen root raw) = resolve seen raw.
Proof.
  intros Hr Hs. unfold normalize_target, plib_relpath.
  unfold resolve at 1. rewrite normpath_join2_norm_r. fold (resolve root (plib_relpathto seen root (abspath seen raw))).
  change (abspath seen raw) with (resolve seen raw).
  apply resolve_relpathto; [exact Hr|].
  apply abs_normalized_resolve. apply abs_normalized_inv in Hs. tauto.
Qed.

Lemma target_flag_true : targets_normalized_in_user_cwd = true.
Proof. reflexivity. Qed.

Lemma cli_target_designates_same user_cwd root raw :
  wf_root root = true -> wf_root user_cwd = true ->
  resolve root (cli_target user_cwd root raw) = resolve user_cwd raw.
Proof.
  intros Hr Hu. unfold cli_target, seen_cwd. rewrite target_flag_true.
  apply normalize_target_designates_same; assumption.
Qed.

Lemma normalize_target_normalized seen root raw : normalized (normalize_target seen root raw) = true.
Proof. unfold normalize_target, normalized. rewrite normpath_idem. apply str_eqb_refl. Qed.

(* ---------- RPC results handed back to the step ---------- *)
Lemma rpc_back_all_translate : forallb (fun f => is_back_translate (snd f)) rpc_back_fields = true.
Proof. reflexivity. Qed.

Lemma rpc_paths_designate_same site m :
  In (site, m) rpc_back_fields ->
  forall cwd root here q, wf_root root = true ->
    resolve (caller_dir root here s_dot) (back_apply m cwd (mkenv root here) q) = resolve root q.
Proof.
  intros Hin cwd root here q Hr.
  pose proof rpc_back_all_translate as H. rewrite forallb_forall in H. specialize (H _ Hin). cbn in H.
  destruct m; [|discriminate]. cbn [back_apply]. change translate_back_default_workdir with s_dot.
  apply translate_back_designates_same. exact Hr.
Qed.

(* ---------- api.amend and its history ---------- *)
Lemma amend_frames_ok_true : amend_frames_ok = true.
Proof. reflexivity. Qed.

Lemma str_in_In x l : str_in x l = true -> In x l.
Proof.
  unfold str_in. rewrite existsb_exists. intros [y [Hy E]]. apply str_eqb_eq in E. subst. exact Hy.
Qed.

(* a request is dropped only when an earlier request designates the same file *)
Lemma amend_drops_only_same_file cwd root here earlier p :
  wf_root root = true ->
  amend_dropped cwd (mkenv root here) earlier p = true ->
  exists p', In p' earlier /\
    resolve (caller_dir root here s_dot) p' = resolve (caller_dir root here s_dot) p.
Proof.
  intros Hr H. unfold amend_dropped, amend_history in H.
  assert (ER : nodup_frames (frames_of HRead) = [FTranslated]) by reflexivity.
  assert (EW : nodup_frames (frames_of HWrite) = [FTranslated]) by reflexivity.
  rewrite ER, EW in H. cbn [existsb flat_map in_frame] in H. rewrite orb_false_r, app_nil_r in H.
  apply str_in_In in H. apply in_flat_map in H. destruct H as [p' [Hp' [E|[]]]].
  exists p'. split; [exact Hp'|].
  change translate_default_workdir with s_dot in E.
  rewrite <- (translate_designates_same cwd root here s_dot p' Hr).
  rewrite <- (translate_designates_same cwd root here s_dot p Hr). rewrite E. reflexivity.
Qed.

(* ... and a repeated request is dropped (the history does its job) *)
Lemma amend_drops_repeats cwd env earlier p : In p earlier -> amend_dropped cwd env earlier p = true.
Proof.
  intros Hin. unfold amend_dropped, amend_history.
  assert (ER : nodup_frames (frames_of HRead) = [FTranslated]) by reflexivity.
  assert (EW : nodup_frames (frames_of HWrite) = [FTranslated]) by reflexivity.
  rewrite ER, EW. cbn [existsb flat_map in_frame]. rewrite orb_false_r, app_nil_r.
  unfold str_in. apply existsb_exists. exists (translate cwd env p translate_default_workdir).
  split; [|apply str_eqb_eq; reflexivity]. apply in_flat_map. exists p. split; [exact Hin|now left].
Qed.
