(* C09: basic lemmas for the proofs about model/Graph.v: decidable equalities, the result monad,
   list search, duplicate freedom. *)
From Coq Require Import List NArith Bool Lia.
From SV Require Import lib.Bytes lib.Closure model.Graph model.GraphInv.
Import ListNotations.
Open Scope N_scope.

(* ------------------------------------------------------------------------------------------ *)
(* equalities                                                                                  *)
(* ------------------------------------------------------------------------------------------ *)
Lemma kind_eqb_eq a b : kind_eqb a b = true <-> a = b.
Proof. destruct a, b; cbn; split; intros H; congruence. Qed.
Lemma kind_eqb_refl a : kind_eqb a a = true.
Proof. destruct a; reflexivity. Qed.

Lemma key_eqb_eq a b : key_eqb a b = true <-> a = b.
Proof.
  destruct a as [ka la], b as [kb lb]. unfold key_eqb. cbn [fst snd].
  rewrite andb_true_iff, kind_eqb_eq, str_eqb_eq. split.
  - intros [-> ->]. reflexivity.
  - intros H. inversion H. auto.
Qed.
Lemma key_eqb_refl a : key_eqb a a = true.
Proof. apply key_eqb_eq. reflexivity. Qed.
Lemma key_eqb_neq a b : key_eqb a b = false <-> a <> b.
Proof.
  rewrite <- key_eqb_eq. destruct (key_eqb a b); split; intros H; congruence.
Qed.
Lemma key_eqb_sym a b : key_eqb a b = key_eqb b a.
Proof.
  destruct (key_eqb a b) eqn:H1, (key_eqb b a) eqn:H2; try reflexivity.
  - apply key_eqb_eq in H1. subst. rewrite key_eqb_refl in H2. discriminate.
  - apply key_eqb_eq in H2. subst. rewrite key_eqb_refl in H1. discriminate.
Qed.
Lemma key_eq_dec (a b : key) : {a = b} + {a <> b}.
Proof.
  destruct (key_eqb a b) eqn:H; [left; apply key_eqb_eq; exact H | right; apply key_eqb_neq; exact H].
Qed.

Lemma str_eqb_neq a b : str_eqb a b = false <-> a <> b.
Proof. rewrite <- str_eqb_eq. destruct (str_eqb a b); split; intros H; congruence. Qed.
Lemma str_eqb_sym a b : str_eqb a b = str_eqb b a.
Proof.
  destruct (str_eqb a b) eqn:H1, (str_eqb b a) eqn:H2; try reflexivity.
  - apply str_eqb_eq in H1. subst. rewrite str_eqb_refl in H2. discriminate.
  - apply str_eqb_eq in H2. subst. rewrite str_eqb_refl in H1. discriminate.
Qed.
Lemma str_eq_dec (a b : str) : {a = b} + {a <> b}.
Proof.
  destruct (str_eqb a b) eqn:H; [left; apply str_eqb_eq; exact H | right; apply str_eqb_neq; exact H].
Qed.

Lemma key_file_eqb a b : key_eqb (KFile, a) (KFile, b) = str_eqb a b.
Proof. reflexivity. Qed.
Lemma key_step_eqb a b : key_eqb (KStep, a) (KStep, b) = str_eqb a b.
Proof. reflexivity. Qed.

Lemma okey_eqb_eq a b : okey_eqb a b = true <-> a = b.
Proof.
  destruct a as [a|], b as [b|]; cbn; try (split; congruence).
  rewrite key_eqb_eq. split; congruence.
Qed.

Lemma fstate_eqb_eq a b : fstate_eqb a b = true <-> a = b.
Proof. destruct a, b; cbn; split; intros H; congruence. Qed.
Lemma sstate_eqb_eq a b : sstate_eqb a b = true <-> a = b.
Proof. destruct a, b; cbn; split; intros H; congruence. Qed.

Lemma mem_key_In x l : mem_key x l = true <-> In x l.
Proof. apply (memb_In key_eqb key_eqb_eq). Qed.
Lemma mem_key_false x l : mem_key x l = false <-> ~ In x l.
Proof. apply (memb_false_In key_eqb key_eqb_eq). Qed.
Lemma mem_str_In x l : mem_str x l = true <-> In x l.
Proof. apply (memb_In str_eqb str_eqb_eq). Qed.

Lemma is_some_true {A} (o : option A) : is_some o = true <-> o <> None.
Proof. destruct o; cbn; split; intros H; congruence. Qed.
Lemma is_some_ex {A} (o : option A) : is_some o = true <-> exists a, o = Some a.
Proof.
  destruct o; cbn; split; intros H; try congruence; try (eexists; reflexivity).
  destruct H; congruence.
Qed.

(* ------------------------------------------------------------------------------------------ *)
(* result monad: weakest preconditions.  strict = true: Internal results are excluded;         *)
(* strict = false: only the Ok result is constrained.                                          *)
(* ------------------------------------------------------------------------------------------ *)
Definition wpg {A} (strict : bool) (r : res A) (Q : A -> Prop) : Prop :=
  match r with
  | Ok a => Q a
  | Usage _ => True
  | Internal _ => if strict then False else True
  end.

Lemma wpg_ok {A} strict (a : A) (Q : A -> Prop) : Q a -> wpg strict (Ok a) Q.
Proof. intros H; exact H. Qed.

Lemma wpg_bind {A B} strict (r : res A) (f : A -> res B) (Q : B -> Prop) :
  wpg strict r (fun a => wpg strict (f a) Q) -> wpg strict (bind r f) Q.
Proof. destruct r; cbn; auto. Qed.

Lemma wpg_weaken {A} strict (r : res A) (Q Q' : A -> Prop) :
  wpg strict r Q -> (forall a, Q a -> Q' a) -> wpg strict r Q'.
Proof. destruct r; cbn; auto. Qed.

Lemma wpg_strict_weaken {A} strict (r : res A) (Q : A -> Prop) :
  wpg true r Q -> wpg strict r Q.
Proof. destruct r, strict; cbn; auto. Qed.

Lemma wpg_internal_lax {A} t (Q : A -> Prop) : wpg false (Internal t) Q.
Proof. exact I. Qed.

Lemma wpg_usage {A} strict t (Q : A -> Prop) : wpg strict (Usage t) Q.
Proof. exact I. Qed.

Lemma wpg_ok_inv {A} strict (r : res A) Q a : wpg strict r Q -> r = Ok a -> Q a.
Proof. intros H ->. exact H. Qed.

Lemma wpg_true_not_internal {A} (r : res A) Q t : wpg true r Q -> r <> Internal t.
Proof. intros H ->. exact H. Qed.

Lemma wpg_foldM {A S} strict (f : S -> A -> res S) (I : S -> Prop) (l : list A) :
  (forall s a, In a l -> I s -> wpg strict (f s a) I) ->
  forall s, I s -> wpg strict (foldM f l s) I.
Proof.
  induction l as [|a l IH]; intros Hf s Hs; cbn [foldM]; [exact Hs|].
  apply wpg_bind. eapply wpg_weaken; [apply Hf; [left; reflexivity | exact Hs]|].
  intros s' Hs'. apply IH; [|exact Hs']. intros s0 a0 Ha0. apply Hf. right. exact Ha0.
Qed.

(* fold with an invariant that may depend on the remaining list *)
Lemma wpg_foldM_rem {A S} strict (f : S -> A -> res S) (I : list A -> S -> Prop) :
  forall (l : list A),
  (forall s a rest, I (a :: rest) s -> wpg strict (f s a) (I rest)) ->
  forall s, I l s -> wpg strict (foldM f l s) (I []).
Proof.
  induction l as [|a l IH]; intros Hf s Hs; cbn [foldM]; [exact Hs|].
  apply wpg_bind. eapply wpg_weaken; [apply Hf; exact Hs|].
  intros s' Hs'. apply IH; [exact Hf | exact Hs'].
Qed.

Lemma fold_left_inv {A S} (f : S -> A -> S) (I : S -> Prop) (l : list A) :
  (forall s a, I s -> I (f s a)) -> forall s, I s -> I (fold_left f l s).
Proof.
  induction l as [|a l IH]; intros Hf s Hs; cbn; [exact Hs|]. apply IH; auto.
Qed.

(* ------------------------------------------------------------------------------------------ *)
(* lists                                                                                       *)
(* ------------------------------------------------------------------------------------------ *)
Lemma find_some_iff {A} (p : A -> bool) l x :
  find p l = Some x -> In x l /\ p x = true.
Proof. apply find_some. Qed.

Lemma find_none_iff {A} (p : A -> bool) l :
  find p l = None <-> (forall x, In x l -> p x = false).
Proof.
  split; [apply find_none|].
  induction l as [|y l IH]; intros H; cbn; [reflexivity|].
  rewrite (H y (or_introl eq_refl)). apply IH. intros x Hx. apply H. right. exact Hx.
Qed.

Lemma find_app {A} (p : A -> bool) l1 l2 :
  find p (l1 ++ l2) = match find p l1 with Some x => Some x | None => find p l2 end.
Proof. induction l1 as [|y l IH]; cbn; [reflexivity|]. destruct (p y); [reflexivity | exact IH]. Qed.

Lemma find_map_key {A} (p : A -> bool) (g : A -> A) l :
  (forall x, p (g x) = p x) -> find p (map g l) = option_map g (find p l).
Proof.
  intros H. induction l as [|y l IH]; cbn; [reflexivity|].
  rewrite H. destruct (p y); [reflexivity | exact IH].
Qed.

Lemma find_filter {A} (p q : A -> bool) l :
  find p (filter q l) = find (fun x => q x && p x) l.
Proof.
  induction l as [|y l IH]; cbn; [reflexivity|].
  destruct (q y); cbn; [destruct (p y); [reflexivity | exact IH] | exact IH].
Qed.

Lemma find_ext {A} (p q : A -> bool) l :
  (forall x, In x l -> p x = q x) -> find p l = find q l.
Proof.
  induction l as [|y l IH]; intros H; cbn; [reflexivity|].
  rewrite (H y (or_introl eq_refl)). destruct (q y); [reflexivity|].
  apply IH. intros x Hx. apply H. right. exact Hx.
Qed.

Lemma forallb_map {A B} (f : A -> B) (p : B -> bool) l :
  forallb p (map f l) = forallb (fun x => p (f x)) l.
Proof. induction l as [|y l IH]; cbn; [reflexivity|]. rewrite IH. reflexivity. Qed.

Lemma existsb_map {A B} (f : A -> B) (p : B -> bool) l :
  existsb p (map f l) = existsb (fun x => p (f x)) l.
Proof. induction l as [|y l IH]; cbn; [reflexivity|]. rewrite IH. reflexivity. Qed.

Lemma existsb_false_iff {A} (p : A -> bool) l :
  existsb p l = false <-> (forall x, In x l -> p x = false).
Proof.
  induction l as [|y l IH]; cbn.
  - split; [intros _ x [] | reflexivity].
  - rewrite orb_false_iff, IH. split.
    + intros [H1 H2] x [->|Hx]; auto.
    + intros H. split; [apply H; left; reflexivity | intros x Hx; apply H; right; exact Hx].
Qed.

(* nodup_by with an equality test that reflects equality of a projection *)
Lemma nodup_by_NoDup {A} (eqb : A -> A -> bool) (l : list A) :
  (forall a b, eqb a b = true <-> a = b) -> (nodup_by eqb l = true <-> NoDup l).
Proof.
  intros Hspec. induction l as [|x l IH]; cbn.
  - split; [constructor | reflexivity].
  - rewrite andb_true_iff, IH, negb_true_iff. split.
    + intros [H1 H2]. constructor; [|exact H2].
      intros Hin. rewrite existsb_false_iff in H1. specialize (H1 x Hin).
      assert (eqb x x = true) by (apply Hspec; reflexivity). congruence.
    + intros H. inversion H as [|x' l' Hn Hd]; subst. split; [|exact Hd].
      apply existsb_false_iff. intros y Hy. destruct (eqb x y) eqn:E; [|reflexivity].
      apply Hspec in E. subst. contradiction.
Qed.

Lemma NoDup_map_filter {A B} (f : A -> B) (p : A -> bool) l :
  NoDup (map f l) -> NoDup (map f (filter p l)).
Proof.
  induction l as [|x l IH]; cbn; intros H; [constructor|].
  inversion H as [|x' l' Hn Hd]; subst. destruct (p x); cbn; [|apply IH; exact Hd].
  constructor; [|apply IH; exact Hd].
  intros Hin. apply Hn. apply in_map_iff in Hin. destruct Hin as [y [Hy1 Hy2]].
  apply filter_In in Hy2. destruct Hy2 as [Hy2 _]. apply in_map_iff. exists y. auto.
Qed.

Lemma NoDup_map_inj {A B} (f : A -> B) l x y :
  NoDup (map f l) -> In x l -> In y l -> f x = f y -> x = y.
Proof.
  induction l as [|z l IH]; cbn; intros Hd Hx Hy He; [contradiction|].
  inversion Hd as [|z' l' Hn Hd']; subst.
  destruct Hx as [->|Hx], Hy as [->|Hy]; try reflexivity.
  - exfalso. apply Hn. rewrite He. apply in_map. exact Hy.
  - exfalso. apply Hn. rewrite <- He. apply in_map. exact Hx.
  - apply IH; assumption.
Qed.

Lemma NoDup_app_single {A} (l : list A) x : NoDup l -> ~ In x l -> NoDup (l ++ [x]).
Proof.
  intros Hd Hn. induction l as [|y l IH]; cbn; [constructor; [intros []|constructor]|].
  inversion Hd as [|y' l' Hy Hd']; subst. constructor.
  - intros Hin. apply in_app_or in Hin. destruct Hin as [Hin|[->|[]]]; [contradiction|].
    apply Hn. left. reflexivity.
  - apply IH; [exact Hd'|]. intros Hin. apply Hn. right. exact Hin.
Qed.

Lemma NoDup_app_r {A} (l1 l2 : list A) : NoDup (l1 ++ l2) -> NoDup l2.
Proof.
  induction l1 as [|x l1 IH]; cbn; intros H; [exact H|].
  inversion H; subst. apply IH. assumption.
Qed.
