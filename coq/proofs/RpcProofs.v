(* C16: proofs about model/Rpc.v.  Depends on gen/GenRpc.v (regenerated from /repo every run):
   the lemmas marked GEN are where a change of the generated facts breaks the proof. *)
From Coq Require Import List Arith NArith Bool Lia.
From SV Require Import lib.Bytes.
From SV Require Import lib.RpcTypes.
From SV Require Import gen.GenRpc.
From SV Require Import model.Rpc.
Import ListNotations.
Open Scope N_scope.

(* ========================================================================================== *)
(* A. Framing                                                                                  *)
(* ========================================================================================== *)

Lemma firstn_len_app {A} (a b : list A) n : length a = n -> firstn n (a ++ b) = a.
Proof.
  intros <-. rewrite firstn_app, Nat.sub_diag, firstn_all. cbn. apply app_nil_r.
Qed.

Lemma skipn_len_app {A} (a b : list A) n : length a = n -> skipn n (a ++ b) = b.
Proof.
  intros <-. rewrite skipn_app, Nat.sub_diag, skipn_all. reflexivity.
Qed.

Definition field_bound : N := 256 ^ N.of_nat FIELD_SIZE.

(* GEN: the layout written by _encode_message *)
Lemma encode_header_concrete id size :
  encode_header id size = be_encode FIELD_SIZE id ++ be_encode FIELD_SIZE size.
Proof.
  unfold encode_header, enc_layout. cbn [flat_map enc_int field_val]. rewrite app_nil_r. reflexivity.
Qed.

(* GEN: the layout read by _decode_header *)
Lemma decode_header_concrete a b :
  length a = FIELD_SIZE -> decode_header (a ++ b) = (be_decode a, be_decode b).
Proof.
  intros Ha. unfold decode_header, dec_field, dec_layout.
  cbn [find hfield_eqb fst snd dec_int slice].
  change (skipn 0 (a ++ b)) with (a ++ b).
  replace (firstn (8 - 0) (a ++ b)) with a by (symmetry; apply firstn_len_app; exact Ha).
  replace (skipn 8 (a ++ b)) with b by (symmetry; apply skipn_len_app; exact Ha).
  reflexivity.
Qed.

Lemma encode_header_length id size : length (encode_header id size) = HEADER_SIZE.
Proof.
  rewrite encode_header_concrete, app_length, !be_encode_length. reflexivity.
Qed.

Lemma header_roundtrip id size :
  id < field_bound -> size < field_bound -> decode_header (encode_header id size) = (id, size).
Proof.
  intros Hi Hs. rewrite encode_header_concrete, decode_header_concrete by apply be_encode_length.
  unfold field_bound in *. rewrite !be_roundtrip by assumption. reflexivity.
Qed.

(* GEN: MAX_BODY_SIZE fits in the size field *)
Lemma max_body_fits : MAX_BODY_SIZE < field_bound.
Proof. reflexivity. Qed.

(* GEN: the comparison of _decode_header *)
Lemma oversized_spec size : oversized size = (MAX_BODY_SIZE <? size).
Proof. reflexivity. Qed.

(* ---------- the reader ---------- *)

Lemma feed_app st a : forall b,
  feed st (a ++ b) =
  let '(s1, i1) := feed st a in let '(s2, i2) := feed s1 b in (s2, i1 ++ i2).
Proof.
  revert st; induction a as [|x a IH]; intros st b.
  - cbn. destruct (feed st b) as [s2 i2]. reflexivity.
  - cbn [app feed]. destruct (feed_byte st x) as [s1 i1]. rewrite IH.
    destruct (feed s1 a) as [s2 i2]. destruct (feed s2 b) as [s3 i3].
    rewrite app_assoc. reflexivity.
Qed.

Lemma feed_dead l : feed RDead l = (RDead, []).
Proof. induction l as [|x l IH]; cbn; [reflexivity|]. rewrite IH. reflexivity. Qed.

Lemma feed_frags_concat frags : forall st, feed_frags st frags = feed st (concat frags).
Proof.
  induction frags as [|f r IH]; intros st; cbn [feed_frags concat]; [reflexivity|].
  rewrite feed_app. destruct (feed st f) as [s1 i1]. rewrite IH. reflexivity.
Qed.

Lemma feed_hdr_gen l : forall acc,
  (length acc + length l = HEADER_SIZE)%nat -> l <> [] ->
  feed (RHdr acc) l = hdr_complete (acc ++ l).
Proof.
  induction l as [|b l IH]; intros acc Hlen Hne; [congruence|].
  cbn [feed feed_byte].
  destruct l as [|b' l'].
  - assert (E : Nat.eqb (length (acc ++ [b])) HEADER_SIZE = true).
    { apply Nat.eqb_eq. rewrite app_length. cbn in *. lia. }
    rewrite E. destruct (hdr_complete (acc ++ [b])) as [s i]. cbn. rewrite app_nil_r. reflexivity.
  - assert (E : Nat.eqb (length (acc ++ [b])) HEADER_SIZE = false).
    { apply Nat.eqb_neq. rewrite app_length. cbn in *. lia. }
    rewrite E. rewrite IH.
    + rewrite <- app_assoc. change ([b] ++ b' :: l') with (b :: b' :: l').
      destruct (hdr_complete (acc ++ b :: b' :: l')) as [s i]. reflexivity.
    + rewrite app_length. cbn in *. lia.
    + discriminate.
Qed.

Lemma feed_body_gen l : forall acc id size,
  N.of_nat (length acc + length l) = size -> l <> [] ->
  feed (RBody id size acc) l = (RHdr [], [IMsg id (Some (acc ++ l))]).
Proof.
  induction l as [|b l IH]; intros acc id size Hlen Hne; [congruence|].
  cbn [feed feed_byte].
  destruct l as [|b' l'].
  - assert (E : N.of_nat (length (acc ++ [b])) =? size = true).
    { apply N.eqb_eq. rewrite <- Hlen, app_length. cbn. reflexivity. }
    rewrite E. cbn. reflexivity.
  - assert (E : N.of_nat (length (acc ++ [b])) =? size = false).
    { apply N.eqb_neq. rewrite <- Hlen, app_length. cbn [length]. intros H. apply Nat2N.inj in H. lia. }
    rewrite E. rewrite (IH (acc ++ [b]) id size).
    + rewrite <- app_assoc. reflexivity.
    + rewrite <- Hlen, app_length. cbn [length]. f_equal. lia.
    + discriminate.
Qed.

Lemma feed_header_exact h :
  length h = HEADER_SIZE -> feed reader_idle h = hdr_complete h.
Proof.
  intros H. unfold reader_idle. rewrite feed_hdr_gen; [reflexivity | cbn; exact H |].
  intros ->. cbn in H. discriminate H.
Qed.

Definition wf_msg (m : N * option str) : Prop :=
  fst m < 2 ^ (8 * N.of_nat FIELD_SIZE) /\ body_size (snd m) <= MAX_BODY_SIZE.

Definition item_of (m : N * option str) : ritem := IMsg (fst m) (normalise (snd m)).

Lemma feed_one_message id body :
  wf_msg (id, body) ->
  feed reader_idle (encode_msg id body) = (reader_idle, [IMsg id (normalise body)]).
Proof.
  intros [Hid Hsz]. cbn [fst snd] in *. rewrite pow2_8w in Hid. fold field_bound in Hid.
  assert (Hs : body_size body < field_bound) by (pose proof max_body_fits; lia).
  unfold encode_msg. rewrite feed_app.
  rewrite feed_header_exact by apply encode_header_length.
  unfold hdr_complete. rewrite header_roundtrip by assumption.
  rewrite oversized_spec.
  assert (E : MAX_BODY_SIZE <? body_size body = false) by (apply N.ltb_ge; exact Hsz).
  rewrite E.
  destruct body as [[|x b]|].
  - cbn. reflexivity.
  - match goal with |- context [?a =? 0] => assert (E0 : a =? 0 = false) end.
    { apply N.eqb_neq. cbn [body_size length]. lia. }
    rewrite E0. rewrite (feed_body_gen (x :: b) [] id); [reflexivity | reflexivity | discriminate].
  - cbn. reflexivity.
Qed.

Lemma feed_messages msgs :
  Forall wf_msg msgs ->
  feed reader_idle (concat (map (fun m => encode_msg (fst m) (snd m)) msgs))
  = (reader_idle, map item_of msgs).
Proof.
  induction 1 as [|[id body] msgs Hm _ IH]; [reflexivity|].
  cbn [map concat fst snd]. rewrite feed_app, (feed_one_message id body Hm), IH. reflexivity.
Qed.

Theorem framing_any_fragmentation (msgs : list (N * option str)) (frags : list str) :
  Forall wf_msg msgs ->
  concat frags = concat (map (fun m => encode_msg (fst m) (snd m)) msgs) ->
  feed_frags reader_idle frags = (reader_idle, map item_of msgs).
Proof.
  intros Hwf Hcat. rewrite feed_frags_concat, Hcat. apply feed_messages. exact Hwf.
Qed.

(* a prefix of the stream yields a prefix of the messages: nothing is invented early *)
Theorem framing_prefix_then_rest (msgs : list (N * option str)) (f1 f2 : list str) :
  Forall wf_msg msgs ->
  concat (f1 ++ f2) = concat (map (fun m => encode_msg (fst m) (snd m)) msgs) ->
  exists st i1 i2, feed_frags reader_idle f1 = (st, i1) /\ feed_frags st f2 = (reader_idle, i2)
                   /\ i1 ++ i2 = map item_of msgs.
Proof.
  intros Hwf Hcat. pose proof (feed_messages msgs Hwf) as H. rewrite <- Hcat in H.
  rewrite concat_app, feed_app in H. rewrite <- (feed_frags_concat f1) in H.
  destruct (feed_frags reader_idle f1) as [st i1] eqn:E1. rewrite <- (feed_frags_concat f2) in H.
  destruct (feed_frags st f2) as [st2 i2] eqn:E2.
  inversion H; subst. exists st, i1, i2. repeat split; try assumption; try reflexivity.
Qed.

Theorem oversized_header_rejected (h rest : str) :
  length h = HEADER_SIZE ->
  oversized (snd (decode_header h)) = true ->
  feed reader_idle (h ++ rest)
  = (RDead, [IOversize (fst (decode_header h)) (snd (decode_header h))]).
Proof.
  intros Hlen Hov. rewrite feed_app, (feed_header_exact h Hlen). unfold hdr_complete.
  destruct (decode_header h) as [id size]. cbn [fst snd] in *. rewrite Hov, feed_dead. reflexivity.
Qed.

Lemma oversized_encoded id size :
  id < field_bound -> size < field_bound -> MAX_BODY_SIZE < size ->
  forall rest, feed reader_idle (encode_header id size ++ rest) = (RDead, [IOversize id size]).
Proof.
  intros Hi Hs Hm rest.
  rewrite oversized_header_rejected; rewrite ?header_roundtrip by assumption; cbn [fst snd].
  - reflexivity.
  - apply encode_header_length.
  - rewrite oversized_spec. apply N.ltb_lt. exact Hm.
Qed.

Lemma empty_body_same_bytes id : encode_msg id (Some []) = encode_msg id None.
Proof. reflexivity. Qed.

(* ========================================================================================== *)
(* B. One connection: every request gets at most one reply, with its own call id              *)
(* ========================================================================================== *)

Definition cnt (id : N) (l : list N) : nat := count_occ N.eq_dec l id.
Definition one (x id : N) : nat := if N.eq_dec x id then 1%nat else 0%nat.

Lemma cnt_app id a b : cnt id (a ++ b) = (cnt id a + cnt id b)%nat.
Proof. apply count_occ_app. Qed.
Lemma cnt_cons id x l : cnt id (x :: l) = (one x id + cnt id l)%nat.
Proof. unfold cnt, one. cbn. destruct (N.eq_dec x id); reflexivity. Qed.
Lemma cnt_nil id : cnt id [] = 0%nat.
Proof. reflexivity. Qed.
Lemma cnt_In id l : In id l <-> (cnt id l > 0)%nat.
Proof. apply count_occ_In. Qed.
Lemma cnt_NoDup id l : NoDup l -> (cnt id l <= 1)%nat.
Proof. intros H. apply (proj1 (NoDup_count_occ N.eq_dec l) H). Qed.

(* how many reply objects / handlers in flight exist for a call id *)
Definition M (c : conn) (id : N) : nat :=
  (cnt id (map fst (c_wire c)) + cnt id (map fst (c_queue c))
   + cnt id (map fst (c_dropped c)) + cnt id (map fst (c_inflight c)))%nat.

Definition acct (c : conn) : Prop := forall id, M c id = cnt id (c_received c).

Ltac dconn c := destruct c as [rd rc sd st fl infl q w dr rcv cmp can inv racy].
Ltac msimp := unfold M; cbn [c_rd c_recv c_send c_stop c_fail c_inflight c_queue c_wire c_dropped
  c_received c_completed c_cancelled c_invoked c_racy set_rd set_recv set_send set_stop set_inflight
  set_queue set_wire set_dropped set_received set_completed set_invoked];
  rewrite ?map_app, ?cnt_app; cbn [map fst]; rewrite ?cnt_cons, ?cnt_nil.

Lemma pump_M c id : M (pump_send c) id = M c id.
Proof.
  dconn c. unfold pump_send. cbn [c_send c_queue c_stop].
  destruct sd; try reflexivity.
  destruct q as [|[i r] q']; [destruct st; reflexivity|].
  destruct r; msimp; lia.
Qed.
Lemma pump_received c : c_received (pump_send c) = c_received c.
Proof.
  dconn c. unfold pump_send. cbn [c_send c_queue c_stop].
  destruct sd; try reflexivity.
  destruct q as [|[i r] q']; [destruct st; reflexivity|]. destruct r; reflexivity.
Qed.
Lemma pump_acct c : acct c -> acct (pump_send c).
Proof. intros H id. rewrite pump_M, pump_received. apply H. Qed.

(* GEN: RPCServerConnection._completed is an unbounded queue, so _queue_reply (put_nowait in a done
   callback) never loses a reply *)
Lemma completed_queue_unbounded c : queue_full c = false.
Proof. reflexivity. Qed.

Lemma enqueue_M r c id : M (enqueue r c) id = (M c id + one (fst r) id)%nat.
Proof.
  dconn c. unfold enqueue, queue_full, completed_maxsize. cbn [c_send]. destruct (sender_alive sd); msimp; lia.
Qed.
Lemma enqueue_received r c : c_received (enqueue r c) = c_received c.
Proof. dconn c. unfold enqueue, queue_full, completed_maxsize. cbn [c_send]. destruct (sender_alive sd); reflexivity. Qed.

(* GEN: _call_and_capture_failure catches BaseException, so a cancelled handler still produces
   a reply object (which nobody sends) *)
Lemma cancel_replies_ids infl : map fst (cancel_replies infl) = map fst infl.
Proof. unfold cancel_replies. cbn. rewrite map_map. reflexivity. Qed.

Lemma teardown_M cause mark c id : M (teardown cause mark c) id = M c id.
Proof.
  dconn c. unfold teardown. cbn [c_fail]. destruct fl; try reflexivity.
  msimp. rewrite cancel_replies_ids. lia.
Qed.
Lemma teardown_received cause mark c : c_received (teardown cause mark c) = c_received c.
Proof. dconn c. unfold teardown. cbn [c_fail]. destruct fl; reflexivity. Qed.
Lemma teardown_acct cause mark c : acct c -> acct (teardown cause mark c).
Proof. intros H id. rewrite teardown_M, teardown_received. apply H. Qed.

Section ServerProofs.
  Variable classify : str -> option request.
  Variable handler : str -> lookup.
  Notation step := (step classify handler).
  Notation run := (run classify handler).
  Notation recv_items := (recv_items classify handler).
  Notation accept := (accept handler).

  Lemma accept_acct id0 rq c : acct c -> acct (accept id0 rq c).
  Proof.
    intros H id. unfold Rpc.accept.
    destruct (dispatch (handler (rq_name rq)) (rq_args_ok rq)).
    - destruct (rq_immediate rq) as [o|].
      + rewrite enqueue_M, enqueue_received. specialize (H id). dconn c. revert H. msimp. cbn [fst]. lia.
      + specialize (H id). dconn c. revert H. msimp. lia.
    - rewrite enqueue_M, enqueue_received. specialize (H id). dconn c. revert H. msimp. cbn [fst]. lia.
    - rewrite enqueue_M, enqueue_received. specialize (H id). dconn c. revert H. msimp. cbn [fst]. lia.
  Qed.

  Lemma set_recv_stop_acct c b r : acct c -> acct (set_recv (set_stop c b) r).
  Proof. intros H id. specialize (H id). dconn c. exact H. Qed.

  Lemma recv_items_acct mark items : forall c, acct c -> acct (recv_items mark items c).
  Proof.
    induction items as [|it rest IH]; intros c H; cbn [Rpc.recv_items]; [exact H|].
    destruct (c_recv c); try exact H.
    destruct it as [id [body|]|id size].
    - destruct (classify body) as [rq|].
      + apply IH. apply accept_acct. exact H.
      + apply teardown_acct. exact H.
    - destruct server_none_rule.
      + apply set_recv_stop_acct. exact H.
      + apply teardown_acct. exact H.
      + apply teardown_acct. exact H.
    - apply teardown_acct. exact H.
  Qed.

  Lemma take_inflight_cnt id l : forall n rest,
    take_inflight id l = Some (n, rest) ->
    forall j, cnt j (map fst l) = (cnt j (map fst rest) + one id j)%nat.
  Proof.
    induction l as [|[i m] l IH]; intros n rest H j; cbn [take_inflight] in H; [discriminate|].
    destruct (N.eqb_spec i id) as [->|Hne].
    - inversion H; subst. cbn [map fst]. rewrite cnt_cons. lia.
    - destruct (take_inflight id l) as [[n' r']|] eqn:E; [|discriminate].
      inversion H; subst. cbn [map fst]. rewrite !cnt_cons. rewrite (IH _ _ eq_refl j). lia.
  Qed.

  Lemma step_acct c e : acct c -> acct (step c e).
  Proof.
    intros H. destruct e as [b|id o| | | | |]; cbn [Rpc.step].
    - destruct (c_recv c) eqn:R; try exact H.
      destruct (feed (c_rd c) b) as [rd' items]. apply pump_acct, recv_items_acct.
      intros id. specialize (H id). dconn c. exact H.
    - destruct (take_inflight id (c_inflight c)) as [[n rest]|] eqn:T; [|exact H].
      apply pump_acct. intros j. rewrite enqueue_M, enqueue_received.
      pose proof (take_inflight_cnt id _ _ _ T j) as Hc. specialize (H j).
      dconn c. revert H Hc. msimp. cbn [fst]. lia.
    - destruct (c_send c) eqn:S; try exact H.
      + apply pump_acct. intros id. specialize (H id). dconn c. exact H.
      + apply teardown_acct. exact H.
    - destruct (c_send c) eqn:S; try exact H.
      + intros id. specialize (H id). dconn c. unfold end_recv. cbn [c_recv set_stop set_send set_dropped set_queue].
        revert H. destruct rc; msimp; lia.
      + apply teardown_acct. exact H.
    - destruct (c_recv c) eqn:R; try exact H.
      apply pump_acct. apply set_recv_stop_acct. exact H.
    - destruct (c_recv c) eqn:R; try exact H. apply teardown_acct. exact H.
    - apply pump_acct. intros id. specialize (H id). dconn c. unfold end_recv. cbn [c_recv set_stop].
      destruct rc; exact H.
  Qed.

  Lemma init_acct : acct conn_init.
  Proof. intros id. reflexivity. Qed.

  Lemma run_acct evs : forall c, acct c -> acct (run c evs).
  Proof.
    induction evs as [|e evs IH]; intros c H; [exact H|]. cbn. apply IH, step_acct, H.
  Qed.
End ServerProofs.

(* ---------- while the connection is up nothing is dropped ---------- *)

Lemma pump_frame c :
  c_recv (pump_send c) = c_recv c /\ c_stop (pump_send c) = c_stop c /\
  c_dropped (pump_send c) = c_dropped c /\ c_invoked (pump_send c) = c_invoked c /\
  c_fail (pump_send c) = c_fail c /\ c_inflight (pump_send c) = c_inflight c /\
  (sender_alive (c_send (pump_send c)) = true -> sender_alive (c_send c) = true).
Proof.
  dconn c. unfold pump_send. cbn [c_send c_queue c_stop].
  destruct sd; try (repeat split; auto; fail).
  destruct q as [|[i r] q']; [destruct st; repeat split; auto|].
  destruct r; repeat split; auto.
Qed.

Lemma up_pump c : conn_up (pump_send c) = true -> conn_up c = true.
Proof.
  destruct (pump_frame c) as (Hr & Hs & _ & _ & _ & _ & Ha). unfold conn_up. rewrite Hr, Hs.
  destruct (c_recv c); try discriminate. intros H. apply andb_true_iff in H as [H1 H2].
  rewrite H1, (Ha H2). reflexivity.
Qed.

Lemma enqueue_frame r c :
  c_recv (enqueue r c) = c_recv c /\ c_stop (enqueue r c) = c_stop c /\ c_send (enqueue r c) = c_send c /\
  c_invoked (enqueue r c) = c_invoked c /\ c_fail (enqueue r c) = c_fail c /\
  c_inflight (enqueue r c) = c_inflight c /\
  (sender_alive (c_send c) = true -> c_dropped (enqueue r c) = c_dropped c).
Proof.
  dconn c. unfold enqueue, queue_full, completed_maxsize. cbn [c_send]. destruct (sender_alive sd); repeat split; auto. discriminate.
Qed.

Lemma teardown_up cause mark c : conn_up (teardown cause mark c) = true -> teardown cause mark c = c.
Proof. dconn c. unfold teardown. cbn [c_fail]. destruct fl; [discriminate | reflexivity | reflexivity]. Qed.

Section ServerProofs2.
  Variable classify : str -> option request.
  Variable handler : str -> lookup.
  Notation step := (step classify handler).
  Notation run := (run classify handler).
  Notation recv_items := (recv_items classify handler).
  Notation accept := (accept handler).

  Lemma accept_frame id rq c :
    c_recv (accept id rq c) = c_recv c /\ c_stop (accept id rq c) = c_stop c /\
    c_send (accept id rq c) = c_send c /\ c_fail (accept id rq c) = c_fail c /\
    (sender_alive (c_send c) = true -> c_dropped (accept id rq c) = c_dropped c).
  Proof.
    unfold Rpc.accept. destruct (dispatch (handler (rq_name rq)) (rq_args_ok rq)).
    - destruct (rq_immediate rq) as [o|].
      + match goal with |- context [enqueue ?r ?c0] => destruct (enqueue_frame r c0) as (A & B & C & D & E & F & G) end.
        rewrite A, B, C, E. dconn c. repeat split; auto.
      + dconn c. repeat split; auto.
    - match goal with |- context [enqueue ?r ?c0] => destruct (enqueue_frame r c0) as (A & B & C & D & E & F & G) end.
      rewrite A, B, C, E. dconn c. repeat split; auto.
    - match goal with |- context [enqueue ?r ?c0] => destruct (enqueue_frame r c0) as (A & B & C & D & E & F & G) end.
      rewrite A, B, C, E. dconn c. repeat split; auto.
  Qed.

  Lemma recv_items_up mark items : forall c,
    conn_up (recv_items mark items c) = true ->
    conn_up c = true /\ c_dropped (recv_items mark items c) = c_dropped c.
  Proof.
    induction items as [|it rest IH]; intros c H; cbn [Rpc.recv_items] in *; [auto|].
    destruct (c_recv c) eqn:R; auto.
    destruct it as [id [body|]|id size].
    - destruct (classify body) as [rq|].
      + destruct (IH _ H) as [U D]. destruct (accept_frame id rq c) as (A & B & C & _ & G).
        assert (Uc : conn_up c = true).
        { unfold conn_up in *. rewrite A, B, C in U. exact U. }
        split; [exact Uc|]. rewrite D. apply G. unfold conn_up in Uc. rewrite R in Uc.
        apply andb_true_iff in Uc. tauto.
      + pose proof (teardown_up _ _ _ H) as T; rewrite T in *; auto.
    - destruct server_none_rule.
      + dconn c. cbn in H. discriminate.
      + pose proof (teardown_up _ _ _ H) as T; rewrite T in *; auto.
      + pose proof (teardown_up _ _ _ H) as T; rewrite T in *; auto.
    - pose proof (teardown_up _ _ _ H) as T; rewrite T in *; auto.
  Qed.

  Lemma step_up c e :
    conn_up (step c e) = true -> conn_up c = true /\ c_dropped (step c e) = c_dropped c.
  Proof.
    destruct e as [b|id o| | | | |]; cbn [Rpc.step]; intros H.
    - destruct (c_recv c) eqn:R; auto.
      destruct (feed (c_rd c) b) as [rd' items].
      destruct (pump_frame (recv_items (length (c_queue c)) items (set_rd c rd'))) as (_ & _ & D & _).
      rewrite D. apply up_pump in H. apply recv_items_up in H as [U D2]. rewrite D2.
      dconn c. auto.
    - destruct (take_inflight id (c_inflight c)) as [[n rest]|]; auto.
      match type of H with context [pump_send ?x] => destruct (pump_frame x) as (_ & _ & D & _) end.
      rewrite D. apply up_pump in H.
      match type of H with context [enqueue ?r ?c0] => destruct (enqueue_frame r c0) as (A & B & C & _ & _ & _ & G) end.
      unfold conn_up in H. rewrite A, B, C in H.
      assert (Uc : conn_up c = true) by (dconn c; exact H).
      split; [exact Uc|]. rewrite G; [dconn c; reflexivity|].
      dconn c. cbn in *. destruct rc; try discriminate. apply andb_true_iff in H. tauto.
    - destruct (c_send c) eqn:S; auto.
      + match type of H with context [pump_send ?x] => destruct (pump_frame x) as (_ & _ & D & _) end.
        rewrite D. apply up_pump in H. dconn c. cbn in *. subst sd. auto.
      + pose proof (teardown_up _ _ _ H) as T; rewrite T in *; auto.
    - destruct (c_send c) eqn:S; auto.
      + dconn c. unfold end_recv in H. cbn in H. destruct rc; cbn in H; discriminate.
      + pose proof (teardown_up _ _ _ H) as T; rewrite T in *; auto.
    - destruct (c_recv c) eqn:R; auto.
      apply up_pump in H. dconn c. cbn in H. discriminate.
    - destruct (c_recv c) eqn:R; auto. pose proof (teardown_up _ _ _ H) as T; rewrite T in *; auto.
    - apply up_pump in H. dconn c. unfold end_recv in H. cbn in H. destruct rc; cbn in H; discriminate.
  Qed.

  Lemma run_up evs : forall c,
    conn_up (run c evs) = true -> conn_up c = true /\ c_dropped (run c evs) = c_dropped c.
  Proof.
    induction evs as [|e evs IH]; intros c H; [auto|].
    change (Rpc.run classify handler c (e :: evs)) with (run (step c e) evs) in *.
    destruct (IH _ H) as [U D]. destruct (step_up _ _ U) as [U2 D2]. rewrite D, D2. auto.
  Qed.

  (* ---------- only exposed procedures are invoked ---------- *)

  (* GEN: the guard chain of _call_procedure *)
  Lemma dispatch_invoke lk ok : dispatch lk ok = DInvoke <-> lk = LAllowed /\ ok = true.
  Proof. destruct lk, ok; cbn; split; intros H; try discriminate; try tauto; destruct H; discriminate. Qed.

  Definition inv_ok (c : conn) : Prop := Forall (fun n => handler n = LAllowed) (c_invoked c).

  Lemma teardown_invoked cause mark c : c_invoked (teardown cause mark c) = c_invoked c.
  Proof. dconn c. unfold teardown. cbn [c_fail]. destruct fl; reflexivity. Qed.

  Lemma accept_inv id rq c : inv_ok c -> inv_ok (accept id rq c).
  Proof.
    unfold inv_ok, Rpc.accept. intros H.
    destruct (dispatch (handler (rq_name rq)) (rq_args_ok rq)) eqn:D.
    - apply dispatch_invoke in D as [D _].
      destruct (rq_immediate rq) as [o|].
      + match goal with |- context [enqueue ?r ?c0] => destruct (enqueue_frame r c0) as (_ & _ & _ & I & _) end.
        rewrite I. dconn c. cbn in *. apply Forall_app. split; [exact H|]. constructor; [exact D|constructor].
      + dconn c. cbn in *. apply Forall_app. split; [exact H|]. constructor; [exact D|constructor].
    - match goal with |- context [enqueue ?r ?c0] => destruct (enqueue_frame r c0) as (_ & _ & _ & I & _) end.
      rewrite I. dconn c. exact H.
    - match goal with |- context [enqueue ?r ?c0] => destruct (enqueue_frame r c0) as (_ & _ & _ & I & _) end.
      rewrite I. dconn c. exact H.
  Qed.

  Lemma recv_items_inv mark items : forall c, inv_ok c -> inv_ok (recv_items mark items c).
  Proof.
    induction items as [|it rest IH]; intros c H; cbn [Rpc.recv_items]; [exact H|].
    destruct (c_recv c); try exact H.
    destruct it as [id [body|]|id size].
    - destruct (classify body) as [rq|].
      + apply IH, accept_inv, H.
      + unfold inv_ok. rewrite teardown_invoked. exact H.
    - destruct server_none_rule.
      + dconn c. exact H.
      + unfold inv_ok. rewrite teardown_invoked. exact H.
      + unfold inv_ok. rewrite teardown_invoked. exact H.
    - unfold inv_ok. rewrite teardown_invoked. exact H.
  Qed.

  Lemma step_inv c e : inv_ok c -> inv_ok (step c e).
  Proof.
    intros H. unfold inv_ok in *.
    destruct e as [b|id o| | | | |]; cbn [Rpc.step].
    - destruct (c_recv c) eqn:R; try exact H.
      destruct (feed (c_rd c) b) as [rd' items].
      match goal with |- context [pump_send ?x] => destruct (pump_frame x) as (_ & _ & _ & I & _) end.
      rewrite I. apply recv_items_inv. dconn c. exact H.
    - destruct (take_inflight id (c_inflight c)) as [[n rest]|]; [|exact H].
      match goal with |- context [pump_send ?x] => destruct (pump_frame x) as (_ & _ & _ & I & _) end.
      rewrite I.
      match goal with |- context [enqueue ?r ?c0] => destruct (enqueue_frame r c0) as (_ & _ & _ & I2 & _) end.
      rewrite I2. dconn c. exact H.
    - destruct (c_send c); try exact H.
      + match goal with |- context [pump_send ?x] => destruct (pump_frame x) as (_ & _ & _ & I & _) end.
        rewrite I. dconn c. exact H.
      + rewrite teardown_invoked. exact H.
    - destruct (c_send c); try exact H.
      + dconn c. unfold end_recv. cbn. destruct rc; exact H.
      + rewrite teardown_invoked. exact H.
    - destruct (c_recv c); try exact H.
      match goal with |- context [pump_send ?x] => destruct (pump_frame x) as (_ & _ & _ & I & _) end.
      rewrite I. dconn c. exact H.
    - destruct (c_recv c); try exact H. rewrite teardown_invoked. exact H.
    - match goal with |- context [pump_send ?x] => destruct (pump_frame x) as (_ & _ & _ & I & _) end.
      rewrite I. dconn c. unfold end_recv. cbn. destruct rc; exact H.
  Qed.

  Lemma run_inv evs : forall c, inv_ok c -> inv_ok (run c evs).
  Proof. induction evs as [|e evs IH]; intros c H; [exact H|]. cbn. apply IH, step_inv, H. Qed.
End ServerProofs2.

(* ========================================================================================== *)
(* C. The packaged statements                                                                  *)
(* ========================================================================================== *)

Lemma M_split c id :
  M c id = (cnt id (reply_ids c) + cnt id (inflight_ids c))%nat.
Proof. unfold M, reply_ids, inflight_ids. rewrite !cnt_app. lia. Qed.

Theorem reply_exactly_once classify handler (evs : list event) :
  let c := run classify handler conn_init evs in
  (* every reply object (written, queued or dropped) belongs to one received request, and a
     request has exactly one reply object as soon as its handler is no longer in flight *)
  (forall id, (cnt id (reply_ids c) + cnt id (inflight_ids c))%nat = cnt id (c_received c))
  (* a reply carries the call id of a request that was received *)
  /\ (forall id, In id (reply_ids c) -> In id (c_received c))
  (* with distinct call ids (what the clients send): at most one reply per call id *)
  /\ (NoDup (c_received c) -> forall id, (cnt id (reply_ids c) <= 1)%nat)
  (* while the connection is up nothing is dropped: a request whose handler ended has its
     reply written or queued, exactly once per request *)
  /\ (conn_up c = true ->
      c_dropped c = [] /\
      forall id, (cnt id (map fst (c_wire c) ++ map fst (c_queue c)) + cnt id (inflight_ids c))%nat
                 = cnt id (c_received c)).
Proof.
  intros c. pose proof (run_acct classify handler evs conn_init init_acct) as A. fold c in A.
  assert (A' : forall id, (cnt id (reply_ids c) + cnt id (inflight_ids c))%nat = cnt id (c_received c)).
  { intros id. rewrite <- M_split. apply A. }
  split; [exact A'|]. split; [|split].
  - intros id H. apply cnt_In. apply cnt_In in H. specialize (A' id). lia.
  - intros ND id. pose proof (cnt_NoDup id _ ND). specialize (A' id). lia.
  - intros U. destruct (run_up classify handler evs conn_init U) as [_ D]. fold c in D.
    cbn in D. split; [exact D|]. intros id. specialize (A' id). unfold reply_ids in A'.
    rewrite D in A'. cbn [map] in A'. rewrite app_nil_r in A'. exact A'.
Qed.

Theorem only_allowed_invoked classify handler (evs : list event) :
  Forall (fun n => handler n = LAllowed) (c_invoked (run classify handler conn_init evs)).
Proof. apply run_inv. constructor. Qed.

Lemma director_handler_allowed n : director_handler n = LAllowed -> In n director_allowed.
Proof.
  unfold director_handler. destruct (existsb (str_eqb n) director_allowed) eqn:E.
  - intros _. apply existsb_exists in E as [x [Hx Hq]]. apply str_eqb_eq in Hq. subst. exact Hx.
  - destruct (existsb (str_eqb n) director_not_allowed); discriminate.
Qed.

Theorem director_invokes_only_exposed classify (evs : list event) :
  Forall (fun n => In n director_allowed) (c_invoked (run classify director_handler conn_init evs)).
Proof.
  eapply Forall_impl; [|apply only_allowed_invoked]. intros n. apply director_handler_allowed.
Qed.

(* GEN: from_exception / to_exception / _raise_remote_error *)
Theorem failure_class_mapping :
  (forall e, ex_usage e = true -> ex_importable e = true -> ex_subclass e = true ->
             ex_ctor_ok e = true -> client_raises false e = CESame)
  /\ (forall e debug, ex_usage e = false -> client_raises debug e = CEGeneric)
  /\ (forall e, client_raises true e = CEGeneric)
  /\ (forall u, kind_of (result_of (ORaise u)) = if u then KUsage else KGeneric)
  /\ (forall lk ok, dispatch lk ok = DInvoke \/ dispatch lk ok = DRefuse ERPCError).
Proof.
  repeat split.
  - intros [u i s k]; cbn; intros -> -> -> ->. reflexivity.
  - intros [u i s k] debug; cbn; intros ->. destruct debug; reflexivity.
  - intros [[] [] [] []]; reflexivity.
  - intros []; reflexivity.
  - intros [] []; cbn; auto.
Qed.

(* ---------- several connections ---------- *)

Fixpoint events_for (j : nat) (evs : list (nat * event)) : list event :=
  match evs with
  | [] => []
  | (i, e) :: r => if Nat.eqb i j then e :: events_for j r else events_for j r
  end.

Lemma step_at_nth classify handler e : forall d i j,
  nth_error (step_at classify handler d i e) j =
  if Nat.eqb i j then option_map (fun c => step classify handler c e) (nth_error d j)
  else nth_error d j.
Proof.
  induction d as [|c d IH]; intros i j.
  - cbn. destruct j; destruct (Nat.eqb i _); reflexivity.
  - destruct i as [|i], j as [|j]; cbn; try reflexivity. apply IH.
Qed.

(* GEN: the state of a connection is created per instance and the server hands in nothing shared, so an
   event of the product system is an event of the addressed connection and of nothing else *)
Lemma step_dir_is_step_at classify handler d i e :
  step_dir classify handler d i e = step_at classify handler d i e.
Proof. reflexivity. Qed.

Theorem connections_independent classify handler (evs : list (nat * event)) : forall (d : director) j,
  nth_error (run_director classify handler d evs) j =
  option_map (fun c => run classify handler c (events_for j evs)) (nth_error d j).
Proof.
  induction evs as [|[i e] evs IH]; intros d j.
  - cbn. destruct (nth_error d j); reflexivity.
  - cbn [run_director fold_left fst snd events_for].
    change (fold_left _ evs ?x) with (run_director classify handler x evs).
    rewrite IH, step_dir_is_step_at, step_at_nth. destruct (Nat.eqb i j).
    + destruct (nth_error d j); reflexivity.
    + reflexivity.
Qed.

Lemma events_for_app j a b : events_for j (a ++ b) = events_for j a ++ events_for j b.
Proof.
  induction a as [|[i e] a IH]; cbn [app events_for]; [reflexivity|].
  destruct (Nat.eqb i j); cbn [app]; rewrite IH; reflexivity.
Qed.

(* non-interference over the product system: whatever happens on OTHER connections, anywhere in the
   history, leaves connection a exactly as it is without those events *)
Theorem other_connections_do_not_interfere classify handler (d : director) (evs1 evs2 noise : list (nat * event)) a :
  Forall (fun ie => fst ie <> a) noise ->
  nth_error (run_director classify handler d (evs1 ++ noise ++ evs2)) a =
  nth_error (run_director classify handler d (evs1 ++ evs2)) a.
Proof.
  intros H. rewrite !connections_independent, !events_for_app.
  assert (E : events_for a noise = []).
  { induction noise as [|[i e] n IH]; [reflexivity|]. inversion H; subst. cbn [events_for fst] in *.
    destruct (Nat.eqb_spec i a) as [->|_]; [congruence|]. apply IH. assumption. }
  rewrite E. reflexivity.
Qed.

(* ---------- empty body ---------- *)

Theorem empty_body_is_sentinel id :
  id < 2 ^ (8 * N.of_nat FIELD_SIZE) ->
  (* b"" and None are the same bytes, read back as None *)
  encode_msg id (Some []) = encode_msg id None
  /\ feed reader_idle (encode_msg id (Some [])) = (reader_idle, [IMsg id None])
  (* server: the close request: stop, no reply, no task, later requests are not read *)
  /\ (forall classify handler rest,
        let c := step classify handler conn_init (EvRecv (encode_msg id None ++ rest)) in
        c_stop c = true /\ c_recv c = REnded /\ c_received c = [] /\ reply_ids c = []
        /\ status_of c = StClosed)
  (* client: the pending call with that id is told that no reply is coming *)
  /\ (forall k w rest, k_alive k = true -> pop_pending id (k_pending k) = Some (w, rest) ->
        client_items [IMsg id None] k
        = mk_client (k_rd k) true false (k_counter k) rest
                    (if w then k_done k ++ [(id, CRBody None)] else k_done k)).
Proof.
  intros Hid. split; [reflexivity|]. split.
  - apply (feed_one_message id (Some [])). split; [exact Hid|]. cbn. discriminate.
  - split.
    + intros classify handler rest c. subst c. cbn [step conn_init c_recv c_rd c_queue length].
      rewrite feed_app.
      rewrite (feed_one_message id None) by (split; [exact Hid | cbn; discriminate]).
      destruct (feed reader_idle rest) as [s2 i2]. cbn. repeat split; reflexivity.
    + intros k w rest Ha Hp. cbn [client_items]. rewrite Ha, Hp. reflexivity.
Qed.

(* ========================================================================================== *)
(* D. The clients                                                                              *)
(* ========================================================================================== *)

Lemma pop_pending_spec id l : forall w rest,
  pop_pending id l = Some (w, rest) ->
  exists l1 l2, l = l1 ++ (id, w) :: l2 /\ rest = l1 ++ l2 /\ ~ In id (map fst l1).
Proof.
  induction l as [|[i v] l IH]; intros w rest H; cbn [pop_pending] in H; [discriminate|].
  destruct (N.eqb_spec i id) as [->|Hne].
  - inversion H; subst. exists [], rest. cbn. auto.
  - destruct (pop_pending id l) as [[w' r']|] eqn:E; [|discriminate].
    inversion H; subst. destruct (IH _ _ eq_refl) as (l1 & l2 & -> & -> & Hn).
    exists ((i, v) :: l1), l2. cbn. repeat split; auto. intros [->|Hin]; [congruence | auto].
Qed.

Lemma pop_pending_none id l : pop_pending id l = None <-> ~ In id (map fst l).
Proof.
  induction l as [|[i v] l IH]; cbn [pop_pending map fst In]; [tauto|].
  destruct (N.eqb_spec i id) as [->|Hne].
  - split; [discriminate | intros H; exfalso; apply H; auto].
  - destruct (pop_pending id l) as [[w' r']|].
    + split; [discriminate|]. intros H. assert (Hn : ~ In id (map fst l)) by tauto.
      apply IH in Hn. discriminate.
    + split; [|reflexivity]. intros _ [->|Hin]; [congruence|]. apply (proj1 IH eq_refl Hin).
Qed.

Lemma pop_pending_cnt id l w rest :
  pop_pending id l = Some (w, rest) ->
  forall j, cnt j (map fst l) = (cnt j (map fst rest) + one id j)%nat.
Proof.
  intros H j. destruct (pop_pending_spec _ _ _ _ H) as (l1 & l2 & -> & -> & _).
  rewrite !map_app, !cnt_app. cbn [map fst]. rewrite cnt_cons. lia.
Qed.

Lemma cnt_filter_le j (l : list (N * bool)) f : (cnt j (map fst (filter f l)) <= cnt j (map fst l))%nat.
Proof.
  induction l as [|x l IH]; cbn [filter map]; [lia|].
  destruct (f x); cbn [map]; rewrite ?cnt_cons; lia.
Qed.

Lemma cnt_rev j l : cnt j (rev l) = cnt j l.
Proof. induction l as [|x l IH]; cbn [rev]; [reflexivity|]. rewrite cnt_app, !cnt_cons, cnt_nil, IH. lia. Qed.

(* each call id that was issued has at most one entry, pending or delivered, never both;
   nothing exists for ids that were not issued; a loop that ended leaves nothing pending *)
Definition client_ok (k : client) : Prop :=
  (forall j, (cnt j (map fst (k_pending k)) + cnt j (map fst (k_done k))
              <= if ((1 <=? j)%N && (j <=? k_counter k)%N)%bool then 1 else 0)%nat)
  /\ (k_alive k = false -> k_pending k = []).

Lemma fail_all_ok f k : client_ok k -> client_ok (fail_all f k).
Proof.
  intros [H _]. split; [|reflexivity]. intros j. specialize (H j). unfold fail_all.
  cbn [k_pending k_done k_counter map]. rewrite map_app, cnt_app, map_map. cbn [fst].
  pose proof (cnt_filter_le j (rev (k_pending k)) snd) as F.
  rewrite map_rev, cnt_rev in F. change (fun x : N * bool => fst x) with (@fst N bool).
  rewrite cnt_nil. lia.
Qed.

Lemma client_items_ok items : forall k, client_ok k -> client_ok (client_items items k).
Proof.
  induction items as [|it rest IH]; intros k H; cbn [client_items]; [exact H|].
  destruct (k_alive k) eqn:A; [|exact H].
  destruct it as [id body|id size]; [|apply fail_all_ok, H].
  destruct (pop_pending id (k_pending k)) as [[w rp]|] eqn:P; [|apply fail_all_ok, H].
  apply IH. destruct H as [H _]. split; [|discriminate]. intros j. specialize (H j).
  pose proof (pop_pending_cnt _ _ _ _ P j) as C. cbn [k_pending k_done k_counter].
  destruct w; rewrite ?map_app, ?cnt_app; cbn [map fst]; rewrite ?cnt_cons, ?cnt_nil; lia.
Qed.

Lemma cstep_ok k e : client_ok k -> client_ok (cstep k e).
Proof.
  intros H. destruct e as [|id|b| |]; cbn [cstep].
  - destruct (k_alive k) eqn:A; [|exact H]. destruct H as [H _]. split; [|discriminate].
    intros j. specialize (H j). cbn [k_pending k_done k_counter].
    rewrite map_app, cnt_app. cbn [map fst]. rewrite cnt_cons, cnt_nil. unfold one.
    destruct (N.eq_dec (k_counter k + 1) j) as [<-|Hne].
    + assert (E1 : (1 <=? k_counter k + 1) && (k_counter k + 1 <=? k_counter k + 1) = true).
      { apply andb_true_iff. split; apply N.leb_le; lia. }
      assert (E2 : (1 <=? k_counter k + 1) && (k_counter k + 1 <=? k_counter k) = false).
      { apply andb_false_iff. right. apply N.leb_gt. lia. }
      rewrite E1. rewrite E2 in H. lia.
    + destruct ((1 <=? j) && (j <=? k_counter k)) eqn:E.
      * apply andb_true_iff in E as [E1 E2]. apply N.leb_le in E2.
        assert (E3 : j <=? k_counter k + 1 = true) by (apply N.leb_le; lia).
        rewrite E1, E3. cbn. lia.
      * destruct ((1 <=? j) && (j <=? k_counter k + 1)); lia.
  - destruct H as [H Hp]. split.
    + intros j. specialize (H j). cbn [k_pending k_done k_counter]. rewrite map_map.
      assert (E : map (fun x : N * bool => fst (if fst x =? id then (fst x, false) else x)) (k_pending k)
                  = map fst (k_pending k)).
      { apply map_ext. intros [a b]. cbn. destruct (a =? id); reflexivity. }
      rewrite E. exact H.
    + intros A. cbn [k_alive k_pending] in *. rewrite (Hp A). reflexivity.
  - destruct (k_alive k) eqn:A; [|exact H]. destruct (feed (k_rd k) b) as [rd' items].
    apply client_items_ok. destruct H as [H _]. split; [exact H | discriminate].
  - destruct (k_alive k); [apply fail_all_ok|]; exact H.
  - assert (G : client_ok (mk_client (k_rd k) (k_alive k) (k_failed k) (k_counter k + 1) (k_pending k) (k_done k))).
    { destruct H as [H Hp]. split; [|exact Hp].
      intros j. specialize (H j). cbn [k_pending k_done k_counter].
      destruct ((1 <=? j) && (j <=? k_counter k)) eqn:E.
      + apply andb_true_iff in E as [E1 E2]. apply N.leb_le in E2.
        assert (E3 : j <=? k_counter k + 1 = true) by (apply N.leb_le; lia).
        rewrite E1, E3. exact H.
      + destruct ((1 <=? j) && (j <=? k_counter k + 1)); lia. }
    destruct (k_alive k); [apply fail_all_ok|]; exact G.
Qed.

Lemma client_init_ok : client_ok client_init.
Proof. split; [intros j; cbn; destruct ((1 <=? j) && (j <=? 0)); lia | discriminate]. Qed.

Theorem client_pairs_by_id :
  (* a response resolves exactly the pending call with its id; the others are untouched *)
  (forall k id body w rest, k_alive k = true -> pop_pending id (k_pending k) = Some (w, rest) ->
     client_items [IMsg id body] k
     = mk_client (k_rd k) true false (k_counter k) rest
                 (if w then k_done k ++ [(id, CRBody body)] else k_done k)
     /\ exists l1 l2, k_pending k = l1 ++ (id, w) :: l2 /\ rest = l1 ++ l2 /\ ~ In id (map fst l1))
  (* a response for an unknown id ends the loop; every waiting caller is told the connection is lost *)
  /\ (forall k id body, k_alive k = true -> ~ In id (map fst (k_pending k)) ->
     client_items [IMsg id body] k = fail_all true k)
  (* when the connection ends every pending call is failed *)
  /\ (forall k f, k_pending (fail_all f k) = [] /\ k_alive (fail_all f k) = false /\
      forall id, In (id, true) (k_pending k) -> In (id, CRConnLost) (k_done (fail_all f k)))
  (* over any history: per issued call id at most one entry, pending or delivered *)
  /\ (forall evs, client_ok (crun client_init evs)).
Proof.
  split; [|split; [|split]].
  - intros k id body w rest A P. split.
    + cbn [client_items]. rewrite A, P. reflexivity.
    + apply pop_pending_spec. exact P.
  - intros k id body A Hn. cbn [client_items]. rewrite A.
    apply pop_pending_none in Hn. rewrite Hn. reflexivity.
  - intros k f. split; [reflexivity|]. split; [reflexivity|].
    intros id Hin. unfold fail_all. cbn [k_done]. apply in_or_app. right.
    apply in_map_iff. exists (id, true). split; [reflexivity|].
    apply filter_In. split; [apply in_rev; rewrite rev_involutive; exact Hin | reflexivity].
  - intros evs0. unfold crun.
    assert (G : forall k, client_ok k -> client_ok (fold_left cstep evs0 k)).
    { induction evs0 as [|e evs1 IH]; intros k Hk; [exact Hk|]. cbn. apply IH, cstep_ok, Hk. }
    apply G, client_init_ok.
Qed.


(* ========================================================================================== *)
(* E. Local facts                                                                              *)
(* ========================================================================================== *)

Lemma oversized_header_fails_connection classify handler (c : conn) (h rest : str) :
  c_recv c = RRun -> c_fail c = FNone -> c_rd c = reader_idle ->
  length h = HEADER_SIZE -> oversized (snd (decode_header h)) = true ->
  let c' := step classify handler c (EvRecv (h ++ rest)) in
  status_of c' = StFailedRecv /\ c_wire c' = c_wire c /\ c_inflight c' = [] /\ c_queue c' = [].
Proof.
  intros R F Hrd Hlen Hov. cbn [step]. rewrite R, Hrd, (oversized_header_rejected h rest Hlen Hov).
  dconn c. cbn in R, F, Hrd. subst. cbn. repeat split; reflexivity.
Qed.

Lemma handler_failure_is_local classify handler (c : conn) id usage n rest :
  take_inflight id (c_inflight c) = Some (n, rest) ->
  let c' := step classify handler c (EvComplete id (ORaise usage)) in
  c_inflight c' = rest /\ c_fail c' = c_fail c /\ c_recv c' = c_recv c /\ c_stop c' = c_stop c
  /\ c_cancelled c' = c_cancelled c /\ c_received c' = c_received c.
Proof.
  intros T. cbn [step]. rewrite T. dconn c. unfold enqueue, queue_full, completed_maxsize, pump_send. cbn.
  destruct sd; cbn; try (repeat split; reflexivity).
  destruct q as [|[i r] q']; cbn.
  - destruct usage; cbn; repeat split; reflexivity.
  - destruct r; cbn; repeat split; reflexivity.
Qed.

Lemma unpicklable_result_disturbs_siblings :
  exists classify handler evs,
    let c := run classify handler conn_init evs in
    c_wire c = [(2, KSentinel)] /\ c_cancelled c = [1; 3] /\ status_of c = StFailedSend.
Proof.
  exists (fun b => match b with [1] | [2] | [3] => Some (mk_rq [119] true None) | _ => None end),
         (fun _ => LAllowed),
         [EvRecv (encode_msg 1 (Some [1]) ++ encode_msg 2 (Some [2]) ++ encode_msg 3 (Some [3]));
          EvComplete 2 OUnpicklable; EvSent].
  vm_compute. repeat split; reflexivity.
Qed.

Lemma sync_client_checks_id expected id body rest :
  wf_msg (id, body) ->
  fst (fst (fst (sync_recv expected reader_idle [] ((encode_msg id body ++ rest) :: []))))
  = if id =? expected then SyOk (normalise body) else SyMismatch id.
Proof.
  intros Hwf. cbn [sync_recv].
  destruct (encode_msg id body ++ rest) as [|x l] eqn:E.
  - apply (f_equal (@length N)) in E. unfold encode_msg in E.
    rewrite !app_length, encode_header_length in E. cbn in E. discriminate E.
  - rewrite <- E, feed_app, (feed_one_message id body Hwf).
    destruct (feed reader_idle rest) as [s2 i2]. cbn. destruct (id =? expected); reflexivity.
Qed.

(* ========================================================================================== *)
(* F. No stuck state: every reachable state can still end                                      *)
(* ========================================================================================== *)

Definition completes (c : conn) : list event :=
  map (fun e => EvComplete (fst e) OReturn) (c_inflight c).

Definition okc (c : conn) : Prop := c_recv c <> RDeadLoop /\ c_send c <> SDead.
Definition inv2 (c : conn) : Prop := c_fail c = FNone -> okc c.

Lemma teardown_failed cause mark c : cause <> FNone -> c_fail (teardown cause mark c) <> FNone.
Proof. intros H. dconn c. unfold teardown. cbn [c_fail]. destruct fl; cbn; congruence. Qed.

Lemma teardown_inv2 cause mark c : cause <> FNone -> inv2 c -> inv2 (teardown cause mark c).
Proof.
  intros Hc H F. exfalso. revert F. dconn c. unfold teardown. cbn [c_fail].
  destruct fl; cbn; intros F; try congruence.
Qed.

Lemma pump_send_nd c : c_send c <> SDead -> c_send (pump_send c) <> SDead.
Proof.
  dconn c. unfold pump_send. cbn [c_send c_queue c_stop]. intros H.
  destruct sd; try exact H. destruct q as [|[i r] q']; [destruct st; cbn; congruence|].
  destruct r; cbn; congruence.
Qed.

Lemma pump_inv2 c : inv2 c -> inv2 (pump_send c).
Proof.
  intros H F. destruct (pump_frame c) as (R & _ & _ & _ & Fl & _). rewrite Fl in F.
  destruct (H F) as [A B]. split; [rewrite R; exact A | apply pump_send_nd, B].
Qed.

Lemma pump_failed c : c_fail c <> FNone -> c_fail (pump_send c) <> FNone.
Proof. destruct (pump_frame c) as (_ & _ & _ & _ & Fl & _). rewrite Fl. auto. Qed.

Section ServerProofs3.
  Variable classify : str -> option request.
  Variable handler : str -> lookup.
  Notation step := (step classify handler).
  Notation run := (run classify handler).
  Notation recv_items := (recv_items classify handler).
  Notation accept := (accept handler).

  Lemma accept_inv2 id rq c : inv2 c -> inv2 (accept id rq c).
  Proof.
    intros H F. destruct (accept_frame handler id rq c) as (A & _ & C & Fl & _).
    rewrite Fl in F. destruct (H F) as [X Y]. split; [rewrite A | rewrite C]; assumption.
  Qed.

  Lemma recv_items_inv2 mark items : forall c, inv2 c -> inv2 (recv_items mark items c).
  Proof.
    induction items as [|it rest IH]; intros c H; cbn [Rpc.recv_items]; [exact H|].
    destruct (c_recv c) eqn:R; try exact H.
    destruct it as [id [body|]|id size].
    - destruct (classify body) as [rq|].
      + apply IH, accept_inv2, H.
      + apply teardown_inv2; [discriminate | exact H].
    - destruct server_none_rule.
      + intros F. assert (F' : c_fail c = FNone) by (dconn c; exact F).
        destruct (H F') as [_ B]. dconn c. split; cbn in *; [discriminate | exact B].
      + apply teardown_inv2; [discriminate | exact H].
      + apply teardown_inv2; [discriminate | exact H].
    - apply teardown_inv2; [discriminate | exact H].
  Qed.

  Lemma recv_items_failed mark items : forall c,
    c_fail c <> FNone -> c_fail (recv_items mark items c) <> FNone.
  Proof.
    induction items as [|it rest IH]; intros c H; cbn [Rpc.recv_items]; [exact H|].
    destruct (c_recv c) eqn:R; try exact H.
    destruct it as [id [body|]|id size].
    - destruct (classify body) as [rq|].
      + apply IH. destruct (accept_frame handler id rq c) as (_ & _ & _ & Fl & _). rewrite Fl. exact H.
      + apply teardown_failed. discriminate.
    - destruct server_none_rule.
      + dconn c. exact H.
      + apply teardown_failed. discriminate.
      + apply teardown_failed. discriminate.
    - apply teardown_failed. discriminate.
  Qed.

  Lemma step_inv2 c e : inv2 c -> inv2 (step c e).
  Proof.
    intros H. destruct e as [b|id o| | | | |]; cbn [Rpc.step].
    - destruct (c_recv c) eqn:R; try exact H.
      destruct (feed (c_rd c) b) as [rd' items]. apply pump_inv2, recv_items_inv2.
      intros F. assert (F' : c_fail c = FNone) by (dconn c; exact F).
      destruct (H F') as [A B]. dconn c. split; assumption.
    - destruct (take_inflight id (c_inflight c)) as [[n rest]|]; [|exact H].
      apply pump_inv2. intros F.
      match type of F with context [enqueue ?r ?c0] => destruct (enqueue_frame r c0) as (A & _ & C & _ & Fl & _) end.
      rewrite Fl in F. assert (F' : c_fail c = FNone) by (dconn c; exact F).
      destruct (H F') as [X Y]. split; [rewrite A | rewrite C]; dconn c; assumption.
    - destruct (c_send c) eqn:S; try exact H.
      + apply pump_inv2. intros F. assert (F' : c_fail c = FNone) by (dconn c; exact F).
        destruct (H F') as [X Y]. dconn c. split; cbn in *; [exact X | discriminate].
      + apply teardown_inv2; [discriminate | exact H].
    - destruct (c_send c) eqn:S; try exact H.
      + intros F. assert (F' : c_fail c = FNone) by (dconn c; unfold end_recv in F; cbn in F; destruct rc; exact F).
        destruct (H F') as [X Y]. dconn c. destruct rc; unfold end_recv; cbn in *; split; cbn; congruence.
      + apply teardown_inv2; [discriminate | exact H].
    - destruct (c_recv c) eqn:R; try exact H.
      apply pump_inv2. intros F. assert (F' : c_fail c = FNone) by (dconn c; exact F).
      destruct (H F') as [X Y]. dconn c. cbn in *. split; [discriminate | exact Y].
    - destruct (c_recv c) eqn:R; try exact H. apply teardown_inv2; [discriminate | exact H].
    - apply pump_inv2. intros F.
      assert (F' : c_fail c = FNone) by (dconn c; unfold end_recv in F; cbn in F; destruct rc; exact F).
      destruct (H F') as [X Y]. dconn c. destruct rc; unfold end_recv; cbn in *; split; cbn; congruence.
  Qed.

  Lemma step_failed c e : c_fail c <> FNone -> c_fail (step c e) <> FNone.
  Proof.
    intros H. destruct e as [b|id o| | | | |]; cbn [Rpc.step].
    - destruct (c_recv c) eqn:R; try exact H.
      destruct (feed (c_rd c) b) as [rd' items]. apply pump_failed, recv_items_failed. dconn c. exact H.
    - destruct (take_inflight id (c_inflight c)) as [[n rest]|]; [|exact H].
      apply pump_failed.
      match goal with |- context [enqueue ?r ?c0] => destruct (enqueue_frame r c0) as (_ & _ & _ & _ & Fl & _) end.
      rewrite Fl. dconn c. exact H.
    - destruct (c_send c) eqn:S; try exact H.
      + apply pump_failed. dconn c. exact H.
      + apply teardown_failed. discriminate.
    - destruct (c_send c) eqn:S; try exact H.
      + dconn c. unfold end_recv. cbn. destruct rc; exact H.
      + apply teardown_failed. discriminate.
    - destruct (c_recv c) eqn:R; try exact H. apply pump_failed. dconn c. exact H.
    - destruct (c_recv c) eqn:R; try exact H. apply teardown_failed. discriminate.
    - apply pump_failed. dconn c. unfold end_recv. cbn. destruct rc; exact H.
  Qed.

  Lemma run_inv2 evs : forall c, inv2 c -> inv2 (run c evs).
  Proof. induction evs as [|e evs IH]; intros c H; [exact H|]. cbn. apply IH, step_inv2, H. Qed.

  Lemma run_failed evs : forall c, c_fail c <> FNone -> c_fail (run c evs) <> FNone.
  Proof. induction evs as [|e evs IH]; intros c H; [exact H|]. cbn. apply IH, step_failed, H. Qed.

  Lemma failed_not_up c : c_fail c <> FNone -> status_of c <> StUp.
  Proof. unfold status_of. destruct (c_fail c); [congruence | discriminate | discriminate]. Qed.

  Lemma two_steps c :
    c_fail c = FNone -> okc c ->
    let c2 := step (step c EvStop) EvSendFail in
    c_fail c2 <> FNone \/
    (c_fail c2 = FNone /\ c_recv c2 = REnded /\ c_send c2 = SEnded /\ c_inflight c2 = c_inflight c).
  Proof.
    intros F [A B]. dconn c. cbn in F, A, B. subst fl.
    destruct rc; try congruence; destruct sd; try congruence; cbn;
      try (destruct q as [|[i r] q']; cbn; try destruct r; cbn);
      try (right; repeat split; reflexivity); try (left; discriminate).
  Qed.

  Lemma drain_completes l0 : forall c,
    c_fail c = FNone -> c_recv c = REnded -> c_send c = SEnded -> c_inflight c = l0 ->
    status_of (run c (map (fun e => EvComplete (fst e) OReturn) l0)) = StClosed.
  Proof.
    induction l0 as [|[i n] l0 IH]; intros c F R S I.
    - dconn c. cbn in *. subst. reflexivity.
    - cbn [map fst]. change (run c (?e :: ?l)) with (run (step c e) l).
      apply IH; dconn c; cbn in F, R, S, I; subst; cbn [Rpc.step c_inflight take_inflight];
        rewrite N.eqb_refl; reflexivity.
  Qed.

  Lemma never_stuck_from c :
    inv2 c -> status_of (run c ([EvStop; EvSendFail] ++ completes c)) <> StUp.
  Proof.
    intros H. destruct (c_fail c) eqn:F.
    - change (run c ([EvStop; EvSendFail] ++ completes c))
        with (run (step (step c EvStop) EvSendFail) (completes c)).
      destruct (two_steps c F (H F)) as [X | (F2 & R2 & S2 & I2)].
      + apply failed_not_up, run_failed, X.
      + unfold completes. rewrite <- I2. rewrite (drain_completes _ _ F2 R2 S2 eq_refl). discriminate.
    - apply failed_not_up, run_failed. congruence.
    - apply failed_not_up, run_failed. congruence.
  Qed.

  Theorem never_stuck (evs : list event) :
    let c := run conn_init evs in
    status_of (run c ([EvStop; EvSendFail] ++ completes c)) <> StUp.
  Proof.
    intros c. apply never_stuck_from. apply run_inv2. intros _. split; discriminate.
  Qed.
End ServerProofs3.
