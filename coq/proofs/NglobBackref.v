(* C17 part 2: a repeated name only matches equal substrings -- from the semantics of named
   groups and back-references in lib/Regex.v. *)
From Coq Require Import List NArith Bool Arith Lia.
From SV Require Import lib.Bytes.
From SV Require Import lib.Regex.
From SV Require Import model.Nglob.
Import ListNotations.
Open Scope N_scope.

(* Matching a list of parts piece by piece: the i-th piece is the text matched by the i-th part. *)
Inductive mt_parts : list re -> env -> list str -> env -> Prop :=
| MPnil e : mt_parts [] e [] e
| MPcons r rs e s e1 ss e2 :
    mt r e s e1 -> mt_parts rs e1 ss e2 -> mt_parts (r :: rs) e (s :: ss) e2.

Lemma mt_parts_nil_inv e ss e' : mt_parts [] e ss e' -> ss = [] /\ e' = e.
Proof. intros H. inversion H; subst. split; reflexivity. Qed.

Lemma mt_parts_cons_inv r rs e ss e' : mt_parts (r :: rs) e ss e' ->
  exists s ss' e1, ss = s :: ss' /\ mt r e s e1 /\ mt_parts rs e1 ss' e'.
Proof. intros H. inversion H; subst. eexists _, _, _. repeat split; eassumption. Qed.

Lemma mt_cat_inv a b e s e' : mt (RCat a b) e s e' ->
  exists s1 s2 e1, s = s1 ++ s2 /\ mt a e s1 e1 /\ mt b e1 s2 e'.
Proof. intros H. inversion H; subst. eexists _, _, _. repeat split; eassumption. Qed.

Lemma mt_rcat ps : forall e s e',
  mt (rcat ps) e s e' <-> exists ss, concat ss = s /\ mt_parts ps e ss e'.
Proof.
  induction ps as [|r rs IH]; intros e s e'.
  - cbn. split.
    + intros H. inversion H; subst. exists []. split; [reflexivity|constructor].
    + intros [ss [Hc H]]. apply mt_parts_nil_inv in H as [-> ->]. cbn in Hc. subst. constructor.
  - destruct rs as [|r2 rs'].
    + cbn [rcat]. split.
      * intros H. exists [s]. split; [cbn; apply app_nil_r|]. econstructor; [exact H|constructor].
      * intros [ss [Hc H]]. apply mt_parts_cons_inv in H as [s0 [ss' [e1 [-> [Hr Hrs]]]]].
        apply mt_parts_nil_inv in Hrs as [-> ->]. cbn in Hc. rewrite app_nil_r in Hc. subst. exact Hr.
    + change (rcat (r :: r2 :: rs')) with (RCat r (rcat (r2 :: rs'))). split.
      * intros H. apply mt_cat_inv in H as [s1 [s2 [e1 [-> [Ha Hb]]]]].
        apply IH in Hb as [ss [Hc Hp]].
        exists (s1 :: ss). split; [cbn; congruence|]. econstructor; eassumption.
      * intros [ss [Hc H]]. apply mt_parts_cons_inv in H as [s0 [ss' [e1 [-> [Hr Hrs]]]]].
        cbn [concat] in Hc. subst s.
        econstructor; [exact Hr|]. apply IH. exists ss'. split; [reflexivity|exact Hrs].
Qed.

Lemma nogrp_env r e s e' : mt r e s e' -> nogrp r = true -> e' = e.
Proof.
  induction 1; cbn [nogrp]; intros Hn; try reflexivity; try discriminate;
    try (apply andb_true_iff in Hn as [Ha Hb]); auto.
  - rewrite IHmt2, IHmt1; auto.
  - rewrite IHmt2, IHmt1; auto.
  - rewrite IHmt2, IHmt1; auto.
Qed.

Lemma mem_str_In' p ps : mem_str p ps = true <-> In p ps.
Proof.
  unfold mem_str. rewrite existsb_exists. split.
  - intros [q [Hin Heq]]. apply str_eqb_eq in Heq. subst. exact Hin.
  - intros Hin. exists p. split; [exact Hin|apply str_eqb_refl].
Qed.

Lemma env_get_set_other n m v e : n <> m -> env_get n (env_set m v e) = env_get n e.
Proof.
  intros Hne. unfold env_set. cbn. destruct (str_eqb n m) eqn:E; [|reflexivity].
  apply str_eqb_eq in E. congruence.
Qed.

Lemma env_get_set_same n v e : env_get n (env_set n v e) = Some v.
Proof. unfold env_set. cbn. rewrite str_eqb_refl. reflexivity. Qed.

(* one part: names other than the part's own group keep their binding *)
Lemma part_keeps r e s e1 n : mt r e s e1 -> part_flat r = true ->
  ~ In n (grp_names [r]) -> env_get n e1 = env_get n e.
Proof.
  intros Hm Hf Hn. destruct r; try (rewrite (nogrp_env _ _ _ _ Hm Hf); reflexivity).
  inversion Hm; subst. cbn in Hf.
  match goal with Ha : mt _ _ _ _ |- _ => rewrite (nogrp_env _ _ _ _ Ha Hf) end.
  apply env_get_set_other. intros ->. apply Hn. left. reflexivity.
Qed.

Lemma grp_names_cons r rs : grp_names (r :: rs) = grp_names [r] ++ grp_names rs.
Proof. destruct r; reflexivity. Qed.

Lemma parts_keep ps : forall e ss e', mt_parts ps e ss e' -> forallb part_flat ps = true ->
  forall n, ~ In n (grp_names ps) -> env_get n e' = env_get n e.
Proof.
  induction ps as [|r rs IH]; intros e ss e' H Hf n Hn.
  - apply mt_parts_nil_inv in H as [_ ->]. reflexivity.
  - apply mt_parts_cons_inv in H as [s0 [ss' [e1 [-> [Hr Hrs]]]]].
    cbn [forallb] in Hf. apply andb_true_iff in Hf as [Hf1 Hf2].
    rewrite grp_names_cons, in_app_iff in Hn.
    rewrite (IH _ _ _ Hrs Hf2 n); [|tauto]. eapply part_keeps; eauto.
Qed.

(* a back-reference to a name that no part of the list defines spells the outer binding *)
Lemma ref_spells_outer ps : forall e ss e', mt_parts ps e ss e' -> forallb part_flat ps = true ->
  forall j n, nth_error ps j = Some (RRef n) -> ~ In n (grp_names ps) ->
  exists v, env_get n e = Some v /\ nth_error ss j = Some v.
Proof.
  induction ps as [|r rs IH]; intros e ss e' H Hf j n Hj Hn; [destruct j; discriminate|].
  apply mt_parts_cons_inv in H as [s0 [ss' [e1 [-> [Hr Hrs]]]]].
  cbn [forallb] in Hf. apply andb_true_iff in Hf as [Hf1 Hf2].
  rewrite grp_names_cons, in_app_iff in Hn.
  destruct j as [|j]; cbn [nth_error] in *.
  - inversion Hj; subst. inversion Hr; subst. exists s0. split; [assumption|reflexivity].
  - destruct (IH _ _ _ Hrs Hf2 j n Hj) as [v [Hv Hs]]; [tauto|].
    exists v. split; [|exact Hs]. rewrite <- Hv. symmetry. eapply part_keeps; eauto.
Qed.

Lemma nodup_str_spec l : nodup_str l = true -> NoDup l.
Proof.
  induction l as [|x r IH]; cbn; [constructor|].
  intros H. apply andb_true_iff in H as [H1 H2]. constructor; [|apply IH; exact H2].
  intros Hin. apply mem_str_In' in Hin. rewrite Hin in H1. discriminate.
Qed.

Theorem backref_equal_substrings_parts ps : forall e ss e',
  mt_parts ps e ss e' -> parts_ok ps = true ->
  forall i j n a, (i < j)%nat ->
    nth_error ps i = Some (RGrp n a) -> nth_error ps j = Some (RRef n) ->
    exists v, nth_error ss i = Some v /\ nth_error ss j = Some v /\ env_get n e' = Some v.
Proof.
  unfold parts_ok. induction ps as [|r rs IH]; intros e ss e' H Hok i j n a Hlt Hi Hj;
    [destruct i; discriminate|].
  apply andb_true_iff in Hok as [Hf Hnd].
  apply mt_parts_cons_inv in H as [s0 [ss' [e1 [-> [H3 H6]]]]].
  cbn [forallb] in Hf. apply andb_true_iff in Hf as [Hf1 Hf2].
  destruct j as [|j]; [lia|]. cbn [nth_error] in Hj.
  destruct i as [|i]; cbn [nth_error] in Hi.
  - inversion Hi; subst. cbn [grp_names nodup_str] in Hnd. apply andb_true_iff in Hnd as [Hni Hnd].
    assert (Hnot : ~ In n (grp_names rs)).
    { intros Hin. apply mem_str_In' in Hin. rewrite Hin in Hni. discriminate. }
    inversion H3; subst. cbn in Hf1.
    match goal with Ha : mt a _ _ _ |- _ => rewrite (nogrp_env _ _ _ _ Ha Hf1) in * end.
    destruct (ref_spells_outer _ _ _ _ H6 Hf2 j n Hj Hnot) as [v [Hv Hs]].
    rewrite env_get_set_same in Hv. inversion Hv; subst v.
    exists s0. split; [reflexivity|]. split; [exact Hs|].
    rewrite (parts_keep _ _ _ _ H6 Hf2 n Hnot). apply env_get_set_same.
  - assert (Hnd2 : nodup_str (grp_names rs) = true).
    { rewrite grp_names_cons in Hnd. destruct r; try exact Hnd.
      cbn in Hnd. apply andb_true_iff in Hnd as [_ Hnd]. exact Hnd. }
    destruct (IH _ _ _ H6 (proj2 (andb_true_iff _ _) (conj Hf2 Hnd2)) i j n a) as [v Hv]; [lia|assumption|assumption|].
    exists v. exact Hv.
Qed.

(* Stated on the compiled regex: if the regex (the concatenation of the parts) matches path,
   the path splits into one piece per part, and the pieces of the defining group and of every
   back-reference to it are the same text, which is also the value _match_values reports. *)
Theorem backref_equal_substrings :
  forall (ps : list re) (path : str) (e' : env),
    parts_ok ps = true ->
    mt (rcat ps) [] path e' ->
    exists pieces, concat pieces = path /\ length pieces = length ps /\
      forall i j n a, (i < j)%nat ->
        nth_error ps i = Some (RGrp n a) -> nth_error ps j = Some (RRef n) ->
        exists v, nth_error pieces i = Some v /\ nth_error pieces j = Some v /\ env_get n e' = Some v.
Proof.
  intros ps path e' Hok Hm. apply mt_rcat in Hm as [ss [Hc Hp]].
  exists ss. split; [exact Hc|]. split.
  - clear Hc Hok. induction Hp; cbn; congruence.
  - intros i j n a. eapply backref_equal_substrings_parts; eassumption.
Qed.

(* the same, for the output of the compiler *)
Theorem backref_equal_substrings_compiled :
  forall (p : str) (subs : subs_t) (ps : list re) (path : str) (e' : env),
    conv_regex p subs = COk ps ->
    parts_ok ps = true ->
    mt (rcat ps) [] path e' ->
    exists pieces, concat pieces = path /\ length pieces = length ps /\
      forall i j n a, (i < j)%nat ->
        nth_error ps i = Some (RGrp n a) -> nth_error ps j = Some (RRef n) ->
        exists v, nth_error pieces i = Some v /\ nth_error pieces j = Some v /\ env_get n e' = Some v.
Proof. intros p subs ps path e' _. exact (backref_equal_substrings ps path e'). Qed.
