(* C03, finding C03-amended-record: the record of an AMENDED static input is replaced after the amend
   request while the command still runs (another step's pre-run check finds the file modified and
   records the new hash; or the file is withdrawn, modified, declared and confirmed anew).
   Executor._flag_inputs_not_final compares only the inputs the job started with (start_hashes) and,
   for amended inputs, only asks ran_concurrently for BUILT ones; the post-run check compares the disk
   with the hash recorded NOW.  The step ends SUCCEEDED although the command may have read the old
   content: the analogue of D19 (declared inputs) and D37 (skip path) for amended inputs. *)
From Coq Require Import List NArith Bool.
From SV Require Import lib.StampMap gen.GenFresh model.Fresh proofs.FreshProofs.
Import ListNotations.
Open Scope N_scope.

(* what the property wants for an input that was available when it was amended: if the step is
   recorded SUCCEEDED, the hash recorded for it at the end is the hash recorded when the request was
   accepted (then, under no_aba, the post-run check makes the content constant from the request on) *)
Definition amended_record_full : Prop :=
  forall w0 t pre ps post t' ok f,
    snd (do_try w0 t) = RTry true -> forallb in_window (pre ++ EAmend ps :: post) = true ->
    let w1 := fst (do_try w0 t) in
    let wa := run pre w1 in
    let w2 := run (pre ++ EAmend ps :: post) w1 in
    let w3 := fst (step w2 (EEnd t' ok)) in
    c_state w3 = SS_SUCCEEDED -> In f ps -> In f (considered w2) ->
    f_detached (files wa f) = false ->
    (f_state (files wa f) = FS_BUILT \/ f_state (files wa f) = FS_CONFIRMED) ->
    f_hash (files w3 f) = f_hash (files wa f).

(* consumer 5, declared input 1 (CONFIRMED, hash 3); static file 2 (CONFIRMED, hash 4) *)
Definition amrec_w0 : world :=
  let w := world0 5 [1] 2 false in
  let w := set_files w (upd (upd (files w) 1 (mkF true FS_CONFIRMED 3 false true None false))
                            2 (mkF true FS_CONFIRMED 4 false true None false)) in
  set_disk w (upd (upd (disk w) 1 3) 2 4).
(* after the request: the file is modified (4 -> 9) and the new hash is recorded by another actor *)
Definition amrec_post : list ev := [EWrite 2 9; ERow 2 (mkF true FS_CONFIRMED 9 false true None false)].

Lemma amended_record_witness :
  let w1 := fst (do_try amrec_w0 1) in
  let w2 := run (EAmend [2] :: amrec_post) w1 in
  let w3 := fst (step w2 (EEnd 4 true)) in
  snd (do_try amrec_w0 1) = RTry true /\ forallb in_window (EAmend [2] :: amrec_post) = true /\
  snd (step w1 (EAmend [2])) = RAmend false [] [] true /\
  In 2 (considered w2) /\ f_state (files w1 2) = FS_CONFIRMED /\ f_hash (files w1 2) = 4 /\ disk w1 2 = 4 /\
  c_state w3 = SS_SUCCEEDED /\ f_hash (files w3 2) = 9 /\ disk w2 2 = 9.
Proof. vm_compute. repeat split; try reflexivity. right. left. reflexivity. Qed.

Lemma amended_record_full_refuted : ~ amended_record_full.
Proof.
  intros H.
  specialize (H amrec_w0 1 [] [2] amrec_post 4 true 2).
  cbv zeta in H. cbn [app] in H.
  assert (X : f_hash (files (fst (step (run (EAmend [2] :: amrec_post) (fst (do_try amrec_w0 1))) (EEnd 4 true))) 2)
              = f_hash (files (run [] (fst (do_try amrec_w0 1))) 2)).
  { apply H; try (vm_compute; reflexivity).
    - left. reflexivity.
    - vm_compute. right. left. reflexivity.
    - right. vm_compute. reflexivity. }
  vm_compute in X. discriminate.
Qed.
