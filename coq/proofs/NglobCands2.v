(* C17: the converse of proofs/NglobCands.v on the fragment G1S: every candidate that glob.glob
   returns for the translated plain pattern exists, its names match the pattern component by
   component, and the compiled regex accepts it -- except for the directory spelling "name/" when
   the last token of the pattern is not star-like (finding D5b). *)
From Coq Require Import List NArith Bool Arith Lia.
From SV Require Import lib.Bytes.
From SV Require Import lib.Regex.
From SV Require Import model.Nglob.
From SV Require Import model.GlobSem.
From SV Require Import model.GlobTree.
From SV Require Import proofs.NglobBackref.
From SV Require Import proofs.NglobShape.
From SV Require Import proofs.NglobNamed.
From SV Require Import proofs.NglobCorrect.
From SV Require Import proofs.NglobRefute.
From SV Require Import proofs.NglobCands.
Import ListNotations.
Open Scope N_scope.

(* ------------------------------------------------------------------------------------------ *)
(* 1. wm: inversions and composition                                                            *)
(* ------------------------------------------------------------------------------------------ *)

Lemma wm_app a s1 : wm a s1 -> forall b s2, wm b s2 -> wm (a ++ b) (s1 ++ s2).
Proof.
  induction 1 as [|p s H IH|p c s Hc H IH|p c s Hc H IH|c p s Hc H IH]; intros b s2 Hb; cbn [app].
  - exact Hb.
  - apply wm_star0. apply IH. exact Hb.
  - apply wm_starS; [exact Hc|]. apply (IH b s2 Hb).
  - apply wm_q; [exact Hc|]. apply IH. exact Hb.
  - apply wm_lit; [exact Hc|]. apply IH. exact Hb.
Qed.

Lemma wm_join c1 n rest s2 : wm c1 n -> wm rest s2 -> wm (c1 ++ 47 :: rest) (n ++ 47 :: s2).
Proof. intros H1 H2. apply wm_app; [exact H1|]. apply wm_lit; [reflexivity|exact H2]. Qed.

Lemma wm_star_inv pat s : wm pat s -> forall p, pat = 42 :: p ->
  exists y s', s = y ++ s' /\ nosep y = true /\ wm p s'.
Proof.
  induction 1 as [|p0 s H IH|p0 c s Hc H IH|p0 c s Hc H IH|c p0 s Hc H IH]; intros p Hp; inversion Hp; subst.
  - exists [], s. split; [reflexivity|]. split; [reflexivity|exact H].
  - destruct (IH p eq_refl) as [y [s' [-> [Hy Hs']]]]. exists (c :: y), s'. split; [reflexivity|].
    apply N.eqb_neq in Hc. rewrite nosep_cons, Hc, Hy. split; [reflexivity|exact Hs'].
  - discriminate.
Qed.

Lemma wm_q_inv p s : wm (63 :: p) s -> exists c s', s = c :: s' /\ c <> 47 /\ wm p s'.
Proof. intros H. inversion H; subst; [|discriminate]. eauto. Qed.

Lemma wm_lit_inv l : forallb plain_char l = true -> forall p s, wm (l ++ p) s -> exists s', s = l ++ s' /\ wm p s'.
Proof.
  induction l as [|c l IH]; intros Hl p s H; [exists s; split; [reflexivity|exact H]|].
  cbn [forallb] in Hl. apply andb_true_iff in Hl as [Hc Hl]. cbn [app] in H.
  inversion H; subst; try discriminate.
  destruct (IH Hl p _ ltac:(eassumption)) as [s' [-> Hs']]. exists s'. split; [reflexivity|exact Hs'].
Qed.

Lemma nomagic_wm c : has_magic c = false -> wm c c.
Proof.
  induction c as [|x c IH]; intros H; [constructor|]. rewrite has_magic_cons in H.
  apply orb_false_iff in H as [Hx H]. apply wm_lit; [unfold plain_char; rewrite Hx; reflexivity|apply IH; exact H].
Qed.

(* the converse of acc_wm *)
Lemma wm_acc subs ts sp : Forall2 (tok_part subs) ts sp -> forallb tok_plain ts = true ->
  forall s, wm (gtext ts) s -> acc sp s.
Proof.
  induction 1 as [|t r ts sp Ht Hrest IH]; intros Hpl s Hw.
  - inversion Hw; subst. apply acc_nil. reflexivity.
  - cbn [forallb] in Hpl. apply andb_true_iff in Hpl as [Hpt Hpl]. rewrite gtext_cons in Hw. apply acc_cons.
    destruct t; cbn [tok_part] in Ht; try contradiction; try discriminate; cbn [starify tok_text tok_plain app] in *.
    + subst r. destruct (wm_lit_inv s0 Hpt _ _ Hw) as [s' [-> Hs']].
      exists s0, s'. split; [reflexivity|]. split; [apply str_eqb_refl|apply IH; assumption].
    + subst r. destruct (wm_q_inv _ _ Hw) as [c [s' [-> [Hc Hs']]]].
      exists [c], s'. split; [reflexivity|]. split; [|apply IH; assumption].
      unfold notslash. cbn [pieceb]. rewrite notslash_char. apply N.eqb_neq in Hc. rewrite Hc. reflexivity.
    + subst r. destruct (wm_star_inv _ _ Hw _ eq_refl) as [y [s' [-> [Hy Hs']]]].
      exists y, s'. split; [reflexivity|]. split; [exact Hy|apply IH; assumption].
    + destruct Ht as [-> _]. destruct (wm_star_inv _ _ Hw _ eq_refl) as [y [s' [-> [Hy Hs']]]].
      exists y, s'. split; [reflexivity|]. split; [exact Hy|apply IH; assumption].
Qed.

(* ------------------------------------------------------------------------------------------ *)
(* 2. Components of the translated pattern                                                      *)
(* ------------------------------------------------------------------------------------------ *)

Lemma plain_pat_app a b : plain_pat (a ++ b) = plain_pat a && plain_pat b.
Proof. apply forallb_app. Qed.

Lemma plain_lit l : forallb plain_char l = true -> plain_pat l = true.
Proof.
  intros H. unfold plain_pat. apply forallb_forall. rewrite forallb_forall in H. intros c Hc.
  rewrite (H c Hc). rewrite !orb_true_r. reflexivity.
Qed.

Lemma gtext_plain subs ts sp : Forall2 (tok_part subs) ts sp -> forallb tok_plain ts = true ->
  plain_pat (gtext ts) = true.
Proof.
  induction 1 as [|t r ts sp Ht Hrest IH]; intros Hpl; [reflexivity|].
  cbn [forallb] in Hpl. apply andb_true_iff in Hpl as [Hpt Hpl]. rewrite gtext_cons, plain_pat_app, (IH Hpl), andb_true_r.
  destruct t; cbn [tok_part] in Ht; try contradiction; try discriminate; try reflexivity.
  apply plain_lit. exact Hpt.
Qed.

Lemma split_slash_plain s : forall acc, plain_pat (rev acc) = true -> plain_pat s = true ->
  Forall (fun c => plain_pat c = true) (split_slash s acc).
Proof.
  induction s as [|x r IH]; intros acc Ha Hs; cbn [split_slash]; [constructor; [exact Ha|constructor]|].
  cbn [plain_pat forallb] in Hs. apply andb_true_iff in Hs as [Hx Hr]. destruct (x =? 47).
  - constructor; [exact Ha|]. apply IH; [reflexivity|exact Hr].
  - apply IH; [|exact Hr]. cbn [rev]. rewrite plain_pat_app, Ha. cbn [plain_pat forallb]. rewrite Hx. reflexivity.
Qed.

Lemma split_slash_nonnil s : forall acc, split_slash s acc <> [].
Proof.
  induction s as [|x r IH]; intros acc; cbn [split_slash]; [discriminate|]. destruct (x =? 47); [discriminate|apply IH].
Qed.

Lemma pat_cases s : nosep s = true \/ exists c1 rest, s = c1 ++ 47 :: rest /\ nosep c1 = true.
Proof.
  induction s as [|x r IH]; [left; reflexivity|]. destruct (N.eqb_spec x 47) as [->|Hne].
  - right. exists [], r. split; reflexivity.
  - apply N.eqb_neq in Hne. destruct IH as [IH|[c1 [rest [-> H1]]]].
    + left. rewrite nosep_cons, Hne, IH. reflexivity.
    + right. exists (x :: c1), rest. split; [reflexivity|]. rewrite nosep_cons, Hne, H1. reflexivity.
Qed.

(* components matched one by one: the whole text is matched *)
Lemma comps_wm names : forall pat, Forall2 wm (split_slash pat []) names -> wm pat (jn names).
Proof.
  induction names as [|n r IH]; intros pat H.
  - inversion H as [Hs|]. exfalso. eapply split_slash_nonnil. symmetry. exact Hs.
  - destruct (pat_cases pat) as [Hp|[c1 [rest [-> H1]]]].
    + rewrite (split_slash_nosep pat [] Hp) in H. cbn [rev app] in H. inversion H as [|? ? ? ? Hw Hr]; subst.
      inversion Hr; subst. exact Hw.
    + rewrite (split_slash_sep c1 rest [] H1) in H. cbn [rev app] in H. inversion H as [|? ? ? ? Hw Hr]; subst.
      specialize (IH rest Hr). destruct r as [|n2 r'].
      * inversion Hr as [Hs|]. exfalso. eapply split_slash_nonnil. symmetry. exact Hs.
      * rewrite jn_cons2. apply wm_join; assumption.
Qed.

(* ------------------------------------------------------------------------------------------ *)
(* 3. Trees                                                                                     *)
(* ------------------------------------------------------------------------------------------ *)

Definition wfo (nd : option node) : Prop := match nd with Some n => wf_node n = true | None => True end.

Lemma wf_children nd n ch : wfo nd -> In (n, ch) (children nd) ->
  okn n /\ wf_node ch = true /\ lookup_e n (children nd) = Some ch.
Proof.
  intros Hwf Hin. destruct nd as [[|es]|]; cbn [children] in *; try destruct Hin.
  cbn [wfo] in Hwf. rewrite wf_node_dir in Hwf. apply andb_true_iff in Hwf as [Hwf Hch]. apply andb_true_iff in Hwf as [Hnm Hnd].
  rewrite forallb_forall in Hnm, Hch. split; [apply (Hnm _ Hin)|]. split; [apply (Hch _ Hin)|].
  apply In_lookup_e; assumption.
Qed.

Lemma lookup_wf nd n : wfo nd -> wfo (lookup_e n (children nd)).
Proof.
  intros Hwf. destruct (lookup_e n (children nd)) as [ch|] eqn:E; [|exact I].
  apply lookup_e_In in E. apply (wf_children nd n ch Hwf E).
Qed.

Lemma resolve_rlist names : forall n nd, names <> [] -> resolve (Some n) names = Some nd ->
  In (jn names, nd) (rlist false n).
Proof.
  induction names as [|nm r IH]; intros n nd Hne Hres; [congruence|].
  destruct n as [|es]; [rewrite resolve_file in Hres; discriminate|].
  cbn [resolve children] in Hres. destruct (lookup_e nm es) as [ch|] eqn:El; [|rewrite resolve_none in Hres; discriminate].
  apply lookup_e_In in El. rewrite rlist_dir. apply in_flat_map. exists (nm, ch). split; [exact El|].
  cbn [fst snd andb]. destruct r as [|n2 r'].
  - cbn [resolve] in Hres. inversion Hres; subst. left. reflexivity.
  - right. rewrite jn_cons2. apply in_map_iff. exists (jn (n2 :: r'), nd). split; [reflexivity|].
    apply IH; [discriminate|exact Hres].
Qed.

(* ------------------------------------------------------------------------------------------ *)
(* 4. Every result of the walk is a chain whose names match the components                      *)
(* ------------------------------------------------------------------------------------------ *)

Definition compok (c : str) : Prop := is_rec c = false /\ okn c /\ plain_pat c = true.

Lemma step1_sound seen is_last c P nd x :
  wfo nd -> compok c -> In x (step1 seen is_last c (P, nd)) ->
  exists n, wm c n /\ okn n /\ fst x = pjoin P n /\ snd x = lookup_e n (children nd)
            /\ (is_last = true -> snd x <> None).
Proof.
  intros Hwf [Hr [Hc Hp]] Hin. unfold step1 in Hin. cbn [fst snd] in Hin. rewrite Hr in Hin.
  destruct (has_magic c) eqn:Em.
  - apply in_map_iff in Hin as [[n ch] [Hx Hin]]. cbn [fst snd] in Hx. apply filter_In in Hin as [Hin Hf].
    cbn [fst snd] in Hf. apply andb_true_iff in Hf as [_ Hf].
    destruct (wf_children nd n ch Hwf Hin) as [Hn [_ Hl]]. destruct (okn_inv n Hn) as [_ [Hns _]].
    exists n. subst x. cbn [fst snd]. split; [apply (fnm_wm _ c n Hp Hns Hf)|]. split; [exact Hn|].
    split; [reflexivity|]. split; [symmetry; exact Hl|]. intros _. discriminate.
  - destruct (okn_inv c Hc) as [Hne _]. destruct c as [|c0 c']; [congruence|].
    exists (c0 :: c'). split; [apply nomagic_wm; exact Em|]. split; [exact Hc|].
    destruct (negb seen && negb is_last) eqn:Eb.
    + destruct Hin as [<-|[]]. cbn [fst snd]. split; [reflexivity|]. split; [reflexivity|].
      intros ->. rewrite andb_false_r in Eb. discriminate.
    + destruct (lookup_e (c0 :: c') (children nd)) as [ch|] eqn:El; [|destruct Hin].
      destruct Hin as [<-|[]]. cbn [fst snd]. split; [reflexivity|]. split; [reflexivity|]. intros _. discriminate.
Qed.

Lemma walk_sound cs : Forall compok cs -> forall seen st, (forall y, In y st -> wfo (snd y)) ->
  forall x, In x (walk cs seen st) ->
  exists y names, In y st /\ Forall2 wm cs names /\ Forall okn names
                  /\ fst x = pj (fst y) names /\ snd x = resolve (snd y) names
                  /\ (cs <> [] -> snd x <> None).
Proof.
  induction 1 as [|c cs' Hc Hcs IH]; intros seen st Hst x Hin.
  - cbn [walk] in Hin. exists x, []. split; [exact Hin|]. split; [constructor|]. split; [constructor|].
    split; [reflexivity|]. split; [reflexivity|]. congruence.
  - cbn [walk] in Hin.
    set (il := match cs' with [] => true | _ :: _ => false end) in *.
    assert (Hst' : forall y, In y (flat_map (step1 seen il c) st) -> wfo (snd y)).
    { intros y' Hy'. apply in_flat_map in Hy' as [[P nd] [Hy Hy']].
      destruct (step1_sound seen il c P nd y' (Hst _ Hy) Hc Hy') as [n [_ [_ [_ [Hs _]]]]].
      rewrite Hs. apply lookup_wf. apply (Hst _ Hy). }
    destruct (IH _ _ Hst' x Hin) as [y' [names' [Hy' [Hf2 [Hok [Hfx [Hsx Hnn]]]]]]].
    apply in_flat_map in Hy' as [[P nd] [Hy Hy']].
    destruct (step1_sound seen il c P nd y' (Hst _ Hy) Hc Hy') as [n [Hw [Hn [Hfy [Hsy Hlast]]]]].
    exists (P, nd), (n :: names'). split; [exact Hy|]. split; [constructor; assumption|]. split; [constructor; assumption|].
    cbn [fst snd]. split; [rewrite Hfx, Hfy; reflexivity|]. split; [rewrite Hsx, Hsy; reflexivity|].
    intros _. destruct cs' as [|c2 cs2]; [|apply Hnn; discriminate].
    inversion Hf2; subst. rewrite Hsx. cbn [resolve]. apply Hlast. reflexivity.
Qed.

(* R2 (soundness direction) *)
Lemma glob_paths_sound t pat q :
  wf_tree t = true -> Forall compok (split_slash pat []) -> In q (glob_paths t pat) ->
  exists names final, names <> [] /\ Forall okn names /\ resolve (Some (Dir t)) names = Some final
                      /\ q = spell names final /\ wm pat (jn names).
Proof.
  intros Hwf Hcs Hin. unfold glob_paths, walked in Hin. apply in_map_iff in Hin as [x [Hq Hin]].
  apply filter_In in Hin as [Hin _]. apply filter_In in Hin as [Hin _].
  destruct (walk_sound _ Hcs false [([], Some (Dir t))]) with (x := x) as [y [names [Hy [Hf2 [Hok [Hfx [Hsx Hnn]]]]]]].
  { intros y [<-|[]]. exact Hwf. }
  { exact Hin. }
  destruct Hy as [<-|[]]. cbn [fst snd] in *.
  assert (Hne : names <> []).
  { intros ->. inversion Hf2 as [Hs|]. eapply split_slash_nonnil. symmetry. exact Hs. }
  specialize (Hnn (split_slash_nonnil pat [])).
  destruct x as [P [final|]]; cbn [fst snd] in *; [|congruence].
  rewrite (pj_nil names Hok Hne) in Hfx. subst P.
  exists names, final. split; [exact Hne|]. split; [exact Hok|]. split; [symmetry; exact Hsx|].
  split; [|apply comps_wm; exact Hf2].
  subst q. unfold canon, spell. cbn [fst snd is_dir_opt]. rewrite (jn_ends names Hok Hne). cbn [negb].
  destruct final; reflexivity.
Qed.

Lemma spell_exists t names final : names <> [] -> resolve (Some (Dir t)) names = Some final ->
  In (spell names final) (all_paths t).
Proof.
  intros Hne Hres. unfold all_paths. apply in_map_iff. exists (jn names, final). split; [reflexivity|].
  apply resolve_rlist; assumption.
Qed.

(* ------------------------------------------------------------------------------------------ *)
(* 5. Soundness of the candidates on G1S                                                       *)
(* ------------------------------------------------------------------------------------------ *)

Lemma last_starlike_snoc a t : last_starlike (a ++ [t]) = match t with TStar | TName _ => true | _ => false end.
Proof. unfold last_starlike. rewrite last_tok_snoc. reflexivity. Qed.

Theorem glob_candidates_sound_partial :
  forall (t : list entry) (p : str) (subs : subs_t) (ps : list re) (gp q : str),
    wf_tree t = true -> g1s p subs = true ->
    conv_regex p subs = COk ps -> conv_glob p subs = COk gp ->
    In q (glob_paths t gp) ->
    In q (all_paths t)
    /\ (ends_sep q = false \/ last_starlike (tokenize p) = true -> accepts (rcat ps) q = true).
Proof.
  intros t p subs ps gp q Hwf Hg Hc Hgp Hin.
  unfold g1s in Hg. apply andb_true_iff in Hg as [Hg Hnames]. apply andb_true_iff in Hg as [Hg Hnsep].
  unfold g1 in Hg. apply andb_true_iff in Hg as [Hf1 Hpl]. apply negb_true_iff in Hnsep.
  pose proof (f1_no_rec p subs Hf1 Hpl) as Hrec.
  rewrite (conv_glob_f1 p subs gp Hf1 Hgp) in *.
  (* any canonical path will do to obtain the specification parts *)
  destruct (f1_crisp p subs ps [97] Hf1 Hc eq_refl) as [sp [_ [H6 [_ [Hts [_ _]]]]]].
  assert (Hcs : Forall compok (split_slash (gtext (tokenize p)) [])).
  { pose proof (split_slash_plain (gtext (tokenize p)) [] eq_refl (gtext_plain subs _ sp H6 Hpl)) as Hp.
    rewrite Forall_forall in *. rewrite forallb_forall in Hnames. intros c Hcin.
    split; [apply Hrec; exact Hcin|]. split; [apply Hnames; exact Hcin|apply Hp; exact Hcin]. }
  destruct (glob_paths_sound t _ q Hwf Hcs Hin) as [names [final [Hne [Hok [Hres [-> Hw]]]]]].
  split; [apply spell_exists; assumption|]. intros Hside.
  pose proof (spell_wf names final Hok Hne) as Hwfp.
  destruct (f1_crisp p subs ps _ Hf1 Hc Hwfp) as [sp' [_ [H6' [_ [_ [_ Hcrisp]]]]]].
  apply Hcrisp. clear Hcrisp.
  pose proof (wm_acc subs _ sp' H6' Hpl _ Hw) as Hacc.
  pose proof (jn_ends names Hok Hne) as He. rewrite ends_slash_sep in He.
  destruct (exists_last Hts) as [ts0 [tl Hts0]]. rewrite Hts0 in H6', Hnsep, Hside. rewrite last_starlike_snoc in Hside.
  apply Forall2_app_inv_l in H6' as [sp0 [spl [_ [H6l ->]]]].
  inversion H6l as [|? L ? ? HtL Hnil]; subst. inversion Hnil; subst.
  unfold crispP. rewrite last_last. unfold pat_ends_sep in Hnsep. rewrite last_tok_snoc in Hnsep.
  assert (Hfile : (ends_sep (spell names final) = false \/ false = true) ->
                  ends_sep (spell names final) = false /\ acc (sp0 ++ [L]) (spell names final)).
  { intros [Hs|Hs]; [|discriminate]. split; [exact Hs|]. unfold spell in *. destruct (is_dir final); [|exact Hacc].
    rewrite ends_sep_app in Hs by discriminate. discriminate. }
  assert (Hstar : (ends_sep (spell names final) = false /\ acc (sp0 ++ [L]) (spell names final))
                  \/ (ends_sep (spell names final) = true /\ acc (sp0 ++ [L]) (removelast (spell names final)))).
  { unfold spell. destruct (is_dir final).
    - right. rewrite ends_sep_app, removelast_last by discriminate. split; [reflexivity|exact Hacc].
    - left. split; assumption. }
  destruct tl; cbn [tok_part] in HtL; try contradiction.
  - subst L. rewrite Hnsep. apply Hfile. exact Hside.
  - subst L. unfold notslash. apply Hfile. exact Hside.
  - subst L. unfold re_star. exact Hstar.
  - destruct (re_cls_is_cls inner) as [neg [body Hr]]. subst L. rewrite Hr in *. apply Hfile. exact Hside.
  - destruct HtL as [-> _]. exact Hstar.
Qed.

(* clause 2 of C17_full on G1S, for every candidate or existing path that is not the directory
   spelling of a pattern whose last token is not star-like *)
Theorem glob_candidates_exact_partial :
  forall (t : list entry) (p : str) (subs : subs_t) (ps : list re) (gp q : str),
    wf_tree t = true -> g1s p subs = true ->
    conv_regex p subs = COk ps -> conv_glob p subs = COk gp ->
    ends_sep q = false \/ last_starlike (tokenize p) = true ->
    (In q (glob_paths t gp) <-> In q (all_paths t) /\ accepts (rcat ps) q = true).
Proof.
  intros t p subs ps gp q Hwf Hg Hc Hgp Hside. split.
  - intros Hin. destruct (glob_candidates_sound_partial t p subs ps gp q Hwf Hg Hc Hgp Hin) as [H1 H2].
    split; [exact H1|exact (H2 Hside)].
  - intros [H1 H2]. unfold g1s in Hg. apply andb_true_iff in Hg as [Hg _]. apply andb_true_iff in Hg as [Hg _].
    exact (glob_candidates_complete_partial t p subs ps gp q Hwf Hg Hc Hgp H1 H2).
Qed.

(* Outside the fragment, a mechanism that is none of D5a/b/d/f: a bracket expression that contains a
   newline.  RE_WILD_PARTS reads `[a\n]` as literal text (its `.` does not cross a newline), so the regex
   accepts exactly the file named "[a\n]"; fnmatch reads the same text as the class {a, newline}, so glob
   returns the file "a", which the regex rejects: an existing accepted path is not a candidate. *)
Lemma bracket_newline_candidates_incomplete_refuted :
  exists t p subs path,
    conv_glob p subs = COk p
    /\ recorded t p subs = Some [] /\ accepted_existing t p subs = Some [path]
    /\ std_glob t p subs = Some [[97]].
Proof.
  exists [([91;97;10;93], File); ([97], File)], [91;97;10;93], [], [91;97;10;93]. vm_compute. repeat split.
Qed.

(* A second mechanism outside G1, inside F1 (where the compiled regex IS the reference semantics): a
   bracket expression that contains the separator, `a[!/]b` (the spelling one would use to avoid D5a).
   The regex a[^/]b accepts the existing file "axb" and both reference semantics say it matches, but
   glob.glob splits the translated pattern at every separator, also inside the brackets (components
   `a[!` and `]b`), and returns nothing: the accepted existing path is never a candidate.  This is why
   G1 has no classes: `glob_candidates_complete` is false on F1. *)
Lemma class_with_separator_candidates_incomplete_refuted :
  exists t p subs path,
    f1 p subs = true /\ conv_glob p subs = COk p
    /\ recorded t p subs = Some [] /\ accepted_existing t p subs = Some [path] /\ std_glob t p subs = Some []
    /\ nglob_ref false p subs path = Some true /\ nglob_ref true p subs path = Some true.
Proof.
  exists [([97;120;98], File)], [97;91;33;47;93;98], [], [97;120;98]. vm_compute. repeat split.
Qed.

Lemma glob_candidates_complete_on_f1_refuted :
  ~ (forall t p subs ps gp q, wf_tree t = true -> f1 p subs = true ->
       conv_regex p subs = COk ps -> conv_glob p subs = COk gp ->
       In q (all_paths t) -> accepts (rcat ps) q = true -> In q (glob_paths t gp)).
Proof.
  intros H.
  specialize (H [([97;120;98], File)] [97;91;33;47;93;98] [] [RStr [97]; RCls true [47]; RStr [98]]
                [97;91;33;47;93;98] [97;120;98]).
  assert (Hin : In [97;120;98] (glob_paths [([97;120;98], File)] [97;91;33;47;93;98])).
  { apply H; vm_compute; try reflexivity. left. reflexivity. }
  vm_compute in Hin. exact Hin.
Qed.

Example glob_candidates_sound_hyps_satisfiable :
  wf_tree ex_tree = true /\ g1s ex_pat1 [] = true /\ g1s ex_pat2 [] = true
  /\ last_starlike (tokenize ex_pat1) = false /\ last_starlike (tokenize ex_pat2) = true.
Proof. vm_compute. repeat split. Qed.
