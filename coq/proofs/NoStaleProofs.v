(* C01, graph level: what is proved about K (NoStaleSuccess) on model/Graph.v.
   - K_refuted_by_dropped_static: the D4 history (accepted transaction by transaction) ends in a
     finished state where K is false; the from-scratch history of the same final plan differs.
   - env_rows_refuted_by_partial_recycle: the D9 history.
   - K_preserved_partial: K survives the operations that only touch step rows without making a
     step SUCCEEDED (dispatch, validate-pending, hold, release) and every rejected operation. *)
From Coq Require Import List NArith Bool Lia.
From SV Require Import lib.Bytes model.Graph model.NoStale.
Import ListNotations.
Open Scope N_scope.

(* ------------------------------------------------------------------------------------------ *)
(* Refutations (concrete histories, evaluated by the kernel)                                   *)
(* ------------------------------------------------------------------------------------------ *)
Lemma K_refuted_by_dropped_static :
  all_ok d4_ops (init_st 3) = true /\
  K_b (run_ops d4_build1 (init_st 3)) = true /\
  finished_b (run_ops d4_build1 (init_st 3)) = true /\
  finished_b (run_ops d4_ops (init_st 3)) = true /\
  K_b (run_ops d4_ops (init_st 3)) = false /\
  K_violators (run_ops d4_ops (init_st 3)) = [s_cat] /\
  is_detached (KFile, s_x) (run_ops d4_ops (init_st 3)) = true /\
  sstate_of s_cat (run_ops d4_ops (init_st 3)) = Some SSucceeded /\
  all_ok d4_scratch (init_st 3) = true /\
  sstate_of s_cat (run_ops d4_scratch (init_st 3)) = Some SPending.
Proof. vm_compute. repeat split; reflexivity. Qed.

Lemma K_not_invariant :
  ~ (forall cap ops, all_ok ops (init_st cap) = true -> K_b (run_ops ops (init_st cap)) = true).
Proof.
  intro H. specialize (H 3 d4_ops).
  destruct K_refuted_by_dropped_static as (Hok & _ & _ & _ & Hk & _).
  rewrite (H Hok) in Hk. discriminate.
Qed.

Lemma env_rows_refuted_by_partial_recycle :
  all_ok d9_ops (init_st 3) = true /\ all_ok d9_scratch (init_st 3) = true /\
  env_names_of s_S (run_ops d9_ops (init_st 3)) = [s_VA; s_VB] /\
  env_names_of s_S (run_ops d9_scratch (init_st 3)) = [s_VA] /\
  finished_b (run_ops d9_ops (init_st 3)) = true /\
  K_b (run_ops d9_ops (init_st 3)) = true.
Proof. vm_compute. repeat split; reflexivity. Qed.

(* ------------------------------------------------------------------------------------------ *)
(* Preservation for the step-row operations                                                    *)
(* ------------------------------------------------------------------------------------------ *)
Lemma K_step_b_upd_step (l : str) (f : srow -> srow) (s : st) (r : srow) :
  K_step_b (upd_step l f s) r = K_step_b s r.
Proof. reflexivity. Qed.

Lemma K_step_b_ext (s : st) (r1 r2 : srow) :
  sl r1 = sl r2 -> sst r1 = sst r2 -> K_step_b s r1 = K_step_b s r2.
Proof. intros Hl Hs. unfold K_step_b. rewrite Hl, Hs. reflexivity. Qed.

Lemma K_step_b_not_succeeded (s : st) (r : srow) :
  sstate_eqb (sst r) SSucceeded = false -> K_step_b s r = true.
Proof. intros H. unfold K_step_b. rewrite H. reflexivity. Qed.

(* a row update that keeps the label and either keeps the state or moves to a state other than
   SUCCEEDED preserves K *)
Lemma K_upd_step (l : str) (f : srow -> srow) (s : st) :
  (forall r, sl (f r) = sl r) ->
  (forall r, sst (f r) = sst r \/ sstate_eqb (sst (f r)) SSucceeded = false) ->
  K_b s = true -> K_b (upd_step l f s) = true.
Proof.
  intros Hl Hs HK. unfold K_b in *.
  change (steps (upd_step l f s)) with (map (fun r => if str_eqb (sl r) l then f r else r) (steps s)).
  rewrite forallb_forall in *. intros r' Hin. apply in_map_iff in Hin.
  destruct Hin as (r & Hr & Hin). subst r'. rewrite K_step_b_upd_step.
  destruct (str_eqb (sl r) l) eqn:E.
  - destruct (Hs r) as [Hsame | Hns].
    + rewrite (K_step_b_ext s (f r) r (Hl r) Hsame). apply HK; exact Hin.
    + apply K_step_b_not_succeeded; exact Hns.
  - apply HK; exact Hin.
Qed.

Lemma K_set_sstate (l : str) (new : sstate) (d : bool) (s s' : st) :
  sstate_eqb new SSucceeded = false ->
  set_sstate l new d s = Ok s' -> K_b s = true -> K_b s' = true.
Proof.
  intros Hnew H HK. unfold set_sstate in H.
  destruct (find_step l s) as [r|] eqn:Ef.
  - destruct (d && negb (sstate_eqb new SPending)) eqn:Ed; [discriminate|].
    cbv zeta in H. injection H as <-. apply K_upd_step; auto.
  - injection H as <-. exact HK.
Qed.

Lemma K_hold (l : str) (s s' : st) : hold l s = Ok s' -> K_b s = true -> K_b s' = true.
Proof.
  unfold hold. intros H HK.
  repeat match type of H with (if ?c then _ else _) = _ => destruct c; try discriminate end.
  injection H as <-. apply K_upd_step; auto.
Qed.

Lemma K_release (l : str) (s s' : st) : release l s = Ok s' -> K_b s = true -> K_b s' = true.
Proof.
  unfold release. intros H HK. destruct (find_step l s) as [r|]; [|discriminate].
  repeat match type of H with (if ?c then _ else _) = _ => destruct c; try discriminate end.
  injection H as <-. apply K_upd_step; auto.
Qed.

(* the operations covered so far *)
Definition K_safe_op (o : op) : bool :=
  match o with
  | OpDispatch _ | OpValidatePending _ | OpHold _ | OpRelease _ => true
  | _ => false
  end.

Lemma K_preserved_partial (o : op) (s : st) :
  K_b s = true ->
  (K_safe_op o = true \/ (forall s', step_op o s <> Ok s')) ->
  K_b (apply_op s o) = true.
Proof.
  intros HK [Hsafe | Hrej].
  - unfold apply_op. destruct (step_op o s) as [s'| |] eqn:E; try exact HK.
    destruct o; try discriminate Hsafe; cbn [step_op] in E.
    + destruct (has_hash label s); eapply K_set_sstate; try exact E; auto.
    + eapply K_set_sstate; try exact E; auto.
    + eapply K_hold; eauto.
    + eapply K_release; eauto.
  - unfold apply_op. destruct (step_op o s) as [s'| |] eqn:E; try exact HK.
    exfalso. apply (Hrej s'). reflexivity.
Qed.
