(* C13, stored hashes: FileHash / StepHash survive unstructure + structure (cattrs' JSON converter
   as configured in stepup/core/cattrs.py; json.dumps / json.loads themselves are exercised by the
   harness). *)
From Coq Require Import List NArith Bool Lia Arith.
From SV Require Import lib.Bytes lib.KeySort lib.Base85 model.HashTypes gen.GenHash model.HashJsonTypes
  gen.GenHashJson model.HashSkipTypes model.HashJson.
Import ListNotations.
Open Scope N_scope.

Lemma alphabet_good : alphabet_ok b85_alphabet = true.
Proof. vm_compute. reflexivity. Qed.

Lemma unknown_digest_round_trip :
  b85_decode b85_alphabet (b85_encode b85_alphabet unknown_digest) = Some unknown_digest.
Proof. vm_compute. reflexivity. Qed.

Lemma digest_round_trip d :
  digest_json_ok d = true -> s_bytes b85_alphabet (j_bytes b85_alphabet d) = Some d.
Proof.
  unfold digest_json_ok, s_bytes, j_bytes. intros B. apply b85_round_trip_all; [exact alphabet_good|exact B].
Qed.

(* evaluate the key comparisons of a lookup in a literal object *)
Ltac keys :=
  repeat match goal with
         | |- context [str_eqb ?a ?b] =>
             let v := eval vm_compute in (str_eqb a b) in change (str_eqb a b) with v; cbv iota
         end.

Ltac fields :=
  unfold ofield, jget; repeat (progress (cbn [lookup fst snd]; keys));
  cbn [obind s_int j_int s_float j_float s_str j_str].

Theorem fh_structure_unstructure h :
  fh_json_ok h = true -> fh_structure (fh_unstructure h) = Some h.
Proof.
  intros O. unfold fh_structure, fh_unstructure. fields.
  rewrite (digest_round_trip _ O). cbn [obind]. destruct h. reflexivity.
Qed.

Lemma fhash_eqb_all_eq a b : fhash_eqb_all a b = true -> a = b.
Proof.
  unfold fhash_eqb_all. intros E.
  repeat match goal with H : _ && _ = true |- _ => apply andb_true_iff in H; destruct H end.
  destruct a as [d1 m1 t1 s1 i1], b as [d2 m2 t2 s2 i2]. cbn [fh_digest fh_mode fh_mtime fh_size fh_inode] in *.
  repeat match goal with H : (_ =? _) = true |- _ => apply N.eqb_eq in H end.
  match goal with H : str_eqb _ _ = true |- _ => apply str_eqb_eq in H end. subst. reflexivity.
Qed.

(* FileHash.from_json (FileHash.to_json h) = h *)
Theorem fh_json_round_trip h :
  fh_json_ok h = true -> fh_canonical h = true -> fh_from_json (fh_to_json h) = Some h.
Proof.
  intros O C. unfold fh_to_json, fh_from_json. destruct (fh_is_unknown h) eqn:U.
  - unfold fh_canonical in C. rewrite U in C. cbn [negb orb] in C.
    apply fhash_eqb_all_eq in C. rewrite C. reflexivity.
  - apply fh_structure_unstructure. exact O.
Qed.

Lemma s_dict_j_dict {V : Type} (f : V -> jval) (s : jval -> option V) (m : list (str * V)) :
  (forall e, In e m -> s (f (snd e)) = Some (snd e)) -> s_dict s (j_dict f m) = Some m.
Proof.
  unfold s_dict, j_dict. induction m as [|[k v] m IH]; intros A; [reflexivity|].
  pose proof (A (k, v) (or_introl eq_refl)) as Akv. cbn [snd] in Akv.
  cbn [map mapM fst snd]. rewrite Akv. cbn [option_map].
  rewrite IH; [reflexivity|]. intros e He. apply A. right. exact He.
Qed.

Lemma files_round_trip m :
  files_json_ok m = true -> s_dict fh_structure (j_dict fh_unstructure m) = Some m.
Proof.
  intros O. apply s_dict_j_dict. intros e He. apply fh_structure_unstructure.
  unfold files_json_ok in O. rewrite forallb_forall in O. apply O. exact He.
Qed.

Lemma envs_round_trip (m : list (str * option str)) :
  s_dict (s_opt s_str) (j_dict (j_opt j_str) m) = Some m.
Proof. apply s_dict_j_dict. intros [k [v|]] _; reflexivity. Qed.

Lemma ovrs_round_trip (m : list (str * str)) : s_dict s_str (j_dict j_str m) = Some m.
Proof. apply s_dict_j_dict. intros [k v] _. reflexivity. Qed.

Lemma ii_round_trip i :
  files_json_ok (ii_inps i) = true -> ii_structure (ii_unstructure i) = Some i.
Proof.
  intros O. unfold ii_structure, ii_unstructure. fields.
  rewrite (files_round_trip _ O), envs_round_trip, ovrs_round_trip. cbn [obind]. destruct i. reflexivity.
Qed.

Lemma oi_round_trip o :
  files_json_ok (oi_outs o) = true -> oi_structure (oi_unstructure o) = Some o.
Proof.
  intros O. unfold oi_structure, oi_unstructure. fields.
  rewrite (files_round_trip _ O). cbn [obind]. destruct o. reflexivity.
Qed.

Theorem sx_structure_unstructure x :
  sx_json_ok x = true -> sx_structure (sx_unstructure x) = Some x.
Proof.
  unfold sx_json_ok. intros O.
  repeat match goal with H : _ && _ = true |- _ => apply andb_true_iff in H; destruct H end.
  unfold sx_structure, sx_unstructure. fields.
  match goal with H : digest_json_ok (sx_inp x) = true |- _ => rewrite (digest_round_trip _ H) end.
  cbn [obind]. destruct x as [di [i|] [d|] [o|]]; cbn [sx_info sx_out sx_outinfo sx_inp] in *;
    cbn [j_opt s_opt];
    repeat match goal with
           | H : files_json_ok (ii_inps ?i) = true |- _ =>
               unfold ii_unstructure at 1; cbn [s_opt]; fold (ii_unstructure i); rewrite (ii_round_trip _ H); clear H
           | H : files_json_ok (oi_outs ?o) = true |- _ =>
               unfold oi_unstructure at 1; cbn [s_opt]; fold (oi_unstructure o); rewrite (oi_round_trip _ H); clear H
           | H : digest_json_ok ?d = true |- context [s_opt (s_bytes b85_alphabet) (j_bytes b85_alphabet ?d)] =>
               unfold j_bytes at 1; cbn [s_opt]; fold (j_bytes b85_alphabet d); rewrite (digest_round_trip _ H); clear H
           end;
    cbn [option_map obind]; reflexivity.
Qed.

(* StepHash.from_json (StepHash.to_json x) = x, and the skip decision reads the recorded digests *)
Theorem sx_json_round_trip x :
  sx_json_ok x = true -> sx_from_json (Some (sx_to_json x)) = Some (Some x).
Proof.
  intros O. unfold sx_from_json, sx_to_json. rewrite (sx_structure_unstructure _ O). reflexivity.
Qed.

Corollary stored_digests_survive x y :
  sx_json_ok x = true -> sx_from_json (Some (sx_to_json x)) = Some (Some y) -> shash_of y = shash_of x.
Proof. intros O E. rewrite (sx_json_round_trip _ O) in E. injection E as <-. reflexivity. Qed.
