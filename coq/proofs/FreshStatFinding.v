(* C03, finding C03-unreadable-input: an input that stops being a readable regular file while the
   command runs (replaced by a directory, permissions withdrawn) makes hash.compute_both_hashes RAISE
   (HashFailedError / OSError from FileHash.refreshed); Executor._run_work_thread turns any exception
   of the hash thread into "run failed, result None" -- the code path of a cancelled hash computation
   (FreshSkip.do_xend with cancel = true).  The step FAILS, but `unexpected_input_changes` stays False:
   with --keep-going the scheduler goes on dispatching. *)
From Coq Require Import List NArith Bool.
From SV Require Import lib.StampMap gen.GenFresh model.Fresh model.FreshSkip.
Import ListNotations.
Open Scope N_scope.

(* the sentence of the property: an input that changes underneath a running step makes it fail and
   stops further dispatch -- whatever the post-run hash computation does *)
Definition changed_input_stops_dispatch_full : Prop :=
  forall (x : xworld) (t : N) (ok hash_thread_failed : bool) (r : runst),
    c_run (xb x) = Some r -> changed_inputs (xb x) <> [] ->
    let x' := fst (do_xend x t ok hash_thread_failed) in
    c_state (xb x') = SS_FAILED /\ draining (xb x') = true.

(* consumer 5, declared input 1 (CONFIRMED, hash 3), output 9, keep_going = true; the command starts,
   the input is replaced (code 6: anything but the record), the hash thread fails *)
Definition unreadable_x : xworld :=
  let x := xworld0 5 [1] [9] 2 true 1 in
  let w := xb x in
  let w := set_files w (upd (files w) 1 (mkF true FS_CONFIRMED 3 false true None false)) in
  xrun [XTry 1 false; XE (EWrite 1 6)] (set_xb x (set_disk w (upd (upd (disk w) 1 3) 9 7))).

Lemma unreadable_input_witness :
  c_run (xb unreadable_x) <> None /\ changed_inputs (xb unreadable_x) = [1] /\
  keep_going (xb unreadable_x) = true /\
  (let x' := fst (do_xend unreadable_x 2 true true) in
   c_state (xb x') = SS_FAILED /\ draining (xb x') = false) /\
  (let x' := fst (do_xend unreadable_x 2 true false) in
   c_state (xb x') = SS_FAILED /\ draining (xb x') = true).
Proof. vm_compute. repeat split; try reflexivity. discriminate. Qed.

Lemma changed_input_stops_dispatch_full_refuted : ~ changed_input_stops_dispatch_full.
Proof.
  intros H.
  destruct (c_run (xb unreadable_x)) as [r|] eqn:E; [|vm_compute in E; discriminate].
  assert (Hc : changed_inputs (xb unreadable_x) <> []) by (vm_compute; discriminate).
  destruct (H unreadable_x 2 true true r E Hc) as [_ Hd]. vm_compute in Hd. discriminate.
Qed.
