(* proofs/CleanOptional.v -- C07, outputs of attached optional steps that are not needed.

   revert_optional_steps selects the file rows in VOLATILE / BUILT / OUTDATED that are the sink of a
   dependency edge whose source is an attached step with _implied_need = OPTIONAL.  Theorem
   optional_outputs_removed: after the cleanup of a successful unrestricted build with cleaning, such
   a file that is on the abstract disk with exactly the recorded content (any content for VOLATILE) is
   gone from disk, and its node -- if still in the graph -- is back to PLANNED without a hash
   (VOLATILE rows stay VOLATILE).  The producing steps are PENDING again (optional_steps_reverted).

   What this does NOT say: that step._implied_need is OPTIONAL exactly for the optional steps that no
   needed step consumes.  That value is maintained incrementally by the scheduler
   (_check_after flags, UPDATE_CHECK_AFTER); the oracles of p_c07 recompute it from the declared need
   and compare (signatures containing unneeded-optional-output and optional-output-kept / -not-reset). *)
From Coq Require Import List NArith Bool Lia.
From SV Require Import lib.Bytes.
From SV Require Import gen.GenClean.
From SV Require Import model.TrellisDD.
From SV Require Import model.Clean.
From SV Require Import proofs.TrellisDDProofs.
From SV Require Import proofs.CleanProofs.
From SV Require Import proofs.CleanDirs.
Import ListNotations.
Open Scope N_scope.

(* what revert_optional_steps puts into to_be_deleted for a selected row *)
Definition rq_value (n : node) : option (option N) :=
  if nfstate n =? revert_exempt then Some None
  else match nfhash n with Some h => Some (Some h) | None => None end.

Lemma gen_exempt_is_volatile : memN revert_exempt bd_volatile_states = true.
Proof. vm_compute. reflexivity. Qed.

Lemma gen_kfile_not_kstep : (KFILE =? KSTEP) = false.
Proof. reflexivity. Qed.

Lemma revert_queue_node_get trees n q p :
  qfile_get (revert_queue_node trees n q) p =
  if str_eqb (nlabel n) p then match rq_value n with Some v => Some v | None => qfile_get q p end
  else qfile_get q p.
Proof.
  unfold revert_queue_node, rq_value. rewrite qfile_get_mark_dir.
  destruct (nfstate n =? revert_exempt).
  - rewrite qfile_get_set. destruct (str_eqb (nlabel n) p); reflexivity.
  - destruct (nfhash n); [rewrite qfile_get_set|]; destruct (str_eqb (nlabel n) p); reflexivity.
Qed.

Lemma revert_fold_keeps trees n v l : forall q,
  (forall x, In x l -> nlabel x = nlabel n -> x = n) -> rq_value n = Some v ->
  qfile_get q (nlabel n) = Some v ->
  qfile_get (fold_left (fun q x => revert_queue_node trees x q) l q) (nlabel n) = Some v.
Proof.
  induction l as [|a l IH]; intros q Huniq Hv Hq; [exact Hq|].
  cbn [fold_left]. apply IH; [intros x Hx; apply Huniq; right; exact Hx | exact Hv|].
  rewrite revert_queue_node_get. destruct (str_eqb (nlabel a) (nlabel n)) eqn:E; [|exact Hq].
  apply str_eqb_eq in E. rewrite (Huniq a (or_introl eq_refl) E), Hv. reflexivity.
Qed.

Lemma revert_fold_sets trees n v l : forall q,
  In n l -> (forall x, In x l -> nlabel x = nlabel n -> x = n) -> rq_value n = Some v ->
  qfile_get (fold_left (fun q x => revert_queue_node trees x q) l q) (nlabel n) = Some v.
Proof.
  induction l as [|a l IH]; intros q Hin Huniq Hv; [destruct Hin|].
  assert (forall x, In x l -> nlabel x = nlabel n -> x = n) as Huniq' by (intros x Hx; apply Huniq; right; exact Hx).
  cbn [fold_left]. destruct Hin as [->|Hin].
  - apply revert_fold_keeps; [exact Huniq' | exact Hv|].
    rewrite revert_queue_node_get, str_eqb_refl, Hv. reflexivity.
  - apply IH; assumption.
Qed.

(* later before_delete calls that leave the entry alone or write the same value *)
Lemma queue_deleted_keeps_weak trees v p l : forall q,
  (forall x, In x l -> nkind x = KFILE -> nlabel x = p -> bd_value x = None \/ bd_value x = Some v) ->
  qfile_get q p = Some v -> qfile_get (queue_deleted trees l q) p = Some v.
Proof.
  unfold queue_deleted. induction l as [|a l IH]; intros q H Hq; [exact Hq|].
  cbn [fold_left]. apply IH; [intros x Hx; apply H; right; exact Hx|].
  rewrite before_delete_get. destruct ((nkind a =? KFILE) && str_eqb (nlabel a) p) eqn:E; [|exact Hq].
  apply andb_true_iff in E. destruct E as [E1 E2]. apply N.eqb_eq in E1. apply str_eqb_eq in E2.
  destruct (H a (or_introl eq_refl) E1 E2) as [-> | ->]; [exact Hq | reflexivity].
Qed.

Lemma revert_target_kind g n : is_revert_target g n = true -> nkind n = KFILE.
Proof.
  unfold is_revert_target. intros H. apply andb_true_iff in H. destruct H as [H _].
  apply andb_true_iff in H. destruct H as [H _]. apply N.eqb_eq. exact H.
Qed.

Lemma file_not_optional_step n : nkind n = KFILE -> is_optional_step n = false.
Proof. intros H. unfold is_optional_step. rewrite H, gen_kfile_not_kstep. reflexivity. Qed.

Lemma same_file_label_same_key (x n : node) : nkind x = KFILE -> nkind n = KFILE -> nlabel x = nlabel n -> nkey x = nkey n.
Proof.
  unfold nkind, nlabel. destruct (nkey x) as [kx lx], (nkey n) as [kn ln]. cbn [fst snd]. intros -> -> ->. reflexivity.
Qed.

(* the file row of a selected node after the UPDATE *)
Lemma revert_node_target g n : is_revert_target g n = true ->
  nfstate (revert_node g n) = (if nfstate n =? revert_exempt then nfstate n else revert_to) /\
  nfhash (revert_node g n) = (if nfstate n =? revert_exempt then nfhash n else None).
Proof.
  intros Ht. unfold revert_node. rewrite (file_not_optional_step n (revert_target_kind g n Ht)), Ht.
  destruct (nfstate n =? revert_exempt); cbn [negb andb]; split; reflexivity.
Qed.

Lemma bd_value_reverted g1 g n v : is_revert_target g n = true -> rq_value n = Some v ->
  bd_value (prestep_node g1 (revert_node g n)) = None \/ bd_value (prestep_node g1 (revert_node g n)) = Some v.
Proof.
  intros Ht Hv. destruct (revert_node_target g n Ht) as [Hs Hh].
  unfold bd_value. rewrite prestep_node_fstate, prestep_node_fhash, Hs, Hh.
  unfold rq_value in Hv. destruct (nfstate n =? revert_exempt) eqn:E.
  - apply N.eqb_eq in E. rewrite E, gen_exempt_is_volatile. right. exact Hv.
  - destruct gen_revert_to_not_queued as [-> ->]. left. reflexivity.
Qed.

Theorem optional_outputs_removed c g f n v h :
  existsb (guard_fires c) finalize_guards = false ->          (* successful, unrestricted, cleaning enabled *)
  keys_nodup g ->
  In n (gnodes g) -> is_revert_target g n = true ->              (* a VOLATILE/BUILT/OUTDATED output of an attached step with _implied_need = OPTIONAL *)
  rq_value n = Some v -> (v = None \/ v = Some h) ->             (* VOLATILE, or a recorded hash h *)
  fs_get f (nlabel n) = Some (FFile h) ->                        (* on disk, unmodified when a hash is recorded *)
  let r := finalize c (init_state g f) in
  fs_get (s_fs r) (nlabel n) = None /\
  forall n', In n' (gnodes (s_g r)) -> nkey n' = nkey n ->
    nfstate n' = (if nfstate n =? revert_exempt then nfstate n else revert_to) /\
    nfhash n' = (if nfstate n =? revert_exempt then nfhash n else None).
Proof.
  intros Hguard Hnd Hn Ht Hv Hvv Hdisk. cbv zeta.
  rewrite (finalize_unguarded c g f Hguard).
  destruct (revert_optional g empty_queue) as [g1 q1] eqn:Hrev. cbv zeta. cbn [s_g s_fs].
  assert (g1 = fst (revert_optional g empty_queue)) as Hg1 by (rewrite Hrev; reflexivity).
  assert (q1 = snd (revert_optional g empty_queue)) as Hq1 by (rewrite Hrev; reflexivity).
  pose proof (revert_target_kind g n Ht) as Hkind.
  split.
  - (* disk *)
    apply (rdf_removes _ f (nlabel n) v h); [|exact Hvv | exact Hdisk].
    apply queue_deleted_keeps_weak.
    + intros x Hx Hxk Hxl.
      unfold workflow_dd in Hx. rewrite trellis_dd_deleted in Hx. apply in_rev in Hx.
      unfold dd_raw in Hx. apply dd_loop_acc_sub in Hx. destruct Hx as [[]|Hx].
      unfold prestep in Hx. cbn [gnodes] in Hx. apply in_map_iff in Hx. destruct Hx as [x1 [<- Hx1]].
      rewrite Hg1 in Hx1. unfold revert_optional in Hx1. cbn [fst gnodes] in Hx1.
      apply in_map_iff in Hx1. destruct Hx1 as [m [<- Hm]].
      assert (m = n) as ->.
      { apply (nodup_map_inj nkey (gnodes g)); [exact Hnd | exact Hm | exact Hn|].
        rewrite <- (revert_node_key g m), <- (prestep_node_key g1 (revert_node g m)).
        apply same_file_label_same_key; assumption. }
      apply bd_value_reverted; assumption.
    + rewrite Hq1. unfold revert_optional. cbn [snd]. apply revert_fold_sets; [| | exact Hv].
      * apply filter_In. split; assumption.
      * intros x Hx Hxl. apply filter_In in Hx. destruct Hx as [Hx Hxt].
        apply (nodup_map_inj nkey (gnodes g)); [exact Hnd | exact Hx | exact Hn|].
        apply same_file_label_same_key; [apply (revert_target_kind g x Hxt) | exact Hkind | exact Hxl].
  - (* graph *)
    intros n' Hn' Hk'. rewrite Hg1 in Hn'.
    destruct (final_node_origin g n' Hn') as [m [Hm [Hkm [_ [Hs Hh]]]]].
    assert (m = n) as -> by (apply (nodup_map_inj nkey (gnodes g)); [exact Hnd | exact Hm | exact Hn | congruence]).
    destruct (revert_node_target g n Ht) as [Hs' Hh']. rewrite Hs, Hh, Hs', Hh'. split; reflexivity.
Qed.

(* the attached optional steps are PENDING again *)
Lemma after_lost_sstate lost n : nsstate (after_lost lost n) = nsstate n.
Proof. unfold after_lost. destruct (_ && _); reflexivity. Qed.
Lemma prestep_node_sstate g n : nsstate (prestep_node g n) = nsstate n.
Proof. unfold prestep_node. destruct (ncreator n); [|reflexivity]. destruct (_ && _); reflexivity. Qed.

Theorem optional_steps_reverted c g f s :
  existsb (guard_fires c) finalize_guards = false -> keys_nodup g ->
  In s (gnodes g) -> is_optional_step s = true ->
  let r := finalize c (init_state g f) in
  forall s', In s' (gnodes (s_g r)) -> nkey s' = nkey s -> nsstate s' = revert_step_to.
Proof.
  intros Hguard Hnd Hs Hopt. cbv zeta. rewrite (finalize_unguarded c g f Hguard).
  destruct (revert_optional g empty_queue) as [g1 q1] eqn:Hrev. cbv zeta. cbn [s_g].
  intros s' Hs' Hk.
  assert (g1 = fst (revert_optional g empty_queue)) as Hg1 by (rewrite Hrev; reflexivity).
  rewrite Hg1 in Hs'. unfold workflow_dd in Hs'. rewrite trellis_dd_graph in Hs'. cbn [gnodes] in Hs'.
  apply in_map_iff in Hs'. destruct Hs' as [n1 [<- Hn1]].
  unfold dd_raw in Hn1. apply dd_loop_nodes_sub in Hn1.
  unfold prestep in Hn1. cbn [gnodes] in Hn1. apply in_map_iff in Hn1. destruct Hn1 as [n2 [<- Hn2]].
  unfold revert_optional in Hn2. cbn [fst gnodes] in Hn2. apply in_map_iff in Hn2. destruct Hn2 as [m [<- Hm]].
  rewrite after_lost_key, prestep_node_key, revert_node_key in Hk.
  assert (m = s) as -> by (apply (nodup_map_inj nkey (gnodes g)); assumption).
  rewrite after_lost_sstate, prestep_node_sstate. unfold revert_node. rewrite Hopt. reflexivity.
Qed.
