(* C10: the acyclicity hypotheses of C10_update_meta_correct (a rank for the creator forest and for the
   two-hop consumer relation, below the number of steps) follow from C09's invariant through the
   coupling: the creator links (NTC) and the dependency edges (inv_acyclic_b) are acyclic. *)
From Coq Require Import List NArith Bool Arith Lia.
From SV Require Import lib.Bytes lib.Closure lib.SqlExpr gen.GenSched model.Graph model.GraphInv model.Sched
  model.SchedGraph proofs.GraphBase proofs.GraphNodes proofs.GraphInvP proofs.SchedProofs proofs.SchedPrims
  proofs.SchedSeq proofs.SchedSkel proofs.SchedGraphCpl proofs.SchedGraphBelow proofs.SchedGraphSim.
Import ListNotations.
Open Scope N_scope.

Lemma filter_true_length {A} (l : list A) : length (filter (fun _ => true) l) = length l.
Proof. induction l; cbn; congruence. Qed.

(* ---- creator forest ---- *)
Definition rankc (g : graph) (k : N) : nat :=
  length (filter (fun x => mem_N k (below g (s_key x))) (g_steps g)).

Lemma creator_edge g s c : In s (g_steps g) -> creator_step g s = Some c ->
  In (s_key c, s_key s) (edges_of (node_creators g)).
Proof.
  intros Hs Hc. unfold creator_step in Hc. destruct (s_creator s) as [ck|] eqn:E; [|discriminate].
  apply find_step_some in Hc. destruct Hc as [_ Hk]. apply edges_of_In. unfold node_creators.
  apply in_or_app. left. apply in_map_iff. exists s. split; [rewrite E, Hk; reflexivity | exact Hs].
Qed.

Theorem creator_rank_acyclic g : acyclic (edges_of (node_creators g)) -> CreatorRank g (rankc g).
Proof.
  intros Hac. split.
  - intros s c Hs Hc. pose proof (creator_edge g s c Hs Hc) as He. pose proof (creator_step_in g s c Hc) as Hcin.
    unfold rankc. apply filter_length_lt with (x0 := c); [| exact Hcin | |].
    + intros x _ Hq. apply below_spec in Hq. destruct Hq as [Hne Hp]. apply below_spec. split.
      * intros E. apply (Hac (s_key x)). rewrite E in He. eapply path_path1_trans; [exact Hp|].
        econstructor; [exact He | apply path_refl].
      * eapply path_snoc; eassumption.
    + apply below_spec. split; [|eapply path_step; [exact He | apply path_refl]].
      intros E. apply (Hac (s_key c)). rewrite E in He. econstructor; [exact He | apply path_refl].
    + destruct (mem_N (s_key c) (below g (s_key c))) eqn:E; [|reflexivity]. apply below_spec in E. destruct E as [E _]. congruence.
  - intros s Hs. unfold rankc. rewrite <- (filter_true_length (g_steps g)).
    apply filter_length_lt with (x0 := s); [intros; reflexivity | exact Hs | reflexivity|].
    destruct (mem_N (s_key s) (below g (s_key s))) eqn:E; [|reflexivity]. apply below_spec in E. destruct E as [E _]. congruence.
Qed.

(* ---- two-hop consumer relation ---- *)
Definition dedges (g : graph) : list (N * N) := map (fun d => (d_src d, d_snk d)) (g_deps g).
Definition down (g : graph) (k : N) : list N := closure_from N.eqb (dedges g) (length (g_deps g)) [k].
Definition rankn (g : graph) (k : N) : nat :=
  length (filter (fun x => mem_N (s_key x) (down g k) && negb (s_key x =? k)) (g_steps g)).

Lemma down_spec g k x : mem_N x (down g k) = true <-> path (dedges g) k x.
Proof.
  unfold down. rewrite <- memb_mem_N.
  rewrite (closure_spec N.eqb N_eqb_spec'); [|unfold dedges; rewrite map_length; lia].
  split; [intros [a [[<-|[]] Hp]]; exact Hp | intros Hp; exists k; split; [left; reflexivity | exact Hp]].
Qed.

Theorem need_rank_acyclic g : acyclic (dedges g) -> NeedRank g (rankn g).
Proof.
  intros Hac. split.
  - intros k y Hy. apply cons_keys_spec in Hy.
    destruct Hy as [d1 [d2 [sy [H1 [H2 [E1 [E2 [Ef [_ ->]]]]]]]]].
    apply find_step_some in Ef. destruct Ef as [Hsy Eky].
    assert (He1 : In (k, d_snk d1) (dedges g)).
    { unfold dedges. apply in_map_iff. exists d1. rewrite E1. auto. }
    assert (He2 : In (d_snk d1, s_key sy) (dedges g)).
    { unfold dedges. apply in_map_iff. exists d2. rewrite E2, Eky. auto. }
    assert (Hky : path1 (dedges g) k (s_key sy)).
    { econstructor; [exact He1|]. eapply path_step; [exact He2 | apply path_refl]. }
    unfold rankn. apply filter_length_lt with (x0 := sy); [| exact Hsy | |].
    + intros x _ Hq. apply andb_true_iff in Hq. destruct Hq as [Hq1 Hq2]. apply down_spec in Hq1.
      apply andb_true_iff. split.
      * apply down_spec. eapply path_trans; [apply path1_path; exact Hky | exact Hq1].
      * apply negb_true_iff, N.eqb_neq. intros E. apply (Hac k). rewrite E in Hq1.
        eapply path1_path_trans; eassumption.
    + apply andb_true_iff. split; [apply down_spec; apply path1_path; exact Hky|].
      apply negb_true_iff, N.eqb_neq. intros E. apply (Hac k). rewrite E in Hky. exact Hky.
    + rewrite N.eqb_refl. cbn [negb]. apply andb_false_r.
  - intros k Hk. apply attached_keys_step in Hk. destruct Hk as [s [Hs [Ek _]]].
    unfold rankn. rewrite <- (filter_true_length (g_steps g)).
    apply filter_length_lt with (x0 := s); [intros; reflexivity | exact Hs | reflexivity|].
    rewrite Ek, N.eqb_refl. cbn [negb]. apply andb_false_r.
Qed.

(* ---- from the coupled state ---- *)
Lemma path1_map_inj {A B} (f : A -> B) (E : list (A * A)) :
  (forall a b, f a = f b -> a = b) ->
  forall x y, path1 (map (fun e => (f (fst e), f (snd e))) E) x y ->
  exists a b, x = f a /\ y = f b /\ path1 E a b.
Proof.
  intros Hinj x y [x0 y0 z He Hp].
  apply in_map_iff in He. destruct He as [[a b] [Heq He]]. cbn [fst snd] in Heq. inversion Heq; subst x0 y0.
  assert (H : forall u v, path (map (fun e => (f (fst e), f (snd e))) E) u v ->
              forall b0, u = f b0 -> exists c, v = f c /\ path E b0 c).
  { intros u v Hp'. induction Hp' as [u|u v w He' Hp' IH]; intros b0 ->; [exists b0; split; [reflexivity | apply path_refl]|].
    apply in_map_iff in He'. destruct He' as [[a1 b1] [Heq' He']]. cbn [fst snd] in Heq'. inversion Heq' as [[Ha Hb]].
    apply Hinj in Ha. subst a1. destruct (IH b1 (eq_sym Hb)) as [c [-> Hc]]. exists c. split; [reflexivity|].
    eapply path_step; eassumption. }
  destruct (H _ _ Hp b eq_refl) as [c [-> Hc]]. exists a, c. split; [reflexivity|]. split; [reflexivity|].
  econstructor; eassumption.
Qed.

Section FromState.
Variable idf : key -> N.
Hypothesis idf_inj : forall a b, idf a = idf b -> a = b.

Lemma dedges_cpl s g : coupled idf s g ->
  dedges g = map (fun e => (idf (fst e), idf (snd e))) (EL (deps s)).
Proof.
  intros C. unfold dedges, EL. rewrite (cp_deps idf s g C), !map_map. reflexivity.
Qed.

Theorem acyclic_cpl s g : J s -> coupled idf s g -> Acyclic g.
Proof.
  intros [HI [_ HA]] C. pose proof (inv_nw _ HI) as HW. pose proof (inv_rw _ HI) as Hrw. split.
  - exists (rankc g). apply creator_rank_acyclic.
    intros x Hx. inversion Hx as [a b c He Hp Ea Ec]. subst a c.
    apply (edges_cpl idf s g C HW Hrw) in He. destruct He as [c0 [y0 [-> [-> He]]]].
    apply (path_cpl idf idf_inj s g C HW Hrw) in Hp. destruct Hp as [y [Ey Hp]]. apply idf_inj in Ey. subst y.
    apply (HA c0). econstructor; eassumption.
  - exists (rankn g). apply need_rank_acyclic. rewrite (dedges_cpl s g C).
    intros x Hx. destruct (path1_map_inj idf (EL (deps s)) idf_inj x x Hx) as [a [b [E1 [E2 Hp]]]].
    rewrite E1 in E2. apply idf_inj in E2. subst b. apply (inv_ac _ HI a). exact Hp.
Qed.

End FromState.
