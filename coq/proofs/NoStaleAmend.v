(* C01, graph level: Workflow.amend_step (OpAmendStep) preserves K = NoStaleSuccess in every state
   that satisfies C09's invariant, for a step that is not SUCCEEDED (the protocol: amend is a
   request of a step whose job is in flight).

   amend_step = supply_files (unknown inputs become detached UNDECLARED file nodes; input edges
   file -> step are added), add_env, and for every new output declare_file(PLANNED / VOLATILE) +
   an output edge step -> file.  Every file node goes through Trellis.create (relation [Decl] of
   NoStaleDeclare.v); File.initialize_row keeps a former BUILT state and then outdates the file
   with propagation (a marking, [Mk]/[Cl] of NoStaleMark.v); the added edges start or end at the
   amending step, which is not SUCCEEDED.  The bundle [JA] is carried through all of it. *)
From Coq Require Import List NArith Bool Lia.
From SV Require Import lib.Bytes model.Graph model.GraphInv model.NoStale proofs.NoStaleProofs
     proofs.NoStaleMark proofs.NoStaleRescan proofs.NoStaleInv proofs.NoStaleOps proofs.NoStaleDelete
     proofs.NoStaleDeclare.
Import ListNotations.
Open Scope N_scope.

(* ------------------------------------------------------------------------------------------ *)
(* The bundle                                                                                  *)
(* ------------------------------------------------------------------------------------------ *)
Definition nodes_kept (s s' : st) : Prop := forall x, find_node x s <> None -> find_node x s' <> None.

Definition JA (l : str) (s : st) : Prop :=
  K_b s = true /\ unique_labels s /\ single_producer s /\ NF s /\ ED s /\ not_succ s l /\
  find_node (KStep, l) s <> None.

Lemma single_producer_Decl (k : key) (s s' : st) :
  fst k = KFile -> Decl k s s' -> (forall d, In d (deps s') -> key_eqb (dsnk d) k = false) ->
  single_producer s -> single_producer s'.
Proof.
  intros Hk (_ & Hd & _ & (q & Eq & _) & _) Hno Hsp f l1 l2 Ha H1 H2.
  assert (Hfk : key_eqb (KFile, f) k = false).
  { destruct (file_sink_edge l1 f s' H1) as (d & Hdin & _ & Hsnk). rewrite <- Hsnk. exact (Hno d Hdin). }
  rewrite (Hd _ Hfk) in Ha.
  assert (Hsub : forall l0, In f (file_sinks_of_step l0 s') -> In f (file_sinks_of_step l0 s)).
  { intros l0 H0. destruct (file_sink_edge l0 f s' H0) as (d & Hdin & Hsrc & Hsnk).
    unfold file_sinks_of_step, sinks_of. apply in_map_iff. exists (KFile, f). split; [reflexivity|].
    apply filter_In. split; [|reflexivity]. apply in_map_iff. exists d. split; [exact Hsnk|].
    rewrite Eq in Hdin. apply filter_In in Hdin. destruct Hdin as [Hdin _].
    apply filter_In. split; [exact Hdin|]. rewrite Hsrc. apply key_eqb_refl. }
  exact (Hsp f l1 l2 Ha (Hsub l1 H1) (Hsub l2 H2)).
Qed.

Lemma not_succ_steps (l : str) (s s' : st) : steps s' = steps s -> not_succ s l -> not_succ s' l.
Proof. intros E H. unfold not_succ, sstate_of, find_step in *. rewrite E. exact H. Qed.

(* ------------------------------------------------------------------------------------------ *)
(* Trellis.create of a file node, any creator that is not a file, before the row is written    *)
(* ------------------------------------------------------------------------------------------ *)
Definition creator_not_file (cr : option key) : Prop :=
  match cr with Some c => fst c <> KFile | None => True end.

Lemma creator_ok_not_file (l : str) (cr : option key) (s : st) :
  creator_ok (KFile, l) cr s = Ok tt -> creator_not_file cr.
Proof.
  destruct cr as [c|]; [|exact (fun _ => I)]. unfold creator_ok. intros H. peel H. intros Hf.
  match goal with E : negb (creator_kind_ok _ (fst c)) = false |- _ =>
    apply negb_false_iff in E; cbn [fst] in E; rewrite Hf in E; discriminate E end.
Qed.

Lemma nodes_kept_refl (s : st) : nodes_kept s s.
Proof. intros x H. exact H. Qed.

Lemma nodes_kept_trans (a b c : st) : nodes_kept a b -> nodes_kept b c -> nodes_kept a c.
Proof. intros H1 H2 x H. exact (H2 x (H1 x H)). Qed.

Lemma nodes_kept_same (s s' : st) : nodes s' = nodes s -> nodes_kept s s'.
Proof. intros E x H. unfold find_node. rewrite E. exact H. Qed.

(* the state [s1] that File.initialize_row starts from *)
Lemma create_file_core (l : str) (cr : option key) (s s1 : st) :
  NF s -> ED s -> creator_not_file cr ->
  (let k := (KFile, l) in
   let cdet := match cr with None => true | Some c => is_detached c s end in
   match find_node k s with
   | Some n =>
     if negb (ndet n) then Internal 113
     else
       let s1 := upd_node k (fun n => mkNode (nk n) cr cdet) s in
       do s2 <- match ncre n with
                | None => Ok s1
                | Some oc => if negb (is_detached oc s) then Internal 114 else after_lost_product oc s1
                end;
       let s3 := del_all_sources k s2 in
       foldM (fun s p => detach_any p s) (products k s3) s3
   | None => Ok (set_nodes s (nodes s ++ [mkNode k cr cdet]))
   end) = Ok s1 ->
  is_detached (KFile, l) s = true /\ Decl (KFile, l) s s1 /\
  (forall d, In d (deps s1) -> key_eqb (dsnk d) (KFile, l) = false) /\ NF s1 /\ ED s1 /\ nodes_kept s s1 /\
  find_node (KFile, l) s1 <> None.
Proof.
  intros HN HE Hc E1. cbv zeta in E1. set (k := (KFile, l)) in *.
  set (cdet := match cr with None => true | Some c => is_detached c s end) in *.
  destruct (find_node k s) as [n|] eqn:Ef.
  - destruct (negb (ndet n)) eqn:Edn; [discriminate|]. apply negb_false_iff in Edn.
    unfold bind in E1.
    set (g := fun n0 : node => mkNode (nk n0) cr cdet) in *.
    assert (Hg : forall n0, nk (g n0) = nk n0) by reflexivity.
    match type of E1 with match ?m with _ => _ end = _ => destruct m as [s2| |] eqn:E2; try discriminate end.
    assert (D12 : Decl k s s2 /\ nodes s2 = nodes (upd_node k g s) /\ deps s2 = deps s).
    { destruct (ncre n) as [oc|].
      - destruct (negb (is_detached oc s)) eqn:Eoc; [discriminate|]. apply negb_false_iff in Eoc.
        unfold after_lost_product in E2. destruct oc as [ock ocl]. cbn [fst snd] in E2.
        destruct ock; try discriminate; injection E2 as <-.
        + split; [|split; reflexivity].
          apply (Decl_trans k s (upd_node k g s)); [reflexivity|apply Decl_upd_node; exact Hg|].
          apply Decl_delete_hash. unfold is_detached.
          rewrite (find_node_upd_other k (KStep, ocl) g s Hg eq_refl). exact Eoc.
        + split; [apply Decl_upd_node; exact Hg|split; reflexivity].
      - injection E2 as <-. split; [apply Decl_upd_node; exact Hg|split; reflexivity]. }
    destruct D12 as (D12 & N12 & Dp12).
    assert (HN3 : NF (del_all_sources k s2)).
    { intros n0 c0 Hn0 Hc0. change (nodes (del_all_sources k s2)) with (nodes s2) in Hn0.
      rewrite N12 in Hn0. unfold upd_node in Hn0. cbn [nodes set_nodes] in Hn0.
      apply in_map_iff in Hn0. destruct Hn0 as (n1 & Hn1 & Hin1).
      destruct (key_eqb (nk n1) k); subst n0.
      - cbn [ncre g] in Hc0. subst cr. exact Hc.
      - exact (HN n1 c0 Hin1 Hc0). }
    pose proof (NF_no_products l _ HN3) as Hnp. fold k in Hnp. rewrite Hnp in E1.
    cbn [foldM] in E1. injection E1 as <-.
    split; [unfold is_detached; rewrite Ef; exact Edn|].
    split; [apply (Decl_trans k s s2); [reflexivity|exact D12|apply Decl_del_sources]|].
    split.
    { intros d Hd. change (deps (del_all_sources k s2)) with (filter (fun d0 => negb (key_eqb (dsnk d0) k)) (deps s2)) in Hd.
      apply filter_In in Hd. destruct Hd as [_ Hd]. apply negb_true_iff in Hd. exact Hd. }
    split; [exact HN3|].
    assert (Hkept : nodes_kept s (del_all_sources k s2)).
    { intros x Hx. unfold find_node. change (nodes (del_all_sources k s2)) with (nodes s2). rewrite N12.
      exact (find_node_some_mono_upd k x g s Hg Hx). }
    split; [|split; [exact Hkept|apply Hkept; rewrite Ef; discriminate]].
    intros d Hd. change (deps (del_all_sources k s2)) with (filter (fun d0 => negb (key_eqb (dsnk d0) k)) (deps s2)) in Hd.
    apply filter_In in Hd. destruct Hd as [Hd _]. rewrite Dp12 in Hd. exact (Hkept _ (HE d Hd)).
  - injection E1 as <-. split; [unfold is_detached; rewrite Ef; reflexivity|].
    split; [apply Decl_add_node; reflexivity|]. split.
    { intros d Hd. cbn [deps set_nodes] in Hd. destruct (key_eqb (dsnk d) k) eqn:E; [|reflexivity].
      exfalso. apply key_eqb_eq in E. apply (HE d Hd). rewrite E. exact Ef. }
    split.
    { intros n0 c0 Hn0 Hc0. cbn [nodes set_nodes] in Hn0. apply in_app_or in Hn0.
      destruct Hn0 as [Hn0|[<-|[]]]; [exact (HN n0 c0 Hn0 Hc0)|]. cbn in Hc0. subst cr. exact Hc. }
    assert (Hkept : nodes_kept s (set_nodes s (nodes s ++ [mkNode k cr cdet]))).
    { intros x Hx. apply find_node_some_mono_add. exact Hx. }
    split; [intros d Hd; cbn [deps set_nodes] in Hd; exact (Hkept _ (HE d Hd))|]. split; [exact Hkept|].
    unfold find_node. cbn [nodes set_nodes]. clear. induction (nodes s) as [|a xs IH]; cbn [app find].
    + cbn [nk]. rewrite key_eqb_refl. discriminate.
    + destruct (key_eqb (nk a) k); [discriminate|exact IH].
Qed.

(* ------------------------------------------------------------------------------------------ *)
(* File.initialize_row, any requested state: a [Decl] step, then possibly a marking            *)
(* ------------------------------------------------------------------------------------------ *)
Lemma fir_general (l : str) (req : fstate) (s s' : st) :
  file_initialize_row l req s = Ok s' ->
  exists sm, Decl (KFile, l) s sm /\ nodes sm = nodes s /\ deps sm = deps s /\
             (s' = sm \/ mark_file_outdated l sm = Ok s').
Proof.
  unfold file_initialize_row. cbv zeta. intros H. unfold bind in H.
  match type of H with match ?m with _ => _ end = _ => destruct m as [sm| |] eqn:E1; try discriminate end.
  exists sm.
  assert (Hsm : Decl (KFile, l) s sm /\ nodes sm = nodes s /\ deps sm = deps s).
  { destruct (find_file l s) as [r|] eqn:Ef.
    - unfold set_fstate in E1. split; [exact (Decl_set_fstate_hash (KFile, l) _ _ s sm eq_refl E1)|].
      exact (set_fstate_hash_graph l _ _ s sm E1).
    - peel E1. injection E1 as <-. split; [apply (Decl_add_file (KFile, l)); reflexivity|]. split; reflexivity. }
  destruct Hsm as (D & Nn & Dd). split; [exact D|]. split; [exact Nn|]. split; [exact Dd|].
  match type of H with match ?st0 with _ => _ end = _ => destruct st0 end;
    try (left; injection H as <-; reflexivity).
  right. exact H.
Qed.

(* ------------------------------------------------------------------------------------------ *)
(* create of a file node keeps the bundle                                                      *)
(* ------------------------------------------------------------------------------------------ *)
Lemma JA_Mk_Cl (l : str) (s s' : st) : Mk s s' -> Cl s s' -> JA l s -> JA l s'.
Proof.
  intros M C (HK & Hu & Hsp & HN & HE & Hl & Hn).
  destruct (KI_Mk_Cl s s' M C (conj Hu (conj Hsp HK))) as (Hu' & Hsp' & HK').
  pose proof M as ((Nn & Dd & _) & _).
  split; [exact HK'|]. split; [exact Hu'|]. split; [exact Hsp'|]. split.
  { intros n c Hin Hc. rewrite Nn in Hin. exact (HN n c Hin Hc). }
  split.
  { intros d Hd. rewrite Dd in Hd. unfold find_node. rewrite Nn. exact (HE d Hd). }
  split; [exact (Mk_not_succ s s' l M Hl)|]. unfold find_node. rewrite Nn. exact Hn.
Qed.

Lemma JA_create_file (l p : str) (cr : option key) (f : fstate) (s s' : st) :
  create (KFile, p) cr (InitFile f) s = Ok s' -> JA l s ->
  JA l s' /\ (forall d, In d (deps s') -> key_eqb (dsnk d) (KFile, p) = false) /\
  find_node (KFile, p) s' <> None /\ nodes_kept s s'.
Proof.
  intros H (HK & Hu & Hsp & HN & HE & Hl & Hn). unfold create in H. unfold bind in H.
  destruct (creator_ok (KFile, p) cr s) as [[]| |] eqn:Eco; try discriminate.
  pose proof (creator_ok_not_file p cr s Eco) as Hc.
  match type of H with match ?m with _ => _ end = _ => destruct m as [s1| |] eqn:E1; try discriminate end.
  cbn [snd] in H.
  destruct (create_file_core p cr s s1 HN HE Hc E1) as (Hdk & D1 & Hno1 & HN1 & HE1 & Hk1 & Hp1).
  destruct (fir_general p f s1 s' H) as (sm & D2 & N2 & Dp2 & Hend).
  pose proof (Decl_trans (KFile, p) s s1 sm eq_refl D1 D2) as D.
  assert (Hnom : forall d, In d (deps sm) -> key_eqb (dsnk d) (KFile, p) = false).
  { intros d Hd. rewrite Dp2 in Hd. exact (Hno1 d Hd). }
  assert (Hkm : nodes_kept s sm) by (apply (nodes_kept_trans s s1 sm Hk1); apply nodes_kept_same; exact N2).
  assert (Hpm : find_node (KFile, p) sm <> None) by (unfold find_node; rewrite N2; exact Hp1).
  assert (Jm : JA l sm).
  { destruct D as (St & _). pose proof (Decl_trans (KFile, p) s s1 sm eq_refl D1 D2) as D'.
    split; [exact (K_Decl (KFile, p) s sm eq_refl Hdk D' Hnom HK)|].
    split; [unfold unique_labels; rewrite St; exact Hu|].
    split; [exact (single_producer_Decl (KFile, p) s sm eq_refl D' Hnom Hsp)|].
    split; [intros n c Hin Hcn; rewrite N2 in Hin; exact (HN1 n c Hin Hcn)|].
    split; [intros d Hd; rewrite Dp2 in Hd; unfold find_node; rewrite N2; exact (HE1 d Hd)|].
    split; [exact (not_succ_steps l s sm St Hl)|exact (Hkm _ Hn)]. }
  destruct Hend as [->|Hmark]; [split; [exact Jm|split; [exact Hnom|split; [exact Hpm|exact Hkm]]]|].
  (* a former BUILT output: outdated with propagation; no edge ends in it, so it has no producer *)
  pose proof Jm as (_ & _ & Hspm & _).
  unfold mark_file_outdated in Hmark. destruct (mark_mutual (fuel_of sm)) as [_ Hf].
  assert (Hprod : producers_not_succ sm p).
  { intros _ l0 Hl0. exfalso. destruct (file_sink_edge l0 p sm Hl0) as (d & Hdin & _ & Hsnk).
    pose proof (Hnom d Hdin) as E. rewrite Hsnk, key_eqb_refl in E. discriminate. }
  destruct (Hf p sm s' Hspm Hprod Hmark) as [M C]. pose proof M as ((Nn & Dd & _) & _).
  split; [exact (JA_Mk_Cl l sm s' M C Jm)|]. split; [|split].
  - intros d Hd. rewrite Dd in Hd. exact (Hnom d Hd).
  - unfold find_node. rewrite Nn. exact Hpm.
  - apply (nodes_kept_trans s sm s' Hkm). apply nodes_kept_same. exact Nn.
Qed.

(* ------------------------------------------------------------------------------------------ *)
(* Adding an edge that starts or ends at the amending step                                     *)
(* ------------------------------------------------------------------------------------------ *)
Definition add_edge (d : dep) (s : st) : st := set_deps s (deps s ++ [d]).

(* the edge touches no step but [l] *)
Definition only_at (l : str) (d : dep) : Prop :=
  forall x, x <> l -> key_eqb (dsnk d) (KStep, x) = false /\ key_eqb (dsrc d) (KStep, x) = false.

Lemma inputs_add_edge (d : dep) (x : str) (s : st) :
  key_eqb (dsnk d) (KStep, x) = false -> file_inputs_of_step x (add_edge d s) = file_inputs_of_step x s.
Proof.
  intros H. unfold file_inputs_of_step, sources_of, add_edge. cbn [deps set_deps].
  rewrite filter_app. cbn [filter]. rewrite H. rewrite app_nil_r. reflexivity.
Qed.

Lemma sinks_add_edge (d : dep) (x : str) (s : st) :
  key_eqb (dsrc d) (KStep, x) = false -> file_sinks_of_step x (add_edge d s) = file_sinks_of_step x s.
Proof.
  intros H. unfold file_sinks_of_step, sinks_of, add_edge. cbn [deps set_deps].
  rewrite filter_app. cbn [filter]. rewrite H. rewrite app_nil_r. reflexivity.
Qed.

Lemma row_not_succ (l : str) (s : st) (r : srow) :
  unique_labels s -> not_succ s l -> In r (steps s) -> sl r = l -> sstate_eqb (sst r) SSucceeded = false.
Proof.
  intros Hu Hn Hr El. unfold not_succ, sstate_of in Hn. rewrite <- El in Hn.
  rewrite (find_step_in s r Hu Hr) in Hn. destruct (sst r); try reflexivity. exfalso. apply Hn. reflexivity.
Qed.

Lemma JA_add_edge (l : str) (d : dep) (s : st) :
  JA l s -> only_at l d -> find_node (dsnk d) s <> None ->
  (* an output edge ends in a file that has no producer edge yet *)
  (forall f, dsnk d = (KFile, f) -> forall e, In e (deps s) -> key_eqb (dsnk e) (KFile, f) = false) ->
  JA l (add_edge d s).
Proof.
  intros (HK & Hu & Hsp & HN & HE & Hl & Hn) Hat Hex Hout.
  split; [|split; [exact Hu|split; [|split; [exact HN|split; [|split; [exact Hl|exact Hn]]]]]].
  - unfold K_b in *. rewrite forallb_forall in *. intros r Hr. change (steps (add_edge d s)) with (steps s) in Hr.
    destruct (str_eqb (sl r) l) eqn:E.
    + apply str_eqb_eq in E. apply K_step_b_not_succeeded. exact (row_not_succ l s r Hu Hl Hr E).
    + apply str_eqb_false in E. destruct (Hat (sl r) E) as [H1 H2]. specialize (HK r Hr).
      unfold K_step_b in *. rewrite (inputs_add_edge d (sl r) s H1), (sinks_add_edge d (sl r) s H2). exact HK.
  - intros f l1 l2 Ha H1 H2.
    change (is_detached (KFile, f) (add_edge d s)) with (is_detached (KFile, f) s) in Ha.
    (* a producer edge in the new state is an old one or the new edge *)
    assert (Hcase : forall x, In f (file_sinks_of_step x (add_edge d s)) ->
                              In f (file_sinks_of_step x s) \/ (dsrc d = (KStep, x) /\ dsnk d = (KFile, f))).
    { intros x Hx. destruct (file_sink_edge x f _ Hx) as (e & Hein & Hsrc & Hsnk).
      unfold add_edge in Hein. cbn [deps set_deps] in Hein. apply in_app_or in Hein.
      destruct Hein as [Hein|[<-|[]]]; [left|right; auto].
      unfold file_sinks_of_step, sinks_of. apply in_map_iff. exists (KFile, f). split; [reflexivity|].
      apply filter_In. split; [|reflexivity]. apply in_map_iff. exists e. split; [exact Hsnk|].
      apply filter_In. split; [exact Hein|]. rewrite Hsrc. apply key_eqb_refl. }
    assert (Hnone : dsnk d = (KFile, f) -> forall x, ~ In f (file_sinks_of_step x s)).
    { intros Hd x Hx. destruct (file_sink_edge x f s Hx) as (e & Hein & _ & Hsnk).
      pose proof (Hout f Hd e Hein) as E. rewrite Hsnk, key_eqb_refl in E. discriminate. }
    destruct (Hcase l1 H1) as [A|[A1 A2]], (Hcase l2 H2) as [B|[B1 B2]].
    + exact (Hsp f l1 l2 Ha A B).
    + exfalso. exact (Hnone B2 l1 A).
    + exfalso. exact (Hnone A2 l2 B).
    + congruence.
  - intros e He. unfold add_edge in He. cbn [deps set_deps] in He. apply in_app_or in He.
    change (find_node (dsnk e) (add_edge d s)) with (find_node (dsnk e) s).
    destruct He as [He|[<-|[]]]; [exact (HE e He)|exact Hex].
Qed.

Lemma JA_add_dep (l : str) (a b : key) (dyn : bool) (s s' : st) :
  add_dep a b dyn s = Ok s' -> JA l s -> only_at l (mkD a b dyn) -> find_node b s <> None ->
  (forall f, b = (KFile, f) -> forall e, In e (deps s) -> key_eqb (dsnk e) (KFile, f) = false) ->
  JA l s'.
Proof.
  intros H HJ Hat Hex Hout. unfold add_dep in H. peel H. injection H as <-.
  exact (JA_add_edge l (mkD a b dyn) s HJ Hat Hex Hout).
Qed.

Lemma only_at_input (l p : str) (dyn : bool) : only_at l (mkD (KFile, p) (KStep, l) dyn).
Proof.
  intros x Hx. cbn [dsnk dsrc]. split; [|reflexivity]. unfold key_eqb. cbn.
  apply str_eqb_false. congruence.
Qed.

Lemma only_at_output (l p : str) (dyn : bool) : only_at l (mkD (KStep, l) (KFile, p) dyn).
Proof.
  intros x Hx. cbn [dsnk dsrc]. split; [reflexivity|]. unfold key_eqb. cbn.
  apply str_eqb_false. congruence.
Qed.

(* ------------------------------------------------------------------------------------------ *)
(* supply_files                                                                                *)
(* ------------------------------------------------------------------------------------------ *)
Lemma JA_resolve_supply_file (l p : str) (rn : bool) (s s1 : st) (b : bool) :
  resolve_supply_file l p rn s = Ok (s1, b) -> JA l s ->
  JA l s1 /\ find_node (KFile, p) s1 <> None /\ nodes_kept s s1.
Proof.
  intros H HJ. unfold resolve_supply_file, bind in H.
  match type of H with match ?m with _ => _ end = _ => destruct m as [t| |] eqn:E1; try discriminate end.
  cbv zeta in H. peel H. injection H as <- _.
  assert (Hcreate : create (KFile, p) None (InitFile FUndeclared) s = Ok t ->
                    JA l t /\ find_node (KFile, p) t <> None /\ nodes_kept s t).
  { intros Hc. destruct (JA_create_file l p None FUndeclared s t Hc HJ) as (J & _ & Hp & Hk). auto. }
  destruct (find_node (KFile, p) s) as [n|] eqn:Ef; [|exact (Hcreate E1)].
  destruct (ncre n); [|exact (Hcreate E1)].
  destruct (fstate_of p s) as [[]|]; try discriminate; injection E1 as <-;
    (split; [exact HJ|split; [rewrite Ef; discriminate|apply nodes_kept_refl]]).
Qed.

Lemma JA_supply_files (l : str) (paths : list str) (rn dyn : bool) (s s' : st) :
  supply_files l paths rn dyn s = Ok s' -> JA l s -> JA l s'.
Proof.
  intros H HJ. unfold supply_files, bind in H.
  match type of H with match ?m with _ => _ end = _ => destruct m as [[s1 news]| |] eqn:E1; try discriminate end.
  cbn [fst snd] in H.
  (* the first loop: every new name has a node at the end *)
  assert (Hloop : forall ps acc r,
             JA l (fst acc) -> (forall q, In q (snd acc) -> find_node (KFile, q) (fst acc) <> None) ->
             foldM (fun (acc : st * list str) p =>
                      do x <- resolve_supply_file l p rn (fst acc);
                      Ok (fst x, if snd x then snd acc ++ [p] else snd acc)) ps acc = Ok r ->
             JA l (fst r) /\ (forall q, In q (snd r) -> find_node (KFile, q) (fst r) <> None)).
  { induction ps as [|p ps IH]; intros acc r Ja Hq Hf; cbn [foldM] in Hf.
    - injection Hf as <-. auto.
    - unfold bind in Hf at 1. unfold bind in Hf at 1.
      destruct (resolve_supply_file l p rn (fst acc)) as [[t b]| |] eqn:Er; try discriminate.
      destruct (JA_resolve_supply_file l p rn (fst acc) t b Er Ja) as (Jt & Hp & Hk).
      cbn [fst snd] in Hf.
      apply (IH (t, if b then snd acc ++ [p] else snd acc) r); [exact Jt| |exact Hf]. cbn [fst snd].
      intros q Hin. destruct b.
      + apply in_app_or in Hin. destruct Hin as [Hin|[<-|[]]]; [exact (Hk _ (Hq q Hin))|exact Hp].
      + exact (Hk _ (Hq q Hin)). }
  destruct (Hloop paths (s, []) (s1, news) HJ (fun q (F : In q []) => match F with end) E1) as [J1 Hnews].
  cbn [fst snd] in J1, Hnews.
  match type of H with (if ?c then _ else _) = _ => destruct c; [discriminate|] end.
  (* the second loop adds the input edges *)
  assert (Hadd : forall qs t t', JA l t -> foldM (fun s0 q => add_dep (KFile, q) (KStep, l) dyn s0) qs t = Ok t' -> JA l t').
  { apply (foldM_inv (fun s0 q => add_dep (KFile, q) (KStep, l) dyn s0) (JA l)).
    intros t q t' Jt Hc. apply (JA_add_dep l _ _ dyn t t' Hc Jt (only_at_input l q dyn)).
    - destruct Jt as (_ & _ & _ & _ & _ & _ & Hn). exact Hn.
    - intros f Hf. discriminate. }
  exact (Hadd news s1 s' J1 H).
Qed.

(* ------------------------------------------------------------------------------------------ *)
(* amended variables, amended outputs                                                          *)
(* ------------------------------------------------------------------------------------------ *)
Lemma JA_add_env (l x : str) (dyn rep : bool) (s : st) : JA l s -> JA l (add_env l x dyn rep s).
Proof.
  intros HJ. unfold add_env.
  destruct (existsb (fun e => str_eqb (estep e) l && str_eqb (ename e) x) (envs s)); [destruct rep|]; exact HJ.
Qed.

Lemma JA_add_envs (l : str) (dyn rep : bool) (xs : list str) (s : st) :
  JA l s -> JA l (fold_left (fun s0 e => add_env l e dyn rep s0) xs s).
Proof.
  revert s. induction xs as [|x xs IH]; intros s HJ; [exact HJ|]. cbn [fold_left]. apply IH.
  apply JA_add_env. exact HJ.
Qed.

Lemma JA_declare_output (l p : str) (f : fstate) (dyn : bool) (s s' : st) :
  (do t <- declare_file (KStep, l) p f s; add_output_edge l p dyn t) = Ok s' -> JA l s -> JA l s'.
Proof.
  intros H HJ. unfold bind in H.
  destruct (declare_file (KStep, l) p f s) as [t| |] eqn:E1; try discriminate.
  assert (Ht : JA l t /\ (forall d, In d (deps t) -> key_eqb (dsnk d) (KFile, p) = false) /\
               find_node (KFile, p) t <> None).
  { unfold declare_file in E1. destruct f; try discriminate; unfold bind in E1;
      (match type of E1 with match ?m with _ => _ end = _ => destruct m as [t1| |] eqn:Ec; try discriminate end);
      try (match type of E1 with match ?m with _ => _ end = _ => destruct m; try discriminate end);
      injection E1 as <-;
      match goal with Hc : create _ _ _ _ = Ok ?u |- _ =>
        destruct (JA_create_file l p _ _ s u Hc HJ) as (J & Hno & Hp & _); auto end. }
  destruct Ht as (Jt & Hno & Hp). unfold add_output_edge in H.
  destruct (would_cycle (KFile, p) [(KStep, l)] t); [discriminate|].
  apply (JA_add_dep l _ _ dyn t s' H Jt (only_at_output l p dyn) Hp).
  intros f0 Hf e He. injection Hf as <-. exact (Hno e He).
Qed.

(* ------------------------------------------------------------------------------------------ *)
(* Workflow.amend_step                                                                         *)
(* ------------------------------------------------------------------------------------------ *)
Lemma JA_amend_step (l : str) (inp env out vol : list str) (s s' : st) :
  amend_step l inp env out vol s = Ok s' -> JA l s -> JA l s'.
Proof.
  intros H HJ. unfold amend_step in H.
  destruct (negb (is_some (find_node (KStep, l) s) && is_some (find_step l s))); [discriminate|].
  unfold bind in H.
  destruct (supply_files l inp false true s) as [s1| |] eqn:E1; try discriminate.
  pose proof (JA_supply_files l inp false true s s1 E1 HJ) as J1.
  pose proof (JA_add_envs l true false env s1 J1) as J2. cbv zeta in H.
  set (s2 := fold_left (fun s0 e => add_env l e true false s0) env s1) in *.
  match type of H with match ?m with _ => _ end = _ => destruct m as [out'| |]; try discriminate end.
  match type of H with match ?m with _ => _ end = _ => destruct m as [vol'| |]; try discriminate end.
  match type of H with (if ?c then _ else _) = _ => destruct c; [discriminate|] end.
  match type of H with match ?m with _ => _ end = _ => destruct m as [s3| |] eqn:E3; try discriminate end.
  assert (J3 : JA l s3).
  { refine (foldM_inv _ (JA l) _ out' s2 s3 J2 E3). intros t p t' Jt Hc.
    exact (JA_declare_output l p FPlanned true t t' Hc Jt). }
  refine (foldM_inv _ (JA l) _ vol' s3 s' J3 H). intros t p t' Jt Hc.
  exact (JA_declare_output l p FVolatile true t t' Hc Jt).
Qed.

Lemma K_amend_step (l : str) (inp env out vol : list str) (s s' : st) :
  inv_core_b s = true -> sstate_of l s <> Some SSucceeded ->
  amend_step l inp env out vol s = Ok s' -> K_b s = true -> K_b s' = true.
Proof.
  intros Hi Hl H HK. destruct (inv_core_NF_ED s Hi) as [HN HE].
  assert (Hn : find_node (KStep, l) s <> None).
  { unfold amend_step in H. destruct (find_node (KStep, l) s); [discriminate|]. cbn in H. discriminate. }
  assert (HJ : JA l s).
  { split; [exact HK|]. split; [exact (inv_core_unique_labels s Hi)|].
    split; [exact (inv_core_single_producer s Hi)|]. split; [exact HN|]. split; [exact HE|].
    split; [exact Hl|exact Hn]. }
  exact (proj1 (JA_amend_step l inp env out vol s s' H HJ)).
Qed.

Lemma K_op_amend_step (l : str) (inp env out vol : list str) (s : st) :
  inv_core_b s = true -> sstate_of l s <> Some SSucceeded -> K_b s = true ->
  K_b (apply_op s (OpAmendStep l inp env out vol)) = true.
Proof.
  intros Hi Hl HK. unfold apply_op. cbn [step_op].
  destruct (amend_step l inp env out vol s) as [s'| |] eqn:E; try exact HK.
  exact (K_amend_step l inp env out vol s s' Hi Hl E HK).
Qed.
