(* C02: commutation (diamond) lemmas between transactions of different running steps, on the
   executable model of the stored workflow (model/Graph.v).  See design.d/C02.md. *)
From Coq Require Import List NArith Bool Lia.
From SV Require Import lib.Bytes model.Graph model.GraphDump model.GraphInv model.Commute.
Import ListNotations.
Open Scope N_scope.

(* ------------------------------------------------------------------------------------------ *)
(* 0. equality tests                                                                           *)
(* ------------------------------------------------------------------------------------------ *)
Lemma kind_eqb_eq a b : kind_eqb a b = true <-> a = b.
Proof. destruct a, b; cbn; split; intros H; try reflexivity; discriminate. Qed.

Lemma key_eqb_eq a b : key_eqb a b = true <-> a = b.
Proof.
  destruct a as [ka la], b as [kb lb]. unfold key_eqb. cbn [fst snd].
  rewrite andb_true_iff, kind_eqb_eq, str_eqb_eq. split.
  - intros [-> ->]. reflexivity.
  - intros H. inversion H. auto.
Qed.
Lemma key_eqb_refl a : key_eqb a a = true.
Proof. apply key_eqb_eq. reflexivity. Qed.
Lemma key_eqb_neq a b : key_eqb a b = false <-> a <> b.
Proof.
  split.
  - intros H E. apply key_eqb_eq in E. congruence.
  - intros H. destruct (key_eqb a b) eqn:E; [apply key_eqb_eq in E; contradiction | reflexivity].
Qed.
Lemma key_eqb_sym a b : key_eqb a b = key_eqb b a.
Proof.
  destruct (key_eqb a b) eqn:E.
  - apply key_eqb_eq in E. subst. symmetry. apply key_eqb_refl.
  - symmetry. apply key_eqb_neq. apply key_eqb_neq in E. congruence.
Qed.
Lemma str_eqb_neq a b : str_eqb a b = false <-> a <> b.
Proof.
  split.
  - intros H E. apply str_eqb_eq in E. congruence.
  - intros H. destruct (str_eqb a b) eqn:E; [apply str_eqb_eq in E; contradiction | reflexivity].
Qed.
Lemma str_eqb_sym a b : str_eqb a b = str_eqb b a.
Proof.
  destruct (str_eqb a b) eqn:E.
  - apply str_eqb_eq in E. subst. symmetry. apply str_eqb_refl.
  - symmetry. apply str_eqb_neq. apply str_eqb_neq in E. congruence.
Qed.
Lemma file_key_eqb l l' : key_eqb (KFile, l) (KFile, l') = str_eqb l l'.
Proof. reflexivity. Qed.
Lemma mem_str_In x l : mem_str x l = true <-> In x l.
Proof.
  unfold mem_str. rewrite existsb_exists. split.
  - intros [y [Hy E]]. apply str_eqb_eq in E. subst. exact Hy.
  - intros H. exists x. split; [exact H | apply str_eqb_refl].
Qed.
Lemma mem_str_false x l : mem_str x l = false <-> ~ In x l.
Proof.
  split.
  - intros H HI. apply mem_str_In in HI. congruence.
  - intros H. destruct (mem_str x l) eqn:E; [apply mem_str_In in E; contradiction | reflexivity].
Qed.

(* ------------------------------------------------------------------------------------------ *)
(* 1. find over map / append / filter                                                          *)
(* ------------------------------------------------------------------------------------------ *)
Lemma find_map_same {A} (p : A -> bool) (h : A -> A) (l : list A) :
  (forall x, p (h x) = p x) -> find p (map h l) = option_map h (find p l).
Proof.
  intros H. induction l as [|x l IH]; cbn; [reflexivity|].
  rewrite H. destruct (p x); [reflexivity | exact IH].
Qed.
Lemma find_app_one {A} (p : A -> bool) (l : list A) (x : A) :
  find p (l ++ [x]) = match find p l with Some y => Some y | None => if p x then Some x else None end.
Proof. induction l as [|y l IH]; cbn; [reflexivity|]. destruct (p y); [reflexivity | exact IH]. Qed.
Lemma find_filter_keep {A} (p q : A -> bool) (l : list A) :
  (forall x, p x = true -> q x = true) -> find p (filter q l) = find p l.
Proof.
  intros H. induction l as [|x l IH]; cbn; [reflexivity|].
  destruct (q x) eqn:Q; cbn.
  - destruct (p x); [reflexivity | exact IH].
  - destruct (p x) eqn:P; [apply H in P; congruence | exact IH].
Qed.
Lemma find_filter_drop {A} (p q : A -> bool) (l : list A) :
  (forall x, p x = true -> q x = false) -> find p (filter q l) = None.
Proof.
  intros H. induction l as [|x l IH]; cbn; [reflexivity|].
  destruct (q x) eqn:Q; cbn; [|exact IH].
  destruct (p x) eqn:P; [apply H in P; congruence | exact IH].
Qed.
Lemma existsb_filter_and {A} (p q : A -> bool) (l : list A) :
  existsb p (filter q l) = existsb (fun x => p x && q x) l.
Proof.
  induction l as [|x l IH]; cbn; [reflexivity|].
  destruct (q x); cbn; rewrite IH; [rewrite andb_true_r | rewrite andb_false_r]; reflexivity.
Qed.

(* ------------------------------------------------------------------------------------------ *)
(* 2. look-ups after the primitive updates                                                     *)
(* ------------------------------------------------------------------------------------------ *)
Lemma bind_ok_r {A} (r : res A) : (do x <- r; Ok x) = r.
Proof. destruct r; reflexivity. Qed.

Lemma find_node_key k s n : find_node k s = Some n -> nk n = k.
Proof. unfold find_node. intros H. apply find_some in H as [_ H]. apply key_eqb_eq in H. exact H. Qed.
Lemma find_file_key l s r : find_file l s = Some r -> fl r = l.
Proof. unfold find_file. intros H. apply find_some in H as [_ H]. apply str_eqb_eq in H. exact H. Qed.

Lemma node_view_upd_set k k' c d s :
  node_view k (upd_node k' (fun n => mkNode (nk n) c d) s) =
  if key_eqb k k' then match find_node k s with Some _ => Some (c, d) | None => None end
  else node_view k s.
Proof.
  unfold node_view, find_node, upd_node. cbn [nodes set_nodes].
  rewrite find_map_same.
  2:{ intros x. destruct (key_eqb (nk x) k'); reflexivity. }
  destruct (find (fun n => key_eqb (nk n) k) (nodes s)) as [n|] eqn:F; cbn [option_map].
  - apply find_some in F as [_ F]. apply key_eqb_eq in F. rewrite F.
    destruct (key_eqb k k'); reflexivity.
  - destruct (key_eqb k k'); reflexivity.
Qed.

Lemma node_view_app k s n :
  node_view k (set_nodes s (nodes s ++ [n])) =
  match node_view k s with Some v => Some v | None => if key_eqb (nk n) k then Some (ncre n, ndet n) else None end.
Proof.
  unfold node_view, find_node. cbn [nodes set_nodes]. rewrite find_app_one.
  destruct (find (fun n0 => key_eqb (nk n0) k) (nodes s)); [reflexivity|].
  destruct (key_eqb (nk n) k); reflexivity.
Qed.

Lemma file_view_upd_set l' l st0 h s :
  file_view l' (upd_file l (fun r => mkF (fl r) st0 h) s) =
  if str_eqb l' l then match find_file l' s with Some _ => Some (st0, h) | None => None end
  else file_view l' s.
Proof.
  unfold file_view, find_file, upd_file. cbn [files set_files].
  rewrite find_map_same.
  2:{ intros x. destruct (str_eqb (fl x) l); reflexivity. }
  destruct (find (fun f => str_eqb (fl f) l') (files s)) as [r|] eqn:F; cbn [option_map].
  - apply find_some in F as [_ F]. apply str_eqb_eq in F. rewrite F.
    destruct (str_eqb l' l); reflexivity.
  - destruct (str_eqb l' l); reflexivity.
Qed.

Lemma file_view_app l' s r :
  file_view l' (set_files s (files s ++ [r])) =
  match file_view l' s with Some v => Some v | None => if str_eqb (fl r) l' then Some (fstt r, fh r) else None end.
Proof.
  unfold file_view, find_file. cbn [files set_files]. rewrite find_app_one.
  destruct (find (fun f => str_eqb (fl f) l') (files s)); [reflexivity|].
  destruct (str_eqb (fl r) l'); reflexivity.
Qed.

Lemma find_dep_del_all_sources a b k s :
  find_dep a b (del_all_sources k s) = if key_eqb b k then None else find_dep a b s.
Proof.
  unfold find_dep, del_all_sources, del_deps_where. cbn [deps set_deps].
  destruct (key_eqb b k) eqn:E.
  - apply key_eqb_eq in E. subst b. rewrite find_filter_drop; [reflexivity|].
    intros x H. apply andb_true_iff in H as [_ H]. rewrite H. reflexivity.
  - rewrite find_filter_keep; [reflexivity|].
    intros x H. apply andb_true_iff in H as [_ H]. apply key_eqb_eq in H. rewrite H, E. reflexivity.
Qed.

Lemma has_hash_delete_hash x l s :
  has_hash x (delete_hash l s) = has_hash x s && negb (str_eqb x l).
Proof.
  unfold has_hash, delete_hash. cbn [shash set_shash].
  induction (shash s) as [|y t IH]; cbn; [reflexivity|].
  destruct (str_eqb y l) eqn:E; cbn.
  - rewrite IH. destruct (str_eqb x y) eqn:E2; cbn; [|reflexivity].
    apply str_eqb_eq in E2. subst y. rewrite E. cbn. rewrite andb_false_r. reflexivity.
  - rewrite IH. destruct (str_eqb x y) eqn:E2; cbn; [|reflexivity].
    apply str_eqb_eq in E2. subst y. rewrite E. reflexivity.
Qed.

(* a file has no products when no node has a file as its creator *)
Lemma products_file_nil l s : no_file_creator_b s = true -> products (KFile, l) s = [].
Proof.
  unfold no_file_creator_b, products. intros H.
  induction (nodes s) as [|n t IH]; cbn; [reflexivity|].
  cbn in H. apply andb_true_iff in H as [H1 H2].
  destruct (ncre n) as [[[] cl]|] eqn:C; cbn; try discriminate; apply IH; exact H2.
Qed.

Definition not_file (c : key) : Prop := fst c <> KFile.

Lemma nfc_upd_node k c d s :
  not_file c -> no_file_creator_b s = true ->
  no_file_creator_b (upd_node k (fun n => mkNode (nk n) (Some c) d) s) = true.
Proof.
  unfold no_file_creator_b, upd_node. cbn [nodes set_nodes]. intros Hc H.
  rewrite forallb_forall in *. intros x Hx. apply in_map_iff in Hx as [y [<- Hy]].
  destruct (key_eqb (nk y) k).
  - cbn. destruct c as [[] cl]; try reflexivity. exfalso. apply Hc. reflexivity.
  - apply H. exact Hy.
Qed.
Lemma nfc_app n s :
  match ncre n with Some (KFile, _) => False | _ => True end -> no_file_creator_b s = true ->
  no_file_creator_b (set_nodes s (nodes s ++ [n])) = true.
Proof.
  unfold no_file_creator_b. cbn [nodes set_nodes]. intros Hn H.
  rewrite forallb_app, H. cbn. destruct (ncre n) as [[[] cl]|]; try reflexivity. contradiction.
Qed.

(* ------------------------------------------------------------------------------------------ *)
(* 3. Trellis.create of a file node, node part (creator Some c)                                *)
(* ------------------------------------------------------------------------------------------ *)
Lemma create_split k cr f s :
  create k cr (InitFile f) s = do s1 <- create k cr InitTree s; file_initialize_row (snd k) f s1.
Proof.
  unfold create.
  destruct (creator_ok k cr s) as [u|t|t]; [|reflexivity|reflexivity]. cbn [bind].
  destruct (match find_node k s with
            | Some n => _
            | None => _ end) as [x|t|t]; reflexivity.
Qed.

Lemma creator_ok_not_file l c s u : creator_ok (KFile, l) (Some c) s = Ok u -> not_file c.
Proof.
  unfold creator_ok, not_file. intros H E.
  destruct (negb (is_some (find_node c s))); [discriminate|].
  destruct (key_eqb c (KFile, l)); [discriminate|].
  rewrite E in H. cbn in H. discriminate.
Qed.

(* the step whose stored hash is deleted because it loses the (stale) file l *)
Definition lostb (s : st) (l x : str) : bool :=
  match find_node (KFile, l) s with
  | Some n => match ncre n with Some (KStep, oc) => str_eqb x oc | _ => false end
  | None => false
  end.
Definition existsn (k : key) (s : st) : bool := is_some (find_node k s).

Record node_part_spec (c : key) (l : str) (s s1 : st) : Prop := mkNPS {
  np_node : forall k, node_view k s1 =
                      if key_eqb k (KFile, l) then Some (Some c, is_detached c s) else node_view k s;
  np_files : files s1 = files s;
  np_steps : steps s1 = steps s;
  np_envs : envs s1 = envs s;
  np_cap : defer_cap s1 = defer_cap s;
  np_dep : forall a b, find_dep a b s1 =
                       if key_eqb b (KFile, l) && existsn (KFile, l) s then None else find_dep a b s;
  np_hash : forall x, has_hash x s1 = has_hash x s && negb (lostb s l x);
  np_nfc : no_file_creator_b s1 = true }.

Lemma create_file_node_spec c l s s1 :
  create (KFile, l) (Some c) InitTree s = Ok s1 ->
  no_file_creator_b s = true ->
  node_part_spec c l s s1.
Proof.
  intros H Hnfc. unfold create in H.
  destruct (creator_ok (KFile, l) (Some c) s) as [u|t|t] eqn:CO; cbn [bind] in H; try discriminate.
  pose proof (creator_ok_not_file _ _ _ _ CO) as Hc. clear CO.
  rewrite bind_ok_r in H.
  destruct (find_node (KFile, l) s) as [n|] eqn:F.
  - destruct (ndet n) eqn:D; cbn [negb] in H; [|discriminate].
    set (s0 := upd_node (KFile, l) (fun n0 => mkNode (nk n0) (Some c) (is_detached c s)) s) in *.
    assert (Hnfc0 : no_file_creator_b s0 = true) by (apply nfc_upd_node; assumption).
    assert (Hfin : forall s2, nodes s2 = nodes s0 -> no_file_creator_b s2 = true).
    { intros s2 E. unfold no_file_creator_b. rewrite E. exact Hnfc0. }
    assert (Hnode0 : forall k, node_view k s0 =
              if key_eqb k (KFile, l) then Some (Some c, is_detached c s) else node_view k s).
    { intros k. unfold s0. rewrite node_view_upd_set. destruct (key_eqb k (KFile, l)) eqn:E; [|reflexivity].
      apply key_eqb_eq in E. subst k. rewrite F. reflexivity. }
    destruct (ncre n) as [oc|] eqn:C.
    + destruct (is_detached oc s); cbn [negb] in H; [|discriminate].
      destruct oc as [ock ocl]. unfold after_lost_product in H.
      destruct ock; cbn [fst snd bind] in H; try discriminate.
      * (* KStep: stored hash of the old creator deleted *)
        rewrite products_file_nil in H by (apply Hfin; reflexivity). cbn in H. inversion H; subst s1; clear H.
        constructor; try reflexivity.
        -- intros k. exact (Hnode0 k).
        -- intros a b. rewrite find_dep_del_all_sources. unfold existsn. rewrite F. cbn.
           rewrite andb_true_r. reflexivity.
        -- intros x. unfold lostb. rewrite F, C.
           change (has_hash x (del_all_sources (KFile, l) (delete_hash ocl s0)))
             with (has_hash x (delete_hash ocl s0)).
           rewrite has_hash_delete_hash. reflexivity.
        -- apply Hfin. reflexivity.
      * (* KTree *)
        rewrite products_file_nil in H by (apply Hfin; reflexivity). cbn in H. inversion H; subst s1; clear H.
        constructor; try reflexivity.
        -- intros k. exact (Hnode0 k).
        -- intros a b. rewrite find_dep_del_all_sources. unfold existsn. rewrite F. cbn.
           rewrite andb_true_r. reflexivity.
        -- intros x. unfold lostb. rewrite F, C. rewrite andb_true_r. reflexivity.
        -- apply Hfin. reflexivity.
    + cbn [bind] in H. rewrite products_file_nil in H by (apply Hfin; reflexivity). cbn in H.
      inversion H; subst s1; clear H.
      constructor; try reflexivity.
      * intros k. exact (Hnode0 k).
      * intros a b. rewrite find_dep_del_all_sources. unfold existsn. rewrite F. cbn.
        rewrite andb_true_r. reflexivity.
      * intros x. unfold lostb. rewrite F, C. rewrite andb_true_r. reflexivity.
      * apply Hfin. reflexivity.
  - inversion H; subst s1; clear H.
    constructor; try reflexivity.
    + intros k. rewrite node_view_app. cbn [nk ncre ndet].
      unfold node_view at 1. rewrite (key_eqb_sym (KFile, l) k).
      destruct (key_eqb k (KFile, l)) eqn:E.
      * apply key_eqb_eq in E. subst k. rewrite F. reflexivity.
      * unfold node_view. destruct (find_node k s); reflexivity.
    + intros a b. unfold existsn. rewrite F. cbn. rewrite andb_false_r. reflexivity.
    + intros x. unfold lostb. rewrite F. rewrite andb_true_r. reflexivity.
    + apply nfc_app; [|exact Hnfc]. cbn. destruct c as [[] cl]; try exact I. apply Hc. reflexivity.
Qed.

(* ------------------------------------------------------------------------------------------ *)
(* 4. File.initialize_row(UNCONFIRMED) and _declare_file(UNCONFIRMED)                          *)
(* ------------------------------------------------------------------------------------------ *)
(* hash column after (re)declaring l static: kept unless the old state was BUILT / OUTDATED *)
Definition hh (s : st) (l : str) : option N :=
  match find_file l s with
  | Some r => if clears_hash (fstt r) FUnconfirmed then None else fh r
  | None => None
  end.

Lemma file_init_unconfirmed_spec l s s1 :
  file_initialize_row l FUnconfirmed s = Ok s1 ->
  (forall l', file_view l' s1 = if str_eqb l' l then Some (FUnconfirmed, hh s l) else file_view l' s) /\
  nodes s1 = nodes s /\ steps s1 = steps s /\ deps s1 = deps s /\ shash s1 = shash s /\
  envs s1 = envs s /\ defer_cap s1 = defer_cap s.
Proof.
  unfold file_initialize_row, hh. intros H.
  destruct (find_file l s) as [r|] eqn:F.
  - unfold set_fstate, set_fstate_hash in H. rewrite F in H. cbn in H.
    inversion H; subst s1; clear H. repeat split.
    intros l'. rewrite file_view_upd_set.
    destruct (str_eqb l' l) eqn:E; [|reflexivity].
    apply str_eqb_eq in E. subst l'. rewrite F. reflexivity.
  - cbn in H. inversion H; subst s1; clear H. repeat split.
    intros l'. rewrite file_view_app. cbn [fl fstt fh].
    rewrite (str_eqb_sym l l').
    destruct (str_eqb l' l) eqn:E.
    + apply str_eqb_eq in E. subst l'. unfold file_view. rewrite F. reflexivity.
    + destruct (file_view l' s); reflexivity.
Qed.

Record decl_spec (c : key) (l : str) (s s' : st) : Prop := mkDS {
  ds_node : forall k, node_view k s' =
                      if key_eqb k (KFile, l) then Some (Some c, is_detached c s) else node_view k s;
  ds_file : forall l', file_view l' s' =
                       if str_eqb l' l then Some (FUnconfirmed, hh s l) else file_view l' s;
  ds_steps : steps s' = steps s;
  ds_envs : envs s' = envs s;
  ds_cap : defer_cap s' = defer_cap s;
  ds_dep : forall a b, find_dep a b s' =
                       if key_eqb b (KFile, l) && existsn (KFile, l) s then None else find_dep a b s;
  ds_hash : forall x, has_hash x s' = has_hash x s && negb (lostb s l x);
  ds_nfc : no_file_creator_b s' = true }.

Lemma view_of_nodes s1 s2 : nodes s1 = nodes s2 -> forall k, node_view k s1 = node_view k s2.
Proof. intros E k. unfold node_view, find_node. rewrite E. reflexivity. Qed.
Lemma view_of_files s1 s2 : files s1 = files s2 -> forall l, file_view l s1 = file_view l s2.
Proof. intros E k. unfold file_view, find_file. rewrite E. reflexivity. Qed.
Lemma view_of_deps s1 s2 : deps s1 = deps s2 -> forall a b, find_dep a b s1 = find_dep a b s2.
Proof. intros E a b. unfold find_dep. rewrite E. reflexivity. Qed.
Lemma view_of_shash s1 s2 : shash s1 = shash s2 -> forall x, has_hash x s1 = has_hash x s2.
Proof. intros E x. unfold has_hash. rewrite E. reflexivity. Qed.
Lemma hh_of_files s1 s2 : files s1 = files s2 -> forall l, hh s1 l = hh s2 l.
Proof. intros E l. unfold hh, find_file. rewrite E. reflexivity. Qed.

Lemma declare_file_unconfirmed_spec c l s s' :
  declare_file c l FUnconfirmed s = Ok s' -> no_file_creator_b s = true -> decl_spec c l s s'.
Proof.
  unfold declare_file. intros H Hnfc. rewrite create_split in H. cbn [snd] in H.
  destruct (create (KFile, l) (Some c) InitTree s) as [s1|t|t] eqn:C; cbn [bind] in H; try discriminate.
  apply create_file_node_spec in C; [|exact Hnfc]. destruct C.
  destruct (file_initialize_row l FUnconfirmed s1) as [s2|t|t] eqn:FI; cbn [bind] in H; try discriminate.
  inversion H; subst s2; clear H.
  apply file_init_unconfirmed_spec in FI as (Hf & Hn & Hs & Hd & Hh & He & Hc).
  constructor.
  - intros k. rewrite (view_of_nodes _ _ Hn). apply np_node0.
  - intros l'. rewrite Hf. rewrite (hh_of_files _ _ np_files0). rewrite (view_of_files _ _ np_files0). reflexivity.
  - congruence.
  - congruence.
  - congruence.
  - intros a b. rewrite (view_of_deps _ _ Hd). apply np_dep0.
  - intros x. rewrite (view_of_shash _ _ Hh). apply np_hash0.
  - unfold no_file_creator_b. rewrite Hn. exact np_nfc0.
Qed.

(* ------------------------------------------------------------------------------------------ *)
(* 5. a whole declare_static request                                                           *)
(* ------------------------------------------------------------------------------------------ *)
Lemma is_detached_view k s :
  is_detached k s = match node_view k s with Some (_, d) => d | None => true end.
Proof. unfold is_detached, node_view. destruct (find_node k s); reflexivity. Qed.
Lemma existsn_view k s : existsn k s = is_some (node_view k s).
Proof. unfold existsn, node_view. destruct (find_node k s); reflexivity. Qed.
Lemma lostb_view s l x :
  lostb s l x = match node_view (KFile, l) s with
                | Some (Some (KStep, oc), _) => str_eqb x oc
                | _ => false end.
Proof. unfold lostb, node_view. destruct (find_node (KFile, l) s); reflexivity. Qed.
Lemma hh_view s l :
  hh s l = match file_view l s with
           | Some (st0, h) => if clears_hash st0 FUnconfirmed then None else h
           | None => None end.
Proof. unfold hh, file_view. destruct (find_file l s); reflexivity. Qed.

Lemma existsb_ext_in {A} (f g : A -> bool) (l : list A) :
  (forall x, In x l -> f x = g x) -> existsb f l = existsb g l.
Proof.
  induction l as [|x l IH]; intros H; cbn; [reflexivity|].
  rewrite H by (left; reflexivity). rewrite IH; [reflexivity|]. intros y Hy. apply H. right. exact Hy.
Qed.

Definition in_files (k : key) (T : list str) : bool :=
  match k with (KFile, l) => mem_str l T | _ => false end.

Record sdecl_spec (c : key) (T : list str) (s s' : st) : Prop := mkSD {
  sd_node : forall k, node_view k s' =
                      if in_files k T then Some (Some c, is_detached c s) else node_view k s;
  sd_file : forall l', file_view l' s' =
                       if mem_str l' T then Some (FUnconfirmed, hh s l') else file_view l' s;
  sd_steps : steps s' = steps s;
  sd_envs : envs s' = envs s;
  sd_cap : defer_cap s' = defer_cap s;
  sd_dep : forall a b, find_dep a b s' =
                       if in_files b T && existsn b s then None else find_dep a b s;
  sd_hash : forall x, has_hash x s' = has_hash x s && negb (existsb (fun l => lostb s l x) T);
  sd_nfc : no_file_creator_b s' = true }.

Lemma not_file_key c l : not_file c -> key_eqb c (KFile, l) = false.
Proof.
  intros H. apply key_eqb_neq. intros E. apply H. rewrite E. reflexivity.
Qed.

Lemma fold_decl_spec c T : forall s s',
  NoDup T -> not_file c ->
  foldM (fun s l => declare_file c l FUnconfirmed s) T s = Ok s' ->
  no_file_creator_b s = true -> sdecl_spec c T s s'.
Proof.
  induction T as [|l T IH]; intros s s' HND Hc H Hnfc.
  - cbn in H. inversion H; subst s'. constructor; try reflexivity.
    + intros k. destruct k as [[] x]; reflexivity.
    + intros a b. destruct b as [[] x]; reflexivity.
    + intros x. cbn. rewrite andb_true_r. reflexivity.
    + exact Hnfc.
  - cbn [foldM] in H.
    destruct (declare_file c l FUnconfirmed s) as [s1|t|t] eqn:D; cbn [bind] in H; try discriminate.
    apply declare_file_unconfirmed_spec in D; [|exact Hnfc]. destruct D.
    inversion HND as [|? ? Hnotin HND']; subst.
    apply IH in H; [|exact HND'|exact Hc|exact ds_nfc0]. destruct H.
    assert (Hdet : is_detached c s1 = is_detached c s).
    { rewrite !is_detached_view, ds_node0, (not_file_key _ _ Hc). reflexivity. }
    assert (Hother : forall x, In x T -> str_eqb x l = false).
    { intros x Hx. apply str_eqb_neq. intros ->. contradiction. }
    constructor.
    + intros k. rewrite sd_node0, Hdet, ds_node0.
      destruct k as [kk x]. destruct kk; cbn [in_files]; try reflexivity.
      rewrite file_key_eqb. cbn [mem_str existsb]. fold (mem_str x T).
      destruct (mem_str x T); [rewrite orb_true_r; reflexivity|].
      rewrite orb_false_r. reflexivity.
    + intros l'. rewrite sd_file0, ds_file0. cbn [mem_str existsb]. fold (mem_str l' T).
      destruct (mem_str l' T) eqn:M.
      * rewrite orb_true_r. rewrite !hh_view, ds_file0.
        apply mem_str_In in M. rewrite (Hother _ M). reflexivity.
      * rewrite orb_false_r. destruct (str_eqb l' l) eqn:E; [|reflexivity].
        apply str_eqb_eq in E. subst l'. reflexivity.
    + congruence.
    + congruence.
    + congruence.
    + intros a b. rewrite sd_dep0, ds_dep0.
      destruct b as [kk x]. destruct kk; cbn [in_files andb]; try reflexivity.
      rewrite file_key_eqb. cbn [mem_str existsb]. fold (mem_str x T).
      rewrite !existsn_view, ds_node0, file_key_eqb.
      destruct (mem_str x T) eqn:M.
      * apply mem_str_In in M. rewrite (Hother _ M). cbn [orb andb].
        destruct (is_some (node_view (KFile, x) s)); reflexivity.
      * cbn [andb orb]. rewrite orb_false_r.
        destruct (str_eqb x l) eqn:E; [|reflexivity]. apply str_eqb_eq in E. subst x. reflexivity.
    + intros x. rewrite sd_hash0, ds_hash0. cbn [existsb].
      rewrite (existsb_ext_in (fun l0 => lostb s1 l0 x) (fun l0 => lostb s l0 x)).
      * rewrite negb_orb, andb_assoc. reflexivity.
      * intros y Hy. rewrite !lostb_view, ds_node0, file_key_eqb, (Hother _ Hy). reflexivity.
    + exact sd_nfc0.
Qed.

(* which paths of a static request still have to be declared *)
Definition newb (c : key) (s : st) (l : str) : bool :=
  match check_declaration_node c l 61 s with Ok true => true | _ => false end.

Lemma todo_spec c s ps : forall acc T,
  foldM (fun acc l => do isnew <- check_declaration_node c l 61 s;
                      Ok (if isnew then acc ++ [l] else acc)) ps acc = Ok T ->
  T = acc ++ filter (newb c s) ps /\
  (forall l, In l ps -> exists b, check_declaration_node c l 61 s = Ok b).
Proof.
  induction ps as [|l ps IH]; intros acc T H.
  - cbn in H. inversion H. rewrite app_nil_r. split; [reflexivity | intros l []].
  - cbn [foldM] in H. cbn [filter].
    destruct (check_declaration_node c l 61 s) as [b|t|t] eqn:C; cbn [bind] in H; try discriminate.
    assert (Hn : newb c s l = b) by (unfold newb; rewrite C; destruct b; reflexivity).
    apply IH in H as [HT Hall]. split.
    + rewrite HT, Hn. destruct b; [rewrite <- app_assoc|]; reflexivity.
    + intros l0 [<-|Hl0]; [exists b; exact C | apply Hall; exact Hl0].
Qed.

Lemma static_request_spec c ps s s' :
  declare_static_files c ps s = Ok s' -> NoDup ps -> not_file c -> no_file_creator_b s = true ->
  sdecl_spec c (filter (newb c s) ps) s s' /\
  (forall l, In l ps -> exists b, check_declaration_node c l 61 s = Ok b).
Proof.
  unfold declare_static_files. intros H HND Hc Hnfc.
  destruct (negb (is_some (find_node c s))); [discriminate|].
  destruct (foldM _ ps []) as [T|t|t] eqn:TD; cbn [bind] in H; try discriminate.
  apply todo_spec in TD as [HT Hall]. cbn [app] in HT. subst T. split; [|exact Hall].
  apply fold_decl_spec; try assumption. apply NoDup_filter. exact HND.
Qed.

(* the claim check looks at the node and file rows of that path only *)
Lemma check_declaration_view c l r s1 s2 :
  node_view (KFile, l) s1 = node_view (KFile, l) s2 -> file_view l s1 = file_view l s2 ->
  check_declaration_node c l r s1 = check_declaration_node c l r s2.
Proof.
  unfold check_declaration_node, existing_claim, node_view, file_view. intros Hn Hf.
  destruct (find_node (KFile, l) s1) as [n1|], (find_node (KFile, l) s2) as [n2|]; try discriminate;
    [|reflexivity].
  inversion Hn as [[Hc Hd]]. rewrite Hc, Hd.
  destruct (find_file l s1) as [r1|], (find_file l s2) as [r2|]; try discriminate; [|reflexivity].
  inversion Hf as [[Hs Hh]]. rewrite Hs. reflexivity.
Qed.

(* a path freshly declared static by an ATTACHED creator c1 is refused to any other creator *)
Lemma check_after_other_static c1 c2 l s h :
  node_view (KFile, l) s = Some (Some c1, false) -> file_view l s = Some (FUnconfirmed, h) ->
  c1 <> c2 -> check_declaration_node c2 l 61 s = Usage 202.
Proof.
  unfold check_declaration_node, existing_claim, node_view, file_view. intros Hn Hf Hne.
  destruct (find_node (KFile, l) s) as [n|]; [|discriminate]. inversion Hn as [[Hc Hd]].
  destruct (find_file l s) as [r|]; [|discriminate]. inversion Hf as [[Hs Hh]].
  rewrite Hd, Hc, Hs. cbn. apply key_eqb_neq in Hne. rewrite Hne. reflexivity.
Qed.

(* ------------------------------------------------------------------------------------------ *)
(* 6. declarations_commute, pair (static, static)                                              *)
(* ------------------------------------------------------------------------------------------ *)
Record two_static_views (c1 : key) (T1 : list str) (c2 : key) (T2 : list str) (s s' : st) : Prop := mkTS {
  ts_node : forall k, node_view k s' =
      if in_files k T2 then Some (Some c2, is_detached c2 s)
      else if in_files k T1 then Some (Some c1, is_detached c1 s) else node_view k s;
  ts_file : forall l, file_view l s' =
      if mem_str l T2 then Some (FUnconfirmed, hh s l)
      else if mem_str l T1 then Some (FUnconfirmed, hh s l) else file_view l s;
  ts_steps : steps s' = steps s;
  ts_envs : envs s' = envs s;
  ts_cap : defer_cap s' = defer_cap s;
  ts_dep : forall a b, find_dep a b s' =
      if in_files b T2 && existsn b s then None
      else if in_files b T1 && existsn b s then None else find_dep a b s;
  ts_hash : forall x, has_hash x s' =
      has_hash x s && negb (existsb (fun l => lostb s l x) T1) && negb (existsb (fun l => lostb s l x) T2) }.

Lemma seq_static_views c1 T1 c2 T2 s sa s12 :
  not_file c2 ->
  sdecl_spec c1 T1 s sa -> sdecl_spec c2 T2 sa s12 ->
  (forall l, mem_str l T2 = true -> mem_str l T1 = false) ->
  two_static_views c1 T1 c2 T2 s s12.
Proof.
  intros Hc2 S1 S2 Hdis. destruct S1, S2.
  assert (Hin : forall k, in_files k T2 = true -> in_files k T1 = false).
  { intros [[] x] H; cbn in *; try reflexivity. apply Hdis. exact H. }
  constructor.
  - intros k. rewrite sd_node1, sd_node0.
    rewrite (is_detached_view c2 sa), sd_node0.
    assert (E : in_files c2 T1 = false).
    { destruct c2 as [[] x]; try reflexivity. exfalso. apply Hc2. reflexivity. }
    rewrite E, <- is_detached_view. reflexivity.
  - intros l. rewrite sd_file1, sd_file0.
    destruct (mem_str l T2) eqn:M; [|reflexivity].
    rewrite (hh_view sa), sd_file0, (Hdis _ M), <- hh_view. reflexivity.
  - congruence.
  - congruence.
  - congruence.
  - intros a b. rewrite sd_dep1, sd_dep0.
    destruct (in_files b T2) eqn:M; cbn [andb]; [|reflexivity].
    rewrite (existsn_view b sa), sd_node0, (Hin _ M), <- existsn_view. reflexivity.
  - intros x. rewrite sd_hash1, sd_hash0.
    rewrite (existsb_ext_in (fun l => lostb sa l x) (fun l => lostb s l x)); [reflexivity|].
    intros y Hy. rewrite !lostb_view, sd_node0. cbn [in_files].
    apply mem_str_In in Hy. rewrite (Hdis _ Hy). reflexivity.
Qed.

Lemma second_request_same_todo c1 c2 ps1 ps2 s sa :
  c1 <> c2 -> attached c1 s = true ->
  sdecl_spec c1 (filter (newb c1 s) ps1) s sa ->
  (forall l, In l ps2 -> exists b, check_declaration_node c2 l 61 sa = Ok b) ->
  (forall l, In l ps2 -> mem_str l (filter (newb c1 s) ps1) = false) /\
  filter (newb c2 sa) ps2 = filter (newb c2 s) ps2.
Proof.
  intros Hne Hatt S1 Hall. destruct S1.
  assert (Hd : forall l, In l ps2 -> mem_str l (filter (newb c1 s) ps1) = false).
  { intros l Hl. destruct (mem_str l (filter (newb c1 s) ps1)) eqn:M; [|reflexivity]. exfalso.
    destruct (Hall _ Hl) as [b Hb].
    rewrite (check_after_other_static c1 c2 l sa (hh s l)) in Hb; [discriminate| | |exact Hne].
    - rewrite sd_node0. cbn [in_files]. rewrite M. unfold attached in Hatt.
      apply negb_true_iff in Hatt. rewrite Hatt. reflexivity.
    - rewrite sd_file0, M. reflexivity. }
  split; [exact Hd|].
  apply filter_ext_in. intros l Hl. unfold newb.
  rewrite (check_declaration_view c2 l 61 sa s); [reflexivity| |].
  - rewrite sd_node0. cbn [in_files]. rewrite (Hd _ Hl). reflexivity.
  - rewrite sd_file0, (Hd _ Hl). reflexivity.
Qed.

Lemma mem_filter_sub (p : str -> bool) l ps : mem_str l (filter p ps) = true -> In l ps.
Proof. intros H. apply mem_str_In in H. apply filter_In in H as [H _]. exact H. Qed.

Theorem static_static_commute (s sa sb s12 s21 : st) (c1 c2 : key) (ps1 ps2 : list str) :
  no_file_creator_b s = true ->
  not_file c1 -> not_file c2 -> c1 <> c2 ->
  attached c1 s = true -> attached c2 s = true ->
  NoDup ps1 -> NoDup ps2 ->
  step_op (OpDeclareStatic c1 ps1) s = Ok sa -> step_op (OpDeclareStatic c2 ps2) sa = Ok s12 ->
  step_op (OpDeclareStatic c2 ps2) s = Ok sb -> step_op (OpDeclareStatic c1 ps1) sb = Ok s21 ->
  st_equiv s12 s21.
Proof.
  cbn [step_op]. intros Hnfc Hf1 Hf2 Hne Ha1 Ha2 N1 N2 R1 R12 R2 R21.
  apply static_request_spec in R1 as [S1 _]; try assumption.
  apply static_request_spec in R2 as [S2 _]; try assumption.
  apply static_request_spec in R12 as [S12 All12]; try assumption; [|exact (sd_nfc _ _ _ _ S1)].
  apply static_request_spec in R21 as [S21 All21]; try assumption; [|exact (sd_nfc _ _ _ _ S2)].
  destruct (second_request_same_todo c1 c2 ps1 ps2 s sa Hne Ha1 S1 All12) as [D12 E12].
  destruct (second_request_same_todo c2 c1 ps2 ps1 s sb (not_eq_sym Hne) Ha2 S2 All21) as [D21 E21].
  rewrite E12 in S12. rewrite E21 in S21.
  set (T1 := filter (newb c1 s) ps1) in *. set (T2 := filter (newb c2 s) ps2) in *.
  assert (Dis12 : forall l, mem_str l T2 = true -> mem_str l T1 = false).
  { intros l M. apply D12. eapply mem_filter_sub. exact M. }
  assert (Dis21 : forall l, mem_str l T1 = true -> mem_str l T2 = false).
  { intros l M. apply D21. eapply mem_filter_sub. exact M. }
  pose proof (seq_static_views c1 T1 c2 T2 s sa s12 Hf2 S1 S12 Dis12) as V12.
  pose proof (seq_static_views c2 T2 c1 T1 s sb s21 Hf1 S2 S21 Dis21) as V21.
  destruct V12, V21.
  assert (DisK : forall k, in_files k T2 = true -> in_files k T1 = false).
  { intros [[] x] H; cbn in *; try reflexivity. apply Dis12. exact H. }
  constructor.
  - intros k. rewrite ts_node0, ts_node1.
    destruct (in_files k T2) eqn:M2; [rewrite (DisK _ M2)|]; reflexivity.
  - intros l. rewrite ts_file0, ts_file1.
    destruct (mem_str l T2) eqn:M2; [rewrite (Dis12 _ M2)|]; reflexivity.
  - intros l. unfold step_view, find_step. rewrite ts_steps0, ts_steps1. reflexivity.
  - intros a b. rewrite ts_dep0, ts_dep1.
    destruct (in_files b T2) eqn:M2; [rewrite (DisK _ M2)|];
      destruct (in_files b T1), (existsn b s); reflexivity.
  - intros x. rewrite ts_hash0, ts_hash1. rewrite <- !andb_assoc. f_equal. apply andb_comm.
  - intros l nm. unfold find_env. rewrite ts_envs0, ts_envs1. reflexivity.
  - congruence.
Qed.
