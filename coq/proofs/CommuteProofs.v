(* C02: commutation (diamond) lemmas between transactions of different running steps, on the
   executable model of the stored workflow (model/Graph.v).  See design.d/C02.md. *)
From Coq Require Import List NArith Bool Lia PeanoNat.
From SV Require Import lib.Bytes model.Graph model.GraphDump model.GraphInv model.Commute.
Import ListNotations.
Open Scope N_scope.

(* ------------------------------------------------------------------------------------------ *)
(* 0. equality tests                                                                           *)
(* ------------------------------------------------------------------------------------------ *)
Lemma kind_eqb_eq a b : kind_eqb a b = true <-> a = b.
Proof. destruct a, b; cbn; split; intros H; try reflexivity; discriminate. Qed.

Lemma key_eqb_eq a b : key_eqb a b = true <-> a = b.
Proof.
  destruct a as [ka la], b as [kb lb]. unfold key_eqb. cbn [fst snd].
  rewrite andb_true_iff, kind_eqb_eq, str_eqb_eq. split.
  - intros [-> ->]. reflexivity.
  - intros H. inversion H. auto.
Qed.
Lemma key_eqb_refl a : key_eqb a a = true.
Proof. apply key_eqb_eq. reflexivity. Qed.
Lemma key_eqb_neq a b : key_eqb a b = false <-> a <> b.
Proof.
  split.
  - intros H E. apply key_eqb_eq in E. congruence.
  - intros H. destruct (key_eqb a b) eqn:E; [apply key_eqb_eq in E; contradiction | reflexivity].
Qed.
Lemma key_eqb_sym a b : key_eqb a b = key_eqb b a.
Proof.
  destruct (key_eqb a b) eqn:E.
  - apply key_eqb_eq in E. subst. symmetry. apply key_eqb_refl.
  - symmetry. apply key_eqb_neq. apply key_eqb_neq in E. congruence.
Qed.
Lemma str_eqb_neq a b : str_eqb a b = false <-> a <> b.
Proof.
  split.
  - intros H E. apply str_eqb_eq in E. congruence.
  - intros H. destruct (str_eqb a b) eqn:E; [apply str_eqb_eq in E; contradiction | reflexivity].
Qed.
Lemma str_eqb_sym a b : str_eqb a b = str_eqb b a.
Proof.
  destruct (str_eqb a b) eqn:E.
  - apply str_eqb_eq in E. subst. symmetry. apply str_eqb_refl.
  - symmetry. apply str_eqb_neq. apply str_eqb_neq in E. congruence.
Qed.
Lemma file_key_eqb l l' : key_eqb (KFile, l) (KFile, l') = str_eqb l l'.
Proof. reflexivity. Qed.
Lemma mem_str_In x l : mem_str x l = true <-> In x l.
Proof.
  unfold mem_str. rewrite existsb_exists. split.
  - intros [y [Hy E]]. apply str_eqb_eq in E. subst. exact Hy.
  - intros H. exists x. split; [exact H | apply str_eqb_refl].
Qed.
Lemma mem_str_false x l : mem_str x l = false <-> ~ In x l.
Proof.
  split.
  - intros H HI. apply mem_str_In in HI. congruence.
  - intros H. destruct (mem_str x l) eqn:E; [apply mem_str_In in E; contradiction | reflexivity].
Qed.

(* ------------------------------------------------------------------------------------------ *)
(* 1. find over map / append / filter                                                          *)
(* ------------------------------------------------------------------------------------------ *)
Lemma find_map_same {A} (p : A -> bool) (h : A -> A) (l : list A) :
  (forall x, p (h x) = p x) -> find p (map h l) = option_map h (find p l).
Proof.
  intros H. induction l as [|x l IH]; cbn; [reflexivity|].
  rewrite H. destruct (p x); [reflexivity | exact IH].
Qed.
Lemma find_app_one {A} (p : A -> bool) (l : list A) (x : A) :
  find p (l ++ [x]) = match find p l with Some y => Some y | None => if p x then Some x else None end.
Proof. induction l as [|y l IH]; cbn; [reflexivity|]. destruct (p y); [reflexivity | exact IH]. Qed.
Lemma find_filter_keep {A} (p q : A -> bool) (l : list A) :
  (forall x, p x = true -> q x = true) -> find p (filter q l) = find p l.
Proof.
  intros H. induction l as [|x l IH]; cbn; [reflexivity|].
  destruct (q x) eqn:Q; cbn.
  - destruct (p x); [reflexivity | exact IH].
  - destruct (p x) eqn:P; [apply H in P; congruence | exact IH].
Qed.
Lemma find_filter_drop {A} (p q : A -> bool) (l : list A) :
  (forall x, p x = true -> q x = false) -> find p (filter q l) = None.
Proof.
  intros H. induction l as [|x l IH]; cbn; [reflexivity|].
  destruct (q x) eqn:Q; cbn; [|exact IH].
  destruct (p x) eqn:P; [apply H in P; congruence | exact IH].
Qed.
Lemma existsb_filter_and {A} (p q : A -> bool) (l : list A) :
  existsb p (filter q l) = existsb (fun x => p x && q x) l.
Proof.
  induction l as [|x l IH]; cbn; [reflexivity|].
  destruct (q x); cbn; rewrite IH; [rewrite andb_true_r | rewrite andb_false_r]; reflexivity.
Qed.

(* ------------------------------------------------------------------------------------------ *)
(* 2. look-ups after the primitive updates                                                     *)
(* ------------------------------------------------------------------------------------------ *)
Lemma bind_ok_r {A} (r : res A) : (do x <- r; Ok x) = r.
Proof. destruct r; reflexivity. Qed.

Lemma find_node_key k s n : find_node k s = Some n -> nk n = k.
Proof. unfold find_node. intros H. apply find_some in H as [_ H]. apply key_eqb_eq in H. exact H. Qed.
Lemma find_file_key l s r : find_file l s = Some r -> fl r = l.
Proof. unfold find_file. intros H. apply find_some in H as [_ H]. apply str_eqb_eq in H. exact H. Qed.

Lemma node_view_upd_set k k' c d s :
  node_view k (upd_node k' (fun n => mkNode (nk n) c d) s) =
  if key_eqb k k' then match find_node k s with Some _ => Some (c, d) | None => None end
  else node_view k s.
Proof.
  unfold node_view, find_node, upd_node. cbn [nodes set_nodes].
  rewrite find_map_same.
  2:{ intros x. destruct (key_eqb (nk x) k'); reflexivity. }
  destruct (find (fun n => key_eqb (nk n) k) (nodes s)) as [n|] eqn:F; cbn [option_map].
  - apply find_some in F as [_ F]. apply key_eqb_eq in F. rewrite F.
    destruct (key_eqb k k'); reflexivity.
  - destruct (key_eqb k k'); reflexivity.
Qed.

Lemma node_view_app k s n :
  node_view k (set_nodes s (nodes s ++ [n])) =
  match node_view k s with Some v => Some v | None => if key_eqb (nk n) k then Some (ncre n, ndet n) else None end.
Proof.
  unfold node_view, find_node. cbn [nodes set_nodes]. rewrite find_app_one.
  destruct (find (fun n0 => key_eqb (nk n0) k) (nodes s)); [reflexivity|].
  destruct (key_eqb (nk n) k); reflexivity.
Qed.

Lemma file_view_upd_set l' l st0 h s :
  file_view l' (upd_file l (fun r => mkF (fl r) st0 h) s) =
  if str_eqb l' l then match find_file l' s with Some _ => Some (st0, h) | None => None end
  else file_view l' s.
Proof.
  unfold file_view, find_file, upd_file. cbn [files set_files].
  rewrite find_map_same.
  2:{ intros x. destruct (str_eqb (fl x) l); reflexivity. }
  destruct (find (fun f => str_eqb (fl f) l') (files s)) as [r|] eqn:F; cbn [option_map].
  - apply find_some in F as [_ F]. apply str_eqb_eq in F. rewrite F.
    destruct (str_eqb l' l); reflexivity.
  - destruct (str_eqb l' l); reflexivity.
Qed.

Lemma file_view_app l' s r :
  file_view l' (set_files s (files s ++ [r])) =
  match file_view l' s with Some v => Some v | None => if str_eqb (fl r) l' then Some (fstt r, fh r) else None end.
Proof.
  unfold file_view, find_file. cbn [files set_files]. rewrite find_app_one.
  destruct (find (fun f => str_eqb (fl f) l') (files s)); [reflexivity|].
  destruct (str_eqb (fl r) l'); reflexivity.
Qed.

Lemma find_dep_del_all_sources a b k s :
  find_dep a b (del_all_sources k s) = if key_eqb b k then None else find_dep a b s.
Proof.
  unfold find_dep, del_all_sources, del_deps_where. cbn [deps set_deps].
  destruct (key_eqb b k) eqn:E.
  - apply key_eqb_eq in E. subst b. rewrite find_filter_drop; [reflexivity|].
    intros x H. apply andb_true_iff in H as [_ H]. rewrite H. reflexivity.
  - rewrite find_filter_keep; [reflexivity|].
    intros x H. apply andb_true_iff in H as [_ H]. apply key_eqb_eq in H. rewrite H, E. reflexivity.
Qed.

Lemma has_hash_delete_hash x l s :
  has_hash x (delete_hash l s) = has_hash x s && negb (str_eqb x l).
Proof.
  unfold has_hash, delete_hash. cbn [shash set_shash].
  induction (shash s) as [|y t IH]; cbn; [reflexivity|].
  destruct (str_eqb y l) eqn:E; cbn.
  - rewrite IH. destruct (str_eqb x y) eqn:E2; cbn; [|reflexivity].
    apply str_eqb_eq in E2. subst y. rewrite E. cbn. rewrite andb_false_r. reflexivity.
  - rewrite IH. destruct (str_eqb x y) eqn:E2; cbn; [|reflexivity].
    apply str_eqb_eq in E2. subst y. rewrite E. reflexivity.
Qed.

(* a file has no products when no node has a file as its creator *)
Lemma products_file_nil l s : no_file_creator_b s = true -> products (KFile, l) s = [].
Proof.
  unfold no_file_creator_b, products. intros H.
  induction (nodes s) as [|n t IH]; cbn; [reflexivity|].
  cbn in H. apply andb_true_iff in H as [H1 H2].
  destruct (ncre n) as [[[] cl]|] eqn:C; cbn; try discriminate; apply IH; exact H2.
Qed.

Definition not_file (c : key) : Prop := fst c <> KFile.

Lemma nfc_upd_node k c d s :
  not_file c -> no_file_creator_b s = true ->
  no_file_creator_b (upd_node k (fun n => mkNode (nk n) (Some c) d) s) = true.
Proof.
  unfold no_file_creator_b, upd_node. cbn [nodes set_nodes]. intros Hc H.
  rewrite forallb_forall in *. intros x Hx. apply in_map_iff in Hx as [y [<- Hy]].
  destruct (key_eqb (nk y) k).
  - cbn. destruct c as [[] cl]; try reflexivity. exfalso. apply Hc. reflexivity.
  - apply H. exact Hy.
Qed.
Lemma nfc_app n s :
  match ncre n with Some (KFile, _) => False | _ => True end -> no_file_creator_b s = true ->
  no_file_creator_b (set_nodes s (nodes s ++ [n])) = true.
Proof.
  unfold no_file_creator_b. cbn [nodes set_nodes]. intros Hn H.
  rewrite forallb_app, H. cbn. destruct (ncre n) as [[[] cl]|]; try reflexivity. contradiction.
Qed.

(* cutting the incoming edges of a FILE never changes the consumers (step sinks) of any file *)
Lemma step_sinks_del_all_sources_file q l s :
  step_sinks_of_file q (del_all_sources (KFile, l) s) = step_sinks_of_file q s.
Proof.
  unfold step_sinks_of_file, sinks_of, del_all_sources, del_deps_where. cbn [deps set_deps].
  induction (deps s) as [|d t IH]; [reflexivity|].
  cbn [filter].
  destruct (key_eqb (dsnk d) (KFile, l)) eqn:E; cbn [negb].
  - rewrite IH. destruct (key_eqb (dsrc d) (KFile, q)); [|reflexivity].
    cbn [map filter]. apply key_eqb_eq in E. rewrite E. cbn [fst kind_eqb]. reflexivity.
  - cbn [filter]. destruct (key_eqb (dsrc d) (KFile, q)); [|exact IH].
    cbn [map filter]. destruct (kind_eqb (fst (dsnk d)) KStep); cbn [map]; rewrite IH; reflexivity.
Qed.

(* ------------------------------------------------------------------------------------------ *)
(* 3. Trellis.create of a file node, node part (creator Some c)                                *)
(* ------------------------------------------------------------------------------------------ *)
Lemma create_split k cr f s :
  create k cr (InitFile f) s = do s1 <- create k cr InitTree s; file_initialize_row (snd k) f s1.
Proof.
  unfold create.
  destruct (creator_ok k cr s) as [u|t|t]; [|reflexivity|reflexivity]. cbn [bind].
  destruct (match find_node k s with
            | Some n => _
            | None => _ end) as [x|t|t]; reflexivity.
Qed.

Lemma creator_ok_not_file l c s u : creator_ok (KFile, l) (Some c) s = Ok u -> not_file c.
Proof.
  unfold creator_ok, not_file. intros H E.
  destruct (negb (is_some (find_node c s))); [discriminate|].
  destruct (key_eqb c (KFile, l)); [discriminate|].
  rewrite E in H. cbn in H. discriminate.
Qed.

(* the step whose stored hash is deleted because it loses the (stale) file l *)
Definition lostb (s : st) (l x : str) : bool :=
  match find_node (KFile, l) s with
  | Some n => match ncre n with Some (KStep, oc) => str_eqb x oc | _ => false end
  | None => false
  end.
Definition existsn (k : key) (s : st) : bool := is_some (find_node k s).

Record node_part_spec (c : key) (l : str) (s s1 : st) : Prop := mkNPS {
  np_node : forall k, node_view k s1 =
                      if key_eqb k (KFile, l) then Some (Some c, is_detached c s) else node_view k s;
  np_files : files s1 = files s;
  np_steps : steps s1 = steps s;
  np_envs : envs s1 = envs s;
  np_cap : defer_cap s1 = defer_cap s;
  np_dep : forall a b, find_dep a b s1 =
                       if key_eqb b (KFile, l) && existsn (KFile, l) s then None else find_dep a b s;
  np_hash : forall x, has_hash x s1 = has_hash x s && negb (lostb s l x);
  np_sinks : forall q, step_sinks_of_file q s1 = step_sinks_of_file q s;
  np_nfc : no_file_creator_b s1 = true }.

Lemma create_file_node_spec c l s s1 :
  create (KFile, l) (Some c) InitTree s = Ok s1 ->
  no_file_creator_b s = true ->
  node_part_spec c l s s1.
Proof.
  intros H Hnfc. unfold create in H.
  destruct (creator_ok (KFile, l) (Some c) s) as [u|t|t] eqn:CO; cbn [bind] in H; try discriminate.
  pose proof (creator_ok_not_file _ _ _ _ CO) as Hc. clear CO.
  rewrite bind_ok_r in H.
  destruct (find_node (KFile, l) s) as [n|] eqn:F.
  - destruct (ndet n) eqn:D; cbn [negb] in H; [|discriminate].
    set (s0 := upd_node (KFile, l) (fun n0 => mkNode (nk n0) (Some c) (is_detached c s)) s) in *.
    assert (Hnfc0 : no_file_creator_b s0 = true) by (apply nfc_upd_node; assumption).
    assert (Hfin : forall s2, nodes s2 = nodes s0 -> no_file_creator_b s2 = true).
    { intros s2 E. unfold no_file_creator_b. rewrite E. exact Hnfc0. }
    assert (Hnode0 : forall k, node_view k s0 =
              if key_eqb k (KFile, l) then Some (Some c, is_detached c s) else node_view k s).
    { intros k. unfold s0. rewrite node_view_upd_set. destruct (key_eqb k (KFile, l)) eqn:E; [|reflexivity].
      apply key_eqb_eq in E. subst k. rewrite F. reflexivity. }
    destruct (ncre n) as [oc|] eqn:C.
    + destruct (is_detached oc s); cbn [negb] in H; [|discriminate].
      destruct oc as [ock ocl]. unfold after_lost_product in H.
      destruct ock; cbn [fst snd bind] in H; try discriminate.
      * (* KStep: stored hash of the old creator deleted *)
        rewrite products_file_nil in H by (apply Hfin; reflexivity). cbn in H. inversion H; subst s1; clear H.
        constructor; try reflexivity.
        -- intros k. exact (Hnode0 k).
        -- intros a b. rewrite find_dep_del_all_sources. unfold existsn. rewrite F. cbn.
           rewrite andb_true_r. reflexivity.
        -- intros x. unfold lostb. rewrite F, C.
           change (has_hash x (del_all_sources (KFile, l) (delete_hash ocl s0)))
             with (has_hash x (delete_hash ocl s0)).
           rewrite has_hash_delete_hash. reflexivity.
        -- intros q. rewrite step_sinks_del_all_sources_file. reflexivity.
        -- apply Hfin. reflexivity.
      * (* KTree *)
        rewrite products_file_nil in H by (apply Hfin; reflexivity). cbn in H. inversion H; subst s1; clear H.
        constructor; try reflexivity.
        -- intros k. exact (Hnode0 k).
        -- intros a b. rewrite find_dep_del_all_sources. unfold existsn. rewrite F. cbn.
           rewrite andb_true_r. reflexivity.
        -- intros x. unfold lostb. rewrite F, C. rewrite andb_true_r. reflexivity.
        -- intros q. rewrite step_sinks_del_all_sources_file. reflexivity.
        -- apply Hfin. reflexivity.
    + cbn [bind] in H. rewrite products_file_nil in H by (apply Hfin; reflexivity). cbn in H.
      inversion H; subst s1; clear H.
      constructor; try reflexivity.
      * intros k. exact (Hnode0 k).
      * intros a b. rewrite find_dep_del_all_sources. unfold existsn. rewrite F. cbn.
        rewrite andb_true_r. reflexivity.
      * intros x. unfold lostb. rewrite F, C. rewrite andb_true_r. reflexivity.
      * intros q. rewrite step_sinks_del_all_sources_file. reflexivity.
      * apply Hfin. reflexivity.
  - inversion H; subst s1; clear H.
    constructor; try reflexivity.
    + intros k. rewrite node_view_app. cbn [nk ncre ndet].
      unfold node_view at 1. rewrite (key_eqb_sym (KFile, l) k).
      destruct (key_eqb k (KFile, l)) eqn:E.
      * apply key_eqb_eq in E. subst k. rewrite F. reflexivity.
      * unfold node_view. destruct (find_node k s); reflexivity.
    + intros a b. unfold existsn. rewrite F. cbn. rewrite andb_false_r. reflexivity.
    + intros x. unfold lostb. rewrite F. rewrite andb_true_r. reflexivity.
    + apply nfc_app; [|exact Hnfc]. cbn. destruct c as [[] cl]; try exact I. apply Hc. reflexivity.
Qed.

(* ------------------------------------------------------------------------------------------ *)
(* 4. File.initialize_row(UNCONFIRMED) and _declare_file(UNCONFIRMED)                          *)
(* ------------------------------------------------------------------------------------------ *)
(* hash column after (re)declaring l static: kept unless the old state was BUILT / OUTDATED *)
Definition hh (s : st) (l : str) : option N :=
  match find_file l s with
  | Some r => if clears_hash (fstt r) FUnconfirmed then None else fh r
  | None => None
  end.

Lemma file_init_unconfirmed_spec l s s1 :
  file_initialize_row l FUnconfirmed s = Ok s1 ->
  (forall l', file_view l' s1 = if str_eqb l' l then Some (FUnconfirmed, hh s l) else file_view l' s) /\
  nodes s1 = nodes s /\ steps s1 = steps s /\ deps s1 = deps s /\ shash s1 = shash s /\
  envs s1 = envs s /\ defer_cap s1 = defer_cap s.
Proof.
  unfold file_initialize_row, hh. intros H.
  destruct (find_file l s) as [r|] eqn:F.
  - unfold set_fstate, set_fstate_hash in H. rewrite F in H. cbn in H.
    inversion H; subst s1; clear H. repeat split.
    intros l'. rewrite file_view_upd_set.
    destruct (str_eqb l' l) eqn:E; [|reflexivity].
    apply str_eqb_eq in E. subst l'. rewrite F. reflexivity.
  - cbn in H. inversion H; subst s1; clear H. repeat split.
    intros l'. rewrite file_view_app. cbn [fl fstt fh].
    rewrite (str_eqb_sym l l').
    destruct (str_eqb l' l) eqn:E.
    + apply str_eqb_eq in E. subst l'. unfold file_view. rewrite F. reflexivity.
    + destruct (file_view l' s); reflexivity.
Qed.

Record decl_spec (c : key) (l : str) (s s' : st) : Prop := mkDS {
  ds_node : forall k, node_view k s' =
                      if key_eqb k (KFile, l) then Some (Some c, is_detached c s) else node_view k s;
  ds_file : forall l', file_view l' s' =
                       if str_eqb l' l then Some (FUnconfirmed, hh s l) else file_view l' s;
  ds_steps : steps s' = steps s;
  ds_envs : envs s' = envs s;
  ds_cap : defer_cap s' = defer_cap s;
  ds_dep : forall a b, find_dep a b s' =
                       if key_eqb b (KFile, l) && existsn (KFile, l) s then None else find_dep a b s;
  ds_hash : forall x, has_hash x s' = has_hash x s && negb (lostb s l x);
  ds_sinks : forall q, step_sinks_of_file q s' = step_sinks_of_file q s;
  ds_nfc : no_file_creator_b s' = true }.

Lemma sinks_of_deps s1 s2 p : deps s1 = deps s2 -> step_sinks_of_file p s1 = step_sinks_of_file p s2.
Proof. intros E. unfold step_sinks_of_file, sinks_of. rewrite E. reflexivity. Qed.
Lemma view_of_nodes s1 s2 : nodes s1 = nodes s2 -> forall k, node_view k s1 = node_view k s2.
Proof. intros E k. unfold node_view, find_node. rewrite E. reflexivity. Qed.
Lemma view_of_files s1 s2 : files s1 = files s2 -> forall l, file_view l s1 = file_view l s2.
Proof. intros E k. unfold file_view, find_file. rewrite E. reflexivity. Qed.
Lemma view_of_deps s1 s2 : deps s1 = deps s2 -> forall a b, find_dep a b s1 = find_dep a b s2.
Proof. intros E a b. unfold find_dep. rewrite E. reflexivity. Qed.
Lemma view_of_shash s1 s2 : shash s1 = shash s2 -> forall x, has_hash x s1 = has_hash x s2.
Proof. intros E x. unfold has_hash. rewrite E. reflexivity. Qed.
Lemma hh_of_files s1 s2 : files s1 = files s2 -> forall l, hh s1 l = hh s2 l.
Proof. intros E l. unfold hh, find_file. rewrite E. reflexivity. Qed.

Lemma declare_file_unconfirmed_spec c l s s' :
  declare_file c l FUnconfirmed s = Ok s' -> no_file_creator_b s = true -> decl_spec c l s s'.
Proof.
  unfold declare_file. intros H Hnfc. rewrite create_split in H. cbn [snd] in H.
  destruct (create (KFile, l) (Some c) InitTree s) as [s1|t|t] eqn:C; cbn [bind] in H; try discriminate.
  apply create_file_node_spec in C; [|exact Hnfc]. destruct C.
  destruct (file_initialize_row l FUnconfirmed s1) as [s2|t|t] eqn:FI; cbn [bind] in H; try discriminate.
  inversion H; subst s2; clear H.
  apply file_init_unconfirmed_spec in FI as (Hf & Hn & Hs & Hd & Hh & He & Hc).
  constructor.
  - intros k. rewrite (view_of_nodes _ _ Hn). apply np_node0.
  - intros l'. rewrite Hf. rewrite (hh_of_files _ _ np_files0). rewrite (view_of_files _ _ np_files0). reflexivity.
  - congruence.
  - congruence.
  - congruence.
  - intros a b. rewrite (view_of_deps _ _ Hd). apply np_dep0.
  - intros x. rewrite (view_of_shash _ _ Hh). apply np_hash0.
  - intros q. rewrite (sinks_of_deps _ _ q Hd). apply np_sinks0.
  - unfold no_file_creator_b. rewrite Hn. exact np_nfc0.
Qed.

(* ------------------------------------------------------------------------------------------ *)
(* 5. a whole declare_static request                                                           *)
(* ------------------------------------------------------------------------------------------ *)
Lemma is_detached_view k s :
  is_detached k s = match node_view k s with Some (_, d) => d | None => true end.
Proof. unfold is_detached, node_view. destruct (find_node k s); reflexivity. Qed.
Lemma existsn_view k s : existsn k s = is_some (node_view k s).
Proof. unfold existsn, node_view. destruct (find_node k s); reflexivity. Qed.
Lemma lostb_view s l x :
  lostb s l x = match node_view (KFile, l) s with
                | Some (Some (KStep, oc), _) => str_eqb x oc
                | _ => false end.
Proof. unfold lostb, node_view. destruct (find_node (KFile, l) s); reflexivity. Qed.
Lemma hh_view s l :
  hh s l = match file_view l s with
           | Some (st0, h) => if clears_hash st0 FUnconfirmed then None else h
           | None => None end.
Proof. unfold hh, file_view. destruct (find_file l s); reflexivity. Qed.

Lemma existsb_ext_in {A} (f g : A -> bool) (l : list A) :
  (forall x, In x l -> f x = g x) -> existsb f l = existsb g l.
Proof.
  induction l as [|x l IH]; intros H; cbn; [reflexivity|].
  rewrite H by (left; reflexivity). rewrite IH; [reflexivity|]. intros y Hy. apply H. right. exact Hy.
Qed.

Definition in_files (k : key) (T : list str) : bool :=
  match k with (KFile, l) => mem_str l T | _ => false end.

Record sdecl_spec (c : key) (T : list str) (s s' : st) : Prop := mkSD {
  sd_node : forall k, node_view k s' =
                      if in_files k T then Some (Some c, is_detached c s) else node_view k s;
  sd_file : forall l', file_view l' s' =
                       if mem_str l' T then Some (FUnconfirmed, hh s l') else file_view l' s;
  sd_steps : steps s' = steps s;
  sd_envs : envs s' = envs s;
  sd_cap : defer_cap s' = defer_cap s;
  sd_dep : forall a b, find_dep a b s' =
                       if in_files b T && existsn b s then None else find_dep a b s;
  sd_hash : forall x, has_hash x s' = has_hash x s && negb (existsb (fun l => lostb s l x) T);
  sd_sinks : forall q, step_sinks_of_file q s' = step_sinks_of_file q s;
  sd_nfc : no_file_creator_b s' = true }.

Lemma not_file_key c l : not_file c -> key_eqb c (KFile, l) = false.
Proof.
  intros H. apply key_eqb_neq. intros E. apply H. rewrite E. reflexivity.
Qed.

Lemma fold_decl_spec c T : forall s s',
  NoDup T -> not_file c ->
  foldM (fun s l => declare_file c l FUnconfirmed s) T s = Ok s' ->
  no_file_creator_b s = true -> sdecl_spec c T s s'.
Proof.
  induction T as [|l T IH]; intros s s' HND Hc H Hnfc.
  - cbn in H. inversion H; subst s'. constructor; try reflexivity.
    + intros k. destruct k as [[] x]; reflexivity.
    + intros a b. destruct b as [[] x]; reflexivity.
    + intros x. cbn. rewrite andb_true_r. reflexivity.
    + exact Hnfc.
  - cbn [foldM] in H.
    destruct (declare_file c l FUnconfirmed s) as [s1|t|t] eqn:D; cbn [bind] in H; try discriminate.
    apply declare_file_unconfirmed_spec in D; [|exact Hnfc]. destruct D.
    inversion HND as [|? ? Hnotin HND']; subst.
    apply IH in H; [|exact HND'|exact Hc|exact ds_nfc0]. destruct H.
    assert (Hdet : is_detached c s1 = is_detached c s).
    { rewrite !is_detached_view, ds_node0, (not_file_key _ _ Hc). reflexivity. }
    assert (Hother : forall x, In x T -> str_eqb x l = false).
    { intros x Hx. apply str_eqb_neq. intros ->. contradiction. }
    constructor.
    + intros k. rewrite sd_node0, Hdet, ds_node0.
      destruct k as [kk x]. destruct kk; cbn [in_files]; try reflexivity.
      rewrite file_key_eqb. cbn [mem_str existsb]. fold (mem_str x T).
      destruct (mem_str x T); [rewrite orb_true_r; reflexivity|].
      rewrite orb_false_r. reflexivity.
    + intros l'. rewrite sd_file0, ds_file0. cbn [mem_str existsb]. fold (mem_str l' T).
      destruct (mem_str l' T) eqn:M.
      * rewrite orb_true_r. rewrite !hh_view, ds_file0.
        apply mem_str_In in M. rewrite (Hother _ M). reflexivity.
      * rewrite orb_false_r. destruct (str_eqb l' l) eqn:E; [|reflexivity].
        apply str_eqb_eq in E. subst l'. reflexivity.
    + congruence.
    + congruence.
    + congruence.
    + intros a b. rewrite sd_dep0, ds_dep0.
      destruct b as [kk x]. destruct kk; cbn [in_files andb]; try reflexivity.
      rewrite file_key_eqb. cbn [mem_str existsb]. fold (mem_str x T).
      rewrite !existsn_view, ds_node0, file_key_eqb.
      destruct (mem_str x T) eqn:M.
      * apply mem_str_In in M. rewrite (Hother _ M). cbn [orb andb].
        destruct (is_some (node_view (KFile, x) s)); reflexivity.
      * cbn [andb orb]. rewrite orb_false_r.
        destruct (str_eqb x l) eqn:E; [|reflexivity]. apply str_eqb_eq in E. subst x. reflexivity.
    + intros x. rewrite sd_hash0, ds_hash0. cbn [existsb].
      rewrite (existsb_ext_in (fun l0 => lostb s1 l0 x) (fun l0 => lostb s l0 x)).
      * rewrite negb_orb, andb_assoc. reflexivity.
      * intros y Hy. rewrite !lostb_view, ds_node0, file_key_eqb, (Hother _ Hy). reflexivity.
    + intros q. rewrite sd_sinks0. apply ds_sinks0.
    + exact sd_nfc0.
Qed.

(* which paths of a static request still have to be declared *)
Definition newb (c : key) (s : st) (l : str) : bool :=
  match check_declaration_node c l 61 s with Ok true => true | _ => false end.

Lemma todo_spec c s ps : forall acc T,
  foldM (fun acc l => do isnew <- check_declaration_node c l 61 s;
                      Ok (if isnew then acc ++ [l] else acc)) ps acc = Ok T ->
  T = acc ++ filter (newb c s) ps /\
  (forall l, In l ps -> exists b, check_declaration_node c l 61 s = Ok b).
Proof.
  induction ps as [|l ps IH]; intros acc T H.
  - cbn in H. inversion H. rewrite app_nil_r. split; [reflexivity | intros l []].
  - cbn [foldM] in H. cbn [filter].
    destruct (check_declaration_node c l 61 s) as [b|t|t] eqn:C; cbn [bind] in H; try discriminate.
    assert (Hn : newb c s l = b) by (unfold newb; rewrite C; destruct b; reflexivity).
    apply IH in H as [HT Hall]. split.
    + rewrite HT, Hn. destruct b; [rewrite <- app_assoc|]; reflexivity.
    + intros l0 [<-|Hl0]; [exists b; exact C | apply Hall; exact Hl0].
Qed.

Lemma static_request_spec c ps s s' :
  declare_static_files c ps s = Ok s' -> NoDup ps -> not_file c -> no_file_creator_b s = true ->
  sdecl_spec c (filter (newb c s) ps) s s' /\
  (forall l, In l ps -> exists b, check_declaration_node c l 61 s = Ok b).
Proof.
  unfold declare_static_files. intros H HND Hc Hnfc.
  destruct (negb (is_some (find_node c s))); [discriminate|].
  destruct (foldM _ ps []) as [T|t|t] eqn:TD; cbn [bind] in H; try discriminate.
  apply todo_spec in TD as [HT Hall]. cbn [app] in HT. subst T. split; [|exact Hall].
  apply fold_decl_spec; try assumption. apply NoDup_filter. exact HND.
Qed.

(* the claim check looks at the node and file rows of that path only *)
Lemma check_declaration_view c l r s1 s2 :
  node_view (KFile, l) s1 = node_view (KFile, l) s2 -> file_view l s1 = file_view l s2 ->
  check_declaration_node c l r s1 = check_declaration_node c l r s2.
Proof.
  unfold check_declaration_node, existing_claim, node_view, file_view. intros Hn Hf.
  destruct (find_node (KFile, l) s1) as [n1|], (find_node (KFile, l) s2) as [n2|]; try discriminate;
    [|reflexivity].
  inversion Hn as [[Hc Hd]]. rewrite Hc, Hd.
  destruct (find_file l s1) as [r1|], (find_file l s2) as [r2|]; try discriminate; [|reflexivity].
  inversion Hf as [[Hs Hh]]. rewrite Hs. reflexivity.
Qed.

(* a path freshly declared static by an ATTACHED creator c1 is refused to any other creator *)
Lemma check_after_other_static c1 c2 l s h :
  node_view (KFile, l) s = Some (Some c1, false) -> file_view l s = Some (FUnconfirmed, h) ->
  c1 <> c2 -> check_declaration_node c2 l 61 s = Usage 202.
Proof.
  unfold check_declaration_node, existing_claim, node_view, file_view. intros Hn Hf Hne.
  destruct (find_node (KFile, l) s) as [n|]; [|discriminate]. inversion Hn as [[Hc Hd]].
  destruct (find_file l s) as [r|]; [|discriminate]. inversion Hf as [[Hs Hh]].
  rewrite Hd, Hc, Hs. cbn. apply key_eqb_neq in Hne. rewrite Hne. reflexivity.
Qed.

(* ------------------------------------------------------------------------------------------ *)
(* 6. declarations_commute, pair (static, static)                                              *)
(* ------------------------------------------------------------------------------------------ *)
Record two_static_views (c1 : key) (T1 : list str) (c2 : key) (T2 : list str) (s s' : st) : Prop := mkTS {
  ts_node : forall k, node_view k s' =
      if in_files k T2 then Some (Some c2, is_detached c2 s)
      else if in_files k T1 then Some (Some c1, is_detached c1 s) else node_view k s;
  ts_file : forall l, file_view l s' =
      if mem_str l T2 then Some (FUnconfirmed, hh s l)
      else if mem_str l T1 then Some (FUnconfirmed, hh s l) else file_view l s;
  ts_steps : steps s' = steps s;
  ts_envs : envs s' = envs s;
  ts_cap : defer_cap s' = defer_cap s;
  ts_dep : forall a b, find_dep a b s' =
      if in_files b T2 && existsn b s then None
      else if in_files b T1 && existsn b s then None else find_dep a b s;
  ts_hash : forall x, has_hash x s' =
      has_hash x s && negb (existsb (fun l => lostb s l x) T1) && negb (existsb (fun l => lostb s l x) T2) }.

Lemma seq_static_views c1 T1 c2 T2 s sa s12 :
  not_file c2 ->
  sdecl_spec c1 T1 s sa -> sdecl_spec c2 T2 sa s12 ->
  (forall l, mem_str l T2 = true -> mem_str l T1 = false) ->
  two_static_views c1 T1 c2 T2 s s12.
Proof.
  intros Hc2 S1 S2 Hdis. destruct S1, S2.
  assert (Hin : forall k, in_files k T2 = true -> in_files k T1 = false).
  { intros [[] x] H; cbn in *; try reflexivity. apply Hdis. exact H. }
  constructor.
  - intros k. rewrite sd_node1, sd_node0.
    rewrite (is_detached_view c2 sa), sd_node0.
    assert (E : in_files c2 T1 = false).
    { destruct c2 as [[] x]; try reflexivity. exfalso. apply Hc2. reflexivity. }
    rewrite E, <- is_detached_view. reflexivity.
  - intros l. rewrite sd_file1, sd_file0.
    destruct (mem_str l T2) eqn:M; [|reflexivity].
    rewrite (hh_view sa), sd_file0, (Hdis _ M), <- hh_view. reflexivity.
  - congruence.
  - congruence.
  - congruence.
  - intros a b. rewrite sd_dep1, sd_dep0.
    destruct (in_files b T2) eqn:M; cbn [andb]; [|reflexivity].
    rewrite (existsn_view b sa), sd_node0, (Hin _ M), <- existsn_view. reflexivity.
  - intros x. rewrite sd_hash1, sd_hash0.
    rewrite (existsb_ext_in (fun l => lostb sa l x) (fun l => lostb s l x)); [reflexivity|].
    intros y Hy. rewrite !lostb_view, sd_node0. cbn [in_files].
    apply mem_str_In in Hy. rewrite (Hdis _ Hy). reflexivity.
Qed.

Lemma second_request_same_todo c1 c2 ps1 ps2 s sa :
  c1 <> c2 -> attached c1 s = true ->
  sdecl_spec c1 (filter (newb c1 s) ps1) s sa ->
  (forall l, In l ps2 -> exists b, check_declaration_node c2 l 61 sa = Ok b) ->
  (forall l, In l ps2 -> mem_str l (filter (newb c1 s) ps1) = false) /\
  filter (newb c2 sa) ps2 = filter (newb c2 s) ps2.
Proof.
  intros Hne Hatt S1 Hall. destruct S1.
  assert (Hd : forall l, In l ps2 -> mem_str l (filter (newb c1 s) ps1) = false).
  { intros l Hl. destruct (mem_str l (filter (newb c1 s) ps1)) eqn:M; [|reflexivity]. exfalso.
    destruct (Hall _ Hl) as [b Hb].
    rewrite (check_after_other_static c1 c2 l sa (hh s l)) in Hb; [discriminate| | |exact Hne].
    - rewrite sd_node0. cbn [in_files]. rewrite M. unfold attached in Hatt.
      apply negb_true_iff in Hatt. rewrite Hatt. reflexivity.
    - rewrite sd_file0, M. reflexivity. }
  split; [exact Hd|].
  apply filter_ext_in. intros l Hl. unfold newb.
  rewrite (check_declaration_view c2 l 61 sa s); [reflexivity| |].
  - rewrite sd_node0. cbn [in_files]. rewrite (Hd _ Hl). reflexivity.
  - rewrite sd_file0, (Hd _ Hl). reflexivity.
Qed.

Lemma mem_filter_sub (p : str -> bool) l ps : mem_str l (filter p ps) = true -> In l ps.
Proof. intros H. apply mem_str_In in H. apply filter_In in H as [H _]. exact H. Qed.

Theorem static_static_commute (s sa sb s12 s21 : st) (c1 c2 : key) (ps1 ps2 : list str) :
  no_file_creator_b s = true ->
  not_file c1 -> not_file c2 -> c1 <> c2 ->
  attached c1 s = true -> attached c2 s = true ->
  NoDup ps1 -> NoDup ps2 ->
  step_op (OpDeclareStatic c1 ps1) s = Ok sa -> step_op (OpDeclareStatic c2 ps2) sa = Ok s12 ->
  step_op (OpDeclareStatic c2 ps2) s = Ok sb -> step_op (OpDeclareStatic c1 ps1) sb = Ok s21 ->
  st_equiv s12 s21.
Proof.
  cbn [step_op]. intros Hnfc Hf1 Hf2 Hne Ha1 Ha2 N1 N2 R1 R12 R2 R21.
  apply static_request_spec in R1 as [S1 _]; try assumption.
  apply static_request_spec in R2 as [S2 _]; try assumption.
  apply static_request_spec in R12 as [S12 All12]; try assumption; [|exact (sd_nfc _ _ _ _ S1)].
  apply static_request_spec in R21 as [S21 All21]; try assumption; [|exact (sd_nfc _ _ _ _ S2)].
  destruct (second_request_same_todo c1 c2 ps1 ps2 s sa Hne Ha1 S1 All12) as [D12 E12].
  destruct (second_request_same_todo c2 c1 ps2 ps1 s sb (not_eq_sym Hne) Ha2 S2 All21) as [D21 E21].
  rewrite E12 in S12. rewrite E21 in S21.
  set (T1 := filter (newb c1 s) ps1) in *. set (T2 := filter (newb c2 s) ps2) in *.
  assert (Dis12 : forall l, mem_str l T2 = true -> mem_str l T1 = false).
  { intros l M. apply D12. eapply mem_filter_sub. exact M. }
  assert (Dis21 : forall l, mem_str l T1 = true -> mem_str l T2 = false).
  { intros l M. apply D21. eapply mem_filter_sub. exact M. }
  pose proof (seq_static_views c1 T1 c2 T2 s sa s12 Hf2 S1 S12 Dis12) as V12.
  pose proof (seq_static_views c2 T2 c1 T1 s sb s21 Hf1 S2 S21 Dis21) as V21.
  destruct V12, V21.
  assert (DisK : forall k, in_files k T2 = true -> in_files k T1 = false).
  { intros [[] x] H; cbn in *; try reflexivity. apply Dis12. exact H. }
  constructor.
  - intros k. rewrite ts_node0, ts_node1.
    destruct (in_files k T2) eqn:M2; [rewrite (DisK _ M2)|]; reflexivity.
  - intros l. rewrite ts_file0, ts_file1.
    destruct (mem_str l T2) eqn:M2; [rewrite (Dis12 _ M2)|]; reflexivity.
  - intros l. unfold step_view, find_step. rewrite ts_steps0, ts_steps1. reflexivity.
  - intros a b. rewrite ts_dep0, ts_dep1.
    destruct (in_files b T2) eqn:M2; [rewrite (DisK _ M2)|];
      destruct (in_files b T1), (existsn b s); reflexivity.
  - intros x. rewrite ts_hash0, ts_hash1. rewrite <- !andb_assoc. f_equal. apply andb_comm.
  - intros l nm. unfold find_env. rewrite ts_envs0, ts_envs1. reflexivity.
  - congruence.
Qed.

(* ------------------------------------------------------------------------------------------ *)
(* 7. resumed from a valid database: the restart transaction is the identity                   *)
(* ------------------------------------------------------------------------------------------ *)
Lemma foldM_id {A S} (f : S -> A -> res S) (l : list A) (s : S) :
  (forall x, In x l -> f s x = Ok s) -> foldM f l s = Ok s.
Proof.
  induction l as [|x l IH]; intros H; cbn; [reflexivity|].
  rewrite H by (left; reflexivity). cbn. apply IH. intros y Hy. apply H. right. exact Hy.
Qed.

Lemma resume_equals_scratch_noop s :
  quiescent_success_b s = true -> step_op OpResetInterrupted s = Ok s.
Proof.
  unfold quiescent_success_b. cbn [step_op]. unfold reset_interrupted. intros H.
  rewrite forallb_forall in H.
  rewrite foldM_id.
  2:{ intros r Hr. apply H in Hr. apply andb_true_iff in Hr as [Hr _]. apply andb_true_iff in Hr as [Hr _].
      destruct (sst r); try reflexivity. discriminate. }
  cbn [bind]. rewrite foldM_id.
  2:{ intros r Hr. apply H in Hr. apply andb_true_iff in Hr as [Hr _]. apply andb_true_iff in Hr as [_ Hr].
      destruct (sst r); try reflexivity. discriminate. }
  cbn [bind]. apply foldM_id.
  intros r Hr. apply H in Hr. apply andb_true_iff in Hr as [_ Hr].
  destruct (sstate_of (sl r) s) as [[]|]; try reflexivity. rewrite Hr. reflexivity.
Qed.

Corollary resume_apply_noop s : quiescent_success_b s = true -> apply_op s OpResetInterrupted = s.
Proof. intros H. unfold apply_op. rewrite resume_equals_scratch_noop by exact H. reflexivity. Qed.

(* ------------------------------------------------------------------------------------------ *)
(* 8. interleavings: adjacent swaps of commuting transactions (generic diamond argument)       *)
(* ------------------------------------------------------------------------------------------ *)
Section Swaps.
  Variable E : st -> st -> Prop.          (* state equivalence *)
  Variable P : st -> Prop.                (* invariant of the states considered *)
  Variable R : op -> op -> Prop.          (* the pairs that may be swapped *)
  Variable C : op -> Prop.                (* the transactions considered *)
  Hypothesis E_refl : forall s, E s s.
  Hypothesis E_trans : forall a b c, E a b -> E b c -> E a c.
  Hypothesis P_step : forall o s, C o -> P s -> P (apply_op s o).
  (* congruence: a transaction cannot tell two equivalent states apart *)
  Hypothesis cong : forall o s s', C o -> P s -> P s' -> E s s' ->
                                   okb o s = okb o s' /\ E (apply_op s o) (apply_op s' o).
  (* diamond: acceptance of both is order independent, and if accepted so is the result *)
  Hypothesis diamond : forall a b s, R a b -> C a -> C b -> P s ->
      accepted2 a b s = accepted2 b a s /\
      (accepted2 a b s = true -> E (apply_op (apply_op s a) b) (apply_op (apply_op s b) a)).

  Lemma run_cong ops : forall s s', Forall C ops -> P s -> P s' -> E s s' ->
      all_ok ops s = all_ok ops s' /\ E (run_ops ops s) (run_ops ops s').
  Proof.
    induction ops as [|o ops IH]; intros s s' HC Ps Ps' He; cbn.
    - split; [reflexivity | exact He].
    - inversion HC as [|? ? Co HC']; subst.
      destruct (cong o s s' Co Ps Ps' He) as [Hok He'].
      destruct (IH (apply_op s o) (apply_op s' o) HC' (P_step _ _ Co Ps) (P_step _ _ Co Ps') He') as [H1 H2].
      rewrite Hok, H1. split; [reflexivity | exact H2].
  Qed.

  Lemma P_run ops : forall s, Forall C ops -> P s -> P (run_ops ops s).
  Proof.
    induction ops as [|o ops IH]; intros s HC Ps; cbn; [exact Ps|].
    inversion HC; subst. apply IH; [assumption|]. apply P_step; assumption.
  Qed.

  Lemma all_ok_app l1 l2 s : all_ok (l1 ++ l2) s = all_ok l1 s && all_ok l2 (run_ops l1 s).
  Proof.
    revert s. induction l1 as [|o l1 IH]; intros s; cbn; [reflexivity|].
    rewrite IH, andb_assoc. reflexivity.
  Qed.
  Lemma run_ops_app l1 l2 s : run_ops (l1 ++ l2) s = run_ops l2 (run_ops l1 s).
  Proof. unfold run_ops. apply fold_left_app. Qed.

  (* Every accepted/rejected verdict and the final graph agree for any two interleavings that
     differ by swaps of commuting transactions.  "Accepted" is all-or-nothing here: if the swapped
     pair is not accepted in either order nothing is claimed about the final states (the build
     fails either way). *)
  Theorem swaps_sound l1 l2 : swaps R l1 l2 -> Forall C l1 -> forall s, P s ->
      Forall C l2 /\ all_ok l1 s = all_ok l2 s /\
      (all_ok l1 s = true -> E (run_ops l1 s) (run_ops l2 s)).
  Proof.
    induction 1 as [l|pre a b post Rab|l1 l2 l3 H12 IH12 H23 IH23]; intros HC s Ps.
    - split; [exact HC|]. split; [reflexivity | intros _; apply E_refl].
    - apply Forall_app in HC as [Cpre HC]. inversion HC as [|? ? Ca HC']; subst.
      inversion HC' as [|? ? Cb Cpost]; subst.
      split; [apply Forall_app; split; [exact Cpre | constructor; [exact Cb | constructor; [exact Ca | exact Cpost]]]|].
      rewrite !all_ok_app, !run_ops_app.
      set (s0 := run_ops pre s). assert (P0 : P s0) by (apply P_run; assumption).
      destruct (diamond a b s0 Rab Ca Cb P0) as [Hacc Heq].
      unfold accepted2 in Hacc, Heq.
      change (all_ok (a :: b :: post) s0) with
        (okb a s0 && (okb b (apply_op s0 a) && all_ok post (apply_op (apply_op s0 a) b))).
      change (all_ok (b :: a :: post) s0) with
        (okb b s0 && (okb a (apply_op s0 b) && all_ok post (apply_op (apply_op s0 b) a))).
      change (run_ops (a :: b :: post) s0) with (run_ops post (apply_op (apply_op s0 a) b)).
      change (run_ops (b :: a :: post) s0) with (run_ops post (apply_op (apply_op s0 b) a)).
      rewrite (andb_assoc (okb a s0)), (andb_assoc (okb b s0)), <- Hacc.
      destruct (okb a s0 && okb b (apply_op s0 a)) eqn:A.
      + specialize (Heq eq_refl).
        destruct (run_cong post _ _ Cpost
                    (P_step _ _ Cb (P_step _ _ Ca P0)) (P_step _ _ Ca (P_step _ _ Cb P0)) Heq) as [H1 H2].
        rewrite H1. split; [reflexivity | intros _; exact H2].
      + cbn [andb]. rewrite !andb_false_r. split; [reflexivity | discriminate].
    - destruct (IH12 HC s Ps) as (C2 & A12 & E12).
      destruct (IH23 C2 s Ps) as (C3 & A23 & E23).
      split; [exact C3|]. split; [congruence|].
      intros Hok. eapply E_trans; [apply E12; exact Hok | apply E23; congruence].
  Qed.
End Swaps.

(* ------------------------------------------------------------------------------------------ *)
(* 9. where the faithful model does NOT commute: witnesses (all replayed on the real code)     *)
(* ------------------------------------------------------------------------------------------ *)
Definition refutes (w : list op) (r1 r2 : op) (v : verdict) : Prop :=
  let s := run_ops w (init_st 3) in
  all_ok w (init_st 3) = true /\ inv_b s = true /\
  match issuer r1 with Some c => running_step c s = true | None => True end /\
  match issuer r2 with Some c => running_step c s = true | None => True end /\
  both_orders r1 r2 s = v.

(* A stale VOLATILE node (output of a step the plan no longer defines; deleted only at the end
   of the build) refuses to be an input; once another step has declared the path static it is
   accepted.  Both issuers are attached and running. *)
Lemma stale_volatile_input_refuted :
  refutes w_stale_volatile_input w_stale_volatile_input_r1 w_stale_volatile_input_r2 VDiffSuccess /\
  attached (KStep, [97]) (run_ops w_stale_volatile_input (init_st 3)) = true.
Proof. vm_compute. repeat split; reflexivity. Qed.

(* The stale output edge u -> f of a dropped step takes part in the cycle check of an amended
   input f until somebody re-declares f. *)
Lemma stale_output_cycle_refuted :
  refutes w_stale_output_cycle w_stale_output_cycle_r1 w_stale_output_cycle_r2 VDiffSuccess.
Proof. vm_compute. repeat split; reflexivity. Qed.

(* Re-defining a stale step identically brings back its whole subtree, including a step u that
   builds f: static(f) is accepted before and refused after. *)
Lemma recycle_subtree_refuted :
  refutes w_recycle_subtree w_recycle_subtree_r1 w_recycle_subtree_r2 VDiffSuccess.
Proof. vm_compute. repeat split; reflexivity. Qed.

(* A running step whose creator is being rerun is detached; what it declares is detached too and
   can be taken away by the next declaration of the same path. *)
Lemma detached_creator_static_static_refuted :
  refutes w_detached_creator_static_static w_detached_creator_static_static_r1
          w_detached_creator_static_static_r2 VDiffSuccess /\
  attached (KStep, [97]) (run_ops w_detached_creator_static_static (init_st 3)) = false.
Proof. vm_compute. repeat split; reflexivity. Qed.

(* Both accepted in both orders, different graphs: the output f of a stale step s keeps its
   PLANNED row and the edge s -> f when an amended input reuses the node before s is redefined
   with another signature, and is reset to UNDECLARED in the other order. *)
Lemma stale_partial_recycle_refuted :
  refutes w_stale_partial_recycle w_stale_partial_recycle_r1 w_stale_partial_recycle_r2 VDiffGraph.
Proof. vm_compute. repeat split; reflexivity. Qed.

(* hash result versus declaration of the SAME path (excluded from hash_result_commutes): a
   confirmation that arrives before the path is re-declared is overwritten by UNCONFIRMED ... *)
Lemma confirm_vs_static_same_path_refuted :
  refutes w_confirm_vs_static_same_path w_confirm_vs_static_same_path_r1
          w_confirm_vs_static_same_path_r2 VDiffGraph.
Proof. vm_compute. repeat split; reflexivity. Qed.
(* ... harmless: the declaration returns the path in to_check, and the confirmation that follows
   it makes the two graphs equal again. *)
Lemma confirm_vs_static_same_path_converges :
  let s := run_ops w_confirm_vs_static_same_path (init_st 3) in
  let r1 := w_confirm_vs_static_same_path_r1 in let r2 := w_confirm_vs_static_same_path_r2 in
  st_equivb (apply_op (apply_op (apply_op s r1) r2) r1) (apply_op (apply_op s r2) r1) = true.
Proof. vm_compute. reflexivity. Qed.

(* ------------------------------------------------------------------------------------------ *)
(* 10. hash_result_commutes: one CONFIRMED hash result (run_hash_job applies one path per      *)
(*     transaction) against another one on a different path                                    *)
(* Fragment: no consumer of the confirmed path is SUCCEEDED or FAILED ("calm"), so that the    *)
(* completion does not start a propagation through built outputs.                              *)
(* ------------------------------------------------------------------------------------------ *)
Definition calm_step (l : str) (s : st) : bool :=
  match sstate_of l s with Some SPending | Some SRunning | Some SChecking => true | _ => false end.
Definition calm_path (p : str) (s : st) : bool :=
  forallb (fun l => calm_step l s) (step_sinks_of_file p s).

Definition norm_view (v : option (sstate * need * bool * N * N)) :=
  match v with
  | Some (SPending, nd, _, dc, _) => Some (SPending, nd, false, dc, 0)
  | _ => v
  end.

Lemma step_view_upd_set l' l f s :
  (forall r, sl (f r) = sl r) ->
  step_view l' (upd_step l f s) =
  if str_eqb l' l then match find_step l' s with
                       | Some r => Some (sst (f r), sneed (f r), sdef (f r), sdc (f r), shold (f r))
                       | None => None end
  else step_view l' s.
Proof.
  intros Hf. unfold step_view, find_step, upd_step. cbn [steps set_steps].
  rewrite find_map_same.
  2:{ intros x. destruct (str_eqb (sl x) l); [rewrite Hf|]; reflexivity. }
  destruct (find (fun r => str_eqb (sl r) l') (steps s)) as [r|] eqn:F; cbn [option_map].
  - apply find_some in F as [_ F]. apply str_eqb_eq in F. rewrite F.
    destruct (str_eqb l' l); reflexivity.
  - destruct (str_eqb l' l); reflexivity.
Qed.

Lemma sstate_of_view l s : sstate_of l s = match step_view l s with Some (st0, _, _, _, _) => Some st0 | None => None end.
Proof. unfold sstate_of, step_view. destruct (find_step l s); reflexivity. Qed.

Record only_steps (s s' : st) : Prop := mkOS {
  os_nodes : nodes s' = nodes s; os_files : files s' = files s; os_deps : deps s' = deps s;
  os_shash : shash s' = shash s; os_envs : envs s' = envs s; os_cap : defer_cap s' = defer_cap s }.

Lemma msp_calm l s s' :
  calm_step l s = true -> mark_step_pending l s = Ok s' ->
  only_steps s s' /\
  (forall l', step_view l' s' = if str_eqb l' l then norm_view (step_view l' s) else step_view l' s).
Proof.
  unfold mark_step_pending, fuel_of, calm_step. cbn [mark_step_pending_f]. intros Hc H.
  destruct (sstate_of l s) as [[]|] eqn:E; try discriminate.
  - (* PENDING *)
    unfold set_sstate in H. unfold sstate_of in E.
    destruct (find_step l s) as [r|] eqn:F; [|discriminate]. inversion E as [E1].
    cbn in H. inversion H; subst s'; clear H. split; [constructor; reflexivity|].
    intros l'. rewrite step_view_upd_set by reflexivity. cbn [sst sneed sdef sdc shold].
    destruct (str_eqb l' l) eqn:EL; [|reflexivity].
    apply str_eqb_eq in EL. subst l'. unfold step_view. rewrite F, E1. reflexivity.
  - (* RUNNING *)
    inversion H; subst s'. split; [constructor; reflexivity|].
    intros l'. destruct (str_eqb l' l) eqn:EL; [|reflexivity].
    apply str_eqb_eq in EL. subst l'. rewrite sstate_of_view in E.
    destruct (step_view l s) as [[[[[st0 nd] d] dc] h]|]; [|discriminate]. inversion E; subst. reflexivity.
  - (* CHECKING *)
    inversion H; subst s'. split; [constructor; reflexivity|].
    intros l'. destruct (str_eqb l' l) eqn:EL; [|reflexivity].
    apply str_eqb_eq in EL. subst l'. rewrite sstate_of_view in E.
    destruct (step_view l s) as [[[[[st0 nd] d] dc] h]|]; [|discriminate]. inversion E; subst. reflexivity.
Qed.

Lemma norm_view_idem v : norm_view (norm_view v) = norm_view v.
Proof. destruct v as [[[[[[] nd] d] dc] h]|]; reflexivity. Qed.
Lemma norm_view_state v :
  match norm_view v with Some (st0, _, _, _, _) => Some st0 | None => None end =
  match v with Some (st0, _, _, _, _) => Some st0 | None => None end.
Proof. destruct v as [[[[[[] nd] d] dc] h]|]; reflexivity. Qed.

Lemma only_steps_trans a b c : only_steps a b -> only_steps b c -> only_steps a c.
Proof. intros [] []. constructor; congruence. Qed.

Lemma fold_msp_calm L : forall s s',
  forallb (fun l => calm_step l s) L = true ->
  foldM (fun s l => mark_step_pending l s) L s = Ok s' ->
  only_steps s s' /\
  (forall l', step_view l' s' = if mem_str l' L then norm_view (step_view l' s) else step_view l' s).
Proof.
  induction L as [|l L IH]; intros s s' Hc H.
  - cbn in H. inversion H; subst. split; [constructor; reflexivity | reflexivity].
  - cbn [foldM] in H. cbn [forallb] in Hc. apply andb_true_iff in Hc as [Hl HL].
    destruct (mark_step_pending l s) as [s1|t|t] eqn:M; cbn [bind] in H; try discriminate.
    destruct (msp_calm l s s1 Hl M) as [O1 V1].
    assert (HL1 : forallb (fun l0 => calm_step l0 s1) L = true).
    { rewrite forallb_forall in *. intros x Hx. specialize (HL x Hx). unfold calm_step in *.
      rewrite sstate_of_view in *. rewrite V1.
      destruct (str_eqb x l); [rewrite norm_view_state|]; exact HL. }
    destruct (IH s1 s' HL1 H) as [O2 V2]. split; [eapply only_steps_trans; eassumption|].
    intros l'. rewrite V2, V1. cbn [mem_str existsb]. fold (mem_str l' L).
    destruct (str_eqb l' l), (mem_str l' L); cbn [orb]; try reflexivity. apply norm_view_idem.
Qed.

(* one CONFIRMED hash result *)
Definition conf_file (old : option (fstate * option N)) (h : option N) : option (fstate * option N) :=
  match old with
  | Some (o, _) =>
    match transition CConfirmed o (is_some h) with
    | Some (ns, _) => Some (ns, if clears_hash o ns then None
                                else Some (match h with Some v => v | None => 0 end))
    | None => None
    end
  | None => None
  end.
Definition conf_acts (old : option (fstate * option N)) (h : option N) : bool :=
  match old with
  | Some (o, _) => match transition CConfirmed o (is_some h) with Some (_, Some _) => true | _ => false end
  | None => false
  end.

Record confirm_spec (p : str) (h : option N) (s s' : st) : Prop := mkCS {
  cs_nodes : nodes s' = nodes s; cs_deps : deps s' = deps s; cs_shash : shash s' = shash s;
  cs_envs : envs s' = envs s; cs_cap : defer_cap s' = defer_cap s;
  cs_file : forall l, file_view l s' = if str_eqb l p then conf_file (file_view p s) h else file_view l s;
  cs_step : forall l, step_view l s' =
                      if conf_acts (file_view p s) h && mem_str l (step_sinks_of_file p s)
                      then norm_view (step_view l s) else step_view l s }.

Lemma calm_path_steps s1 s2 p :
  deps s1 = deps s2 -> (forall l, step_view l s1 = step_view l s2) -> calm_path p s1 = calm_path p s2.
Proof.
  intros Ed Es. unfold calm_path. rewrite (sinks_of_deps _ _ p Ed).
  induction (step_sinks_of_file p s2) as [|l L IH]; cbn; [reflexivity|].
  rewrite IH. f_equal. unfold calm_step. rewrite !sstate_of_view, Es. reflexivity.
Qed.

Lemma confirm_one_spec p h s s' :
  update_file_hashes CConfirmed [(p, h)] s = Ok s' -> calm_path p s = true -> confirm_spec p h s s'.
Proof.
  unfold update_file_hashes. cbn [foldM fst snd bind]. intros H Hcalm.
  destruct (find_file p s) as [r|] eqn:F; [|discriminate].
  destruct (transition CConfirmed (fstt r) (is_some h)) as [[ns act]|] eqn:T; [|discriminate].
  cbn [bind app foldM p_path p_state p_hash] in H.
  unfold set_fstate_hash in H. rewrite F in H.
  assert (NH : needs_hash ns && match (match h with Some v => Some v | None => Some 0 end : option N) with
                               | None => true | Some _ => false end = false).
  { destruct h; rewrite andb_false_r; reflexivity. }
  rewrite NH in H.
  assert (NU : fstate_eqb ns FUndeclared = false).
  { destruct (fstt r), (is_some h); cbn in T; inversion T; reflexivity. }
  rewrite NU in H. cbn [andb bind] in H.
  set (hv := if clears_hash (fstt r) ns then None else (match h with Some v => Some v | None => Some 0 end)) in *.
  set (s1 := upd_file p (fun r0 => mkF (fl r0) ns hv) s) in *.
  assert (FV : forall l, file_view l s1 = if str_eqb l p then conf_file (file_view p s) h else file_view l s).
  { intros l. unfold s1. rewrite file_view_upd_set.
    destruct (str_eqb l p) eqn:E; [|reflexivity]. apply str_eqb_eq in E. subst l.
    unfold conf_file, file_view. rewrite F, T. unfold hv. destruct h; reflexivity. }
  assert (ACT : conf_acts (file_view p s) h = is_some act).
  { unfold conf_acts, file_view. rewrite F, T. destruct act; reflexivity. }
  assert (CP1 : calm_path p s1 = true) by (rewrite (calm_path_steps s1 s p); [exact Hcalm|reflexivity|reflexivity]).
  assert (FS1 : fstate_of p s1 = Some ns).
  { unfold fstate_of. pose proof (FV p) as Q. rewrite str_eqb_refl in Q. unfold file_view in Q.
    destruct (find_file p s1) as [r1|].
    - unfold conf_file in Q. unfold file_view in Q. rewrite F, T in Q. inversion Q. reflexivity.
    - unfold conf_file, file_view in Q. rewrite F, T in Q. discriminate. }
  assert (NP : ns <> FPlanned).
  { destruct (fstt r), (is_some h); cbn in T; inversion T; discriminate. }
  destruct act as [[]|]; cbn [p_act action_eqb filter map foldM bind p_path] in H.
  - (* AUpdated: not produced by a CONFIRMED transition *)
    exfalso. destruct (fstt r), (is_some h); cbn in T; inversion T.
  - (* ADeleted *)
    unfold handle_deleted_file in H. rewrite FS1 in H.
    assert (H' : mark_consumers_pending p s1 = Ok s').
    { destruct ns; try (exfalso; apply NP; reflexivity); cbn [bind] in H;
        (destruct (mark_consumers_pending p s1); cbn [bind] in H; [exact H | discriminate | discriminate]). }
    clear H. unfold mark_consumers_pending in H'.
    apply fold_msp_calm in H' as [O V]; [|exact CP1]. destruct O.
    constructor;
      [rewrite os_nodes0; reflexivity | rewrite os_deps0; reflexivity | rewrite os_shash0; reflexivity
      | rewrite os_envs0; reflexivity | rewrite os_cap0; reflexivity | | ].
    + intros l. rewrite (view_of_files _ _ os_files0). apply FV.
    + intros l. rewrite V, ACT. cbn [is_some andb]. reflexivity.
  - (* ACompleted *)
    cbn [bind] in H.
    destruct (mark_consumers_pending p s1) as [s2|t|t] eqn:M; cbn [bind] in H; try discriminate.
    inversion H; subst s2; clear H. unfold mark_consumers_pending in M.
    apply fold_msp_calm in M as [O V]; [|exact CP1]. destruct O.
    constructor;
      [rewrite os_nodes0; reflexivity | rewrite os_deps0; reflexivity | rewrite os_shash0; reflexivity
      | rewrite os_envs0; reflexivity | rewrite os_cap0; reflexivity | | ].
    + intros l. rewrite (view_of_files _ _ os_files0). apply FV.
    + intros l. rewrite V, ACT. cbn [is_some andb]. reflexivity.
  - (* no action *)
    inversion H; subst s'; clear H.
    constructor; try reflexivity.
    + exact FV.
    + intros l. rewrite ACT. reflexivity.
Qed.

Lemma calm_after_confirm p h s s' q :
  confirm_spec p h s s' -> calm_path q s' = calm_path q s.
Proof.
  intros []. unfold calm_path. rewrite (sinks_of_deps _ _ q cs_deps0).
  induction (step_sinks_of_file q s) as [|l L IH]; cbn; [reflexivity|].
  rewrite IH. f_equal. unfold calm_step. rewrite !sstate_of_view, cs_step0.
  destruct (conf_acts (file_view p s) h && mem_str l (step_sinks_of_file p s));
    [rewrite norm_view_state|]; reflexivity.
Qed.

Theorem hash_result_commutes (s sa sb s12 s21 : st) (p1 p2 : str) (h1 h2 : option N) :
  p1 <> p2 -> calm_path p1 s = true -> calm_path p2 s = true ->
  step_op (OpUpdateHashes CConfirmed [(p1, h1)]) s = Ok sa ->
  step_op (OpUpdateHashes CConfirmed [(p2, h2)]) sa = Ok s12 ->
  step_op (OpUpdateHashes CConfirmed [(p2, h2)]) s = Ok sb ->
  step_op (OpUpdateHashes CConfirmed [(p1, h1)]) sb = Ok s21 ->
  st_equiv s12 s21.
Proof.
  cbn [step_op]. intros Hne C1 C2 R1 R12 R2 R21.
  apply confirm_one_spec in R1; [|exact C1].
  apply confirm_one_spec in R2; [|exact C2].
  apply confirm_one_spec in R12; [|rewrite (calm_after_confirm _ _ _ _ p2 R1); exact C2].
  apply confirm_one_spec in R21; [|rewrite (calm_after_confirm _ _ _ _ p1 R2); exact C1].
  destruct R1, R2, R12, R21.
  assert (N12 : str_eqb p2 p1 = false) by (apply str_eqb_neq; congruence).
  assert (N21 : str_eqb p1 p2 = false) by (apply str_eqb_neq; congruence).
  constructor.
  - intros k. apply view_of_nodes. congruence.
  - intros l. rewrite cs_file2, cs_file3, !cs_file0, !cs_file1, N12, N21.
    destruct (str_eqb l p2) eqn:E2, (str_eqb l p1) eqn:E1; try reflexivity.
    apply str_eqb_eq in E1, E2. congruence.
  - intros l. rewrite cs_step2, cs_step3, !cs_file0, !cs_file1, N12, N21.
    rewrite (sinks_of_deps sa s p2 cs_deps0), (sinks_of_deps sb s p1 cs_deps1).
    rewrite cs_step0, cs_step1.
    destruct (conf_acts (file_view p2 s) h2 && mem_str l (step_sinks_of_file p2 s)),
             (conf_acts (file_view p1 s) h1 && mem_str l (step_sinks_of_file p1 s)); reflexivity.
  - intros a b. apply view_of_deps. congruence.
  - intros l. apply view_of_shash. congruence.
  - intros l nm. unfold find_env. replace (envs s12) with (envs s21) by congruence. reflexivity.
  - congruence.
Qed.

(* ------------------------------------------------------------------------------------------ *)
(* 11. a CONFIRMED hash result against a static declaration that does not mention its path     *)
(* ------------------------------------------------------------------------------------------ *)
Lemma calm_path_same s1 s2 p :
  step_sinks_of_file p s1 = step_sinks_of_file p s2 ->
  (forall l, step_view l s1 = step_view l s2) -> calm_path p s1 = calm_path p s2.
Proof.
  intros Ed Es. unfold calm_path. rewrite Ed. clear Ed.
  induction (step_sinks_of_file p s2) as [|l L IH]; cbn; [reflexivity|].
  rewrite IH. f_equal. unfold calm_step. rewrite !sstate_of_view, Es. reflexivity.
Qed.
Lemma step_view_of_steps s1 s2 : steps s1 = steps s2 -> forall l, step_view l s1 = step_view l s2.
Proof. intros E l. unfold step_view, find_step. rewrite E. reflexivity. Qed.
Lemma nfc_of_nodes s1 s2 : nodes s1 = nodes s2 -> no_file_creator_b s1 = no_file_creator_b s2.
Proof. intros E. unfold no_file_creator_b. rewrite E. reflexivity. Qed.

Theorem confirm_static_commute (s sa sb s12 s21 : st) (p : str) (h : option N) (c : key) (ps : list str) :
  no_file_creator_b s = true -> not_file c -> NoDup ps -> ~ In p ps -> calm_path p s = true ->
  step_op (OpUpdateHashes CConfirmed [(p, h)]) s = Ok sa -> step_op (OpDeclareStatic c ps) sa = Ok s12 ->
  step_op (OpDeclareStatic c ps) s = Ok sb -> step_op (OpUpdateHashes CConfirmed [(p, h)]) sb = Ok s21 ->
  st_equiv s12 s21.
Proof.
  cbn [step_op]. intros Hnfc Hc ND Hp Calm R1 R12 R2 R21.
  apply confirm_one_spec in R1; [|exact Calm]. destruct R1.
  apply static_request_spec in R12 as [S12 _]; try assumption;
    [|rewrite (nfc_of_nodes _ _ cs_nodes0); exact Hnfc].
  apply static_request_spec in R2 as [S2 _]; try assumption.
  assert (Hneq : forall l, In l ps -> str_eqb l p = false).
  { intros l Hl. apply str_eqb_neq. intros ->. contradiction. }
  assert (ET : filter (newb c sa) ps = filter (newb c s) ps).
  { apply filter_ext_in. intros l Hl. unfold newb.
    rewrite (check_declaration_view c l 61 sa s); [reflexivity| |].
    - apply view_of_nodes. exact cs_nodes0.
    - rewrite cs_file0, (Hneq _ Hl). reflexivity. }
  rewrite ET in S12. set (T := filter (newb c s) ps) in *.
  assert (HpT : mem_str p T = false).
  { apply mem_str_false. intros HI. apply filter_In in HI as [HI _]. contradiction. }
  assert (HTp : forall l, mem_str l T = true -> str_eqb l p = false).
  { intros l M. apply Hneq. eapply mem_filter_sub. exact M. }
  destruct S2.
  apply confirm_one_spec in R21.
  2:{ rewrite (calm_path_same sb s p); [exact Calm | apply sd_sinks0 | apply step_view_of_steps; exact sd_steps0]. }
  destruct R21, S12.
  assert (FVp : file_view p sb = file_view p s) by (rewrite sd_file0, HpT; reflexivity).
  constructor.
  - intros k. rewrite sd_node1, (view_of_nodes _ _ cs_nodes1), sd_node0.
    rewrite (view_of_nodes _ _ cs_nodes0 k), !is_detached_view, (view_of_nodes _ _ cs_nodes0 c). reflexivity.
  - intros l. rewrite sd_file1, cs_file1, FVp, cs_file0, sd_file0.
    destruct (mem_str l T) eqn:M.
    + rewrite (HTp _ M). rewrite !hh_view, cs_file0, (HTp _ M). reflexivity.
    + reflexivity.
  - intros l. rewrite (step_view_of_steps _ _ sd_steps1), cs_step0, cs_step1, FVp, sd_sinks0.
    rewrite (step_view_of_steps _ _ sd_steps0). reflexivity.
  - intros a b. rewrite sd_dep1, (view_of_deps _ _ cs_deps1), sd_dep0.
    rewrite (view_of_deps _ _ cs_deps0), !existsn_view, (view_of_nodes _ _ cs_nodes0). reflexivity.
  - intros x. rewrite sd_hash1, (view_of_shash _ _ cs_shash1), sd_hash0, (view_of_shash _ _ cs_shash0).
    f_equal. f_equal. apply existsb_ext_in. intros y _. rewrite !lostb_view, (view_of_nodes _ _ cs_nodes0).
    reflexivity.
  - intros l nm. unfold find_env. rewrite sd_envs1, cs_envs1, sd_envs0, cs_envs0. reflexivity.
  - congruence.
Qed.

(* ------------------------------------------------------------------------------------------ *)
(* 12. st_equiv implies equality of the canonical dumps (GraphDump.dump_eqb) when keys are     *)
(*     unique in both states                                                                   *)
(* ------------------------------------------------------------------------------------------ *)
Section Bridge.
  Context {A K V : Type}.
  Variable key : A -> K.
  Variable keqb : K -> K -> bool.
  Variable veqb : V -> V -> bool.
  Hypothesis keqb_spec : forall a b, keqb a b = true <-> a = b.
  Hypothesis veqb_refl : forall v, veqb v v = true.

  Lemma nodup_by_NoDup (l : list K) : nodup_by keqb l = true -> NoDup l.
  Proof.
    induction l as [|x l IH]; cbn; intros H; [constructor|].
    apply andb_true_iff in H as [H1 H2]. constructor; [|apply IH; exact H2].
    intros HI. apply negb_true_iff in H1.
    assert (existsb (keqb x) l = true).
    { apply existsb_exists. exists x. split; [exact HI | apply keqb_spec; reflexivity]. }
    congruence.
  Qed.

  Lemma find_self (l : list A) x :
    nodup_by keqb (map key l) = true -> In x l -> find (fun y => keqb (key y) (key x)) l = Some x.
  Proof.
    induction l as [|y l IH]; cbn; intros H HI; [contradiction|].
    apply andb_true_iff in H as [H1 H2].
    destruct HI as [->|HI].
    - assert (E : keqb (key x) (key x) = true) by (apply keqb_spec; reflexivity). rewrite E. reflexivity.
    - destruct (keqb (key y) (key x)) eqn:E.
      + exfalso. apply keqb_spec in E. apply negb_true_iff in H1.
        assert (existsb (keqb (key y)) (map key l) = true).
        { apply existsb_exists. exists (key x). split; [apply in_map; exact HI | apply keqb_spec; exact E]. }
        congruence.
      + apply IH; assumption.
  Qed.

  (* rows of l1 (dumped by d1) and of l2 (dumped by d2) with the same key have the same dump *)
  Definition same_rows (d1 d2 : A -> V) (l1 l2 : list A) : Prop :=
    forall k, option_map d1 (find (fun y => keqb (key y) k) l1) =
              option_map d2 (find (fun y => keqb (key y) k) l2).

  Lemma incl_dumps d1 d2 l1 l2 :
    nodup_by keqb (map key l1) = true -> same_rows d1 d2 l1 l2 ->
    forall x, In x l1 -> exists y, In y l2 /\ d2 y = d1 x.
  Proof.
    intros N1 Hs x Hx. specialize (Hs (key x)). rewrite (find_self l1 x N1 Hx) in Hs. cbn in Hs.
    destruct (find (fun y => keqb (key y) (key x)) l2) as [y|] eqn:F; [|discriminate].
    apply find_some in F as [Fy _]. exists y. split; [exact Fy|]. cbn in Hs. congruence.
  Qed.

  Lemma set_eqb_of_same_rows d1 d2 l1 l2 :
    (forall x y, d1 x = d2 y -> key x = key y) ->
    nodup_by keqb (map key l1) = true -> nodup_by keqb (map key l2) = true ->
    same_rows d1 d2 l1 l2 -> set_eqb veqb (map d1 l1) (map d2 l2) = true.
  Proof.
    intros DK N1 N2 Hs.
    assert (Hs' : same_rows d2 d1 l2 l1) by (intros k; symmetry; apply Hs).
    pose proof (incl_dumps d1 d2 l1 l2 N1 Hs) as I12. pose proof (incl_dumps d2 d1 l2 l1 N2 Hs') as I21.
    unfold set_eqb. rewrite !map_length. repeat (apply andb_true_iff; split).
    - apply Nat.eqb_eq. apply Nat.le_antisymm.
      + rewrite <- (map_length key l1), <- (map_length key l2).
        apply NoDup_incl_length; [apply nodup_by_NoDup; exact N1|].
        intros k Hk. apply in_map_iff in Hk as [x [<- Hx]]. destruct (I12 x Hx) as [y [Hy E]].
        rewrite (DK x y (eq_sym E)). apply in_map. exact Hy.
      + rewrite <- (map_length key l1), <- (map_length key l2).
        apply NoDup_incl_length; [apply nodup_by_NoDup; exact N2|].
        intros k Hk. apply in_map_iff in Hk as [x [<- Hx]]. destruct (I21 x Hx) as [y [Hy E]].
        rewrite <- (DK y x E). apply in_map. exact Hy.
    - apply forallb_forall. intros v Hv. apply in_map_iff in Hv as [x [<- Hx]].
      destruct (I12 x Hx) as [y [Hy E]]. apply existsb_exists. exists (d2 y).
      split; [apply in_map; exact Hy | rewrite E; apply veqb_refl].
    - apply forallb_forall. intros v Hv. apply in_map_iff in Hv as [x [<- Hx]].
      destruct (I21 x Hx) as [y [Hy E]]. apply existsb_exists. exists (d1 y).
      split; [apply in_map; exact Hy | rewrite E; apply veqb_refl].
  Qed.
End Bridge.

Lemma existsb_map_key {A K} (key : A -> K) (p : K -> bool) l :
  existsb (fun b => p (key b)) l = existsb p (map key l).
Proof. induction l as [|x l IH]; cbn; [reflexivity|]. rewrite IH. reflexivity. Qed.
Lemma nodup_by_map {A K} (key : A -> K) (keqb : K -> K -> bool) l :
  nodup_by (fun a b => keqb (key a) (key b)) l = nodup_by keqb (map key l).
Proof.
  induction l as [|x l IH]; cbn; [reflexivity|]. rewrite IH.
  rewrite (existsb_map_key key (keqb (key x))). reflexivity.
Qed.

Definition kk_eqb (a b : key * key) : bool := key_eqb (fst a) (fst b) && key_eqb (snd a) (snd b).
Definition ss_eqb (a b : str * str) : bool := str_eqb (fst a) (fst b) && str_eqb (snd a) (snd b).
Lemma kk_eqb_spec a b : kk_eqb a b = true <-> a = b.
Proof.
  destruct a, b. unfold kk_eqb. cbn. rewrite andb_true_iff, !key_eqb_eq. split.
  - intros [-> ->]. reflexivity.
  - intros H. inversion H. auto.
Qed.
Lemma ss_eqb_spec a b : ss_eqb a b = true <-> a = b.
Proof.
  destruct a, b. unfold ss_eqb. cbn. rewrite andb_true_iff, !str_eqb_eq. split.
  - intros [-> ->]. reflexivity.
  - intros H. inversion H. auto.
Qed.

Lemma okey_eqb_refl c : okey_eqb c c = true.
Proof. destruct c; cbn; [apply key_eqb_refl | reflexivity]. Qed.
Lemma on_eqb_refl h : on_eqb h h = true.
Proof. destruct h; cbn; [apply N.eqb_refl | reflexivity]. Qed.
Lemma dnode_eqb_refl v : dnode_eqb v v = true.
Proof. destruct v as [[k c] d]. cbn. rewrite key_eqb_refl, okey_eqb_refl, Bool.eqb_reflx. reflexivity. Qed.
Lemma dfile_eqb_refl v : dfile_eqb v v = true.
Proof. destruct v as [[l c] h]. cbn. rewrite str_eqb_refl, N.eqb_refl, on_eqb_refl. reflexivity. Qed.
Lemma dstep_eqb_refl v : dstep_eqb v v = true.
Proof.
  destruct v as [[[[[[l a] b] c] d] e] f]. cbn.
  rewrite str_eqb_refl, !N.eqb_refl, !Bool.eqb_reflx. reflexivity.
Qed.
Lemma ddep_eqb_refl v : ddep_eqb v v = true.
Proof. destruct v as [[a b] d]. cbn. rewrite !key_eqb_refl, Bool.eqb_reflx. reflexivity. Qed.
Lemma denv_eqb_refl v : denv_eqb v v = true.
Proof. destruct v as [[a b] d]. cbn. rewrite !str_eqb_refl, Bool.eqb_reflx. reflexivity. Qed.

Theorem st_equiv_dump_eqb s1 s2 :
  st_equiv s1 s2 -> uniq_b s1 = true -> uniq_b s2 = true -> st_equivb s1 s2 = true.
Proof.
  intros E U1 U2. destruct E. unfold uniq_b in U1, U2.
  repeat (apply andb_true_iff in U1 as [U1 ?]). repeat (apply andb_true_iff in U2 as [U2 ?]).
  unfold st_equivb, dump_eqb, dump_of.
  cbn [d_nodes d_files d_steps d_deps d_shash d_envs].
  apply andb_true_iff; split; [apply andb_true_iff; split; [apply andb_true_iff; split;
    [apply andb_true_iff; split; [apply andb_true_iff; split|]|]|]|].
  - (* nodes *)
    apply (set_eqb_of_same_rows nk key_eqb dnode_eqb key_eqb_eq dnode_eqb_refl); try assumption.
    + intros x y E. inversion E. reflexivity.
    + intros k. specialize (eq_node k). unfold node_view, find_node in eq_node.
      destruct (find (fun n => key_eqb (nk n) k) (nodes s1)) as [n1|] eqn:F1,
               (find (fun n => key_eqb (nk n) k) (nodes s2)) as [n2|] eqn:F2; cbn; try discriminate; [|reflexivity].
      apply find_some in F1 as [_ F1]. apply find_some in F2 as [_ F2].
      apply key_eqb_eq in F1, F2. inversion eq_node. congruence.
  - (* files *)
    apply (set_eqb_of_same_rows fl str_eqb dfile_eqb str_eqb_eq dfile_eqb_refl); try assumption.
    + intros x y E. inversion E. reflexivity.
    + intros k. specialize (eq_file k). unfold file_view, find_file in eq_file.
      destruct (find (fun r => str_eqb (fl r) k) (files s1)) as [n1|] eqn:F1,
               (find (fun r => str_eqb (fl r) k) (files s2)) as [n2|] eqn:F2; cbn; try discriminate; [|reflexivity].
      apply find_some in F1 as [_ F1]. apply find_some in F2 as [_ F2].
      apply str_eqb_eq in F1, F2. inversion eq_file. congruence.
  - (* steps: the dump also carries has_hash of the row's label *)
    apply (set_eqb_of_same_rows sl str_eqb dstep_eqb str_eqb_eq dstep_eqb_refl); try assumption.
    + intros x y E. inversion E. reflexivity.
    + intros k. specialize (eq_step k). unfold step_view, find_step in eq_step.
      destruct (find (fun r => str_eqb (sl r) k) (steps s1)) as [n1|] eqn:F1,
               (find (fun r => str_eqb (sl r) k) (steps s2)) as [n2|] eqn:F2; cbn; try discriminate; [|reflexivity].
      apply find_some in F1 as [_ F1]. apply find_some in F2 as [_ F2].
      apply str_eqb_eq in F1, F2. inversion eq_step. rewrite F1, F2, eq_hash. congruence.
  - (* deps *)
    apply (set_eqb_of_same_rows (fun d => (dsrc d, dsnk d)) kk_eqb ddep_eqb kk_eqb_spec ddep_eqb_refl).
    + intros x y E. inversion E. reflexivity.
    + rewrite <- nodup_by_map. assumption.
    + rewrite <- nodup_by_map. assumption.
    + intros [a b]. specialize (eq_dep a b). unfold find_dep in eq_dep. unfold kk_eqb. cbn [fst snd].
      destruct (find (fun d => key_eqb (dsrc d) a && key_eqb (dsnk d) b) (deps s1)) as [n1|] eqn:F1,
               (find (fun d => key_eqb (dsrc d) a && key_eqb (dsnk d) b) (deps s2)) as [n2|] eqn:F2;
        cbn; try discriminate; [|reflexivity].
      apply find_some in F1 as [_ F1]. apply find_some in F2 as [_ F2].
      apply andb_true_iff in F1 as [A1 B1]. apply andb_true_iff in F2 as [A2 B2].
      apply key_eqb_eq in A1, B1, A2, B2. inversion eq_dep. congruence.
  - (* stored hashes *)
    rewrite <- (map_id (shash s1)), <- (map_id (shash s2)).
    apply (set_eqb_of_same_rows (fun x : str => x) str_eqb str_eqb str_eqb_eq str_eqb_refl).
    + intros x y E. exact E.
    + rewrite map_id. assumption.
    + rewrite map_id. assumption.
    + intros k. specialize (eq_hash k). unfold has_hash in eq_hash.
      assert (Q : forall l, option_map (fun x : str => x) (find (fun y => str_eqb y k) l) =
                            if existsb (str_eqb k) l then Some k else None).
      { induction l as [|y l IH]; cbn; [reflexivity|]. rewrite (str_eqb_sym k y).
        destruct (str_eqb y k) eqn:E; cbn; [apply str_eqb_eq in E; congruence | exact IH]. }
      rewrite !Q, eq_hash. reflexivity.
  - (* env rows *)
    apply (set_eqb_of_same_rows (fun e => (estep e, ename e)) ss_eqb denv_eqb ss_eqb_spec denv_eqb_refl).
    + intros x y E. inversion E. reflexivity.
    + rewrite <- nodup_by_map. assumption.
    + rewrite <- nodup_by_map. assumption.
    + intros [a b]. specialize (eq_env a b). unfold find_env in eq_env. unfold ss_eqb. cbn [fst snd].
      destruct (find (fun e => str_eqb (estep e) a && str_eqb (ename e) b) (envs s1)) as [n1|] eqn:F1,
               (find (fun e => str_eqb (estep e) a && str_eqb (ename e) b) (envs s2)) as [n2|] eqn:F2;
        cbn; try discriminate; [|reflexivity].
      apply find_some in F1 as [_ F1]. apply find_some in F2 as [_ F2].
      apply andb_true_iff in F1 as [A1 B1]. apply andb_true_iff in F2 as [A2 B2].
      apply str_eqb_eq in A1, B1, A2, B2. inversion eq_env. congruence.
Qed.

(* ------------------------------------------------------------------------------------------ *)
(* 13. when is a static declaration accepted?  (converse of the look-up characterisation)      *)
(* ------------------------------------------------------------------------------------------ *)
(* the part of inv_b that excludes the internal-error branches of Trellis.create on a file:
   a file node has a file row; without creator it is detached; its creator is not a file, and
   when the node is detached the creator is a detached step or tree *)
Definition fnode_ok (s : st) (l : str) : Prop :=
  match node_view (KFile, l) s with
  | None => True
  | Some (cre, det) =>
    is_some (file_view l s) = true /\
    match cre with
    | None => det = true
    | Some oc => det = true -> is_detached oc s = true /\ (fst oc = KStep \/ fst oc = KTree)
    end
  end.
Definition Pst (s : st) : Prop := no_file_creator_b s = true /\ forall l, fnode_ok s l.

Lemma file_init_unconfirmed_ok l s : exists s', file_initialize_row l FUnconfirmed s = Ok s'.
Proof.
  unfold file_initialize_row. destruct (find_file l s) as [r|] eqn:F.
  - unfold set_fstate, set_fstate_hash. rewrite F. cbn. eexists. reflexivity.
  - cbn. eexists. reflexivity.
Qed.

Lemma claim_none_detached l s n :
  fnode_ok s l -> find_node (KFile, l) s = Some n -> existing_claim l s = Ok None -> ndet n = true.
Proof.
  unfold fnode_ok, existing_claim, node_view, file_view. intros Hok F. rewrite F in *.
  destruct Hok as [Hrow Hcre]. destruct (find_file l s) as [r|]; [|discriminate].
  destruct (ndet n) eqn:D; [reflexivity|]. intros H.
  destruct (ncre n) as [oc|]; [|discriminate].
  destruct (role_of (fstt r)); discriminate.
Qed.

Lemma declare_file_unconfirmed_ok (c : key) l s :
  Pst s -> fst c = KStep -> existsn c s = true -> existing_claim l s = Ok None ->
  exists s', declare_file c l FUnconfirmed s = Ok s'.
Proof.
  intros [Hnfc Hok] Hk Hex Hcl. unfold declare_file. rewrite create_split. cbn [snd].
  assert (HC : exists s1, create (KFile, l) (Some c) InitTree s = Ok s1).
  { unfold create, creator_ok. unfold existsn in Hex. rewrite Hex. cbn [negb].
    assert (E : key_eqb c (KFile, l) = false).
    { apply key_eqb_neq. intros ->. discriminate. }
    rewrite E, Hk. cbn [fst creator_kind_ok negb bind]. rewrite bind_ok_r.
    destruct (find_node (KFile, l) s) as [n|] eqn:F; [|eexists; reflexivity].
    rewrite (claim_none_detached l s n (Hok l) F Hcl). cbn [negb].
    set (s0 := upd_node (KFile, l) (fun n0 => mkNode (nk n0) (Some c) (is_detached c s)) s).
    assert (Hnf : not_file c) by (unfold not_file; rewrite Hk; discriminate).
    assert (Hfin : forall s2, nodes s2 = nodes s0 -> products (KFile, l) s2 = []).
    { intros s2 E2. apply products_file_nil. unfold no_file_creator_b. rewrite E2.
      apply nfc_upd_node; assumption. }
    pose proof (Hok l) as Hl. unfold fnode_ok, node_view in Hl. rewrite F in Hl.
    destruct Hl as [_ Hcre].
    pose proof (claim_none_detached l s n (Hok l) F Hcl) as D.
    destruct (ncre n) as [oc|].
    - destruct (Hcre D) as [Hdet Hkind]. rewrite Hdet. cbn [negb].
      unfold after_lost_product. destruct oc as [ock ocl]. cbn [fst snd] in *.
      destruct Hkind as [-> | ->]; cbn [bind]; rewrite Hfin by reflexivity; cbn; eexists; reflexivity.
    - cbn [bind]. rewrite Hfin by reflexivity. cbn. eexists. reflexivity. }
  destruct HC as [s1 HC]. rewrite HC. cbn [bind].
  destruct (file_init_unconfirmed_ok l s1) as [s2 H2]. rewrite H2. cbn [bind]. eexists. reflexivity.
Qed.

Lemma existing_claim_view l s1 s2 :
  node_view (KFile, l) s1 = node_view (KFile, l) s2 -> file_view l s1 = file_view l s2 ->
  existing_claim l s1 = existing_claim l s2.
Proof.
  unfold existing_claim, node_view, file_view. intros Hn Hf.
  destruct (find_node (KFile, l) s1) as [n1|], (find_node (KFile, l) s2) as [n2|]; try discriminate;
    [|reflexivity].
  inversion Hn as [[Hc Hd]]. rewrite Hc, Hd.
  destruct (find_file l s1) as [r1|], (find_file l s2) as [r2|]; try discriminate; [|reflexivity].
  inversion Hf as [[Hs Hh]]. rewrite Hs. reflexivity.
Qed.

Lemma step_key_not_file (c : key) l : fst c = KStep -> key_eqb c (KFile, l) = false.
Proof. intros H. apply key_eqb_neq. intros ->. discriminate. Qed.
Lemma step_or_tree_not_file (oc : key) l : fst oc = KStep \/ fst oc = KTree -> key_eqb oc (KFile, l) = false.
Proof. intros H. apply key_eqb_neq. intros ->. destruct H; discriminate. Qed.

Lemma Pst_after_decl (c : key) l s s' : fst c = KStep -> Pst s -> decl_spec c l s s' -> Pst s'.
Proof.
  intros Hk [Hnfc Hok] []. split; [exact ds_nfc0|].
  assert (Hdc : is_detached c s' = is_detached c s).
  { rewrite !is_detached_view, ds_node0, (step_key_not_file c l Hk). reflexivity. }
  intros l0. unfold fnode_ok. rewrite ds_node0, ds_file0, file_key_eqb.
  destruct (str_eqb l0 l) eqn:E.
  - split; [reflexivity|]. intros D. rewrite Hdc. split; [exact D | left; exact Hk].
  - specialize (Hok l0). unfold fnode_ok in Hok.
    destruct (node_view (KFile, l0) s) as [[cre det]|]; [|exact I].
    destruct Hok as [Hrow Hcre]. split; [exact Hrow|].
    destruct cre as [oc|]; [|exact Hcre].
    intros D. destruct (Hcre D) as [Hd Hkind]. split; [|exact Hkind].
    rewrite is_detached_view, ds_node0, (step_or_tree_not_file oc l Hkind), <- is_detached_view. exact Hd.
Qed.

Lemma fold_decl_ok (c : key) T : forall s,
  NoDup T -> Pst s -> fst c = KStep -> existsn c s = true ->
  (forall l, In l T -> existing_claim l s = Ok None) ->
  exists s', foldM (fun s l => declare_file c l FUnconfirmed s) T s = Ok s'.
Proof.
  induction T as [|l T IH]; intros s ND HP Hk Hex Hall; cbn [foldM]; [eexists; reflexivity|].
  inversion ND as [|? ? Hnotin ND']; subst.
  destruct (declare_file_unconfirmed_ok c l s HP Hk Hex (Hall l (or_introl eq_refl))) as [s1 H1].
  rewrite H1. cbn [bind].
  pose proof (declare_file_unconfirmed_spec c l s s1 H1 (proj1 HP)) as SP.
  apply IH; try assumption.
  - eapply Pst_after_decl; eassumption.
  - destruct SP. rewrite existsn_view, ds_node0, (step_key_not_file c l Hk), <- existsn_view. exact Hex.
  - intros l0 Hl0. destruct SP.
    assert (E : str_eqb l0 l = false) by (apply str_eqb_neq; intros ->; contradiction).
    rewrite (existing_claim_view l0 s1 s).
    + apply Hall. right. exact Hl0.
    + rewrite ds_node0, file_key_eqb, E. reflexivity.
    + rewrite ds_file0, E. reflexivity.
Qed.

(* acceptance of a whole static request, in terms of look-ups of the state it meets *)
Definition acc_static (c : key) (ps : list str) (s : st) : Prop :=
  existsn c s = true /\ forall l, In l ps -> exists b, check_declaration_node c l 61 s = Ok b.

Lemma newb_claim_none c s l : newb c s l = true -> existing_claim l s = Ok None.
Proof.
  unfold newb, check_declaration_node.
  destruct (existing_claim l s) as [[[ro cr]|]|t|t]; cbn [bind]; try discriminate; [|reflexivity].
  destruct ((ro =? 61) && key_eqb cr c); discriminate.
Qed.
Lemma claim_none_newb c s l : existing_claim l s = Ok None -> newb c s l = true.
Proof. unfold newb, check_declaration_node. intros ->. reflexivity. Qed.

Lemma todo_total c s ps :
  (forall l, In l ps -> exists b, check_declaration_node c l 61 s = Ok b) ->
  forall acc, foldM (fun acc l => do isnew <- check_declaration_node c l 61 s;
                                  Ok (if isnew then acc ++ [l] else acc)) ps acc =
              Ok (acc ++ filter (newb c s) ps).
Proof.
  induction ps as [|l ps IH]; intros Hall acc; cbn [foldM filter].
  - rewrite app_nil_r. reflexivity.
  - destruct (Hall l (or_introl eq_refl)) as [b Hb]. rewrite Hb. cbn [bind].
    assert (Hn : newb c s l = b) by (unfold newb; rewrite Hb; destruct b; reflexivity).
    rewrite IH by (intros l0 Hl0; apply Hall; right; exact Hl0).
    rewrite Hn. destruct b; [rewrite <- app_assoc|]; reflexivity.
Qed.

Lemma static_accepted_iff (c : key) ps s :
  Pst s -> fst c = KStep -> NoDup ps ->
  (okb (OpDeclareStatic c ps) s = true <-> acc_static c ps s).
Proof.
  intros HP Hk ND. unfold okb. cbn [step_op]. split.
  - destruct (declare_static_files c ps s) as [s'|t|t] eqn:R; try discriminate. intros _.
    assert (Hnf : not_file c) by (unfold not_file; rewrite Hk; discriminate).
    pose proof (static_request_spec c ps s s' R ND Hnf (proj1 HP)) as [_ Hall].
    split; [|exact Hall].
    unfold declare_static_files in R. unfold existsn.
    destruct (is_some (find_node c s)); [reflexivity | discriminate].
  - intros [Hex Hall]. unfold declare_static_files. unfold existsn in Hex. rewrite Hex. cbn [negb].
    rewrite (todo_total c s ps Hall []). cbn [bind app].
    destruct (fold_decl_ok c (filter (newb c s) ps) s) as [s' H']; try assumption.
    + apply NoDup_filter. exact ND.
    + intros l Hl. apply filter_In in Hl as [_ Hl]. eapply newb_claim_none. exact Hl.
    + rewrite H'. reflexivity.
Qed.

(* ------------------------------------------------------------------------------------------ *)
(* 14. congruence and the full diamond for static declarations; the instantiated theorem       *)
(* ------------------------------------------------------------------------------------------ *)
Lemma st_equiv_refl s : st_equiv s s.
Proof. constructor; reflexivity. Qed.
Lemma st_equiv_sym a b : st_equiv a b -> st_equiv b a.
Proof. intros []. constructor; intros; symmetry; auto. Qed.
Lemma st_equiv_trans a b c : st_equiv a b -> st_equiv b c -> st_equiv a c.
Proof. intros [] []. constructor; intros; etransitivity; eauto. Qed.

Lemma Pst_after_sdecl (c : key) T s s' : fst c = KStep -> Pst s -> sdecl_spec c T s s' -> Pst s'.
Proof.
  intros Hk [Hnfc Hok] []. split; [exact sd_nfc0|].
  assert (Hin : in_files c T = false) by (destruct c as [[] x]; try reflexivity; discriminate).
  assert (Hdc : is_detached c s' = is_detached c s).
  { rewrite !is_detached_view, sd_node0, Hin. reflexivity. }
  intros l0. unfold fnode_ok. rewrite sd_node0, sd_file0. cbn [in_files].
  destruct (mem_str l0 T) eqn:E.
  - split; [reflexivity|]. intros D. rewrite Hdc. split; [exact D | left; exact Hk].
  - specialize (Hok l0). unfold fnode_ok in Hok.
    destruct (node_view (KFile, l0) s) as [[cre det]|]; [|exact I].
    destruct Hok as [Hrow Hcre]. split; [exact Hrow|].
    destruct cre as [oc|]; [|exact Hcre].
    intros D. destruct (Hcre D) as [Hd Hkind]. split; [|exact Hkind].
    assert (Hino : in_files oc T = false) by (destruct oc as [[] x]; try reflexivity; destruct Hkind; discriminate).
    rewrite is_detached_view, sd_node0, Hino, <- is_detached_view. exact Hd.
Qed.

Lemma newb_equiv c s s' l : st_equiv s s' -> newb c s l = newb c s' l.
Proof.
  intros E. unfold newb.
  rewrite (check_declaration_view c l 61 s s'); [reflexivity | apply (eq_node _ _ E) | apply (eq_file _ _ E)].
Qed.

Lemma acc_static_equiv c ps s s' : st_equiv s s' -> acc_static c ps s -> acc_static c ps s'.
Proof.
  intros E [Hex Hall]. split.
  - rewrite existsn_view, <- (eq_node _ _ E), <- existsn_view. exact Hex.
  - intros l Hl. destruct (Hall l Hl) as [b Hb]. exists b.
    rewrite <- (check_declaration_view c l 61 s s'); [exact Hb | apply (eq_node _ _ E) | apply (eq_file _ _ E)].
Qed.

Lemma sdecl_cong c T s s' sa sa' :
  st_equiv s s' -> sdecl_spec c T s sa -> sdecl_spec c T s' sa' -> st_equiv sa sa'.
Proof.
  intros E [] [].
  pose proof (eq_node _ _ E) as En. pose proof (eq_file _ _ E) as Ef. pose proof (eq_step _ _ E) as Es.
  pose proof (eq_dep _ _ E) as Ed. pose proof (eq_hash _ _ E) as Eh. pose proof (eq_env _ _ E) as Ee.
  pose proof (eq_cap _ _ E) as Ec.
  assert (Hdet : forall k, is_detached k s = is_detached k s') by (intros k; rewrite !is_detached_view, En; reflexivity).
  constructor.
  - intros k. rewrite sd_node0, sd_node1, Hdet, En. reflexivity.
  - intros l. rewrite sd_file0, sd_file1, !hh_view, Ef. reflexivity.
  - intros l. rewrite (step_view_of_steps _ _ sd_steps0), (step_view_of_steps _ _ sd_steps1). apply Es.
  - intros a b. rewrite sd_dep0, sd_dep1, !existsn_view, En, Ed. reflexivity.
  - intros x. rewrite sd_hash0, sd_hash1, Eh. f_equal. f_equal.
    apply existsb_ext_in. intros y _. rewrite !lostb_view, En. reflexivity.
  - intros l nm. unfold find_env. rewrite sd_envs0, sd_envs1. apply Ee.
  - congruence.
Qed.

(* the transactions and states of the instantiated theorem *)
Definition static_by (Cs : list key) (o : op) : Prop :=
  match o with OpDeclareStatic c ps => In c Cs /\ NoDup ps | _ => False end.
Definition other_creator (a b : op) : Prop :=
  match a, b with OpDeclareStatic c1 _, OpDeclareStatic c2 _ => c1 <> c2 | _, _ => False end.
Definition Pcs (Cs : list key) (s : st) : Prop :=
  Pst s /\ forall c, In c Cs -> fst c = KStep /\ attached c s = true.

Lemma okb_ok o s : okb o s = true -> exists s', step_op o s = Ok s' /\ apply_op s o = s'.
Proof.
  unfold okb, apply_op. destruct (step_op o s) as [s'|t|t]; try discriminate. intros _. exists s'. auto.
Qed.
Lemma okb_false_apply o s : okb o s = false -> apply_op s o = s.
Proof. unfold okb, apply_op. destruct (step_op o s); [discriminate|reflexivity|reflexivity]. Qed.

Lemma static_step_spec Cs c ps s s' :
  Pcs Cs s -> In c Cs -> NoDup ps -> step_op (OpDeclareStatic c ps) s = Ok s' ->
  sdecl_spec c (filter (newb c s) ps) s s'.
Proof.
  intros [HP HC] Hc ND R. cbn [step_op] in R. destruct (HC c Hc) as [Hk _].
  apply static_request_spec in R as [S _]; try assumption; [|exact (proj1 HP)].
  unfold not_file. rewrite Hk. discriminate.
Qed.

Lemma Pcs_step Cs o s : static_by Cs o -> Pcs Cs s -> Pcs Cs (apply_op s o).
Proof.
  destruct o; try contradiction. intros [Hc ND] HP.
  destruct (okb (OpDeclareStatic creator paths) s) eqn:O; [|rewrite okb_false_apply by exact O; exact HP].
  destruct (okb_ok _ _ O) as [s' [R ->]].
  pose proof (static_step_spec Cs creator paths s s' HP Hc ND R) as S.
  destruct HP as [HP HC]. split.
  - eapply Pst_after_sdecl; [exact (proj1 (HC creator Hc)) | exact HP | exact S].
  - intros c0 Hc0. destruct (HC c0 Hc0) as [Hk Ha]. split; [exact Hk|].
    destruct S. unfold attached in *. rewrite is_detached_view, sd_node0.
    assert (Hin : in_files c0 (filter (newb creator s) paths) = false)
      by (destruct c0 as [[] x]; try reflexivity; discriminate).
    rewrite Hin, <- is_detached_view. exact Ha.
Qed.

Lemma static_cong Cs o s s' :
  static_by Cs o -> Pcs Cs s -> Pcs Cs s' -> st_equiv s s' ->
  okb o s = okb o s' /\ st_equiv (apply_op s o) (apply_op s' o).
Proof.
  destruct o; try contradiction. intros [Hc ND] HP HP' E.
  destruct (proj2 HP creator Hc) as [Hk _].
  assert (Hok : okb (OpDeclareStatic creator paths) s = okb (OpDeclareStatic creator paths) s').
  { apply Bool.eq_iff_eq_true.
    rewrite (static_accepted_iff creator paths s (proj1 HP) Hk ND),
            (static_accepted_iff creator paths s' (proj1 HP') Hk ND).
    split; apply acc_static_equiv; [exact E | apply st_equiv_sym; exact E]. }
  split; [exact Hok|].
  destruct (okb (OpDeclareStatic creator paths) s) eqn:O.
  - symmetry in Hok. destruct (okb_ok _ _ O) as [sa [R ->]]. destruct (okb_ok _ _ Hok) as [sa' [R' ->]].
    pose proof (static_step_spec Cs _ _ _ _ HP Hc ND R) as S.
    pose proof (static_step_spec Cs _ _ _ _ HP' Hc ND R') as S'.
    rewrite <- (filter_ext (newb creator s) (newb creator s')) in S' by (intros l; apply newb_equiv; exact E).
    eapply sdecl_cong; eassumption.
  - symmetry in Hok. rewrite (okb_false_apply _ _ O), (okb_false_apply _ _ Hok). exact E.
Qed.

(* acceptance of b's request after a's: accepted in s, and none of its paths was just declared by a *)
Lemma acc_after_static (ca cb : key) psa psb s sa :
  ca <> cb -> attached ca s = true -> fst cb = KStep ->
  sdecl_spec ca (filter (newb ca s) psa) s sa ->
  (acc_static cb psb sa <->
   acc_static cb psb s /\ forall l, In l psb -> mem_str l (filter (newb ca s) psa) = false).
Proof.
  intros Hne Hatt Hkb S. pose proof S as S0. destruct S.
  assert (Hin : in_files cb (filter (newb ca s) psa) = false)
    by (destruct cb as [[] x]; try reflexivity; discriminate).
  assert (Hex : existsn cb sa = existsn cb s) by (rewrite !existsn_view, sd_node0, Hin; reflexivity).
  split.
  - intros [Hexa Hall].
    destruct (second_request_same_todo ca cb psa psb s sa Hne Hatt S0 Hall) as [D _].
    split; [|exact D]. split; [rewrite <- Hex; exact Hexa|].
    intros l Hl. destruct (Hall l Hl) as [b Hb]. exists b.
    rewrite <- (check_declaration_view cb l 61 sa s); [exact Hb | |].
    + rewrite sd_node0. cbn [in_files]. rewrite (D l Hl). reflexivity.
    + rewrite sd_file0, (D l Hl). reflexivity.
  - intros [[Hexs Hall] D]. split; [rewrite Hex; exact Hexs|].
    intros l Hl. destruct (Hall l Hl) as [b Hb]. exists b.
    rewrite (check_declaration_view cb l 61 sa s); [exact Hb | |].
    + rewrite sd_node0. cbn [in_files]. rewrite (D l Hl). reflexivity.
    + rewrite sd_file0, (D l Hl). reflexivity.
Qed.

(* "a new path of a's request is also mentioned by b" is symmetric in a and b: whether a path is
   new does not depend on who asks *)
Lemma disjoint_new_sym ca cb psa psb s :
  (forall l, In l psb -> mem_str l (filter (newb ca s) psa) = false) ->
  (forall l, In l psa -> mem_str l (filter (newb cb s) psb) = false).
Proof.
  intros H l Hl. apply mem_str_false. intros HI. apply filter_In in HI as [HIb Hn].
  specialize (H l HIb). apply mem_str_false in H. apply H. apply filter_In. split; [exact Hl|].
  apply claim_none_newb. eapply newb_claim_none. exact Hn.
Qed.

Lemma accepted2_static_iff Cs ca psa cb psb s :
  Pcs Cs s -> In ca Cs -> In cb Cs -> NoDup psa -> NoDup psb -> ca <> cb ->
  (accepted2 (OpDeclareStatic ca psa) (OpDeclareStatic cb psb) s = true <->
   acc_static ca psa s /\ acc_static cb psb s /\
   forall l, In l psb -> mem_str l (filter (newb ca s) psa) = false).
Proof.
  intros HP Ha Hb NDa NDb Hne. unfold accepted2. rewrite andb_true_iff.
  destruct (proj2 HP ca Ha) as [Hka Hatta]. destruct (proj2 HP cb Hb) as [Hkb _].
  rewrite (static_accepted_iff ca psa s (proj1 HP) Hka NDa). split.
  - intros [Hacc O2]. pose proof Hacc as Hacc0.
    apply (static_accepted_iff ca psa s (proj1 HP) Hka NDa) in Hacc.
    destruct (okb_ok _ _ Hacc) as [sa [R E]]. rewrite E in O2.
    pose proof (static_step_spec Cs _ _ _ _ HP Ha NDa R) as S.
    assert (HPa : Pst sa) by (eapply Pst_after_sdecl; [exact Hka | exact (proj1 HP) | exact S]).
    apply (static_accepted_iff cb psb sa HPa Hkb NDb) in O2.
    apply (acc_after_static ca cb psa psb s sa Hne Hatta Hkb S) in O2 as [A2 D].
    split; [exact Hacc0 | split; [exact A2 | exact D]].
  - intros (Hacc & A2 & D). split; [exact Hacc|]. pose proof Hacc as Hacc0.
    apply (static_accepted_iff ca psa s (proj1 HP) Hka NDa) in Hacc.
    destruct (okb_ok _ _ Hacc) as [sa [R E]]. rewrite E.
    pose proof (static_step_spec Cs _ _ _ _ HP Ha NDa R) as S.
    assert (HPa : Pst sa) by (eapply Pst_after_sdecl; [exact Hka | exact (proj1 HP) | exact S]).
    apply (static_accepted_iff cb psb sa HPa Hkb NDb).
    apply (acc_after_static ca cb psa psb s sa Hne Hatta Hkb S). split; assumption.
Qed.

(* clause (b): the pair is accepted in both orders or in neither; clause (a): if accepted, the
   graphs agree *)
Lemma static_diamond Cs a b s :
  other_creator a b -> static_by Cs a -> static_by Cs b -> Pcs Cs s ->
  accepted2 a b s = accepted2 b a s /\
  (accepted2 a b s = true -> st_equiv (apply_op (apply_op s a) b) (apply_op (apply_op s b) a)).
Proof.
  destruct a as [ca psa| | | | | | | | | | | | |], b as [cb psb| | | | | | | | | | | | |]; try contradiction.
  intros Hne [Ha NDa] [Hb NDb] HP.
  assert (Hsym : accepted2 (OpDeclareStatic ca psa) (OpDeclareStatic cb psb) s =
                 accepted2 (OpDeclareStatic cb psb) (OpDeclareStatic ca psa) s).
  { apply Bool.eq_iff_eq_true.
    rewrite (accepted2_static_iff Cs ca psa cb psb s HP Ha Hb NDa NDb Hne),
            (accepted2_static_iff Cs cb psb ca psa s HP Hb Ha NDb NDa (not_eq_sym Hne)).
    split; intros (A1 & A2 & D); (split; [exact A2 | split; [exact A1 | eapply disjoint_new_sym; exact D]]). }
  split; [exact Hsym|]. intros A12. pose proof A12 as A21. rewrite Hsym in A21.
  unfold accepted2 in A12, A21. apply andb_true_iff in A12 as [Oa Ob']. apply andb_true_iff in A21 as [Ob Oa'].
  destruct (okb_ok _ _ Oa) as [sa [Ra Ea]]. rewrite Ea in *.
  destruct (okb_ok _ _ Ob) as [sb [Rb Eb]]. rewrite Eb in *.
  destruct (okb_ok _ _ Ob') as [s12 [R12 E12]]. destruct (okb_ok _ _ Oa') as [s21 [R21 E21]].
  rewrite E12, E21.
  destruct (proj2 HP ca Ha) as [Hka Hatta]. destruct (proj2 HP cb Hb) as [Hkb Hattb].
  eapply (static_static_commute s sa sb s12 s21 ca cb psa psb); try eassumption.
  - exact (proj1 (proj1 HP)).
  - unfold not_file. rewrite Hka. discriminate.
  - unfold not_file. rewrite Hkb. discriminate.
Qed.

(* schedule_independent_static_partial: any two arrival orders (related by swaps of requests of
   different creators) of static declarations issued by a set Cs of attached steps are accepted
   or refused alike, and if accepted produce the same graph. *)
Theorem schedule_independent_static_partial (Cs : list key) (l1 l2 : list op) (s : st) :
  Pcs Cs s -> Forall (static_by Cs) l1 -> swaps other_creator l1 l2 ->
  all_ok l1 s = all_ok l2 s /\ (all_ok l1 s = true -> st_equiv (run_ops l1 s) (run_ops l2 s)).
Proof.
  intros HP HC HS.
  destruct (swaps_sound st_equiv (Pcs Cs) other_creator (static_by Cs)
              st_equiv_refl st_equiv_trans (Pcs_step Cs) (static_cong Cs) (static_diamond Cs)
              l1 l2 HS HC s HP) as (_ & A & E).
  split; assumption.
Qed.

(* the hypothesis Pst on the state follows from the invariant of C09 *)
Lemma inv_parts_Pst s :
  inv_nodes_b s = true -> inv_local_b s = true -> inv_rows_b s = true -> Pst s.
Proof.
  intros Hnodes Hlocal Hrows.
  unfold inv_nodes_b in Hnodes. apply andb_true_iff in Hnodes as [Hn1 Hkinds].
  apply andb_true_iff in Hn1 as [Hnd Hroot].
  unfold inv_local_b in Hlocal. rewrite forallb_forall in Hlocal. rewrite forallb_forall in Hkinds.
  assert (Hnfc : no_file_creator_b s = true).
  { unfold no_file_creator_b. apply forallb_forall. intros n Hn. specialize (Hlocal n Hn).
    destruct (ncre n) as [[[] cl]|] eqn:C; try reflexivity. exfalso.
    destruct (key_eqb (nk n) root_key) eqn:R.
    - apply key_eqb_eq in R.
      assert (F : find_node root_key s = Some n).
      { unfold find_node. rewrite <- R. apply (find_self nk key_eqb key_eqb_eq); assumption. }
      rewrite F, C in Hroot. cbn in Hroot. discriminate.
    - cbn [orb] in Hlocal. destruct (find_node (KFile, cl) s) as [cn|]; [|discriminate].
      apply andb_true_iff in Hlocal as [_ K]. cbn [fst] in K. destruct (fst (nk n)); discriminate. }
  split; [exact Hnfc|].
  intros l. unfold fnode_ok, node_view. destruct (find_node (KFile, l) s) as [n|] eqn:F; [|exact I].
  pose proof (find_node_key _ _ _ F) as Hkey. apply find_some in F as [Hin _].
  split.
  - unfold inv_rows_b in Hrows. repeat (apply andb_true_iff in Hrows as [Hrows ?]).
    match goal with H : forallb _ (nodes s) = true |- _ => rewrite forallb_forall in H; specialize (H n Hin); rename H into Hrow end.
    rewrite Hkey in Hrow. cbn [fst snd] in Hrow.
    unfold file_view. destruct (find_file l s); [reflexivity | discriminate].
  - specialize (Hlocal n Hin). rewrite Hkey in Hlocal.
    change (key_eqb (KFile, l) root_key) with false in Hlocal. cbn [orb] in Hlocal.
    destruct (ncre n) as [oc|]; [|exact Hlocal].
    intros D. destruct (find_node oc s) as [cn|] eqn:FC; [|discriminate].
    apply andb_true_iff in Hlocal as [Hl K]. apply andb_true_iff in Hl as [Hd _].
    apply Bool.eqb_prop in Hd. split.
    + unfold is_detached. rewrite FC, <- Hd. exact D.
    + cbn [fst] in K. destruct oc as [[] ocl]; cbn in K; try discriminate;
        [|left; reflexivity|right; reflexivity].
      exfalso. pose proof (find_node_key _ _ _ FC) as Hck. pose proof FC as FC0.
      apply find_some in FC0 as [Hcin _]. specialize (Hkinds cn Hcin). rewrite Hck in Hkinds.
      cbn in Hkinds. apply str_eqb_eq in Hkinds. subst ocl. change (KRoot, @nil N) with root_key in FC.
      rewrite FC in Hroot.
      apply andb_true_iff in Hroot as [_ Hrd]. apply negb_true_iff in Hrd. congruence.
Qed.

Lemma inv_b_Pst s : inv_b s = true -> Pst s.
Proof.
  unfold inv_b. intros H.
  repeat (match type of H with (andb _ _ = true) => apply andb_true_iff in H as [H ?] end).
  apply inv_parts_Pst; assumption.
Qed.
