(* C01, graph level: the side conditions of the K-preservation lemmas follow from C09's invariant.

   inv_core_b (model/GraphInv.v) holds in EVERY reachable state, without any protocol assumption
   (C09_reachable_inv_core).  From its conjuncts:
     inv_rows_b     -> unique_labels       step labels are unique
     inv_local_b    -> an attached non-root node has a creator
     inv_outedge_b  -> an output edge step -> file whose sink has a creator starts at that creator
   hence  single_producer: an ATTACHED file has at most one producing step edge.
   Only model files are imported (no proof of C09): the hypothesis [inv_core_b s = true] is a
   boolean that C09's harness evaluates on every state of its E2 traces. *)
From Coq Require Import List NArith Bool Lia.
From SV Require Import lib.Bytes model.Graph model.GraphInv model.NoStale proofs.NoStaleMark.
Import ListNotations.
Open Scope N_scope.

Lemma kind_eqb_eq (a b : kind) : kind_eqb a b = true -> a = b.
Proof. destruct a, b; cbn; intros H; try discriminate; reflexivity. Qed.

Lemma key_eqb_eq (a b : key) : key_eqb a b = true -> a = b.
Proof.
  destruct a as [ka la], b as [kb lb]. unfold key_eqb. cbn [fst snd]. intros H.
  apply andb_true_iff in H. destruct H as [H1 H2]. apply kind_eqb_eq in H1. apply str_eqb_eq in H2.
  subst. reflexivity.
Qed.

Lemma nodup_by_str_NoDup (l : list str) : nodup_by str_eqb l = true -> NoDup l.
Proof.
  induction l as [|x l IH]; intros H; [constructor|]. cbn [nodup_by] in H.
  apply andb_true_iff in H. destruct H as [Hx Hl]. constructor; [|exact (IH Hl)].
  intros Hin. apply negb_true_iff in Hx.
  assert (E : existsb (str_eqb x) l = true) by (apply existsb_exists; exists x; split; [exact Hin|apply str_eqb_refl]).
  congruence.
Qed.

(* the conjuncts of inv_core_b that K needs (found by name, whatever else the invariant lists) *)
Lemma inv_core_parts (s : st) :
  inv_core_b s = true ->
  inv_local_b s = true /\ inv_rows_b s = true /\ inv_outedge_b s = true.
Proof. unfold inv_core_b. intros H. rewrite !andb_true_iff in H. tauto. Qed.

Lemma inv_core_nodes (s : st) : inv_core_b s = true -> inv_nodes_b s = true.
Proof. unfold inv_core_b. intros H. rewrite !andb_true_iff in H. tauto. Qed.

Lemma inv_core_unique_labels (s : st) : inv_core_b s = true -> unique_labels s.
Proof.
  intros H. destruct (inv_core_parts s H) as (_ & Hr & _). unfold inv_rows_b in Hr.
  rewrite !andb_true_iff in Hr. unfold unique_labels. apply nodup_by_str_NoDup. tauto.
Qed.

(* an attached file has a creator *)
Lemma attached_file_has_creator (s : st) (f : str) :
  inv_local_b s = true -> is_detached (KFile, f) s = false ->
  exists c, creator_of (KFile, f) s = Some c.
Proof.
  intros Hl Hd. unfold is_detached in Hd. unfold creator_of.
  destruct (find_node (KFile, f) s) as [n|] eqn:Ef; [|discriminate].
  unfold find_node in Ef. apply find_some in Ef. destruct Ef as [Hin Hk].
  unfold inv_local_b in Hl. rewrite forallb_forall in Hl. specialize (Hl n Hin).
  apply key_eqb_eq in Hk.
  assert (Hroot : key_eqb (nk n) root_key = false) by (rewrite Hk; reflexivity).
  rewrite Hroot in Hl. cbn [orb] in Hl.
  destruct (ncre n) as [c|]; [exists c; reflexivity|]. congruence.
Qed.

(* an element of file_sinks_of_step is an output edge *)
Lemma file_sink_edge (l f : str) (s : st) :
  In f (file_sinks_of_step l s) ->
  exists d, In d (deps s) /\ dsrc d = (KStep, l) /\ dsnk d = (KFile, f).
Proof.
  unfold file_sinks_of_step, sinks_of. intros H. apply in_map_iff in H. destruct H as (k & Hk & H).
  apply filter_In in H. destruct H as [H Hkind]. apply in_map_iff in H. destruct H as (d & Hd & H).
  apply filter_In in H. destruct H as [Hin Hsrc]. exists d. split; [exact Hin|].
  split; [apply key_eqb_eq; exact Hsrc|]. rewrite Hd. destruct k as [kk kl]. cbn in *.
  apply kind_eqb_eq in Hkind. subst. reflexivity.
Qed.

Lemma inv_core_single_producer (s : st) : inv_core_b s = true -> single_producer s.
Proof.
  intros H. destruct (inv_core_parts s H) as (Hl & _ & Ho).
  intros f l1 l2 Ha H1 H2.
  destruct (attached_file_has_creator s f Hl Ha) as [c Hc].
  unfold inv_outedge_b in Ho. rewrite forallb_forall in Ho.
  assert (Hedge : forall l, In f (file_sinks_of_step l s) -> c = (KStep, l)).
  { intros l Hin. destruct (file_sink_edge l f s Hin) as (d & Hd & Hs & Hk).
    specialize (Ho d Hd). rewrite Hs, Hk, Hc in Ho. apply andb_true_iff in Ho.
    destruct Ho as [Ho _]. apply key_eqb_eq. exact Ho. }
  pose proof (Hedge l1 H1) as E1. pose proof (Hedge l2 H2) as E2. congruence.
Qed.
