(* C10: what the Sched primitives do to the structural (non-cached) columns.  The skeleton of a
   snapshot is everything model/Sched.v reads except the cached attributes and their flags; every
   primitive acts on the skeleton by a map / filter / append that does not depend on cached values. *)
From Coq Require Import List NArith Bool Arith Lia.
From SV Require Import lib.Bytes lib.SqlExpr gen.GenSched model.Sched proofs.SchedProofs proofs.SchedPrims.
Import ListNotations.
Open Scope N_scope.

Record sskel := mkSk {
  q_key : N; q_state : N; q_need : N; q_deferred : bool; q_dc : N; q_holding : N;
  q_detached : bool; q_creator : option N; q_stored : bool; q_hh : bool }.

Definition sk_step (x : step) : sskel :=
  mkSk (s_key x) (s_state x) (s_need x) (s_deferred x) (s_defer_count x) (s_holding x)
       (s_detached x) (s_creator x) (s_hash_stored x) (s_has_hash x).

Definition sks (g : graph) : list sskel := map sk_step (g_steps g).

(* ---- flags do not touch the skeleton ---- *)
Lemma sk_flag_step c s : sk_step (flag_step c s) = sk_step s.
Proof. destruct c; reflexivity. Qed.
Lemma sk_flagF c ks s : sk_step (flagF c ks s) = sk_step s.
Proof. unfold flagF. destruct (mem_N (s_key s) ks); [apply sk_flag_step | reflexivity]. Qed.
Lemma sk_trigF g body self d : forall s, sk_step (trigF g body self d s) = sk_step s.
Proof.
  induction body as [|ct r IH]; intros s; [reflexivity|]. cbn [trigF]. rewrite IH. apply sk_flagF.
Qed.

Lemma sks_mapg F g : (forall s, sk_step (F s) = sk_step s) -> sks (mapg F g) = sks g.
Proof. intros H. unfold sks, mapg. cbn [g_steps with_steps]. rewrite map_map. apply map_ext. exact H. Qed.

(* everything but the step rows' cached columns and flags is the same *)
Definition same_skel (g g' : graph) : Prop :=
  sks g' = sks g /\ g_files g' = g_files g /\ g_others g' = g_others g /\ g_deps g' = g_deps g.

Lemma same_skel_refl g : same_skel g g.
Proof. repeat split. Qed.
Lemma same_skel_trans g g1 g2 : same_skel g g1 -> same_skel g1 g2 -> same_skel g g2.
Proof. intros [a [b [c d]]] [a' [b' [c' d']]]. repeat split; congruence. Qed.

Lemma same_skel_mapg F g : (forall s, sk_step (F s) = sk_step s) -> same_skel g (mapg F g).
Proof. intros H. split; [apply sks_mapg; exact H | repeat split]. Qed.
Lemma same_skel_trigger body self d g : same_skel g (run_trigger body self d g).
Proof. rewrite run_trigger_mapg. apply same_skel_mapg. apply sk_trigF. Qed.
Lemma same_skel_flag_keys c ks g : same_skel g (flag_keys c ks g).
Proof. rewrite flag_keys_mapg. apply same_skel_mapg. apply sk_flagF. Qed.
Lemma same_skel_flag_with_products g k : same_skel g (flag_with_products g k).
Proof. unfold flag_with_products. eapply same_skel_trans; apply same_skel_flag_keys. Qed.
Lemma same_skel_flag_after_sources g k : same_skel g (flag_after_sources g k).
Proof. unfold flag_after_sources, flag_after_sources_with. apply same_skel_flag_keys. Qed.

Lemma same_skel_fold_trigger body l : forall g,
  same_skel g (fold_left (fun acc k => run_trigger body k None acc) l g).
Proof.
  induction l as [|x l IH]; intros g; [apply same_skel_refl|]. cbn [fold_left].
  eapply same_skel_trans; [apply same_skel_trigger | apply IH].
Qed.

(* the node table as Sched sees it *)
Lemma node_creators_sk g g' : sks g' = sks g -> g_files g' = g_files g -> g_others g' = g_others g ->
  node_creators g' = node_creators g.
Proof.
  intros Hs Hf Ho. unfold node_creators. rewrite Hf, Ho. f_equal.
  unfold sks in Hs.
  assert (H : forall l l' : list step, map sk_step l' = map sk_step l ->
              map (fun s => (s_key s, s_creator s)) l' = map (fun s => (s_key s, s_creator s)) l).
  { intros l. induction l as [|a l IH]; intros [|a' l'] E; try discriminate; [reflexivity|].
    cbn [map] in *.
    assert (E1 : sk_step a' = sk_step a) by congruence.
    assert (E2 : map sk_step l' = map sk_step l) by congruence.
    f_equal; [|apply IH; exact E2].
    pose proof (f_equal q_key E1) as K1. pose proof (f_equal q_creator E1) as K2. cbn in K1, K2. congruence. }
  apply H. exact Hs.
Qed.

Lemma below_same_skel g g' k : same_skel g g' -> below g' k = below g k.
Proof.
  intros [Hs [Hf [Ho _]]]. unfold below. rewrite (node_creators_sk g g' Hs Hf Ho). reflexivity.
Qed.

(* ---- Step.set_state ---- *)
Definition sk_apply_state (t : sskel) (st : N) (df : bool) : sskel :=
  let h := if sholds (nenv st (q_holding t)) trg_reset_holding_when then 0 else q_holding t in
  let df' := if sholds (nenv st (q_holding t)) trg_clear_deferred_when then false else df in
  let dc := if sholds (nenv st (q_holding t)) trg_reset_defer_count_when then 0 else q_dc t in
  mkSk (q_key t) st (q_need t) df' dc h (q_detached t) (q_creator t) (q_stored t) (q_hh t).

Lemma sk_apply_state_eq s st df : sk_step (apply_state s st df) = sk_apply_state (sk_step s) st df.
Proof. reflexivity. Qed.

Lemma skel_set_step_state g k st df :
  sks (set_step_state g k st df) =
    map (fun t => if q_key t =? k then sk_apply_state t st df else t) (sks g) /\
  g_files (set_step_state g k st df) = g_files g /\ g_others (set_step_state g k st df) = g_others g /\
  g_deps (set_step_state g k st df) = g_deps g.
Proof.
  unfold set_step_state.
  destruct (same_skel_trigger trg_step_state k None
              (with_steps g (map (fun s => if s_key s =? k then apply_state s st df else s) (g_steps g))))
    as [Hs [Hf [Ho Hd]]].
  rewrite Hs, Hf, Ho, Hd. split; [|repeat split].
  unfold sks. cbn [g_steps with_steps]. rewrite !map_map. apply map_ext. intros s.
  cbn [sk_step q_key]. destruct (s_key s =? k); reflexivity.
Qed.

(* ---- bookkeeping on one step row ---- *)
Lemma skel_map_steps g (F : step -> step) (Fk : sskel -> sskel) :
  (forall s, sk_step (F s) = Fk (sk_step s)) ->
  sks (with_steps g (map F (g_steps g))) = map Fk (sks g).
Proof. intros H. unfold sks. cbn [g_steps with_steps]. rewrite !map_map. apply map_ext. exact H. Qed.

Definition sk_set_hash (k : N) (b : bool) (t : sskel) : sskel :=
  if q_key t =? k
  then mkSk (q_key t) (q_state t) (q_need t) (q_deferred t) (q_dc t) (q_holding t) (q_detached t) (q_creator t) b b
  else t.
Lemma skel_set_step_hash g k b : sks (set_step_hash g k b) = map (sk_set_hash k b) (sks g).
Proof.
  unfold set_step_hash. apply skel_map_steps. intros s. unfold sk_set_hash. cbn [sk_step q_key].
  destruct (s_key s =? k); reflexivity.
Qed.

Definition sk_set_life (k : N) (f : sskel -> N * N) (t : sskel) : sskel :=
  if q_key t =? k
  then mkSk (q_key t) (q_state t) (q_need t) (q_deferred t) (fst (f t)) (snd (f t)) (q_detached t) (q_creator t)
            (q_stored t) (q_hh t)
  else t.
Lemma skel_inc_defer g k :
  sks (inc_defer g k) = map (sk_set_life k (fun t => (q_dc t + 1, q_holding t))) (sks g).
Proof.
  unfold inc_defer. apply skel_map_steps. intros s. unfold sk_set_life. cbn [sk_step q_key].
  destruct (s_key s =? k); reflexivity.
Qed.

Lemma skel_hold_step g k :
  sks (hold_step g k) = map (sk_set_life k (fun t => (q_dc t, q_holding t + 1))) (sks g) /\
  g_files (hold_step g k) = g_files g /\ g_others (hold_step g k) = g_others g /\ g_deps (hold_step g k) = g_deps g.
Proof.
  unfold hold_step. destruct (find_step g k) as [s0|] eqn:E0.
  - set (g1 := with_steps g _).
    assert (H1 : sks g1 = map (sk_set_life k (fun t => (q_dc t, q_holding t + 1))) (sks g)).
    { apply skel_map_steps. intros s. unfold sk_set_life. cbn [sk_step q_key]. destruct (s_key s =? k); reflexivity. }
    destruct (s_holding s0 =? 0).
    + destruct (same_skel_flag_with_products g1 k) as [Hs [Hf [Ho Hd]]]. rewrite Hs, Hf, Ho, Hd. auto.
    + auto.
  - split; [|auto]. unfold sks. rewrite map_map. symmetry. rewrite <- (map_id (map sk_step (g_steps g))) at 1.
    rewrite map_map. apply map_ext_in. intros s Hs. unfold sk_set_life. cbn [sk_step q_key].
    destruct (s_key s =? k) eqn:Ek; [|reflexivity]. exfalso. apply N.eqb_eq in Ek.
    apply find_step_none in E0. apply E0. rewrite <- Ek. apply in_map. exact Hs.
Qed.

Lemma skel_release_step g k g' : release_step g k = Some g' ->
  sks g' = map (sk_set_life k (fun t => (q_dc t, q_holding t - 1))) (sks g) /\
  g_files g' = g_files g /\ g_others g' = g_others g /\ g_deps g' = g_deps g.
Proof.
  unfold release_step. destruct (find_step g k) as [s0|]; [|discriminate].
  destruct (s_holding s0 =? 0); [discriminate|]. intros E. injection E as <-.
  set (g1 := with_steps g _).
  assert (H1 : sks g1 = map (sk_set_life k (fun t => (q_dc t, q_holding t - 1))) (sks g)).
  { apply skel_map_steps. intros s. unfold sk_set_life. cbn [sk_step q_key]. destruct (s_key s =? k); reflexivity. }
  destruct (s_holding s0 =? 1).
  - destruct (same_skel_flag_with_products g1 k) as [Hs [Hf [Ho Hd]]]. rewrite Hs, Hf, Ho, Hd. auto.
  - auto.
Qed.

(* ---- File.set_state ---- *)
Lemma skel_set_file_state g k st h :
  sks (set_file_state g k st h) = sks g /\
  g_files (set_file_state g k st h) = map (fun f => if f_key f =? k then set_fstate f st h else f) (g_files g) /\
  g_others (set_file_state g k st h) = g_others g /\ g_deps (set_file_state g k st h) = g_deps g.
Proof.
  unfold set_file_state. destruct (find_file g k) as [f0|] eqn:E0.
  - set (g1 := with_files g _).
    destruct (negb trg_file_state_upd_on_change_only || negb (f_state f0 =? st)).
    + destruct (same_skel_trigger trg_file_state_upd k None g1) as [Hs [Hf [Ho Hd]]]. rewrite Hs, Hf, Ho, Hd. auto.
    + auto.
  - split; [reflexivity|]. split; [|auto]. symmetry. rewrite <- (map_id (g_files g)) at 2.
    apply map_ext_in. intros f Hf. destruct (f_key f =? k) eqn:Ek; [|reflexivity]. exfalso.
    unfold find_file in E0. eapply find_none in E0; [|exact Hf]. cbn in E0. congruence.
Qed.

(* ---- dependency edges ---- *)
Lemma filter_unmark d b l :
  filter (fun e => negb (dep_eqb e d)) (map (fun e => if dep_eqb e d then mkDep (d_src e) (d_snk e) b else e) l)
  = filter (fun e => negb (dep_eqb e d)) l.
Proof.
  induction l as [|e l IH]; [reflexivity|].
  cbn [map filter]. destruct (dep_eqb e d) eqn:E.
  - assert (E' : dep_eqb (mkDep (d_src e) (d_snk e) b) d = true) by exact E. rewrite E'. cbn [negb]. exact IH.
  - rewrite E. cbn [negb]. f_equal. exact IH.
Qed.

Lemma skel_del_dep g d :
  sks (del_dep g d) = sks g /\ g_files (del_dep g d) = g_files g /\ g_others (del_dep g d) = g_others g /\
  g_deps (del_dep g d) = filter (fun e => negb (dep_eqb e d)) (g_deps g).
Proof.
  unfold del_dep, del_dep_with.
  set (g1 := if d_dyn d then _ else g).
  assert (H1 : sks g1 = sks g /\ g_files g1 = g_files g /\ g_others g1 = g_others g /\
               filter (fun e => negb (dep_eqb e d)) (g_deps g1) = filter (fun e => negb (dep_eqb e d)) (g_deps g)).
  { unfold g1. destruct (d_dyn d); [|auto].
    set (g0 := with_deps g _).
    destruct (same_skel_trigger trg_dyn_del 0 (Some d) g0) as [Hs [Hf [Ho Hd]]]. rewrite Hs, Hf, Ho, Hd.
    split; [reflexivity|]. split; [reflexivity|]. split; [reflexivity|].
    unfold g0. cbn [g_deps with_deps]. apply filter_unmark. }
  destruct H1 as [A [B [C D]]].
  set (g2 := with_deps g1 _).
  destruct (same_skel_trigger trg_dep_del 0 (Some d) g2) as [Hs [Hf [Ho Hd]]]. rewrite Hs, Hf, Ho, Hd.
  unfold g2. cbn [g_files g_others g_deps with_deps]. unfold sks in *. cbn [g_steps with_deps]. auto.
Qed.

Lemma skel_ins_dep g d :
  sks (ins_dep g d) = sks g /\ g_files (ins_dep g d) = g_files g /\ g_others (ins_dep g d) = g_others g /\
  g_deps (ins_dep g d) =
    if d_dyn d
    then map (fun e => if dep_eqb e d then mkDep (d_src e) (d_snk e) true else e)
             (g_deps g ++ [mkDep (d_src d) (d_snk d) false])
    else g_deps g ++ [mkDep (d_src d) (d_snk d) false].
Proof.
  unfold ins_dep, ins_dep_with.
  set (g1 := with_deps g _).
  destruct (same_skel_trigger trg_dep_ins 0 (Some d) g1) as [Hs [Hf [Ho Hd]]].
  destruct (d_dyn d).
  - set (g3 := with_deps _ _).
    destruct (same_skel_trigger trg_dyn_ins 0 (Some d) g3) as [Hs' [Hf' [Ho' Hd']]].
    rewrite Hs', Hf', Ho', Hd'. unfold g3. cbn [g_files g_others g_deps with_deps].
    unfold sks in *. cbn [g_steps with_deps]. rewrite Hs, Hf, Ho, Hd. auto.
  - rewrite Hs, Hf, Ho, Hd. auto.
Qed.

(* ---- detached flags of a set of nodes ---- *)
Definition sk_set_det (ks : list N) (b : bool) (t : sskel) : sskel :=
  if mem_N (q_key t) ks
  then mkSk (q_key t) (q_state t) (q_need t) (q_deferred t) (q_dc t) (q_holding t) b (q_creator t) (q_stored t) (q_hh t)
  else t.
Definition sk_set_cre (k : N) (b : bool) (cr : option N) (t : sskel) : sskel :=
  if q_key t =? k
  then mkSk (q_key t) (q_state t) (q_need t) (q_deferred t) (q_dc t) (q_holding t) b cr (q_stored t) (q_hh t)
  else t.

(* without the optional trigger step_node_undefer_reattached, or when nodes are detached (b = true):
   `deferred` is not written *)
Lemma skel_set_detached_nodes g ks b : trg_undefer_on_reattach && negb b = false ->
  sks (set_detached_nodes g ks b) = map (sk_set_det ks b) (sks g) /\
  g_files (set_detached_nodes g ks b) =
    map (fun f => if mem_N (f_key f) ks then set_fplace f b (f_creator f) else f) (g_files g) /\
  g_others (set_detached_nodes g ks b) =
    map (fun o => if mem_N (o_key o) ks then set_oplace o b (o_creator o) else o) (g_others g) /\
  g_deps (set_detached_nodes g ks b) = g_deps g.
Proof.
  intros Hu. unfold set_detached_nodes. rewrite Hu. unfold set_detached_nodes_core.
  match goal with |- context [fold_left ?f ?l ?a] =>
    destruct (same_skel_fold_trigger trg_node_detached l a) as [Hs [Hf [Ho Hd]]] end.
  rewrite Hs, Hf, Ho, Hd. cbn [g_files g_others g_deps]. split; [|auto].
  unfold sks. cbn [g_steps]. rewrite !map_map. apply map_ext. intros s. unfold sk_set_det. cbn [sk_step q_key].
  destruct (mem_N (s_key s) ks); reflexivity.
Qed.

Lemma skel_set_place g k det cr :
  sks (with_steps g (map (fun s => if s_key s =? k then set_place s det cr else s) (g_steps g)))
  = map (sk_set_cre k det cr) (sks g).
Proof.
  apply skel_map_steps. intros s. unfold sk_set_cre. cbn [sk_step q_key]. destruct (s_key s =? k); reflexivity.
Qed.

(* ---- Step.detach ---- *)
Definition fdet (S : list N) (k : N) (f : file) : file :=
  if f_key f =? k then set_fplace f true None
  else if mem_N (f_key f) S then set_fplace f true (f_creator f) else f.
Definition odet (S : list N) (o : onode) : onode :=
  if mem_N (o_key o) S then set_oplace o true (o_creator o) else o.
Definition sdet (S : list N) (k : N) (t : sskel) : sskel :=
  if q_key t =? k
  then mkSk (q_key t) (q_state t) (q_need t) (q_deferred t) (q_dc t) (q_holding t) true None (q_stored t) (q_hh t)
  else sk_set_det S true t.

(* when k is a step with a creator: S = the nodes below k when k was attached, none otherwise *)
Lemma skel_detach_step g k s0 c :
  find_step g k = Some s0 -> s_creator s0 = Some c ->
  let S := if s_detached s0 then [] else below g k in
  sks (detach_step g k) = map (sdet S k) (sks g) /\
  g_files (detach_step g k) = map (fun f => if mem_N (f_key f) (k :: S) then set_fplace f true (f_creator f) else f) (g_files g) /\
  g_others (detach_step g k) = map (odet (k :: S)) (g_others g) /\
  g_deps (detach_step g k) = g_deps g.
Proof.
  intros E0 Ec S. unfold detach_step, detach_step_with. fold flag_after_sources. rewrite E0, Ec.
  set (g1 := set_detached_nodes g [k] true).
  set (g1' := with_steps g1 (map (fun s => if s_key s =? k then set_place s true None else s) (g_steps g1))).
  set (g2 := if s_detached s0 then g1' else set_detached_nodes g1' (below g k) true).
  destruct (skel_set_detached_nodes g [k] true (andb_false_r _)) as [A1 [B1 [C1 D1]]]. fold g1 in A1, B1, C1, D1.
  assert (A1' : sks g1' = map (sk_set_cre k true None) (sks g1)) by apply skel_set_place.
  assert (H2 : sks g2 = map (sdet S k) (sks g) /\
               g_files g2 = map (fun f => if mem_N (f_key f) (k :: S) then set_fplace f true (f_creator f) else f) (g_files g) /\
               g_others g2 = map (odet (k :: S)) (g_others g) /\ g_deps g2 = g_deps g).
  { unfold g2, S. destruct (s_detached s0).
    - rewrite A1', A1. unfold g1'. cbn [g_files g_others g_deps with_steps]. rewrite B1, C1, D1.
      split; [|split; [|split; [|reflexivity]]].
      + rewrite map_map. apply map_ext. intros [a1 a2 a3 a4 a5 a6 a7 a8 a9 a10].
        unfold sdet, sk_set_cre, sk_set_det. cbn -[mem_N]. rewrite ?mem_single.
        destruct (a1 =? k) eqn:E; cbn -[mem_N]; rewrite ?E; reflexivity.
      + reflexivity.
      + reflexivity.
    - destruct (skel_set_detached_nodes g1' (below g k) true (andb_false_r _)) as [A2 [B2 [C2 D2]]].
      rewrite A2, B2, C2, D2, A1', A1. unfold g1'. cbn [g_files g_others g_deps with_steps]. rewrite B1, C1, D1.
      split; [|split; [|split; [|reflexivity]]].
      + rewrite !map_map. apply map_ext. intros [a1 a2 a3 a4 a5 a6 a7 a8 a9 a10].
        unfold sdet, sk_set_cre, sk_set_det. cbn -[mem_N]. rewrite ?mem_single.
        destruct (a1 =? k) eqn:E; cbn -[mem_N]; rewrite ?E; destruct (mem_N a1 (below g k)) eqn:E2; cbn -[mem_N]; rewrite ?E, ?E2; reflexivity.
      + rewrite map_map. apply map_ext. intros [b1 b2 b3 b4 b5 b6]. cbn -[mem_N]. rewrite ?mem_single, ?mem_cons.
        destruct (b1 =? k) eqn:E; cbn -[mem_N]; rewrite ?E; destruct (mem_N b1 (below g k)) eqn:E2; cbn -[mem_N]; rewrite ?E, ?E2; reflexivity.
      + rewrite map_map. apply map_ext. intros [b1 b2 b3]. unfold odet. cbn -[mem_N]. rewrite ?mem_single, ?mem_cons.
        destruct (b1 =? k) eqn:E; cbn -[mem_N]; rewrite ?E; destruct (mem_N b1 (below g k)) eqn:E2; cbn -[mem_N]; rewrite ?E, ?E2; reflexivity. }
  destruct H2 as [A2 [B2 [C2 D2]]].
  destruct (same_skel_flag_with_products g2 k) as [A3 [B3 [C3 D3]]].
  destruct (same_skel_flag_after_sources (flag_with_products g2 k) k) as [A4 [B4 [C4 D4]]].
  rewrite A4, B4, C4, D4, A3, B3, C3, D3. auto.
Qed.

(* a step without creator: only flags *)
Lemma skel_detach_step_nocre g k :
  (forall s0, find_step g k = Some s0 -> s_creator s0 = None) -> same_skel g (detach_step g k).
Proof.
  intros H. unfold detach_step, detach_step_with. fold flag_after_sources. destruct (find_step g k) as [s0|] eqn:E0; [|apply same_skel_refl].
  rewrite (H s0 eq_refl).
  eapply same_skel_trans; [apply same_skel_flag_with_products | apply same_skel_flag_after_sources].
Qed.

(* ---- File.detach ---- *)
Lemma skel_detach_file g k f0 c :
  find_file g k = Some f0 -> f_creator f0 = Some c ->
  let S := if f_detached f0 then [] else below g k in
  sks (detach_file g k) = map (sk_set_det (k :: S) true) (sks g) /\
  g_files (detach_file g k) = map (fdet S k) (g_files g) /\
  g_others (detach_file g k) = map (odet (k :: S)) (g_others g) /\
  g_deps (detach_file g k) = g_deps g.
Proof.
  intros E0 Ec S. unfold detach_file. rewrite E0, Ec.
  set (g1 := set_detached_nodes g [k] true).
  set (g1' := with_files g1 (map (fun f => if f_key f =? k then set_fplace f true None else f) (g_files g1))).
  destruct (skel_set_detached_nodes g [k] true (andb_false_r _)) as [A1 [B1 [C1 D1]]]. fold g1 in A1, B1, C1, D1.
  unfold S. destruct (f_detached f0).
  - unfold g1'. cbn [g_files g_others g_deps with_files]. unfold sks in *. cbn [g_steps with_files].
    rewrite A1, B1, C1, D1. split; [|split; [|split; [|reflexivity]]].
    + reflexivity.
    + rewrite map_map. apply map_ext. intros [b1 b2 b3 b4 b5 b6]. unfold fdet. cbn -[mem_N]. rewrite ?mem_single.
      destruct (b1 =? k) eqn:E; cbn -[mem_N]; rewrite ?E; reflexivity.
    + reflexivity.
  - destruct (skel_set_detached_nodes g1' (below g k) true (andb_false_r _)) as [A2 [B2 [C2 D2]]].
    rewrite A2, B2, C2, D2. unfold g1'. cbn [g_files g_others g_deps with_files]. unfold sks in *. cbn [g_steps with_files].
    rewrite A1, B1, C1, D1. split; [|split; [|split; [|reflexivity]]].
    + rewrite map_map. apply map_ext. intros [a1 a2 a3 a4 a5 a6 a7 a8 a9 a10]. unfold sk_set_det. cbn -[mem_N].
      rewrite ?mem_single, ?mem_cons.
      destruct (a1 =? k) eqn:E; cbn -[mem_N]; rewrite ?E; destruct (mem_N a1 (below g k)) eqn:E2; cbn -[mem_N]; rewrite ?E, ?E2; reflexivity.
    + rewrite !map_map. apply map_ext. intros [b1 b2 b3 b4 b5 b6]. unfold fdet. cbn -[mem_N]. rewrite ?mem_single.
      destruct (b1 =? k) eqn:E; cbn -[mem_N]; rewrite ?E; destruct (mem_N b1 (below g k)) eqn:E2; cbn -[mem_N]; rewrite ?E, ?E2; reflexivity.
    + rewrite map_map. apply map_ext. intros [b1 b2 b3]. unfold odet. cbn -[mem_N]. rewrite ?mem_single, ?mem_cons.
      destruct (b1 =? k) eqn:E; cbn -[mem_N]; rewrite ?E; destruct (mem_N b1 (below g k)) eqn:E2; cbn -[mem_N]; rewrite ?E, ?E2; reflexivity.
Qed.

Lemma skel_detach_file_nocre g k :
  (forall f0, find_file g k = Some f0 -> f_creator f0 = None) -> detach_file g k = g.
Proof.
  intros H. unfold detach_file. destruct (find_file g k) as [f0|] eqn:E0; [|reflexivity].
  rewrite (H f0 eq_refl). reflexivity.
Qed.

(* ---- rows created and deleted ---- *)
Lemma skel_create_step g k cr det need safe stored dur res :
  sks (create_step g k cr det need safe stored dur res) =
    sks g ++ [mkSk k init_state need false 0 0 det cr stored stored] /\
  g_files (create_step g k cr det need safe stored dur res) = g_files g /\
  g_others (create_step g k cr det need safe stored dur res) = g_others g /\
  g_deps (create_step g k cr det need safe stored dur res) = g_deps g.
Proof. unfold create_step, sks. cbn [g_steps with_steps g_files g_others g_deps]. rewrite map_app. auto. Qed.

Lemma skel_delete_step g k :
  sks (delete_step g k) = filter (fun t => negb (q_key t =? k)) (sks g) /\
  g_files (delete_step g k) = g_files g /\ g_others (delete_step g k) = g_others g /\
  g_deps (delete_step g k) = g_deps g.
Proof.
  unfold delete_step, sks. cbn [g_steps with_steps g_files g_others g_deps]. split; [|auto].
  induction (g_steps g) as [|s l IH]; [reflexivity|]. cbn [filter map]. destruct (s_key s =? k) eqn:E; cbn [negb].
  - cbn [sk_step q_key]. rewrite E. cbn [negb]. exact IH.
  - cbn [map filter sk_step q_key]. rewrite E. cbn [negb]. f_equal. exact IH.
Qed.

Lemma skel_create_file g k label st det cr :
  sks (create_file g k label st det cr) = sks g /\
  g_files (create_file g k label st det cr) = g_files g ++ [mkFile k label st det cr false] /\
  g_others (create_file g k label st det cr) = g_others g /\ g_deps (create_file g k label st det cr) = g_deps g.
Proof.
  unfold create_file.
  destruct (same_skel_trigger trg_file_ins k None (with_files g (g_files g ++ [mkFile k label st det cr false])))
    as [A [B [C D]]]. rewrite A, B, C, D. auto.
Qed.

Lemma skel_delete_file g k :
  sks (delete_file g k) = sks g /\
  g_files (delete_file g k) = filter (fun f => negb (f_key f =? k)) (g_files g) /\
  g_others (delete_file g k) = g_others g /\ g_deps (delete_file g k) = g_deps g.
Proof. unfold delete_file. auto. Qed.

(* ---- UPDATE node SET creator, detached on a file node ---- *)
Lemma skel_place_file g k cr det f0 : trg_undefer_on_reattach && negb det = false -> find_file g k = Some f0 ->
  sks (place_file g k cr det) = map (sk_set_det [k] det) (sks g) /\
  g_files (place_file g k cr det) = map (fun f => if f_key f =? k then set_fplace f det cr else f) (g_files g) /\
  g_others (place_file g k cr det) =
    map (fun o => if mem_N (o_key o) [k] then set_oplace o det (o_creator o) else o) (g_others g) /\
  g_deps (place_file g k cr det) = g_deps g.
Proof.
  intros Hu E0. unfold place_file. rewrite E0.
  destruct (skel_set_detached_nodes g [k] det Hu) as [A [B [C D]]].
  cbn [g_files g_others g_deps with_files]. unfold sks in *. cbn [g_steps with_files].
  rewrite A, B, C, D. split; [reflexivity|]. split; [|auto].
  rewrite map_map. apply map_ext. intros [b1 b2 b3 b4 b5 b6]. cbn -[mem_N]. rewrite mem_single.
  destruct (b1 =? k) eqn:E; cbn -[mem_N]; rewrite ?E; reflexivity.
Qed.

(* ---- Step.reattach ---- *)
Lemma skel_reattach_step g k c cdet : trg_undefer_on_reattach && negb cdet = false ->
  let S := below g k in
  sks (reattach_step g k c cdet) =
    map (fun t => if q_key t =? k
                  then mkSk (q_key t) (q_state t) (q_need t) (q_deferred t) (q_dc t) (q_holding t) cdet (Some c)
                            (q_stored t) (q_hh t)
                  else sk_set_det S cdet t) (sks g) /\
  g_files (reattach_step g k c cdet) =
    map (fun f => if mem_N (f_key f) (k :: S) then set_fplace f cdet (f_creator f) else f) (g_files g) /\
  g_others (reattach_step g k c cdet) =
    map (fun o => if mem_N (o_key o) (k :: S) then set_oplace o cdet (o_creator o) else o) (g_others g) /\
  g_deps (reattach_step g k c cdet) = g_deps g.
Proof.
  intros Hu S. unfold reattach_step.
  set (g0 := set_detached_nodes g [k] cdet).
  set (g1 := with_steps g0 (map (fun s => if s_key s =? k then set_place s cdet (Some c) else s) (g_steps g0))).
  destruct (skel_set_detached_nodes g [k] cdet Hu) as [A0 [B0 [C0 D0]]]. fold g0 in A0, B0, C0, D0.
  assert (A1 : sks g1 = map (sk_set_cre k cdet (Some c)) (sks g0)) by apply skel_set_place.
  assert (Hb : below g1 k = below g k).
  { destruct (drel_set_detached k g [k] cdet) as [F1 [H1 [O1 R1]]].
    destruct (drel_set_place k g0 cdet (Some c)) as [F2 [H2 [O2 R2]]].
    eapply below_drel. eapply drel_trans; [exists F1, H1, O1; exact R1 | exists F2, H2, O2; exact R2]. }
  rewrite Hb. fold S.
  destruct (skel_set_detached_nodes g1 S cdet Hu) as [A2 [B2 [C2 D2]]].
  destruct (same_skel_flag_with_products (set_detached_nodes g1 S cdet) k) as [A3 [B3 [C3 D3]]].
  rewrite A3, B3, C3, D3, A2, B2, C2, D2, A1, A0. unfold g1. cbn [g_files g_others g_deps with_steps].
  rewrite B0, C0, D0. split; [|split; [|split; [|reflexivity]]].
  - rewrite !map_map. apply map_ext. intros [a1 a2 a3 a4 a5 a6 a7 a8 a9 a10].
    unfold sk_set_cre, sk_set_det. cbn -[mem_N]. rewrite ?mem_single.
    destruct (a1 =? k) eqn:E; cbn -[mem_N]; rewrite ?E; destruct (mem_N a1 S) eqn:E2; cbn -[mem_N]; rewrite ?E, ?E2; reflexivity.
  - rewrite map_map. apply map_ext. intros [b1 b2 b3 b4 b5 b6]. cbn -[mem_N]. rewrite ?mem_single, ?mem_cons.
    destruct (b1 =? k) eqn:E; cbn -[mem_N]; rewrite ?E; destruct (mem_N b1 S) eqn:E2; cbn -[mem_N]; rewrite ?E, ?E2; reflexivity.
  - rewrite map_map. apply map_ext. intros [b1 b2 b3]. cbn -[mem_N]. rewrite ?mem_single, ?mem_cons.
    destruct (b1 =? k) eqn:E; cbn -[mem_N]; rewrite ?E; destruct (mem_N b1 S) eqn:E2; cbn -[mem_N]; rewrite ?E, ?E2; reflexivity.
Qed.

(* ---- Step.after_recycle, set_duration, set_resources ---- *)
Lemma skel_set_step_need g k nd :
  sks (set_step_need g k nd) =
    map (fun t => if q_key t =? k
                  then mkSk (q_key t) (q_state t) nd (q_deferred t) (q_dc t) 0 (q_detached t) (q_creator t) (q_stored t) (q_hh t)
                  else t) (sks g).
Proof.
  unfold set_step_need. apply skel_map_steps. intros s. cbn [sk_step q_key]. destruct (s_key s =? k); reflexivity.
Qed.

Lemma same_skel_set_step_duration g k d : same_skel g (set_step_duration g k d).
Proof.
  unfold set_step_duration. eapply same_skel_trans; [|apply same_skel_trigger].
  apply (same_skel_mapg (fun s => if s_key s =? k then set_dur s d else s)).
  intros s. destruct (s_key s =? k); reflexivity.
Qed.
Lemma same_skel_set_step_res g k r : same_skel g (set_step_res g k r).
Proof.
  apply (same_skel_mapg (fun s => if s_key s =? k then set_res s r else s)).
  intros s. destruct (s_key s =? k); reflexivity.
Qed.
