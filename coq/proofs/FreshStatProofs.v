(* C03: proofs about model/FreshStat.v (FileHash.refreshed's shortcut, compute_inp_hashes). *)
From Coq Require Import List NArith Bool Lia.
From SV Require Import model.FreshStatTypes gen.GenFreshStat model.FreshStat.
Import ListNotations.
Open Scope N_scope.
Open Scope bool_scope.

(* ---------- facts about the generated definitions (break when the source changes them) ---------- *)
Lemma fh_eq_fields_spec : fh_eq_fields = [HF_digest; HF_mode; HF_size].
Proof. reflexivity. Qed.

Lemma build_spec : forall dg c,
  refreshed_build_gen dg c = mkFH dg (cf_mode c) (cf_mtime c) (cf_size c) (cf_ino c).
Proof. reflexivity. Qed.

Lemma unknown_spec : fh_unknown_gen = mkFH 0 0 0 0 0 /\ forall h, is_unknown_gen h = (fh_digest h =? 0).
Proof. split; reflexivity. Qed.

Lemma stat_fails_spec : forall h,
  refreshed_stat_fails_gen h = if fh_digest h =? 0 then h else mkFH 0 0 0 0 0.
Proof. reflexivity. Qed.

(* the shortcut of the source compares mode, mtime and inode with their own stat fields *)
Lemma shortcut_covers_source : shortcut_covers refreshed_shortcut = true.
Proof. reflexivity. Qed.

Lemma inp_entry_gen_spec : forall differs nu ou,
  inp_entry_gen differs nu ou =
  (differs, (if differs then (if nu then 1 else 2) else 0), negb differs && ou).
Proof. intros [] [] []; reflexivity. Qed.

Lemma inputs_changed_iff_reported : forall l,
  (forall e, In e l -> exists d nu ou, e = inp_entry_gen d nu ou) ->
  inputs_changed_gen l = inputs_reported_gen l.
Proof.
  induction l as [|e l IH]; intros H; [reflexivity|].
  unfold inputs_changed_gen, inputs_reported_gen in *. cbn [existsb].
  rewrite IH by (intros e' He'; apply H; right; exact He').
  destruct (H e (or_introl eq_refl)) as (d & nu & ou & ->).
  rewrite inp_entry_gen_spec. destruct d, nu; reflexivity.
Qed.

(* ---------- FileHash equality is equality of (digest, mode, size) ---------- *)
Lemma fh_eqb_code : forall a b, fh_eqb a b = code_eqb (code_of_hash a) (code_of_hash b).
Proof.
  intros a b. unfold fh_eqb. rewrite fh_eq_fields_spec. unfold code_eqb, code_of_hash.
  cbn [forallb hf_get fst snd]. rewrite andb_true_r, andb_assoc. reflexivity.
Qed.

Lemma code_eqb_refl : forall a, code_eqb a a = true.
Proof. intros [[x y] z]. unfold code_eqb. cbn [fst snd]. rewrite !N.eqb_refl. reflexivity. Qed.

Lemma code_eqb_eq : forall a b, code_eqb a b = true <-> a = b.
Proof.
  intros [[x y] z] [[x' y'] z']. unfold code_eqb. cbn [fst snd].
  rewrite !andb_true_iff, !N.eqb_eq. split.
  - intros [[-> ->] ->]. reflexivity.
  - intros E. inversion E. auto.
Qed.

(* ---------- the shortcut ---------- *)
Lemma pair_in_taken : forall h s sc self st,
  pair_in h s sc = true -> shortcut_taken sc self st = true -> hf_get h self = sf_get s st.
Proof.
  intros h s sc self st Hin Ht. unfold pair_in in Hin. apply existsb_exists in Hin.
  destruct Hin as ([h' s'] & Hmem & Heq). cbn [fst snd] in Heq. apply andb_true_iff in Heq.
  destruct Heq as [Hh Hs].
  unfold shortcut_taken in Ht. rewrite forallb_forall in Ht. specialize (Ht _ Hmem).
  cbn [fst snd] in Ht. apply N.eqb_eq in Ht.
  destruct h, h'; try discriminate Hh; destruct s, s'; try discriminate Hs; exact Ht.
Qed.

Lemma covers_taken : forall sc self st,
  shortcut_covers sc = true -> shortcut_taken sc self st = true ->
  fh_mode self = cf_mode st /\ fh_mtime self = cf_mtime st /\ fh_ino self = cf_ino st.
Proof.
  intros sc self st Hc Ht. unfold shortcut_covers in Hc. rewrite !andb_true_iff in Hc.
  destruct Hc as [[Hm Ht'] Hi].
  repeat split.
  - exact (pair_in_taken HF_mode SF_mode sc self st Hm Ht).
  - exact (pair_in_taken HF_mtime SF_mtime sc self st Ht' Ht).
  - exact (pair_in_taken HF_ino SF_ino sc self st Hi Ht).
Qed.

(* ---------- a reported change is a real one, whatever the shortcut and the world ---------- *)
Lemma changed_is_real : forall sc old d,
  fh_eqb (refreshed_with sc old d) old = false ->
  code_eqb (code_of_disk d) (code_of_hash old) = false.
Proof.
  intros sc old d H. destruct d as [c|]; cbn [refreshed_with] in H.
  - destruct (shortcut_taken sc old c).
    + rewrite fh_eqb_code, code_eqb_refl in H. discriminate.
    + rewrite fh_eqb_code, build_spec in H. exact H.
  - rewrite stat_fails_spec in H. destruct (fh_digest old =? 0) eqn:E.
    + rewrite fh_eqb_code, code_eqb_refl in H. discriminate.
    + unfold code_eqb, code_of_disk, code_of_hash. cbn [fst snd].
      rewrite N.eqb_sym, E. reflexivity.
Qed.

(* ---------- the invariant of an honest history ---------- *)
Definition inv (c0 : cfile) (d : option cfile) : Prop :=
  forall c, d = Some c ->
    cf_digest c <> 0 /\
    (cf_ino c = cf_ino c0 -> cf_mtime c = cf_mtime c0 ->
     cf_digest c = cf_digest c0 /\ cf_size c = cf_size c0).

Lemma inv_init : forall c0, cf_digest c0 <> 0 -> inv c0 (Some c0).
Proof. intros c0 H c E. inversion E; subst. auto. Qed.

Lemma inv_step : forall c0 d o,
  inv c0 d -> op_wf o = true -> op_honest c0 d o = true -> inv c0 (fs_apply d o).
Proof.
  intros c0 d o Hinv Hwf Hh c' E.
  destruct o as [dg sz mt|cn|mt|m|]; destruct d as [c|]; cbn [fs_apply] in E; try discriminate E;
    inversion E; subst c'; clear E; cbn [cf_digest cf_mode cf_mtime cf_size cf_ino];
    cbn [op_wf op_honest] in Hwf, Hh.
  - (* write in place *)
    split.
    + apply negb_true_iff, N.eqb_neq in Hwf. exact Hwf.
    + intros Hi Hm. apply orb_true_iff in Hh. destruct Hh as [Hh|Hh]; apply negb_true_iff, N.eqb_neq in Hh;
        contradiction.
  - (* rename over an existing file *)
    split.
    + apply negb_true_iff, N.eqb_neq in Hwf. exact Hwf.
    + intros Hi. apply negb_true_iff, N.eqb_neq in Hh. contradiction.
  - (* creation by rename *)
    split.
    + apply negb_true_iff, N.eqb_neq in Hwf. exact Hwf.
    + intros Hi. apply negb_true_iff, N.eqb_neq in Hh. contradiction.
  - (* utime *)
    destruct (Hinv c eq_refl) as [Hd Hrest]. split; [exact Hd|].
    intros Hi Hm. rewrite !orb_true_iff in Hh. destruct Hh as [[Hh|Hh]|Hh].
    + apply negb_true_iff, N.eqb_neq in Hh. contradiction.
    + apply negb_true_iff, N.eqb_neq in Hh. contradiction.
    + apply andb_true_iff in Hh. destruct Hh as [H1 H2]. apply N.eqb_eq in H1, H2. auto.
  - (* chmod *)
    exact (Hinv c eq_refl).
Qed.

Lemma inv_run : forall c0 ops d,
  inv c0 d -> honest c0 d ops = true -> inv c0 (fs_run d ops).
Proof.
  intros c0 ops. induction ops as [|o r IH]; intros d Hinv Hh; [exact Hinv|].
  cbn [honest] in Hh. rewrite !andb_true_iff in Hh. destruct Hh as [[Hwf Ho] Hr].
  unfold fs_run. cbn [fold_left]. apply IH; [apply inv_step; assumption|exact Hr].
Qed.

(* ---------- the main statement ---------- *)
Lemma refreshed_exact_inv : forall sc c0 d,
  shortcut_covers sc = true -> cf_digest c0 <> 0 -> inv c0 d ->
  fh_eqb (refreshed_with sc (record_of c0) d) (record_of c0)
  = code_eqb (code_of_disk d) (code_of_hash (record_of c0)).
Proof.
  intros sc c0 d Hc H0 Hinv.
  destruct (fh_eqb (refreshed_with sc (record_of c0) d) (record_of c0)) eqn:E.
  - symmetry. destruct d as [c|]; cbn [refreshed_with] in E.
    + destruct (shortcut_taken sc (record_of c0) c) eqn:T.
      * destruct (covers_taken sc _ _ Hc T) as (Hm & Ht & Hi).
        unfold record_of in Hm, Ht, Hi. rewrite build_spec in Hm, Ht, Hi.
        cbn [fh_mode fh_mtime fh_ino] in Hm, Ht, Hi.
        destruct (Hinv c eq_refl) as [_ Hsame]. destruct (Hsame (eq_sym Hi) (eq_sym Ht)) as [Hd Hs].
        unfold record_of. rewrite build_spec. unfold code_eqb, code_of_disk, code_of_hash.
        cbn [fst snd fh_digest fh_mode fh_size]. rewrite Hd, Hs, <- Hm, !N.eqb_refl. reflexivity.
      * rewrite fh_eqb_code, build_spec in E. exact E.
    + rewrite stat_fails_spec in E. unfold record_of in E. rewrite build_spec in E.
      cbn [fh_digest] in E. apply N.eqb_neq in H0. rewrite H0 in E.
      rewrite fh_eqb_code in E. unfold code_eqb, code_of_hash in E. cbn [fst snd fh_digest] in E.
      rewrite (N.eqb_sym 0), H0 in E. discriminate.
  - symmetry. exact (changed_is_real sc _ d E).
Qed.

Lemma refreshed_exact_with : forall sc c0 ops,
  shortcut_covers sc = true -> cf_digest c0 <> 0 -> honest c0 (Some c0) ops = true ->
  let old := record_of c0 in
  let d := fs_run (Some c0) ops in
  fh_eqb (refreshed_with sc old d) old = code_eqb (code_of_disk d) (code_of_hash old).
Proof.
  intros sc c0 ops Hc H0 Hh old d. apply refreshed_exact_inv; [exact Hc|exact H0|].
  apply inv_run; [apply inv_init; exact H0|exact Hh].
Qed.

(* ... for the shortcut of the source *)
Lemma refreshed_exact : forall c0 ops,
  cf_digest c0 <> 0 -> honest c0 (Some c0) ops = true ->
  let old := record_of c0 in
  let d := fs_run (Some c0) ops in
  fh_eqb (refreshed old d) old = code_eqb (code_of_disk d) (code_of_hash old).
Proof. intros c0 ops. apply refreshed_exact_with. exact shortcut_covers_source. Qed.

(* one path of compute_inp_hashes after an honest history: entered in new_hashes and reported
   (vanished / changed) iff content, size or mode differ from the record; never a ConsistencyError *)
Lemma inp_entry_exact : forall c0 ops,
  cf_digest c0 <> 0 -> honest c0 (Some c0) ops = true ->
  let old := record_of c0 in
  let d := fs_run (Some c0) ops in
  let differs := negb (code_eqb (code_of_disk d) (code_of_hash old)) in
  inp_entry old d =
  (differs, (if differs then (match d with None => 1 | Some _ => 2 end) else 0), false).
Proof.
  intros c0 ops H0 Hh old d differs. unfold inp_entry, inp_entry_with.
  fold (refreshed old d). rewrite inp_entry_gen_spec.
  pose proof (refreshed_exact c0 ops H0 Hh) as E. cbv zeta in E. fold old d in E.
  rewrite E. fold differs.
  assert (Hou : is_unknown_gen old = false).
  { unfold old, record_of. rewrite build_spec. apply N.eqb_neq. exact H0. }
  rewrite Hou, andb_false_r.
  destruct differs eqn:Ed; [|reflexivity].
  f_equal. f_equal.
  assert (Hinv : inv c0 d) by (apply inv_run; [apply inv_init; exact H0|exact Hh]).
  destruct d as [c|] eqn:Dd.
  - unfold refreshed. cbn [refreshed_with].
    destruct (shortcut_taken refreshed_shortcut old c) eqn:T.
    + (* shortcut taken: then nothing differs, contradiction *)
      exfalso. unfold refreshed in E. cbn [refreshed_with] in E. rewrite T in E.
      rewrite fh_eqb_code, code_eqb_refl in E. unfold differs in Ed. rewrite <- E in Ed. discriminate.
    + rewrite build_spec. destruct (Hinv c eq_refl) as [Hd _].
      apply N.eqb_neq in Hd. unfold is_unknown_gen. cbn [fh_digest]. rewrite Hd. reflexivity.
  - unfold refreshed. cbn [refreshed_with]. rewrite stat_fails_spec.
    unfold is_unknown_gen in Hou. rewrite Hou. reflexivity.
Qed.

(* the whole loop + `unexpected_input_changes = len(new_inp_hashes) > 0` *)
Definition honest_rec (r : cfile * list fsop) : Prop :=
  cf_digest (fst r) <> 0 /\ honest (fst r) (Some (fst r)) (snd r) = true.
Definition rec_of (r : cfile * list fsop) : fhash * option cfile :=
  (record_of (fst r), fs_run (Some (fst r)) (snd r)).

Lemma inputs_changed_exact : forall rs : list (cfile * list fsop),
  (forall r, In r rs -> honest_rec r) ->
  inputs_changed (map rec_of rs)
  = existsb (fun r => negb (code_eqb (code_of_disk (snd (rec_of r))) (code_of_hash (fst (rec_of r))))) rs
  /\ inputs_reported (map rec_of rs) = inputs_changed (map rec_of rs).
Proof.
  intros rs H. split.
  - unfold inputs_changed, inputs_changed_gen. rewrite map_map.
    induction rs as [|r rs IH]; [reflexivity|].
    cbn [map existsb]. rewrite IH by (intros r' Hr'; apply H; right; exact Hr').
    f_equal. destruct (H r (or_introl eq_refl)) as [H0 Hh].
    unfold rec_of. cbn [fst snd]. pose proof (inp_entry_exact (fst r) (snd r) H0 Hh) as E.
    cbv zeta in E. rewrite E. reflexivity.
  - unfold inputs_changed, inputs_reported. symmetry. apply inputs_changed_iff_reported.
    intros e He. apply in_map_iff in He. destruct He as (x & <- & _).
    unfold inp_entry, inp_entry_with. eauto.
Qed.

(* ---------- unreadable paths (9b8c8cd, fix of D44) ---------- *)
(* the source reports a path that is no longer a readable regular file (breaks if the fix is reverted) *)
Lemma unreadable_reported_source : unreadable_input_reported = true.
Proof. reflexivity. Qed.

(* ... as changed (entered in new_hashes, message kind 2, no ConsistencyError), for every record of an
   existing file: so unexpected_input_changes is True and the step FAILS and the scheduler drains *)
Lemma unreadable_input_is_reported old :
  is_unknown_gen old = false -> inp_entry_path old PUnreadable = Some (true, 2, false).
Proof.
  intros Hu. unfold inp_entry_path. rewrite unreadable_reported_source.
  assert (E : fh_eqb fh_unknown_gen old = false).
  { rewrite fh_eqb_code. unfold code_eqb, code_of_hash. cbn [fst snd fh_digest fh_unknown_gen].
    unfold is_unknown_gen in Hu. rewrite N.eqb_sym, Hu. reflexivity. }
  rewrite E, Hu. reflexivity.
Qed.

Lemma unreadable_makes_inputs_changed old rest :
  is_unknown_gen old = false ->
  forall e, inp_entry_path old PUnreadable = Some e -> inputs_changed_gen (e :: rest) = true.
Proof.
  intros Hu e He. rewrite (unreadable_input_is_reported old Hu) in He. inversion He; subst. reflexivity.
Qed.

(* ---------- the link with the hash codes of model/Fresh.v ---------- *)
Section HashCodes.
  (* the driver's numbering of (digest, mode, size) triples: any injective numbering *)
  Variable enc : N * N * N -> N.
  Hypothesis enc_inj : forall a b, enc a = enc b -> a = b.

  Lemma fresh_disk_test_exact : forall c0 ops,
    cf_digest c0 <> 0 -> honest c0 (Some c0) ops = true ->
    let old := record_of c0 in
    let d := fs_run (Some c0) ops in
    fst (fst (inp_entry old d)) = negb (enc (code_of_disk d) =? enc (code_of_hash old)).
  Proof.
    intros c0 ops H0 Hh old d. pose proof (inp_entry_exact c0 ops H0 Hh) as E. cbv zeta in E.
    fold old d in E. rewrite E. cbn [fst]. f_equal.
    destruct (code_eqb (code_of_disk d) (code_of_hash old)) eqn:C.
    - apply code_eqb_eq in C. rewrite C. symmetry. apply N.eqb_refl.
    - symmetry. apply N.eqb_neq. intros X. apply enc_inj in X. apply code_eqb_eq in X.
      rewrite X in C. discriminate.
  Qed.
End HashCodes.

(* ---------- what happens without the hypotheses ---------- *)
(* The recorded file (digest 1, mode 420, mtime 5, size 3, inode 10) is replaced through rename(2)
   by other bytes (digest 2) in inode 11 with the recorded mode, mtime and size: an honest history.
   A shortcut that does not compare the inode number returns the old object. *)
Definition wit_c0 : cfile := mkCF 1 420 5 3 10.
Definition wit_rename_keep : list fsop := [OpRename (mkCF 2 420 5 3 11)].

Lemma without_inode_refuted :
  cf_digest wit_c0 <> 0 /\ honest wit_c0 (Some wit_c0) wit_rename_keep = true /\
  code_eqb (code_of_disk (fs_run (Some wit_c0) wit_rename_keep)) (code_of_hash (record_of wit_c0)) = false /\
  inp_entry_with shortcut_without_inode (record_of wit_c0) (fs_run (Some wit_c0) wit_rename_keep)
    = (false, 0, false) /\
  inp_entry_with shortcut_full (record_of wit_c0) (fs_run (Some wit_c0) wit_rename_keep) = (true, 2, false).
Proof. split; [discriminate|]. vm_compute. repeat split; reflexivity. Qed.

Lemma exact_without_inode_refuted :
  ~ (forall c0 ops, cf_digest c0 <> 0 -> honest c0 (Some c0) ops = true ->
       fh_eqb (refreshed_with shortcut_without_inode (record_of c0) (fs_run (Some c0) ops)) (record_of c0)
       = code_eqb (code_of_disk (fs_run (Some c0) ops)) (code_of_hash (record_of c0))).
Proof.
  intros H. specialize (H wit_c0 wit_rename_keep). 
  assert (X : cf_digest wit_c0 <> 0) by discriminate.
  specialize (H X eq_refl). vm_compute in H. discriminate.
Qed.

(* The assumption cannot be dropped: other bytes of the same size written in place, then the recorded
   mtime restored by utime -- no stat field differs, even the full shortcut returns the old object. *)
Definition wit_forgery : list fsop := [OpWrite 2 3 9; OpUtime 5].

Lemma forgery_not_noticed :
  honest wit_c0 (Some wit_c0) wit_forgery = false /\
  code_eqb (code_of_disk (fs_run (Some wit_c0) wit_forgery)) (code_of_hash (record_of wit_c0)) = false /\
  inp_entry_with shortcut_full (record_of wit_c0) (fs_run (Some wit_c0) wit_forgery) = (false, 0, false).
Proof. vm_compute. repeat split; reflexivity. Qed.

(* non-vacuity: an honest history with every kind of operation; the file ends with other bytes *)
Definition wit_history : list fsop :=
  [OpUtime 6; OpChmod 493; OpRename (mkCF 1 420 5 3 12); OpWrite 7 4 8; OpUnlink; OpRename (mkCF 3 420 5 3 13)].
Lemma honest_example :
  honest wit_c0 (Some wit_c0) wit_history = true /\
  inp_entry (record_of wit_c0) (fs_run (Some wit_c0) wit_history) = (true, 2, false) /\
  inp_entry (record_of wit_c0) (fs_run (Some wit_c0) [OpUtime 6; OpRename (mkCF 1 420 5 3 12)]) = (false, 0, false) /\
  inp_entry (record_of wit_c0) (fs_run (Some wit_c0) [OpUnlink]) = (true, 1, false).
Proof. vm_compute. repeat split; reflexivity. Qed.
