(* Finite maps from N keys to N stamps as association lists without duplicate keys, with the
   dictionary operations that Scheduler.start_times / stop_times use (get, item assignment, pop,
   clear, min over values, deletion of the entries whose value satisfies a test). Generic. *)
From Coq Require Import List NArith Bool Lia.
Import ListNotations.
Open Scope N_scope.

Definition smap := list (N * N).

Inductive cmpop := CLt | CLe | CGt | CGe | CEq | CNe.

Definition cmp_eval (o : cmpop) (a b : N) : bool :=
  match o with
  | CLt => a <? b
  | CLe => a <=? b
  | CGt => b <? a
  | CGe => b <=? a
  | CEq => a =? b
  | CNe => negb (a =? b)
  end.

Fixpoint sm_get (k : N) (m : smap) : option N :=
  match m with
  | [] => None
  | (k', v) :: r => if k' =? k then Some v else sm_get k r
  end.

Fixpoint sm_remove (k : N) (m : smap) : smap :=
  match m with
  | [] => []
  | (k', v) :: r => if k' =? k then sm_remove k r else (k', v) :: sm_remove k r
  end.

Definition sm_set (k v : N) (m : smap) : smap := (k, v) :: sm_remove k m.

Definition sm_is_empty (m : smap) : bool := match m with [] => true | _ => false end.

(* min(m.values()) for a non-empty map; 0 for the empty one (never used there). *)
Fixpoint sm_min (m : smap) : N :=
  match m with
  | [] => 0
  | [(_, v)] => v
  | (_, v) :: r => N.min v (sm_min r)
  end.

(* Delete every entry whose value v satisfies `v <op> bound`. *)
Fixpoint sm_drop_if (o : cmpop) (bound : N) (m : smap) : smap :=
  match m with
  | [] => []
  | (k, v) :: r => if cmp_eval o v bound then sm_drop_if o bound r else (k, v) :: sm_drop_if o bound r
  end.

Definition sm_keys (m : smap) : list N := map fst m.

(* Canonical comparison of two maps as finite functions over a list of keys. *)
Definition opt_eqb (a b : option N) : bool :=
  match a, b with
  | Some x, Some y => x =? y
  | None, None => true
  | _, _ => false
  end.

Definition sm_agree_on (ks : list N) (m1 m2 : smap) : bool :=
  forallb (fun k => opt_eqb (sm_get k m1) (sm_get k m2)) ks.

(* ------------------------------------------------------------------------------------------ *)
(* Lemmas                                                                                     *)
(* ------------------------------------------------------------------------------------------ *)

Lemma sm_get_remove_same k m : sm_get k (sm_remove k m) = None.
Proof.
  induction m as [|[k' v] r IH]; cbn; [reflexivity|].
  destruct (N.eqb_spec k' k) as [->|Hne]; [exact IH|].
  cbn. destruct (N.eqb_spec k' k); [contradiction|exact IH].
Qed.

Lemma sm_get_remove_other k k' m : k <> k' -> sm_get k (sm_remove k' m) = sm_get k m.
Proof.
  intros Hne. induction m as [|[k2 v] r IH]; cbn; [reflexivity|].
  destruct (N.eqb_spec k2 k') as [->|H2].
  - destruct (N.eqb_spec k' k) as [->|_]; [contradiction|exact IH].
  - cbn. destruct (N.eqb_spec k2 k); [reflexivity|exact IH].
Qed.

Lemma sm_get_set_same k v m : sm_get k (sm_set k v m) = Some v.
Proof. unfold sm_set. cbn. rewrite N.eqb_refl. reflexivity. Qed.

Lemma sm_get_set_other k k' v m : k <> k' -> sm_get k (sm_set k' v m) = sm_get k m.
Proof.
  intros Hne. unfold sm_set. cbn. destruct (N.eqb_spec k' k) as [->|_]; [contradiction|].
  apply sm_get_remove_other. exact Hne.
Qed.

Lemma sm_get_In k v m : sm_get k m = Some v -> In (k, v) m.
Proof.
  induction m as [|[k' v'] r IH]; cbn; [discriminate|].
  destruct (N.eqb_spec k' k) as [->|_].
  - intros H. inversion H; subst. left. reflexivity.
  - intros H. right. apply IH. exact H.
Qed.

Lemma sm_keys_remove_subset k m x : In x (sm_keys (sm_remove k m)) -> In x (sm_keys m) /\ x <> k.
Proof.
  induction m as [|[k' v] r IH]; cbn; [tauto|].
  destruct (N.eqb_spec k' k) as [->|Hne]; cbn.
  - intros H. apply IH in H. tauto.
  - intros [H|H]; [subst; tauto|]. apply IH in H. tauto.
Qed.

Lemma sm_nodup_remove k m : NoDup (sm_keys m) -> NoDup (sm_keys (sm_remove k m)).
Proof.
  induction m as [|[k' v] r IH]; cbn; intros H; [constructor|].
  inversion H as [|? ? Hnin Hnd]; subst.
  destruct (N.eqb_spec k' k) as [->|Hne]; [apply IH; exact Hnd|].
  cbn. constructor; [|apply IH; exact Hnd].
  intros Hin. apply sm_keys_remove_subset in Hin. tauto.
Qed.

Lemma sm_nodup_set k v m : NoDup (sm_keys m) -> NoDup (sm_keys (sm_set k v m)).
Proof.
  intros H. unfold sm_set. cbn. constructor; [|apply sm_nodup_remove; exact H].
  intros Hin. apply sm_keys_remove_subset in Hin. tauto.
Qed.

Lemma sm_keys_drop_subset o b m x : In x (sm_keys (sm_drop_if o b m)) -> In x (sm_keys m).
Proof.
  induction m as [|[k v] r IH]; cbn; [tauto|].
  destruct (cmp_eval o v b); cbn; [intros H; right; apply IH; exact H|].
  intros [H|H]; [left; exact H|right; apply IH; exact H].
Qed.

Lemma sm_nodup_drop o b m : NoDup (sm_keys m) -> NoDup (sm_keys (sm_drop_if o b m)).
Proof.
  induction m as [|[k v] r IH]; cbn; intros H; [constructor|].
  inversion H as [|? ? Hnin Hnd]; subst.
  destruct (cmp_eval o v b); [apply IH; exact Hnd|].
  cbn. constructor; [|apply IH; exact Hnd].
  intros Hin. apply Hnin. eapply sm_keys_drop_subset. exact Hin.
Qed.

Lemma sm_get_not_in k m : ~ In k (sm_keys m) -> sm_get k m = None.
Proof.
  induction m as [|[k' v] r IH]; cbn; [reflexivity|].
  intros H. destruct (N.eqb_spec k' k) as [->|_]; [exfalso; apply H; left; reflexivity|].
  apply IH. intros Hin. apply H. right. exact Hin.
Qed.

(* With duplicate-free keys, dropping by value is a pointwise operation. *)
Lemma sm_get_drop o b k m :
  NoDup (sm_keys m) ->
  sm_get k (sm_drop_if o b m) =
  match sm_get k m with
  | Some v => if cmp_eval o v b then None else Some v
  | None => None
  end.
Proof.
  induction m as [|[k' v] r IH]; cbn; intros H; [reflexivity|].
  inversion H as [|? ? Hnin Hnd]; subst.
  destruct (N.eqb_spec k' k) as [->|Hne].
  - destruct (cmp_eval o v b) eqn:Hc.
    + apply sm_get_not_in. intros Hin. apply Hnin. eapply sm_keys_drop_subset. exact Hin.
    + cbn. rewrite N.eqb_refl. reflexivity.
  - destruct (cmp_eval o v b) eqn:Hc.
    + apply IH. exact Hnd.
    + cbn. destruct (N.eqb_spec k' k); [contradiction|]. apply IH. exact Hnd.
Qed.

Lemma sm_min_le k v m : sm_get k m = Some v -> sm_min m <= v.
Proof.
  revert k v. induction m as [|[k' v'] r IH]; intros k v; [discriminate|].
  cbn [sm_get]. destruct (N.eqb_spec k' k) as [->|_].
  - intros H. inversion H; subst. destruct r as [|p r']; cbn [sm_min]; [lia|].
    destruct p. apply N.le_min_l.
  - intros H. destruct r as [|p r']; [discriminate|].
    specialize (IH k v H). change (sm_min ((k', v') :: p :: r')) with (N.min v' (sm_min (p :: r'))).
    destruct p. pose proof (N.le_min_r v' (sm_min ((n, n0) :: r'))). lia.
Qed.

Lemma sm_is_empty_get m : sm_is_empty m = true -> forall k, sm_get k m = None.
Proof. destruct m; [reflexivity|discriminate]. Qed.

Lemma opt_eqb_eq a b : opt_eqb a b = true <-> a = b.
Proof.
  destruct a as [x|], b as [y|]; cbn; split; intros H; try congruence; try discriminate.
  - apply N.eqb_eq in H. congruence.
  - inversion H; subst. apply N.eqb_refl.
Qed.
