(* Boolean SQL fragments as data: expression AST over an abstract column type, with SQLite's
   three-valued evaluation (None = NULL, truth = non-zero).  Generic; produced by
   translator/sqlexpr.py. *)
From Coq Require Import List NArith Bool.
Import ListNotations.
Open Scope N_scope.

Inductive cmpop := CEq | CNe | CLt | CLe | CGt | CGe.

Inductive sexpr (C : Type) : Type :=
| SConst (n : N)
| SCol (c : C)
| SNot (e : sexpr C)
| SAnd (a b : sexpr C)
| SOr (a b : sexpr C)
| SCmp (op : cmpop) (a b : sexpr C)
| SIn (e : sexpr C) (l : list N)
| SNotIn (e : sexpr C) (l : list N)
| SIsNull (e : sexpr C)
| SIsNotNull (e : sexpr C).
Arguments SConst {C}. Arguments SCol {C}. Arguments SNot {C}. Arguments SAnd {C}.
Arguments SOr {C}. Arguments SCmp {C}. Arguments SIn {C}. Arguments SNotIn {C}.
Arguments SIsNull {C}. Arguments SIsNotNull {C}.

Definition b2n (b : bool) : N := if b then 1 else 0.
Definition truth (v : option N) : option bool :=
  match v with None => None | Some n => Some (negb (n =? 0)) end.

Definition cmp_eval (op : cmpop) (a b : N) : bool :=
  match op with
  | CEq => a =? b | CNe => negb (a =? b)
  | CLt => a <? b | CLe => a <=? b
  | CGt => b <? a | CGe => b <=? a
  end.

Definition mem_N (x : N) (l : list N) : bool := existsb (N.eqb x) l.

Definition and3 (a b : option bool) : option bool :=
  match a, b with
  | Some false, _ | _, Some false => Some false
  | Some true, Some true => Some true
  | _, _ => None
  end.
Definition or3 (a b : option bool) : option bool :=
  match a, b with
  | Some true, _ | _, Some true => Some true
  | Some false, Some false => Some false
  | _, _ => None
  end.

Section Eval.
  Context {C : Type} (env : C -> option N).
  Fixpoint seval (e : sexpr C) : option N :=
    match e with
    | SConst n => Some n
    | SCol c => env c
    | SNot a => option_map (fun b => b2n (negb b)) (truth (seval a))
    | SAnd a b => option_map b2n (and3 (truth (seval a)) (truth (seval b)))
    | SOr a b => option_map b2n (or3 (truth (seval a)) (truth (seval b)))
    | SCmp op a b => match seval a, seval b with
                     | Some x, Some y => Some (b2n (cmp_eval op x y))
                     | _, _ => None
                     end
    | SIn a l => option_map (fun x => b2n (mem_N x l)) (seval a)
    | SNotIn a l => option_map (fun x => b2n (negb (mem_N x l))) (seval a)
    | SIsNull a => Some (b2n (match seval a with None => true | Some _ => false end))
    | SIsNotNull a => Some (b2n (match seval a with None => false | Some _ => true end))
    end.
  (* A WHERE clause keeps the row iff the value is true (NULL and 0 drop it). *)
  Definition sholds (e : sexpr C) : bool :=
    match truth (seval e) with Some true => true | _ => false end.
End Eval.
