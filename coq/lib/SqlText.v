(* SQLite text predicates used by StepUp: LIKE with ESCAPE (optional ASCII case folding),
   substr/length prefix equality.  Strings are code-point lists (SQLite's LIKE, substr and
   length all work on characters of TEXT values). *)
From Coq Require Import List NArith Bool Lia.
From SV Require Import lib.Bytes.
Import ListNotations.
Open Scope N_scope.

Definition PCT : N := 37.   (* % *)
Definition USC : N := 95.   (* _ *)

(* sqlite3Tolower on ASCII; characters >= 0x80 are never folded (no ICU). *)
Definition tolower (c : N) : N := if (65 <=? c) && (c <=? 90) then c + 32 else c.

Definition ceq (nocase : bool) (a b : N) : bool :=
  if nocase then tolower a =? tolower b else a =? b.

(* like nocase esc pat s : value of  s LIKE pat ESCAPE esc  *)
Fixpoint like (nocase : bool) (esc : N) (p : str) (s : str) {struct p} : bool :=
  match p with
  | [] => match s with [] => true | _ => false end
  | c :: p' =>
    if c =? esc then
      match p' with
      | [] => false                       (* pattern ends with the escape character *)
      | c' :: p'' =>
        match s with
        | [] => false
        | x :: s' => ceq nocase c' x && like nocase esc p'' s'
        end
      end
    else if c =? PCT then
      (fix star (s : str) : bool :=
         like nocase esc p' s ||
         match s with [] => false | _ :: s' => star s' end) s
    else if c =? USC then
      match s with [] => false | _ :: s' => like nocase esc p' s' end
    else
      match s with [] => false | x :: s' => ceq nocase c x && like nocase esc p' s' end
  end.

(* label = substr(arg, 1, length(label)) *)
Definition substr_eq (label arg : str) : bool := str_eqb label (firstn (length label) arg).

(* A chain of str.replace(single char, replacement) calls applied left to right,
   as written in prefix_clause. *)
Definition replace1 (c : N) (r : str) (s : str) : str :=
  flat_map (fun x => if x =? c then r else [x]) s.
Definition apply_chain (chain : list (N * str)) (s : str) : str :=
  fold_left (fun acc cr => replace1 (fst cr) (snd cr) acc) chain s.
