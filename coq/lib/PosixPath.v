(* Python's posixpath (and the few methods of the `path` library that stepup.core.path uses)
   as total Gallina functions over code-point strings, plus the algebra needed by C20.

   Conventions: '/' = 47, '.' = 46.  A path string is any [str]; nothing is assumed about it.
   [normpath] reproduces posixpath.normpath including the POSIX rule that exactly two leading
   slashes are kept.  Functions that read os.getcwd() in Python take it as the argument [cwd]. *)
From Coq Require Import List NArith Bool Lia Arith.
From SV Require Import lib.Bytes.
Import ListNotations.
Open Scope N_scope.

(* ------------------------------------------------------------------------------------------ *)
(* Definitions                                                                                *)
(* ------------------------------------------------------------------------------------------ *)

Definition s_dot : str := [46].
Definition s_dotdot : str := [46; 46].

(* str.split("/") : never the empty list. *)
Fixpoint split_slash (s : str) : list str :=
  match s with
  | [] => [[]]
  | c :: s' =>
      if c =? 47 then [] :: split_slash s'
      else match split_slash s' with
           | h :: t => (c :: h) :: t
           | [] => [[c]]
           end
  end.

(* "/".join(l) *)
Fixpoint join_slash (l : list str) : str :=
  match l with
  | [] => []
  | x :: rest => match rest with [] => x | _ :: _ => x ++ 47 :: join_slash rest end
  end.

Definition nonemptyb (c : str) : bool := match c with [] => false | _ :: _ => true end.

(* The non-empty components: [x for x in s.split("/") if x]. *)
Definition comps (s : str) : list str := filter nonemptyb (split_slash s).

Definition isabs (s : str) : bool := match s with c :: _ => c =? 47 | [] => false end.

(* Number of leading slashes that normpath keeps: 0, 1, or 2 (exactly two leading slashes). *)
Definition nslash (s : str) : nat :=
  if isabs s then (if isabs (tl s) && negb (isabs (tl (tl s))) then 2 else 1)%nat else 0%nat.

(* s.endswith(suf) / s.startswith(pre) *)
Definition ends_with (s suf : str) : bool := is_prefix (rev suf) (rev s).
Definition starts_with (s pre : str) : bool := is_prefix pre s.

Definition is_dot (c : str) : bool := str_eqb c s_dot.
Definition is_dotdot (c : str) : bool := str_eqb c s_dotdot.

(* One iteration of the loop of posixpath.normpath; the stack [S] is new_comps reversed and
   [m] is "initial_slashes is non-empty".  Empty components never reach it (see [comps]). *)
Definition step (m : bool) (S : list str) (c : str) : list str :=
  if is_dot c then S
  else if is_dotdot c then
         match S with
         | [] => if m then [] else [c]
         | t :: S' => if is_dotdot t then c :: S else S'
         end
       else c :: S.

Definition run (m : bool) (S : list str) (cs : list str) : list str := fold_left (step m) cs S.

Definition render (k : nat) (cs : list str) : str :=
  match repeat 47 k ++ join_slash cs with
  | [] => s_dot
  | r => r
  end.

Definition norm_comps (s : str) : list str := rev (run (isabs s) [] (comps s)).

(* posixpath.normpath *)
Definition normpath (s : str) : str := render (nslash s) (norm_comps s).

(* posixpath.join(a, b) *)
Definition join2 (a b : str) : str :=
  if isabs b then b
  else match a with
       | [] => b
       | _ :: _ => if ends_with a [47] then a ++ b else a ++ 47 :: b
       end.

(* posixpath.abspath with os.getcwd() = cwd *)
Definition abspath (cwd p : str) : str := normpath (join2 cwd p).

Fixpoint strip_common (a b : list str) : list str * list str :=
  match a, b with
  | x :: a', y :: b' => if str_eqb x y then strip_common a' b' else (a, b)
  | _, _ => (a, b)
  end.

Definition rel_segments (o d : list str) : list str :=
  let (ro, rd) := strip_common o d in repeat s_dotdot (length ro) ++ rd.

Definition render_rel (segs : list str) : str :=
  match segs with [] => s_dot | _ :: _ => join_slash segs end.

(* posixpath.relpath(path, start); None is the ValueError for an empty path. *)
Definition posix_relpath (cwd path start : str) : option str :=
  match path with
  | [] => None
  | _ :: _ => Some (render_rel (rel_segments (comps (abspath cwd start)) (comps (abspath cwd path))))
  end.

(* path.Path.relpathto: origin.relpathto(dest), both made absolute first.  The first element of
   splitall() of a normalised absolute path is "/" or "//"; when they differ the absolute
   destination is returned. *)
Definition plib_relpathto (cwd origin dest : str) : str :=
  let o := abspath cwd origin in
  let d := abspath cwd dest in
  if Nat.eqb (nslash o) (nslash d)
  then render_rel (rel_segments (comps o) (comps d))
  else d.

(* path.Path.relpath: self.relpath(start) *)
Definition plib_relpath (cwd self start : str) : str := plib_relpathto cwd start self.

(* Lexical (symlink-free) resolution of [p] by a process whose working directory is [dir]. *)
Definition resolve (dir p : str) : str := normpath (join2 dir p).

(* Environment variables: an association list; os.getenv(name, default). *)
Definition environ := list (str * str).
Fixpoint getenv (e : environ) (name dflt : str) : str :=
  match e with
  | [] => dflt
  | (k, v) :: e' => if str_eqb k name then v else getenv e' name dflt
  end.

(* Result of a Python function that may raise: [Raise n] is the n-th raise statement of the
   function in source order (1-based). *)
Inductive pyres (A : Type) := Ok (a : A) | Raise (site : nat).
Arguments Ok {A} a.
Arguments Raise {A} site.

(* Well-formedness predicates (boolean, so that concrete inputs can be checked by computation). *)
Definition normalized (s : str) : bool := str_eqb (normpath s) s.
Definition abs_normalized (s : str) : bool := isabs s && normalized s.
Definition rel_normalized (s : str) : bool := negb (isabs s) && normalized s.

(* ------------------------------------------------------------------------------------------ *)
(* Text level: split / join / comps                                                           *)
(* ------------------------------------------------------------------------------------------ *)

Definition slashfree (c : str) : bool := forallb (fun x => negb (x =? 47)) c.
(* a component as produced by [comps]: non-empty, without '/' *)
Definition good (c : str) : bool := nonemptyb c && slashfree c.
Definition name (c : str) : bool := negb (is_dot c) && negb (is_dotdot c).

Lemma split_slash_nonnil s : split_slash s <> [].
Proof.
  destruct s as [|c s]; cbn; [discriminate|].
  destruct (c =? 47); [discriminate|]. destruct (split_slash s); discriminate.
Qed.

Lemma split_slash_app_slash a b : split_slash (a ++ 47 :: b) = split_slash a ++ split_slash b.
Proof.
  induction a as [|c a IH]; cbn [app split_slash].
  - reflexivity.
  - destruct (c =? 47) eqn:E.
    + rewrite IH. reflexivity.
    + rewrite IH. destruct (split_slash a) as [|h t] eqn:Ea.
      * exfalso. eapply split_slash_nonnil; eassumption.
      * reflexivity.
Qed.

Lemma comps_app_slash a b : comps (a ++ 47 :: b) = comps a ++ comps b.
Proof. unfold comps. rewrite split_slash_app_slash. apply filter_app. Qed.

Lemma comps_nil : comps [] = [].
Proof. reflexivity. Qed.

Lemma split_slash_slashfree c : slashfree c = true -> split_slash c = [c].
Proof.
  induction c as [|x c IH]; cbn; [reflexivity|].
  intros H. apply andb_true_iff in H as [Hx Hc]. apply negb_true_iff in Hx. rewrite Hx.
  rewrite (IH Hc). reflexivity.
Qed.

Lemma comps_good c : good c = true -> comps c = [c].
Proof.
  unfold good, comps. intros H. apply andb_true_iff in H as [Hn Hs].
  rewrite (split_slash_slashfree _ Hs). cbn. rewrite Hn. reflexivity.
Qed.

Lemma comps_join_slash cs : forallb good cs = true -> comps (join_slash cs) = cs.
Proof.
  induction cs as [|x rest IH]; [reflexivity|].
  intros H. cbn [forallb] in H. apply andb_true_iff in H as [Hx Hr].
  cbn [join_slash]. destruct rest as [|y rest'].
  - apply comps_good. exact Hx.
  - rewrite comps_app_slash, (comps_good _ Hx), (IH Hr). reflexivity.
Qed.

Lemma split_slash_slashfree_all s : forallb slashfree (split_slash s) = true.
Proof.
  induction s as [|c s IH]; [reflexivity|]. cbn [split_slash].
  destruct (c =? 47) eqn:E.
  - cbn. exact IH.
  - destruct (split_slash s) as [|h t]; cbn; [rewrite E; reflexivity|].
    cbn in IH. rewrite E. cbn. exact IH.
Qed.

Lemma comps_all_good s : forallb good (comps s) = true.
Proof.
  unfold comps. pose proof (split_slash_slashfree_all s) as H.
  induction (split_slash s) as [|x l IH]; [reflexivity|].
  cbn in H. apply andb_true_iff in H as [Hx Hl]. cbn [filter].
  destruct (nonemptyb x) eqn:En; [|exact (IH Hl)].
  cbn [forallb]. unfold good at 1. rewrite En, Hx. cbn. exact (IH Hl).
Qed.

Lemma comps_repeat_slash k s : comps (repeat 47 k ++ s) = comps s.
Proof.
  induction k as [|k IH]; [reflexivity|].
  cbn [repeat app]. change (47 :: repeat 47 k ++ s) with ([] ++ 47 :: (repeat 47 k ++ s)).
  rewrite comps_app_slash, comps_nil. exact IH.
Qed.

Lemma ends_with_slash_inv a : ends_with a [47] = true -> exists a', a = a' ++ [47].
Proof.
  unfold ends_with. cbn [rev app]. destruct (rev a) as [|x t] eqn:E; cbn [is_prefix]; [discriminate|].
  rewrite andb_true_r. intros H. apply N.eqb_eq in H. subst x.
  exists (rev t). rewrite <- (rev_involutive a), E. reflexivity.
Qed.

Lemma good_not_abs c : good c = true -> isabs c = false.
Proof.
  destruct c as [|x c]; [reflexivity|]. unfold good. cbn [nonemptyb slashfree forallb isabs andb]. intros H.
  apply andb_true_iff in H as [Hx _]. apply negb_true_iff in Hx. exact Hx.
Qed.

Lemma isabs_app a b : a <> [] -> isabs (a ++ b) = isabs a.
Proof. destruct a; [congruence|reflexivity]. Qed.

Lemma isabs_join2 a b : isabs (join2 a b) = isabs b || isabs a.
Proof.
  unfold join2. destruct (isabs b) eqn:Eb; [exact Eb|]. cbn [orb].
  destruct a as [|x a]; [exact Eb|]. destruct (ends_with (x :: a) [47]); reflexivity.
Qed.

Lemma join2_abs a b : isabs b = true -> join2 a b = b.
Proof. unfold join2. intros ->. reflexivity. Qed.

Lemma comps_join2 a b : isabs b = false -> comps (join2 a b) = comps a ++ comps b.
Proof.
  intros Hb. unfold join2. rewrite Hb. destruct a as [|x a]; [reflexivity|].
  destruct (ends_with (x :: a) [47]) eqn:E.
  - apply ends_with_slash_inv in E as [a' Ha]. rewrite Ha, <- app_assoc. cbn [app].
    rewrite !comps_app_slash, comps_nil, app_nil_r. reflexivity.
  - apply comps_app_slash.
Qed.

Lemma nslash_join2 a b : isabs b = false -> nslash (join2 a b) = nslash a.
Proof.
  intros Hb. unfold join2. rewrite Hb. destruct a as [|x a].
  - unfold nslash. rewrite Hb. reflexivity.
  - destruct (ends_with (x :: a) [47]) eqn:E.
    + apply ends_with_slash_inv in E as [a' Ha]. rewrite Ha.
      destruct a' as [|y1 [|y2 [|y3 a'']]]; unfold nslash; cbn [app tl isabs].
      * rewrite N.eqb_refl, Hb. destruct b; reflexivity.
      * destruct (y1 =? 47); [|reflexivity]. rewrite N.eqb_refl, Hb. reflexivity.
      * reflexivity.
      * reflexivity.
    + destruct a as [|y2 [|y3 a'']]; unfold nslash; cbn [app tl isabs].
      * destruct (N.eqb_spec x 47) as [->|Hx]; [|reflexivity].
        exfalso. vm_compute in E. discriminate.
      * destruct (N.eqb_spec x 47) as [->|Hx]; [|reflexivity].
        destruct (N.eqb_spec y2 47) as [->|Hy]; [|reflexivity].
        exfalso. vm_compute in E. discriminate.
      * reflexivity.
Qed.

Lemma isabs_nslash s : isabs s = negb (Nat.eqb (nslash s) 0).
Proof. unfold nslash. destruct (isabs s); [|reflexivity]. destruct (_ && _); reflexivity. Qed.

Lemma nslash_le2 s : (nslash s <= 2)%nat.
Proof. unfold nslash. destruct (isabs s); [destruct (_ && _)|]; lia. Qed.

(* ------------------------------------------------------------------------------------------ *)
(* Stack level: the loop of normpath                                                          *)
(* ------------------------------------------------------------------------------------------ *)

Lemma run_app m S a b : run m S (a ++ b) = run m (run m S a) b.
Proof. unfold run. apply fold_left_app. Qed.

Lemma run_cons m S c cs : run m S (c :: cs) = run m (step m S c) cs.
Proof. reflexivity. Qed.

Lemma run_snoc m S cs c : run m S (cs ++ [c]) = step m (run m S cs) c.
Proof. rewrite run_app. reflexivity. Qed.

Lemma step_name m S c : name c = true -> step m S c = c :: S.
Proof.
  unfold name, step. intros H. apply andb_true_iff in H as [H1 H2].
  apply negb_true_iff in H1, H2. rewrite H1, H2. reflexivity.
Qed.

Lemma step_dot m S : step m S s_dot = S.
Proof. reflexivity. Qed.

(* Normal stacks: no ".", and ".." only at the bottom and only in relative mode. *)
Fixpoint nstack (m : bool) (S : list str) : bool :=
  match S with
  | [] => true
  | c :: S' => negb (is_dot c) && (if is_dotdot c then negb m && forallb is_dotdot S' else nstack m S')
  end.

Lemma is_dotdot_not_dot c : is_dotdot c = true -> is_dot c = false.
Proof.
  unfold is_dotdot, is_dot. intros H. apply str_eqb_eq in H. subst c. reflexivity.
Qed.

Lemma all_dotdot_nstack S : forallb is_dotdot S = true -> nstack false S = true.
Proof.
  induction S as [|c S IH]; [reflexivity|]. cbn [forallb nstack]. intros H.
  apply andb_true_iff in H as [Hc HS]. rewrite Hc, (is_dotdot_not_dot _ Hc), HS. reflexivity.
Qed.

Lemma nstack_tail m c S : nstack m (c :: S) = true -> nstack m S = true.
Proof.
  cbn [nstack]. intros H. apply andb_true_iff in H as [_ H].
  destruct (is_dotdot c); [|exact H].
  apply andb_true_iff in H as [Hm HS]. apply negb_true_iff in Hm. subst m.
  apply all_dotdot_nstack. exact HS.
Qed.

Lemma step_nstack m S c : nstack m S = true -> nstack m (step m S c) = true.
Proof.
  intros HS. unfold step. destruct (is_dot c) eqn:Ed; [exact HS|].
  destruct (is_dotdot c) eqn:Edd.
  - destruct S as [|t S'].
    + destruct m; [reflexivity|]. cbn [nstack]. rewrite Ed, Edd. reflexivity.
    + destruct (is_dotdot t) eqn:Et.
      * cbn [nstack] in HS |- *. rewrite Et in HS. rewrite Ed, Edd. cbn [negb andb].
        apply andb_true_iff in HS as [_ HS]. apply andb_true_iff in HS as [Hm HS'].
        rewrite Hm. cbn [andb forallb]. rewrite Et, HS'. reflexivity.
      * eapply nstack_tail. exact HS.
  - cbn [nstack]. rewrite Ed, Edd. exact HS.
Qed.

Lemma run_nstack m S cs : nstack m S = true -> nstack m (run m S cs) = true.
Proof.
  revert S. induction cs as [|c cs IH]; intros S HS; [exact HS|].
  rewrite run_cons. apply IH. apply step_nstack. exact HS.
Qed.

Lemma nstack_abs_names S : nstack true S = true -> forallb name S = true.
Proof.
  induction S as [|c S IH]; [reflexivity|]. cbn [nstack forallb]. intros H.
  apply andb_true_iff in H as [Hd H]. destruct (is_dotdot c) eqn:E; [discriminate|].
  unfold name. rewrite Hd, E. cbn [negb andb]. exact (IH H).
Qed.

(* R3: replaying a normal stack from scratch rebuilds it. *)
Lemma run_rev_nstack_gen m S T : nstack m (S ++ T) = true -> run m T (rev S) = S ++ T.
Proof.
  revert T. induction S as [|c S IH]; intros T H; [reflexivity|].
  cbn [rev]. rewrite run_snoc. cbn [app] in H. rewrite (IH T (nstack_tail _ _ _ H)).
  cbn [nstack] in H. apply andb_true_iff in H as [Hd H]. apply negb_true_iff in Hd.
  unfold step. rewrite Hd. destruct (is_dotdot c) eqn:E; [|reflexivity].
  apply andb_true_iff in H as [Hm H]. apply negb_true_iff in Hm. subst m.
  change ((c :: S) ++ T) with (c :: (S ++ T)).
  destruct (S ++ T) as [|t X]; [reflexivity|].
  cbn [forallb] in H. apply andb_true_iff in H as [Ht _]. rewrite Ht. reflexivity.
Qed.

Lemma run_rev_nstack m S : nstack m S = true -> run m [] (rev S) = S.
Proof. intros H. rewrite <- (app_nil_r S) at 2. apply run_rev_nstack_gen. rewrite app_nil_r. exact H. Qed.

Definition nondot (c : str) : bool := negb (is_dot c).

Lemma step_nondot m S c : forallb nondot S = true -> forallb nondot (step m S c) = true.
Proof.
  intros HS. unfold step. destruct (is_dot c) eqn:Ed; [exact HS|].
  assert (Hc : forallb nondot (c :: S) = true).
  { cbn [forallb]. unfold nondot at 1. rewrite Ed. exact HS. }
  destruct (is_dotdot c); [|exact Hc].
  destruct S as [|t S']; [destruct m; [reflexivity|exact Hc]|].
  destruct (is_dotdot t); [exact Hc|]. cbn [forallb] in HS. apply andb_true_iff in HS as [_ HS]. exact HS.
Qed.

(* R2: a relative path may be normalised on its own before it is appended. *)
Lemma run_absorb m S cs : forall L, forallb nondot L = true ->
  run m S (rev (run false L cs)) = run m (run m S (rev L)) cs.
Proof.
  induction cs as [|c cs IH]; intros L HL; [reflexivity|].
  rewrite !run_cons. rewrite (IH _ (step_nondot false L c HL)). f_equal.
  unfold step.
  destruct (is_dot c) eqn:Ed; [reflexivity|].
  destruct (is_dotdot c) eqn:Edd.
  - destruct L as [|t L'].
    + cbn [rev app run fold_left]. unfold step. rewrite Ed, Edd. reflexivity.
    + destruct (is_dotdot t) eqn:Et.
      * cbn [rev]. rewrite run_snoc. unfold step at 1. rewrite Ed, Edd. reflexivity.
      * cbn [rev]. rewrite run_snoc.
        cbn [forallb] in HL. apply andb_true_iff in HL as [Ht _]. unfold nondot in Ht.
        apply negb_true_iff in Ht.
        rewrite (step_name m _ t) by (unfold name; rewrite Ht, Et; reflexivity).
        rewrite Et. reflexivity.
  - cbn [rev]. rewrite run_snoc. unfold step at 1. rewrite Ed, Edd. reflexivity.
Qed.

Lemma run_push m X cs : forallb name cs = true -> run m X cs = rev cs ++ X.
Proof.
  revert X. induction cs as [|c cs IH]; intros X H; [reflexivity|].
  cbn [forallb] in H. apply andb_true_iff in H as [Hc Hcs].
  rewrite run_cons, (step_name _ _ _ Hc), (IH _ Hcs). cbn [rev]. rewrite <- app_assoc. reflexivity.
Qed.

Lemma run_pop m ro X : forallb name ro = true ->
  run m (rev ro ++ X) (repeat s_dotdot (length ro)) = X.
Proof.
  induction ro as [|c ro IH] using rev_ind; intros H; [reflexivity|].
  rewrite forallb_app in H. apply andb_true_iff in H as [Hro Hc]. cbn [forallb] in Hc.
  apply andb_true_iff in Hc as [Hc _].
  rewrite rev_app_distr, app_length. cbn [rev app length]. rewrite Nat.add_1_r. cbn [repeat].
  rewrite run_cons. unfold step at 1. cbn [is_dot is_dotdot].
  change (str_eqb s_dotdot s_dot) with false. change (str_eqb s_dotdot s_dotdot) with true. cbn iota.
  unfold name in Hc. apply andb_true_iff in Hc as [_ Hc]. apply negb_true_iff in Hc. rewrite Hc.
  apply IH. exact Hro.
Qed.

Lemma strip_common_spec a : forall b ro rd, strip_common a b = (ro, rd) ->
  exists c, a = c ++ ro /\ b = c ++ rd.
Proof.
  induction a as [|x a IH]; intros b ro rd H.
  - cbn in H. inversion H; subst. exists []. split; reflexivity.
  - destruct b as [|y b].
    + cbn in H. inversion H; subst. exists []. split; reflexivity.
    + cbn [strip_common] in H. destruct (str_eqb x y) eqn:E.
      * apply str_eqb_eq in E. subst y. destruct (IH _ _ _ H) as [c [Ha Hb]].
        exists (x :: c). cbn [app]. rewrite <- Ha, <- Hb. split; reflexivity.
      * inversion H; subst. exists []. split; reflexivity.
Qed.

Lemma strip_common_refl a : strip_common a a = ([], []).
Proof. induction a as [|x a IH]; [reflexivity|]. cbn [strip_common]. rewrite str_eqb_refl. exact IH. Qed.

(* Component form of "join(origin, relpath(dest, origin)) normalises to dest". *)
Lemma run_rel_segments ca cb :
  forallb name ca = true -> forallb name cb = true ->
  run true (rev ca) (rel_segments ca cb) = rev cb.
Proof.
  intros Ha Hb. unfold rel_segments. destruct (strip_common ca cb) as [ro rd] eqn:E.
  destruct (strip_common_spec _ _ _ _ E) as [c [Hca Hcb]]. subst ca cb.
  rewrite forallb_app in Ha, Hb. apply andb_true_iff in Ha as [_ Hro]. apply andb_true_iff in Hb as [_ Hrd].
  rewrite run_app, rev_app_distr, (run_pop _ _ _ Hro), (run_push _ _ _ Hrd), rev_app_distr. reflexivity.
Qed.

(* ------------------------------------------------------------------------------------------ *)
(* normpath / join2 / relpath algebra                                                         *)
(* ------------------------------------------------------------------------------------------ *)

Lemma step_forallb (P : str -> bool) m S c :
  forallb P S = true -> P c = true -> forallb P (step m S c) = true.
Proof.
  intros HS Hc. unfold step. destruct (is_dot c); [exact HS|].
  assert (Hcs : forallb P (c :: S) = true) by (cbn [forallb]; rewrite Hc; exact HS).
  destruct (is_dotdot c); [|exact Hcs].
  destruct S as [|t S']; [destruct m; [reflexivity|exact Hcs]|].
  destruct (is_dotdot t); [exact Hcs|]. cbn [forallb] in HS. apply andb_true_iff in HS as [_ HS]. exact HS.
Qed.

Lemma run_forallb (P : str -> bool) m cs : forall S,
  forallb P S = true -> forallb P cs = true -> forallb P (run m S cs) = true.
Proof.
  induction cs as [|c cs IH]; intros S HS Hcs; [exact HS|].
  cbn [forallb] in Hcs. apply andb_true_iff in Hcs as [Hc Hcs].
  rewrite run_cons. apply IH; [apply step_forallb; assumption|exact Hcs].
Qed.

Lemma forallb_rev (P : str -> bool) l : forallb P (rev l) = forallb P l.
Proof.
  induction l as [|x l IH]; [reflexivity|]. cbn [rev forallb]. rewrite forallb_app, IH. cbn [forallb].
  rewrite andb_true_r. apply andb_comm.
Qed.

Lemma norm_comps_good s : forallb good (norm_comps s) = true.
Proof.
  unfold norm_comps. rewrite forallb_rev. apply run_forallb; [reflexivity|apply comps_all_good].
Qed.

Lemma norm_comps_nstack s : nstack (isabs s) (rev (norm_comps s)) = true.
Proof. unfold norm_comps. rewrite rev_involutive. apply run_nstack. reflexivity. Qed.

Lemma join_slash_cons_good x rest : good x = true ->
  exists h t, join_slash (x :: rest) = h :: t /\ (h =? 47) = false.
Proof.
  intros Hx. pose proof (good_not_abs _ Hx) as Ha. destruct x as [|h x']; [discriminate|].
  cbn [isabs] in Ha. cbn [join_slash]. destruct rest as [|y r].
  - exists h, x'. split; [reflexivity|exact Ha].
  - exists h, (x' ++ 47 :: join_slash (y :: r)). split; [reflexivity|exact Ha].
Qed.

Lemma isabs_join_slash cs : forallb good cs = true -> isabs (join_slash cs) = false.
Proof.
  destruct cs as [|x rest]; [reflexivity|]. cbn [forallb]. intros H. apply andb_true_iff in H as [Hx _].
  destruct (join_slash_cons_good x rest Hx) as [h [t [-> Hh]]]. exact Hh.
Qed.

Lemma nslash_render k cs : (k <= 2)%nat -> forallb good cs = true -> nslash (render k cs) = k.
Proof.
  intros Hk Hcs. pose proof (isabs_join_slash cs Hcs) as Hj. unfold render.
  destruct k as [|[|[|k]]]; [| | |lia]; cbn [repeat app].
  - destruct (join_slash cs) as [|h t] eqn:E; [reflexivity|]. unfold nslash. rewrite Hj. reflexivity.
  - unfold nslash. cbn [isabs tl]. rewrite N.eqb_refl, Hj. reflexivity.
  - unfold nslash. cbn [isabs tl]. rewrite N.eqb_refl, Hj. reflexivity.
Qed.

Lemma run_comps_render m S k cs : forallb good cs = true -> run m S (comps (render k cs)) = run m S cs.
Proof.
  intros Hcs. unfold render. destruct (repeat 47 k ++ join_slash cs) as [|h t] eqn:E.
  - apply app_eq_nil in E as [_ E]. destruct cs as [|x rest]; [reflexivity|].
    cbn [forallb] in Hcs. apply andb_true_iff in Hcs as [Hx _].
    destruct (join_slash_cons_good x rest Hx) as [h [t [E' _]]]. congruence.
  - rewrite <- E, comps_repeat_slash, comps_join_slash by exact Hcs. reflexivity.
Qed.

Lemma comps_render_abs k cs : (0 < k)%nat -> forallb good cs = true -> comps (render k cs) = cs.
Proof.
  intros Hk Hcs. unfold render. destruct k as [|k]; [lia|]. cbn [repeat app].
  change (47 :: repeat 47 k ++ join_slash cs) with (repeat 47 (S k) ++ join_slash cs).
  rewrite comps_repeat_slash. apply comps_join_slash. exact Hcs.
Qed.

Lemma nslash_normpath s : nslash (normpath s) = nslash s.
Proof. unfold normpath. apply nslash_render; [apply nslash_le2|apply norm_comps_good]. Qed.

Lemma isabs_normpath s : isabs (normpath s) = isabs s.
Proof. rewrite !isabs_nslash, nslash_normpath. reflexivity. Qed.

Lemma run_comps_normpath m S s : run m S (comps (normpath s)) = run m S (norm_comps s).
Proof. unfold normpath. apply run_comps_render. apply norm_comps_good. Qed.

Lemma run_norm_comps s : run (isabs s) [] (norm_comps s) = rev (norm_comps s).
Proof.
  rewrite <- (rev_involutive (norm_comps s)) at 1. apply run_rev_nstack. apply norm_comps_nstack.
Qed.

Lemma normpath_ext s t : nslash s = nslash t -> norm_comps s = norm_comps t -> normpath s = normpath t.
Proof. unfold normpath. intros -> ->. reflexivity. Qed.

Lemma isabs_join2_rel a b : isabs b = false -> isabs (join2 a b) = isabs a.
Proof. intros Hb. rewrite isabs_join2, Hb. reflexivity. Qed.

Lemma norm_comps_join2 a b : isabs b = false ->
  norm_comps (join2 a b) = rev (run (isabs a) (run (isabs a) [] (comps a)) (comps b)).
Proof.
  intros Hb. unfold norm_comps. rewrite (isabs_join2_rel _ _ Hb), (comps_join2 _ _ Hb), run_app. reflexivity.
Qed.

Lemma normpath_idem s : normpath (normpath s) = normpath s.
Proof.
  unfold normpath at 1 3. rewrite nslash_normpath. f_equal.
  unfold norm_comps at 1. rewrite isabs_normpath, run_comps_normpath, run_norm_comps. apply rev_involutive.
Qed.

(* B1: the left argument of a join may be normalised first. *)
Lemma normpath_join2_norm_l a b : normpath (join2 (normpath a) b) = normpath (join2 a b).
Proof.
  destruct (isabs b) eqn:Hb.
  - rewrite !join2_abs by exact Hb. reflexivity.
  - apply normpath_ext.
    + rewrite !nslash_join2 by exact Hb. apply nslash_normpath.
    + rewrite !norm_comps_join2 by exact Hb. rewrite isabs_normpath, run_comps_normpath, run_norm_comps.
      unfold norm_comps. rewrite rev_involutive. reflexivity.
Qed.

(* B2: the right argument of a join may be normalised first. *)
Lemma normpath_join2_norm_r a b : normpath (join2 a (normpath b)) = normpath (join2 a b).
Proof.
  destruct (isabs b) eqn:Hb.
  - rewrite !join2_abs by (rewrite ?isabs_normpath; exact Hb). apply normpath_idem.
  - assert (Hnb : isabs (normpath b) = false) by (rewrite isabs_normpath; exact Hb).
    apply normpath_ext.
    + rewrite !nslash_join2 by assumption. reflexivity.
    + rewrite !norm_comps_join2 by assumption. rewrite run_comps_normpath.
      unfold norm_comps at 1. rewrite Hb. rewrite run_absorb by reflexivity. reflexivity.
Qed.

(* B3: join is associative up to normalisation. *)
Lemma normpath_join2_assoc a b c : normpath (join2 (join2 a b) c) = normpath (join2 a (join2 b c)).
Proof.
  destruct (isabs c) eqn:Hc.
  - rewrite (join2_abs (join2 a b) c Hc), (join2_abs b c Hc), (join2_abs a c Hc). reflexivity.
  - destruct (isabs b) eqn:Hb.
    + rewrite (join2_abs a b Hb). rewrite (join2_abs a (join2 b c)); [reflexivity|].
      rewrite isabs_join2_rel; assumption.
    + assert (Hbc : isabs (join2 b c) = false) by (rewrite isabs_join2_rel; assumption).
      apply normpath_ext.
      * rewrite !nslash_join2 by assumption. reflexivity.
      * rewrite (norm_comps_join2 _ c Hc), (norm_comps_join2 a _ Hbc).
        rewrite (isabs_join2_rel a b Hb), !comps_join2 by assumption. rewrite !run_app. reflexivity.
Qed.

Lemma resolve_norm_dir d p : resolve (normpath d) p = resolve d p.
Proof. apply normpath_join2_norm_l. Qed.

Lemma resolve_norm_path d p : resolve d (normpath p) = resolve d p.
Proof. apply normpath_join2_norm_r. Qed.

Lemma resolve_resolve d a b : resolve (resolve d a) b = resolve d (join2 a b).
Proof. unfold resolve. rewrite normpath_join2_norm_l. apply normpath_join2_assoc. Qed.

Lemma resolve_abs d p : isabs p = true -> resolve d p = normpath p.
Proof. intros H. unfold resolve. rewrite join2_abs by exact H. reflexivity. Qed.

Lemma normalized_eq s : normalized s = true -> normpath s = s.
Proof. unfold normalized. apply str_eqb_eq. Qed.

Lemma abs_normalized_inv s : abs_normalized s = true -> isabs s = true /\ normpath s = s.
Proof.
  unfold abs_normalized. intros H. apply andb_true_iff in H as [H1 H2]. split; [exact H1|].
  apply normalized_eq. exact H2.
Qed.

Lemma abspath_abs_normalized cwd s : abs_normalized s = true -> abspath cwd s = s.
Proof.
  intros H. apply abs_normalized_inv in H as [Ha Hn]. unfold abspath. rewrite join2_abs by exact Ha. exact Hn.
Qed.

Lemma comps_abs_normalized s : abs_normalized s = true ->
  comps s = norm_comps s /\ forallb name (norm_comps s) = true.
Proof.
  intros H. apply abs_normalized_inv in H as [Ha Hn]. split.
  - rewrite <- Hn at 1. unfold normpath. apply comps_render_abs; [|apply norm_comps_good].
    pose proof (isabs_nslash s) as E. rewrite Ha in E. destruct (nslash s); [discriminate|lia].
  - rewrite <- forallb_rev. apply nstack_abs_names.
    pose proof (norm_comps_nstack s) as Hs. rewrite Ha in Hs. exact Hs.
Qed.

Lemma isabs_render_rel segs : forallb good segs = true -> isabs (render_rel segs) = false.
Proof.
  destruct segs as [|x r]; [reflexivity|]. intros H. unfold render_rel. apply isabs_join_slash. exact H.
Qed.

Lemma run_comps_render_rel m S segs : forallb good segs = true ->
  run m S (comps (render_rel segs)) = run m S segs.
Proof.
  destruct segs as [|x r]; [reflexivity|]. intros H. unfold render_rel. rewrite comps_join_slash by exact H.
  reflexivity.
Qed.

Lemma rel_segments_good ca cb : forallb good ca = true -> forallb good cb = true ->
  forallb good (rel_segments ca cb) = true.
Proof.
  intros Ha Hb. unfold rel_segments. destruct (strip_common ca cb) as [ro rd] eqn:E.
  destruct (strip_common_spec _ _ _ _ E) as [c [_ Hcb]]. subst cb.
  rewrite forallb_app in Hb |- *. apply andb_true_iff in Hb as [_ Hrd]. rewrite Hrd, andb_true_r.
  induction (length ro) as [|n IH]; [reflexivity|]. cbn [repeat forallb]. rewrite IH. reflexivity.
Qed.

(* Lemma A: for absolute normalised origin o and destination d, the path computed by
   path.Path.relpathto resolves from o to d. *)
Lemma resolve_relpathto cwd o d :
  abs_normalized o = true -> abs_normalized d = true ->
  resolve o (plib_relpathto cwd o d) = d.
Proof.
  intros Ho Hd. unfold plib_relpathto. rewrite (abspath_abs_normalized _ _ Ho), (abspath_abs_normalized _ _ Hd).
  destruct (comps_abs_normalized _ Ho) as [Eco Hno]. destruct (comps_abs_normalized _ Hd) as [Ecd Hnd].
  pose proof (abs_normalized_inv _ Ho) as [Hao Hnorm_o]. pose proof (abs_normalized_inv _ Hd) as [Had Hnorm_d].
  destruct (Nat.eqb (nslash o) (nslash d)) eqn:Ek.
  - apply Nat.eqb_eq in Ek. rewrite Eco, Ecd.
    assert (Hg : forallb good (rel_segments (norm_comps o) (norm_comps d)) = true)
      by (apply rel_segments_good; apply norm_comps_good).
    pose proof (isabs_render_rel _ Hg) as Hr.
    rewrite <- Hnorm_d at 2. unfold resolve. apply normpath_ext.
    + rewrite nslash_join2 by exact Hr. exact Ek.
    + rewrite norm_comps_join2 by exact Hr. rewrite Hao, Eco.
      rewrite <- Hao at 2. rewrite run_norm_comps, run_comps_render_rel by exact Hg.
      rewrite run_rel_segments by assumption. apply rev_involutive.
  - unfold resolve. rewrite join2_abs by exact Had. exact Hnorm_d.
Qed.

Lemma abs_normalized_resolve d p : isabs d = true -> abs_normalized (resolve d p) = true.
Proof.
  intros Hd. unfold abs_normalized, normalized, resolve. rewrite isabs_normpath, isabs_join2, Hd, orb_true_r.
  rewrite normpath_idem, str_eqb_refl. reflexivity.
Qed.

Lemma abs_normalized_normpath p : isabs p = true -> abs_normalized (normpath p) = true.
Proof.
  intros Hp. unfold abs_normalized, normalized. rewrite isabs_normpath, Hp, normpath_idem, str_eqb_refl. reflexivity.
Qed.
