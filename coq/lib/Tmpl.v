(* Message templates with holes (the shape of a Python f-string): literal pieces and numbered
   holes, filled from a list of argument strings. Generic; used by the C08 message printer. *)
From Coq Require Import List NArith.
From SV Require Import lib.Bytes.
Import ListNotations.
Open Scope N_scope.

Inductive piece := L (s : str) | H (n : nat).

Definition tmpl := list piece.

Definition fill_piece (args : list str) (p : piece) : str :=
  match p with
  | L s => s
  | H n => nth n args []
  end.

Definition fill (t : tmpl) (args : list str) : str := flat_map (fill_piece args) t.

(* Number of holes a template refers to (1 + the largest hole index). *)
Fixpoint arity (t : tmpl) : nat :=
  match t with
  | [] => O
  | L _ :: r => arity r
  | H n :: r => Nat.max (S n) (arity r)
  end.
