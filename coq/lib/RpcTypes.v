(* Enumerations used by the generated file gen/GenRpc.v (C16) and fixed-width integers.
   Hand-written and stable; the generated file contains definitions over these types only. *)
From Coq Require Import List NArith Bool Lia.
From SV Require Import lib.Bytes.
Import ListNotations.
Open Scope N_scope.

Inductive byteorder := Big | Little.
Inductive hfield := FId | FSize.
Inductive cmpop := CGt | CGe.
(* class raised by a guard of _call_procedure *)
Inductive exc_class := ERPCError | EOtherError.
(* the statements of _call_procedure, in source order *)
Inductive cp_step :=
| CPLookup (e : exc_class)    (* try: procedure = getattr(handler, call.name) except AttributeError: raise e *)
| CPAllowed (e : exc_class)   (* if not is_rpc_allowed(procedure): raise e *)
| CPBind (e : exc_class)      (* try: inspect.signature(procedure).bind(...) except TypeError: raise e *)
| CPInvoke                    (* result = procedure(args, kwargs) *)
| CPReturn.                   (* return await result if inspect.isawaitable(result) else result *)
(* the except clause of _call_and_capture_failure *)
Inductive capture := CapBaseException | CapException.
(* how RemoteFailure.from_exception computes the `usage` field *)
Inductive usage_rule := UIsInstanceUsageError | UConstTrue | UConstFalse.
(* the fallbacks of RemoteFailure.to_exception, in source order *)
Inductive te_step := TEImport | TESubclass | TECtor.
(* the conjuncts of the test in _raise_remote_error that selects to_exception() *)
Inductive rr_cond := RRUsageFlag | RRNotDebug.
(* what the server receive loop does with an empty body / what a client does with one *)
Inductive none_rule := NoneStopsAndBreaks | NoneIsError | NoneOther.
(* where the call id of a reply comes from *)
Inductive reply_id_rule := RIFromRequest | RIOther.

Definition hfield_eqb (a b : hfield) : bool :=
  match a, b with FId, FId | FSize, FSize => true | _, _ => false end.

(* ---------- fixed-width unsigned integers ---------- *)
Fixpoint be_encode (w : nat) (n : N) : str :=
  match w with O => [] | S w' => be_encode w' (n / 256) ++ [n mod 256] end.

Definition be_decode (l : str) : N := fold_left (fun a b => a * 256 + b) l 0.

Definition enc_int (o : byteorder) (w : nat) (n : N) : str :=
  match o with Big => be_encode w n | Little => rev (be_encode w n) end.
Definition dec_int (o : byteorder) (l : str) : N :=
  match o with Big => be_decode l | Little => be_decode (rev l) end.

Lemma be_encode_length w : forall n, length (be_encode w n) = w.
Proof.
  induction w as [|w IH]; intros n; cbn [be_encode]; [reflexivity|].
  rewrite app_length, IH. cbn. lia.
Qed.

Lemma be_decode_snoc l b : be_decode (l ++ [b]) = be_decode l * 256 + b.
Proof. unfold be_decode. rewrite fold_left_app. reflexivity. Qed.

Lemma be_roundtrip_mod w : forall n, be_decode (be_encode w n) = n mod 256 ^ N.of_nat w.
Proof.
  induction w as [|w IH]; intros n.
  - cbn. rewrite N.mod_1_r. reflexivity.
  - cbn [be_encode]. rewrite be_decode_snoc, IH.
    rewrite Nat2N.inj_succ, N.pow_succ_r'.
    rewrite (N.mod_mul_r n 256 (256 ^ N.of_nat w)).
    + lia.
    + discriminate.
    + apply N.pow_nonzero. discriminate.
Qed.

Lemma be_roundtrip w n : n < 256 ^ N.of_nat w -> be_decode (be_encode w n) = n.
Proof. intros H. rewrite be_roundtrip_mod. apply N.mod_small. exact H. Qed.

Lemma be_bytes_small w : forall n, Forall (fun b => b < 256) (be_encode w n).
Proof.
  induction w as [|w IH]; intros n; cbn [be_encode]; [constructor|].
  apply Forall_app. split; [apply IH|]. constructor; [|constructor].
  apply N.mod_lt. discriminate.
Qed.

Lemma pow2_8w w : 2 ^ (8 * N.of_nat w) = 256 ^ N.of_nat w.
Proof. rewrite N.pow_mul_r. reflexivity. Qed.
