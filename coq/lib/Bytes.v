(* Byte / code-point strings as lists of N, prefixes and the binary (memcmp) order. *)
From Coq Require Import List NArith Bool Lia.
Import ListNotations.
Open Scope N_scope.

Definition str := list N.

Fixpoint is_prefix (p s : str) : bool :=
  match p, s with
  | [], _ => true
  | _ :: _, [] => false
  | a :: p', b :: s' => (a =? b) && is_prefix p' s'
  end.

Fixpoint str_eqb (a b : str) : bool :=
  match a, b with
  | [], [] => true
  | x :: a', y :: b' => (x =? y) && str_eqb a' b'
  | _, _ => false
  end.

(* SQLite BINARY collation: memcmp on the common length, then the shorter string first. *)
Fixpoint lex_lt (a b : str) : bool :=
  match a, b with
  | _, [] => false
  | [], _ :: _ => true
  | x :: a', y :: b' => (x <? y) || ((x =? y) && lex_lt a' b')
  end.

Definition lex_le (a b : str) : bool := negb (lex_lt b a).

Lemma str_eqb_eq a b : str_eqb a b = true <-> a = b.
Proof.
  revert b; induction a as [|x a IH]; intros [|y b]; cbn; split; intros H; try congruence.
  - apply andb_true_iff in H as [H1 H2]. apply N.eqb_eq in H1. apply IH in H2. congruence.
  - inversion H; subst. rewrite N.eqb_refl. cbn. apply IH. reflexivity.
Qed.

Lemma str_eqb_refl a : str_eqb a a = true.
Proof. apply str_eqb_eq. reflexivity. Qed.

Lemma is_prefix_spec p s : is_prefix p s = true <-> exists t, s = p ++ t.
Proof.
  revert s; induction p as [|a p IH]; intros s; cbn.
  - split; [intros _; exists s; reflexivity | reflexivity].
  - destruct s as [|b s].
    + split; [discriminate | intros [t Ht]; discriminate].
    + rewrite andb_true_iff, N.eqb_eq, IH. split.
      * intros [-> [t ->]]. exists t. reflexivity.
      * intros [t Ht]. inversion Ht; subst. split; [reflexivity | exists t; reflexivity].
Qed.

Lemma is_prefix_app p t : is_prefix p (p ++ t) = true.
Proof. apply is_prefix_spec. exists t. reflexivity. Qed.

Lemma is_prefix_refl p : is_prefix p p = true.
Proof. apply is_prefix_spec. exists []. rewrite app_nil_r. reflexivity. Qed.

Lemma lex_lt_irrefl a : lex_lt a a = false.
Proof. induction a as [|x a IH]; cbn; [reflexivity|]. rewrite N.ltb_irrefl, N.eqb_refl, IH. reflexivity. Qed.

Lemma lex_lt_trans a b c : lex_lt a b = true -> lex_lt b c = true -> lex_lt a c = true.
Proof.
  revert b c; induction a as [|x a IH]; intros [|y b] [|z c]; cbn; try congruence.
  intros H1 H2.
  apply orb_true_iff in H1. apply orb_true_iff in H2. apply orb_true_iff.
  destruct H1 as [H1|H1], H2 as [H2|H2].
  - left. apply N.ltb_lt in H1, H2. apply N.ltb_lt. lia.
  - apply andb_true_iff in H2 as [H2 _]. apply N.eqb_eq in H2. subst. left. exact H1.
  - apply andb_true_iff in H1 as [H1 _]. apply N.eqb_eq in H1. subst. left. exact H2.
  - apply andb_true_iff in H1 as [H1 H1']. apply andb_true_iff in H2 as [H2 H2'].
    apply N.eqb_eq in H1, H2. subst. right. rewrite N.eqb_refl. cbn. eapply IH; eassumption.
Qed.

Lemma lex_total a b : lex_lt a b = true \/ a = b \/ lex_lt b a = true.
Proof.
  revert b; induction a as [|x a IH]; intros [|y b]; cbn; auto.
  destruct (N.lt_trichotomy x y) as [H|[H|H]].
  - left. apply N.ltb_lt in H. rewrite H. reflexivity.
  - subst. rewrite N.ltb_irrefl, N.eqb_refl. cbn.
    destruct (IH b) as [H|[H|H]]; [left; exact H | right; left; congruence | right; right; exact H].
  - right. right. apply N.ltb_lt in H. rewrite H. reflexivity.
Qed.

Lemma lex_lt_nil_r a : lex_lt a [] = false.
Proof. destruct a; reflexivity. Qed.

(* The half-open range idiom: [d ++ [c] , d ++ [c+1]) selects exactly the strings with
   prefix d ++ [c].  The code uses c = 47 ('/'), c + 1 = 48 ('0'). *)
Lemma range_prefix_gen (d s : str) (c : N) :
  lex_le (d ++ [c]) s && lex_lt s (d ++ [c + 1]) = is_prefix (d ++ [c]) s.
Proof.
  unfold lex_le. revert s; induction d as [|x d IH]; intros s.
  - destruct s as [|y s]; [reflexivity|].
    cbn [app lex_lt is_prefix]. rewrite !lex_lt_nil_r, !andb_false_r, !orb_false_r, andb_true_r.
    destruct (N.eqb_spec c y) as [->|Hne].
    + rewrite N.ltb_irrefl. cbn. apply N.ltb_lt. lia.
    + destruct (N.ltb_spec y c) as [Hlt|Hge]; cbn; [reflexivity|].
      apply N.ltb_ge. lia.
  - destruct s as [|y s]; [reflexivity|].
    cbn [app lex_lt is_prefix].
    destruct (N.eqb_spec x y) as [->|Hne].
    + rewrite N.ltb_irrefl, N.eqb_refl. cbn. apply IH.
    + destruct (N.ltb_spec y x) as [Hlt|Hge]; cbn; [reflexivity|].
      destruct (N.eqb_spec y x) as [->|_]; [congruence|]. cbn.
      destruct (N.ltb_spec y x) as [Hlt|_]; [lia|]. reflexivity.
Qed.
