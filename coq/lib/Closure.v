(* Reachability closure over a finite edge list (the model of SQLite's WITH RECURSIVE ... UNION
   queries RECURSIVELY_SET_DETACHED and RECURSE_SINKS), with its specification:
   with fuel >= number of edges the result contains exactly the vertices reachable from the seed
   set.  Generic in the vertex type. *)
From Coq Require Import List Bool Arith Lia.
Import ListNotations.

Section Closure.
Context {A : Type} (eqb : A -> A -> bool).

Definition memb (x : A) (l : list A) : bool := existsb (eqb x) l.

Fixpoint closure_from (edges : list (A * A)) (fuel : nat) (acc : list A) : list A :=
  match fuel with
  | O => acc
  | S fuel' =>
    let new := filter (fun e => memb (fst e) acc && negb (memb (snd e) acc)) edges in
    match new with
    | [] => acc
    | _ => closure_from edges fuel' (acc ++ map snd new)
    end
  end.

Inductive path (edges : list (A * A)) : A -> A -> Prop :=
| path_refl a : path edges a a
| path_step a b c : In (a, b) edges -> path edges b c -> path edges a c.

(* at least one edge *)
Inductive path1 (edges : list (A * A)) : A -> A -> Prop :=
| path1_intro a b c : In (a, b) edges -> path edges b c -> path1 edges a c.

Hypothesis eqb_spec : forall a b, eqb a b = true <-> a = b.

Lemma memb_In x l : memb x l = true <-> In x l.
Proof.
  unfold memb. rewrite existsb_exists. split.
  - intros [y [Hy He]]. apply eqb_spec in He. subst. exact Hy.
  - intros H. exists x. split; [exact H | apply eqb_spec; reflexivity].
Qed.

Lemma memb_false_In x l : memb x l = false <-> ~ In x l.
Proof.
  rewrite <- memb_In. destruct (memb x l); split; intros H; try congruence.
Qed.

Lemma memb_app x l1 l2 : memb x (l1 ++ l2) = memb x l1 || memb x l2.
Proof. unfold memb. apply existsb_app. Qed.

Lemma path_trans edges a b c : path edges a b -> path edges b c -> path edges a c.
Proof.
  intros H1 H2. induction H1 as [a|a b0 c0 He H1 IH]; [exact H2|].
  eapply path_step; [exact He | apply IH; exact H2].
Qed.

Lemma path_snoc edges a b c : path edges a b -> In (b, c) edges -> path edges a c.
Proof.
  intros H1 H2. eapply path_trans; [exact H1|]. eapply path_step; [exact H2 | apply path_refl].
Qed.

Lemma path_incl e1 e2 a b : incl e1 e2 -> path e1 a b -> path e2 a b.
Proof.
  intros Hi H. induction H as [a|a b c He H IH]; [apply path_refl|].
  eapply path_step; [apply Hi; exact He | exact IH].
Qed.

Lemma path1_path edges a b : path1 edges a b -> path edges a b.
Proof. intros [x y z He Hp]. eapply path_step; eassumption. Qed.

Lemma path_inv edges a b : path edges a b -> a = b \/ path1 edges a b.
Proof. intros [x|x y z He Hp]; [left; reflexivity | right; econstructor; eassumption]. Qed.

Lemma path1_incl e1 e2 a b : incl e1 e2 -> path1 e1 a b -> path1 e2 a b.
Proof.
  intros Hi [x y z He Hp]. econstructor; [apply Hi; exact He | eapply path_incl; eassumption].
Qed.

Lemma path_path1_trans edges a b c : path edges a b -> path1 edges b c -> path1 edges a c.
Proof.
  intros H1 H2. induction H1 as [a|a b0 c0 He H1 IH]; [exact H2|].
  econstructor; [exact He|]. apply path1_path. apply IH. exact H2.
Qed.

Lemma path1_path_trans edges a b c : path1 edges a b -> path edges b c -> path1 edges a c.
Proof.
  intros [x y z He Hp] H2. econstructor; [exact He | eapply path_trans; eassumption].
Qed.

(* last edge view *)
Lemma path1_last edges a c : path1 edges a c -> exists b, path edges a b /\ In (b, c) edges.
Proof.
  intros [x y z He Hp]. revert x He. induction Hp as [y|y y' z He' Hp IH]; intros x He.
  - exists x. split; [apply path_refl | exact He].
  - destruct (IH y He') as [b [Hb Hl]]. exists b. split; [|exact Hl].
    eapply path_step; [exact He | exact Hb].
Qed.

(* induction from the right *)
Lemma path_rind edges a (P : A -> Prop) :
  P a -> (forall b c, path edges a b -> P b -> In (b, c) edges -> P c) ->
  forall x, path edges a x -> P x.
Proof.
  intros Ha Hs x Hp. revert P Ha Hs.
  induction Hp as [a|a b c He Hp IH]; intros P Ha Hs; [exact Ha|].
  apply (IH P).
  - apply (Hs a b); [apply path_refl | exact Ha | exact He].
  - intros b' c' Hp' Hb' He'. apply (Hs b' c'); [eapply path_step; eassumption | exact Hb' | exact He'].
Qed.

(* ---- soundness ---- *)
Lemma closure_sound edges fuel : forall acc x,
  memb x (closure_from edges fuel acc) = true -> exists a, In a acc /\ path edges a x.
Proof.
  induction fuel as [|fuel IH]; intros acc x H; cbn [closure_from] in H.
  - exists x. split; [apply memb_In; exact H | apply path_refl].
  - destruct (filter _ edges) as [|e0 new] eqn:Hnew.
    + exists x. split; [apply memb_In; exact H | apply path_refl].
    + rewrite <- Hnew in H. apply IH in H. destruct H as [a [Ha Hp]].
      apply in_app_or in Ha. destruct Ha as [Ha|Ha].
      * exists a. split; assumption.
      * apply in_map_iff in Ha. destruct Ha as [e [He1 He2]]. subst a.
        apply filter_In in He2. destruct He2 as [He2 He3].
        apply andb_true_iff in He3. destruct He3 as [He3 _]. apply memb_In in He3.
        exists (fst e). split; [exact He3|].
        eapply path_step; [|exact Hp]. destruct e; exact He2.
Qed.

Lemma closure_incl edges fuel : forall acc, incl acc (closure_from edges fuel acc).
Proof.
  induction fuel as [|fuel IH]; intros acc; cbn [closure_from]; [apply incl_refl|].
  destruct (filter _ edges) as [|e0 new] eqn:Hnew; [apply incl_refl|].
  rewrite <- Hnew. eapply incl_tran; [|apply IH]. apply incl_appl. apply incl_refl.
Qed.

(* ---- closedness by counting ---- *)
Lemma filter_length_le {B} (p : B -> bool) l : length (filter p l) <= length l.
Proof. induction l as [|x l IH]; cbn; [lia|]. destruct (p x); cbn; lia. Qed.

Lemma filter_length_mono {B} (p q : B -> bool) l :
  (forall x, In x l -> q x = true -> p x = true) -> length (filter q l) <= length (filter p l).
Proof.
  induction l as [|x l IH]; intros H; cbn; [lia|].
  assert (IH' : length (filter q l) <= length (filter p l)).
  { apply IH. intros y Hy. apply H. right. exact Hy. }
  destruct (q x) eqn:Hq.
  - rewrite (H x (or_introl eq_refl) Hq). cbn. lia.
  - destruct (p x); cbn; lia.
Qed.

Lemma filter_length_lt {B} (p q : B -> bool) l x0 :
  (forall x, In x l -> q x = true -> p x = true) -> In x0 l -> p x0 = true -> q x0 = false ->
  length (filter q l) < length (filter p l).
Proof.
  induction l as [|x l IH]; intros H Hin Hp Hq; [contradiction|].
  cbn. destruct Hin as [->|Hin].
  - rewrite Hp, Hq. cbn.
    assert (length (filter q l) <= length (filter p l)); [|lia].
    apply filter_length_mono. intros y Hy. apply H. right. exact Hy.
  - assert (IH' : length (filter q l) < length (filter p l)).
    { apply IH; try assumption. intros y Hy. apply H. right. exact Hy. }
    destruct (q x) eqn:Hqx.
    + rewrite (H x (or_introl eq_refl) Hqx). cbn. lia.
    + destruct (p x); cbn; lia.
Qed.

Definition closed (edges : list (A * A)) (R : list A) : Prop :=
  forall e, In e edges -> memb (fst e) R = true -> memb (snd e) R = true.

Lemma closure_closed edges fuel : forall acc,
  length (filter (fun e => negb (memb (snd e) acc)) edges) <= fuel ->
  closed edges (closure_from edges fuel acc).
Proof.
  induction fuel as [|fuel IH]; intros acc Hm; cbn [closure_from].
  - intros e He _. destruct (memb (snd e) acc) eqn:Hs; [reflexivity|].
    assert (Hin : In e (filter (fun e => negb (memb (snd e) acc)) edges)).
    { apply filter_In. split; [exact He|]. rewrite Hs. reflexivity. }
    destruct (filter (fun e => negb (memb (snd e) acc)) edges); [contradiction | cbn in Hm; lia].
  - destruct (filter (fun e => memb (fst e) acc && negb (memb (snd e) acc)) edges) as [|e0 new] eqn:Hnew.
    + intros e He Hf. destruct (memb (snd e) acc) eqn:Hs; [reflexivity|].
      assert (Hin : In e (filter (fun e => memb (fst e) acc && negb (memb (snd e) acc)) edges)).
      { apply filter_In. split; [exact He|]. rewrite Hf, Hs. reflexivity. }
      rewrite Hnew in Hin. contradiction.
    + rewrite <- Hnew. apply IH.
      assert (He0 : In e0 (filter (fun e => memb (fst e) acc && negb (memb (snd e) acc)) edges)).
      { rewrite Hnew. left. reflexivity. }
      pose proof He0 as He0'. apply filter_In in He0'. destruct He0' as [He0a He0b].
      apply andb_true_iff in He0b. destruct He0b as [_ He0b].
      assert (Hlt : length (filter (fun e => negb (memb (snd e)
                 (acc ++ map snd (filter (fun e => memb (fst e) acc && negb (memb (snd e) acc)) edges)))) edges)
               < length (filter (fun e => negb (memb (snd e) acc)) edges)); [|lia].
      apply filter_length_lt with (x0 := e0).
      * intros x _ Hx. rewrite memb_app in Hx. apply negb_true_iff in Hx.
        apply orb_false_iff in Hx. destruct Hx as [Hx _]. rewrite Hx. reflexivity.
      * exact He0a.
      * exact He0b.
      * apply negb_false_iff. rewrite memb_app. apply orb_true_iff. right.
        apply memb_In. apply in_map. exact He0.
Qed.

Lemma closed_path edges R : closed edges R ->
  forall a x, path edges a x -> memb a R = true -> memb x R = true.
Proof.
  intros Hc a x Hp. induction Hp as [a|a b c He Hp IH]; intros Ha; [exact Ha|].
  apply IH. apply (Hc (a, b) He). exact Ha.
Qed.

Theorem closure_spec edges fuel acc x :
  length edges <= fuel ->
  (memb x (closure_from edges fuel acc) = true <-> exists a, In a acc /\ path edges a x).
Proof.
  intros Hf. split; [apply closure_sound|].
  intros [a [Ha Hp]].
  eapply closed_path; [|exact Hp|].
  - apply closure_closed. etransitivity; [apply filter_length_le | exact Hf].
  - apply memb_In. apply closure_incl. exact Ha.
Qed.

(* ---- adding an edge ---- *)
Lemma path_add_edge edges a b x y :
  path ((a, b) :: edges) x y -> path edges x y \/ (path edges x a /\ path edges b y).
Proof.
  intros H. induction H as [x|x z y He H IH].
  - left. apply path_refl.
  - destruct He as [He|He].
    + inversion He; subst. right. split; [apply path_refl|].
      destruct IH as [IH|[_ IH]]; exact IH.
    + destruct IH as [IH|[IH1 IH2]].
      * left. eapply path_step; eassumption.
      * right. split; [eapply path_step; eassumption | exact IH2].
Qed.

Lemma path1_add_edge edges a b x y :
  path1 ((a, b) :: edges) x y -> path1 edges x y \/ (path edges x a /\ path edges b y).
Proof.
  intros [x0 z y0 He Hp].
  apply path_add_edge in Hp. destruct He as [He|He].
  - inversion He; subst. right. split; [apply path_refl|]. destruct Hp as [Hp|[_ Hp]]; exact Hp.
  - destruct Hp as [Hp|[Hp1 Hp2]].
    + left. econstructor; eassumption.
    + right. split; [eapply path_step; eassumption | exact Hp2].
Qed.

Definition acyclic (edges : list (A * A)) : Prop := forall x, ~ path1 edges x x.

Lemma acyclic_add_edge edges a b :
  acyclic edges -> ~ path edges b a -> acyclic ((a, b) :: edges).
Proof.
  intros Hac Hn x Hx. apply path1_add_edge in Hx. destruct Hx as [Hx|[H1 H2]].
  - exact (Hac x Hx).
  - apply Hn. eapply path_trans; eassumption.
Qed.

Lemma acyclic_incl e1 e2 : incl e1 e2 -> acyclic e2 -> acyclic e1.
Proof. intros Hi Hac x Hx. apply (Hac x). eapply path1_incl; eassumption. Qed.

(* acyclic <-> no edge whose source is reachable from its sink *)
Lemma acyclic_edges edges :
  acyclic edges <-> (forall a b, In (a, b) edges -> ~ path edges b a).
Proof.
  split.
  - intros Hac a b He Hp. apply (Hac a). econstructor; eassumption.
  - intros H x Hx. inversion Hx as [x0 y z He Hp Ha Hb]; subst. exact (H _ _ He Hp).
Qed.

(* ---- paths of a given length; in an acyclic graph they are bounded by the vertex count ---- *)
Inductive pathn (edges : list (A * A)) : nat -> A -> A -> Prop :=
| pathn_O a : pathn edges 0 a a
| pathn_S n a b c : In (a, b) edges -> pathn edges n b c -> pathn edges (S n) a c.

Lemma pathn_path edges n a b : pathn edges n a b -> path edges a b.
Proof.
  intros H. induction H as [a|n a b c He H IH]; [apply path_refl | eapply path_step; eassumption].
Qed.

Inductive walk (edges : list (A * A)) : list A -> Prop :=
| walk_one a : walk edges [a]
| walk_cons a b l : In (a, b) edges -> walk edges (b :: l) -> walk edges (a :: b :: l).

Lemma pathn_walk edges n a b : pathn edges n a b ->
  exists vs, walk edges (a :: vs) /\ length vs = n.
Proof.
  intros H. induction H as [a|n a b c He H [vs [Hw Hl]]].
  - exists []. split; [constructor | reflexivity].
  - exists (b :: vs). split; [constructor; assumption | cbn; rewrite Hl; reflexivity].
Qed.

Lemma walk_path edges a l : walk edges (a :: l) -> forall x, In x (a :: l) -> path edges a x.
Proof.
  revert a. induction l as [|b l IH]; intros a Hw x Hx.
  - destruct Hx as [<-|[]]. apply path_refl.
  - inversion Hw as [|a' b' l' He Hw']; subst. destruct Hx as [<-|Hx]; [apply path_refl|].
    eapply path_step; [exact He | apply IH; assumption].
Qed.

Lemma walk_nodup edges l : acyclic edges -> walk edges l -> NoDup l.
Proof.
  intros Hac Hw. induction Hw as [a|a b l He Hw IH]; [constructor; [intros []|constructor]|].
  constructor; [|exact IH]. intros Hin.
  apply (Hac a). econstructor; [exact He|]. apply (walk_path edges b l Hw a Hin).
Qed.

Lemma walk_vertices edges (V : list A) l :
  (forall a b, In (a, b) edges -> In a V /\ In b V) -> walk edges l -> (2 <= length l)%nat -> incl l V.
Proof.
  intros HV Hw. induction Hw as [a|a b l He Hw IH]; intros Hlen; [cbn in Hlen; lia|].
  intros x [<-|Hx]; [apply (HV _ _ He)|].
  destruct l as [|c l].
  - destruct Hx as [<-|[]]. apply (HV _ _ He).
  - apply IH; [cbn; lia | exact Hx].
Qed.

Lemma acyclic_pathn_bound edges (V : list A) n a b :
  acyclic edges -> (forall a b, In (a, b) edges -> In a V /\ In b V) ->
  pathn edges n a b -> (n = 0 \/ S n <= length V)%nat.
Proof.
  intros Hac HV Hp. destruct n as [|n]; [left; reflexivity | right].
  apply pathn_walk in Hp. destruct Hp as [vs [Hw Hl]].
  pose proof (walk_nodup _ _ Hac Hw) as Hnd.
  assert (Hincl : incl (a :: vs) V). { apply (walk_vertices edges V); [exact HV | exact Hw | cbn; lia]. }
  pose proof (NoDup_incl_length Hnd Hincl) as Hlen. cbn in Hlen. lia.
Qed.

End Closure.

Arguments path {A} edges _ _.
Arguments path1 {A} edges _ _.
Arguments pathn {A} edges _ _ _.
Arguments walk {A} edges _.
Arguments acyclic {A} edges.
Arguments closed {A} eqb edges R.
