(* Association lists keyed by byte strings: insertion sort on the key (binary order), and the
   fact that the sorted form of a duplicate-free association list does not depend on the order
   in which its entries were supplied.  Also fixed-width big-endian integers. *)
From Coq Require Import List NArith Bool Lia Permutation Arith.
From SV Require Import lib.Bytes.
Import ListNotations.
Open Scope N_scope.

Section KeySort.
  Context {V : Type}.

  Fixpoint insert_kv (x : str * V) (l : list (str * V)) : list (str * V) :=
    match l with
    | [] => [x]
    | y :: l' => if lex_lt (fst y) (fst x) then y :: insert_kv x l' else x :: l
    end.

  Definition sort_keys (l : list (str * V)) : list (str * V) := fold_right insert_kv [] l.

  (* strictly increasing keys *)
  Fixpoint ksorted (l : list (str * V)) : Prop :=
    match l with
    | [] => True
    | x :: l' => (forall y, In y l' -> lex_lt (fst x) (fst y) = true) /\ ksorted l'
    end.

  Lemma insert_perm x l : Permutation (insert_kv x l) (x :: l).
  Proof.
    induction l as [|y l IH]; cbn [insert_kv]; [reflexivity|].
    destruct (lex_lt (fst y) (fst x)); [|reflexivity].
    rewrite IH. apply perm_swap.
  Qed.

  Lemma sort_perm l : Permutation (sort_keys l) l.
  Proof.
    induction l as [|x l IH]; cbn [sort_keys fold_right]; [reflexivity|].
    fold (sort_keys l). rewrite insert_perm. apply perm_skip. exact IH.
  Qed.

  Lemma insert_sorted x l :
    ksorted l -> (forall y, In y l -> fst y <> fst x) -> ksorted (insert_kv x l).
  Proof.
    induction l as [|y l IH]; intros Hs Hne; cbn [insert_kv].
    - cbn. split; [intros ? []|exact I].
    - destruct Hs as [Hy Hs].
      destruct (lex_lt (fst y) (fst x)) eqn:E.
      + cbn [ksorted]. split.
        * intros z Hz. apply (Permutation_in _ (insert_perm x l)) in Hz.
          destruct Hz as [<-|Hz]; [exact E|apply Hy; exact Hz].
        * apply IH; [exact Hs|]. intros z Hz. apply Hne. right. exact Hz.
      + assert (Hxy : lex_lt (fst x) (fst y) = true).
        { destruct (lex_total (fst x) (fst y)) as [H|[H|H]]; [exact H| |congruence].
          exfalso. apply (Hne y); [left; reflexivity|congruence]. }
        cbn [ksorted]. split; [|split; [exact Hy|exact Hs]].
        intros z [<-|Hz]; [exact Hxy|].
        eapply lex_lt_trans; [exact Hxy|apply Hy; exact Hz].
  Qed.

  Lemma sort_sorted l : NoDup (map fst l) -> ksorted (sort_keys l).
  Proof.
    induction l as [|x l IH]; intros Hnd; cbn [sort_keys fold_right]; [exact I|].
    fold (sort_keys l). inversion Hnd as [|k ks Hnotin Hnd']; subst.
    apply insert_sorted; [apply IH; exact Hnd'|].
    intros y Hy Heq. apply Hnotin.
    apply (Permutation_in _ (sort_perm l)) in Hy.
    rewrite <- Heq. apply in_map. exact Hy.
  Qed.

  Lemma sorted_perm_eq l1 : forall l2, ksorted l1 -> ksorted l2 -> Permutation l1 l2 -> l1 = l2.
  Proof.
    induction l1 as [|a l1 IH]; intros l2 H1 H2 Hp.
    - apply Permutation_nil in Hp. congruence.
    - destruct l2 as [|b l2]; [apply Permutation_sym, Permutation_nil in Hp; discriminate|].
      destruct H1 as [Ha H1]. destruct H2 as [Hb H2].
      assert (Hab : a = b).
      { assert (Ia : In a (b :: l2)) by (eapply Permutation_in; [exact Hp|left; reflexivity]).
        assert (Ib : In b (a :: l1))
          by (eapply Permutation_in; [apply Permutation_sym; exact Hp|left; reflexivity]).
        destruct Ia as [E|Ia]; [congruence|]. destruct Ib as [E|Ib]; [congruence|].
        pose proof (Hb _ Ia) as L1. pose proof (Ha _ Ib) as L2.
        pose proof (lex_lt_trans _ _ _ L1 L2) as L3. rewrite lex_lt_irrefl in L3. discriminate. }
      subst b. f_equal. apply IH; [exact H1|exact H2|].
      eapply Permutation_cons_inv. exact Hp.
  Qed.

  (* The order in which the entries of a duplicate-free map are supplied is irrelevant. *)
  Lemma sort_perm_eq l1 l2 :
    NoDup (map fst l1) -> Permutation l1 l2 -> sort_keys l1 = sort_keys l2.
  Proof.
    intros Hnd Hp. apply sorted_perm_eq.
    - apply sort_sorted. exact Hnd.
    - apply sort_sorted. eapply Permutation_NoDup; [|exact Hnd]. apply Permutation_map. exact Hp.
    - rewrite !sort_perm. exact Hp.
  Qed.

  Lemma sort_eq_perm l1 l2 : sort_keys l1 = sort_keys l2 -> Permutation l1 l2.
  Proof. intros E. rewrite <- (sort_perm l1), <- (sort_perm l2), E. reflexivity. Qed.
End KeySort.

(* duplicate-freeness of a list of strings, as a boolean *)
Fixpoint nodupb (l : list str) : bool :=
  match l with
  | [] => true
  | x :: l' => negb (existsb (str_eqb x) l') && nodupb l'
  end.

Lemma nodupb_NoDup l : nodupb l = true -> NoDup l.
Proof.
  induction l as [|x l IH]; cbn [nodupb]; intros H; [constructor|].
  apply andb_true_iff in H as [H1 H2]. constructor; [|apply IH; exact H2].
  intros Hin. apply negb_true_iff in H1.
  assert (existsb (str_eqb x) l = true) as E; [|congruence].
  apply existsb_exists. exists x. split; [exact Hin|apply str_eqb_refl].
Qed.

(* ---------- fixed-width big-endian integers (int.to_bytes(w), default byteorder "big") ---------- *)
Fixpoint be_bytes (w : nat) (n : N) : str :=
  match w with
  | O => []
  | S w' => be_bytes w' (n / 256) ++ [n mod 256]
  end.

Definition be_val (bs : str) : N := fold_left (fun acc b => acc * 256 + b) bs 0.

Lemma be_bytes_length w : forall n, length (be_bytes w n) = w.
Proof.
  induction w as [|w IH]; intros n; cbn [be_bytes]; [reflexivity|].
  rewrite app_length, IH. cbn. lia.
Qed.

Lemma be_val_snoc l x : be_val (l ++ [x]) = be_val l * 256 + x.
Proof. unfold be_val. rewrite fold_left_app. reflexivity. Qed.

Lemma be_val_bytes w : forall n, n < 256 ^ N.of_nat w -> be_val (be_bytes w n) = n.
Proof.
  induction w as [|w IH]; intros n Hn.
  - cbn in Hn. cbn. lia.
  - cbn [be_bytes]. rewrite be_val_snoc, IH.
    + rewrite N.mul_comm. symmetry. apply N.div_mod. lia.
    + rewrite Nat2N.inj_succ, N.pow_succ_r' in Hn.
      apply N.div_lt_upper_bound; [lia|exact Hn].
Qed.

(* ---------- association lists as finite maps ---------- *)
Section Lookup.
  Context {V : Type}.

  Fixpoint lookup (k : str) (l : list (str * V)) : option V :=
    match l with
    | [] => None
    | kv :: l' => if str_eqb k (fst kv) then Some (snd kv) else lookup k l'
    end.

  Lemma lookup_in k v l : NoDup (map fst l) -> (lookup k l = Some v <-> In (k, v) l).
  Proof.
    induction l as [|[k' v'] l IH]; intros Hnd; cbn [lookup fst snd].
    - split; [discriminate|intros []].
    - inversion Hnd as [|x xs Hnotin Hnd']; subst.
      destruct (str_eqb k k') eqn:E.
      + apply str_eqb_eq in E. subst k'. split.
        * intros H. injection H as ->. left. reflexivity.
        * intros [H|H]; [injection H as ->; reflexivity|].
          exfalso. apply Hnotin. change k with (fst (k, v)). apply in_map. exact H.
      + rewrite (IH Hnd'). split; [intros H; right; exact H|].
        intros [H|H]; [|exact H]. injection H as -> ->. rewrite str_eqb_refl in E. discriminate.
  Qed.

  (* Permuted duplicate-free association lists are the same finite map. *)
  Lemma perm_lookup l1 l2 :
    NoDup (map fst l1) -> Permutation l1 l2 -> forall k, lookup k l1 = lookup k l2.
  Proof.
    intros N1 P k.
    assert (N2 : NoDup (map fst l2))
      by (eapply Permutation_NoDup; [apply Permutation_map; exact P|exact N1]).
    destruct (lookup k l1) as [v|] eqn:E1.
    - apply (lookup_in _ _ _ N1) in E1. symmetry. apply (lookup_in _ _ _ N2).
      eapply Permutation_in; [exact P|exact E1].
    - destruct (lookup k l2) as [v|] eqn:E2; [|reflexivity].
      apply (lookup_in _ _ _ N2) in E2.
      assert (In (k, v) l1) as H by (eapply Permutation_in; [apply Permutation_sym; exact P|exact E2]).
      apply (lookup_in _ _ _ N1) in H. congruence.
  Qed.
End Lookup.
