(* Regular expressions of the fragment that stepup.core.nglob.convert_nglob_to_regex emits:
   literal text (printed with re.escape), character classes, '.', concatenation, alternation,
   star / plus / option, non-capturing group, named group, named back-reference.

   - [pr]      printer reproducing Python's syntax for this fragment;
   - [mt]      declarative acceptance relation, threading a capture environment left to right;
   - [ms]      executable backtracking matcher (list of successes, in Python's priority order:
               greedy quantifiers, left alternative first), structural recursion + fuel;
   - [ms_spec] soundness for every regex, completeness for regexes whose star/plus bodies consume
               exactly one character (all the compiler emits); back-references included.

   Python facts built in (validated by the E1 correspondence of C17 against re.fullmatch):
   '.' matches "\n" only when compiled with re.DOTALL (flag carried by the RAny node); a class [^...] matches every other character including
   '/' and "\n"; a back-reference to a group that did not participate fails; fullmatch succeeds
   iff some backtracking path consumes the whole string, and reports the groups of the first such
   path in priority order. *)
From Coq Require Import List NArith Bool Lia Arith.
From SV Require Import lib.Bytes.
Import ListNotations.
Open Scope N_scope.

Inductive re :=
| REps
| RStr (s : str)                 (* literal text, printed with re.escape *)
| RAny (nl : bool)                (* .  ; nl = compiled with re.DOTALL: also matches "\n" *)
| RCls (neg : bool) (body : str) (* [body] / [^body], body copied verbatim from the pattern *)
| RCat (a b : re)
| RAlt (a b : re)
| RStar (a : re)
| RPlus (a : re)
| ROpt (a : re)
| RNcg (a : re)                  (* (?:a) *)
| RGrp (name : str) (a : re)     (* (?P<name>a) *)
| RRef (name : str).             (* (?P=name) *)

(* ---------- printer ---------- *)

(* re.escape (Python >= 3.7) puts a backslash before exactly these code points:
   ()[]{}?*+-|^$\.&~# and the white space characters \t \n \r \v \f and space. *)
Definition re_escape_specials : list N :=
  [9; 10; 11; 12; 13; 32; 35; 36; 38; 40; 41; 42; 43; 45; 46; 63; 91; 92; 93; 94; 123; 124; 125; 126].

Definition mem_N (c : N) (l : list N) : bool := existsb (N.eqb c) l.

Definition esc_char (c : N) : str := if mem_N c re_escape_specials then [92; c] else [c].
Definition re_escape (s : str) : str := flat_map esc_char s.

Fixpoint pr (r : re) : str :=
  match r with
  | REps => []
  | RStr s => re_escape s
  | RAny _ => [46]
  | RCls neg body => [91] ++ (if neg then [94] else []) ++ body ++ [93]
  | RCat a b => pr a ++ pr b
  | RAlt a b => pr a ++ [124] ++ pr b
  | RStar a => pr a ++ [42]
  | RPlus a => pr a ++ [43]
  | ROpt a => pr a ++ [63]
  | RNcg a => [40; 63; 58] ++ pr a ++ [41]
  | RGrp n a => [40; 63; 80; 60] ++ n ++ [62] ++ pr a ++ [41]
  | RRef n => [40; 63; 80; 61] ++ n ++ [41]
  end.

Definition pr_all (ps : list re) : str := flat_map pr ps.

(* ---------- character classes ---------- *)

(* Items of a class body: x-y is a range, anything else a single character.  This is Python's
   reading for bodies without backslash, '[', a leading '^', and the doubled punctuation that
   Python reserves for set operations ([cls_plain]); other bodies are printed but their meaning is
   not claimed. *)
Fixpoint cls_in (b : str) (c : N) : bool :=
  match b with
  | [] => false
  | x :: r =>
    match r with
    | 45 :: y :: r' => ((x <=? c) && (c <=? y)) || cls_in r' c
    | _ => (x =? c) || cls_in r c
    end
  end.

Definition cls_accepts (neg : bool) (b : str) (c : N) : bool := xorb neg (cls_in b c).

(* ---------- capture environments ---------- *)

Definition env := list (str * str).

Fixpoint env_get (n : str) (e : env) : option str :=
  match e with
  | [] => None
  | (m, v) :: e' => if str_eqb n m then Some v else env_get n e'
  end.

Definition env_set (n v : str) (e : env) : env := (n, v) :: e.

(* ---------- declarative acceptance ---------- *)

Inductive mt : re -> env -> str -> env -> Prop :=
| MEps e : mt REps e [] e
| MStr l e : mt (RStr l) e l e
| MAny nl c e : nl = true \/ c <> 10 -> mt (RAny nl) e [c] e
| MCls neg b c e : cls_accepts neg b c = true -> mt (RCls neg b) e [c] e
| MCat a b e s1 e1 s2 e2 : mt a e s1 e1 -> mt b e1 s2 e2 -> mt (RCat a b) e (s1 ++ s2) e2
| MAltL a b e s e' : mt a e s e' -> mt (RAlt a b) e s e'
| MAltR a b e s e' : mt b e s e' -> mt (RAlt a b) e s e'
| MStar0 a e : mt (RStar a) e [] e
| MStarS a e s1 e1 s2 e2 :
    mt a e s1 e1 -> mt (RStar a) e1 s2 e2 -> mt (RStar a) e (s1 ++ s2) e2
| MPlus a e s1 e1 s2 e2 :
    mt a e s1 e1 -> mt (RStar a) e1 s2 e2 -> mt (RPlus a) e (s1 ++ s2) e2
| MOptN a e : mt (ROpt a) e [] e
| MOptS a e s e' : mt a e s e' -> mt (ROpt a) e s e'
| MNcg a e s e' : mt a e s e' -> mt (RNcg a) e s e'
| MGrp n a e s e' : mt a e s e' -> mt (RGrp n a) e s (env_set n s e')
| MRef n e v : env_get n e = Some v -> mt (RRef n) e v e.

(* Acceptance of a whole string, starting without captures. *)
Definition accepted (r : re) (s : str) : Prop := exists e', mt r [] s e'.

(* ---------- executable matcher ---------- *)

(* If p is a prefix of s, the rest of s. *)
Fixpoint strip_prefix (p s : str) : option str :=
  match p, s with
  | [], _ => Some s
  | _ :: _, [] => None
  | a :: p', b :: s' => if a =? b then strip_prefix p' s' else None
  end.

Definition res := list (env * str).

(* Greedy iteration: more iterations first, every iteration must consume something. *)
Fixpoint star_loop (f : env -> str -> res) (n : nat) (e : env) (s : str) : res :=
  match n with
  | O => [(e, s)]
  | S n' =>
    flat_map (fun es => if (length (snd es) <? length s)%nat
                        then star_loop f n' (fst es) (snd es) else []) (f e s)
    ++ [(e, s)]
  end.

Fixpoint ms (r : re) (e : env) (s : str) : res :=
  match r with
  | REps => [(e, s)]
  | RStr l => match strip_prefix l s with Some s' => [(e, s')] | None => [] end
  | RAny nl => match s with c :: s' => if nl || negb (c =? 10) then [(e, s')] else [] | [] => [] end
  | RCls neg b => match s with c :: s' => if cls_accepts neg b c then [(e, s')] else [] | [] => [] end
  | RCat a b => flat_map (fun es => ms b (fst es) (snd es)) (ms a e s)
  | RAlt a b => ms a e s ++ ms b e s
  | RStar a => star_loop (ms a) (length s) e s
  | RPlus a => flat_map (fun es => star_loop (ms a) (length (snd es)) (fst es) (snd es)) (ms a e s)
  | ROpt a => ms a e s ++ [(e, s)]
  | RNcg a => ms a e s
  | RGrp n a =>
    map (fun es => (env_set n (firstn (length s - length (snd es)) s) (fst es), snd es)) (ms a e s)
  | RRef n =>
    match env_get n e with
    | Some v => match strip_prefix v s with Some s' => [(e, s')] | None => [] end
    | None => []
    end
  end.

Definition is_nil {A} (l : list A) : bool := match l with [] => true | _ => false end.

(* re.fullmatch(r, s) is not None *)
Definition accepts (r : re) (s : str) : bool := existsb (fun es => is_nil (snd es)) (ms r [] s).

(* The captures of the first complete match in priority order (what Match.groupdict() holds). *)
Definition first_match (r : re) (s : str) : option env :=
  option_map fst (find (fun es => is_nil (snd es)) (ms r [] s)).

(* ---------- well-formedness used by the completeness direction ---------- *)

Definition one_char (a : re) : bool :=
  match a with RAny _ | RCls _ _ => true | _ => false end.

Fixpoint wf_re (r : re) : bool :=
  match r with
  | REps | RStr _ | RAny _ | RCls _ _ | RRef _ => true
  | RCat a b | RAlt a b => wf_re a && wf_re b
  | RStar a | RPlus a => one_char a
  | ROpt a | RNcg a | RGrp _ a => wf_re a
  end.

(* ---------- soundness and completeness ---------- *)

Lemma strip_prefix_spec p s s' : strip_prefix p s = Some s' <-> s = p ++ s'.
Proof.
  revert s; induction p as [|a p IH]; intros s; cbn.
  - split; intros H; [inversion H|subst]; reflexivity.
  - destruct s as [|b s]; [split; discriminate|].
    destruct (N.eqb_spec a b) as [->|Hne].
    + rewrite IH. split; intros H; [subst|inversion H]; reflexivity.
    + split; [discriminate|]. intros H. inversion H. congruence.
Qed.

Lemma in_flat_map_res (f : env * str -> res) l x :
  In x (flat_map f l) <-> exists y, In y l /\ In x (f y).
Proof. apply in_flat_map. Qed.

Lemma firstn_app_len (s1 s2 : str) :
  firstn (length (s1 ++ s2) - length s2) (s1 ++ s2) = s1.
Proof.
  rewrite app_length. replace (length s1 + length s2 - length s2)%nat with (length s1 + 0)%nat by lia.
  rewrite firstn_app_2. cbn. apply app_nil_r.
Qed.

Definition sound_at (f : env -> str -> res) (a : re) : Prop :=
  forall e s e' s2, In (e', s2) (f e s) -> exists s1, s = s1 ++ s2 /\ mt a e s1 e'.

Definition complete_at (f : env -> str -> res) (a : re) : Prop :=
  forall e s1 s2 e', mt a e s1 e' -> In (e', s2) (f e (s1 ++ s2)).

Lemma star_loop_sound f a : sound_at f a ->
  forall n e s e' s2, In (e', s2) (star_loop f n e s) ->
    exists s1, s = s1 ++ s2 /\ mt (RStar a) e s1 e'.
Proof.
  intros Hf n; induction n as [|n IH]; intros e s e' s2 Hin; cbn [star_loop] in Hin.
  - destruct Hin as [Heq|[]]. inversion Heq; subst. exists []. split; [reflexivity|constructor].
  - apply in_app_or in Hin as [Hin|Hin].
    + apply in_flat_map in Hin as [[e1 sm] [Hy Hin]]. cbn [fst snd] in Hin.
      destruct (length sm <? length s)%nat; [|destruct Hin].
      apply Hf in Hy as [sa [-> Ha]]. apply IH in Hin as [sb [-> Hb]].
      exists (sa ++ sb). split; [apply app_assoc|]. econstructor; eassumption.
    + destruct Hin as [Heq|[]]. inversion Heq; subst. exists []. split; [reflexivity|constructor].
Qed.

Lemma one_char_len a e s e' : one_char a = true -> mt a e s e' -> length s = 1%nat /\ e' = e.
Proof. intros Ha H. destruct a; try discriminate; inversion H; subst; auto. Qed.

Lemma star_loop_complete f a : one_char a = true -> complete_at f a ->
  forall e s1 e', mt (RStar a) e s1 e' ->
  forall s2 n, (length (s1 ++ s2) <= n)%nat -> In (e', s2) (star_loop f n e (s1 ++ s2)).
Proof.
  intros Ha Hf e s1 e' H. remember (RStar a) as r eqn:Hr.
  induction H; try discriminate; inversion Hr; subst; intros sr n Hn.
  - destruct n; cbn; [left; reflexivity|]. apply in_or_app. right. left. reflexivity.
  - destruct (one_char_len _ _ _ _ Ha H) as [Hl ->].
    destruct n as [|n]; [rewrite !app_length in Hn; lia|].
    cbn [star_loop]. apply in_or_app. left. apply in_flat_map.
    exists (e, s2 ++ sr). split.
    + rewrite <- app_assoc. apply Hf. exact H.
    + cbn [fst snd].
      assert (Hlt : (length (s2 ++ sr) <? length ((s1 ++ s2) ++ sr))%nat = true).
      { apply Nat.ltb_lt. rewrite !app_length. lia. }
      rewrite Hlt. apply IHmt2; [reflexivity|]. rewrite !app_length in *. lia.
Qed.

Lemma ms_sound r : forall e s e' s2, In (e', s2) (ms r e s) -> exists s1, s = s1 ++ s2 /\ mt r e s1 e'.
Proof.
  induction r as [| l | nl | neg b | a IHa b IHb | a IHa b IHb | a IHa | a IHa | a IHa | a IHa | n a IHa | n];
    intros e s e' s2 Hin; cbn [ms] in Hin.
  - destruct Hin as [Heq|[]]. inversion Heq; subst. exists []. split; [reflexivity|constructor].
  - destruct (strip_prefix l s) as [s'|] eqn:E; [|destruct Hin].
    destruct Hin as [Heq|[]]. inversion Heq; subst. apply strip_prefix_spec in E.
    exists l. split; [exact E|constructor].
  - destruct s as [|c s']; [destruct Hin|]. destruct (nl || negb (c =? 10)) eqn:E; [|destruct Hin].
    destruct Hin as [Heq|[]]. inversion Heq; subst. exists [c]. split; [reflexivity|constructor].
    apply orb_true_iff in E as [E|E]; [left; exact E|right]. intros ->. discriminate.
  - destruct s as [|c s']; [destruct Hin|]. destruct (cls_accepts neg b c) eqn:E; [|destruct Hin].
    destruct Hin as [Heq|[]]. inversion Heq; subst. exists [c]. split; [reflexivity|constructor; exact E].
  - apply in_flat_map in Hin as [[e1 sm] [Hy Hin]]. cbn [fst snd] in Hin.
    apply IHa in Hy as [sa [-> Ha]]. apply IHb in Hin as [sb [-> Hb]].
    exists (sa ++ sb). split; [apply app_assoc|]. econstructor; eassumption.
  - apply in_app_or in Hin as [Hin|Hin].
    + apply IHa in Hin as [s1 [-> H]]. exists s1. split; [reflexivity|apply MAltL; exact H].
    + apply IHb in Hin as [s1 [-> H]]. exists s1. split; [reflexivity|apply MAltR; exact H].
  - eapply star_loop_sound; [|exact Hin]. exact IHa.
  - apply in_flat_map in Hin as [[e1 sm] [Hy Hin]]. cbn [fst snd] in Hin.
    apply IHa in Hy as [sa [-> Ha]].
    eapply star_loop_sound in Hin as [sb [-> Hb]]; [|exact IHa].
    exists (sa ++ sb). split; [apply app_assoc|]. econstructor; eassumption.
  - apply in_app_or in Hin as [Hin|Hin].
    + apply IHa in Hin as [s1 [-> H]]. exists s1. split; [reflexivity|apply MOptS; exact H].
    + destruct Hin as [Heq|[]]. inversion Heq; subst. exists []. split; [reflexivity|constructor].
  - apply IHa in Hin as [s1 [-> H]]. exists s1. split; [reflexivity|constructor; exact H].
  - apply in_map_iff in Hin as [[e1 sm] [Heq Hin]]. cbn [fst snd] in Heq. inversion Heq; subst.
    apply IHa in Hin as [s1 [-> H]]. exists s1. split; [reflexivity|].
    rewrite firstn_app_len. constructor. exact H.
  - destruct (env_get n e) as [v|] eqn:Ev; [|destruct Hin].
    destruct (strip_prefix v s) as [s'|] eqn:E; [|destruct Hin].
    destruct Hin as [Heq|[]]. inversion Heq; subst. apply strip_prefix_spec in E.
    exists v. split; [exact E|constructor; exact Ev].
Qed.

Lemma strip_prefix_app p s : strip_prefix p (p ++ s) = Some s.
Proof. apply strip_prefix_spec. reflexivity. Qed.

Lemma ms_complete r : wf_re r = true ->
  forall e s1 s2 e', mt r e s1 e' -> In (e', s2) (ms r e (s1 ++ s2)).
Proof.
  induction r as [| l | nl | neg b | a IHa b IHb | a IHa b IHb | a IHa | a IHa | a IHa | a IHa | n a IHa | n];
    intros Hwf e s1 s2 e' H; cbn [wf_re] in Hwf; inversion H; subst; cbn [ms].
  - left. reflexivity.
  - rewrite strip_prefix_app. left. reflexivity.
  - cbn. match goal with Hc : _ \/ _ |- _ => destruct Hc as [->|Hc] end; [left; reflexivity|].
    destruct (N.eqb_spec c 10); [congruence|]. rewrite orb_true_r. left. reflexivity.
  - cbn. match goal with Hc : cls_accepts _ _ _ = true |- _ => rewrite Hc end. left. reflexivity.
  - apply andb_true_iff in Hwf as [Hwa Hwb]. apply in_flat_map.
    exists (e1, s3 ++ s2). split; [rewrite <- app_assoc; apply IHa; assumption|].
    cbn [fst snd]. apply IHb; assumption.
  - apply andb_true_iff in Hwf as [Hwa Hwb]. apply in_or_app. left. apply IHa; assumption.
  - apply andb_true_iff in Hwf as [Hwa Hwb]. apply in_or_app. right. apply IHb; assumption.
  - change (@nil N ++ s2) with s2. destruct (length s2); cbn; [left; reflexivity|].
    apply in_or_app. right. left. reflexivity.
  - assert (Hwa : wf_re a = true) by (destruct a; try discriminate; reflexivity).
    eapply star_loop_complete with (a := a); [exact Hwf| |exact H|apply Nat.le_refl].
    intros e0 t1 t2 e0' Hm. apply IHa; assumption.
  - assert (Hwa : wf_re a = true) by (destruct a; try discriminate; reflexivity).
    apply in_flat_map. exists (e1, s3 ++ s2). split; [rewrite <- app_assoc; apply IHa; assumption|].
    cbn [fst snd]. eapply star_loop_complete with (a := a); [exact Hwf| |eassumption|apply Nat.le_refl].
    intros e0 t1 t2 e0' Hm. apply IHa; assumption.
  - change (@nil N ++ s2) with s2. apply in_or_app. right. left. reflexivity.
  - apply in_or_app. left. apply IHa; assumption.
  - apply IHa; assumption.
  - apply in_map_iff. exists (e'0, s2). split; [|apply IHa; assumption].
    cbn [fst snd]. rewrite firstn_app_len. reflexivity.
  - match goal with Hg : env_get _ _ = Some _ |- _ => rewrite Hg end.
    rewrite strip_prefix_app. left. reflexivity.
Qed.

Theorem ms_spec r : wf_re r = true ->
  forall e s e' s2, In (e', s2) (ms r e s) <-> exists s1, s = s1 ++ s2 /\ mt r e s1 e'.
Proof.
  intros Hwf e s e' s2. split; [apply ms_sound|].
  intros [s1 [-> H]]. apply ms_complete; assumption.
Qed.

Lemma accepts_sound r s : accepts r s = true -> accepted r s.
Proof.
  unfold accepts, accepted. intros H. apply existsb_exists in H as [[e' s2] [Hin Hn]].
  cbn [snd] in Hn. destruct s2; [|discriminate].
  apply ms_sound in Hin as [s1 [-> Hm]]. rewrite app_nil_r. exists e'. exact Hm.
Qed.

Theorem accepts_spec r s : wf_re r = true -> (accepts r s = true <-> accepted r s).
Proof.
  intros Hwf. split; [apply accepts_sound|].
  intros [e' Hm]. unfold accepts. apply existsb_exists. exists (e', []). split; [|reflexivity].
  rewrite <- (app_nil_r s). apply ms_complete; assumption.
Qed.

Lemma first_match_sound r s e : first_match r s = Some e -> mt r [] s e.
Proof.
  unfold first_match. pose proof (ms_sound r [] s) as Hs.
  induction (ms r [] s) as [|[e1 s2] l IH]; cbn [find option_map]; [discriminate|].
  cbn [snd]. destruct (is_nil s2) eqn:En.
  - cbn. intros H. inversion H; subst e1. destruct s2; [|discriminate].
    destruct (Hs e [] (or_introl eq_refl)) as [s1 [-> Hm]]. rewrite app_nil_r. exact Hm.
  - apply IH. intros e' s' Hin. apply Hs. right. exact Hin.
Qed.

Lemma first_match_some_iff r s : (exists e, first_match r s = Some e) <-> accepts r s = true.
Proof.
  unfold first_match, accepts.
  induction (ms r [] s) as [|[e1 s2] l IH]; cbn.
  - split; [intros [e H]; discriminate|discriminate].
  - destruct (is_nil s2) eqn:E; cbn.
    + split; [reflexivity|]. intros _. exists e1. reflexivity.
    + exact IH.
Qed.
