(* Base85 in the variant of Python's base64.b85encode / b85decode (RFC 1924 style groups, no
   folding), on digit values 0..84; the alphabet is applied by the caller.
     b85enc: every 4 bytes are one big-endian 32-bit word written with 5 base-85 digits, most
             significant first; a last group of k < 4 bytes is padded with zero bytes and keeps
             only its first k+1 digits.
     b85dec: every 5 digits are one word (an error when it does not fit 32 bits); a last group of
             k < 5 digits is padded with the digit 84 and keeps only its first k-1 bytes.
   Round trip proved for byte strings of any length. *)
From Coq Require Import List NArith Bool Lia Arith.
From SV Require Import lib.Bytes lib.KeySort.
Import ListNotations.
Open Scope N_scope.

Definition b85_digits (v : N) : list N :=
  let q1 := v / 85 in let q2 := q1 / 85 in let q3 := q2 / 85 in let q4 := q3 / 85 in
  [q4; q3 mod 85; q2 mod 85; q1 mod 85; v mod 85].

Definition b85_value (ds : list N) : N := fold_left (fun a d => a * 85 + d) ds 0.

Definition is_bytes (b : str) : bool := forallb (fun x => x <? 256) b.

Fixpoint b85enc (b : str) : list N :=
  match b with
  | a :: b1 :: c :: d :: r => b85_digits (be_val [a; b1; c; d]) ++ b85enc r
  | [] => []
  | _ => let p := (4 - length b)%nat in
         firstn (5 - p) (b85_digits (be_val (b ++ repeat 0 p)))
  end.

Fixpoint b85dec (ds : list N) : option str :=
  match ds with
  | d0 :: d1 :: d2 :: d3 :: d4 :: r =>
      let v := b85_value [d0; d1; d2; d3; d4] in
      if v <? 2 ^ 32
      then match b85dec r with Some t => Some (be_bytes 4 v ++ t) | None => None end
      else None
  | [] => Some []
  | _ => let p := (5 - length ds)%nat in
         let v := b85_value (ds ++ repeat 84 p) in
         if v <? 2 ^ 32 then Some (firstn (4 - p) (be_bytes 4 v)) else None
  end.

(* ---------- digits ---------- *)
Lemma b85_value_digits v : b85_value (b85_digits v) = v.
Proof.
  unfold b85_digits, b85_value. cbn [fold_left].
  pose proof (N.div_mod v 85 ltac:(lia)) as E1.
  pose proof (N.div_mod (v / 85) 85 ltac:(lia)) as E2.
  pose proof (N.div_mod (v / 85 / 85) 85 ltac:(lia)) as E3.
  pose proof (N.div_mod (v / 85 / 85 / 85) 85 ltac:(lia)) as E4.
  lia.
Qed.

Lemma b85_digits_lt v : v < 2 ^ 32 -> forallb (fun d => d <? 85) (b85_digits v) = true.
Proof.
  intros Hv. unfold b85_digits. cbn [forallb].
  pose proof (N.mod_lt v 85 ltac:(lia)).
  pose proof (N.mod_lt (v / 85) 85 ltac:(lia)).
  pose proof (N.mod_lt (v / 85 / 85) 85 ltac:(lia)).
  pose proof (N.mod_lt (v / 85 / 85 / 85) 85 ltac:(lia)).
  assert (Q : v / 85 / 85 / 85 / 85 < 85).
  { rewrite !N.div_div by lia. apply N.div_lt_upper_bound; [lia|].
    change (2 ^ 32) with 4294967296 in Hv. lia. }
  repeat (apply andb_true_iff; split); try reflexivity; apply N.ltb_lt; assumption.
Qed.

(* ---------- big-endian words ---------- *)
Lemma is_bytes_app a b : is_bytes (a ++ b) = is_bytes a && is_bytes b.
Proof. unfold is_bytes. apply forallb_app. Qed.

Lemma be_bytes_snoc w m x : x < 256 -> be_bytes (S w) (m * 256 + x) = be_bytes w m ++ [x].
Proof.
  intros Hx. cbn [be_bytes].
  assert (D : (m * 256 + x) / 256 = m).
  { symmetry. apply (N.div_unique _ 256 m x); lia. }
  assert (M : (m * 256 + x) mod 256 = x).
  { symmetry. apply (N.mod_unique _ 256 m x); lia. }
  rewrite D, M. reflexivity.
Qed.

Lemma be_bytes_val l : is_bytes l = true -> be_bytes (length l) (be_val l) = l.
Proof.
  induction l as [|x l IH] using rev_ind; intros B; [reflexivity|].
  rewrite is_bytes_app in B. apply andb_true_iff in B. destruct B as [Bl Bx].
  cbn [is_bytes forallb] in Bx. rewrite andb_true_r in Bx. apply N.ltb_lt in Bx.
  rewrite app_length, be_val_snoc. cbn [length]. rewrite Nat.add_1_r.
  rewrite be_bytes_snoc by exact Bx. rewrite IH by exact Bl. reflexivity.
Qed.

Lemma be_val_lt l : is_bytes l = true -> be_val l < 256 ^ N.of_nat (length l).
Proof.
  induction l as [|x l IH] using rev_ind; intros B; [cbn; lia|].
  rewrite is_bytes_app in B. apply andb_true_iff in B. destruct B as [Bl Bx].
  cbn [is_bytes forallb] in Bx. rewrite andb_true_r in Bx. apply N.ltb_lt in Bx.
  rewrite app_length, be_val_snoc. cbn [length]. rewrite Nat.add_1_r, Nat2N.inj_succ, N.pow_succ_r'.
  specialize (IH Bl). lia.
Qed.

(* ---------- one full group ---------- *)
Lemma b85_group a b c d r t :
  is_bytes [a; b; c; d] = true -> b85dec r = Some t ->
  b85dec (b85_digits (be_val [a; b; c; d]) ++ r) = Some ([a; b; c; d] ++ t).
Proof.
  intros B R. pose proof (be_val_lt _ B) as L. cbn [length] in L.
  change (256 ^ N.of_nat 4) with (2 ^ 32) in L.
  set (v := be_val [a; b; c; d]) in *.
  pose proof (b85_value_digits v) as V. unfold b85_digits in V |- *.
  cbn [app b85dec]. rewrite V.
  destruct (v <? 2 ^ 32) eqn:Lt; [|apply N.ltb_ge in Lt; lia].
  rewrite R. unfold v. pose proof (be_bytes_val [a; b; c; d] B) as W. cbn [length] in W.
  rewrite W. reflexivity.
Qed.

Theorem b85_round_trip_words n : forall b,
  length b = (4 * n)%nat -> is_bytes b = true -> b85dec (b85enc b) = Some b.
Proof.
  induction n as [|n IH]; intros b L B.
  - destruct b; [reflexivity|discriminate L].
  - destruct b as [|a [|b1 [|c [|d r]]]]; try (cbn [length] in L; lia).
    assert (Lr : length r = (4 * n)%nat) by (cbn [length] in L; lia).
    change (a :: b1 :: c :: d :: r) with ([a; b1; c; d] ++ r) in B.
    rewrite is_bytes_app in B. apply andb_true_iff in B. destruct B as [B4 Br].
    change (b85enc (a :: b1 :: c :: d :: r)) with (b85_digits (be_val [a; b1; c; d]) ++ b85enc r).
    rewrite (b85_group a b1 c d _ r B4 (IH r Lr Br)). reflexivity.
Qed.

(* every digit of an encoded word string is below 85 *)
Lemma b85enc_digits_lt n : forall b,
  length b = (4 * n)%nat -> is_bytes b = true -> forallb (fun d => d <? 85) (b85enc b) = true.
Proof.
  induction n as [|n IH]; intros b L B.
  - destruct b; [reflexivity|discriminate L].
  - destruct b as [|a [|b1 [|c [|d r]]]]; try (cbn [length] in L; lia).
    assert (Lr : length r = (4 * n)%nat) by (cbn [length] in L; lia).
    change (a :: b1 :: c :: d :: r) with ([a; b1; c; d] ++ r) in B.
    rewrite is_bytes_app in B. apply andb_true_iff in B. destruct B as [B4 Br].
    change (b85enc (a :: b1 :: c :: d :: r)) with (b85_digits (be_val [a; b1; c; d]) ++ b85enc r).
    rewrite forallb_app, (IH r Lr Br), andb_true_r. apply b85_digits_lt.
    pose proof (be_val_lt _ B4) as L4. exact L4.
Qed.

(* ---------- a last group of 1, 2 or 3 bytes ---------- *)
Lemma firstn_be_bytes k : forall p n,
  firstn k (be_bytes (k + p) n) = be_bytes k (n / 256 ^ N.of_nat p).
Proof.
  induction p as [|p IH]; intros n.
  - rewrite Nat.add_0_r. cbn [N.of_nat]. rewrite N.pow_0_r, N.div_1_r.
    rewrite <- (be_bytes_length k n) at 1. apply firstn_all.
  - rewrite Nat.add_succ_r. cbn [be_bytes]. rewrite firstn_app, be_bytes_length.
    replace (k - (k + p))%nat with 0%nat by lia. cbn [firstn]. rewrite app_nil_r, IH.
    rewrite Nat2N.inj_succ, N.pow_succ_r', N.div_div by lia. reflexivity.
Qed.

(* decoding the padded digits of m * 256^p gives back the k = 4 - p bytes of m:
   v' (the word read back) lies in [m * 256^p, (m + 1) * 256^p) *)
Lemma tail_bytes t p v' :
  is_bytes t = true -> (length t + p = 4)%nat ->
  be_val t * 256 ^ N.of_nat p <= v' < (be_val t + 1) * 256 ^ N.of_nat p ->
  firstn (length t) (be_bytes 4 v') = t.
Proof.
  intros B L [Lo Hi]. rewrite <- L, firstn_be_bytes.
  assert (P : 256 ^ N.of_nat p <> 0) by (apply N.pow_nonzero; lia).
  assert (D : v' / 256 ^ N.of_nat p = be_val t).
  { symmetry. apply (N.div_unique _ _ _ (v' - be_val t * 256 ^ N.of_nat p)); lia. }
  rewrite D. apply be_bytes_val. exact B.
Qed.

Ltac byte_hyps B :=
  unfold is_bytes in B; cbn [forallb] in B;
  repeat match goal with H : _ && _ = true |- _ => apply andb_true_iff in H; destruct H end;
  repeat match goal with H : (_ <? 256) = true |- _ => apply N.ltb_lt in H end.

Lemma pad_bounds v q1 q2 q3 q4 r1 r2 r3 r4 :
  v = 85 * q1 + r1 -> q1 = 85 * q2 + r2 -> q2 = 85 * q3 + r3 -> q3 = 85 * q4 + r4 ->
  r1 < 85 -> r2 < 85 -> r3 < 85 -> r4 < 85 ->
  (v <= ((((0 * 85 + q4) * 85 + r4) * 85 + 84) * 85 + 84) * 85 + 84 < v + 614125)
  /\ (v <= ((((0 * 85 + q4) * 85 + r4) * 85 + r3) * 85 + 84) * 85 + 84 < v + 7225)
  /\ (v <= ((((0 * 85 + q4) * 85 + r4) * 85 + r3) * 85 + r2) * 85 + 84 < v + 85).
Proof. intros. lia. Qed.

Lemma pad_bounds_div v :
  let q1 := v / 85 in let q2 := q1 / 85 in let q3 := q2 / 85 in let q4 := q3 / 85 in
  (v <= ((((0 * 85 + q4) * 85 + q3 mod 85) * 85 + 84) * 85 + 84) * 85 + 84 < v + 614125)
  /\ (v <= ((((0 * 85 + q4) * 85 + q3 mod 85) * 85 + q2 mod 85) * 85 + 84) * 85 + 84 < v + 7225)
  /\ (v <= ((((0 * 85 + q4) * 85 + q3 mod 85) * 85 + q2 mod 85) * 85 + q1 mod 85) * 85 + 84 < v + 85).
Proof.
  intros q1 q2 q3 q4.
  apply (pad_bounds v q1 q2 q3 q4 (v mod 85) (q1 mod 85) (q2 mod 85) (q3 mod 85));
    first [apply N.div_mod; discriminate | apply N.mod_lt; discriminate].
Qed.

Ltac divmods v :=
  pose proof (N.div_mod v 85 ltac:(lia));
  pose proof (N.div_mod (v / 85) 85 ltac:(lia));
  pose proof (N.div_mod (v / 85 / 85) 85 ltac:(lia));
  pose proof (N.div_mod (v / 85 / 85 / 85) 85 ltac:(lia));
  pose proof (N.mod_lt v 85 ltac:(lia));
  pose proof (N.mod_lt (v / 85) 85 ltac:(lia));
  pose proof (N.mod_lt (v / 85 / 85) 85 ltac:(lia));
  pose proof (N.mod_lt (v / 85 / 85 / 85) 85 ltac:(lia)).

Lemma b85_tail1 a : is_bytes [a] = true -> b85dec (b85enc [a]) = Some [a].
Proof.
  intros B. pose proof B as B0. byte_hyps B.
  cbn [b85enc length Nat.sub repeat app]. unfold b85_digits. cbn [firstn].
  cbn [b85dec length Nat.sub repeat app]. unfold b85_value. cbn [fold_left].
  set (v := be_val [a; 0; 0; 0]).
  assert (V : v = a * 16777216) by (unfold v, be_val; cbn [fold_left]; lia).
  clearbody v.
  set (v' := ((((0 * 85 + v / 85 / 85 / 85 / 85) * 85 + (v / 85 / 85 / 85) mod 85) * 85 + 84) * 85 + 84) * 85 + 84).
  assert (R : v <= v' < v + 614125) by (exact (proj1 (pad_bounds_div v))).
  change (2 ^ 32) with 4294967296.
  destruct (v' <? 4294967296) eqn:Lt; [|apply N.ltb_ge in Lt; lia].
  f_equal. apply (tail_bytes [a] 3 v' B0 eq_refl).
  change (256 ^ N.of_nat 3) with 16777216. unfold be_val. cbn [fold_left]. lia.
Qed.

Lemma b85_tail2 a b : is_bytes [a; b] = true -> b85dec (b85enc [a; b]) = Some [a; b].
Proof.
  intros B. pose proof B as B0. byte_hyps B.
  cbn [b85enc length Nat.sub repeat app]. unfold b85_digits. cbn [firstn].
  cbn [b85dec length Nat.sub repeat app]. unfold b85_value. cbn [fold_left].
  set (v := be_val [a; b; 0; 0]).
  assert (V : v = (a * 256 + b) * 65536) by (unfold v, be_val; cbn [fold_left]; lia).
  clearbody v.
  set (v' := ((((0 * 85 + v / 85 / 85 / 85 / 85) * 85 + (v / 85 / 85 / 85) mod 85) * 85 + (v / 85 / 85) mod 85) * 85 + 84) * 85 + 84).
  assert (R : v <= v' < v + 7225) by (exact (proj1 (proj2 (pad_bounds_div v)))).
  change (2 ^ 32) with 4294967296.
  destruct (v' <? 4294967296) eqn:Lt; [|apply N.ltb_ge in Lt; lia].
  f_equal. apply (tail_bytes [a; b] 2 v' B0 eq_refl).
  change (256 ^ N.of_nat 2) with 65536. unfold be_val. cbn [fold_left]. lia.
Qed.

Lemma b85_tail3 a b c : is_bytes [a; b; c] = true -> b85dec (b85enc [a; b; c]) = Some [a; b; c].
Proof.
  intros B. pose proof B as B0. byte_hyps B.
  cbn [b85enc length Nat.sub repeat app]. unfold b85_digits. cbn [firstn].
  cbn [b85dec length Nat.sub repeat app]. unfold b85_value. cbn [fold_left].
  set (v := be_val [a; b; c; 0]).
  assert (V : v = ((a * 256 + b) * 256 + c) * 256) by (unfold v, be_val; cbn [fold_left]; lia).
  clearbody v.
  set (v' := ((((0 * 85 + v / 85 / 85 / 85 / 85) * 85 + (v / 85 / 85 / 85) mod 85) * 85 + (v / 85 / 85) mod 85) * 85 + (v / 85) mod 85) * 85 + 84).
  assert (R : v <= v' < v + 85) by (exact (proj2 (proj2 (pad_bounds_div v)))).
  change (2 ^ 32) with 4294967296.
  destruct (v' <? 4294967296) eqn:Lt; [|apply N.ltb_ge in Lt; lia].
  f_equal. apply (tail_bytes [a; b; c] 1 v' B0 eq_refl).
  change (256 ^ N.of_nat 1) with 256. unfold be_val. cbn [fold_left]. lia.
Qed.

(* any length *)
Theorem b85_round_trip_any n : forall b,
  (length b <= 4 * n + 3)%nat -> is_bytes b = true -> b85dec (b85enc b) = Some b.
Proof.
  induction n as [|n IH]; intros b L B.
  - destruct b as [|a [|b1 [|c [|d r]]]]; try (cbn [length] in L; lia);
      [reflexivity|apply b85_tail1|apply b85_tail2|apply b85_tail3]; exact B.
  - destruct b as [|a [|b1 [|c [|d r]]]];
      [reflexivity|apply b85_tail1; exact B|apply b85_tail2; exact B|apply b85_tail3; exact B|].
    assert (Lr : (length r <= 4 * n + 3)%nat) by (cbn [length] in L; lia).
    change (a :: b1 :: c :: d :: r) with ([a; b1; c; d] ++ r) in B.
    rewrite is_bytes_app in B. apply andb_true_iff in B. destruct B as [B4 Br].
    change (b85enc (a :: b1 :: c :: d :: r)) with (b85_digits (be_val [a; b1; c; d]) ++ b85enc r).
    rewrite (b85_group a b1 c d _ r B4 (IH r Lr Br)). reflexivity.
Qed.

Lemma forallb_firstn {A} (p : A -> bool) k l : forallb p l = true -> forallb p (firstn k l) = true.
Proof.
  revert k. induction l as [|x l IH]; intros k Hl; [destruct k; reflexivity|].
  destruct k; [reflexivity|]. cbn [firstn forallb] in *. apply andb_true_iff in Hl. destruct Hl as [Hx Hl].
  rewrite Hx, (IH k Hl). reflexivity.
Qed.

Lemma b85enc_tail_lt t :
  (length t < 4)%nat -> is_bytes t = true -> forallb (fun d => d <? 85) (b85enc t) = true.
Proof.
  intros L B.
  assert (G : forall p, (length t + p = 4)%nat ->
              forallb (fun d => d <? 85) (firstn (5 - p) (b85_digits (be_val (t ++ repeat 0 p)))) = true).
  { intros p E. apply forallb_firstn, b85_digits_lt.
    assert (Bp : is_bytes (t ++ repeat 0 p) = true).
    { rewrite is_bytes_app, B. cbn [andb]. unfold is_bytes. apply forallb_forall. intros x Hx.
      apply repeat_spec in Hx. subst x. reflexivity. }
    pose proof (be_val_lt _ Bp) as Lv. rewrite app_length, repeat_length, E in Lv. exact Lv. }
  destruct t as [|a [|b1 [|c [|d r]]]]; [reflexivity| | | |cbn [length] in L; lia].
  - exact (G 3%nat eq_refl).
  - exact (G 2%nat eq_refl).
  - exact (G 1%nat eq_refl).
Qed.

Lemma b85enc_digits_lt_any n : forall b,
  (length b <= 4 * n + 3)%nat -> is_bytes b = true -> forallb (fun d => d <? 85) (b85enc b) = true.
Proof.
  induction n as [|n IH]; intros b L B.
  - apply b85enc_tail_lt; [lia|exact B].
  - destruct b as [|a [|b1 [|c [|d r]]]]; try (apply b85enc_tail_lt; [cbn [length]; lia|exact B]).
    assert (Lr : (length r <= 4 * n + 3)%nat) by (cbn [length] in L; lia).
    change (a :: b1 :: c :: d :: r) with ([a; b1; c; d] ++ r) in B.
    rewrite is_bytes_app in B. apply andb_true_iff in B. destruct B as [B4 Br].
    change (b85enc (a :: b1 :: c :: d :: r)) with (b85_digits (be_val [a; b1; c; d]) ++ b85enc r).
    rewrite forallb_app, (IH r Lr Br), andb_true_r. apply b85_digits_lt.
    pose proof (be_val_lt _ B4) as L4. exact L4.
Qed.

(* ---------- characters ---------- *)
Fixpoint mapM {A B : Type} (f : A -> option B) (l : list A) : option (list B) :=
  match l with
  | [] => Some []
  | x :: r => match f x, mapM f r with Some y, Some t => Some (y :: t) | _, _ => None end
  end.

Fixpoint index_of (c : N) (alphabet : str) : option N :=
  match alphabet with
  | [] => None
  | x :: r => if x =? c then Some 0 else option_map N.succ (index_of c r)
  end.

Definition b85_char (alphabet : str) (d : N) : N := nth (N.to_nat d) alphabet 0.

(* base64.b85encode(b).decode() / base64.b85decode(s), strings as lists of character codes *)
Definition b85_encode (alphabet : str) (b : str) : str := map (b85_char alphabet) (b85enc b).
Definition b85_decode (alphabet : str) (s : str) : option str :=
  match mapM (fun c => index_of c alphabet) s with
  | Some ds => b85dec ds
  | None => None
  end.

(* 85 distinct characters: every digit is found again at its own position *)
Definition alphabet_ok (alphabet : str) : bool :=
  Nat.eqb (length alphabet) 85
  && forallb (fun d => match index_of (b85_char alphabet d) alphabet with Some d' => d' =? d | None => false end)
             (map N.of_nat (seq 0 85)).

Lemma chars_round_trip alphabet ds :
  alphabet_ok alphabet = true -> forallb (fun d => d <? 85) ds = true ->
  mapM (fun c => index_of c alphabet) (map (b85_char alphabet) ds) = Some ds.
Proof.
  intros A. unfold alphabet_ok in A. apply andb_true_iff in A. destruct A as [_ A].
  rewrite forallb_forall in A.
  induction ds as [|d ds IH]; intros L; [reflexivity|].
  cbn [forallb] in L. apply andb_true_iff in L. destruct L as [Ld Lr]. apply N.ltb_lt in Ld.
  cbn [map mapM]. rewrite (IH Lr).
  assert (Hin : In d (map N.of_nat (seq 0 85))).
  { apply in_map_iff. exists (N.to_nat d). split; [apply N2Nat.id|]. apply in_seq. lia. }
  specialize (A d Hin). destruct (index_of (b85_char alphabet d) alphabet) as [d'|]; [|discriminate].
  apply N.eqb_eq in A. subst d'. reflexivity.
Qed.

Theorem b85_round_trip alphabet n b :
  alphabet_ok alphabet = true -> length b = (4 * n)%nat -> is_bytes b = true ->
  b85_decode alphabet (b85_encode alphabet b) = Some b.
Proof.
  intros A L B. unfold b85_decode, b85_encode.
  rewrite (chars_round_trip _ _ A (b85enc_digits_lt n b L B)). apply (b85_round_trip_words n); assumption.
Qed.

(* ... and for byte strings of any length (a last group of 1-3 bytes is padded) *)
Theorem b85_round_trip_all alphabet b :
  alphabet_ok alphabet = true -> is_bytes b = true ->
  b85_decode alphabet (b85_encode alphabet b) = Some b.
Proof.
  intros A B. unfold b85_decode, b85_encode.
  assert (L : (length b <= 4 * length b + 3)%nat) by lia.
  rewrite (chars_round_trip _ _ A (b85enc_digits_lt_any (length b) b L B)).
  apply (b85_round_trip_any (length b)); assumption.
Qed.
