(* Golden values for the C17 tie: the RE_ANY_WILD text the tokenizer of model/Nglob.v was
   written against and the structural fingerprints of the functions that are tied by
   fingerprint + correspondence.  Regenerate with
     PYTHONPATH=/repo /venv/bin/python -m translator.gen_nglob --golden > coq/model/NglobGolden.v
   ONLY after reviewing the source change against model/Nglob.v. *)
From Coq Require Import List NArith.
From SV Require Import lib.Bytes.
Import ListNotations.
Open Scope N_scope.
Definition golden_any_wild : str := [40;94;91;42;93;91;42;93;36;124;40;63;60;61;47;41;91;42;93;91;42;93;36;124;94;91;42;93;91;42;93;47;124;40;63;60;61;47;41;91;42;93;91;42;93;47;124;92;91;46;42;63;93;124;91;42;93;124;91;63;93;124;92;36;92;123;92;42;91;97;45;122;65;45;90;48;45;57;95;93;42;63;125;41]%N.
Definition golden_any_wild_flags : N := 32.
Definition golden_fingerprints : list str := [
  [56;56;55;50;49;49;52;98;51;54;53;97;50;53;57;56;54;98;52;55;54;48;102;99;97;97;52;52;53;48;50;49]%N (* iter_wildcard_names 8872114b365a25986b4760fcaa445021 *);
  [53;51;97;97;53;102;97;100;49;48;50;98;51;57;53;48;52;99;98;57;53;57;50;53;57;101;102;48;57;49;101;54]%N (* has_anonymous_wildcards 53aa5fad102b39504cb959259ef091e6 *);
  [97;54;98;48;52;50;100;55;48;48;57;54;101;99;52;102;102;54;97;102;49;53;57;51;49;99;97;52;53;57;51;53]%N (* default_used_names a6b042d70096ec4ff6af15931ca45935 *);
  [101;98;97;50;54;98;50;99;102;50;56;55;54;56;52;97;56;49;48;55;98;53;53;100;55;98;49;49;56;98;56;54]%N (* default_glob eba26b2cf287684a8107b55d7b118b86 *);
  [100;102;54;53;48;102;48;99;48;55;97;97;99;100;48;54;52;100;56;100;49;55;100;101;98;97;52;97;100;54;98;56]%N (* default_regex df650f0c07aacd064d8d17deba4ad6b8 *);
  [50;52;48;53;99;101;98;50;50;48;50;101;50;55;52;100;51;54;99;51;50;55;50;48;57;52;98;50;49;57;55;57]%N (* glob 2405ceb2202e274d36c3272094b21979 *)
].
