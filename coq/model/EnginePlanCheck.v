(* C01: a boolean form of the defining equations [Finished_p] (model/EnginePlan.v), so that the
   hypothesis of props/C01.v C01_plan_history_finished_implies_scratch_partial can be EVALUATED on
   the final state that the model reaches for a concrete history (harness/c01_plan.py).
   Definitions only; soundness in proofs/EnginePlanCheckProofs.v. *)
From Coq Require Import List NArith Bool.
From SV Require Import model.Engine model.EnginePlan.
Import ListNotations.
Open Scope N_scope.

Section Check.
  Variable run : N -> list (option N) -> list (option N) -> N -> N.
  Variable plan : N -> list (option N) -> list (option N) -> list N.

  Definition local_pb (U : universe) (y : psys) (u : ustep) : bool :=
    let b := pbase y in
    (negb (ucr u =? 0) || plk y (uid u)) &&
    forallb (fun c => negb ((uid c =? ucr u) && trusted U y (uid c) && is_succ (stt b (uid c))) ||
                      Bool.eqb (plk y (uid u)) (memN (uid u) (defines plan b (ust c)))) U &&
    (negb (trusted U y (uid u)) ||
     if ready_t U y (ust u)
     then is_succ (stt b (uid u)) &&
          forallb (fun p => oN_eqb (fs b p)
                                   (Some (run (uid u) (map (fs b) (inp (ust u))) (map (ev b) (envn (ust u))) p)))
                  (out (ust u))
     else negb (is_succ (stt b (uid u)))).
  Definition finished_pb (U : universe) (y : psys) : bool := forallb (local_pb U y) U.
End Check.

(* the state after a history of worlds (engine as the code has it), and whether it is finished *)
Definition final_hist_p (tab : list (N * N * list N)) (U : universe) (worlds : list (list (N * N))) : psys :=
  fold_left (fun y src => build_world_p mix_run (plan_tab tab) U (src_of src, src_of []) y) worlds (p_empty U).
Definition final_finished_p (tab : list (N * N * list N)) (U : universe) (worlds : list (list (N * N))) : bool :=
  finished_pb mix_run (plan_tab tab) U (final_hist_p tab U worlds).
