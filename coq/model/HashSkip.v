(* C13, end to end: from "what is on disk and in the database" to the decision of
   Executor.try_skip_job.  Definitions only (proofs in proofs/HashSkipProofs.v).

   H is SHA-256 (Section variable, as in model/Hash.v `refreshed`).
   disk p : dstate (model/HashSkipTypes.v): missing, a readable regular file, or something that
   can be stat'ed but not hashed (directory, no permission).

   compute_inp_hashes / compute_out_hashes (hash.py) refresh the recorded FileHash of every path
   against the disk; the per-path outcome of compute_inp_hashes is generated (gen/GenHashSkip.v).
   The executor reaches StepHash.from_inp only when `messages` is empty and nothing was raised
   (translator/gen_hash_sites.py checks the guard of both call sites): observed_inps.
   try_skip compares the recorded pair of digests with the new one (generated tests, in the order
   of the source) and says whether the step is skipped. *)
From Coq Require Import List NArith Bool Permutation.
From SV Require Import lib.Bytes lib.KeySort lib.Base85 model.HashTypes gen.GenHash model.Hash
  model.HashSiteTypes gen.GenHashSites model.HashSites model.HashSkipTypes gen.GenHashSkip.
Import ListNotations.
Open Scope N_scope.

Definition with_inps (s : syscfg) (inps : list (str * fsig)) : syscfg :=
  mk_sys (sys_command s) (sys_workdir s) (sys_shell s) inps (sys_env_deps s) (sys_environ s)
         (sys_infra s) (sys_ovrs s) (sys_outs s).
Definition with_outs (s : syscfg) (outs : list (str * fsig)) : syscfg :=
  mk_sys (sys_command s) (sys_workdir s) (sys_shell s) (sys_inps s) (sys_env_deps s) (sys_environ s)
         (sys_infra s) (sys_ovrs s) outs.

Definition sigs (l : list (str * fhash)) : list (str * fsig) :=
  map (fun e => (fst e, fh_sig (snd e))) l.

Section Skip.
  Variable H : str -> str.

  Definition disk := str -> dstate.

  (* FileHash.refreshed with its third outcome: None = it raises HashFailedError / OSError (only when
     the stat shortcut is not taken: the content is not touched otherwise) *)
  Definition refreshed_x (old : fhash) (o : dstate) : option fhash :=
    match o with
    | DMissing => Some (refreshed H old None)
    | DFile st data => Some (refreshed H old (Some (st, data)))
    | DUnreadable st => if refreshed_same old st then Some old else None
    end.

  (* one iteration of `for path in sorted(inp_hashes)`; an exception that leaves the function is
     folded into InpRaise (the executor gets no result either way) *)
  Definition inp_entry (d : disk) (e : str * fhash) : (str * fhash) * inp_outcome :=
    match refreshed_x (snd e) (d (fst e)) with
    | Some new =>
        ((fst e, new),
         inp_entry_outcome (negb (fh_eqb new (snd e))) (fh_is_unknown new) (fh_is_unknown (snd e)) false)
    | None =>
        match inp_on_unreadable with
        | Some new =>
            ((fst e, new),
             inp_entry_outcome (negb (fh_eqb new (snd e))) (fh_is_unknown new) (fh_is_unknown (snd e)) true)
        | None => (e, InpRaise)
        end
    end.

  (* does compute_inp_hashes see this input as the recorded one? *)
  Definition inp_unchanged (d : disk) (e : str * fhash) : bool :=
    match refreshed_x (snd e) (d (fst e)) with
    | Some new => fh_eqb new (snd e)
    | None => false
    end.

  (* None: ConsistencyError or another exception; Some (messages non-empty, all_hashes) *)
  Definition compute_inp_hashes (d : disk) (olds : list (str * fhash)) : option (bool * list (str * fhash)) :=
    let rs := map (inp_entry d) (sort_keys olds) in
    if existsb is_raise (map snd rs) then None
    else Some (existsb is_message (map snd rs), map fst rs).

  (* all_hashes of compute_out_hashes (missing outputs are hashed as unknown); None: refreshed
     raised (an output is a directory / unreadable), the executor gets no result *)
  Definition compute_out_hashes (d : disk) (olds : list (str * fhash)) : option (list (str * fhash)) :=
    mapM (fun e => option_map (pair (fst e)) (refreshed_x (snd e) (d (fst e)))) (sort_keys olds).

  (* the input map that reaches StepHash.from_inp *)
  Definition observed_inps (d : disk) (olds : list (str * fhash)) : option (list (str * fsig)) :=
    match compute_inp_hashes d olds with
    | Some (false, all) => Some (sigs all)
    | _ => None
    end.
  Definition observed_outs (d : disk) (olds : list (str * fhash)) : option (list (str * fsig)) :=
    option_map sigs (compute_out_hashes d olds).

  (* Executor._compute_full_step_hash after the command of the step ran (execute_job records it
     with Step.mark_completed when the run succeeded): the recorded hash and the configuration it
     was computed from.  s gives the ingredients other than files. *)
  Definition full_step_hash (s : syscfg) (d : disk) (inp_olds out_olds : list (str * fhash))
    : option (shash * syscfg) :=
    match observed_inps d inp_olds, observed_outs d out_olds with
    | Some inps, Some outs =>
        let s' := with_outs (with_inps s inps) outs in
        Some (mk_shash (H (inp_preimage (site_full_cfg s'))) (Some (H (out_preimage (site_full_outs s')))), s')
    | _, _ => None
    end.

  (* Executor.try_skip_job.  None: the step failed early (changed / vanished / missing / unreadable
     input, or the outputs could not be hashed).
     Some (true, h): skipped, h is recorded (Step.mark_completed (new_hash, False)).
     Some (false, _): NOSKIP, the step is reset to PENDING without a hash. *)
  Definition try_skip (rec : shash) (s : syscfg) (d : disk) (inp_olds out_olds : list (str * fhash))
    : option (bool * shash) :=
    match observed_inps d inp_olds with
    | None => None
    | Some inps =>
        let s1 := with_inps s inps in
        let new1 := mk_shash (H (inp_preimage (site_inp_cfg s1))) None in
        if skip_inp_differs rec new1 then Some (false, new1)
        else
          match observed_outs d out_olds with
          | None => None
          | Some outs =>
              let s2 := with_outs s1 outs in
              let new2 := mk_shash (sh_inp new1) (Some (H (out_preimage (site_out_outs s2)))) in
              if skip_out_differs rec new2 then Some (false, new2) else Some (true, new2)
          end
    end.

  (* collision-freeness of SHA-256 on one pair of pre-images *)
  Definition no_collision (a b : str) : Prop := H a = H b -> a = b.
End Skip.

(* The full statement for the skip decision: "unchanged" only for the recorded configuration, modulo
   SHA-256 collisions on the two pairs of pre-images compared.  (False today for the output part:
   defect D2, see proofs/HashSkipProofs.v skip_full_refuted.) *)
Definition skip_full : Prop :=
  forall (H : str -> str) (s0 : syscfg) (d0 : disk) (io0 oo0 : list (str * fhash)) (rec : shash) (rs : syscfg),
    full_step_hash H s0 d0 io0 oo0 = Some (rec, rs) ->
    forall (s : syscfg) (d : disk) (io oo : list (str * fhash)) (h : shash),
      try_skip H rec s d io oo = Some (true, h) ->
      forall inps outs, observed_inps H d io = Some inps -> observed_outs H d oo = Some outs ->
      let now := with_outs (with_inps s inps) outs in
      sys_wf rs = true -> sys_wf now = true ->
      wf_files (sys_outs rs) = true -> wf_files (sys_outs now) = true ->
      no_collision H (inp_preimage (site_inp_cfg rs)) (inp_preimage (site_inp_cfg now)) ->
      no_collision H (out_preimage (sys_outs rs)) (out_preimage (sys_outs now)) ->
      sys_equiv rs now /\ sys_out_equiv rs now.
