(* C08: life cycle of the rows of the `nglob` table (step.py: STEP_SCHEMA), across the whole code
   base, not only the declaration layer. Definitions only.

   The statements that write the table are enumerated from the source on every run by
   translator/gen_claims.py (nglob_sites, fail closed on any other statement):
     INSERT  Step.add_nglob                      <- Workflow.register_nglob (accepted registration)
     UPDATE  Workflow.persist_nglob_matches      data of ONE row, addressed by its row id
     DELETE  Step.reset_for_rerun                all rows of ONE step (the step is about to rerun)
     CASCADE FOREIGN KEY (node) ... ON DELETE CASCADE <- Trellis.delete_detached (DELETE FROM node)
   Every reader joins `node` and filters NOT node.detached, so the rows of a detached step are
   dormant and come back when the step node is re-attached (try_recycle / create).

   A table is a list of rows in row-id order plus the set of detached steps. *)
From Coq Require Import List NArith Bool.
From SV Require Import lib.Bytes gen.GenClaims model.Claims.
Import ListNotations.
Open Scope N_scope.

Record row := mkRow { r_id : N; r_step : str; r_pat : str; r_subs : subs_t; r_ms : list str }.

Record table := mkTable { rows : list row; det : list str }.

Definition empty_table : table := mkTable [] [].

(* `i INTEGER PRIMARY KEY` without AUTOINCREMENT: SQLite assigns the largest row id in use + 1
   (1 for an empty table), so the id of a deleted LAST row is handed out again. *)
Definition max_id (l : list row) : N := fold_right (fun r m => N.max (r_id r) m) 0 l.
Definition next_id (t : table) : N := max_id (rows t) + 1.

Inductive op :=
  | OAdd (s pat : str) (subs : subs_t) (ms : list str)   (* accepted register_nglob *)
  | OPersist (i : N) (ms : list str)                     (* persist_nglob_matches(nglob_i, ...) *)
  | OReset (s : str)                                     (* Step.reset_for_rerun *)
  | ODetach (s : str)                                    (* Node.detach of the step *)
  | OAttach (s : str)                                    (* the step node is re-attached *)
  | OPurge (s : str).                                    (* delete_detached deletes the step node *)

Definition of_step (s : str) (r : row) : bool := str_eqb (r_step r) s.

(* register_nglob's own pre-delete, translated (gen/GenClaims.v register_pre_delete; [] on the
   unchanged tree) and Step.reset_for_rerun's DELETE (reset_deletes_rows) *)
Definition row_superseded (cols : list N) (s pat key : str) (r : row) : bool :=
  forallb (fun c => if c =? 1 then str_eqb (r_step r) s
                    else if c =? 2 then str_eqb (r_pat r) pat
                    else if c =? 3 then str_eqb (gkey (r_pat r) (r_subs r)) key
                    else false) cols.

Definition rows_pre_delete (cols : list N) (s pat key : str) (l : list row) : list row :=
  match cols with
  | [] => l
  | _ => filter (fun r => negb (row_superseded cols s pat key r)) l
  end.

Definition apply_op (t : table) (o : op) : table :=
  match o with
  | OAdd s pat subs ms =>
      let kept := rows_pre_delete register_pre_delete s pat (gkey pat subs) (rows t) in
      mkTable (kept ++ [mkRow (max_id kept + 1) s pat subs ms]) (det t)
  | OPersist i ms =>
      mkTable (map (fun r => if r_id r =? i then mkRow (r_id r) (r_step r) (r_pat r) (r_subs r) ms else r)
                   (rows t)) (det t)
  | OReset s => if reset_deletes_rows then mkTable (filter (fun r => negb (of_step s r)) (rows t)) (det t) else t
  | ODetach s => mkTable (rows t) (if mem_str s (det t) then det t else s :: det t)
  | OAttach s => mkTable (rows t) (remove_str s (det t))
  | OPurge s =>
      (* only a detached node is ever deleted *)
      if mem_str s (det t)
      then mkTable (filter (fun r => negb (of_step s r)) (rows t)) (remove_str s (det t))
      else t
  end.

Definition run_ops (t : table) (os : list op) : table := fold_left apply_op os t.

(* What nglob_registrations / matches_any_glob / _raise_if_glob_match see. *)
Definition visible (t : table) : list row := filter (fun r => negb (mem_str (r_step r) (det t))) (rows t).

(* The documented removal paths of the rows of step s. *)
Definition removes (s : str) (o : op) : bool :=
  match o with
  | OReset s' | OPurge s' => str_eqb s' s
  | _ => false
  end.

(* the registration (not the recorded matches, which persist_nglob_matches may rewrite) *)
Definition same_registration (a b : row) : bool :=
  (r_id a =? r_id b) && str_eqb (r_step a) (r_step b) && str_eqb (r_pat a) (r_pat b)
  && list_eqb (fun x y : str * str => str_eqb (fst x) (fst y) && str_eqb (snd x) (snd y)) (r_subs a) (r_subs b).

(* canonical view for the correspondence: (id, step, gkey pattern subs, matches, visible) *)
Definition row_view (t : table) (r : row) : N * (str * (str * (list str * bool))) :=
  (r_id r, (r_step r, (gkey (r_pat r) (r_subs r), (r_ms r, negb (mem_str (r_step r) (det t)))))).

Definition table_view (t : table) := map (row_view t) (rows t).
