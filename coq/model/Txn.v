(* C15: executable model of DBSession transactions, concurrent request handlers and the RPC
   server connection that spawns them.  Definitions only (proofs in proofs/TxnProofs.v).

   What is modelled, and where it comes from:
   * the committed store and the working copy of the one open transaction; a transaction is
     opened by the task that gets the asyncio lock (sqlite3.py: DBSession._acquire + BEGIN
     IMMEDIATE), and it is closed by interpreting the action lists GENERATED from
     DBSession.__aexit__ (gen.GenStructure: aexit_ok / aexit_exc / aexit_finally);
   * a handler task = a list of transactions (director.py: one `async with self.db` block per
     element), each a list of mutations that may raise and of yield points (`await` inside the
     block); an exception or a delivered cancellation ends the task (rpc.py:
     _call_and_capture_failure turns it into a reply);
   * an arbitrary scheduler: the event list decides which task performs its next instruction.
     This interleaves at a finer grain than asyncio does (asyncio only switches at awaits), so
     every asyncio schedule is one of the schedules quantified over;
   * the connection: Recv spawns a handler task for a completely received frame; PeerGone /
     Stop / LoopFail end the receive loop and cancel the in-flight handlers of that connection
     or not, according to the flags GENERATED from rpc.py. *)
From Coq Require Import List Arith Bool.
From SV Require Import gen.GenStructure.
Import ListNotations.

Section Txn.
Variable St : Type.                      (* the stored workflow: all tables *)

Definition mut := St -> option St.         (* one mutation; None = it raises *)

Fixpoint apply_all (ms : list mut) (s : St) : option St :=
  match ms with
  | [] => Some s
  | m :: r => match m s with Some s' => apply_all r s' | None => None end
  end.

(* The specification of one request as an atomic unit. *)
Definition txn_effect (ms : list mut) (s : St) : St :=
  match apply_all ms s with Some s' => s' | None => s end.

(* Instructions inside an `async with self.db` body. *)
Inductive binstr := BMut (m : mut) | BYield.
Definition txn := list binstr.

Fixpoint muts_of (b : txn) : list mut :=
  match b with
  | [] => []
  | BMut m :: r => m :: muts_of r
  | BYield :: r => muts_of r
  end.

(* The open transaction (exists iff the lock is held). o_body / o_done / o_seen are ghosts. *)
Record otxn := {
  o_task : nat;            (* the holder: DBSession._held.task *)
  o_rest : txn;            (* instructions still to run *)
  o_work : St;              (* working copy: what the holder's statements read and write *)
  o_seen : St;              (* ghost: committed store at BEGIN *)
  o_done : list mut;       (* ghost: mutations executed so far *)
  o_body : list mut        (* ghost: all mutations of the body *)
}.

Inductive outcome := OCommit | ORollback.
Inductive ending := EndDone | EndRaise | EndCancel.

Record fentry := {          (* a finished transaction, logged when the lock is released *)
  f_task : nat;
  f_muts : list mut;
  f_seen : St;
  f_out : outcome;
  f_cancelled : bool        (* rolled back because a cancellation was delivered *)
}.

Record task := {
  t_conn : nat;             (* the connection that received the request *)
  t_todo : list txn;        (* transactions not yet started *)
  t_cancel : bool;          (* task.cancel() was called; delivered at the next await *)
  t_end : option ending     (* Some _ = the task is done *)
}.

Record sys := {
  s_committed : St;
  s_open : option otxn;
  s_tasks : list task;
  s_log : list fentry;      (* newest first *)
  s_closed : list nat       (* connections whose receive loop has ended *)
}.

(* ---- DBSession.__aexit__, interpreted from the generated action lists ------------------ *)

(* state threaded through the actions: committed store, working copy, lock held *)
Definition do_axn (who : nat) (o : otxn) (a : axn) (st : St * St * bool) : option (St * St * bool) :=
  let '(c, w, held) := st in
  match a with
  | AxRequireHolder => if (o_task o =? who) && held then Some st else None
  | AxCheckOpen => Some st
  | AxCommit => Some (w, w, held)
  | AxRollback => Some (c, c, held)
  | AxRelease => Some (c, w, false)
  end.

(* a `try` body: stop at the first action that raises *)
Fixpoint run_try (who : nat) (o : otxn) (l : list axn) (st : St * St * bool) : St * St * bool :=
  match l with
  | [] => st
  | a :: r => match do_axn who o a st with Some st' => run_try who o r st' | None => st end
  end.

(* returns the committed store and whether the lock is still held *)
Definition aexit (who : nat) (exc : bool) (c : St) (o : otxn) : St * bool :=
  let st1 := run_try who o (if exc then aexit_exc else aexit_ok) (c, o_work o, true) in
  let '(c2, _, held) := run_try who o aexit_finally st1 in
  (c2, held).

(* ---- one request in isolation ------------------------------------------------------------ *)

Fixpoint run_body (b : txn) (w : St) : option St :=      (* None = a mutation raised *)
  match b with
  | [] => Some w
  | BMut m :: r => match m w with Some w' => run_body r w' | None => None end
  | BYield :: r => run_body r w
  end.

Definition exec_request (who : nat) (b : txn) (c : St) : St * bool :=
  let o0 := {| o_task := who; o_rest := b; o_work := c; o_seen := c; o_done := []; o_body := muts_of b |} in
  match run_body b c with
  | Some w => aexit who false c {| o_task := who; o_rest := []; o_work := w; o_seen := c;
                                   o_done := muts_of b; o_body := muts_of b |}
  | None => aexit who true c o0
  end.

(* ---- the concurrent machine ---------------------------------------------------------------- *)

Inductive event :=
| Run (i : nat)                       (* the event loop runs the next instruction of task i *)
| Recv (c : nat) (p : list txn)       (* connection c received a complete request frame *)
| PeerGone (c : nat)                  (* EOF / connection reset, on read or on write *)
| Stop (c : nat)                      (* RPCServerConnection.stop(): server shutting down *)
| LoopFail (c : nat).                 (* garbage frame, unpicklable reply, serve() cancelled *)

Fixpoint upd (l : list task) (i : nat) (t : task) : list task :=
  match l, i with
  | [], _ => []
  | _ :: r, O => t :: r
  | x :: r, Datatypes.S j => x :: upd r j t
  end.

Definition set_end (t : task) (e : ending) : task :=
  {| t_conn := t_conn t; t_todo := t_todo t; t_cancel := t_cancel t; t_end := Some e |}.
Definition set_todo (t : task) (l : list txn) : task :=
  {| t_conn := t_conn t; t_todo := l; t_cancel := t_cancel t; t_end := t_end t |}.
Definition set_cancel (t : task) : task :=
  {| t_conn := t_conn t; t_todo := t_todo t; t_cancel := true; t_end := t_end t |}.

Definition close_txn (st : sys) (i : nat) (t : task) (o : otxn) (exc cancelled : bool)
                     (t' : task) : sys :=
  let '(c', held) := aexit i exc (s_committed st) o in
  {| s_committed := c';
     s_open := if held then Some o else None;
     s_tasks := upd (s_tasks st) i t';
     s_log := {| f_task := i; f_muts := o_body o; f_seen := o_seen o;
                 f_out := if exc then ORollback else OCommit; f_cancelled := cancelled |} :: s_log st;
     s_closed := s_closed st |}.

Definition with_tasks (st : sys) (l : list task) : sys :=
  {| s_committed := s_committed st; s_open := s_open st; s_tasks := l; s_log := s_log st;
     s_closed := s_closed st |}.

Definition with_open (st : sys) (o : option otxn) (l : list task) : sys :=
  {| s_committed := s_committed st; s_open := o; s_tasks := l; s_log := s_log st;
     s_closed := s_closed st |}.

Definition step_run (st : sys) (i : nat) : sys :=
  match nth_error (s_tasks st) i with
  | None => st
  | Some t =>
    match t_end t with
    | Some _ => st                                           (* done *)
    | None =>
      match s_open st with
      | Some o =>
        if o_task o =? i then
          match o_rest o with
          | [] => close_txn st i t o false false t            (* __aexit__(None): commit *)
          | BMut m :: r =>
            match m (o_work o) with
            | Some w' => with_open st (Some {| o_task := i; o_rest := r; o_work := w';
                                              o_seen := o_seen o; o_done := o_done o ++ [m];
                                              o_body := o_body o |}) (s_tasks st)
            | None => close_txn st i t o true false (set_end t EndRaise)   (* __aexit__(exc) *)
            end
          | BYield :: r =>
            if t_cancel t
            then close_txn st i t o true true (set_end t EndCancel)        (* CancelledError *)
            else with_open st (Some {| o_task := i; o_rest := r; o_work := o_work o;
                                       o_seen := o_seen o; o_done := o_done o;
                                       o_body := o_body o |}) (s_tasks st)
          end
        else
          (* not the holder: either between transactions and waiting for the lock, or done *)
          match t_todo t with
          | [] => with_tasks st (upd (s_tasks st) i (set_end t EndDone))
          | _ :: _ => if t_cancel t
                      then with_tasks st (upd (s_tasks st) i (set_end t EndCancel))
                      else st                                 (* blocked in _lock.acquire() *)
          end
      | None =>
        match t_todo t with
        | [] => with_tasks st (upd (s_tasks st) i (set_end t EndDone))
        | b :: r =>
          if t_cancel t
          then with_tasks st (upd (s_tasks st) i (set_end t EndCancel))
          else with_open st (Some {| o_task := i; o_rest := b; o_work := s_committed st;
                                     o_seen := s_committed st; o_done := [];
                                     o_body := muts_of b |})
                         (upd (s_tasks st) i (set_todo t r))
        end
      end
    end
  end.

Definition cancel_conn (c : nat) (l : list task) : list task :=
  map (fun t => if (t_conn t =? c) && match t_end t with None => true | Some _ => false end
                then set_cancel t else t) l.

Definition is_closed (st : sys) (c : nat) : bool := existsb (Nat.eqb c) (s_closed st).

Definition end_conn (st : sys) (c : nat) (cancel : bool) : sys :=
  {| s_committed := s_committed st; s_open := s_open st;
     s_tasks := if cancel then cancel_conn c (s_tasks st) else s_tasks st;
     s_log := s_log st;
     s_closed := c :: s_closed st |}.

(* When the teardown did not wait for the handlers (no gather), nothing would keep them alive:
   that counts as cancelling them. *)
Definition cancels (flag : bool) : bool := flag || negb teardown_gathers_inflight.

Definition step (st : sys) (e : event) : sys :=
  match e with
  | Run i => step_run st i
  | Recv c p =>
      if is_closed st c then st
      else with_tasks st (s_tasks st ++ [{| t_conn := c; t_todo := p; t_cancel := false; t_end := None |}])
  | PeerGone c => end_conn st c (cancels peer_gone_cancels_inflight)
  | Stop c => end_conn st c (cancels stop_cancels_inflight)
  | LoopFail c => end_conn st c (cancels loop_failure_cancels_inflight)
  end.

Definition run (evs : list event) (st : sys) : sys := fold_left step evs st.

Definition init (s0 : St) (progs : list (list txn)) : sys :=
  {| s_committed := s0; s_open := None;
     s_tasks := map (fun p => {| t_conn := 0; t_todo := p; t_cancel := false; t_end := None |}) progs;
     s_log := []; s_closed := [] |}.

(* ---- sequential reference ------------------------------------------------------------------ *)

Definition effect (f : fentry) (s : St) : St :=
  match f_out f with
  | OCommit => txn_effect (f_muts f) s
  | ORollback => s
  end.

(* log is newest first, so fold_right applies the oldest entry first *)
Definition replay (s0 : St) (log : list fentry) : St := fold_right effect s0 log.

(* the sequential composition, in lock-acquisition order, of the requests as atomic units *)
Definition serial (s0 : St) (log : list fentry) : St :=
  fold_left (fun s f => txn_effect (f_muts f) s) (rev log) s0.

Definition all_done (st : sys) : bool :=
  forallb (fun t => match t_end t with Some _ => true | None => false end) (s_tasks st).

(* a schedule that finishes everything: always run the holder, else the first unfinished task *)
Fixpoint first_live (l : list task) (i : nat) : option nat :=
  match l with
  | [] => None
  | t :: r => match t_end t with None => Some i | Some _ => first_live r (Datatypes.S i) end
  end.

Definition pick (st : sys) : option nat :=
  match s_open st with
  | Some o => Some (o_task o)
  | None => first_live (s_tasks st) 0
  end.

Fixpoint drain (fuel : nat) (st : sys) : sys :=
  match fuel with
  | O => st
  | Datatypes.S k => match pick st with Some i => drain k (step_run st i) | None => st end
  end.

Definition task_work (t : task) : nat :=
  match t_end t with
  | Some _ => 0
  | None => 1 + fold_right (fun b k => 2 + length b + k) 0 (t_todo t)
  end.

Definition work_left (st : sys) : nat :=
  fold_right (fun t n => task_work t + n) 0 (s_tasks st)
  + match s_open st with Some o => 1 + length (o_rest o) | None => 0 end.

End Txn.

Arguments apply_all {St}. Arguments txn_effect {St}. Arguments BMut {St}. Arguments BYield {St}.
Arguments muts_of {St}. Arguments run_body {St}. Arguments exec_request {St}. Arguments aexit {St}.
Arguments step {St}. Arguments step_run {St}. Arguments run {St}. Arguments init {St}.
Arguments effect {St}. Arguments replay {St}. Arguments serial {St}. Arguments all_done {St}.
Arguments drain {St}. Arguments work_left {St}. Arguments task_work {St}. Arguments pick {St}.
Arguments Run {St}. Arguments Recv {St}. Arguments PeerGone {St}. Arguments Stop {St}. Arguments LoopFail {St}.
Arguments s_committed {St}. Arguments s_open {St}. Arguments s_tasks {St}. Arguments s_log {St}.
Arguments s_closed {St}. Arguments o_task {St}. Arguments o_rest {St}. Arguments o_work {St}.
Arguments o_seen {St}. Arguments o_done {St}. Arguments o_body {St}.
Arguments f_task {St}. Arguments f_muts {St}. Arguments f_seen {St}. Arguments f_out {St}.
Arguments f_cancelled {St}.
Arguments upd {St}. Arguments set_end {St}. Arguments set_todo {St}. Arguments set_cancel {St}.
Arguments close_txn {St}. Arguments with_tasks {St}. Arguments with_open {St}. Arguments cancel_conn {St}.
Arguments is_closed {St}. Arguments end_conn {St}. Arguments first_live {St}.
Arguments t_conn {St}. Arguments t_todo {St}. Arguments t_cancel {St}. Arguments t_end {St}.

(* ---- structure of the handlers (director.py), evaluated over gen.GenStructure -------------- *)

From Coq Require Import String.
Open Scope string_scope.

Definition is_mut (it : item) : bool := match it with ICall _ _ CMut => true | _ => false end.
Definition is_septxn (it : item) : bool := match it with ICall _ _ CSepTxn => true | _ => false end.
Definition is_await (it : item) : bool := match it with IAwait _ => true | _ => false end.
Definition is_helper (it : item) : bool := match it with ICall _ _ CHelper => true | _ => false end.

Definition seg_items (s : seg) : list item := match s with SOut l => l | SBlock l => l end.
Definition is_block (s : seg) : bool := match s with SBlock _ => true | SOut _ => false end.

Definition blocks (h : handler) : list (list item) :=
  flat_map (fun s => match s with SBlock l => [l] | SOut _ => [] end) (h_segs h).
Definition outside (h : handler) : list item :=
  flat_map (fun s => match s with SOut l => l | SBlock _ => [] end) (h_segs h).
Definition all_items (h : handler) : list item := flat_map seg_items (h_segs h).

Definition mutating (h : handler) : bool := existsb is_mut (all_items h).

(* awaits that may appear inside an `async with self.db` block: none *)
Definition await_allowlist : list string := [].
Definition await_allowed (it : item) : bool :=
  match it with IAwait w => existsb (String.eqb w) await_allowlist | _ => true end.

Definition find_handler (n : string) : option handler :=
  find (fun h => String.eqb (h_name h) n) handlers.

(* a method called as self.X(...) must itself contain no transaction and no mutating call *)
Definition helper_ok (it : item) : bool :=
  match it with
  | ICall _ m CHelper =>
      match find_handler m with
      | Some g => negb (existsb is_block (h_segs g)) && negb (mutating g)
      | None => false
      end
  | _ => true
  end.

Definition block_ok (b : list item) : bool :=
  forallb await_allowed b && forallb (fun it => negb (is_septxn it)) b
  && forallb (fun it => negb (is_helper it)) b.

Definition handler_ok (h : handler) : bool :=
  forallb (fun it => negb (is_mut it)) (outside h)                       (* nothing mutating outside *)
  && Nat.leb (List.length (filter (existsb is_mut) (blocks h))) 1                 (* one mutating block *)
  && forallb block_ok (blocks h)                                         (* no await inside a block *)
  && forallb helper_ok (all_items h).

(* the handlers that change the workflow, by name: a new one must be reviewed (and given
   rejected-late cases in the oracle) before this list is extended *)
Definition expected_mutating : list string :=
  ["declare_static"; "register_glob"; "define_step"; "amend_step"; "hold_dispatch";
   "release_dispatch"; "record_subprocess"; "start_build_phase"].

Definition mutating_names : list string :=
  map h_name (filter (fun h => mutating h) handlers).

Fixpoint str_list_eqb (a b : list string) : bool :=
  match a, b with
  | [], [] => true
  | x :: r, y :: q => String.eqb x y && str_list_eqb r q
  | _, _ => false
  end.

(* shape of a single-transaction mutating handler: out* ; one block ; out* *)
Definition single_block_shape (h : handler) : bool :=
  match filter is_block (h_segs h) with
  | [SBlock b] => existsb is_mut b
  | _ => false
  end.

(* amend_step: [block1 (mutating)] [out: await promoted hash jobs = separate transactions]
               [block2 (read-only)] [out] *)
Definition amend_shape (h : handler) : bool :=
  match h_segs h with
  | [SBlock b1; SOut mid; SBlock b2; SOut post] =>
      existsb is_mut b1 && negb (existsb is_mut b2) && existsb is_septxn mid
      && negb (existsb is_septxn post) && negb (existsb is_mut mid) && negb (existsb is_mut post)
  | _ => false
  end.

Definition shape_ok (h : handler) : bool :=
  if mutating h
  then if String.eqb (h_name h) "amend_step" then amend_shape h
       else single_block_shape h && negb (existsb is_septxn (all_items h))
  else true.
