(* C13, call sites: specification side.  What "two configurations of a step differ" means at the
   level of the system, and well-formedness of system-level configurations.  Definitions only;
   the call-site expressions themselves are in gen/GenHashSites.v (regenerated from executor.py,
   step.py on every run). *)
From Coq Require Import List NArith Bool Permutation.
From SV Require Import lib.Bytes lib.KeySort model.HashTypes gen.GenHash model.Hash
  model.HashSiteTypes gen.GenHashSites.
Import ListNotations.
Open Scope N_scope.

(* The value a tracked variable has for the command of the step: Executor._run_command starts
   the environment of the command as dict(self.base_env) (run_env_base, generated); a tracked
   variable cannot be an override (Workflow.define_step refuses the overlap).
   None: the variable is not defined.  Some []: defined and empty. *)
Definition effective_env (s : syscfg) (name : str) : option str := lookup name (run_env_base s).

(* Same configuration of a step, as the system sees it: same command, same working directory,
   same shell flag, same input files (path, content digest, mode, size), same set of tracked
   variables with the same value or undefinedness for the command, same overrides. *)
Definition sys_equiv (s1 s2 : syscfg) : Prop :=
  sys_command s1 = sys_command s2 /\ sys_workdir s1 = sys_workdir s2
  /\ sys_shell s1 = sys_shell s2
  /\ Permutation (sys_inps s1) (sys_inps s2)
  /\ Permutation (sys_env_deps s1) (sys_env_deps s2)
  /\ (forall name, In name (sys_env_deps s1) -> effective_env s1 name = effective_env s2 name)
  /\ Permutation (sys_ovrs s1) (sys_ovrs s2).

(* Same outputs. *)
Definition sys_out_equiv (s1 s2 : syscfg) : Prop := Permutation (sys_outs s1) (sys_outs s2).

Definition wf_env_entry (kv : str * str) : bool := nul_free (fst kv) && nul_free (snd kv).

(* Well-formedness of what the system holds: strings NUL-free (the OS and SQLite TEXT), the
   command accepted by Step.adjust_label (no workdir marker inside: it raises otherwise), the
   maps duplicate-free (dict keys, PRIMARY KEY (node, name) of env_var), file signatures as in wf. *)
Definition sys_wf (s : syscfg) : bool :=
  nul_free (sys_command s) && negb (label_rejected (sys_command s))
  && nul_free (sys_workdir s)
  && wf_files (sys_inps s)
  && (nodupb (sys_env_deps s) && forallb nul_free (sys_env_deps s))
  && forallb wf_env_entry (sys_environ s) && forallb wf_env_entry (sys_infra s)
  && (nodup_keys (sys_ovrs s) && forallb wf_ovr (sys_ovrs s)).

(* Every input hash that reaches from_inp is the hash of an existing file: compute_inp_hashes
   turns a vanished input into a message (the executor then returns before from_inp) and raises
   ConsistencyError for an input that was already unknown (checked by the translator). *)
Definition sys_inputs_known (s : syscfg) : bool :=
  forallb (fun e => negb (fs_is_unknown (snd e))) (sys_inps s).

(* no proper non-empty suffix of p is a prefix of p *)
Definition unbordered (p : str) : bool :=
  forallb (fun k => negb (is_prefix (skipn k p) p)) (seq 1 (length p - 1)).
