(* C17, candidates of NamedGlob.glob(): the fragment G2S (used by proofs/NglobCands4.v).
   Definitions only. *)
From Coq Require Import List NArith Bool Arith.
From SV Require Import lib.Bytes.
From SV Require Import lib.Regex.
From SV Require Import model.Nglob.
From SV Require Import model.GlobSem.
From SV Require Import model.GlobTree.
Import ListNotations.
Open Scope N_scope.

(* G2S: G2 (`**` alone, or a literal directory prefix followed by the trailing recursive wildcard)
   where additionally every component of the prefix is a legal name (not empty, not "." or ".."):
   the domain of GlobSem. *)
Definition g2s (p : str) : bool :=
  match tokenize p with
  | [TDStar] => true
  | [TLit l; TDStar] =>
    forallb plain_char l && ends_sep l && forallb name_ok (split_slash (removelast l) [])
  | _ => false
  end.
