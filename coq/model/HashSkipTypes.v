(* C13, skip decision: data types shared by gen/GenHashSkip.v (generated from hash.py
   compute_inp_hashes and executor.py try_skip_job / validate_dynamic_job) and model/HashSkip.v.
   Definitions only. *)
From Coq Require Import List NArith Bool.
From SV Require Import lib.Bytes model.HashTypes.
Import ListNotations.
Open Scope N_scope.

(* What compute_inp_hashes does with one path: nothing to report, a line in `messages`
   (the executor then returns before StepHash.from_inp), or `raise ConsistencyError`. *)
Inductive inp_outcome := InpSame | InpMessage | InpRaise.

Definition is_raise (o : inp_outcome) : bool := match o with InpRaise => true | _ => false end.
Definition is_message (o : inp_outcome) : bool := match o with InpMessage => true | _ => false end.

(* What is under a path when FileHash.refreshed looks: os.stat fails (missing file, broken link);
   a regular file that can be read; or something os.stat describes but compute_file_digest cannot
   hash (a directory: HashFailedError; no read permission: OSError). *)
Inductive dstate :=
| DMissing
| DFile (st : fstat) (data : str)
| DUnreadable (st : fstat).

(* The two digests of a StepHash (the part that skip decisions compare).  out_digest is None until
   with_out_hashes ran. *)
Record shash := mk_shash { sh_inp : str; sh_out : option str }.

Definition opt_str_eqb (a b : option str) : bool :=
  match a, b with
  | Some x, Some y => str_eqb x y
  | None, None => true
  | _, _ => false
  end.
