(* Executable model of stepup/core/nglob.py (C17).  Definitions only.

   - [tokenize]        RE_ANY_WILD.split(pattern) without the empty strings
   - [conv_regex]      convert_nglob_to_regex (loop, merging rules, enclosed / trailing rules)
   - [conv_glob]       convert_nglob_to_glob (substitution, merging rules)
   - [used_names], [match_values]   NamedGlob._used_names / _match_values
   - Section Results:  NamedGlob._results with extend / reduce / will_change / files
   - [nglob_ref]       reference semantics written from the documentation, component by component,
                       independent of the regex compiler

   Dead branches of the Python code (the `replace = True` paths) are mirrored as they are. *)
From Coq Require Import List NArith Bool Arith.
From SV Require Import lib.Bytes.
From SV Require Import lib.Regex.
Import ListNotations.
Open Scope N_scope.

(* ------------------------------------------------------------------------------------------ *)
(* Tokens                                                                                      *)
(* ------------------------------------------------------------------------------------------ *)

Inductive tok :=
| TLit (s : str)        (* non-empty text between wildcards *)
| TQ                    (* ?   *)
| TStar                 (* *   *)
| TDStar                (* **  as recognised by RE_TRAILING_RECURSIVE_WILD_PARTS *)
| TDStarSlash           (* **/ at the start or after a separator *)
| TCls (inner : str)    (* [inner] *)
| TName (name : str).   (* ${*name} *)

Definition tok_text (t : tok) : str :=
  match t with
  | TLit s => s
  | TQ => [63]
  | TStar => [42]
  | TDStar => [42; 42]
  | TDStarSlash => [42; 42; 47]
  | TCls i => [91] ++ i ++ [93]
  | TName n => [36; 123; 42] ++ n ++ [125]
  end.

Definition is_tstar (t : option tok) : bool := match t with Some TStar => true | _ => false end.
Definition is_tdstar (t : option tok) : bool := match t with Some TDStar => true | _ => false end.
Definition is_tdstarslash (t : option tok) : bool := match t with Some TDStarSlash => true | _ => false end.

Definition is_name_char (c : N) : bool :=
  ((48 <=? c) && (c <=? 57)) || ((65 <=? c) && (c <=? 90)) || ((97 <=? c) && (c <=? 122)) || (c =? 95).

(* \[.*?]  : shortest text up to the next ']' ; '.' does not match a newline *)
Fixpoint find_close (s acc : str) : option str :=
  match s with
  | [] => None
  | c :: r => if c =? 93 then Some (rev acc) else if c =? 10 then None else find_close r (c :: acc)
  end.

(* [a-zA-Z0-9_]*?}  *)
Fixpoint name_end (s acc : str) : option str :=
  match s with
  | [] => None
  | c :: r => if c =? 125 then Some (rev acc) else if is_name_char c then name_end r (c :: acc) else None
  end.

(* `$` of Python's re: at the end, or just before a final newline *)
Definition at_dollar (s : str) : bool :=
  match s with [] => true | c :: [] => c =? 10 | _ => false end.

Definition head_is (c : N) (s : str) : bool := match s with x :: _ => x =? c | [] => false end.

(* The wildcard recognised at the current position (alternatives of RE_WILD_PARTS in order),
   with its length.  [prev] is the character before the position (None at the start). *)
Definition wild_at (prev : option N) (s : str) : option (tok * nat) :=
  let lead := match prev with None => true | Some c => c =? 47 end in
  match s with
  | [] => None
  | c :: r =>
    if c =? 42 then
      if head_is 42 r && lead && at_dollar (tl r) then Some (TDStar, 2%nat)
      else if head_is 42 r && lead && head_is 47 (tl r) then Some (TDStarSlash, 3%nat)
      else Some (TStar, 1%nat)
    else if c =? 91 then
      match find_close r [] with
      | Some inner => Some (TCls inner, (2 + length inner)%nat)
      | None => None
      end
    else if c =? 63 then Some (TQ, 1%nat)
    else if (c =? 36) && is_prefix [123; 42] r then
      match name_end (tl (tl r)) [] with
      | Some n => Some (TName n, (4 + length n)%nat)
      | None => None
      end
    else None
  end.

Definition flush (lit : str) (l : list tok) : list tok :=
  match lit with [] => l | _ => TLit (rev lit) :: l end.

Fixpoint tk (s : str) (prev : option N) (skip : nat) (lit : str) : list tok :=
  match s with
  | [] => flush lit []
  | c :: rest =>
    match skip with
    | S k => tk rest (Some c) k lit
    | O =>
      match wild_at prev s with
      | Some (t, len) => flush lit (t :: tk rest (Some c) (len - 1) [])
      | None => tk rest (Some c) 0 (c :: lit)
      end
    end
  end.

Definition tokenize (p : str) : list tok := tk p None 0 [].

(* ------------------------------------------------------------------------------------------ *)
(* convert_nglob_to_regex                                                                      *)
(* ------------------------------------------------------------------------------------------ *)

Inductive cerr := EEmptyPattern | EEmptyName | ENamesNotAllowed.
Inductive cres (A : Type) := COk (a : A) | CErr (e : cerr).
Arguments COk {A} a.
Arguments CErr {A} e.

Definition notslash : re := RCls true [47].                 (* [^/]        *)
Definition re_q : re := notslash.                           (* ?   ->  [^/]      *)
Definition re_star : re := RStar notslash.                  (* *   ->  [^/]*     *)
Definition re_plus : re := RPlus notslash.                  (*         [^/]+     *)
(* Every compile site (NamedGlob._default_regex, Workflow.matches_any_glob,
   Workflow._raise_if_glob_match) passes re.DOTALL, so `.` also matches a newline.  Tied to the
   source by gen_compile_dotall (translator) in proofs/NglobTie.v. *)
Definition dotall : bool := true.
Definition re_dstar : re := RStar (RAny dotall).            (* **  ->  .*        *)
Definition re_dstarslash : re :=                            (* **/ ->  (?:.*/|)  *)
  RNcg (RAlt (RCat (RStar (RAny dotall)) (RStr [47])) REps).
Definition re_optslash : re := ROpt (RStr [47]).            (* /?  *)
Definition re_cls (inner : str) : re :=
  if head_is 33 inner then RCls true (tl inner) else RCls false inner.

Fixpoint rcat (ps : list re) : re :=
  match ps with
  | [] => REps
  | [r] => r
  | r :: rs => RCat r (rcat rs)
  end.

Record cst := mk_cst {
  c_parts : list re;
  c_last : option tok;             (* last non-empty fragment seen *)
  c_enc : list str;                (* encountered names *)
  c_stars : list (nat * str)       (* star_names: index in parts -> name, newest binding first *)
}.

Definition st0 : cst := mk_cst [] None [] [].

Definition mem_str (n : str) (l : list str) : bool := existsb (str_eqb n) l.

Fixpoint stars_get (i : nat) (l : list (nat * str)) : option str :=
  match l with
  | [] => None
  | (j, n) :: l' => if Nat.eqb i j then Some n else stars_get i l'
  end.

(* `if regex is not None and len(regex) > 0: ...` at the end of the wildcard branch *)
Definition push (st : cst) (regex : option re) (replace : bool) (star_name : option str)
    (enc : list str) (t : tok) : cst :=
  match regex with
  | None => mk_cst (c_parts st) (Some t) enc (c_stars st)
  | Some r =>
    if is_nil (pr r) then mk_cst (c_parts st) (Some t) enc (c_stars st)
    else
      let parts' := if replace then removelast (c_parts st) ++ [r] else c_parts st ++ [r] in
      let stars' := match star_name with
                    | Some n => (length parts' - 1, n)%nat :: c_stars st
                    | None => c_stars st
                    end in
      mk_cst parts' (Some t) enc stars'
  end.

(* The result of the named-wildcard branch: regex, star_name, new `encountered`. *)
Definition named_handler := str -> cst -> cres (re * option str * list str).

Definition conv_step (named : named_handler) (st : cst) (t : tok) : cres cst :=
  let last := c_last st in
  match t with
  | TLit s => COk (mk_cst (c_parts st ++ [RStr s]) (Some t) (c_enc st) (c_stars st))
  | TQ => COk (push st (Some re_q) false None (c_enc st) t)
  | TStar =>
    COk (push st (if is_tstar last || is_tdstar last then None else Some re_star) false None (c_enc st) t)
  | TDStar =>
    COk (push st (if is_tdstar last then None else Some re_dstar) (is_tstar last) None (c_enc st) t)
  | TDStarSlash =>
    COk (push st (if is_tdstarslash last then None else Some re_dstarslash)
              (is_tstar last || is_tdstar last) None (c_enc st) t)
  | TCls inner => COk (push st (Some (re_cls inner)) false None (c_enc st) t)
  | TName n =>
    match named n st with
    | CErr e => CErr e
    | COk (r, sn, enc) => COk (push st (Some r) false sn enc t)
    end
  end.

Fixpoint conv_loop (named : named_handler) (ts : list tok) (st : cst) : cres cst :=
  match ts with
  | [] => COk st
  | t :: ts' =>
    match conv_step named st t with
    | CErr e => CErr e
    | COk st' => conv_loop named ts' st'
    end
  end.

(* allow_names = False: the recursive call for a sub-pattern *)
Definition conv_sub (p : str) : cres (list re) :=
  if is_nil p then CErr EEmptyPattern
  else match conv_loop (fun _ _ => CErr ENamesNotAllowed) (tokenize p) st0 with
       | CErr e => CErr e
       | COk st => COk (c_parts st)
       end.

Definition subs_t := list (str * str).

Fixpoint subs_get (n : str) (subs : subs_t) : option str :=
  match subs with
  | [] => None
  | (m, v) :: r => if str_eqb n m then Some v else subs_get n r
  end.

Definition sub_of (n : str) (subs : subs_t) : str :=
  match subs_get n subs with Some v => v | None => [42] end.

Definition star_text : str := [91; 94; 47; 93; 42].     (* "[^/]*" *)

Definition top_named (subs : subs_t) : named_handler := fun n st =>
  if is_nil n then CErr EEmptyName
  else if mem_str n (c_enc st) then COk (RRef n, None, c_enc st)
  else match conv_sub (sub_of n subs) with
       | CErr e => CErr e
       | COk ps =>
         let body := rcat ps in
         COk (RGrp n body, (if str_eqb (pr body) star_text then Some n else None), n :: c_enc st)
       end.

Definition last_char_is (c : N) (s : str) : bool := head_is c (rev s).

Fixpoint upd {A} (i : nat) (x : A) (l : list A) : list A :=
  match l, i with
  | [], _ => []
  | _ :: r, O => x :: r
  | y :: r, S j => y :: upd j x r
  end.

(* parts[ipart] with a trailing '*' replaced by '+' (only [^/]* and .* end in '*') *)
Definition star_to_plus (r : re) : re := match r with RStar a => RPlus a | _ => r end.

(* The enclosed case, for ipart = i, i+1, ... (n iterations). *)
Fixpoint enclosed (stars : list (nat * str)) (n i : nat) (ps : list re) : list re :=
  match n with
  | O => ps
  | S n' =>
    let part := nth i ps REps in
    let cond := (Nat.ltb 0 i) && (Nat.ltb i (length ps - 1))
                && last_char_is 47 (pr (nth (i - 1) ps REps))
                && head_is 47 (pr (nth (i + 1) ps REps)) in
    let ps' :=
      if cond then
        match stars_get i stars with
        | Some sn => upd i (RGrp sn re_plus) ps
        | None => if last_char_is 42 (pr part) then upd i (star_to_plus part) ps else ps
        end
      else ps in
    enclosed stars n' (S i) ps'
  end.

Definition trailing (stars : list (nat * str)) (ps : list re) : list re :=
  let n := length ps in
  let sn := stars_get (n - 1) stars in
  let lastp := last ps REps in
  if (match sn with Some _ => true | None => false end) || str_eqb (pr lastp) star_text then
    let body := if (Nat.leb 2 n) && last_char_is 47 (pr (nth (n - 2) ps REps)) then re_plus else re_star in
    let newlast := match sn with Some name => RGrp name body | None => body end in
    upd (n - 1) newlast ps ++ [re_optslash]
  else ps.

(* convert_nglob_to_regex(pattern, subs) as a list of parts; the text is pr_all of it. *)
Definition conv_regex (p : str) (subs : subs_t) : cres (list re) :=
  if is_nil p then CErr EEmptyPattern
  else match conv_loop (top_named subs) (tokenize p) st0 with
       | CErr e => CErr e
       | COk st =>
         let ps := enclosed (c_stars st) (length (c_parts st)) 0 (c_parts st) in
         COk (trailing (c_stars st) ps)
       end.

Definition compile_regex (p : str) (subs : subs_t) : cres re :=
  match conv_regex p subs with COk ps => COk (rcat ps) | CErr e => CErr e end.

Definition regex_text (p : str) (subs : subs_t) : cres str :=
  match conv_regex p subs with COk ps => COk (pr_all ps) | CErr e => CErr e end.

(* ------------------------------------------------------------------------------------------ *)
(* convert_nglob_to_glob                                                                       *)
(* ------------------------------------------------------------------------------------------ *)

Fixpoint glob_parts (ts : list tok) (subs : subs_t) : cres (list tok) :=
  match ts with
  | [] => COk []
  | t :: ts' =>
    match t with
    | TName n =>
      if is_nil n then CErr EEmptyName
      else match glob_parts ts' subs with
           | CErr e => CErr e
           | COk r => COk (tokenize (sub_of n subs) ++ r)
           end
    | _ => match glob_parts ts' subs with CErr e => CErr e | COk r => COk (t :: r) end
    end
  end.

(* texts is kept reversed: its head is texts[-1] *)
Definition glob_merge1 (texts : list tok) (part : tok) : list tok :=
  match texts with
  | [] => [part]
  | l :: rest =>
    match part with
    | TQ => part :: texts
    | TStar => if is_tstar (Some l) || is_tdstar (Some l) then texts else TStar :: texts
    | TDStar => if is_tstar (Some l) then TDStar :: rest
                else if is_tdstar (Some l) then texts else TDStar :: texts
    | TDStarSlash => if is_tstar (Some l) || is_tdstar (Some l) then TDStarSlash :: rest
                     else if is_tdstarslash (Some l) then texts else TDStarSlash :: texts
    | _ => part :: texts
    end
  end.

(* Note: the empty-name error of glob_parts is raised in token order in Python as well (the
   comprehension runs left to right), but a later error of this kind cannot precede an earlier
   one, and all are the same ValueError. *)
Definition conv_glob (p : str) (subs : subs_t) : cres str :=
  match glob_parts (tokenize p) subs with
  | CErr e => CErr e
  | COk parts => COk (flat_map tok_text (rev (fold_left glob_merge1 parts [])))
  end.

(* ------------------------------------------------------------------------------------------ *)
(* _used_names, _match_values                                                                  *)
(* ------------------------------------------------------------------------------------------ *)

Fixpoint insert_sorted (n : str) (l : list str) : list str :=
  match l with
  | [] => [n]
  | m :: r => if str_eqb n m then l else if lex_lt n m then n :: l else m :: insert_sorted n r
  end.

Fixpoint tok_names (ts : list tok) : cres (list str) :=
  match ts with
  | [] => COk []
  | TName n :: r => if is_nil n then CErr EEmptyName
                    else match tok_names r with CErr e => CErr e | COk l => COk (n :: l) end
  | _ :: r => tok_names r
  end.

Definition used_names (p : str) : cres (list str) :=
  match tok_names (tokenize p) with
  | CErr e => CErr e
  | COk l => COk (fold_right insert_sorted [] l)
  end.

Definition key := list (option str).

Definition match_values (r : re) (names : list str) (path : str) : option key :=
  match first_match r path with
  | None => None
  | Some e => Some (map (fun n => env_get n e) names)
  end.

Definition ostr_eqb (a b : option str) : bool :=
  match a, b with Some x, Some y => str_eqb x y | None, None => true | _, _ => false end.

Fixpoint key_eqb (a b : key) : bool :=
  match a, b with
  | [], [] => true
  | x :: a', y :: b' => ostr_eqb x y && key_eqb a' b'
  | _, _ => false
  end.

(* ------------------------------------------------------------------------------------------ *)
(* NamedGlob._results: extend, reduce, will_change, files                                      *)
(* ------------------------------------------------------------------------------------------ *)

Section Results.
  Variable K : Type.
  Variable keqb : K -> K -> bool.
  Variable mv : str -> option K.         (* NamedGlob._match_values *)

  (* dict[tuple, set[Path]] in insertion order; sets as duplicate-free lists *)
  Definition results := list (K * list str).

  Fixpoint r_get (k : K) (r : results) : option (list str) :=
    match r with
    | [] => None
    | (k', ps) :: r' => if keqb k k' then Some ps else r_get k r'
    end.

  Definition set_add (p : str) (ps : list str) : list str :=
    if mem_str p ps then ps else ps ++ [p].

  (* self._results.setdefault(values, set()).add(Path(path)) *)
  Fixpoint r_add (k : K) (p : str) (r : results) : results :=
    match r with
    | [] => [(k, [p])]
    | (k', ps) :: r' => if keqb k k' then (k', set_add p ps) :: r' else (k', ps) :: r_add k p r'
    end.

  Definition extend1 (r : results) (p : str) : results :=
    match mv p with Some k => r_add k p r | None => r end.

  Definition extend (r : results) (paths : list str) : results := fold_left extend1 paths r.

  Definition set_discard (p : str) (ps : list str) : list str :=
    filter (fun q => negb (str_eqb p q)) ps.

  (* path_set.discard(path); if len(path_set) == 0: del self._results[values] *)
  Fixpoint r_discard (k : K) (p : str) (r : results) : results :=
    match r with
    | [] => []
    | (k', ps) :: r' =>
      if keqb k k' then
        let ps' := set_discard p ps in
        if is_nil ps' then r' else (k', ps') :: r'
      else (k', ps) :: r_discard k p r'
    end.

  Definition reduce1 (r : results) (p : str) : results :=
    match mv p with Some k => r_discard k p r | None => r end.

  Definition reduce (r : results) (paths : list str) : results := fold_left reduce1 paths r.

  Definition set_subb (a b : list str) : bool := forallb (fun p => mem_str p b) a.
  Definition set_eqb (a b : list str) : bool := set_subb a b && set_subb b a.

  Definition r_subb (a b : results) : bool :=
    forallb (fun kp => match r_get (fst kp) b with Some qs => set_eqb (snd kp) qs | None => false end) a.

  (* dict equality *)
  Definition results_eqb (a b : results) : bool := r_subb a b && r_subb b a.

  (* evolved = deepcopy(self); evolved.extend(added); evolved.reduce(deleted);
     return None if evolved._results == self._results else evolved *)
  Definition will_change (r : results) (deleted added : list str) : option results :=
    let ev := reduce (extend r added) deleted in
    if results_eqb ev r then None else Some ev.

  (* files() as a set (the sort is presentation) *)
  Definition files (r : results) : list str := flat_map snd r.

  (* A scan by NamedGlob.glob() on a fresh instance with the given candidates. *)
  Definition scan (cands : list str) : results := extend [] cands.
End Results.

Arguments r_get {K}.
Arguments r_add {K}.
Arguments r_discard {K}.
Arguments extend1 {K}.
Arguments extend {K}.
Arguments reduce1 {K}.
Arguments reduce {K}.
Arguments r_subb {K}.
Arguments results_eqb {K}.
Arguments will_change {K}.
Arguments files {K}.
Arguments scan {K}.

(* The concrete instance: a pattern with its substitutions. *)
Record ng := mk_ng { ng_re : re; ng_names : list str }.

Definition ng_make (p : str) (subs : subs_t) : cres ng :=
  match used_names p with
  | CErr e => CErr e
  | COk names =>
    match conv_glob p subs with
    | CErr e => CErr e
    | COk _ =>
      match compile_regex p subs with
      | CErr e => CErr e
      | COk r => COk (mk_ng r names)
      end
    end
  end.

Definition ng_mv (g : ng) : str -> option key := match_values (ng_re g) (ng_names g).
Definition ng_accepts (g : ng) (path : str) : bool := accepts (ng_re g) path.

(* ------------------------------------------------------------------------------------------ *)
(* Shape of the compiled part list (used by the back-reference theorem)                        *)
(* ------------------------------------------------------------------------------------------ *)

(* no named group inside *)
Fixpoint nogrp (r : re) : bool :=
  match r with
  | REps | RStr _ | RAny _ | RCls _ _ | RRef _ => true
  | RCat a b | RAlt a b => nogrp a && nogrp b
  | RStar a | RPlus a | ROpt a | RNcg a => nogrp a
  | RGrp _ _ => false
  end.

(* The shape of what the compiler emits: named groups only at the top level of the part list,
   each name defined at most once. *)
Definition part_flat (r : re) : bool := match r with RGrp _ a => nogrp a | _ => nogrp r end.

Fixpoint grp_names (ps : list re) : list str :=
  match ps with
  | [] => []
  | RGrp n _ :: rs => n :: grp_names rs
  | _ :: rs => grp_names rs
  end.

Fixpoint nodup_str (l : list str) : bool :=
  match l with [] => true | x :: r => negb (mem_str x r) && nodup_str r end.

Definition parts_ok (ps : list re) : bool := forallb part_flat ps && nodup_str (grp_names ps).

Definition conv_parts_ok (p : str) (subs : subs_t) : bool :=
  match conv_regex p subs with COk ps => parts_ok ps | CErr _ => true end.

(* ------------------------------------------------------------------------------------------ *)
(* Reference semantics, from the documentation                                                 *)
(* ------------------------------------------------------------------------------------------ *)

(* A path is a sequence of non-empty components separated by '/', optionally followed by one
   '/' (a directory).  A pattern is read the same way.  Within a component: a literal character
   matches itself, `?` one character, `*` any run of characters, `[..]` / `[!..]` one character in /
   not in the class; none of them ever matches the separator.  `**` as a complete component
   matches zero or more components.  `${*name}` stands for its sub-pattern (default `*`) and all
   occurrences of one name match the same text.  A complete component is never empty.  A pattern
   that ends in a separator matches directories only.  A pattern whose last token is `*` or the
   first occurrence of a default named wildcard also matches the directory of that name
   ([dir_always = false], the reading of the code) -- or every pattern that does not end in a
   separator does, as in the standard glob module ([dir_always = true]). *)

Fixpoint split_on (c : N) (s acc : str) : list str :=
  match s with
  | [] => [rev acc]
  | x :: r => if x =? c then rev acc :: split_on c r [] else split_on c r (x :: acc)
  end.

Definition comps (s : str) : list str := split_on 47 s [].

(* every component non-empty, except that the last may be empty when it is not the only one *)
Fixpoint wf_comps (cs : list str) (first : bool) : bool :=
  match cs with
  | [] => false
  | [c] => negb (is_nil c) || negb first
  | c :: r => negb (is_nil c) && wf_comps r false
  end.

Definition wf_path_comps (s : str) : bool := wf_comps (comps s) true.

Inductive ctok :=
| CChr (c : N) | CQ | CStar | CCls (neg : bool) (body : str)
| COpen (n : str)       (* start of the first occurrence of ${*n}: what follows up to CClose is its sub-pattern *)
| CClose (n : str)
| CBack (n : str).      (* a later occurrence of ${*n} *)

Inductive pcomp := PRec | PComp (cts : list ctok).

(* Sub-patterns the reference understands: one component, no `**`, no names. *)
Fixpoint sub_ctoks (ts : list tok) : option (list ctok) :=
  match ts with
  | [] => Some []
  | t :: r =>
    match sub_ctoks r with
    | None => None
    | Some cr =>
      match t with
      | TLit s => if mem_N 47 s then None else Some (map CChr s ++ cr)
      | TQ => Some (CQ :: cr)
      | TStar => Some (CStar :: cr)
      | TCls inner => Some ((if head_is 33 inner then CCls true (tl inner) else CCls false inner) :: cr)
      | _ => None
      end
    end
  end.

(* Pattern tokens to components.  [cur] is the current component (reversed). *)
Fixpoint lit_comps (s : str) (cur : list ctok) (done : list pcomp) : list ctok * list pcomp :=
  match s with
  | [] => (cur, done)
  | c :: r => if c =? 47 then lit_comps r [] (PComp (rev cur) :: done)
              else lit_comps r (CChr c :: cur) done
  end.

Fixpoint pat_comps (ts : list tok) (subs : subs_t) (enc : list str) (cur : list ctok) (done : list pcomp)
  : option (list pcomp) :=
  match ts with
  | [] => Some (rev (PComp (rev cur) :: done))
  | t :: r =>
    match t with
    | TLit s => let '(cur', done') := lit_comps s cur done in pat_comps r subs enc cur' done'
    | TQ => pat_comps r subs enc (CQ :: cur) done
    | TStar => pat_comps r subs enc (CStar :: cur) done
    | TCls inner =>
      pat_comps r subs enc ((if head_is 33 inner then CCls true (tl inner) else CCls false inner) :: cur) done
    | TDStarSlash => if is_nil cur then pat_comps r subs enc [] (PRec :: done) else None
    | TDStar => if is_nil cur && is_nil r then Some (rev (PRec :: done)) else None
    | TName n =>
      if is_nil n then None
      else if mem_str n enc then pat_comps r subs enc (CBack n :: cur) done
      else match sub_ctoks (tokenize (sub_of n subs)) with
           | None => None
           | Some cts => pat_comps r subs (n :: enc) (CClose n :: rev cts ++ COpen n :: cur) done
           end
    end
  end.

(* Matching one component.  Captures: finished ones in [e]; open ones in [opn] (name, text so far,
   reversed).  Fuel = number of tokens + length of the text is enough: every step consumes a token
   or a character. *)
Definition feed (c : N) (opn : list (str * str)) : list (str * str) :=
  map (fun nv => (fst nv, c :: snd nv)) opn.

Fixpoint cmatch (fuel : nat) (cts : list ctok) (e : env) (opn : list (str * str)) (s : str) : list env :=
  match fuel with
  | O => []
  | S f =>
    match cts with
    | [] => if is_nil s then [e] else []
    | CChr c :: r => match s with x :: s' => if x =? c then cmatch f r e (feed x opn) s' else [] | [] => [] end
    | CQ :: r => match s with x :: s' => cmatch f r e (feed x opn) s' | [] => [] end
    | CCls neg b :: r =>
      match s with x :: s' => if cls_accepts neg b x then cmatch f r e (feed x opn) s' else [] | [] => [] end
    | CStar :: r =>
      (match s with x :: s' => cmatch f cts e (feed x opn) s' | [] => [] end) ++ cmatch f r e opn s
    | COpen n :: r => cmatch f r e ((n, []) :: opn) s
    | CClose n :: r =>
      match opn with
      | (m, v) :: opn' => cmatch f r (env_set n (rev v) e) opn' s
      | [] => []
      end
    | CBack n :: r =>
      match env_get n e with
      | Some v => match strip_prefix v s with
                  | Some s' => cmatch f r e (fold_left (fun o c => feed c o) v opn) s'
                  | None => []
                  end
      | None => []
      end
    end
  end.

(* the component only consists of `*` and default named wildcards: it could match the empty text *)
Definition ends_starlike (subs : subs_t) (ts : list tok) (dir_always : bool) : bool :=
  match rev ts with
  | TStar :: _ => true
  | TName n :: before =>
    (* first occurrence, sub-pattern made of `*` only *)
    negb (existsb (fun t => match t with TName m => str_eqb n m | _ => false end) before)
    && (let st := tokenize (sub_of n subs) in
        negb (is_nil st) && forallb (fun t => match t with TStar => true | _ => false end) st)
  | _ => false
  end.

Fixpoint pmatch (fuel : nat) (pcs : list pcomp) (cs : list str) (e : env) (dir_ok : bool) : bool :=
  match fuel with
  | O => false
  | S f =>
    match pcs with
    | [] => is_nil cs
    | PRec :: [] => negb (is_nil cs)
    | PRec :: rest =>
      pmatch f rest cs e dir_ok
      || match cs with
         | c :: cs' => negb (is_nil c) && pmatch f pcs cs' e dir_ok
         | [] => false
         end
    | PComp [] :: rest =>
      (* an empty pattern component: only the directory marker at the very end *)
      match cs, rest with
      | [c], [] => is_nil c
      | _, _ => false
      end
    | PComp cts :: rest =>
      match cs with
      | [] => false
      | c :: cs' =>
        negb (is_nil c)
        && existsb (fun e' =>
             match rest with
             | [] => is_nil cs' || (dir_ok && match cs' with [d] => is_nil d | _ => false end)
             | _ => pmatch f rest cs' e' dir_ok
             end) (cmatch (S (length cts + length c)) cts e [] c)
      end
    end
  end.

(* First formulation, component by component.  None: the pattern is outside what it covers
   (multi-component or recursive sub-patterns, `**` that is not a complete component).  Kept as
   a cross-check of [nglob_ref] below (E1 compares the two on every generated tree case). *)
Definition nglob_ref_comps (dir_always : bool) (p : str) (subs : subs_t) (path : str) : option bool :=
  let ts := tokenize p in
  match pat_comps ts subs [] [] [] with
  | None => None
  | Some pcs =>
    let dir_ok := dir_always || ends_starlike subs ts dir_always in
    let cs := comps path in
    Some (wf_path_comps path && pmatch (S (length pcs + length cs)) pcs cs [] dir_ok)
  end.

(* ------------------------------------------------------------------------------------------ *)
(* Reference semantics, second formulation (the one the theorems use)                          *)
(* ------------------------------------------------------------------------------------------ *)

(* The same documentation, said with explicit path rules and one regular expression per token,
   without any rule that depends on the neighbours of a token:
     - a path is canonical: not empty, no leading separator, no two separators in a row;
     - a literal matches itself; `?` one non-separator character; `[..]`/`[!..]` one
       non-separator character in / not in the class; `*` any run of non-separator characters;
       `**/` zero or more complete components; a final `**` any canonical remainder;
       `${*name}` its sub-pattern as a group the first time, the same text afterwards;
     - a pattern that ends with a separator (or `**/`) must match the whole path;
       a final `**` likewise;
     - any other pattern must match the whole path and the path must not end with a separator
       (its last component is not empty) -- or, when directories are admitted for the pattern
       ([dir_always], or the last token is star-like), the path is that plus one separator. *)

Fixpoint no_dslash (s : str) : bool :=
  match s with
  | x :: r => match r with
              | y :: _ => negb ((x =? 47) && (y =? 47)) && no_dslash r
              | [] => true
              end
  | [] => true
  end.

Definition wf_path (s : str) : bool := negb (is_nil s) && negb (head_is 47 s) && no_dslash s.

Definition ends_sep (s : str) : bool := head_is 47 (rev s).

Definition one_comp : re := RCat (RPlus notslash) (RStr [47]).       (* [^/]+/ *)
Definition spec_dstarslash : re := RStar one_comp.                   (* ([^/]+/)*       *)
Definition spec_dstar : re := RCat (RStar one_comp) (RStar notslash).  (* ([^/]+/)*[^/]*  *)

(* one character of the class that is not the separator; None when this cannot be written as one
   class (a negated body that ends with '-') or the class can only match the separator *)
Definition spec_cls (inner : str) : option re :=
  let r := re_cls inner in
  match r with
  | RCls neg body =>
    if negb (cls_accepts neg body 47) then Some r
    else if neg then (if head_is 45 (rev body) then None else Some (RCls true (body ++ [47])))
    else None
  | _ => None
  end.

(* sub-patterns: no names, no recursive wildcards *)
Fixpoint spec_sub (ts : list tok) : option (list re) :=
  match ts with
  | [] => Some []
  | t :: r =>
    match spec_sub r with
    | None => None
    | Some rs =>
      match t with
      | TLit s => Some (RStr s :: rs)
      | TQ => Some (notslash :: rs)
      | TStar => Some (re_star :: rs)
      | TCls inner => match spec_cls inner with Some c => Some (c :: rs) | None => None end
      | _ => None
      end
    end
  end.

Fixpoint spec_parts (ts : list tok) (subs : subs_t) (enc : list str) : option (list re) :=
  match ts with
  | [] => Some []
  | t :: r =>
    match t with
    | TLit s => match spec_parts r subs enc with Some rs => Some (RStr s :: rs) | None => None end
    | TQ => match spec_parts r subs enc with Some rs => Some (notslash :: rs) | None => None end
    | TStar => match spec_parts r subs enc with Some rs => Some (re_star :: rs) | None => None end
    | TCls inner =>
      match spec_cls inner, spec_parts r subs enc with
      | Some c, Some rs => Some (c :: rs)
      | _, _ => None
      end
    | TDStarSlash => match spec_parts r subs enc with Some rs => Some (spec_dstarslash :: rs) | None => None end
    | TDStar => match r with [] => Some [spec_dstar] | _ => None end
    | TName n =>
      if is_nil n then None
      else if mem_str n enc then
        match spec_parts r subs enc with Some rs => Some (RRef n :: rs) | None => None end
      else
        match spec_sub (tokenize (sub_of n subs)), spec_parts r subs (n :: enc) with
        | Some sp, Some rs => if is_nil sp then None else Some (RGrp n (rcat sp) :: rs)
        | _, _ => None
        end
    end
  end.

Definition last_tok (ts : list tok) : option tok := match rev ts with t :: _ => Some t | [] => None end.

Definition pat_ends_sep (ts : list tok) : bool :=
  match last_tok ts with
  | Some (TLit s) => ends_sep s
  | Some TDStarSlash => true
  | _ => false
  end.

Definition nglob_ref (dir_always : bool) (p : str) (subs : subs_t) (path : str) : option bool :=
  let ts := tokenize p in
  match spec_parts ts subs [] with
  | None => None
  | Some ps =>
    let r := rcat ps in
    Some (wf_path path &&
          (if pat_ends_sep ts || is_tdstar (last_tok ts) then accepts r path
           else (negb (ends_sep path) && accepts r path)
                || ((dir_always || ends_starlike subs ts dir_always) && ends_sep path
                    && accepts r (removelast path))))
  end.

(* ------------------------------------------------------------------------------------------ *)
(* The fragment F1 of the correctness theorem                                                  *)
(* ------------------------------------------------------------------------------------------ *)

(* literals, `?`, classes that cannot match the separator, `*` and default named wildcards with
   pairwise distinct names, no two of the latter two kinds next to each other, no `**` *)
Definition is_none {A} (o : option A) : bool := match o with None => true | Some _ => false end.

Definition cls_rejects_sep (inner : str) : bool :=
  match re_cls inner with RCls neg body => negb (cls_accepts neg body 47) | _ => false end.

Fixpoint f1_toks (ts : list tok) (subs : subs_t) (seen : list str) (prev_star : bool) : bool :=
  match ts with
  | [] => true
  | t :: r =>
    match t with
    | TLit s => negb (is_nil s) && f1_toks r subs seen false
    | TQ => f1_toks r subs seen false
    | TCls inner => cls_rejects_sep inner && f1_toks r subs seen false
    | TStar => negb prev_star && f1_toks r subs seen true
    | TName n => negb prev_star && negb (is_nil n) && negb (mem_str n seen) && is_none (subs_get n subs)
                 && f1_toks r subs (n :: seen) true
    | _ => false
    end
  end.

Definition f1 (p : str) (subs : subs_t) : bool :=
  negb (is_nil (tokenize p)) && f1_toks (tokenize p) subs [] false.
