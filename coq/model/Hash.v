(* C13: executable model of the step digests' pre-images and of FileHash.refreshed.
   Definitions only (proofs in proofs/HashProofs.v), so the correspondence still runs when a
   proof breaks.  Everything that depends on the source text of hash.py comes from
   gen/GenHash.v (regenerated on every run): marker bytes, integer widths, the word sequences
   inp_words / out_words, the unknown digest, the skip test of refreshed.

   SHA-256 is not modelled: inp_digest = SHA256 (hw_encode (inp_words c)),
   out_digest = SHA256 (hw_encode (out_words m)); the theorems are about hw_encode (...). *)
From Coq Require Import List NArith Bool Arith Permutation.
From SV Require Import lib.Bytes lib.KeySort model.HashTypes gen.GenHash.
Import ListNotations.
Open Scope N_scope.

(* ---------- encoder: the byte string fed to SHA-256 by HashWords ---------- *)
Definition enc_word (w : word) : str :=
  match w with
  | WBytes b => marker_bytes ++ b
  | WStr s => marker_str ++ s
  | WNone => marker_none
  end.

Definition hw_encode (ws : list word) : str := flat_map enc_word ws.

Definition inp_preimage (c : cfg) : str := hw_encode (inp_words c).
Definition out_preimage (m : list (str * fsig)) : str := hw_encode (out_words m).

(* names for the generated constant words of from_inp, in order of appearance *)
Definition kw_shell : word := kw0.
Definition kw_inp : word := kw1.
Definition kw_env : word := kw2.
(* the word that opens the override section may depend on whether there are overrides *)
Definition kw_ovr_of (ne : bool) : word := kw3_of ne.
Definition kw_ovrN : word := kw_ovr_of true.    (* with overrides *)
Definition kw_ovrE : word := kw_ovr_of false.   (* without overrides *)

(* The shape the decoder is written for; proofs/HashProofs.v shows inp_words = inp_words_spec. *)
Definition file_words_spec (path : str) (fs : fsig) : list word :=
  [WStr path; WBytes (be_bytes mode_width (fs_mode fs)); WBytes (be_bytes size_width (fs_size fs));
   digest_word fs].
Definition env_words (l : list (str * option str)) : list word :=
  flat_map (fun kv => [WStr (fst kv); opt_word (snd kv)]) l.
Definition ovr_words (l : list (str * str)) : list word :=
  flat_map (fun kv => [WStr (fst kv); WStr (snd kv)]) l.
Definition entries_words (l : list (str * fsig)) : list word :=
  flat_map (fun kv => file_words_spec (fst kv) (snd kv)) l.
Definition inp_words_spec (c : cfg) : list word :=
  [WStr (cfg_label c); kw_shell; WBytes [N.b2n (cfg_shell c)]; kw_inp]
  ++ entries_words (sort_keys (cfg_inps c))
  ++ [kw_env] ++ env_words (sort_keys (cfg_envs c))
  ++ [kw_ovr_of (nonempty (cfg_ovrs c))] ++ ovr_words (sort_keys (cfg_ovrs c)).

(* canonical form of a configuration: maps in key order *)
Definition canon (c : cfg) : cfg :=
  mk_cfg (cfg_label c) (cfg_shell c) (sort_keys (cfg_inps c)) (sort_keys (cfg_envs c))
         (sort_keys (cfg_ovrs c)).

(* ---------- well-formedness of real configurations ---------- *)
Definition nul_free (s : str) : bool := forallb (fun x => negb (x =? 0)) s.
Definition nodup_keys {V} (l : list (str * V)) : bool := nodupb (map fst l).

Definition digest_wf (d : str) : bool := Nat.eqb (length d) digest_len || str_eqb d unknown_digest.

Definition wf_entry (e : str * fsig) : bool :=
  nul_free (fst e)
  && (fs_mode (snd e) <? 256 ^ N.of_nat mode_width)
  && (fs_size (snd e) <? 256 ^ N.of_nat size_width)
  && digest_wf (fs_digest (snd e)).

Definition wf_files (m : list (str * fsig)) : bool := nodup_keys m && forallb wf_entry m.

Definition wf_env (kv : str * option str) : bool :=
  nul_free (fst kv) && match snd kv with Some v => nul_free v | None => true end.
Definition wf_ovr (kv : str * str) : bool := nul_free (fst kv) && nul_free (snd kv).

Definition wf (c : cfg) : bool :=
  nul_free (cfg_label c)
  && wf_files (cfg_inps c)
  && (nodup_keys (cfg_envs c) && forallb wf_env (cfg_envs c))
  && (nodup_keys (cfg_ovrs c) && forallb wf_ovr (cfg_ovrs c)).

(* ---------- the extra hypotheses that exclude exactly the two ambiguities of the current
   encoding (defects D2 and D2b); both become `true` once the code is repaired ---------- *)

(* D2: is an unknown digest hashed as the missing-word marker (repaired) or as the bytes word
   b"u" (today)?  Computed from the generated digest_word. *)
Definition unknown_as_none : bool :=
  word_eqb (digest_word (mk_fsig unknown_digest 0 0)) WNone.

(* a known digest that starts like "unknown digest, then the marker of a str word" *)
Definition is_ambiguous (d : str) : bool := is_prefix (unknown_digest ++ marker_str) d.

(* Two ways to read a digest word, hence two sufficient conditions:
   Fixed      every digest word is read as digest_len bytes: right when no digest is unknown
              (or when unknown digests are hashed as the missing-word marker);
   Lookahead  b"u" followed by the end or by a str marker is read as unknown: right when no
              known digest starts with 75 00 01. *)
Inductive dmode := Fixed | Lookahead.
Definition dig_ok (md : dmode) (fs : fsig) : bool :=
  match md with
  | Fixed => unknown_as_none || negb (fs_is_unknown fs)
  | Lookahead => negb (is_ambiguous (fs_digest fs))
  end.
Definition digests_ok (md : dmode) (m : list (str * fsig)) : bool :=
  forallb (fun e => dig_ok md (snd e)) m.

(* D2b: no tracked environment variable is named like the word that opens a non-empty override
   section. Trivially true when that word is not a str word. *)
Definition env_names_ok (c : cfg) : bool :=
  forallb (fun kv => negb (word_eqb (WStr (fst kv)) kw_ovrN)) (cfg_envs c).

Definition kw_env_is_str : bool := match kw_env with WStr _ => true | _ => false end.

Definition inp_ok (md : dmode) (c : cfg) : bool :=
  digests_ok md (cfg_inps c)
  && match md with Fixed => true | Lookahead => kw_env_is_str end
  && env_names_ok c.

(* ---------- decoder ---------- *)
Fixpoint read_str (r : str) : str * str :=
  match r with
  | [] => ([], [])
  | x :: r' => if x =? 0 then ([], r) else let (s, t) := read_str r' in (x :: s, t)
  end.

Definition take (n : nat) (r : str) : option (str * str) :=
  if Nat.leb n (length r) then Some (firstn n r, skipn n r) else None.

Fixpoint strip (p r : str) : option str :=
  match p, r with
  | [], _ => Some r
  | a :: p', b :: r' => if a =? b then strip p' r' else None
  | _ :: _, [] => None
  end.

(* after an unknown digest hashed as b"u": end of input or the marker of a str word *)
Definition looks_unknown (r : str) : bool :=
  match strip unknown_digest r with
  | Some [] => true
  | Some t => is_prefix marker_str t
  | None => false
  end.

Definition dec_digest (md : dmode) (r : str) : option (str * str) :=
  match r with
  | 0 :: 2 :: r' => Some (unknown_digest, r')
  | 0 :: 0 :: r' =>
      match md with
      | Fixed => take digest_len r'
      | Lookahead => if looks_unknown r'
                     then Some (unknown_digest, skipn (length unknown_digest) r')
                     else take digest_len r'
      end
  | _ => None
  end.

Definition dec_entry (md : dmode) (r : str) : option ((str * fsig) * str) :=
  match r with
  | 0 :: 1 :: r0 =>
      let (p, r1) := read_str r0 in
      match r1 with
      | 0 :: 0 :: r2 =>
          match take mode_width r2 with
          | Some (mb, 0 :: 0 :: r4) =>
              match take size_width r4 with
              | Some (sb, r5) =>
                  match dec_digest md r5 with
                  | Some (d, r6) => Some ((p, mk_fsig d (be_val mb) (be_val sb)), r6)
                  | None => None
                  end
              | None => None
              end
          | _ => None
          end
      | _ => None
      end
  | _ => None
  end.

(* Does a file entry start here?  str word, then a bytes word of mode_width bytes, then another
   bytes word.  (Looking that far is what tells a path named like a section keyword from the
   keyword itself, whatever kind of word the next keyword is.) *)
Definition is_entry_start (r : str) : bool :=
  match r with
  | 0 :: 1 :: r0 =>
      match snd (read_str r0) with
      | 0 :: 0 :: r2 => match skipn mode_width r2 with 0 :: 0 :: _ => true | _ => false end
      | _ => false
      end
  | _ => false
  end.

Fixpoint dec_entries (md : dmode) (fuel : nat) (r : str) : option (list (str * fsig) * str) :=
  match fuel with
  | O => None
  | S f =>
      if is_entry_start r then
        match dec_entry md r with
        | Some (e, r') =>
            match dec_entries md f r' with
            | Some (es, r'') => Some (e :: es, r'')
            | None => None
            end
        | None => None
        end
      else Some ([], r)
  end.

Fixpoint dec_ovrs (fuel : nat) (r : str) : option (list (str * str)) :=
  match fuel with
  | O => None
  | S f =>
      match r with
      | [] => Some []
      | 0 :: 1 :: r0 =>
          let (n, r1) := read_str r0 in
          match r1 with
          | 0 :: 1 :: r2 =>
              let (v, r3) := read_str r2 in
              match dec_ovrs f r3 with
              | Some l => Some ((n, v) :: l)
              | None => None
              end
          | _ => None
          end
      | _ => None
      end
  end.

Definition is_nil {A : Type} (l : list A) : bool := match l with [] => true | _ :: _ => false end.

(* the override section, to the end of the input *)
Definition dec_ovr_section (r : str) : option (list (str * option str) * list (str * str)) :=
  match dec_ovrs (S (length r)) r with
  | Some o => Some ([], o)
  | None => None
  end.

(* Environment variables, then the override keyword, then the overrides.  At a position where a
   variable name may start:
   - a str word equal to the keyword of a non-empty override section ends the variables
     (this is where a variable named like that keyword would be misread: env_names_ok);
   - a str word equal to the keyword of an empty override section, AT THE END of the input, is
     that keyword (a variable name is always followed by its value word);
   - a word that is not a str word must be the (bytes) keyword. *)
Fixpoint dec_envs (fuel : nat) (r : str) : option (list (str * option str) * list (str * str)) :=
  match fuel with
  | O => None
  | S f =>
      match r with
      | 0 :: 1 :: r0 =>
          let (n, r1) := read_str r0 in
          if word_eqb (WStr n) kw_ovrN then dec_ovr_section r1
          else if word_eqb (WStr n) kw_ovrE && is_nil r1 then Some ([], [])
          else match r1 with
               | 0 :: 1 :: r2 =>
                   let (v, r3) := read_str r2 in
                   match dec_envs f r3 with
                   | Some (l, o) => Some ((n, Some v) :: l, o)
                   | None => None
                   end
               | 0 :: 2 :: r2 =>
                   match dec_envs f r2 with
                   | Some (l, o) => Some ((n, None) :: l, o)
                   | None => None
                   end
               | _ => None
               end
      | _ =>
          match strip (enc_word kw_ovrN) r with
          | Some r' => dec_ovr_section r'
          | None => if str_eqb r (enc_word kw_ovrE) then Some ([], []) else None
          end
      end
  end.

Definition dec_shell (r : str) : option (bool * str) :=
  match r with
  | 0 :: 0 :: b :: r' => if b =? 0 then Some (false, r') else if b =? 1 then Some (true, r') else None
  | _ => None
  end.

Definition decode_out (md : dmode) (r : str) : option (list (str * fsig)) :=
  match dec_entries md (S (length r)) r with
  | Some (es, []) => Some es
  | _ => None
  end.

Definition decode_inp (md : dmode) (r : str) : option cfg :=
  let fuel := S (length r) in
  match r with
  | 0 :: 1 :: r0 =>
      let (lbl, r1) := read_str r0 in
      match strip (enc_word kw_shell) r1 with
      | Some r2 =>
          match dec_shell r2 with
          | Some (sh, r3) =>
              match strip (enc_word kw_inp) r3 with
              | Some r4 =>
                  match dec_entries md fuel r4 with
                  | Some (es, r5) =>
                      match strip (enc_word kw_env) r5 with
                      | Some r6 =>
                          match dec_envs fuel r6 with
                          | Some (envs, ovrs) => Some (mk_cfg lbl sh es envs ovrs)
                          | None => None
                          end
                      | None => None
                      end
                  | None => None
                  end
              | None => None
              end
          | None => None
          end
      | None => None
      end
  | _ => None
  end.

(* ---------- FileHash.refreshed ----------
   `obs` is what the file system shows: None when os.stat fails (missing file, broken link,
   trailing separator on a non-directory), otherwise the stat fields and the file content.
   Directories (HashFailedError) and cancellation are outside the model.  H is SHA-256. *)
Section Refreshed.
  Variable H : str -> str.

  Definition refreshed (old : fhash) (obs : option (fstat * str)) : fhash :=
    match obs with
    | None => if fh_is_unknown old then old else fh_unknown
    | Some (st, data) => if refreshed_same old st then old else refreshed_build (H data) st
    end.
End Refreshed.

(* FileHash.__eq__ (attrs, mtime and inode are eq=False) *)
Definition fsig_eqb (a b : fsig) : bool :=
  str_eqb (fs_digest a) (fs_digest b) && (fs_mode a =? fs_mode b) && (fs_size a =? fs_size b).
Definition fh_eqb (a b : fhash) : bool := fsig_eqb (fh_sig a) (fh_sig b).

Definition stat_same (old : fhash) (st : fstat) : bool :=
  (fh_mode old =? st_mode st) && (fh_mtime old =? st_mtime st)
  && (fh_size old =? st_size st) && (fh_inode old =? st_ino st).

(* ---------- equivalence of configurations: same label, same shell flag, same finite maps.
   For duplicate-free association lists "same finite map" is "one is a permutation of the
   other": same keys, same value per key, definedness of an environment variable included
   (the value None is part of the entry). ---------- *)
Definition cfg_equiv (c1 c2 : cfg) : Prop :=
  cfg_label c1 = cfg_label c2 /\ cfg_shell c1 = cfg_shell c2
  /\ Permutation (cfg_inps c1) (cfg_inps c2)
  /\ Permutation (cfg_envs c1) (cfg_envs c2)
  /\ Permutation (cfg_ovrs c1) (cfg_ovrs c2).

Definition kw_ovr_is_str : bool := match kw_ovrN with WStr _ => true | _ => false end.
