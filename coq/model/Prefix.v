(* Executable model of the prefix-selection idioms (C18). Definitions only, so that the
   correspondence still runs when a proof breaks. *)
From Coq Require Import List Arith NArith Bool.
From SV Require Import lib.Bytes lib.SqlText gen.GenPrefix.
Import ListNotations.
Open Scope N_scope.

(* The per-character escape that the replace chain must amount to. *)
Definition escape_std (p : str) : str :=
  flat_map (fun x => if (x =? 92) || (x =? 37) || (x =? 95) then [92; x] else [x]) p.

Fixpoint ends_with (s suf : str) : bool :=
  str_eqb s suf || match s with [] => false | _ :: s' => ends_with s' suf end.

Definition range_upper (parent : str) : option str :=
  if ends_with parent range_guard
  then Some (firstn (length parent - range_cut) parent ++ range_last)
  else None.

Definition idiom_select (i : idiom) (d s : str) : option bool :=
  match i with
  | ILike => Some (like (negb like_case_sensitive) like_esc (apply_chain esc_chain d ++ like_suffix) s)
  | ISubstr => Some (substr_eq d s)
  | IRange => match range_upper d with
              | Some u => Some (lex_le d s && lex_lt s u)
              | None => None
              end
  (* Python: label.startswith(d) *)
  | IPyPrefix => Some (is_prefix d s)
  end.

Definition known_idiom (i : idiom) : bool := match i with ILike | ISubstr | IRange | IPyPrefix => true end.
