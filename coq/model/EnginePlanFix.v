(* C01: a REPAIRED engine for dynamic plans (model/EnginePlan.v), for which the full statement
   holds (proofs/EnginePlanFixProofs.v, props/C01.v C01_plan_full_repaired).  Definitions only.

   Differences from the engine as the code has it ([p_decide], [p_build]):
     R1  an input counts as available only through a TRUSTED SUCCEEDED producer ([ready_t] in
         place of [ready_p]): what a plan that is not SUCCEEDED now created in an earlier run does
         not feed anybody (finding F9 = D43);
     R2  a step (trusted or not) that is SUCCEEDED while one of its inputs is not available is
         made PENDING when it gets its turn ([RReset]): a consumer does not survive the loss of its
         producer or of its producer's declaration (finding D4);
     R3  no forgetting at the end of a build: a detached step keeps its state and trace (they are
         kept valid by the pending propagation of the rescan, which runs over every stored step),
         so a later recycle with state is sound; deleting detached nodes is then a matter of
         disk space, not of correctness.
   Everything else is [EnginePlan]: trusted dispatch, skip by recorded trace, [p_run] (run,
   re-declaration of static files, relink of the children), [p_resync]. *)
From Coq Require Import List NArith Bool.
From SV Require Import model.Engine model.EnginePlan.
Import ListNotations.
Open Scope N_scope.

Section PlanFix.
  Variable run : N -> list (option N) -> list (option N) -> N -> N.
  Variable plan : N -> list (option N) -> list (option N) -> list N.

  Inductive rdecision := RNone | RReset | RSkip | RRun.
  Definition r_decide (U : universe) (u : ustep) (y : psys) : rdecision :=
    let b := pbase y in
    if negb (ready_t U y (ust u)) then (if is_succ (stt b (uid u)) then RReset else RNone)
    else if negb (trusted U y (uid u)) then RNone
    else if is_succ (stt b (uid u)) then RNone
    else if can_skip (ust u) b then RSkip
    else RRun.
  Definition r_step_build (U : universe) (u : ustep) (y : psys) : psys :=
    match r_decide U u y with
    | RNone => y
    | RReset => mkP (set_stt (pbase y) (upd (stt (pbase y)) (uid u) Pending)) (plk y)
    | RSkip => mkP (do_skip (ust u) (pbase y)) (plk y)
    | RRun => p_run run plan U u y
    end.
  Definition r_pass (U : universe) (y : psys) : psys :=
    fold_left (fun y u => r_step_build U u y) U y.
  Definition build_world_r (U : universe) (w : world) (y : psys) : psys :=
    r_pass U (p_resync U y w).
End PlanFix.
