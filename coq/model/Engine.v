(* C01: an abstract build engine in the style of a verifying-trace build system, following how
   StepUp decides.  Definitions only; proofs are in proofs/EngineProofs.v.

   Static-DAG fragment: the step set and the dependency edges are fixed by the plan.
   A project is a list of steps in a topological order (the schedule); paths, contents, step ids,
   env names and env values are numbers.  The programs run by steps are external behaviour: the
   Section variable [run], a deterministic function of the contents of the declared inputs and of
   the values of the tracked environment variables.

   Correspondence with the code:
     trace                      step_hash row: StepHash inp_digest / out_digest.  A digest is
                                modelled by its ingredient list (paths with content ids, env names
                                with values); C13 proves the pre-image encoding injective, SHA-256
                                collision freedom is assumed there.
     Pending / Succeeded        StepState.PENDING / SUCCEEDED (RUNNING and CHECKING only occur
                                inside [step_build]; FAILED is outside this fragment: programs do
                                not fail)
     avail                      the dispatch condition on inputs (UNAVAILABLE_INPUT_WHERE): a
                                static input must exist (CONFIRMED), a built input needs a
                                SUCCEEDED producer (BUILT, not OUTDATED)
     step_build                 Scheduler.pop_next_job + Executor.try_skip_job / execute_job:
                                skip iff a trace is recorded and the recomputed input ingredients
                                and the output ingredients both equal the recorded ones, else run
     mark                       Workflow.mark_step_pending / mark_file_outdated after
                                update_file_hashes(EXTERNAL) or a changed env var at startup:
                                changed file -> consumers PENDING -> their outputs OUTDATED ->
                                their consumers PENDING ...
   Step.reset_for_rerun also marks the outputs of a step that is about to run OUTDATED and their
   consumers PENDING; in every state reached here that is a no-op (a PENDING step has no
   SUCCEEDED consumer: invariant [Pre], clause closure), so [do_run] does not repeat it. *)
From Coq Require Import List NArith Bool.
Import ListNotations.
Open Scope N_scope.

Inductive sstate := Pending | Succeeded.
Definition is_succ (s : sstate) : bool := match s with Succeeded => true | Pending => false end.

Record step := mkStep { sid : N; inp : list N; envn : list N; out : list N }.
Definition project := list step.

Record trace := mkTrace {
  t_inp : list (N * option N);     (* input path, content *)
  t_env : list (N * option N);     (* env name, value *)
  t_out : list (N * option N) }.   (* output path, content *)

Record sys := mkSys {
  fs : N -> option N;              (* the file system *)
  ev : N -> option N;              (* the environment *)
  tr : N -> option trace;          (* recorded traces per step id *)
  stt : N -> sstate }.

Definition memN (x : N) (l : list N) : bool := existsb (N.eqb x) l.
Definition upd {A} (f : N -> A) (k : N) (v : A) : N -> A := fun x => if x =? k then v else f x.

Definition oN_eqb (a b : option N) : bool :=
  match a, b with Some x, Some y => x =? y | None, None => true | _, _ => false end.
Fixpoint ingr_eqb (a b : list (N * option N)) : bool :=
  match a, b with
  | [], [] => true
  | (p, c) :: a', (q, d) :: b' => (p =? q) && oN_eqb c d && ingr_eqb a' b'
  | _, _ => false
  end.

Definition outs (proj : project) : list N := flat_map out proj.
Definition is_output (proj : project) (p : N) : bool := memN p (outs proj).
Definition producer (proj : project) (p : N) : option N :=
  match find (fun s => memN p (out s)) proj with Some s => Some (sid s) | None => None end.

(* what a consumer may use: a source as it is on disk, a built file only when its producer is
   SUCCEEDED (otherwise the file node is PLANNED or OUTDATED) *)
Definition avail (proj : project) (y : sys) (p : N) : option N :=
  match producer proj p with
  | Some q => if is_succ (stt y q) then fs y p else None
  | None => fs y p
  end.
Definition ready (proj : project) (y : sys) (s : step) : bool :=
  forallb (fun p => match avail proj y p with Some _ => true | None => false end) (inp s).

Definition ingredients (f : N -> option N) (ks : list N) : list (N * option N) :=
  map (fun k => (k, f k)) ks.

Section Engine.
  (* the command of step [id]: content of output [p] given the contents of the declared inputs
     (in declaration order) and the values of the tracked variables *)
  Variable run : N -> list (option N) -> list (option N) -> N -> N.

  Definition produced (s : step) (ii ee : list (N * option N)) : list (N * option N) :=
    map (fun p => (p, Some (run (sid s) (map snd ii) (map snd ee) p))) (out s).

  Fixpoint write_all (f : N -> option N) (l : list (N * option N)) : N -> option N :=
    match l with [] => f | (p, c) :: l' => write_all (upd f p c) l' end.

  Definition do_run (s : step) (y : sys) : sys :=
    let ii := ingredients (fs y) (inp s) in
    let ee := ingredients (ev y) (envn s) in
    let oo := produced s ii ee in
    mkSys (write_all (fs y) oo) (ev y) (upd (tr y) (sid s) (Some (mkTrace ii ee oo)))
          (upd (stt y) (sid s) Succeeded).

  Definition can_skip (s : step) (y : sys) : bool :=
    match tr y (sid s) with
    | Some t => ingr_eqb (t_inp t) (ingredients (fs y) (inp s)) &&
                ingr_eqb (t_env t) (ingredients (ev y) (envn s)) &&
                ingr_eqb (t_out t) (ingredients (fs y) (out s))
    | None => false
    end.

  Definition do_skip (s : step) (y : sys) : sys :=
    mkSys (fs y) (ev y) (tr y) (upd (stt y) (sid s) Succeeded).

  (* one dispatch decision *)
  Definition step_build (proj : project) (s : step) (y : sys) : sys :=
    if is_succ (stt y (sid s)) then y
    else if negb (ready proj y s) then y
    else if can_skip s y then do_skip s y
    else do_run s y.

  (* a build: every step gets its turn in the (topological) order of the project *)
  Definition build_from (proj todo : project) (y : sys) : sys :=
    fold_left (fun y s => step_build proj s y) todo y.
  Definition build (proj : project) (y : sys) : sys := build_from proj proj y.

  (* which steps executed their command / were skipped in a build (for the correspondence) *)
  Fixpoint build_log (proj todo : project) (y : sys) : list (N * bool) :=
    match todo with
    | [] => []
    | s :: rest =>
      let y' := step_build proj s y in
      if is_succ (stt y (sid s)) || negb (ready proj y s) then build_log proj rest y'
      else (sid s, negb (can_skip s y)) :: build_log proj rest y'
    end.

  (* ---------------------------------------------------------------------------------------- *)
  (* Edits between builds, with pending propagation                                           *)
  (* ---------------------------------------------------------------------------------------- *)
  Inductive edit :=
  | EWrite (p : N) (c : option N)        (* change, add or delete a source file *)
  | ESetEnv (n : N) (v : option N).      (* change or unset a tracked variable *)

  Definition set_stt (y : sys) (st : N -> sstate) : sys := mkSys (fs y) (ev y) (tr y) st.

  (* one pass in topological order: a step is marked when one of its inputs is dirty, one of its
     variables changed, or it is PENDING already; the outputs of a marked step are dirty *)
  Fixpoint mark (todo : project) (dirty denv : N -> bool) (st : N -> sstate) : N -> sstate :=
    match todo with
    | [] => st
    | s :: rest =>
      if existsb dirty (inp s) || existsb denv (envn s) || negb (is_succ (st (sid s)))
      then mark rest (fun p => dirty p || memN p (out s)) denv (upd st (sid s) Pending)
      else mark rest dirty denv st
    end.

  Definition apply_edit (proj : project) (y : sys) (e : edit) : sys :=
    match e with
    | EWrite p c =>
      if is_output proj p then y           (* outputs are not edited by hand in this fragment *)
      else mkSys (upd (fs y) p c) (ev y) (tr y) (mark proj (N.eqb p) (fun _ => false) (stt y))
    | ESetEnv n v =>
      mkSys (fs y) (upd (ev y) n v) (tr y) (mark proj (fun _ => false) (N.eqb n) (stt y))
    end.

  Definition phase (proj : project) (y : sys) (es : list edit) : sys :=
    build proj (fold_left (apply_edit proj) es y).
  Definition run_history (proj : project) (hist : list (list edit)) (y : sys) : sys :=
    fold_left (phase proj) hist y.

  (* Restart flavour: the director starts on a changed world and rescans everything
     (startup.rescan_files / rescan_env_vars): every source whose content differs from what the
     previous run left and every variable whose value differs is a change.  The world is given
     absolutely (all sources, the whole environment), not as a list of edits. *)
  Definition world := ((N -> option N) * (N -> option N))%type.
  Definition resync (proj : project) (y : sys) (w : world) : sys :=
    let f' := fun x => if is_output proj x then fs y x else fst w x in
    mkSys f' (snd w) (tr y)
          (mark proj (fun x => negb (oN_eqb (f' x) (fs y x)))
                     (fun n => negb (oN_eqb (snd w n) (ev y n))) (stt y)).
  Definition build_world (proj : project) (w : world) (y : sys) : sys :=
    build proj (resync proj y w).
  (* no .stepup directory, no files *)
  Definition empty_sys : sys :=
    mkSys (fun _ => None) (fun _ => None) (fun _ => None) (fun _ => Pending).

  (* from scratch: only the sources exist, nothing is recorded, everything is PENDING *)
  Definition sources (proj : project) (f : N -> option N) : N -> option N :=
    fun p => if is_output proj p then None else f p.
  Definition init (proj : project) (src env : N -> option N) : sys :=
    mkSys (sources proj src) env (fun _ => None) (fun _ => Pending).
  Definition scratch (proj : project) (src env : N -> option N) : sys :=
    build proj (init proj src env).

  (* ---------------------------------------------------------------------------------------- *)
  (* Well-formed static DAG                                                                   *)
  (* ---------------------------------------------------------------------------------------- *)
  Fixpoint nodupN (l : list N) : bool :=
    match l with [] => true | x :: l' => negb (memN x l') && nodupN l' end.
  (* every input of a step is a source or an output of an EARLIER step *)
  Fixpoint topo (proj : project) : bool :=
    match proj with
    | [] => true
    | s :: rest => forallb (fun p => negb (memN p (outs (s :: rest)))) (inp s) && topo rest
    end.
  Definition wf (proj : project) : bool :=
    nodupN (map sid proj) && nodupN (outs proj) && topo proj.

  (* ---------------------------------------------------------------------------------------- *)
  (* The invariant K = NoStaleSuccess and the defining equations of a finished build          *)
  (* ---------------------------------------------------------------------------------------- *)
  Definition trace_valid (s : step) (t : trace) : Prop :=
    map fst (t_inp t) = inp s /\ map fst (t_env t) = envn s /\
    t_out t = produced s (t_inp t) (t_env t).

  (* K for one step: SUCCEEDED implies a recorded trace that matches the present *)
  Definition K_step (y : sys) (s : step) : Prop :=
    stt y (sid s) = Succeeded ->
    exists t, tr y (sid s) = Some t /\
              t_inp t = ingredients (fs y) (inp s) /\
              t_env t = ingredients (ev y) (envn s) /\
              t_out t = ingredients (fs y) (out s).
  Definition K (proj : project) (y : sys) : Prop := forall s, In s proj -> K_step y s.

  (* the state before a build *)
  Definition Pre (proj : project) (y : sys) : Prop :=
    (forall s t, In s proj -> tr y (sid s) = Some t -> trace_valid s t) /\      (* traces *)
    K proj y /\                                                                 (* no stale success *)
    (forall s, In s proj -> stt y (sid s) = Succeeded -> ready proj y s = true). (* closure *)

  (* what a finished build satisfies at step [s] *)
  Definition Local (proj : project) (y : sys) (s : step) : Prop :=
    if ready proj y s
    then stt y (sid s) = Succeeded /\
         forall p, In p (out s) ->
                   fs y p = Some (run (sid s) (map (fs y) (inp s)) (map (ev y) (envn s)) p)
    else stt y (sid s) = Pending.
  Definition Finished (proj : project) (y : sys) : Prop := forall s, In s proj -> Local proj y s.

  (* two systems have the same sources and environment *)
  Definition same_world (proj : project) (y z : sys) : Prop :=
    (forall p, is_output proj p = false -> fs y p = fs z p) /\ (forall n, ev y n = ev z n).

  (* the observable result: step states, and the contents of the outputs of SUCCEEDED steps *)
  Definition same_result (proj : project) (y z : sys) : Prop :=
    forall s, In s proj ->
      stt y (sid s) = stt z (sid s) /\
      (stt y (sid s) = Succeeded -> forall p, In p (out s) -> fs y p = fs z p).
End Engine.

(* ------------------------------------------------------------------------------------------ *)
(* The values recorded for tracked variables (table env_var, column value)                     *)
(* ------------------------------------------------------------------------------------------ *)
(* [resync] compares the new environment with [ev y], the environment of the previous build.  The
   code keeps no such copy: what startup.rescan_env_vars compares os.getenv(name) with is ONE
   RECORDED VALUE PER ROW (step, variable) of table env_var -- written when the step declares or
   amends the variable, and rewritten by the rescan itself for every row it found changed (the
   list [changed] of (new value, node, name) triples, written back with one executemany).  That
   write-back is what makes a later change visible, in particular a change back to an earlier
   value (A -> B -> A, D30).  [rsys] adds these rows to the state; [resync_with sel] is the rescan
   with the write-back restricted to the sub-list [sel changed]:
     resync_r      = resync_with (fun l => l)     what the code does: every changed row
     resync_r_one  = resync_with last_per_step    one row per step (a dict keyed by the step in
                                                  place of the list of triples): refuted in
                                                  props/C01.v, C01_env_writeback_one_per_step_refuted
   proofs/EngineRecProofs.v: after [resync_r] EVERY row of EVERY step holds the value of the
   present environment ([resync_r_records_all]); hence on states reached from [empty_rsys] the
   rescan with recorded values is the rescan [resync] ([resync_r_base]) and the restart-flavour
   equivalence carries over. *)
Record rsys := mkR {
  rbase : sys;
  rrec : N -> N -> option N }.       (* step id -> variable -> env_var.value (None = unset) *)

(* the rows of env_var of the attached steps, in scan order *)
Definition env_rows (proj : project) : list (N * N) :=
  flat_map (fun s => map (fun n => (sid s, n)) (envn s)) proj.
Definition row_changed (e : N -> option N) (r : N -> N -> option N) (x : N * N) : bool :=
  negb (oN_eqb (e (snd x)) (r (fst x) (snd x))).
(* the triples (node, name, new value) of the rows whose recorded value differs *)
Definition changed_rows (e : N -> option N) (r : N -> N -> option N) (proj : project)
  : list (N * N * option N) :=
  map (fun x => (fst x, snd x, e (snd x))) (filter (row_changed e r) (env_rows proj)).
Definition upd2 (r : N -> N -> option N) (id n : N) (v : option N) : N -> N -> option N :=
  fun i m => if (i =? id) && (m =? n) then v else r i m.
(* UPDATE env_var SET value = ? WHERE node = ? AND name = ?, for each triple *)
Definition write_back (r : N -> N -> option N) (l : list (N * N * option N)) : N -> N -> option N :=
  fold_left (fun r x => upd2 r (fst (fst x)) (snd (fst x)) (snd x)) l r.

(* [mark] with a variable-changed test per (step, variable) row *)
Fixpoint mark_r (todo : project) (dirty : N -> bool) (denv : N -> N -> bool) (st : N -> sstate)
  : N -> sstate :=
  match todo with
  | [] => st
  | s :: rest =>
    if existsb dirty (inp s) || existsb (denv (sid s)) (envn s) || negb (is_succ (st (sid s)))
    then mark_r rest (fun p => dirty p || memN p (out s)) denv (upd st (sid s) Pending)
    else mark_r rest dirty denv st
  end.

Definition resync_with (sel : list (N * N * option N) -> list (N * N * option N))
           (proj : project) (y : rsys) (w : world) : rsys :=
  let b := rbase y in
  let f' := fun x => if is_output proj x then fs b x else fst w x in
  mkR (mkSys f' (snd w) (tr b)
             (mark_r proj (fun x => negb (oN_eqb (f' x) (fs b x)))
                     (fun id n => row_changed (snd w) (rrec y) (id, n)) (stt b)))
      (write_back (rrec y) (sel (changed_rows (snd w) (rrec y) proj))).
Definition resync_r : project -> rsys -> world -> rsys := resync_with (fun l => l).

(* keep, for every step, only its LAST triple (what a dict keyed by the step retains) *)
Fixpoint last_per_step (l : list (N * N * option N)) : list (N * N * option N) :=
  match l with
  | [] => []
  | x :: l' => if existsb (fun z => fst (fst z) =? fst (fst x)) l' then last_per_step l'
               else x :: last_per_step l'
  end.
Definition resync_r_one : project -> rsys -> world -> rsys := resync_with last_per_step.

(* no .stepup directory: no rows; a step that declares a variable records the value of that
   moment, which the first rescan of the model writes as a change from "unset" *)
Definition empty_rsys : rsys := mkR empty_sys (fun _ _ => None).

(* every row holds the value of the present environment *)
Definition RecOK (proj : project) (y : rsys) : Prop :=
  forall s n, In s proj -> In n (envn s) -> rrec y (sid s) n = ev (rbase y) n.

Section Recorded.
  Variable run : N -> list (option N) -> list (option N) -> N -> N.
  Definition build_world_with (rs : project -> rsys -> world -> rsys)
             (proj : project) (w : world) (y : rsys) : rsys :=
    let y1 := rs proj y w in mkR (build run proj (rbase y1)) (rrec y1).
  Definition build_world_r := build_world_with resync_r.
  Definition build_world_r_one := build_world_with resync_r_one.
End Recorded.

(* ------------------------------------------------------------------------------------------ *)
(* Correspondence checker (harness/c01_engine.py): a concrete deterministic program and the    *)
(* comparison of per-build logs and step states with what the real system did                  *)
(* ------------------------------------------------------------------------------------------ *)
Definition mix_mod : N := 2305843009213693951.     (* 2^61 - 1 *)
Definition mix_run (id : N) (ins envs : list (option N)) (p : N) : N :=
  fold_left (fun a o => match o with
                        | Some c => (a * 1000003 + c + 1) mod mix_mod
                        | None => (a * 1000003) mod mix_mod end)
            (ins ++ [Some 424242] ++ envs) ((id * 7919 + p + 17) mod mix_mod).

(* model log versus observed log: the same steps executed their command and the same steps were
   hash-checked and skipped *)
Definition log_eqb (model observed : list (N * bool)) : bool :=
  let ran l := map fst (filter snd l) in
  let skipped l := map fst (filter (fun x => negb (snd x)) l) in
  Nat.eqb (length (ran model)) (length (ran observed)) &&
  forallb (fun x => memN x (ran observed)) (ran model) &&
  forallb (fun x => memN x (ran model)) (ran observed) &&
  Nat.eqb (length (skipped model)) (length (skipped observed)) &&
  forallb (fun x => memN x (skipped observed)) (skipped model) &&
  forallb (fun x => memN x (skipped model)) (skipped observed).

Definition src_of (l : list (N * N)) : N -> option N :=
  fun p => match find (fun x => fst x =? p) l with Some x => Some (snd x) | None => None end.

(* one phase of the restart flavour = (sources, environment, expected log of the build:
   (step, ran? else skipped), expected final states: (step, succeeded?), expected change of
   every output file with respect to the previous build: (path, content differs?)) *)
Definition phase_spec :=
  (list (N * N) * list (N * N) * list (N * bool) * list (N * bool) * list (N * bool))%type.

Fixpoint check_hist (proj : project) (y : sys) (phases : list phase_spec) : bool :=
  match phases with
  | [] => true
  | (src, env, elog, est, echg) :: rest =>
    let y1 := resync proj y (src_of src, src_of env) in
    let y2 := build mix_run proj y1 in
    log_eqb (build_log mix_run proj proj y1) elog &&
    forallb (fun x => Bool.eqb (is_succ (stt y2 (fst x))) (snd x)) est &&
    forallb (fun x => Bool.eqb (negb (oN_eqb (fs y2 (fst x)) (fs y (fst x)))) (snd x)) echg &&
    check_hist proj y2 rest
  end.

(* diagnostics: what the model did *)
Fixpoint trace_hist (proj : project) (y : sys) (phases : list phase_spec)
  : list (list (N * bool) * list (N * bool) * list (N * bool)) :=
  match phases with
  | [] => []
  | (src, env, _, est, echg) :: rest =>
    let y1 := resync proj y (src_of src, src_of env) in
    let y2 := build mix_run proj y1 in
    (build_log mix_run proj proj y1, map (fun x => (fst x, is_succ (stt y2 (fst x)))) est,
     map (fun x => (fst x, negb (oN_eqb (fs y2 (fst x)) (fs y (fst x))))) echg)
      :: trace_hist proj y2 rest
  end.

(* the same with the recorded values of the tracked variables: the rescan is [resync_r] (the
   harness uses this one: it is the mechanism of the code), and after every build the rows
   (step, variable, value) read from table env_var of the real database are compared with [rrec]:
   every observed row has the model's value and every row of the model was observed *)
Definition phase_spec_r := (phase_spec * list (N * N * option N))%type.
Definition rows_eqb (proj : project) (r : N -> N -> option N) (obs : list (N * N * option N)) : bool :=
  forallb (fun x => oN_eqb (r (fst (fst x)) (snd (fst x))) (snd x)) obs &&
  forallb (fun k => existsb (fun x => (fst (fst x) =? fst k) && (snd (fst x) =? snd k)) obs)
          (env_rows proj).

Fixpoint check_hist_r (proj : project) (y : rsys) (phases : list phase_spec_r) : bool :=
  match phases with
  | [] => true
  | ((src, env, elog, est, echg), erec) :: rest =>
    let y1 := resync_r proj y (src_of src, src_of env) in
    let y2 := build mix_run proj (rbase y1) in
    log_eqb (build_log mix_run proj proj (rbase y1)) elog &&
    forallb (fun x => Bool.eqb (is_succ (stt y2 (fst x))) (snd x)) est &&
    forallb (fun x => Bool.eqb (negb (oN_eqb (fs y2 (fst x)) (fs (rbase y) (fst x)))) (snd x)) echg &&
    rows_eqb proj (rrec y1) erec &&
    check_hist_r proj (mkR y2 (rrec y1)) rest
  end.

Fixpoint trace_hist_r (proj : project) (y : rsys) (phases : list phase_spec_r)
  : list (list (N * bool) * list (N * bool) * list (N * bool) * list (N * N * option N)) :=
  match phases with
  | [] => []
  | ((src, env, _, est, echg), _) :: rest =>
    let y1 := resync_r proj y (src_of src, src_of env) in
    let y2 := build mix_run proj (rbase y1) in
    (build_log mix_run proj proj (rbase y1), map (fun x => (fst x, is_succ (stt y2 (fst x)))) est,
     map (fun x => (fst x, negb (oN_eqb (fs y2 (fst x)) (fs (rbase y) (fst x))))) echg,
     map (fun k => (fst k, snd k, rrec y1 (fst k) (snd k))) (env_rows proj))
      :: trace_hist_r proj (mkR y2 (rrec y1)) rest
  end.

(* ------------------------------------------------------------------------------------------ *)
(* Beyond the static DAG: plan edits that add, drop or redefine steps, with recycling          *)
(* ------------------------------------------------------------------------------------------ *)
(* Between two builds the plan may change: the project [P] becomes [P'].  What the rerun of the
   plan does to the stored workflow is [retarget]:
     - a step of [P'] whose id and whole definition (inputs, variables, outputs) are those of a
       step of [P] is fully recycled: it keeps its state and its recorded trace
       (Trellis.try_recycle + Step.can_recycle / after_recycle);
     - a step with a known id but another definition is created anew on the old node (partial
       recycle in Trellis.create): PENDING.  The code keeps the stored hash of such a step; the
       model drops the trace, which only forgoes a possible skip;
     - a new id is a new PENDING step; a dropped step is forgotten (detached, then removed by
       the cleanup pass together with its outputs: in the world handed to the next build its
       former outputs are whatever the user has at those paths, normally nothing).
   Static declarations are part of the world: a path that no plan declares is not visible to
   the build, whatever is on disk ([visible]).
   Then the startup rescan [resync] of the new project against the new world marks, by the
   ordinary pending propagation, every recycled step one of whose inputs changed, lost its
   producer, got a new or redefined producer, or lost its declaration.  The last case is what
   the code does NOT do (defect D4): see [resync_code] and props/C01.v C01_D4_engine_refuted. *)
Fixpoint listN_eqb (a b : list N) : bool :=
  match a, b with
  | [], [] => true
  | x :: a', y :: b' => (x =? y) && listN_eqb a' b'
  | _, _ => false
  end.
Definition step_eqb (a b : step) : bool :=
  (sid a =? sid b) && listN_eqb (inp a) (inp b) && listN_eqb (envn a) (envn b) &&
  listN_eqb (out a) (out b).
Definition find_step (P : project) (id : N) : option step := find (fun s => sid s =? id) P.
Definition kept (P P' : project) (id : N) : bool :=
  match find_step P id, find_step P' id with
  | Some a, Some b => step_eqb a b
  | _, _ => false
  end.
Definition retarget (P P' : project) (y : sys) : sys :=
  mkSys (fs y) (ev y)
        (fun id => if kept P P' id then tr y id else None)
        (fun id => if kept P P' id then stt y id else Pending).

(* what a build sees of the disk: only declared static paths *)
Definition visible (statics : list N) (raw : N -> option N) : N -> option N :=
  fun p => if memN p statics then raw p else None.

(* the code's version of the rescan after a plan edit: a path whose declaration was dropped is
   not a change (its node is merely detached; nothing marks its consumers) *)
Definition resync_code (proj : project) (y : sys) (w : world) : sys :=
  let f' := fun x => if is_output proj x then fs y x else fst w x in
  mkSys f' (snd w) (tr y)
        (mark proj (fun x => match f' x with
                             | Some _ => negb (oN_eqb (f' x) (fs y x))
                             | None => false end)
                   (fun n => negb (oN_eqb (snd w n) (ev y n))) (stt y)).

Section Dynamic.
  Variable run : N -> list (option N) -> list (option N) -> N -> N.

  (* one phase: the plan now defines [P'], the world is [w] *)
  Definition rebuild_dyn (P : project) (y : sys) (P' : project) (w : world) : sys :=
    build run P' (resync P' (retarget P P' y) w).
  Definition rebuild_dyn_code (P : project) (y : sys) (P' : project) (w : world) : sys :=
    build run P' (resync_code P' (retarget P P' y) w).

  (* a history of (project, world) pairs, from nothing; the state carries the current project *)
  Definition dyn_step (acc : project * sys) (pw : project * world) : project * sys :=
    (fst pw, rebuild_dyn (fst acc) (snd acc) (fst pw) (snd pw)).
  Definition run_dyn (hist : list (project * world)) : project * sys :=
    fold_left dyn_step hist ([], empty_sys).
  Definition dyn_step_code (acc : project * sys) (pw : project * world) : project * sys :=
    (fst pw, rebuild_dyn_code (fst acc) (snd acc) (fst pw) (snd pw)).
  Definition run_dyn_code (hist : list (project * world)) : project * sys :=
    fold_left dyn_step_code hist ([], empty_sys).

  (* boolean form of same_result for concrete witnesses *)
  Definition same_result_b (proj : project) (y z : sys) : bool :=
    forallb (fun s => Bool.eqb (is_succ (stt y (sid s))) (is_succ (stt z (sid s))) &&
                      (negb (is_succ (stt y (sid s))) ||
                       forallb (fun p => oN_eqb (fs y p) (fs z p)) (out s))) proj.
End Dynamic.

(* ------------------------------------------------------------------------------------------ *)
(* Amended (dynamic) inputs with deferral                                                      *)
(* ------------------------------------------------------------------------------------------ *)
(* A step may, while it runs, ask for further inputs (api.amend(inp=...)): which ones is external
   behaviour, the Section variable [amend]: a function of the step and of the contents of its
   DECLARED inputs (for a script step the script file is the first declared input, so a changed
   script may amend other files).  What the code does with them:
     - the amended edges are remembered with the step ([adyn]) until it runs again
       (Step.reset_for_rerun deletes them, the new run adds its own);
     - all of them available (a source that exists, an output of a SUCCEEDED step): the run goes on,
       reads them, and the recorded input ingredients are those of declared ++ amended inputs;
     - one of them not available: the run stops, the step is DEFERRED: PENDING, no stored hash,
       flag [adef] (Step.mark_completed(None, wants_defer) / has_unavailable_dynamic_input);
     - dispatch ([gate] = true, the code): a PENDING step is not dispatched while its flag is set
       or while a remembered amended input is an output that is not built (UNAVAILABLE_INPUT_WHERE
       case 1: attached, PLANNED or OUTDATED); the flag is cleared whenever one of its inputs
       changes (Workflow.mark_step_pending through mark_consumers_pending);
     - the skip test uses the REMEMBERED edges (the digest is computed over the present edges).
   One pass in project order, as before; the order is assumed topological for amended edges too
   ([wf_a]: whatever the contents, a step amends sources or outputs of earlier steps), so that a
   producer has had its turn when a consumer gets its own.
   [gate] = false is the engine in which remembered edges and flag do not block a RUN (they still
   have to be available for a SKIP; under the code's gating that is implied): the rerun finds out
   what it needs now.  Proved (proofs/EngineAmendProofs.v): a finished state is determined by the
   world (finished_a_unique); with the code's gating a remembered edge whose producer cannot run
   blocks a step that would no longer ask for it, and the result differs from a build from
   scratch (props/C01.v, C01_D28_engine_refuted = D28); every build of the ungated engine from a
   state that builds reach ends in a finished state (proofs/EngineAmendFull.v, a_build_ok), hence
   the ungated engine satisfies the full statement (props/C01.v, C01_amend_full_holds).

   Failing steps (builds with --keep-going).  Whether the command of a step fails is external
   behaviour, the Section variable [fails]: a function of the step, of the contents of its
   declared ++ amended inputs and of the values of its variables.  A run whose amended inputs are
   all available and whose command fails ([DFail]) = Step.mark_completed(None, wants_defer=False):
   state FAILED, the stored hash is deleted (an unsuccessful step is not skippable), the amended
   edges of this run stay, the deferred flag is cleared (trigger on state FAILED), no output
   becomes BUILT (update_file_hashes(..., FAILED)): consumers stay blocked, other steps go on
   (keep_going; without it the scheduler drains after the first failure and which steps still ran
   depends on the order: only "both builds fail" is comparable, normalisation 6 of the oracle).
   FAILED is represented as PENDING plus the flag [afail].  Every build starts by making all FAILED
   steps PENDING again (startup.reset_interrupted_steps on a restart,
   DirectorHandler.start_build_phase in watch mode): [resync_a] clears the flags; a failed step
   has no trace, so it is executed again whenever it is dispatchable.  A failing command leaves
   the files as they are (the simulated steps of E3 exit before writing; what a real command
   leaves at its output paths is never read: the outputs are not BUILT). *)
Record asys := mkA {
  abase : sys;
  adyn : N -> list N;        (* step id -> remembered amended inputs *)
  adef : N -> bool;          (* step id -> deferred *)
  afail : N -> bool }.       (* step id -> FAILED (the state proper is then Pending) *)

Definition empty_asys : asys := mkA empty_sys (fun _ => []) (fun _ => false) (fun _ => false).

Section Amend.
  Variable run : N -> list (option N) -> list (option N) -> N -> N.
  Variable amend : N -> list (option N) -> list N.
  Variable fails : N -> list (option N) -> list (option N) -> bool.
  Variable gate : bool.

  (* what the step would amend, given the present contents of its declared inputs *)
  Definition extra_now (y : sys) (s : step) : list N := amend (sid s) (map (fs y) (inp s)).
  (* the step with its amended inputs made explicit *)
  Definition eff (y : sys) (s : step) : step :=
    mkStep (sid s) (inp s ++ extra_now y s) (envn s) (out s).
  Definition eproj (proj : project) (y : sys) : project := map (eff y) proj.
  (* the step with its REMEMBERED amended inputs *)
  Definition remb (y : asys) (s : step) : step :=
    mkStep (sid s) (inp s ++ adyn y (sid s)) (envn s) (out s).

  Definition unbuilt_output (proj : project) (b : sys) (p : N) : bool :=
    match producer proj p with Some q => negb (is_succ (stt b q)) | None => false end.
  Definition dyn_blocked (proj : project) (y : asys) (s : step) : bool :=
    gate && (adef y (sid s) || existsb (unbuilt_output proj (abase y)) (adyn y (sid s))).

  Definition all_avail (proj : project) (b : sys) (ps : list N) : bool :=
    forallb (fun p => match avail proj b p with Some _ => true | None => false end) ps.

  (* a step completed (ran or was skipped): its outputs are built, the consumers that remember
     one of them as an amended input are marked pending, which clears their flag *)
  Definition clear_flags (proj : project) (q : step) (y : asys) : N -> bool :=
    fun id => adef y id && negb (existsb (fun p => memN p (out q)) (adyn y id)).

  Inductive decision := DNone | DSkip | DRun | DDefer | DFail.

  (* would the command fail on the present contents (declared ++ amended inputs) and values *)
  Definition fails_now (b : sys) (s : step) : bool :=
    fails (sid s) (map (fs b) (inp (eff b s))) (map (ev b) (envn s)).

  Definition decide (proj : project) (s : step) (y : asys) : decision :=
    let b := abase y in
    if is_succ (stt b (sid s)) then DNone
    else if negb (ready proj b s) || dyn_blocked proj y s then DNone
    else if all_avail proj b (adyn y (sid s)) && can_skip (remb y s) b then DSkip
    else if all_avail proj b (extra_now b s) then (if fails_now b s then DFail else DRun)
    else DDefer.

  Definition a_step_build (proj : project) (s : step) (y : asys) : asys :=
    let b := abase y in
    match decide proj s y with
    | DNone => y
    | DSkip => mkA (do_skip (remb y s) b) (adyn y) (clear_flags proj s y) (upd (afail y) (sid s) false)
    | DRun => mkA (do_run run (eff b s) b) (upd (adyn y) (sid s) (extra_now b s))
                  (upd (clear_flags proj s y) (sid s) false) (upd (afail y) (sid s) false)
    | DDefer => mkA (mkSys (fs b) (ev b) (upd (tr b) (sid s) None) (stt b))
                    (upd (adyn y) (sid s) (extra_now b s)) (upd (adef y) (sid s) true)
                    (upd (afail y) (sid s) false)
    | DFail => mkA (mkSys (fs b) (ev b) (upd (tr b) (sid s) None) (stt b))
                   (upd (adyn y) (sid s) (extra_now b s)) (upd (adef y) (sid s) false)
                   (upd (afail y) (sid s) true)
    end.

  Definition a_build (proj : project) (y : asys) : asys :=
    fold_left (fun y s => a_step_build proj s y) proj y.

  (* (step, true) = the command was executed (also when it then deferred), (step, false) = skipped *)
  Fixpoint a_build_log (proj todo : project) (y : asys) : list (N * bool) :=
    match todo with
    | [] => []
    | s :: rest =>
      let y' := a_step_build proj s y in
      match decide proj s y with
      | DNone => a_build_log proj rest y'
      | DSkip => (sid s, false) :: a_build_log proj rest y'
      | _ => (sid s, true) :: a_build_log proj rest y'
      end
    end.

  (* the startup rescan: pending propagation runs over declared and remembered edges; a step one
     of whose inputs changed, or became outdated by the propagation, or one of whose variables
     changed, loses its flag; every FAILED step is PENDING again *)
  Definition resync_a (proj : project) (y : asys) (w : world) : asys :=
    let b := abase y in
    let f' := fun x => if is_output proj x then fs b x else fst w x in
    let dirty0 := fun x => negb (oN_eqb (f' x) (fs b x)) in
    let denv := fun n => negb (oN_eqb (snd w n) (ev b n)) in
    let st' := mark (map (remb y) proj) dirty0 denv (stt b) in
    let dirty := fun p => dirty0 p ||
                          match producer proj p with
                          | Some q => is_succ (stt b q) && negb (is_succ (st' q))
                          | None => false end in
    mkA (mkSys f' (snd w) (tr b) st') (adyn y)
        (fun id => adef y id &&
                   negb (existsb (fun s => (sid s =? id) &&
                                           (existsb dirty (inp s ++ adyn y id) || existsb denv (envn s)))
                                 proj))
        (fun _ => false).

  Definition build_world_a (proj : project) (w : world) (y : asys) : asys :=
    a_build proj (resync_a proj y w).

  (* well-formed with amended edges: unique ids, unique outputs, and in every state the order is
     topological for declared ++ amended inputs *)
  Definition wf_a (proj : project) : Prop :=
    forall y, wf (eproj proj y) = true.

  (* a finished state: the defining equations at every step with its amended inputs made explicit:
     declared and amended inputs all available and the command succeeds => SUCCEEDED with outputs
     run(contents of declared ++ amended inputs, variables); all available and the command fails
     => FAILED; otherwise PENDING (not dispatchable, or deferred) *)
  Definition Local_a (proj : project) (y : asys) (s : step) : Prop :=
    let b := abase y in
    if ready proj b (eff b s) then
      if fails_now b s
      then stt b (sid s) = Pending /\ afail y (sid s) = true
      else stt b (sid s) = Succeeded /\ afail y (sid s) = false /\
           forall p, In p (out s) ->
                     fs b p = Some (run (sid s) (map (fs b) (inp (eff b s))) (map (ev b) (envn s)) p)
    else stt b (sid s) = Pending /\ afail y (sid s) = false.
  Definition Finished_a (proj : project) (y : asys) : Prop := forall s, In s proj -> Local_a proj y s.

  (* the observable result with failures: step states including FAILED, outputs of SUCCEEDED steps *)
  Definition same_result_a (proj : project) (y z : asys) : Prop :=
    same_result proj (abase y) (abase z) /\
    forall s, In s proj -> afail y (sid s) = afail z (sid s).
End Amend.

(* amend given as a table: (step id, content id of the FIRST declared input, amended paths) *)
Definition amend_tab (tab : list (N * N * list N)) (id : N) (contents : list (option N)) : list N :=
  match contents with
  | Some c :: _ =>
    match find (fun x => (fst (fst x) =? id) && (snd (fst x) =? c)) tab with
    | Some x => snd x
    | None => []
    end
  | _ => []
  end.

(* fails given as a table: (step id, content id of the FIRST declared input) = the command fails
   (a script step fails or not depending on the version of its script) *)
Definition fail_tab (tab : list (N * N)) (id : N) (contents envs : list (option N)) : bool :=
  match contents with
  | Some c :: _ => existsb (fun x => (fst x =? id) && (snd x =? c)) tab
  | _ => false
  end.
Definition no_fail (id : N) (contents envs : list (option N)) : bool := false.

(* correspondence checker for histories with amended inputs and failing steps
   (harness/c01_engine.py): per build the log, the final SUCCEEDED set, the final FAILED set
   ([efl]: (step, FAILED?)) and which outputs changed *)
Definition phase_spec_a := (phase_spec * list (N * bool))%type.
Fixpoint check_hist_a (tab : list (N * N * list N)) (ftab : list (N * N)) (proj : project) (y : asys)
         (phases : list phase_spec_a) : bool :=
  match phases with
  | [] => true
  | ((src, env, elog, est, echg), efl) :: rest =>
    let y1 := resync_a proj y (src_of src, src_of env) in
    let y2 := a_build mix_run (amend_tab tab) (fail_tab ftab) true proj y1 in
    log_eqb (a_build_log mix_run (amend_tab tab) (fail_tab ftab) true proj proj y1) elog &&
    forallb (fun x => Bool.eqb (is_succ (stt (abase y2) (fst x))) (snd x)) est &&
    forallb (fun x => Bool.eqb (afail y2 (fst x)) (snd x)) efl &&
    forallb (fun x => Bool.eqb (negb (oN_eqb (fs (abase y2) (fst x)) (fs (abase y) (fst x)))) (snd x)) echg &&
    check_hist_a tab ftab proj y2 rest
  end.

Fixpoint trace_hist_a (tab : list (N * N * list N)) (ftab : list (N * N)) (proj : project) (y : asys)
         (phases : list phase_spec_a)
  : list (list (N * bool) * list (N * bool) * list (N * bool) * list (N * bool)) :=
  match phases with
  | [] => []
  | ((src, env, _, est, echg), efl) :: rest =>
    let y1 := resync_a proj y (src_of src, src_of env) in
    let y2 := a_build mix_run (amend_tab tab) (fail_tab ftab) true proj y1 in
    (a_build_log mix_run (amend_tab tab) (fail_tab ftab) true proj proj y1,
     map (fun x => (fst x, is_succ (stt (abase y2) (fst x)))) est,
     map (fun x => (fst x, afail y2 (fst x))) efl,
     map (fun x => (fst x, negb (oN_eqb (fs (abase y2) (fst x)) (fs (abase y) (fst x))))) echg)
      :: trace_hist_a tab ftab proj y2 rest
  end.
