(* C02: whole builds at transaction granularity.  Executable definitions only; proofs are in
   proofs/CommuteBuild.v.

   1. A STATE-DEPENDENT, decidable guard on a transaction (`guarded G l s`: every transaction of
      the run l satisfies G in the state it meets).  The class arguments of model/Commute.v
      (`Forall C l`) cannot express "the defined label is new" or "no stale node is supplied":
      those are properties of the state a request meets, not of the request.
   2. The guard of the fragment for which whole-build confluence is proved (`decl_guard`): static
      declarations and define_step requests of NEW steps by attached steps.
   3. The hazard classes: the circumstances under which two transactions of different running
      steps are known NOT to commute (findings D22, D23, D24 and the two harmless relatives),
      each as a boolean on (transaction, state).  `hazards o s = []` is the decidable hypothesis
      that excludes exactly those. *)
From Coq Require Import List NArith Bool.
From SV Require Import lib.Bytes model.Graph model.GraphDump model.GraphInv model.Commute model.Dispatch.
Import ListNotations.
Open Scope N_scope.

(* ------------------------------------------------------------------------------------------ *)
(* 1. runs on which every transaction meets a state that satisfies the guard                   *)
(* ------------------------------------------------------------------------------------------ *)
Fixpoint guarded (G : op -> st -> bool) (l : list op) (s : st) : bool :=
  match l with [] => true | o :: l' => G o s && guarded G l' (apply_op s o) end.

(* accepted and guarded: what the theorems ask of an interleaving *)
Definition fine (G : op -> st -> bool) (l : list op) (s : st) : bool := all_ok l s && guarded G l s.

(* ------------------------------------------------------------------------------------------ *)
(* 2. the fragment: static declarations and defines of new steps, by attached steps            *)
(* ------------------------------------------------------------------------------------------ *)
(* the input node will be (re)created as an undeclared orphan: absent, or without a creator *)
Definition orphan_or_absent (s : st) (l : str) : bool :=
  match node_view (KFile, l) s with
  | None | Some (None, _) => true
  | Some (Some _, _) => false
  end.
Definition not_built_b (s : st) (l : str) : bool :=
  match file_view l s with Some (FBuilt, _) => false | _ => true end.

(* boolean form of proofs/CommuteDefine.fresh_define: the label is new, the path lists are duplicate
   free and pairwise disjoint, no (re)created row is BUILT, no node has a file as its creator *)
Definition fresh_define_b (L : str) (inp out vol : list str) (s : st) : bool :=
  negb (is_some (find_node (KStep, L) s)) && no_file_creator_b s &&
  nodup_by str_eqb inp && nodup_by str_eqb out && nodup_by str_eqb vol &&
  disjoint_strs inp out && disjoint_strs inp vol && disjoint_strs out vol &&
  forallb (fun l => negb (orphan_or_absent s l) || not_built_b s l) inp &&
  forallb (not_built_b s) out.

Definition step_kind (c : key) : bool := kind_eqb (fst c) KStep.

Definition decl_guard (o : op) (s : st) : bool :=
  match o with
  | OpDeclareStatic c ps => step_kind c && attached c s && nodup_by str_eqb ps
  | OpDefineStep c L inp env out vol nd => step_kind c && attached c s && fresh_define_b L inp out vol s
  | _ => false
  end.

(* a job of the fragment: every transaction is a static declaration or a define_step of its own *)
Definition decl_op_of (k : key) (o : op) : bool :=
  match o with
  | OpDeclareStatic c _ => key_eqb c k
  | OpDefineStep c _ _ _ _ _ _ => key_eqb c k
  | _ => false
  end.
Definition decl_job (j : job) : bool := forallb (decl_op_of (jkey j)) (jscript j).

(* ------------------------------------------------------------------------------------------ *)
(* 3. hazard classes: where transactions of different running steps do NOT commute             *)
(* ------------------------------------------------------------------------------------------ *)
(* All known classes involve a STALE node (detached but still owned: a leftover of an earlier life
   of the plan) or a detached issuer:
   HzStaleVolatileInput (D22): the request supplies, as an input, a stale node whose row is
     VOLATILE.  Alone it is refused ("Input is volatile"); after another step re-declared the
     path it is accepted.
   HzStaleWiredInput (D23): the request supplies a stale node that still has its incoming edge
     from the (stale) producer.  The cycle check walks through that edge unless another step
     re-created the node first (which cuts it).  Also the DIFF-GRAPH relative stale_partial_recycle.
   HzRecycle (D24): define_step on a label that exists (detached): recycle brings the subtree of the
     old step back, which collides with whatever another step declared in the meantime, or not.
   HzDetachedIssuer: the issuer itself is detached (its creator is being re-run): what it declares
     can be taken away by the next declaration. *)
Inductive hazard := HzStaleVolatileInput | HzStaleWiredInput | HzRecycle | HzDetachedIssuer.
Definition hazard_code (h : hazard) : N :=
  match h with HzStaleVolatileInput => 22 | HzStaleWiredInput => 23 | HzRecycle => 24 | HzDetachedIssuer => 1 end.

Definition supplied_inputs (o : op) : list str :=
  match o with
  | OpDefineStep _ _ i _ _ _ _ => i
  | OpAmendStep _ i _ _ _ => i
  | _ => []
  end.
Definition is_volatile_row (s : st) (l : str) : bool :=
  match fstate_of l s with Some FVolatile => true | _ => false end.
Definition stale_volatile (s : st) (l : str) : bool := stale (KFile, l) s && is_volatile_row s l.
Definition stale_wired (s : st) (l : str) : bool :=
  stale (KFile, l) s && negb (is_volatile_row s l) &&
  match sources_of (KFile, l) s with [] => false | _ => true end.

Definition hz_stale_volatile_input (o : op) (s : st) : bool := existsb (stale_volatile s) (supplied_inputs o).
Definition hz_stale_wired_input (o : op) (s : st) : bool := existsb (stale_wired s) (supplied_inputs o).
Definition hz_recycle (o : op) (s : st) : bool :=
  match o with OpDefineStep _ l _ _ _ _ _ => is_some (find_node (KStep, l) s) | _ => false end.
Definition hz_detached_issuer (o : op) (s : st) : bool :=
  match issuer o with Some c => is_detached c s | None => false end.

Definition hazards (o : op) (s : st) : list hazard :=
  (if hz_stale_volatile_input o s then [HzStaleVolatileInput] else []) ++
  (if hz_stale_wired_input o s then [HzStaleWiredInput] else []) ++
  (if hz_recycle o s then [HzRecycle] else []) ++
  (if hz_detached_issuer o s then [HzDetachedIssuer] else []).
Definition hazard_free (o : op) (s : st) : bool := match hazards o s with [] => true | _ => false end.
Definition hazard_codes (o : op) (s : st) : list N := map hazard_code (hazards o s).

(* the verdict record the E2 both-orders oracle compares with the real Workflow: for a generated
   state and a pair of requests, the hazard codes of both requests (in the common state) next to
   the both-orders verdict *)
Definition hazard_case (cap : N) (ops : list op) (r1 r2 : op) : list N * list N * N :=
  let s := run_ops ops (init_st cap) in (hazard_codes r1 s, hazard_codes r2 s, verdict_code (both_orders r1 r2 s)).

(* ------------------------------------------------------------------------------------------ *)
(* 4. an example build (used by props/C02.v): two plan steps a, b running under the boot plan   *)
(*    p.  a declares the source x and defines c : x -> y;  b defines d : x, y -> z and declares  *)
(*    the source w.  The requests overlap on x (input of both new steps, declared static by a)   *)
(*    and on y (output of c, input of d).                                                        *)
(* ------------------------------------------------------------------------------------------ *)
Definition xb_boot : list op :=
  [OpDeclareStatic root_key [[112]]; OpUpdateHashes CConfirmed [([112], Some 1)];
   OpDefineStep root_key [80] [[112]] [] [] [] NPlan; OpDispatch [80]; OpResetForRerun [80];
   OpDefineStep (KStep, [80]) [97] [] [] [] [] NPlan;
   OpDefineStep (KStep, [80]) [98] [] [] [] [] NPlan;
   OpDispatch [97]; OpResetForRerun [97]; OpDispatch [98]; OpResetForRerun [98]].
Definition xb_a1 := OpDeclareStatic (KStep, [97]) [[120]].
Definition xb_a2 := OpDefineStep (KStep, [97]) [99] [[120]] [] [[121]] [] NDefault.
Definition xb_b1 := OpDefineStep (KStep, [98]) [100] [[120]; [121]] [] [[122]] [] NDefault.
Definition xb_b2 := OpDeclareStatic (KStep, [98]) [[119]].
Definition xb_jobs : list job :=
  [mkJob (KStep, [97]) [xb_a1; xb_a2] 1; mkJob (KStep, [98]) [xb_b1; xb_b2] 2].
(* the six interleavings of the two scripts *)
Definition xb_all : list (list op) :=
  [[xb_a1; xb_a2; xb_b1; xb_b2]; [xb_a1; xb_b1; xb_a2; xb_b2]; [xb_a1; xb_b1; xb_b2; xb_a2];
   [xb_b1; xb_a1; xb_a2; xb_b2]; [xb_b1; xb_a1; xb_b2; xb_a2]; [xb_b1; xb_b2; xb_a1; xb_a2]].
