(* C01: dynamic plans -- steps that are DEFINED BY STEPS while the build runs.
   Definitions only; proofs are in proofs/EnginePlanProofs.v.

   Engine.v treats the project as given for every build (Section Dynamic: the plan's result is an
   input of the phase).  Here the plan is part of the build: a step may, when it runs, define
   further steps (api.step / api.plan called by plan.py or by a sub-plan); which ones is external
   behaviour, the Section variable [plan]: a function of the step and of what it read (contents
   of its declared inputs, values of its variables) -- for a plan script the script file is the
   first declared input, so another version of the script defines other steps.

   Universe encoding.  All step definitions that can ever occur are listed in a UNIVERSE [U]:
   a list of (definition, id of the creating step), 0 = created by the root node (plan.py).
   The order of [U] is a schedule: creators before the steps they may create, producers before
   consumers ([wf_u]).  One definition per id; output paths are unique in the whole universe
   (so "the producer of a path" is static; a step re-defined with OTHER inputs or outputs is
   outside this model, that is Engine.v's [retarget]).  Which definitions are part of the
   workflow at a moment is the state [plk] (links to the creators) through [attached].

   Correspondence with the code:
     plk                      node.creator is not NULL (the link to the creating step)
     attached U y id          node.detached = 0: the step and every step above it is linked
     trusted U y id           attached, and every step above it in the creator chain is
                              SUCCEEDED = column step._safe (scheduler.py
                              FILL_SAFE_UPDATE, without hold); only such steps are dispatched
                              (STEP_DISPATCH_WHERE)
     avail_p                  UNAVAILABLE_INPUT_WHERE case 2 (initial dependency): the input node
                              is not detached and BUILT / CONFIRMED: a source that exists, or an
                              output of an ATTACHED SUCCEEDED producer -- trusted or not: what a
                              plan that is PENDING now created in an earlier run still counts
     ustat                    the static paths that a plan script declares (api.static)
     p_run                    Executor.execute_job of a step: Step.reset_for_rerun orphans every
                              product (recursively), the run re-defines some of them
                              (Workflow.define_step -> Trellis.create -> try_recycle: a detached
                              node with the same definition is re-attached WITH its state, its
                              stored hash and its own products), the others stay detached
     p_cleanup                end of a build that is "ok": Workflow.delete_detached removes the
                              detached nodes (state, hash and output files are forgotten); when
                              some attached step is not SUCCEEDED the cleanup is skipped and the
                              detached nodes survive as they are
     p_resync                 startup rescan with pending propagation over the steps of the
                              stored graph
   Programs do not fail here (Engine.v Section Amend has failing steps); amended inputs are not
   combined with plans. *)
From Coq Require Import List NArith Bool.
From SV Require Import model.Engine.
Import ListNotations.
Open Scope N_scope.

Record ustep := mkU { ust : step; ucr : N; ustat : list N }.
Definition universe := list ustep.
Definition uid (u : ustep) : N := sid (ust u).
Definition uproj (U : universe) : project := map ust U.

Record psys := mkP {
  pbase : sys;
  plk : N -> bool }.          (* step id -> linked to its creator (node.creator is not NULL) *)

(* A step is ATTACHED when it and every step above it in the creator chain is linked
   (Node.detach cuts the link of ONE node and flags everything below it detached;
   Node.reattach restores the link and un-flags the subtree); it is TRUSTED (_safe) when moreover
   every step above it is SUCCEEDED.  [R] = the universe reversed (creators come later in [R]). *)
Fixpoint chain_rev (R : universe) (lk okc : N -> bool) (id : N) : bool :=
  match R with
  | [] => false
  | u :: R' =>
    if uid u =? id
    then lk id && ((ucr u =? 0) || (chain_rev R' lk okc (ucr u) && okc (ucr u)))
    else chain_rev R' lk okc id
  end.
Definition attached (U : universe) (y : psys) (id : N) : bool :=
  chain_rev (rev U) (plk y) (fun _ => true) id.
Definition trusted (U : universe) (y : psys) (id : N) : bool :=
  chain_rev (rev U) (plk y) (fun c => is_succ (stt (pbase y) c)) id.

(* what a consumer may use *)
Definition avail_p (U : universe) (y : psys) (p : N) : option N :=
  match producer (uproj U) p with
  | Some q => if attached U y q && is_succ (stt (pbase y) q) then fs (pbase y) p else None
  | None => fs (pbase y) p
  end.
Definition ready_p (U : universe) (y : psys) (s : step) : bool :=
  forallb (fun p => match avail_p U y p with Some _ => true | None => false end) (inp s).

(* ... through producers of the trusted region only: the reading of "available" in a build from
   scratch, where nothing else exists *)
Definition avail_t (U : universe) (y : psys) (p : N) : option N :=
  match producer (uproj U) p with
  | Some q => if trusted U y q && is_succ (stt (pbase y) q) then fs (pbase y) p else None
  | None => fs (pbase y) p
  end.
Definition ready_t (U : universe) (y : psys) (s : step) : bool :=
  forallb (fun p => match avail_t U y p with Some _ => true | None => false end) (inp s).

(* the run of creator [c]: Step.reset_for_rerun cuts the link of every product, the run restores
   the links of the children it defines ([kids]); nothing else changes: what hangs below a child
   stays linked to it and comes back with it *)
Definition relink (U : universe) (c : N) (kids : list N) (lk : N -> bool) : N -> bool :=
  fun id => if existsb (fun u => (uid u =? id) && (ucr u =? c)) U then memN id kids else lk id.

Section Plan.
  Variable run : N -> list (option N) -> list (option N) -> N -> N.
  Variable plan : N -> list (option N) -> list (option N) -> list N.

  (* the ids of the steps that [c] defines when it runs now *)
  Definition defines (b : sys) (c : step) : list N :=
    plan (sid c) (map (fs b) (inp c)) (map (ev b) (envn c)).

  (* static files that the step declares when it runs ([ustat], api.static in a plan script) go
     through Workflow.declare_static_files again: File.initialize_row(UNCONFIRMED) marks every
     consumer pending (attached or not; the stored hash stays, so an unchanged consumer is
     re-validated and skipped when it gets its turn) *)
  Definition p_run (U : universe) (u : ustep) (y : psys) : psys :=
    let b' := do_run run (ust u) (pbase y) in
    mkP (set_stt b' (mark (uproj U) (fun p => memN p (ustat u)) (fun _ => false) (stt b')))
        (relink U (uid u) (defines (pbase y) (ust u)) (plk y)).

  Inductive pdecision := PNone | PSkip | PRun.
  Definition p_decide (U : universe) (u : ustep) (y : psys) : pdecision :=
    let b := pbase y in
    if negb (trusted U y (uid u)) then PNone
    else if is_succ (stt b (uid u)) then PNone
    else if negb (ready_p U y (ust u)) then PNone
    else if can_skip (ust u) b then PSkip
    else PRun.
  Definition p_step_build (U : universe) (u : ustep) (y : psys) : psys :=
    match p_decide U u y with
    | PNone => y
    | PSkip => mkP (do_skip (ust u) (pbase y)) (plk y)
    | PRun => p_run U u y
    end.

  (* the cleanup pass at the end of a build in which every attached step SUCCEEDED.
     Trellis.delete_detached only deletes detached nodes without sinks: a detached step one of
     whose outputs is still an input of a step that stays in the graph (attached, or detached and
     kept for the same reason) is KEPT with its state and hash ([alive]; consumers come later in
     the universe, so one pass from the end decides) *)
  Definition p_ok (U : universe) (y : psys) : bool :=
    forallb (fun u => negb (attached U y (uid u)) || is_succ (stt (pbase y) (uid u))) U.
  Fixpoint alive (U : universe) (att : N -> bool) : list N :=
    match U with
    | [] => []
    | u :: rest =>
      let al := alive rest att in
      if att (uid u) ||
         existsb (fun c => memN (uid c) al &&
                           existsb (fun p => memN p (out (ust u))) (inp (ust c))) rest
      then uid u :: al else al
    end.
  (* a deleted node is forgotten: no state, no hash, no link; a kept node whose creator is
     deleted loses its link *)
  Definition p_cleanup (U : universe) (y : psys) : psys :=
    if p_ok U y
    then let b := pbase y in
         let al := alive U (attached U y) in
         mkP (mkSys (fs b) (ev b) (fun id => if memN id al then tr b id else None)
                    (fun id => if memN id al then stt b id else Pending))
             (fun id => memN id al && plk y id &&
                        forallb (fun u => negb (uid u =? id) || (ucr u =? 0) || memN (ucr u) al) U)
    else y.

  Definition p_pass (U : universe) (y : psys) : psys :=
    fold_left (fun y u => p_step_build U u y) U y.
  Definition p_build (U : universe) (y : psys) : psys := p_cleanup U (p_pass U y).

  Fixpoint p_build_log (U todo : universe) (y : psys) : list (N * bool) :=
    match todo with
    | [] => []
    | u :: rest =>
      let y' := p_step_build U u y in
      match p_decide U u y with
      | PNone => p_build_log U rest y'
      | PSkip => (uid u, false) :: p_build_log U rest y'
      | PRun => (uid u, true) :: p_build_log U rest y'
      end
    end.

  (* the startup rescan *)
  Definition p_resync (U : universe) (y : psys) (w : world) : psys :=
    let b := pbase y in
    let f' := fun x => if is_output (uproj U) x then fs b x else fst w x in
    mkP (mkSys f' (snd w) (tr b)
               (mark (uproj U) (fun x => negb (oN_eqb (f' x) (fs b x)))
                     (fun n => negb (oN_eqb (snd w n) (ev b n))) (stt b)))
        (plk y).
  Definition build_world_p (U : universe) (w : world) (y : psys) : psys :=
    p_build U (p_resync U y w).

  (* no .stepup directory: only what the root node creates exists *)
  Definition p_empty (U : universe) : psys :=
    mkP empty_sys (fun id => existsb (fun u => (uid u =? id) && (ucr u =? 0)) U).

  (* ---------------------------------------------------------------------------------------- *)
  (* What a build from scratch leaves: the defining equations of the trusted region            *)
  (* ---------------------------------------------------------------------------------------- *)
  Definition Local_p (U : universe) (y : psys) (u : ustep) : Prop :=
    let b := pbase y in
    (ucr u = 0 -> plk y (uid u) = true) /\
    (forall c, In c U -> uid c = ucr u -> trusted U y (uid c) = true -> stt b (uid c) = Succeeded ->
               plk y (uid u) = memN (uid u) (defines b (ust c))) /\
    (trusted U y (uid u) = true ->
     if ready_t U y (ust u)
     then stt b (uid u) = Succeeded /\
          forall p, In p (out (ust u)) ->
                    fs b p = Some (run (uid u) (map (fs b) (inp (ust u))) (map (ev b) (envn (ust u))) p)
     else stt b (uid u) = Pending).
  Definition Finished_p (U : universe) (y : psys) : Prop := forall u, In u U -> Local_p U y u.

  Definition same_world_p (U : universe) (y z : psys) : Prop :=
    same_world (uproj U) (pbase y) (pbase z).

  (* the observable result: which steps are part of the workflow that the plans define, their
     states, the contents of the outputs of the SUCCEEDED ones *)
  Definition same_result_p (U : universe) (y z : psys) : Prop :=
    forall u, In u U ->
      trusted U y (uid u) = trusted U z (uid u) /\
      (trusted U y (uid u) = true ->
       stt (pbase y) (uid u) = stt (pbase z) (uid u) /\
       (stt (pbase y) (uid u) = Succeeded ->
        forall p, In p (out (ust u)) -> fs (pbase y) p = fs (pbase z) p)).

  Definition same_result_pb (U : universe) (y z : psys) : bool :=
    forallb (fun u =>
      Bool.eqb (trusted U y (uid u)) (trusted U z (uid u)) &&
      (negb (trusted U y (uid u)) ||
       (Bool.eqb (is_succ (stt (pbase y) (uid u))) (is_succ (stt (pbase z) (uid u))) &&
        (negb (is_succ (stt (pbase y) (uid u))) ||
         forallb (fun p => oN_eqb (fs (pbase y) p) (fs (pbase z) p)) (out (ust u)))))) U.
End Plan.

(* creators come first, ids are not 0 *)
Fixpoint creators_first (seen : list N) (U : universe) : bool :=
  match U with
  | [] => true
  | u :: rest => ((ucr u =? 0) || memN (ucr u) seen) && negb (uid u =? 0) &&
                 creators_first (uid u :: seen) rest
  end.
Definition wf_u (U : universe) : bool := wf (uproj U) && creators_first [] U.

(* the static files that a step declares are inputs of LATER steps only (plan.py comes first and
   declares the sources): then their re-declaration inside a build marks nobody who had his turn *)
Fixpoint ustat_later_from (seen : list ustep) (U : universe) : bool :=
  match U with
  | [] => true
  | u :: rest =>
    forallb (fun z => forallb (fun p => negb (memN p (ustat u))) (inp (ust z))) (u :: seen) &&
    ustat_later_from (u :: seen) rest
  end.
Definition ustat_later_b (U : universe) : bool := ustat_later_from [] U.

(* plan given as a table: (step id, content id of the FIRST declared input, ids defined) *)
Definition plan_tab (tab : list (N * N * list N)) (id : N) (contents envs : list (option N)) : list N :=
  amend_tab tab id contents.

(* correspondence checker (harness/c01_plan.py): per build the log, and after the build for every
   definition of the universe whether it is attached and whether it is attached and SUCCEEDED,
   and which outputs changed *)
Definition phase_spec_p := (phase_spec * list (N * bool))%type.
Fixpoint check_hist_p (tab : list (N * N * list N)) (U : universe) (y : psys)
         (phases : list phase_spec_p) : bool :=
  match phases with
  | [] => true
  | ((src, env, elog, est, echg), eatt) :: rest =>
    let y1 := p_resync U y (src_of src, src_of env) in
    let y2 := p_build mix_run (plan_tab tab) U y1 in
    log_eqb (p_build_log mix_run (plan_tab tab) U U y1) elog &&
    forallb (fun x => Bool.eqb (attached U y2 (fst x)) (snd x)) eatt &&
    forallb (fun x => Bool.eqb (attached U y2 (fst x) && is_succ (stt (pbase y2) (fst x))) (snd x)) est &&
    forallb (fun x => Bool.eqb (negb (oN_eqb (fs (pbase y2) (fst x)) (fs (pbase y) (fst x)))) (snd x)) echg &&
    check_hist_p tab U y2 rest
  end.

(* the build of one world on nothing, compared with a real build from scratch of the same sources *)
Definition check_scratch_p (tab : list (N * N * list N)) (U : universe) (src env : list (N * N))
           (eatt est : list (N * bool)) : bool :=
  let ys := p_build mix_run (plan_tab tab) U (p_resync U (p_empty U) (src_of src, src_of env)) in
  forallb (fun x => Bool.eqb (attached U ys (fst x)) (snd x)) eatt &&
  forallb (fun x => Bool.eqb (attached U ys (fst x) && is_succ (stt (pbase ys) (fst x))) (snd x)) est.

Fixpoint trace_hist_p (tab : list (N * N * list N)) (U : universe) (y : psys)
         (phases : list phase_spec_p)
  : list (list (N * bool) * list (N * bool) * list (N * bool) * list (N * bool)) :=
  match phases with
  | [] => []
  | ((src, env, _, est, echg), eatt) :: rest =>
    let y1 := p_resync U y (src_of src, src_of env) in
    let y2 := p_build mix_run (plan_tab tab) U y1 in
    (p_build_log mix_run (plan_tab tab) U U y1,
     map (fun x => (fst x, attached U y2 (fst x))) eatt,
     map (fun x => (fst x, attached U y2 (fst x) && is_succ (stt (pbase y2) (fst x)))) est,
     map (fun x => (fst x, negb (oN_eqb (fs (pbase y2) (fst x)) (fs (pbase y) (fst x))))) echg)
      :: trace_hist_p tab U y2 rest
  end.
